/-
Lemmas about the mirrors of `helpers/indexof.go` (Model/IndexOf.lean): every loop computes the first (last) index
satisfying its test — expressed with the SPECIFIED searches `findUp` of Model/Finders.lean, which is at the same
time the connection to the candidate-finder models — and never faults under the callers' precondition.
-/
import RegexVerif.Model.IndexOf
import RegexVerif.Lemmas.Finders

namespace RegexVerif.Lemmas.IndexOf
open RegexVerif RegexVerif.Finders RegexVerif.IndexOf RegexVerif.Lemmas.Finders

/-! ### vocabulary -/

/-- Go's encoding of "index or not found" -/
def toInt : Option Nat → Int
  | some q => (q : Int)
  | none => -1

/-- `r` is the FIRST index at which `P` holds, `-1` exactly when there is none -/
def FirstIdx (P : Nat → Prop) (r : Int) : Prop :=
  (r = -1 ∧ ∀ i, ¬ P i) ∨ ∃ i : Nat, r = (i : Int) ∧ P i ∧ ∀ j, j < i → ¬ P j

/-- `r` is the LAST index at which `P` holds, `-1` exactly when there is none -/
def LastIdx (P : Nat → Prop) (r : Int) : Prop :=
  (r = -1 ∧ ∀ i, ¬ P i) ∨ ∃ i : Nat, r = (i : Int) ∧ P i ∧ ∀ j, i < j → ¬ P j

theorem FirstIdx.congr {P Q : Nat → Prop} {r : Int} (h : ∀ i, P i ↔ Q i) (hr : FirstIdx P r) : FirstIdx Q r := by
  rcases hr with ⟨h1, h2⟩ | ⟨i, h1, h2, h3⟩
  · exact Or.inl ⟨h1, fun i hq => h2 i ((h i).mpr hq)⟩
  · exact Or.inr ⟨i, h1, (h i).mp h2, fun j hj hq => h3 j hj ((h j).mpr hq)⟩

theorem LastIdx.congr {P Q : Nat → Prop} {r : Int} (h : ∀ i, P i ↔ Q i) (hr : LastIdx P r) : LastIdx Q r := by
  rcases hr with ⟨h1, h2⟩ | ⟨i, h1, h2, h3⟩
  · exact Or.inl ⟨h1, fun i hq => h2 i ((h i).mpr hq)⟩
  · exact Or.inr ⟨i, h1, (h i).mp h2, fun j hj hq => h3 j hj ((h j).mpr hq)⟩

theorem memAt_iff (S : Nat → Bool) (text : List Nat) (i : Nat) :
    memAt S text i = true ↔ ∃ c, text[i]? = some c ∧ S c = true := by
  unfold memAt
  cases text[i]? with
  | none => simp
  | some c => simp

/-! ### facts about the specified search `findUp` -/

theorem findUp_firstIdx (P : Nat → Bool) (k : Nat) (hP : ∀ i, P i = true → i < k) :
    FirstIdx (fun i => P i = true) (toInt (findUp P k 0)) := by
  cases h : findUp P k 0 with
  | none =>
    left
    refine ⟨rfl, fun i hi => ?_⟩
    have hi' : P i = true := hi
    have := findUp_none P k 0 h i (Nat.zero_le _) (by have := hP i hi'; omega)
    rw [this] at hi'; exact Bool.noConfusion hi'
  | some q =>
    right
    obtain ⟨_, _, h3, h4⟩ := findUp_some P k 0 q h
    refine ⟨q, rfl, h3, fun j hj hq => ?_⟩
    have hq' : P j = true := hq
    rw [h4 j (Nat.zero_le _) hj] at hq'; exact Bool.noConfusion hq'

theorem findUp_congr (P Q : Nat → Bool) : ∀ (k q : Nat), (∀ p, q ≤ p → p < q + k → P p = Q p) →
    findUp P k q = findUp Q k q := by
  intro k
  induction k with
  | zero => intro q _; rfl
  | succ k ih =>
    intro q h
    unfold findUp
    rw [h q (Nat.le_refl _) (by omega), ih (q + 1) (fun p h1 h2 => h p (by omega) (by omega))]

/-- candidates at which the test cannot hold may be added to or dropped from the range -/
theorem findUp_extend (P : Nat → Bool) : ∀ (k k' q : Nat), k ≤ k' → (∀ p, q + k ≤ p → p < q + k' → P p = false) →
    findUp P k' q = findUp P k q := by
  intro k
  induction k with
  | zero =>
    intro k' q _ h
    cases hf : findUp P k' q with
    | none => rfl
    | some r =>
      obtain ⟨h1, h2, h3, _⟩ := findUp_some P k' q r hf
      rw [h r (by omega) h2] at h3; exact Bool.noConfusion h3
  | succ k ih =>
    intro k' q hk h
    cases k' with
    | zero => omega
    | succ k' =>
      unfold findUp
      rw [ih k' (q + 1) (by omega) (fun p h1 h2 => h p (by omega) (by omega))]

theorem findUp_shift (P : Nat → Bool) (s : Nat) : ∀ (k q : Nat),
    findUp P k (q + s) = (findUp (fun i => P (i + s)) k q).map (· + s) := by
  intro k
  induction k with
  | zero => intro q; rfl
  | succ k ih =>
    intro q
    unfold findUp
    by_cases hP : P (q + s) = true
    · simp [hP]
    · simp only [hP, if_false, Bool.false_eq_true]
      have := ih (q + 1)
      rw [show q + 1 + s = q + s + 1 by omega] at this
      exact this

theorem absIdx_toInt (s : Nat) (o : Option Nat) : absIdx s (some (toInt o)) = o.map (· + s) := by
  cases o with
  | none => simp [absIdx, toInt]
  | some q =>
    have h0 : ¬ ((q : Int) < 0) := by omega
    simp [absIdx, toInt, h0]
    omega

/-! ### `for i, c := range in` -/

theorem rangeLoop_findUp (test : Nat → Bool) (text : List Nat) : ∀ (k s i : Nat), k = text.length - s →
    rangeLoop test (text.drop s) i =
      match findUp (memAt test text) k s with
      | some q => ((q : Int) - s + i)
      | none => -1 := by
  intro k
  induction k with
  | zero =>
    intro s i hk
    rw [List.drop_eq_nil_of_le (by omega)]
    simp [rangeLoop, findUp]
  | succ k ih =>
    intro s i hk
    have hs : s < text.length := by omega
    rw [List.drop_eq_getElem_cons hs]
    unfold rangeLoop findUp
    have hm : memAt test text s = test text[s] := by
      unfold memAt; rw [List.getElem?_eq_getElem hs]
    rw [hm]
    by_cases ht : test text[s] = true
    · simp [ht]
    · simp only [ht, if_false, Bool.false_eq_true]
      rw [ih (s + 1) (i + 1) (by omega)]
      cases findUp (memAt test text) k (s + 1) with
      | none => rfl
      | some q => simp only; omega

/-- the whole-slice form: the loop returns the specified first index -/
theorem rangeLoop_eq (test : Nat → Bool) (inp : List Nat) :
    rangeLoop test inp 0 = toInt (findUp (memAt test inp) inp.length 0) := by
  have := rangeLoop_findUp test inp inp.length 0 0 (by omega)
  simp only [List.drop_zero] at this
  rw [this]
  cases findUp (memAt test inp) inp.length 0 with
  | none => rfl
  | some q => simp [toInt]

theorem rangeLoop_first (test : Nat → Bool) (inp : List Nat) :
    FirstIdx (fun i => ∃ c, inp[i]? = some c ∧ test c = true) (rangeLoop test inp 0) := by
  rw [rangeLoop_eq]
  exact (findUp_firstIdx (memAt test inp) inp.length (fun i h => memAt_lt _ _ _ h)).congr (memAt_iff test inp)

/-- a helper called on `text[s:]`, `-1` ↦ no candidate, else `s + offset`: the specified search from `s` -/
theorem absIdx_rangeLoop (test : Nat → Bool) (text : List Nat) (s : Nat) :
    absIdx s (some (rangeLoop test (text.drop s) 0)) = findUp (memAt test text) (text.length - s) s := by
  rw [rangeLoop_findUp test text (text.length - s) s 0 rfl]
  cases h : findUp (memAt test text) (text.length - s) s with
  | none => simp [absIdx]
  | some q =>
    obtain ⟨h1, _, _, _⟩ := findUp_some _ _ _ _ h
    simp only [absIdx]
    rw [if_neg (by omega)]
    congr 1
    omega

theorem rangeLoop_congr (t1 t2 : Nat → Bool) (h : ∀ c, t1 c = t2 c) (l : List Nat) (i : Nat) :
    rangeLoop t1 l i = rangeLoop t2 l i := by
  have : t1 = t2 := funext h
  rw [this]

theorem foundIn_eq (c : Nat) : ∀ (bad : List Nat), foundIn c bad = bad.contains c := by
  intro bad
  induction bad with
  | nil => rfl
  | cons b rest ih =>
    unfold foundIn
    rw [List.contains_cons, ih]
    by_cases h : b = c
    · subst h; simp
    · have h' : (c == b) = false := by simp; exact fun e => h e.symm
      simp [h, h']

/-! ### `for i := len(in) - 1; i >= 0; i--` -/

theorem downLoop_spec (test : Nat → Bool) (inp : List Nat) : ∀ (k : Nat), k ≤ inp.length →
    ∃ r, downLoop test inp k = some r ∧
      ((r = -1 ∧ ∀ i, i < k → memAt test inp i = false) ∨
       ∃ i : Nat, r = (i : Int) ∧ i < k ∧ memAt test inp i = true ∧ ∀ j, i < j → j < k → memAt test inp j = false) := by
  intro k
  induction k with
  | zero => intro _; exact ⟨-1, rfl, Or.inl ⟨rfl, fun i hi => by omega⟩⟩
  | succ k ih =>
    intro hk
    have hlt : k < inp.length := by omega
    unfold downLoop
    rw [List.getElem?_eq_getElem hlt]
    have hm : memAt test inp k = test inp[k] := by
      unfold memAt; rw [List.getElem?_eq_getElem hlt]
    by_cases ht : test inp[k] = true
    · simp only [ht, if_true]
      exact ⟨k, rfl, Or.inr ⟨k, rfl, by omega, by rw [hm]; exact ht, fun j h1 h2 => by omega⟩⟩
    · simp only [ht, if_false, Bool.false_eq_true]
      have hf : memAt test inp k = false := by rw [hm]; simpa using ht
      obtain ⟨r, hr, hspec⟩ := ih (by omega)
      refine ⟨r, hr, ?_⟩
      rcases hspec with ⟨h1, h2⟩ | ⟨i, h1, h2, h3, h4⟩
      · left
        refine ⟨h1, fun i hi => ?_⟩
        by_cases hik : i = k
        · subst hik; exact hf
        · exact h2 i (by omega)
      · right
        refine ⟨i, h1, by omega, h3, fun j hj1 hj2 => ?_⟩
        by_cases hjk : j = k
        · subst hjk; exact hf
        · exact h4 j hj1 (by omega)

theorem downLoop_last (test : Nat → Bool) (inp : List Nat) :
    ∃ r, downLoop test inp inp.length = some r ∧ LastIdx (fun i => ∃ c, inp[i]? = some c ∧ test c = true) r := by
  obtain ⟨r, hr, hspec⟩ := downLoop_spec test inp inp.length (Nat.le_refl _)
  refine ⟨r, hr, LastIdx.congr (memAt_iff test inp) ?_⟩
  rcases hspec with ⟨h1, h2⟩ | ⟨i, h1, h2, h3, h4⟩
  · left
    refine ⟨h1, fun i hi => ?_⟩
    have hi : memAt test inp i = true := hi
    have := memAt_lt _ _ _ hi
    rw [h2 i this] at hi; exact Bool.noConfusion hi
  · right
    refine ⟨i, h1, h3, fun j hj hq => ?_⟩
    have hq : memAt test inp j = true := hq
    have := memAt_lt _ _ _ hq
    rw [h4 j hj this] at hq; exact Bool.noConfusion hq

/-! ### the sub-slice searches: `for i := 0; i <= end; i++` -/

theorem fwdLoop_findUp (inp : List Nat) (head : Nat → Bool) (body : Nat → Option Bool) (M : Nat → Bool) :
    ∀ (k i : Nat),
      (∀ j, i ≤ j → j < i + k → ∃ c, inp[j]? = some c ∧ (if head c = true then body j = some (M j) else M j = false)) →
      fwdLoop inp head body k i = some (toInt (findUp M k i)) := by
  intro k
  induction k with
  | zero => intro i _; rfl
  | succ k ih =>
    intro i h
    obtain ⟨c, hc, hb⟩ := h i (Nat.le_refl _) (by omega)
    have ih' := ih (i + 1) (fun j h1 h2 => h j (by omega) (by omega))
    unfold fwdLoop findUp
    rw [hc]
    by_cases hh : head c = true
    · rw [if_pos hh] at hb
      simp only [hh, if_true, hb]
      cases hM : M i with
      | true => simp [toInt]
      | false => simp only [Bool.false_eq_true, if_false]; exact ih'
    · rw [if_neg hh] at hb
      simp only [hh, if_false, hb, Bool.false_eq_true]
      exact ih'

theorem drop_cons_of_lt (l : List Nat) (i : Nat) (h : i < l.length) : l.drop i = l[i] :: l.drop (i + 1) :=
  List.drop_eq_getElem_cons h

/-- the inner comparison loop computes `prefixOf` on the rest of the needle -/
theorem cmpFrom_spec (eq : Nat → Nat → Bool) (inp : List Nat) (i : Nat) : ∀ (rest : List Nat) (j : Nat),
    i + j + rest.length ≤ inp.length → cmpFrom eq inp i rest j = some (prefixOf eq rest (inp.drop (i + j))) := by
  intro rest
  induction rest with
  | nil => intro j _; simp [cmpFrom, prefixOf]
  | cons f rest ih =>
    intro j h
    simp only [List.length_cons] at h
    have hlt : i + j < inp.length := by omega
    unfold cmpFrom
    rw [List.getElem?_eq_getElem hlt, drop_cons_of_lt inp (i + j) hlt]
    simp only [prefixOf]
    by_cases he : eq inp[i + j] f = true
    · simp only [he, if_true, Bool.true_and]
      have := ih (j + 1) (by omega)
      rw [show i + (j + 1) = i + j + 1 by omega] at this
      exact this
    · simp [he]

theorem iterations_lt {inp : List Nat} {f : Nat} {rest : List Nat} {j : Nat} (h : j < 0 + iterations inp (f :: rest)) :
    j + (rest.length + 1) ≤ inp.length := by
  simp only [iterations, List.length_cons] at h; omega

/-- `IndexOfIgnoreCase` / `IndexOfIgnoreCaseAscii` for a needle `f :: rest`: first rune tested by `head`, the others
    by the inner loop, both with the comparison `eq` -/
theorem fwd_cmp_eq (eq : Nat → Nat → Bool) (inp : List Nat) (f : Nat) (rest : List Nat) :
    fwdLoop inp (fun c => eq c f) (fun i => cmpFrom eq inp i rest 1) (iterations inp (f :: rest)) 0 =
      some (toInt (findUp (occursAt eq (f :: rest) inp) (iterations inp (f :: rest)) 0)) := by
  apply fwdLoop_findUp
  intro j _ hj
  have hfit := iterations_lt hj
  have hlt : j < inp.length := by omega
  refine ⟨inp[j], List.getElem?_eq_getElem hlt, ?_⟩
  have hocc : occursAt eq (f :: rest) inp j = (eq inp[j] f && prefixOf eq rest (inp.drop (j + 1))) := by
    unfold occursAt; rw [drop_cons_of_lt inp j hlt]; rfl
  by_cases hh : eq inp[j] f = true
  · simp only [hh, if_true]
    rw [cmpFrom_spec eq inp j rest 1 (by omega), hocc, hh, Bool.true_and]
  · simp only [hh, if_false, Bool.false_eq_true]
    rw [hocc]; simp [hh]

theorem occursAt_lt_iterations (eq : Nat → Nat → Bool) (inp find : List Nat) (hne : find ≠ []) (i : Nat)
    (h : occursAt eq find inp i = true) : i < iterations inp find := by
  have := occursAt_fits' eq find inp i hne h
  unfold iterations; omega

theorem slice_some (inp : List Nat) (lo hi : Nat) (h1 : lo ≤ hi) (h2 : hi ≤ inp.length) :
    slice inp lo hi = some ((inp.drop lo).take (hi - lo)) := by
  unfold slice; rw [if_pos ⟨h1, h2⟩]

theorem bytesEqual_some (a b : List Nat) (ha : a ≠ []) (hb : b ≠ []) : bytesEqual a b = some (decide (a = b)) := by
  cases a with
  | nil => exact absurd rfl ha
  | cons x xs =>
    cases b with
    | nil => exact absurd rfl hb
    | cons y ys => rfl

theorem take_drop_ne_nil (inp : List Nat) (i m : Nat) (hm : 0 < m) (h : i + m ≤ inp.length) :
    (inp.drop i).take m ≠ [] := by
  intro hnil
  have := congrArg List.length hnil
  simp at this; omega

theorem decide_occurs (find inp : List Nat) (i : Nat) :
    decide ((inp.drop i).take find.length = find) = occursAt eqExact find inp i := by
  by_cases h : (inp.drop i).take find.length = find
  · rw [decide_eq_true h, (occursAt_exact find inp i).mpr h]
  · rw [decide_eq_false h]
    cases ho : occursAt eqExact find inp i with
    | false => rfl
    | true => exact absurd ((occursAt_exact find inp i).mp ho) h

/-- the window test of `IndexOf` / `LastIndexOf` / `StartsWith` / `Equals`: `bytesEqual(in[i:i+len(find)], find)` -/
theorem window_eq (inp find : List Nat) (hne : find ≠ []) (i : Nat) (h : i + find.length ≤ inp.length) :
    (match slice inp i (i + find.length) with
      | none => none
      | some s => bytesEqual s find) = some (occursAt eqExact find inp i) := by
  have hm : 0 < find.length := List.length_pos_iff.mpr hne
  rw [slice_some inp i (i + find.length) (by omega) h, show i + find.length - i = find.length by omega]
  simp only
  rw [bytesEqual_some _ _ (take_drop_ne_nil inp i find.length hm h) hne, decide_occurs]

theorem indexOf_eq (inp find : List Nat) (hne : find ≠ []) :
    indexOf inp find = some (toInt (findUp (occursAt eqExact find inp) (iterations inp find) 0)) := by
  cases find with
  | nil => exact absurd rfl hne
  | cons f rest =>
    unfold indexOf
    simp only [List.getElem?_cons_zero]
    apply fwdLoop_findUp
    intro j _ hj
    have hfit := iterations_lt hj
    have hlt : j < inp.length := by omega
    refine ⟨inp[j], List.getElem?_eq_getElem hlt, ?_⟩
    by_cases hh : (inp[j] == f) = true
    · simp only [hh, if_true]
      exact window_eq inp (f :: rest) hne j (by simp only [List.length_cons]; omega)
    · simp only [hh, if_false, Bool.false_eq_true]
      unfold occursAt; rw [drop_cons_of_lt inp j hlt]
      simp only [prefixOf, eqExact]
      simp [hh]

theorem eqLowerGo_eq (lower : Nat → Nat) : eqLowerGo lower = eqLower lower := by
  funext t c
  unfold eqLowerGo eqLower
  cases h1 : (t == c) <;> cases h2 : (lower t == c) <;> simp [bne, h1, h2]

theorem eqAsciiGo_eq : (fun t c : Nat => !(foldASCII t != foldASCII c)) = eqAsciiFold := by
  funext t c
  unfold eqAsciiFold
  cases h : (foldASCII t == foldASCII c) <;> simp [bne, h]

theorem indexOfIgnoreCase_eq (lower : Nat → Nat) (inp find : List Nat) (hne : find ≠ []) :
    indexOfIgnoreCase lower inp find =
      some (toInt (findUp (occursAt (eqLower lower) find inp) (iterations inp find) 0)) := by
  cases find with
  | nil => exact absurd rfl hne
  | cons f rest =>
    unfold indexOfIgnoreCase
    simp only [List.getElem?_cons_zero, List.drop_succ_cons, List.drop_zero]
    have := fwd_cmp_eq (eqLowerGo lower) inp f rest
    rw [eqLowerGo_eq] at this
    rw [← this, ← eqLowerGo_eq]
    rfl

theorem indexOfIgnoreCaseAscii_eq (inp find : List Nat) (hne : find ≠ []) :
    indexOfIgnoreCaseAscii inp find =
      some (toInt (findUp (occursAt eqAsciiFold find inp) (iterations inp find) 0)) := by
  cases find with
  | nil => exact absurd rfl hne
  | cons f rest =>
    unfold indexOfIgnoreCaseAscii
    simp only [List.length_cons, Nat.add_one_ne_zero, if_false, List.getElem?_cons_zero, List.drop_succ_cons,
      List.drop_zero]
    have := fwd_cmp_eq (fun t c : Nat => !(foldASCII t != foldASCII c)) inp f rest
    rw [eqAsciiGo_eq] at this
    rw [← this, ← eqAsciiGo_eq]

/-- from the specified search over the loop's range to "first index of all" -/
theorem sub_firstIdx (eq : Nat → Nat → Bool) (inp find : List Nat) (hne : find ≠ []) :
    FirstIdx (fun i => occursAt eq find inp i = true) (toInt (findUp (occursAt eq find inp) (iterations inp find) 0)) :=
  findUp_firstIdx _ _ (occursAt_lt_iterations eq inp find hne)

/-! ### `StartsWith`, `StartsWithIgnoreCase`, `Equals`, `EqualsIgnoreCase` -/

theorem occursAt_short (eq : Nat → Nat → Bool) (inp find : List Nat) (i : Nat) (hi : i ≤ inp.length)
    (h : inp.length < i + find.length) :
    occursAt eq find inp i = false := by
  cases ho : occursAt eq find inp i with
  | false => rfl
  | true =>
    rcases occursAt_fits eq find inp i ho with h' | h'
    · omega
    · subst h'; simp at h; omega

theorem startsWith_eq (inp find : List Nat) (hne : find ≠ []) :
    startsWith inp find = some (occursAt eqExact find inp 0) := by
  unfold startsWith
  by_cases hlen : inp.length < find.length
  · rw [if_pos hlen, occursAt_short eqExact inp find 0 (Nat.zero_le _) (by omega)]
  · rw [if_neg hlen]
    have := window_eq inp find hne 0 (by omega)
    simp only [Nat.zero_add] at this
    exact this

theorem swicLoop_spec (lower : Nat → Nat) (inp : List Nat) : ∀ (rest : List Nat) (i : Nat),
    i + rest.length ≤ inp.length → swicLoop lower inp rest i = some (prefixOf (eqLower lower) rest (inp.drop i)) := by
  intro rest
  induction rest with
  | nil => intro i _; simp [swicLoop, prefixOf]
  | cons f rest ih =>
    intro i h
    simp only [List.length_cons] at h
    have hlt : i < inp.length := by omega
    unfold swicLoop
    rw [List.getElem?_eq_getElem hlt, drop_cons_of_lt inp i hlt]
    simp only [prefixOf, eqLower]
    by_cases h1 : (inp[i] == f) = true
    · simp only [h1, if_true, Bool.true_or, Bool.true_and]
      exact ih (i + 1) (by omega)
    · by_cases h2 : (lower inp[i] == f) = true
      · simp only [h1, if_false, Bool.false_eq_true, bne, h2, Bool.not_true, Bool.false_or, Bool.true_and]
        exact ih (i + 1) (by omega)
      · simp [h1, h2, bne]

theorem startsWithIgnoreCase_eq (lower : Nat → Nat) (inp find : List Nat) :
    startsWithIgnoreCase lower inp find = some (occursAt (eqLower lower) find inp 0) := by
  unfold startsWithIgnoreCase
  by_cases hlen : inp.length < find.length
  · rw [if_pos hlen, occursAt_short _ inp find 0 (Nat.zero_le _) (by omega)]
  · rw [if_neg hlen, swicLoop_spec lower inp find 0 (by omega)]
    rfl

theorem equals_eq (inp : List Nat) (start length : Nat) (find : List Nat)
    (hfit : start + length ≤ inp.length) (hwin : find = [] ∨ 0 < length) :
    equals inp start length find = some (decide (find = [] ∨ (inp.drop start).take length = find)) := by
  unfold equals
  by_cases hnil : find = []
  · subst hnil; simp
  · have hl : find.length ≠ 0 := fun h => hnil (List.length_eq_zero_iff.mp h)
    have hpos : 0 < length := by rcases hwin with h | h; exact absurd h hnil; exact h
    rw [if_neg hl, slice_some inp start (start + length) (by omega) hfit,
      show start + length - start = length by omega]
    simp only
    rw [bytesEqual_some _ _ (take_drop_ne_nil inp start length hpos hfit) hnil]
    simp [hnil]

/-- the comparison of `EqualsIgnoreCase`: equal, or equal after `unicode.ToLower` of BOTH runes -/
def eqLowerBoth (lower : Nat → Nat) (t c : Nat) : Bool := t == c || lower t == lower c

theorem eqicLoop_spec (lower : Nat → Nat) (inp : List Nat) (start : Nat) : ∀ (rest : List Nat) (j : Nat),
    start + j + rest.length ≤ inp.length →
    eqicLoop lower inp start rest j = some (prefixOf (eqLowerBoth lower) rest (inp.drop (start + j))) := by
  intro rest
  induction rest with
  | nil => intro j _; simp [eqicLoop, prefixOf]
  | cons f rest ih =>
    intro j h
    simp only [List.length_cons] at h
    have hlt : start + j < inp.length := by omega
    unfold eqicLoop
    rw [List.getElem?_eq_getElem hlt, drop_cons_of_lt inp (start + j) hlt]
    simp only [prefixOf, eqLowerBoth]
    have ih' := ih (j + 1) (by omega)
    rw [show start + (j + 1) = start + j + 1 by omega] at ih'
    cases h1 : (inp[start + j] == f) <;> cases h2 : (lower inp[start + j] == lower f) <;>
      simp [bne, h1, h2, ih']

theorem prefixOf_mono (eq1 eq2 : Nat → Nat → Bool) (h : ∀ t c, eq1 t c = true → eq2 t c = true) :
    ∀ (pat ts : List Nat), prefixOf eq1 pat ts = true → prefixOf eq2 pat ts = true := by
  intro pat
  induction pat with
  | nil => intro ts _; simp [prefixOf]
  | cons c ps ih =>
    intro ts hp
    cases ts with
    | nil => simp [prefixOf] at hp
    | cons t ts =>
      simp only [prefixOf, Bool.and_eq_true] at hp ⊢
      exact ⟨h _ _ hp.1, ih ts hp.2⟩

theorem equalsIgnoreCase_eq (lower : Nat → Nat) (inp : List Nat) (start : Nat) (find : List Nat)
    (hfit : start + find.length ≤ inp.length) :
    equalsIgnoreCase lower inp start find.length find = some (occursAt (eqLowerBoth lower) find inp start) := by
  unfold equalsIgnoreCase
  rw [equals_eq inp start find.length find hfit (by
    cases find with
    | nil => exact Or.inl rfl
    | cons f rest => right; simp)]
  have hloop := eqicLoop_spec lower inp start find 0 (by omega)
  simp only [Nat.add_zero] at hloop
  by_cases hd : find = [] ∨ (inp.drop start).take find.length = find
  · rw [decide_eq_true hd]
    simp only
    have : occursAt (eqLowerBoth lower) find inp start = true := by
      rcases hd with h | h
      · subst h; simp [occursAt, prefixOf]
      · have := (occursAt_exact find inp start).mpr h
        exact prefixOf_mono eqExact (eqLowerBoth lower) (fun t c ht => by simp [eqLowerBoth, eqExact] at ht ⊢; exact Or.inl ht) _ _ this
    rw [this]
  · rw [decide_eq_false hd]
    simp only
    exact hloop

/-! ### `LastIndexOf` -/

theorem lastIndexOfLoop_spec (inp : List Nat) (f : Nat) (rest : List Nat) (last : Nat)
    (hlast : (f :: rest)[rest.length]? = some last) : ∀ (k : Nat), k ≤ iterations inp (f :: rest) →
    ∃ r, lastIndexOfLoop inp (f :: rest) f last rest.length k = some r ∧
      ((r = -1 ∧ ∀ i, i < k → occursAt eqExact (f :: rest) inp i = false) ∨
       ∃ i : Nat, r = (i : Int) ∧ i < k ∧ occursAt eqExact (f :: rest) inp i = true ∧
         ∀ j, i < j → j < k → occursAt eqExact (f :: rest) inp j = false) := by
  intro k
  induction k with
  | zero => intro _; exact ⟨-1, rfl, Or.inl ⟨rfl, fun i hi => by omega⟩⟩
  | succ k ih =>
    intro hk
    have hfit : k + (rest.length + 1) ≤ inp.length := by
      simp only [iterations, List.length_cons] at hk; omega
    have hlt : k < inp.length := by omega
    have hlt2 : k + rest.length < inp.length := by omega
    obtain ⟨r, hr, hspec⟩ := ih (by omega)
    -- what a failing iteration contributes
    have miss : occursAt eqExact (f :: rest) inp k = false →
        ∃ r, some r = some r ∧ ((r = -1 ∧ ∀ i, i < k + 1 → occursAt eqExact (f :: rest) inp i = false) ∨
          ∃ i : Nat, r = (i : Int) ∧ i < k + 1 ∧ occursAt eqExact (f :: rest) inp i = true ∧
            ∀ j, i < j → j < k + 1 → occursAt eqExact (f :: rest) inp j = false) ∧
          lastIndexOfLoop inp (f :: rest) f last rest.length k = some r := by
      intro hf
      refine ⟨r, rfl, ?_, hr⟩
      rcases hspec with ⟨h1, h2⟩ | ⟨i, h1, h2, h3, h4⟩
      · left
        refine ⟨h1, fun i hi => ?_⟩
        by_cases hik : i = k
        · subst hik; exact hf
        · exact h2 i (by omega)
      · right
        refine ⟨i, h1, by omega, h3, fun j hj1 hj2 => ?_⟩
        by_cases hjk : j = k
        · subst hjk; exact hf
        · exact h4 j hj1 (by omega)
    unfold lastIndexOfLoop
    rw [List.getElem?_eq_getElem hlt]
    simp only
    by_cases h1 : (inp[k] == f) = true
    · simp only [h1, if_true]
      rw [List.getElem?_eq_getElem hlt2]
      simp only
      by_cases h2 : (inp[k + rest.length] == last) = true
      · simp only [h2, if_true]
        have hw := window_eq inp (f :: rest) (by simp) k (by simp only [List.length_cons]; omega)
        simp only [List.length_cons] at hw
        cases hs : slice inp k (k + (rest.length + 1)) with
        | none => rw [hs] at hw; simp at hw
        | some s =>
          rw [hs] at hw
          simp only at hw ⊢
          rw [hw]
          cases ho : occursAt eqExact (f :: rest) inp k with
          | true =>
            simp only
            exact ⟨k, rfl, Or.inr ⟨k, rfl, by omega, ho, fun j hj1 hj2 => by omega⟩⟩
          | false =>
            simp only
            obtain ⟨r', _, hsp, hr'⟩ := miss ho
            exact ⟨r', hr', hsp⟩
      · simp only [h2, if_false, Bool.false_eq_true]
        have ho : occursAt eqExact (f :: rest) inp k = false := by
          cases ho : occursAt eqExact (f :: rest) inp k with
          | false => rfl
          | true =>
            exfalso
            have ht := (occursAt_exact (f :: rest) inp k).mp ho
            have hg : ((inp.drop k).take (f :: rest).length)[rest.length]? = some inp[k + rest.length] := by
              rw [List.getElem?_take_of_lt (by simp), List.getElem?_drop, List.getElem?_eq_getElem hlt2]
            rw [ht, hlast] at hg
            injection hg with hg
            exact h2 (by simp [hg])
        obtain ⟨r', _, hsp, hr'⟩ := miss ho
        exact ⟨r', hr', hsp⟩
    · simp only [h1, if_false, Bool.false_eq_true]
      have ho : occursAt eqExact (f :: rest) inp k = false := by
        unfold occursAt; rw [drop_cons_of_lt inp k hlt]
        simp only [prefixOf, eqExact]
        simp [h1]
      obtain ⟨r', _, hsp, hr'⟩ := miss ho
      exact ⟨r', hr', hsp⟩

theorem lastIndexOf_last (inp find : List Nat) (hne : find ≠ []) :
    ∃ r, lastIndexOf inp find = some r ∧ LastIdx (fun i => occursAt eqExact find inp i = true) r := by
  cases find with
  | nil => exact absurd rfl hne
  | cons f rest =>
    have hl : ∃ last, (f :: rest)[rest.length]? = some last :=
      ⟨(f :: rest)[rest.length]'(by simp), List.getElem?_eq_getElem (by simp)⟩
    obtain ⟨last, hlast⟩ := hl
    obtain ⟨r, hr, hspec⟩ := lastIndexOfLoop_spec inp f rest last hlast (iterations inp (f :: rest)) (Nat.le_refl _)
    refine ⟨r, ?_, ?_⟩
    · unfold lastIndexOf
      simp only [List.getElem?_cons_zero, List.length_cons, Nat.add_sub_cancel]
      rw [hlast]
      exact hr
    · rcases hspec with ⟨h1, h2⟩ | ⟨i, h1, h2, h3, h4⟩
      · left
        refine ⟨h1, fun i hi => ?_⟩
        have hi : occursAt eqExact (f :: rest) inp i = true := hi
        rw [h2 i (occursAt_lt_iterations _ _ _ hne i hi)] at hi; exact Bool.noConfusion hi
      · right
        refine ⟨i, h1, h3, fun j hj hq => ?_⟩
        have hq : occursAt eqExact (f :: rest) inp j = true := hq
        rw [h4 j hj (occursAt_lt_iterations _ _ _ hne j hq)] at hq; exact Bool.noConfusion hq

/-! ### the call sites of `runner.go`: a helper on `text[s:]`, `-1` ↦ no candidate, else `s + offset` -/

theorem occursAt_drop (eq : Nat → Nat → Bool) (find text : List Nat) (s i : Nat) :
    occursAt eq find (text.drop s) i = occursAt eq find text (i + s) := by
  unfold occursAt; rw [List.drop_drop, Nat.add_comm]

/-- the specified sub-slice search of the finder models, from `s`, over ANY range that covers the loop's -/
theorem sub_callsite (eq : Nat → Nat → Bool) (text find : List Nat) (hne : find ≠ []) (s k' : Nat)
    (hk : iterations (text.drop s) find ≤ k') :
    absIdx s (some (toInt (findUp (occursAt eq find (text.drop s)) (iterations (text.drop s) find) 0))) =
      findUp (occursAt eq find text) k' s := by
  rw [absIdx_toInt]
  have hsh := findUp_shift (occursAt eq find text) s (iterations (text.drop s) find) 0
  rw [Nat.zero_add] at hsh
  have hfun : (fun i => occursAt eq find text (i + s)) = occursAt eq find (text.drop s) :=
    funext fun i => (occursAt_drop eq find text s i).symm
  rw [hfun] at hsh
  rw [← hsh]
  refine (findUp_extend _ _ k' s hk ?_).symm
  intro p hp _
  cases ho : occursAt eq find text p with
  | false => rfl
  | true =>
    have := occursAt_fits' eq find text p hne ho
    have hm : 0 < find.length := List.length_pos_iff.mpr hne
    simp only [iterations, List.length_drop] at hp
    omega

theorem indexOf_callsite (text find : List Nat) (hne : find ≠ []) (s k' : Nat)
    (hk : iterations (text.drop s) find ≤ k') :
    absIdx s (indexOf (text.drop s) find) = findUp (occursAt eqExact find text) k' s := by
  rw [indexOf_eq _ _ hne]; exact sub_callsite eqExact text find hne s k' hk

theorem indexOfIgnoreCase_callsite (lower : Nat → Nat) (text find : List Nat) (hne : find ≠ []) (s k' : Nat)
    (hk : iterations (text.drop s) find ≤ k') :
    absIdx s (indexOfIgnoreCase lower (text.drop s) find) = findUp (occursAt (eqLower lower) find text) k' s := by
  rw [indexOfIgnoreCase_eq _ _ _ hne]; exact sub_callsite _ text find hne s k' hk

theorem indexOfIgnoreCaseAscii_callsite (text find : List Nat) (hne : find ≠ []) (s k' : Nat)
    (hk : iterations (text.drop s) find ≤ k') :
    absIdx s (indexOfIgnoreCaseAscii (text.drop s) find) = findUp (occursAt eqAsciiFold find text) k' s := by
  rw [indexOfIgnoreCaseAscii_eq _ _ hne]; exact sub_callsite _ text find hne s k' hk

/-- the three-way choice of `findLeadingStringLeftToRight` / `indexOfLiteralAfterLoop` -/
theorem leadingStringSearch_callsite (lower : Nat → Nat) (pat : List Nat) (ignoreCase : Bool) (text : List Nat)
    (hne : pat ≠ []) (s k' : Nat) (hk : iterations (text.drop s) pat ≤ k') :
    absIdx s (leadingStringSearch lower pat ignoreCase (text.drop s)) =
      findUp (occursAt (stringEq lower ignoreCase pat) pat text) k' s := by
  unfold leadingStringSearch stringEq
  cases ignoreCase with
  | false => simp only [Bool.false_eq_true, if_false]; exact indexOf_callsite text pat hne s k' hk
  | true =>
    simp only [if_true]
    cases isAscii pat with
    | true => simp only [if_true]; exact indexOfIgnoreCaseAscii_callsite text pat hne s k' hk
    | false => simp only [Bool.false_eq_true, if_false]; exact indexOfIgnoreCase_callsite lower text pat hne s k' hk

theorem iterations_drop_le (text find : List Nat) (s : Nat) (hne : find ≠ []) :
    iterations (text.drop s) find ≤ text.length - s := by
  have hm : 0 < find.length := List.length_pos_iff.mpr hne
  simp only [iterations, List.length_drop]; omega

theorem getElem?_beq_eq_memAt (text : List Nat) (c : Nat) :
    (fun i => text[i]? == some c) = memAt (fun x => x == c) text := by
  funext i
  unfold memAt
  cases text[i]? with
  | none => rfl
  | some x => simp

theorem indexOfAny1_callsite (text : List Nat) (c s : Nat) :
    absIdx s (indexOfAny1 (text.drop s) c) = findUp (fun i => text[i]? == some c) (text.length - s) s := by
  rw [getElem?_beq_eq_memAt]; exact absIdx_rangeLoop _ text s

theorem rangeLoop_false : ∀ (l : List Nat) (i : Nat), rangeLoop (fun _ => false) l i = -1 := by
  intro l
  induction l with
  | nil => intro i; rfl
  | cons c rest ih => intro i; simp [rangeLoop, ih]

/-- `IndexOfAny` needs no special case for an empty `find`: the loop finds nothing -/
theorem indexOfAny_eq (inp find : List Nat) : indexOfAny inp find = some (rangeLoop (fun c => find.contains c) inp 0) := by
  unfold indexOfAny
  by_cases h : find.length = 0
  · rw [if_pos h]
    have : find = [] := List.length_eq_zero_iff.mp h
    subst this
    have : (fun c : Nat => ([] : List Nat).contains c) = fun _ => false := by funext c; simp
    rw [this, rangeLoop_false]
  · rw [if_neg h]

/-- `indexOfAnyRunes`: whichever of the five branches is taken, the first rune of the input that is in `find` -/
theorem indexOfAnyRunes_eq (inp find : List Nat) :
    indexOfAnyRunes inp find = some (rangeLoop (fun c => find.contains c) inp 0) := by
  unfold indexOfAnyRunes
  split
  · rw [← indexOfAny_eq]; rfl
  · unfold indexOfAny1; congr 1
    exact rangeLoop_congr _ _ (fun c => by simp only [List.contains_cons, List.contains_nil, Bool.or_false]) _ _
  · unfold indexOfAny2; congr 1
    exact rangeLoop_congr _ _ (fun c => by simp only [List.contains_cons, List.contains_nil, Bool.or_false]) _ _
  · unfold indexOfAny3; congr 1
    exact rangeLoop_congr _ _ (fun c => by
      simp only [List.contains_cons, List.contains_nil, Bool.or_false, Bool.or_assoc]) _ _
  · exact indexOfAny_eq inp find

theorem indexOfAny_callsite (text find : List Nat) (s : Nat) :
    absIdx s (indexOfAny (text.drop s) find) = findUp (memAt (fun c => find.contains c) text) (text.length - s) s := by
  rw [indexOfAny_eq]; exact absIdx_rangeLoop _ text s

theorem memAt_take (S : Nat → Bool) (text : List Nat) (e i : Nat) (h : i < e) :
    memAt S (text.take e) i = memAt S text i := by
  unfold memAt; rw [List.getElem?_take_of_lt h]

/-- the call of `findLeadingStringsLeftToRight`: `indexOfAnyRunes(r.Runtext[searchAt:latest+1], firstRunes)` -/
theorem indexOfAnyRunes_callsite (text find : List Nat) (s e : Nat) (he : e ≤ text.length) :
    absIdx s (indexOfAnyRunes ((text.take e).drop s) find) = findUp (memAt (fun c => find.contains c) text) (e - s) s := by
  rw [indexOfAnyRunes_eq, absIdx_rangeLoop, List.length_take, Nat.min_eq_left he]
  exact findUp_congr _ _ _ _ (fun p _ h2 => memAt_take _ text e p (by omega))

/-- `indexOfSet(chars, set)`: whichever helper is selected, it searches the first rune passing
    `charInFixedDistanceSet` -/
theorem indexOfSet_eq (inp : List Nat) (st : FDSet) : indexOfSet inp st = some (rangeLoop st.mem inp 0) := by
  unfold indexOfSet
  by_cases hc : st.chars.length > 0
  · have hne : st.chars.isEmpty = false := by
      cases hch : st.chars with
      | nil => rw [hch] at hc; simp at hc
      | cons a b => rfl
    cases hn : st.negated with
    | false =>
      simp only [hc, decide_true, Bool.not_false, Bool.and_self, if_true]
      rw [indexOfAny_eq]; congr 1
      exact rangeLoop_congr _ _ (fun c => by simp [FDSet.mem, hne, hn]) _ _
    | true =>
      simp only [hc, decide_true, Bool.not_true, Bool.and_false, Bool.false_eq_true, if_false, Bool.and_self, if_true]
      unfold indexOfAnyExcept; congr 1
      exact rangeLoop_congr _ _ (fun c => by simp [FDSet.mem, hne, hn, foundIn_eq]) _ _
  · have he : st.chars.isEmpty = true := by
      cases hch : st.chars with
      | nil => rfl
      | cons a b => rw [hch] at hc; simp at hc
    simp only [hc, decide_false, Bool.false_and, Bool.false_eq_true, if_false]
    cases hr : st.range with
    | none =>
      simp only
      unfold indexFunc; rfl
    | some lohi =>
      obtain ⟨lo, hi⟩ := lohi
      simp only
      cases hn : st.negated with
      | false =>
        simp only [Bool.false_eq_true, if_false]
        unfold indexOfAnyInRange; congr 1
        exact rangeLoop_congr _ _ (fun c => by simp [FDSet.mem, he, hr, hn]) _ _
      | true =>
        simp only [if_true]
        unfold indexOfAnyExceptInRange; congr 1
        refine rangeLoop_congr _ _ (fun c => ?_) _ _
        simp only [FDSet.mem, he, hr, hn, Bool.not_true, Bool.false_eq_true, if_false, if_true]
        by_cases h1 : c > hi
        · have : ¬ c ≤ hi := by omega
          simp [h1, this]
        · by_cases h2 : c < lo
          · have : ¬ lo ≤ c := by omega
            simp [h1, h2, this]
          · have a1 : lo ≤ c := by omega
            have a2 : c ≤ hi := by omega
            simp [h1, h2, a1, a2]

theorem indexOfSet_callsite (text : List Nat) (st : FDSet) (s : Nat) :
    absIdx s (indexOfSet (text.drop s) st) = findUp (memAt st.mem text) (text.length - s) s := by
  rw [indexOfSet_eq]; exact absIdx_rangeLoop _ text s

theorem indexOfLiteralAfterLoop_callsite (lower : Nat → Nat) (l : LitAfterLoop) (text : List Nat) (s : Nat) :
    indexOfLiteralAfterLoop lower l text s = findUp (l.litAt lower text) (text.length - s) s := by
  unfold indexOfLiteralAfterLoop
  by_cases hs : l.str.isEmpty = true
  · have hfun1 : l.litAt lower text =
        (if !l.chars.isEmpty then memAt (fun c => l.chars.contains c) text else fun k => text[k]? == some l.char) := by
      funext k; unfold LitAfterLoop.litAt; simp only [hs, Bool.not_true, Bool.false_eq_true, if_false]
      split <;> rfl
    rw [hfun1]
    simp only [hs, Bool.not_true, Bool.false_eq_true, if_false]
    by_cases hc : l.chars.length > 0
    · have : l.chars.isEmpty = false := by
        cases hch : l.chars with
        | nil => rw [hch] at hc; simp at hc
        | cons a b => rfl
      simp only [hc, decide_true, if_true, this, Bool.not_false]
      exact indexOfAny_callsite text l.chars s
    · have : l.chars.isEmpty = true := by
        cases hch : l.chars with
        | nil => rfl
        | cons a b => rw [hch] at hc; simp at hc
      simp only [hc, decide_false, Bool.false_eq_true, if_false, this, Bool.not_true]
      exact indexOfAny1_callsite text l.char s
  · have hs' : l.str.isEmpty = false := by simpa using hs
    have hne : l.str ≠ [] := by intro h; rw [h] at hs'; simp at hs'
    have hfun : l.litAt lower text = occursAt (stringEq lower l.strIgnoreCase l.str) l.str text := by
      funext k; unfold LitAfterLoop.litAt; simp [hs']
    rw [hfun]
    simp only [hs', Bool.not_false, if_true]
    have := leadingStringSearch_callsite lower l.str l.strIgnoreCase text hne s (text.length - s)
      (iterations_drop_le text l.str s hne)
    unfold leadingStringSearch at this
    cases hi : l.strIgnoreCase with
    | false => rw [hi] at this; simpa using this
    | true => rw [hi] at this; simpa using this

/-- `helpers.StartsWith(r.Runtext[start:], prefix)` for a non-empty prefix -/
theorem startsWith_callsite (text pre : List Nat) (hne : pre ≠ []) (s : Nat) :
    startsWith (text.drop s) pre = some (occursAt eqExact pre text s) := by
  rw [startsWith_eq _ _ hne, occursAt_drop, Nat.zero_add]

/-- `helpers.StartsWithIgnoreCase(r.Runtext[start:], prefix)` -/
theorem startsWithIgnoreCase_callsite (lower : Nat → Nat) (text pre : List Nat) (s : Nat) :
    startsWithIgnoreCase lower (text.drop s) pre = some (occursAt (eqLower lower) pre text s) := by
  rw [startsWithIgnoreCase_eq, occursAt_drop, Nat.zero_add]

/-! ### the finders with the calls spelled out are the finders of Model/Finders.lean -/

theorem searchLoop_congr (guard : Nat → Bool) (idx idx' : Nat → Option Nat) (step : Nat → Step)
    (h : ∀ s, guard s = true → idx s = idx' s) : ∀ (fuel s : Nat),
    searchLoop guard idx step fuel s = searchLoop guard idx' step fuel s := by
  intro fuel
  induction fuel with
  | zero => intro s; rfl
  | succ fuel ih =>
    intro s
    unfold searchLoop
    by_cases hg : guard s = true
    · simp only [hg, if_true]
      rw [h s hg]
      cases idx' s with
      | none => rfl
      | some i =>
        simp only
        cases step i with
        | found q => rfl
        | giveUp => rfl
        | next => exact ih (i + 1)
    · simp [hg]

theorem finderLeadingStringIx_eq (lower : Nat → Nat) (pat : List Nat) (ignoreCase : Bool) (text : List Nat)
    (minLen pos : Nat) :
    finderLeadingStringIx lower pat ignoreCase text minLen pos = finderLeadingString lower pat ignoreCase text minLen pos := by
  unfold finderLeadingStringIx finderLeadingString
  by_cases he : pat.isEmpty = true
  · simp [he]
  · have hne : pat ≠ [] := by intro h; rw [h] at he; simp at he
    simp only [he, Bool.false_eq_true, if_false]
    rw [leadingStringSearch_callsite lower pat ignoreCase text hne pos (text.length + 1 - pos)
      (by have := iterations_drop_le text pat pos hne; omega)]
    rfl

theorem finderFixedCharIx_eq (c d : Nat) (text : List Nat) (minLen pos : Nat) :
    finderFixedCharIx c d text minLen pos = finderFixedChar c d text minLen pos := by
  unfold finderFixedCharIx finderFixedChar
  simp only
  rw [searchLoop_congr _ _ _ _ (fun s _ => indexOfAny1_callsite text c s)]

theorem finderFixedStringIx_eq (lit : List Nat) (d : Nat) (text : List Nat) (minLen pos : Nat) :
    finderFixedStringIx lit d text minLen pos = finderFixedString lit d text minLen pos := by
  unfold finderFixedStringIx finderFixedString
  by_cases he : lit.isEmpty = true
  · simp [he]
  · have hne : lit ≠ [] := by intro h; rw [h] at he; simp at he
    simp only [he, Bool.false_eq_true, if_false]
    rw [searchLoop_congr _ _ _ _ (fun s _ => indexOf_callsite text lit hne s (text.length + 1 - s)
      (by have := iterations_drop_le text lit s hne; omega))]

theorem finderFixedSetsIx_eq (sets : List FDSet) (text : List Nat) (minLen pos : Nat) :
    finderFixedSetsIx sets text minLen pos = finderFixedSets sets text minLen pos := by
  unfold finderFixedSetsIx finderFixedSets
  cases sets with
  | nil => rfl
  | cons primary rest =>
    simp only
    split
    · rfl
    · rw [searchLoop_congr _ _ _ _ (fun s _ => indexOfSet_callsite text primary s)]

theorem finderLiteralAfterLoopIx_eq (lower : Nat → Nat) (l : LitAfterLoop) (text : List Nat) (minLen pos : Nat) :
    finderLiteralAfterLoopIx lower l text minLen pos = finderLiteralAfterLoop lower l text minLen pos := by
  unfold finderLiteralAfterLoopIx finderLiteralAfterLoop
  cases l.loopSet with
  | none => rfl
  | some S =>
    simp only
    rw [searchLoop_congr _ _ _ _ (fun s _ => indexOfLiteralAfterLoop_callsite lower l text s)]

/-! ### the documented tests, as propositions -/

/-- `in[i]` exists and satisfies `Q` -/
def RuneAt (inp : List Nat) (Q : Nat → Prop) (i : Nat) : Prop := ∃ c, inp[i]? = some c ∧ Q c

/-- `find` lies in `inp` at `i` as a contiguous sub-slice -/
def SubAt (inp find : List Nat) (i : Nat) : Prop := (inp.drop i).take find.length = find

theorem rangeLoop_firstP (test : Nat → Bool) (Q : Nat → Prop) (h : ∀ c, test c = true ↔ Q c) (inp : List Nat) :
    FirstIdx (RuneAt inp Q) (rangeLoop test inp 0) :=
  (rangeLoop_first test inp).congr fun i =>
    ⟨fun ⟨c, h1, h2⟩ => ⟨c, h1, (h c).mp h2⟩, fun ⟨c, h1, h2⟩ => ⟨c, h1, (h c).mpr h2⟩⟩

theorem downLoop_lastP (test : Nat → Bool) (Q : Nat → Prop) (h : ∀ c, test c = true ↔ Q c) (inp : List Nat) :
    ∃ r, downLoop test inp inp.length = some r ∧ LastIdx (RuneAt inp Q) r := by
  obtain ⟨r, hr, hl⟩ := downLoop_last test inp
  exact ⟨r, hr, hl.congr fun i =>
    ⟨fun ⟨c, h1, h2⟩ => ⟨c, h1, (h c).mp h2⟩, fun ⟨c, h1, h2⟩ => ⟨c, h1, (h c).mpr h2⟩⟩⟩

theorem prefixOf_pointwise (eq : Nat → Nat → Bool) : ∀ (pat ts : List Nat), prefixOf eq pat ts = true ↔
    (pat.length ≤ ts.length ∧ ∀ j, j < pat.length → ∃ t c, ts[j]? = some t ∧ pat[j]? = some c ∧ eq t c = true) := by
  intro pat
  induction pat with
  | nil => intro ts; simp [prefixOf]
  | cons c ps ih =>
    intro ts
    cases ts with
    | nil => simp [prefixOf]
    | cons t ts =>
      simp only [prefixOf, Bool.and_eq_true, ih ts, List.length_cons]
      constructor
      · rintro ⟨h1, h2, h3⟩
        refine ⟨by omega, fun j hj => ?_⟩
        cases j with
        | zero => exact ⟨t, c, by simp, by simp, h1⟩
        | succ j =>
          obtain ⟨t', c', a, b, e⟩ := h3 j (by omega)
          exact ⟨t', c', by simpa using a, by simpa using b, e⟩
      · rintro ⟨h1, h2⟩
        obtain ⟨t', c', a, b, e⟩ := h2 0 (by omega)
        simp only [List.getElem?_cons_zero, Option.some.injEq] at a b
        subst a; subst b
        refine ⟨e, by omega, fun j hj => ?_⟩
        obtain ⟨t', c', a, b, e⟩ := h2 (j + 1) (by omega)
        exact ⟨t', c', by simpa using a, by simpa using b, e⟩

theorem occursAt_pointwise (eq : Nat → Nat → Bool) (find inp : List Nat) (i : Nat) (hi : i ≤ inp.length) :
    occursAt eq find inp i = true ↔
      (i + find.length ≤ inp.length ∧
        ∀ j, j < find.length → ∃ t c, inp[i + j]? = some t ∧ find[j]? = some c ∧ eq t c = true) := by
  unfold occursAt
  rw [prefixOf_pointwise]
  simp only [List.length_drop, List.getElem?_drop]
  constructor
  · rintro ⟨h1, h2⟩; exact ⟨by omega, h2⟩
  · rintro ⟨h1, h2⟩; exact ⟨by omega, h2⟩

end RegexVerif.Lemmas.IndexOf
