/-
Specifications of the group openers of the parser model: `scanGroupName`, `scanCondition`,
`scanGroupOpen` and its cases, `scanPythonNamedBackref`.
-/
import RegexVerif.Lemmas.ParserScan3

namespace RegexVerif.Parser

variable {α β γ : Type}
variable (E : Env)

attribute [simp] namesOK_autocap
attribute [local irreducible] wp

/-- a scanner that needs `k` runes to its right -/
def ScansK (k : Nat) (m : M α) : Prop :=
  ∀ s, s.pos + k ≤ E.pat.length → wp m (fun _ s' => Adv E s s') (Adv E s) s

theorem wp_call_k {m : M α} {k : Nat} (h : ScansK E k m) {Q : α → PS → Prop} {R : PS → Prop} {s : PS}
    (hs : s.pos + k ≤ E.pat.length)
    (hq : ∀ a s', s.pos ≤ s'.pos → s'.pos ≤ E.pat.length → s'.frame = s.frame → (NamesOK s.g → NamesOK s'.g) → Q a s')
    (hr : ∀ s', s.pos ≤ s'.pos → s'.pos ≤ E.pat.length → s'.frame = s.frame → (NamesOK s.g → NamesOK s'.g) → R s') :
    wp m Q R s :=
  wp_mono (h s hs) (fun a s' h' => hq a s' h'.le h'.inside h'.frame h'.names)
    (fun s' h' => hr s' h'.le h'.inside h'.frame h'.names)

/-- a scanner that may end one rune to the left of its start -/
def ScansBack (m : M α) : Prop :=
  ∀ s, 1 ≤ s.pos → s.pos ≤ E.pat.length → wp m (fun _ s' => AdvF E (s.pos - 1) s s') (AdvF E (s.pos - 1) s) s

theorem wp_call_back {m : M α} (h : ScansBack E m) {Q : α → PS → Prop} {R : PS → Prop} {s : PS}
    (h1 : 1 ≤ s.pos) (hs : s.pos ≤ E.pat.length)
    (hq : ∀ a s', s.pos - 1 ≤ s'.pos → s'.pos ≤ E.pat.length → s'.frame = s.frame → (NamesOK s.g → NamesOK s'.g) → Q a s')
    (hr : ∀ s', s.pos - 1 ≤ s'.pos → s'.pos ≤ E.pat.length → s'.frame = s.frame → (NamesOK s.g → NamesOK s'.g) → R s') :
    wp m Q R s :=
  wp_mono (h s h1 hs) (fun a s' h' => hq a s' h'.floor h'.inside h'.frame h'.names)
    (fun s' h' => hr s' h'.floor h'.inside h'.frame h'.names)

/-! ## `(?<name>`, `(?'name'`, numbers, balancing -/

theorem scans_gnSlotOfNumber (n : Nat) : Scans E (gnSlotOfNumber E n) := by
  intro s hs
  unfold gnSlotOfNumber
  wp_go

macro_rules | `(tactic| wp_callee) => `(tactic| refine wp_call _ (scans_gnSlotOfNumber _ _) (by adv) ?_ ?_)

theorem scans_gnFirst (o : Opts) (close : Nat) : ScansLt E (gnFirst E o close) := by
  intro s hs
  unfold gnFirst
  wp_go

theorem scans_gnUncap (close : Nat) : Scans E (gnUncap E close) := by
  intro s hs
  unfold gnUncap
  wp_go

macro_rules | `(tactic| wp_callee) => `(tactic| refine wp_call_lt _ (scans_gnFirst _ _ _) (by adv) ?_ ?_)
macro_rules | `(tactic| wp_callee) => `(tactic| refine wp_call _ (scans_gnUncap _ _) (by adv) ?_ ?_)

theorem scans_gnSecond (o : Opts) (close : Nat) (cn : Option Nat) (pr : Bool) : Scans E (gnSecond E o close cn pr) := by
  intro s hs
  unfold gnSecond
  wp_go

macro_rules | `(tactic| wp_callee) => `(tactic| refine wp_call _ (scans_gnSecond _ _ _ _ _) (by adv) ?_ ?_)

theorem scansF_gnClose (start close : Nat) (cn un : Option Nat) : ScansF E start 0 start (gnClose E start close cn un) := by
  intro s ha hs
  unfold gnClose
  wp_go

macro_rules | `(tactic| wp_callee) => `(tactic| refine wp_callF _ (scansF_gnClose _ _ _ _ _) (by adv) (by adv) ?_ ?_)

theorem scansF_scanGroupName (start close : Nat) : ScansF E start 1 start (scanGroupName E start close) := by
  intro s ha hs
  unfold scanGroupName
  wp_go

macro_rules | `(tactic| wp_callee) => `(tactic| refine wp_callF _ (scansF_scanGroupName _ _ _) (by adv) (by adv) ?_ ?_)

/-! ## `(?(` -/

theorem scans_condEarly (o : Opts) : Scans E (condEarly E o) := by
  intro s hs
  unfold condEarly
  wp_go

macro_rules | `(tactic| wp_callee) => `(tactic| refine wp_call _ (scans_condEarly _ _) (by adv) ?_ ?_)

theorem scansF_condExpr (o : Opts) (parenPos : Nat) (h1 : 1 ≤ parenPos) (h2 : parenPos ≤ E.pat.length) :
    ScansF E 0 0 (parenPos - 1) (condExpr E o parenPos) := by
  intro s _ hs
  unfold condExpr
  wp_go

macro_rules | `(tactic| wp_callee) => `(tactic| refine wp_callF _ (scansF_condExpr _ _ _ (by adv) (by adv)) (by adv) (by adv) ?_ ?_)

theorem scans_scanCondition : ScansBack E (scanCondition E) := by
  intro s h1 hs
  unfold scanCondition
  wp_go

macro_rules | `(tactic| wp_callee) => `(tactic| refine wp_call_back _ (scans_scanCondition _) (by adv) (by adv) ?_ ?_)

end RegexVerif.Parser
