/-
Helper lemmas for the pipeline section of `Props/C01.lean`: the reducer (`Model/Reduce.lean`) keeps trees
inside the writer's domain (`okN` ⇒ `Writer.GoNode.ok`).
-/
import RegexVerif.Model.Reduce

namespace RegexVerif.Reduce
open RegexVerif
open RegexVerif.RewriteDecisions (RNode CP LK)

theorem okN_mk (t o ch : Nat) (str : List Nat) (set : Option Class.Class) (m n : Int) (kids : List Node) :
    okN (.mk t o ch str set m n kids) = (shapeOk t kids.length && okNs kids) := by
  rw [okN]

theorem okN_iff (x : Node) : okN x = (shapeOk x.t x.kids.length && okNs x.kids) := by
  cases x; rw [okN]; rfl

theorem okNs_cons (x : Node) (xs : List Node) : okNs (x :: xs) = (okN x && okNs xs) := by rw [okNs]

theorem okNs_nil : okNs [] = true := by rw [okNs]

theorem okNs_iff_all : ∀ (l : List Node), okNs l = true ↔ ∀ x ∈ l, okN x = true
  | [] => by simp [okNs_nil]
  | x :: xs => by simp [okNs_cons, okNs_iff_all xs]

theorem okNs_append (a b : List Node) : okNs (a ++ b) = (okNs a && okNs b) := by
  induction a with
  | nil => simp [okNs_nil]
  | cons x xs ih => simp [okNs_cons, ih, Bool.and_assoc]

theorem okNs_map (g : Node → Node) (l : List Node) (hg : ∀ x, okN x = true → okN (g x) = true)
    (h : okNs l = true) : okNs (l.map g) = true := by
  rw [okNs_iff_all] at *
  intro y hy
  rcases List.mem_map.mp hy with ⟨x, hx, rfl⟩
  exact hg x (h x hx)

theorem mapLast_length (g : Node → Node) : ∀ (l : List Node), (mapLast g l).length = l.length
  | [] => by simp [mapLast]
  | [x] => by simp [mapLast]
  | x :: y :: rest => by simp [mapLast, mapLast_length g (y :: rest)]

theorem okNs_mapLast (g : Node → Node) (hg : ∀ x, okN x = true → okN (g x) = true) :
    ∀ (l : List Node), okNs l = true → okNs (mapLast g l) = true
  | [], _ => by simp [mapLast, okNs_nil]
  | [x], h => by
    simp only [okNs_cons, okNs_nil, Bool.and_true] at h
    simp [mapLast, okNs_cons, okNs_nil, hg x h]
  | x :: y :: rest, h => by
    rw [okNs_cons] at h
    simp only [Bool.and_eq_true] at h
    simp [mapLast, okNs_cons, h.1, okNs_mapLast g hg (y :: rest) h.2]

theorem mapTail_length (g : Node → Node) (l : List Node) : (mapTail g l).length = l.length := by
  cases l <;> simp [mapTail]

theorem okNs_mapTail (g : Node → Node) (hg : ∀ x, okN x = true → okN (g x) = true)
    (l : List Node) (h : okNs l = true) : okNs (mapTail g l) = true := by
  cases l with
  | nil => simp [mapTail, okNs_nil]
  | cons x xs =>
    rw [okNs_cons] at h
    simp only [Bool.and_eq_true] at h
    simp [mapTail, okNs_cons, h.1, okNs_map g xs hg h.2]

theorem okNs_take (k : Nat) : ∀ (l : List Node), okNs l = true → okNs (l.take k) = true := by
  intro l h
  rw [okNs_iff_all] at *
  intro x hx
  exact h x (List.mem_of_mem_take hx)

/-- a node with the same type and as many (well-formed) children -/
theorem okN_withKids {x : Node} {ks : List Node} (hx : okN x = true) (hl : ks.length = x.kids.length)
    (hk : okNs ks = true) : okN (x.withKids ks) = true := by
  cases x with
  | mk t o ch str set m n kids =>
    rw [okN_mk] at hx
    simp only [Bool.and_eq_true] at hx
    simp only [Node.withKids, okN_mk, Bool.and_eq_true]
    simp only [Node.kids] at hl
    exact ⟨by rw [hl]; exact hx.1, hk⟩

theorem okN_kids {x : Node} (hx : okN x = true) : okNs x.kids = true := by
  rw [okN_iff] at hx
  simp only [Bool.and_eq_true] at hx
  exact hx.2

theorem okN_withMN {x : Node} (hx : okN x = true) (m n : Int) : okN (x.withMN m n) = true := by
  cases x; simpa [Node.withMN, okN_mk] using hx

theorem okN_withO {x : Node} (hx : okN x = true) (o : Nat) : okN (x.withO o) = true := by
  cases x; simpa [Node.withO, okN_mk] using hx

theorem okN_fixShape {x : Node} (h : okNs x.kids = true) : okN (fixShape x) = true := by
  unfold fixShape
  split
  · rw [okN_iff]; simp [*]
  · simp [bareNode, okN_mk, shapeOk, okNs_nil]

theorem okN_bare (t o : Nat) (h : shapeOk t 0 = true) : okN (bareNode t o) = true := by
  simp [bareNode, okN_mk, h, okNs_nil]

theorem okN_fixShape_mk (t o ch : Nat) (str : List Nat) (set : Option Class.Class) (m n : Int) (ks : List Node)
    (h : okNs ks = true) : okN (fixShape (.mk t o ch str set m n ks)) = true :=
  okN_fixShape (x := .mk t o ch str set m n ks) h

theorem okN_unwrap (tag : Nat) {x : Node} (h : okN x = true) : okN (unwrap tag x) = true :=
  okN_fixShape_mk _ _ _ _ _ _ _ _ (okNs_take _ _ (okN_kids h))

mutual
/-- `fromR` lands in the writer's domain for EVERY `RNode` -/
theorem fromR_ok : ∀ (r : RNode), okN (fromR r) = true
  | .chr o p => by cases p <;> (simp only [fromR, cpNode, okN_mk, List.length_nil, okNs_nil, Bool.and_true]; rfl)
  | .cloop o k p lo hi => by
    cases k <;> cases p <;> (simp only [fromR, cpNode, cloopType, okN_mk, List.length_nil, okNs_nil, Bool.and_true]; rfl)
  | .multi .. => by simp only [fromR, okN_mk, List.length_nil, okNs_nil, Bool.and_true]; rfl
  | .empty => by simp [fromR, bareNode, okN_mk, shapeOk, okNs_nil]
  | .nothing => by simp [fromR, bareNode, okN_mk, shapeOk, okNs_nil]
  | .bump => by simp [fromR, bareNode, okN_mk, shapeOk, okNs_nil]
  | .anchor _ => by simp [fromR, bareNode, okN_mk, shapeOk, okNs_nil]
  | .ref .. => by simp [fromR, okN_mk, shapeOk, okNs_nil]
  | .alt o cs => by
    have h := fromRs_ok cs
    rw [fromR]
    split
    · split
      · rename_i x hx
        rw [hx, okNs_cons] at h
        simp only [Bool.and_eq_true] at h
        exact h.1
      · exact okN_fixShape h
    · exact okN_fixShape h
  | .cat o cs => by
    have h := fromRs_ok cs
    rw [fromR]
    split
    · split
      · rename_i x hx
        rw [hx, okNs_cons] at h
        simp only [Bool.and_eq_true] at h
        exact okN_unwrap o h.1
      · exact okN_fixShape h
    · exact okN_fixShape h
  | .loop lzy lo hi b => by
    have h := fromR_ok b
    cases lzy <;> simp [fromR, okN_mk, shapeOk, okNs_cons, okNs_nil, h]
  | .cap g b => by
    have h := fromR_ok b
    simp [fromR, okN_mk, shapeOk, okNs_cons, okNs_nil, h]
  | .look bh ng b => by
    have h := fromR_ok b
    cases ng <;> simp [fromR, okN_mk, shapeOk, okNs_cons, okNs_nil, h]
  | .atomic b => by
    have h := fromR_ok b
    simp [fromR, okN_mk, shapeOk, okNs_cons, okNs_nil, h]
  | .refCond g y n => by
    have h1 := fromR_ok y
    have h2 := fromR_ok n
    simp [fromR, okN_mk, shapeOk, okNs_cons, okNs_nil, h1, h2]
  | .exprCond c y n => by
    have h0 := fromR_ok c
    have h1 := fromR_ok y
    have h2 := fromR_ok n
    simp [fromR, okN_mk, shapeOk, okNs_cons, okNs_nil, h0, h1, h2]
theorem fromRs_ok : ∀ (rs : List RNode), okNs (fromRs rs) = true
  | [] => by simp [fromRs, okNs_nil]
  | x :: xs => by simp [fromRs, okNs_cons, fromR_ok x, fromRs_ok xs]
end

theorem okN_stripCi {x : Node} (h : okN x = true) : okN (stripCi x) = true := by
  unfold stripCi
  split
  · exact h
  · split
    · exact okN_withO h _
    · exact h

theorem okN_reduceGroup : ∀ (fuel : Nat) (u : Node), okN u = true → okN (reduceGroup fuel u) = true
  | 0, u, h => by simpa [reduceGroup] using h
  | f + 1, u, h => by
    rw [reduceGroup]
    split
    · split
      · rename_i k rest hk
        have := okN_kids h
        rw [hk, okNs_cons] at this
        simp only [Bool.and_eq_true] at this
        exact okN_reduceGroup f k this.1
      · exact h
    · exact h

theorem shapeOk_zero_succ (t k : Nat) (h : shapeOk t 0 = true) : shapeOk t (k + 1) = false := by
  unfold shapeOk at *
  by_cases h1 : (t == 24 || t == 25) = true
  · simp [h1] at h
  · by_cases h2 : (decide (26 ≤ t) && decide (t ≤ 32)) = true
    · simp [h1, h2] at h
    · by_cases h3 : (t == 33) = true
      · simp [h1, h2, h3] at h
      · by_cases h4 : (t == 34) = true
        · simp [h1, h2, h3, h4] at h
        · simp [h1, h2, h3, h4]

/-- a well-formed node of a leaf type has no children -/
theorem kids_nil_of_leaf {x : Node} (hx : okN x = true) (ht : shapeOk x.t 0 = true) : x.kids = [] := by
  cases x with
  | mk t o ch str set m n kids =>
    rw [okN_mk] at hx
    simp only [Bool.and_eq_true] at hx
    simp only [Node.t] at ht
    simp only [Node.kids]
    cases kids with
    | nil => rfl
    | cons k ks =>
      have h1 := hx.1
      rw [List.length_cons, shapeOk_zero_succ t ks.length ht] at h1
      exact absurd h1 (by simp)

theorem okN_retype {x : Node} (hx : okN x = true) (hk : x.kids = []) (t' : Nat) (ht : shapeOk t' 0 = true) :
    okN (x.withT t') = true := by
  cases x with
  | mk t o ch str set m n kids =>
    simp only [Node.kids] at hk
    subst hk
    simp [Node.withT, okN_mk, ht, okNs_nil]

theorem okN_mk_leaf (t o ch : Nat) (str : List Nat) (set : Option Class.Class) (m n : Int) (h : shapeOk t 0 = true) :
    okN (.mk t o ch str set m n []) = true := by
  simp [okN_mk, h, okNs_nil]

theorem okN_reduceSet {x : Node} (hx : okN x = true) (ht : x.t = 11 ∨ x.t = 5 ∨ x.t = 8 ∨ x.t = 45) :
    okN (reduceSet x) = true := by
  have hleaf : shapeOk x.t 0 = true := by rcases ht with h | h | h | h <;> rw [h] <;> rfl
  have hk := kids_nil_of_leaf hx hleaf
  unfold reduceSet
  split
  · exact okN_retype hx hk _ rfl
  · split
    · rw [hk]; apply okN_mk_leaf
      rcases ht with h | h | h | h <;> rw [h] <;> rfl
    · rw [hk]; apply okN_mk_leaf
      rcases ht with h | h | h | h <;> rw [h] <;> rfl
    · exact hx

theorem okN_makeLoopAtomic {x : Node} (hx : okN x = true) : okN (makeLoopAtomic x) = true := by
  unfold makeLoopAtomic
  split
  · have h := fromR_ok (RewriteDecisions.makeLoopAtomic (toR x))
    generalize fromR (RewriteDecisions.makeLoopAtomic (toR x)) = y at h
    cases y with
    | mk t o ch str set m n ks => simpa [okN_mk] using h
  · exact hx

theorem okN_head {k : Node} {rest : List Node} {x : Node} (hx : okN x = true) (hk : x.kids = k :: rest) : okN k = true := by
  have := okN_kids hx
  rw [hk, okNs_cons] at this
  simp only [Bool.and_eq_true] at this
  exact this.1

theorem okN_mulBounds {u : Node} (h : okN u = true) (mn mx : Int) : okN (mulBounds u mn mx) = true := by
  unfold mulBounds
  exact okN_withMN h _ _

theorem okN_repWalk (t : Nat) (mn mx : Int) : ∀ (f : Nat) (u : Node), okN u = true → okN (repWalk t mn mx f u) = true
  | 0, u, h => by simpa [repWalk] using h
  | f + 1, u, h => by
    rw [repWalk]
    split
    · exact h
    · rename_i child rest hk
      have hc := okN_head h hk
      have hrec := okN_repWalk t mn mx f _ (okN_mulBounds hc mn mx)
      simp only []
      repeat' split
      all_goals first | exact h | exact hrec

theorem okN_reduceRep (fuel : Nat) {x : Node} (hx : okN x = true) : okN (reduceRep fuel x) = true := by
  have hgo : okN (reduceRep.go fuel x) = true := by
    unfold reduceRep.go
    simp only []
    have hu := okN_repWalk x.t x.m x.n fuel x hx
    generalize repWalk x.t x.m x.n fuel x = u at hu
    split
    · exact okN_bare _ _ rfl
    · split
      · rename_i child hk
        have hc := okN_head hu hk
        split
        · rename_i ht
          have hleaf : shapeOk child.t 0 = true := by
            simp only [Bool.or_eq_true, beq_iff_eq, ntOne, ntNotone, ntSet] at ht
            rcases ht with (h | h) | h <;> rw [h] <;> rfl
          have hkids := kids_nil_of_leaf hc hleaf
          apply okN_withMN
          apply okN_retype hc hkids
          simp only [Bool.or_eq_true, beq_iff_eq, ntOne, ntNotone, ntSet] at ht
          split <;> (rcases ht with (h | h) | h <;> rw [h] <;> rfl)
        · exact hu
      · exact hu
  unfold reduceRep
  split
  · rename_i c hk
    split
    · exact okN_head hx hk
    · exact hgo
  · exact hgo

theorem okN_innerAtomic : ∀ (f : Nat) (a : Node), okN a = true → okN (innerAtomic f a) = true
  | 0, a, h => by simpa [innerAtomic] using h
  | f + 1, a, h => by
    rw [innerAtomic]
    split
    · rename_i c hk
      split
      · exact okN_innerAtomic f c (okN_head h hk)
      · exact h
    · exact h

theorem innerAtomic_t : ∀ (f : Nat) (a : Node), a.t = ntAtomic → (innerAtomic f a).t = ntAtomic
  | 0, a, h => by simpa [innerAtomic] using h
  | f + 1, a, h => by
    rw [innerAtomic]
    split
    · rename_i c hk
      split
      · rename_i hc
        exact innerAtomic_t f c (by simpa using hc)
      · exact h
    · exact h

theorem okN_onLoopLast (orc : Orc) (cf : Nat) (g : Node → Node) (hg : ∀ x, okN x = true → okN (g x) = true) :
    ∀ (f : Nat) (body b' : Node), okN body = true → onLoopLast orc cf g f body = some b' → okN b' = true
  | 0, body, b', _, h => by simp [onLoopLast] at h
  | f + 1, body, b', hb, h => by
    rw [onLoopLast] at h
    split at h
    · split at h
      · rename_i k hk
        cases hr : onLoopLast orc cf g f k with
        | none => simp [hr] at h
        | some k' =>
          simp only [hr, Option.map_some, Option.some.injEq] at h
          rw [← h]
          have hk' := okN_onLoopLast orc cf g hg f k k' (okN_head hb hk) hr
          exact okN_withKids hb (by rw [hk]; rfl) (by simp [okNs_cons, okNs_nil, hk'])
      · simp at h
    · split at h
      · split at h
        · split at h
          · simp only [Option.some.injEq] at h
            rw [← h]
            exact okN_withKids hb (mapLast_length g _) (okNs_mapLast g hg _ (okN_kids hb))
          · simp at h
        · simp at h
      · simp at h

theorem okN_atomicWrap (o : Nat) {inner : Node} (h : okN inner = true) :
    okN (.mk ntAtomic o 0 [] none 0 0 [inner]) = true := by
  simp [okN_mk, okNs_cons, okNs_nil, h, ntAtomic, shapeOk]

/-- a conditional keeps its shape when the missing branch is added -/
theorem okN_cond_withKids {x : Node} {ks : List Node} (hk : okNs ks = true)
    (hs : shapeOk x.t ks.length = true) : okN (x.withKids ks) = true := by
  cases x with
  | mk t o ch str set m n kids =>
    simp only [Node.t] at hs
    simp [Node.withKids, okN_mk, hs, hk]

theorem okN_shape {x : Node} (hx : okN x = true) : shapeOk x.t x.kids.length = true := by
  rw [okN_iff] at hx
  simp only [Bool.and_eq_true] at hx
  exact hx.1

/-- **`reduce()` and `eliminateEndingBacktracking` keep a tree inside the writer's domain** -/
theorem reduce_elim_ok (orc : Orc) (on : Bool) : ∀ (fuel : Nat),
    (∀ (pa : Bool) (x : Node), okN x = true → okN (reduce orc on fuel pa x) = true) ∧
    (∀ (pa : Bool) (x : Node), okN x = true → okN (elim orc on fuel pa x) = true)
  | 0 => ⟨fun _ _ h => by simpa [reduce] using h, fun _ _ h => by simpa [elim] using h⟩
  | fuel + 1 => by
    have ih := reduce_elim_ok orc on fuel
    have ihr := ih.1
    have ihe := ih.2
    refine ⟨?_, ?_⟩
    · intro pa x0 h0
      have hx : okN (stripCi x0) = true := okN_stripCi h0
      rw [reduce]
      simp only []
      generalize stripCi x0 = x at hx
      split
      · exact fromR_ok _
      split
      · exact fromR_ok _
      split
      · rename_i hat
        have hia := okN_innerAtomic (fuel + 1) x hx
        generalize innerAtomic (fuel + 1) x = atomic at hia
        split
        · rename_i child hk
          split
          · split
            · exact okN_withKids hia (by rw [hk]; rfl) (by simp [okNs_cons, okNs_nil, fromR_ok])
            · exact okN_withKids hia (by rw [hk]; rfl) (by simp [okNs_cons, okNs_nil, ihe true _ (fromR_ok _)])
          · exact fromR_ok _
        · exact hx
      split
      · exact okN_reduceGroup _ _ hx
      split
      · exact okN_reduceRep _ hx
      split
      · have h1 := ihe pa x hx
        generalize elim orc on fuel pa x = x1 at h1
        split
        · split
          · split <;> exact okN_mk_leaf _ _ _ _ _ _ _ rfl
          · exact h1
        · exact h1
      split
      · rename_i hset
        apply okN_reduceSet hx
        simp only [Bool.or_eq_true, beq_iff_eq, ntSet, ntSetloop, ntSetlazy, ntSetloopatomic] at hset
        rcases hset with ((h | h) | h) | h
        · exact Or.inl h
        · exact Or.inr (Or.inl h)
        · exact Or.inr (Or.inr (Or.inl h))
        · exact Or.inr (Or.inr (Or.inr h))
      split
      · rename_i hec
        have hkx := okN_kids hx
        have hsh := okN_shape hx
        have htx : x.t = 34 := by simpa [ntExprCond] using hec
        -- the children after the missing branch has been added
        have hks : okNs (if x.kids.length == 2 then x.kids ++ [bareNode ntEmpty x.o] else x.kids) = true ∧
            shapeOk x.t (if x.kids.length == 2 then x.kids ++ [bareNode ntEmpty x.o] else x.kids).length = true := by
          split
          · rename_i h2
            have h2' : x.kids.length = 2 := by simpa using h2
            refine ⟨by simp [okNs_append, hkx, okNs_cons, okNs_nil, okN_bare, ntEmpty, shapeOk], ?_⟩
            rw [List.length_append, h2', htx]; rfl
          · exact ⟨hkx, hsh⟩
        generalize (if x.kids.length == 2 then x.kids ++ [bareNode ntEmpty x.o] else x.kids) = ks at hks
        split
        · rename_i cond rest
          have hc : okN cond = true := by
            have := hks.1; rw [okNs_cons] at this; simp only [Bool.and_eq_true] at this; exact this.1
          have hrest : okNs rest = true := by
            have := hks.1; rw [okNs_cons] at this; simp only [Bool.and_eq_true] at this; exact this.2
          apply okN_cond_withKids
          · rw [okNs_cons]
            simp only [Bool.and_eq_true]
            refine ⟨ihe false _ ?_, hrest⟩
            split
            · split
              · rename_i c hck
                exact ihr false c (okN_head hc hck)
              · exact hc
            · exact hc
          · simpa using hks.2
        · exact hx
      split
      · rename_i hbc
        split
        · rename_i h1
          have htx : x.t = 33 := by simpa [ntBackRefCond] using hbc
          have h1' : x.kids.length = 1 := by simpa using h1
          apply okN_cond_withKids
          · simp [okNs_append, okN_kids hx, okNs_cons, okNs_nil, okN_bare, ntEmpty, shapeOk]
          · rw [List.length_append, h1', htx]; rfl
        · exact hx
      · exact hx
    · intro pa x hx
      rw [elim]
      split
      · exact hx
      split
      · exact okN_makeLoopAtomic hx
      split
      · split
        · rename_i c hk
          exact okN_withKids hx (by rw [hk]; rfl) (by simp [okNs_cons, okNs_nil, ihe _ c (okN_head hx hk)])
        · exact hx
      split
      · apply okN_withKids hx (mapLast_length _ _)
        apply okNs_mapLast _ _ _ (okN_kids hx)
        intro existing he
        simp only []
        split
        · exact ihe _ _ (ihr _ _ (okN_atomicWrap _ (ihr _ _ he)))
        · exact ihe _ _ he
      split
      · exact okN_withKids hx (by simp) (okNs_map _ _ (fun k hk => ihe _ k hk) (okN_kids hx))
      split
      · exact okN_withKids hx (mapTail_length _ _) (okNs_mapTail _ (fun k hk => ihe _ k hk) _ (okN_kids hx))
      split
      · have h1 : okN (if x.t == ntLazyloop then x.withMN x.m x.m else x) = true := by
          split
          · exact okN_withMN hx _ _
          · exact hx
        simp only []
        generalize (if x.t == ntLazyloop then x.withMN x.m x.m else x) = x1 at h1
        split
        · rename_i body hk
          split
          · exact okN_withKids h1 (by rw [hk]; rfl) (by simp [okNs_cons, okNs_nil, ihe _ body (okN_head h1 hk)])
          · split
            · rename_i body' hb
              have := okN_onLoopLast orc (fuel + 1) _ (fun l hl => ihe false l hl) (fuel + 1) body body' (okN_head h1 hk) hb
              exact okN_withKids h1 (by rw [hk]; rfl) (by simp [okNs_cons, okNs_nil, this])
            · exact h1
        · exact h1
      · exact hx

theorem okN_processNode (orc : Orc) (cf : Nat) (sub : Node) (ctx : List Frame) :
    ∀ (f : Nat) (x : Node), okN x = true → okN (processNode orc cf sub ctx f x) = true
  | 0, x, h => by simpa [processNode] using h
  | f + 1, x, hx => by
    have ih := okN_processNode orc cf sub ctx f
    rw [processNode]
    split
    · exact okN_withKids hx (mapLast_length _ _) (okNs_mapLast _ (fun k hk => ih k hk) _ (okN_kids hx))
    · simp only []
      split
      · rename_i r heq
        split at heq
        · split at heq
          · rename_i body hk
            cases hr : onLoopLast orc cf (fun l => processNode orc cf sub ctx f l) cf body with
            | none => simp [hr] at heq
            | some b =>
              simp only [hr, Option.map_some, Option.some.injEq] at heq
              rw [← heq]
              have hb := okN_onLoopLast orc cf _ (fun l hl => ih l hl) cf body b (okN_head hx hk) hr
              exact okN_withKids hx (by rw [hk]; rfl) (by simp [okNs_cons, okNs_nil, hb])
          · simp at heq
        · simp at heq
      · split
        · split
          · exact okN_makeLoopAtomic hx
          · exact hx
        · split
          · split
            · rename_i hlz _
              apply okN_makeLoopAtomic
              have hleaf : shapeOk x.t 0 = true := by
                simp only [Bool.or_eq_true, beq_iff_eq, ntOnelazy, ntNotonelazy, ntSetlazy] at hlz
                rcases hlz with (h | h) | h <;> rw [h] <;> rfl
              apply okN_retype hx (kids_nil_of_leaf hx hleaf)
              simp only [Bool.or_eq_true, beq_iff_eq, ntOnelazy, ntNotonelazy, ntSetlazy] at hlz
              rcases hlz with (h | h) | h <;> rw [h] <;> rfl
            · exact hx
          · split
            · exact okN_withKids hx (by simp) (okNs_map _ _ (fun k hk => ih k hk) (okN_kids hx))
            · split
              · exact okN_withKids hx (mapTail_length _ _) (okNs_mapTail _ (fun k hk => ih k hk) _ (okN_kids hx))
              · exact hx

theorem processPairs_ok (orc : Orc) (cf : Nat) (ctx : List Frame) :
    ∀ (l : List Node), okNs l = true → okNs (processPairs orc cf ctx l) = true ∧ (processPairs orc cf ctx l).length = l.length
  | [], _ => by simp [processPairs, okNs_nil]
  | [x], h => by simp [processPairs, h]
  | x :: y :: rest, h => by
    rw [okNs_cons] at h
    simp only [Bool.and_eq_true] at h
    have ih := processPairs_ok orc cf ctx (y :: rest) h.2
    rw [processPairs]
    refine ⟨?_, by simp [ih.2]⟩
    rw [okNs_cons]
    simp only [Bool.and_eq_true]
    exact ⟨okN_processNode orc cf y _ cf x h.1, ih.1⟩

theorem faml_ok (orc : Orc) (cf : Nat) : ∀ (f : Nat),
    (∀ (ctx : List Frame) (x : Node), okN x = true → okN (faml orc cf f ctx x) = true) ∧
    (∀ (ctx : List Frame) (t : Nat) (ks : List Node), okNs ks = true →
      okNs (famlKids orc cf f ctx t ks) = true ∧ (famlKids orc cf f ctx t ks).length = ks.length)
  | 0 => ⟨fun _ _ h => by simpa [faml] using h, fun _ _ _ h => by simp [famlKids, h]⟩
  | f + 1 => by
    have ih := faml_ok orc cf f
    refine ⟨?_, ?_⟩
    · intro ctx x hx
      rw [faml]
      split
      · exact hx
      · simp only []
        have hk := ih.2 ctx x.t x.kids (okN_kids hx)
        split
        · have hp := processPairs_ok orc cf ctx _ hk.1
          exact okN_withKids hx (by rw [hp.2, hk.2]) hp.1
        · exact okN_withKids hx hk.2 hk.1
    · intro ctx t ks hks
      cases ks with
      | nil => simp [famlKids, okNs_nil]
      | cons k rest =>
        rw [okNs_cons] at hks
        simp only [Bool.and_eq_true] at hks
        have h1 := ih.1 ((t, rest) :: ctx) k hks.1
        have h2 := ih.2 ctx t rest hks.2
        rw [famlKids]
        exact ⟨by rw [okNs_cons]; simp [h1, h2.1], by simp [h2.2]⟩

theorem okN_placeBump (fuel : Nat) (x : Node) : okN (placeBump fuel x) = true := fromR_ok _

theorem okN_finalOptimize (orc : Orc) (on : Bool) (fuel : Nat) {root : Node} (h : okN root = true) :
    okN (finalOptimize orc on fuel root) = true := by
  unfold finalOptimize
  split
  · exact h
  · simp only []
    have h2 := (reduce_elim_ok orc on fuel).2 false _ ((faml_ok orc fuel fuel).1 [] root h)
    generalize elim orc on fuel false (faml orc fuel fuel [] root) = r2 at h2
    split
    · rename_i c rest hk
      have hks := okN_kids h2
      rw [hk, okNs_cons] at hks
      simp only [Bool.and_eq_true] at hks
      exact okN_withKids h2 (by rw [hk]; rfl) (by rw [okNs_cons]; simp [okN_placeBump, hks.2])
    · exact h2

theorem stripCi_t (x : Node) : (stripCi x).t = x.t := by
  unfold stripCi
  split
  · rfl
  · split
    · cases x; rfl
    · rfl

theorem stripCi_kids (x : Node) : (stripCi x).kids = x.kids := by
  unfold stripCi
  split
  · rfl
  · split
    · cases x; rfl
    · rfl

/-- `reduce()` repairs a childless Concatenate / Alternate (its children being well-formed) -/
theorem reduce_weak (orc : Orc) (on : Bool) (f : Nat) (pa : Bool) (x : Node) (hk : okNs x.kids = true)
    (hs : shapeOk x.t x.kids.length = true ∨ (x.t == 24 || x.t == 25) = true) :
    okN (reduce orc on (f + 1) pa x) = true := by
  rcases hs with hs | hs
  · exact (reduce_elim_ok orc on (f + 1)).1 pa x (by rw [okN_iff]; simp [hs, hk])
  · rw [reduce]
    simp only []
    have ht := stripCi_t x
    generalize stripCi x = y at ht
    split
    · exact fromR_ok _
    split
    · exact fromR_ok _
    · rename_i h1 h2
      exfalso
      simp only [ht, ntAlternate, ntConcatenate] at h1 h2
      simp only [Bool.or_eq_true] at hs
      rcases hs with h | h
      · exact h1 h
      · exact h2 h

mutual
theorem reduceKids_weak (orc : Orc) (on : Bool) (f : Nat) : ∀ (x : Node), okRaw x = true →
    okNs (reduceKids orc on (f + 1) x).kids = true ∧ (reduceKids orc on (f + 1) x).t = x.t ∧
    (reduceKids orc on (f + 1) x).kids.length = x.kids.length
  | .mk t o ch str set m n kids, h => by
    rw [okRaw] at h
    simp only [Bool.and_eq_true] at h
    have hl := reduceList_weak orc on f (t == ntAtomic) kids h.2
    rw [reduceKids]
    exact ⟨hl.1, rfl, hl.2⟩
theorem reduceList_weak (orc : Orc) (on : Bool) (f : Nat) (pa : Bool) : ∀ (l : List Node), okRaws l = true →
    okNs (reduceList orc on (f + 1) pa l) = true ∧ (reduceList orc on (f + 1) pa l).length = l.length
  | [], _ => by simp [reduceList, okNs_nil]
  | k :: ks, h => by
    rw [okRaws] at h
    simp only [Bool.and_eq_true] at h
    have hk := reduceKids_weak orc on f k h.1
    have h2 := reduceList_weak orc on f pa ks h.2
    have hshape : shapeOk (reduceKids orc on (f + 1) k).t (reduceKids orc on (f + 1) k).kids.length = true ∨
        ((reduceKids orc on (f + 1) k).t == 24 || (reduceKids orc on (f + 1) k).t == 25) = true := by
      rw [hk.2.1, hk.2.2]
      cases k with
      | mk t o ch str set m n kids =>
        have h1 := h.1
        rw [okRaw] at h1
        simp only [Bool.and_eq_true, Bool.or_eq_true] at h1
        simp only [Node.t, Node.kids]
        rcases h1.1 with h3 | h3
        · exact Or.inl h3
        · exact Or.inr (by simpa using h3.1)
    have h1 := reduce_weak orc on f pa _ hk.1 hshape
    rw [reduceList]
    exact ⟨by rw [okNs_cons]; simp [h1, h2.1], by simp [h2.2]⟩
end

theorem okN_reduceRoot (orc : Orc) (on : Bool) {root : Node} (h : okRawTree root = true) : okN (reduceRoot orc on root) = true := by
  unfold okRawTree at h
  simp only [Bool.and_eq_true] at h
  unfold reduceRoot
  simp only []
  have hf : fuelFor root = (6 * nodeSize root + 63) + 1 := rfl
  rw [hf]
  have hk := reduceKids_weak orc on (6 * nodeSize root + 63) root h.1
  apply okN_finalOptimize
  rw [okN_iff, hk.2.1, hk.2.2]
  simp [h.2, hk.1]

/-! ### `toGo` of a well-formed `Node` is accepted by the writer -/

theorem shapeOk_lt (t k : Nat) (h : shapeOk t k = true) : t < 64 := by
  unfold shapeOk at h
  by_cases h1 : (t == 24 || t == 25) = true
  · simp only [Bool.or_eq_true, beq_iff_eq] at h1; omega
  · by_cases h2 : (decide (26 ≤ t) && decide (t ≤ 32)) = true
    · simp only [Bool.and_eq_true, decide_eq_true_eq] at h2; omega
    · by_cases h3 : (t == 33) = true
      · simp only [beq_iff_eq] at h3; omega
      · by_cases h4 : (t == 34) = true
        · simp only [beq_iff_eq] at h4; omega
        · simp only [h1, h2, h3, h4, Bool.false_eq_true, ↓reduceIte, Bool.and_eq_true, Bool.or_eq_true,
            decide_eq_true_eq, beq_iff_eq] at h
          omega

theorem leaf_types_fin : ∀ (t : Fin 64), shapeOk t.val 0 = true →
    t.val = 3 ∨ t.val = 4 ∨ t.val = 5 ∨ t.val = 6 ∨ t.val = 7 ∨ t.val = 8 ∨ t.val = 9 ∨ t.val = 10 ∨ t.val = 11 ∨ t.val = 12 ∨ t.val = 13 ∨ t.val = 14 ∨ t.val = 15 ∨
    t.val = 16 ∨ t.val = 17 ∨ t.val = 18 ∨ t.val = 19 ∨ t.val = 20 ∨ t.val = 21 ∨ t.val = 22 ∨ t.val = 23 ∨ t.val = 41 ∨ t.val = 42 ∨ t.val = 43 ∨ t.val = 44 ∨
    t.val = 45 ∨ t.val = 46 := by decide

theorem leaf_types (t : Nat) (hlt : t < 64) (h : shapeOk t 0 = true) :
    t = 3 ∨ t = 4 ∨ t = 5 ∨ t = 6 ∨ t = 7 ∨ t = 8 ∨ t = 9 ∨ t = 10 ∨ t = 11 ∨ t = 12 ∨ t = 13 ∨ t = 14 ∨ t = 15 ∨
    t = 16 ∨ t = 17 ∨ t = 18 ∨ t = 19 ∨ t = 20 ∨ t = 21 ∨ t = 22 ∨ t = 23 ∨ t = 41 ∨ t = 42 ∨ t = 43 ∨ t = 44 ∨
    t = 45 ∨ t = 46 := leaf_types_fin ⟨t, hlt⟩ h

theorem one_types_fin : ∀ (t : Fin 64), shapeOk t.val 1 = true →
    t.val = 24 ∨ t.val = 25 ∨ t.val = 26 ∨ t.val = 27 ∨ t.val = 28 ∨ t.val = 29 ∨ t.val = 30 ∨ t.val = 31 ∨ t.val = 32 ∨ t.val = 33 := by decide

theorem one_types (t : Nat) (hlt : t < 64) (h : shapeOk t 1 = true) :
    t = 24 ∨ t = 25 ∨ t = 26 ∨ t = 27 ∨ t = 28 ∨ t = 29 ∨ t = 30 ∨ t = 31 ∨ t = 32 ∨ t = 33 := one_types_fin ⟨t, hlt⟩ h

theorem two_types_fin : ∀ (t : Fin 64), shapeOk t.val 2 = true →
    t.val = 24 ∨ t.val = 25 ∨ t.val = 33 ∨ t.val = 34 := by decide

theorem two_types (t : Nat) (hlt : t < 64) (h : shapeOk t 2 = true) :
    t = 24 ∨ t = 25 ∨ t = 33 ∨ t = 34 := two_types_fin ⟨t, hlt⟩ h

theorem three_types_fin : ∀ (t : Fin 64), shapeOk t.val 3 = true →
    t.val = 24 ∨ t.val = 25 ∨ t.val = 34 := by decide

theorem three_types (t : Nat) (hlt : t < 64) (h : shapeOk t 3 = true) :
    t = 24 ∨ t = 25 ∨ t = 34 := three_types_fin ⟨t, hlt⟩ h

theorem many_types (t k : Nat) (h : shapeOk t (k + 4) = true) : t = 24 ∨ t = 25 := by
  unfold shapeOk at h
  by_cases h1 : (t == 24 || t == 25) = true
  · simpa using h1
  · by_cases h2 : (decide (26 ≤ t) && decide (t ≤ 32)) = true
    · simp [h1, h2] at h
    · by_cases h3 : (t == 33) = true
      · simp [h1, h2, h3] at h
      · by_cases h4 : (t == 34) = true
        · simp [h1, h2, h3, h4] at h
        · simp [h1, h2, h3, h4] at h

theorem okList_cons (g : Writer.GoNode) (gs : List Writer.GoNode) : Writer.okList (g :: gs) = (g.ok && Writer.okList gs) := by
  rw [Writer.okList]

theorem goOf_ok (t o ch : Nat) (str : List Nat) (set : Option Class.Class) (m n : Int) (gs : List Writer.GoNode)
    (hs : shapeOk t gs.length = true) (hg : Writer.okList gs = true) : (goOf t o ch str set m n gs).ok = true := by
  have hlt := shapeOk_lt _ _ hs
  match gs, hs, hg with
  | [], hs, _ =>
    rcases leaf_types t hlt hs with h | h | h | h | h | h | h | h | h | h | h | h | h | h | h | h | h | h | h | h | h | h | h | h | h | h | h <;>
      subst h <;> rfl
  | [a], hs, hg =>
    have ha : a.ok = true := by simpa [okList_cons, Writer.okList] using hg
    rcases one_types t hlt hs with h | h | h | h | h | h | h | h | h | h <;> subst h <;>
      simp [goOf, Writer.GoNode.ok, Writer.okList, ha]
  | [a, b], hs, hg =>
    have hab : a.ok = true ∧ b.ok = true := by simpa [okList_cons, Writer.okList] using hg
    rcases two_types t hlt hs with h | h | h | h <;> subst h <;>
      simp [goOf, Writer.GoNode.ok, Writer.okList, hab.1, hab.2]
  | [a, b, c], hs, hg =>
    have habc : a.ok = true ∧ b.ok = true ∧ c.ok = true := by simpa [okList_cons, Writer.okList] using hg
    rcases three_types t hlt hs with h | h | h <;> subst h <;>
      simp [goOf, Writer.GoNode.ok, Writer.okList, habc.1, habc.2.1, habc.2.2]
  | a :: b :: c :: d :: rest, hs, hg =>
    have h4 : t = 24 ∨ t = 25 := many_types t rest.length (by simpa [Nat.add_assoc] using hs)
    rcases h4 with h | h <;> subst h <;> simp [goOf, Writer.GoNode.ok, hg]

mutual
theorem toGo_ok : ∀ (x : Node), okN x = true → (toGo x).ok = true
  | .mk t o ch str set m n kids, h => by
    rw [okN_mk] at h
    simp only [Bool.and_eq_true] at h
    have hk := toGos_ok kids h.2
    rw [toGo]
    exact goOf_ok _ _ _ _ _ _ _ _ (by rw [hk.2]; exact h.1) hk.1
theorem toGos_ok : ∀ (l : List Node), okNs l = true → Writer.okList (toGos l) = true ∧ (toGos l).length = l.length
  | [], _ => by simp [toGos, Writer.okList]
  | x :: xs, h => by
    rw [okNs_cons] at h
    simp only [Bool.and_eq_true] at h
    have h1 := toGo_ok x h.1
    have h2 := toGos_ok xs h.2
    rw [toGos]
    exact ⟨by rw [okList_cons]; simp [h1, h2.1], by simp [h2.2]⟩
end

/-- the reducer keeps a well-formed raw tree inside the writer's domain -/
theorem reduceTree_ok (orc : Orc) (on : Bool) (t : Parser.RawTree) (h : okRawTree (ofRaw t.root) = true) :
    (reduceTree orc on t).ok = true := by
  unfold reduceTree
  exact toGo_ok _ (okN_reduceRoot orc on h)

end RegexVerif.Reduce
