/-
Compiler correctness, part 4: the specification side — n-ary concatenation / alternation as `toPat` nests them, a
literal string, capture logs only grow.
-/
import RegexVerif.Model.Compile
import RegexVerif.Lemmas.Spec

namespace RegexVerif.Compile
open RegexVerif.Spec RegexVerif

theorem m_nestSeq_cons (e : Env) (x : Pat) (xs : List Pat) (st : St) :
    m e (nestSeq (x :: xs)) false st = (m e x false st).flatMap (m e (nestSeq xs) false) := by
  cases xs with
  | nil => simp [nestSeq, nest, m]
  | cons y ys => simp [nestSeq, nest, m]

theorem m_nestAlt_cons (e : Env) (x : Pat) (xs : List Pat) (d : Bool) (st : St) :
    m e (nestAlt (x :: xs)) d st = m e x d st ++ m e (nestAlt xs) d st := by
  cases xs with
  | nil => simp [nestAlt, nest, m]
  | cons y ys => simp [nestAlt, nest, m]

/-- right to left the LAST pattern of a concatenation is matched first -/
theorem m_nestSeq_cons_rtl (e : Env) (x : Pat) (xs : List Pat) (st : St) :
    m e (nestSeq (x :: xs)) true st = (m e (nestSeq xs) true st).flatMap (m e x true) := by
  cases xs with
  | nil => simp [nestSeq, nest, m]
  | cons y ys => simp [nestSeq, nest, m]

theorem flatMap_singleton_self {α : Type} (l : List α) : l.flatMap (fun x => [x]) = l := by
  induction l with
  | nil => rfl
  | cons x xs ih => simp [ih]

theorem m_nestSeq_append_single_rtl (e : Env) (p : Pat) : ∀ (qs : List Pat) (st : St),
    m e (nestSeq (qs ++ [p])) true st = (m e p true st).flatMap (m e (nestSeq qs) true)
  | [], st => by
    have : (fun s => m e (nestSeq []) true s) = fun s => [s] := by funext s; simp [nestSeq, nest, m]
    simp only [List.nil_append]
    rw [show m e (nestSeq []) true = fun s => [s] from this, flatMap_singleton_self]
    simp [nestSeq, nest]
  | q :: qs, st => by
    rw [List.cons_append, m_nestSeq_cons_rtl, m_nestSeq_append_single_rtl e p qs st, List.flatMap_assoc]
    congr 1
    funext s
    rw [m_nestSeq_cons_rtl]

/-- the children of a concatenation in the order the code runs them: stored order; the specification's pattern lists
    them reversed when matching right to left -/
def seqList (e : Env) (d : Bool) : List Pat → St → List St
  | [], st => [st]
  | p :: ps, st => (m e p d st).flatMap (seqList e d ps)

theorem m_nestSeq_dir (e : Env) (d : Bool) : ∀ (ps : List Pat) (st : St),
    m e (nestSeq (if d then ps.reverse else ps)) d st = seqList e d ps st := by
  cases d with
  | false =>
    intro ps
    simp only [Bool.false_eq_true, if_false]
    induction ps with
    | nil => intro st; simp [nestSeq, nest, m, seqList]
    | cons p ps ih =>
      intro st
      rw [m_nestSeq_cons, seqList]
      congr 1
      funext s; exact ih s
  | true =>
    intro ps
    simp only [if_true]
    induction ps with
    | nil => intro st; simp [nestSeq, nest, m, seqList]
    | cons p ps ih =>
      intro st
      rw [List.reverse_cons, m_nestSeq_append_single_rtl, seqList]
      congr 1
      funext s; exact ih s

/-- a literal string matches exactly where the text spells it -/
theorem m_multi (e : Env) (C : List (Nat × Nat × Nat)) : ∀ (str : List Nat) (i : Nat),
    m e (nestSeq (str.map (fun r => .chr (.one r false)))) false ⟨i, C⟩ =
      if (e.text.drop i).take str.length = str then [⟨i + str.length, C⟩] else []
  | [], i => by simp [nestSeq, nest, m]
  | r :: rest, i => by
    rw [List.map_cons, m_nestSeq_cons]
    have ih := fun j => m_multi e C rest j
    cases hx : e.text[i]? with
    | none =>
      have hlen : e.text.length ≤ i := by simpa using hx
      have : e.text.drop i = [] := List.drop_eq_nil_of_le hlen
      simp [m, stepChar, hx, this]
    | some c =>
      have hlt := (List.getElem?_eq_some_iff.mp hx).1
      have hget := (List.getElem?_eq_some_iff.mp hx).2
      have hd : e.text.drop i = c :: e.text.drop (i + 1) := by rw [List.drop_eq_getElem_cons hlt, hget]
      by_cases hrc : r = c
      · subst hrc
        simp only [m, stepChar, hx, Bool.false_eq_true, if_false, Option.map_some, Pred.test, beq_self_eq_true, if_true,
          List.flatMap_cons, List.flatMap_nil, List.append_nil]
        rw [ih (i + 1), hd]
        simp only [List.length_cons, List.take_succ_cons, List.cons.injEq, true_and]
        split <;> simp <;> omega
      · have hne : (r == c) = false := by simpa using hrc
        have hne' : ¬ c = r := fun h => hrc h.symm
        simp [m, stepChar, hx, Pred.test, hne, hd, hne']

/-- right to left a literal string matches exactly where the text before the position spells it -/
theorem m_multi_rtl (e : Env) (C : List (Nat × Nat × Nat)) : ∀ (str : List Nat) (i : Nat),
    m e (nestSeq (str.map (fun r => .chr (.one r false)))) true ⟨i, C⟩ =
      if str.length ≤ i ∧ (e.text.drop (i - str.length)).take str.length = str then [⟨i - str.length, C⟩] else []
  | [], i => by simp [nestSeq, nest, m]
  | r :: rest, i => by
    rw [List.map_cons, m_nestSeq_cons_rtl, m_multi_rtl e C rest i]
    by_cases h1 : rest.length ≤ i ∧ (e.text.drop (i - rest.length)).take rest.length = rest
    · rw [if_pos h1]
      simp only [List.flatMap_cons, List.flatMap_nil, List.append_nil, List.length_cons]
      by_cases h0 : i - rest.length = 0
      · have hle : ¬ rest.length + 1 ≤ i := by omega
        simp [m, stepChar, h0, hle]
      · have hj : i - (rest.length + 1) + 1 = i - rest.length := by omega
        have e1 : i - rest.length - 1 = i - (rest.length + 1) := by omega
        cases hx : e.text[i - (rest.length + 1)]? with
        | none =>
          have hlen : e.text.length ≤ i - (rest.length + 1) := by simpa using hx
          have hd : e.text.drop (i - (rest.length + 1)) = [] :=
            List.drop_eq_nil_of_le (by omega)
          simp [m, stepChar, h0, e1, hx, hd]
        | some c =>
          have hlt := (List.getElem?_eq_some_iff.mp hx).1
          have hget := (List.getElem?_eq_some_iff.mp hx).2
          have hd : e.text.drop (i - (rest.length + 1)) = c :: e.text.drop (i - rest.length) := by
            rw [List.drop_eq_getElem_cons hlt, hget, hj]
          have hle : rest.length + 1 ≤ i := by omega
          by_cases hrc : r = c
          · subst hrc
            simp [m, stepChar, h0, e1, hx, Pred.test, hd, hle, h1.2]
          · have hne : (r == c) = false := by simpa using hrc
            have hne' : ¬ c = r := fun h => hrc h.symm
            simp [m, stepChar, h0, e1, hx, Pred.test, hne, hd, hne']
    · rw [if_neg h1]
      simp only [List.flatMap_nil, List.length_cons]
      have : ¬ (rest.length + 1 ≤ i ∧ (e.text.drop (i - (rest.length + 1))).take (rest.length + 1) = r :: rest) := by
        rintro ⟨hle, heq⟩
        apply h1
        refine ⟨by omega, ?_⟩
        have hj : i - (rest.length + 1) + 1 = i - rest.length := by omega
        cases hdr : e.text.drop (i - (rest.length + 1)) with
        | nil => rw [hdr] at heq; simp at heq
        | cons c tl =>
          rw [hdr] at heq
          simp only [List.take_succ_cons, List.cons.injEq] at heq
          have : e.text.drop (i - rest.length) = tl := by
            rw [← hj, ← List.drop_drop, hdr]; rfl
          rw [this]; exact heq.2
      rw [if_neg this]

/-- captures are only appended -/
theorem iter_caps_ext (f : St → List St) (hf : ∀ st, ∀ st' ∈ f st, ∃ ext, st'.caps = st.caps ++ ext)
    (lzy : Bool) (lo : Nat) (hi : Option Nat) : ∀ (fuel cnt : Nat) (st : St),
    ∀ st' ∈ iter f lzy lo hi fuel cnt st, ∃ ext, st'.caps = st.caps ++ ext := by
  intro fuel
  induction fuel with
  | zero =>
    intro cnt st st' h
    simp only [iter] at h
    split at h
    · simp at h; subst h; exact ⟨[], by simp⟩
    · simp at h
  | succ fuel ih =>
    intro cnt st st' h
    simp only [iter] at h
    have hstop : st' ∈ (if lo ≤ cnt then [st] else []) → ∃ ext, st'.caps = st.caps ++ ext := by
      intro h
      split at h
      · simp at h; subst h; exact ⟨[], by simp⟩
      · simp at h
    have hmore : st' ∈ (if canGo hi cnt = true then
        (f st).flatMap (fun st' => if (st'.pos == st.pos && decide (lo ≤ cnt + 1)) = true then [st']
          else iter f lzy lo hi fuel (cnt + 1) st') else []) → ∃ ext, st'.caps = st.caps ++ ext := by
      intro h
      split at h
      · simp only [List.mem_flatMap] at h
        obtain ⟨mid, hmid, h⟩ := h
        obtain ⟨e1, he1⟩ := hf st mid hmid
        split at h
        · simp at h; subst h; exact ⟨e1, he1⟩
        · obtain ⟨e2, he2⟩ := ih (cnt + 1) mid st' h
          exact ⟨e1 ++ e2, by rw [he2, he1, List.append_assoc]⟩
      · simp at h
    split at h
    · rcases List.mem_append.1 h with h | h
      · exact hstop h
      · exact hmore h
    · rcases List.mem_append.1 h with h | h
      · exact hmore h
      · exact hstop h

theorem m_caps_ext (e : Env) : ∀ (p : Pat) (rtl : Bool) (st : St), ∀ st' ∈ m e p rtl st, ∃ ext, st'.caps = st.caps ++ ext := by
  intro p
  induction p with
  | empty => intro rtl st st' h; simp [m] at h; subst h; exact ⟨[], by simp⟩
  | nothing => intro rtl st st' h; simp [m] at h
  | chr pr =>
    intro rtl st st' h
    simp only [m] at h
    split at h
    · split at h
      · simp at h; subst h; exact ⟨[], by simp⟩
      · simp at h
    · simp at h
  | anchor a =>
    intro rtl st st' h
    simp only [m] at h
    split at h
    · simp at h; subst h; exact ⟨[], by simp⟩
    · simp at h
  | seq a b iha ihb =>
    intro rtl st st' h
    simp only [m] at h
    split at h
    · simp only [List.mem_flatMap] at h
      obtain ⟨mid, hmid, h⟩ := h
      obtain ⟨e1, he1⟩ := ihb rtl st mid hmid
      obtain ⟨e2, he2⟩ := iha rtl mid st' h
      exact ⟨e1 ++ e2, by rw [he2, he1, List.append_assoc]⟩
    · simp only [List.mem_flatMap] at h
      obtain ⟨mid, hmid, h⟩ := h
      obtain ⟨e1, he1⟩ := iha rtl st mid hmid
      obtain ⟨e2, he2⟩ := ihb rtl mid st' h
      exact ⟨e1 ++ e2, by rw [he2, he1, List.append_assoc]⟩
  | alt a b iha ihb =>
    intro rtl st st' h
    simp only [m] at h
    rcases List.mem_append.1 h with h | h
    · exact iha rtl st st' h
    · exact ihb rtl st st' h
  | quant lzy lo hi body ih =>
    intro rtl st st' h
    simp only [m] at h
    exact iter_caps_ext _ (ih rtl) lzy lo hi _ _ st st' h
  | cap g body ih =>
    intro rtl st st' h
    simp only [m, List.mem_map] at h
    obtain ⟨mid, hmid, rfl⟩ := h
    obtain ⟨e1, he1⟩ := ih rtl st mid hmid
    exact ⟨e1 ++ [(g, min st.pos mid.pos, max st.pos mid.pos - min st.pos mid.pos)], by simp [he1]⟩
  | look behind neg body ih =>
    intro rtl st st' h
    simp only [m] at h
    split at h
    · split at h
      · simp at h; subst h; exact ⟨[], by simp⟩
      · simp at h
    · next x xs hx =>
      split at h
      · simp at h
      · simp at h; subst h
        exact ih behind st x (by rw [hx]; simp)
  | atomic body ih =>
    intro rtl st st' h
    simp only [m] at h
    exact ih rtl st st' (List.mem_of_mem_take h)
  | ref g ci =>
    intro rtl st st' h
    simp only [m] at h
    split at h
    · simp at h
    · split at h
      · simp at h; subst h; exact ⟨[], by simp⟩
      · simp at h
  | refCond g y n ihy ihn =>
    intro rtl st st' h
    simp only [m] at h
    split at h
    · exact ihy rtl st st' h
    · exact ihn rtl st st' h
  | exprCond c y n ihc ihy ihn =>
    intro rtl st st' h
    simp only [m] at h
    split at h
    · next x xs hx =>
      obtain ⟨e1, he1⟩ := ihc rtl st x (by rw [hx]; simp)
      obtain ⟨e2, he2⟩ := ihy rtl { pos := st.pos, caps := x.caps } st' h
      exact ⟨e1 ++ e2, by rw [he2]; simp [he1]⟩
    · exact ihn rtl st st' h

/-! ## direction, and one round of `iter` -/

/-- `b` lies at or beyond `a` in the direction of the match -/
def dirLe (rtl : Bool) (a b : Nat) : Prop := if rtl then b ≤ a else a ≤ b

theorem dirLe_refl (rtl : Bool) (a : Nat) : dirLe rtl a a := by cases rtl <;> simp [dirLe]

theorem dirLe_trans {rtl : Bool} {a b c : Nat} (h1 : dirLe rtl a b) (h2 : dirLe rtl b c) : dirLe rtl a c := by
  cases rtl <;> simp only [dirLe, Bool.false_eq_true, if_false, if_true] at * <;> omega

/-- a pattern only moves the position in its direction -/
theorem m_dir (e : Env) : ∀ (p : Pat) (rtl : Bool) (st : St), ∀ st' ∈ m e p rtl st, dirLe rtl st.pos st'.pos := by
  intro p
  induction p with
  | empty => intro rtl st st' h; simp [m] at h; subst h; exact dirLe_refl _ _
  | nothing => intro rtl st st' h; simp [m] at h
  | chr pr =>
    intro rtl st st' h
    simp only [m] at h
    split at h
    · next r pos' hs =>
      split at h
      · simp at h; subst h
        unfold stepChar at hs
        cases rtl with
        | true =>
          simp only [if_true] at hs
          split at hs
          · cases hs
          · cases hg : e.text[st.pos - 1]? with
            | none => simp [hg] at hs
            | some x => simp [hg] at hs; simp only [dirLe, if_true]; omega
        | false =>
          simp only [Bool.false_eq_true, if_false] at hs
          cases hg : e.text[st.pos]? with
          | none => simp [hg] at hs
          | some x => simp [hg] at hs; simp only [dirLe, Bool.false_eq_true, if_false]; omega
      · simp at h
    · simp at h
  | anchor a =>
    intro rtl st st' h
    simp only [m] at h
    split at h
    · simp at h; subst h; exact dirLe_refl _ _
    · simp at h
  | seq a b iha ihb =>
    intro rtl st st' h
    simp only [m] at h
    split at h
    · simp only [List.mem_flatMap] at h
      obtain ⟨mid, hmid, h⟩ := h
      exact dirLe_trans (ihb rtl st mid hmid) (iha rtl mid st' h)
    · simp only [List.mem_flatMap] at h
      obtain ⟨mid, hmid, h⟩ := h
      exact dirLe_trans (iha rtl st mid hmid) (ihb rtl mid st' h)
  | alt a b iha ihb =>
    intro rtl st st' h
    simp only [m] at h
    rcases List.mem_append.1 h with h | h
    · exact iha rtl st st' h
    · exact ihb rtl st st' h
  | quant lzy lo hi body ih =>
    intro rtl st st' h
    simp only [m] at h
    exact iter_preserves (fun x => dirLe rtl st.pos x.pos) (m e body rtl)
      (fun s hs s' hs' => dirLe_trans hs (ih rtl s s' hs')) lzy lo hi _ 0 st (dirLe_refl _ _) st' h
  | cap g body ih =>
    intro rtl st st' h
    simp only [m, List.mem_map] at h
    obtain ⟨mid, hmid, rfl⟩ := h
    exact ih rtl st mid hmid
  | look behind neg body ih =>
    intro rtl st st' h
    simp only [m] at h
    split at h
    · split at h
      · simp at h; subst h; exact dirLe_refl _ _
      · simp at h
    · split at h
      · simp at h
      · simp at h; subst h; exact dirLe_refl _ _
  | atomic body ih =>
    intro rtl st st' h
    simp only [m] at h
    exact ih rtl st st' (List.mem_of_mem_take h)
  | ref g ci =>
    intro rtl st st' h
    simp only [m] at h
    split at h
    · simp at h
    · next s len _ =>
      split at h
      · next pos' hr =>
        simp at h; subst h
        unfold refMatch at hr
        cases rtl with
        | true =>
          simp only [if_true] at hr
          split at hr
          · cases hr
          · split at hr
            · simp at hr; simp only [dirLe, if_true]; omega
            · cases hr
        | false =>
          simp only [Bool.false_eq_true, if_false] at hr
          split at hr
          · simp at hr; simp only [dirLe, Bool.false_eq_true, if_false]; omega
          · cases hr
      · simp at h
  | refCond g y n ihy ihn =>
    intro rtl st st' h
    simp only [m] at h
    split at h
    · exact ihy rtl st st' h
    · exact ihn rtl st st' h
  | exprCond c y n ihc ihy ihn =>
    intro rtl st st' h
    simp only [m] at h
    split at h
    · next x _ _ => exact ihy rtl { pos := st.pos, caps := x.caps } st' h
    · exact ihn rtl st st' h

/-- what `iter` does with a success `st'` of the body started at position `q` after `cnt` completed iterations -/
def iterNext (f : St → List St) (lzy : Bool) (lo : Nat) (hi : Option Nat) (fuel cnt q : Nat) (st' : St) : List St :=
  if st'.pos == q && decide (lo ≤ cnt + 1) then [st'] else iter f lzy lo hi fuel (cnt + 1) st'

theorem iter_succ (f : St → List St) (lzy : Bool) (lo : Nat) (hi : Option Nat) (fuel cnt : Nat) (st : St) :
    iter f lzy lo hi (fuel + 1) cnt st =
      (if lzy then (if lo ≤ cnt then [st] else []) ++
          (if canGo hi cnt then (f st).flatMap (iterNext f lzy lo hi fuel cnt st.pos) else [])
        else (if canGo hi cnt then (f st).flatMap (iterNext f lzy lo hi fuel cnt st.pos) else []) ++
          (if lo ≤ cnt then [st] else [])) := by
  have hfun : (fun st' => if (st'.pos == st.pos && decide (lo ≤ cnt + 1)) = true then [st']
      else iter f lzy lo hi fuel (cnt + 1) st') = iterNext f lzy lo hi fuel cnt st.pos := by
    funext st'; rfl
  simp only [iter, hfun]

/-- the list a loop's tail instruction delivers when it is reached at `st` after `k` iterations, the last one started
    at `q` (`-1`: none yet), if `rest` is what another round of the body delivers -/
def tailList (lzy : Bool) (lo : Nat) (hi : Option Nat) (k : Nat) (q : Int) (st : St) (rest : List St) : List St :=
  if lzy then (if lo ≤ k then [st] else []) ++
      (if canGo hi k && !(decide (q = (st.pos : Int)) && decide (lo ≤ k)) then rest else [])
  else (if canGo hi k && !(decide (q = (st.pos : Int)) && decide (lo ≤ k)) then rest else []) ++
      (if lo ≤ k then [st] else [])

/-- the empty iteration that ends the loop -/
theorem tailList_stop {lzy : Bool} {lo : Nat} {hi : Option Nat} {k : Nat} {q : Int} {st : St} {rest : List St}
    (hq : q = (st.pos : Int)) (hk : lo ≤ k) : tailList lzy lo hi k q st rest = [st] := by
  cases lzy <;> simp [tailList, hq, hk]

/-- another round -/
theorem tailList_go {f : St → List St} {lzy : Bool} {lo : Nat} {hi : Option Nat} {fuel k : Nat} {q : Int} {st : St}
    (hq : ¬ (q = (st.pos : Int) ∧ lo ≤ k)) :
    tailList lzy lo hi k q st ((f st).flatMap (iterNext f lzy lo hi fuel k st.pos)) =
      iter f lzy lo hi (fuel + 1) k st := by
  have : (decide (q = (st.pos : Int)) && decide (lo ≤ k)) = false := by
    rw [Bool.eq_false_iff]; intro h; simp only [Bool.and_eq_true, decide_eq_true_eq] at h; exact hq h
  rw [iter_succ]
  simp only [tailList, this, Bool.not_false, Bool.and_true]

end RegexVerif.Compile
