/-
Lemmas about the interpreter model `RegexVerif.VM` (Model/VM.lean): what `Prog.wf` provides, the frame
invariant of the backtracking stack, and its preservation by `step`.
-/
import RegexVerif.Model.VM

namespace RegexVerif.Lemmas.VM
open RegexVerif.VM RegexVerif.Code RegexVerif

/-! ## what `Prog.wf` provides -/

/-- the facts `instrOk` checks for the instruction at boundary `pc` -/
structure InstrFacts (p : Prog) (bs : List Nat) (pc : Nat) (w : Word) (o : Op) : Prop where
  fetch : fetch p pc = .ok w
  op : Op.ofNat? w.op = some o
  noback : w.back = false
  noback2 : w.back2 = false
  operands : operandsOk p bs pc o = true
  inside : pc + o.size ≤ p.codes.size
  next : o = .stop ∨ pc + o.size ∈ bs

structure WF (p : Prog) (bs : List Nat) : Prop where
  bnd : p.boundaries = some bs
  instr : ∀ pc ∈ bs, ∃ w o, InstrFacts p bs pc w o
  zero : 0 ∈ bs
  root : ∃ w, fetch p 0 = .ok w ∧ Op.ofNat? w.op = some .lazybranch
  rootTarget : ∃ t wt, p.codes[1]? = some t ∧ 0 ≤ t ∧ fetch p t.toNat = .ok wt ∧ Op.ofNat? wt.op = some .stop

theorem isOpAt_spec {p : Prog} {pc : Nat} {o : Op} (h : isOpAt p pc o = true) :
    ∃ w, fetch p pc = .ok w ∧ Op.ofNat? w.op = some o := by
  unfold isOpAt at h
  split at h
  · next w hw => exact ⟨w, hw, by simpa using h⟩
  · simp at h

theorem instrOk_spec {p : Prog} {bs : List Nat} {pc : Nat} (h : instrOk p bs pc = true) :
    ∃ w o, InstrFacts p bs pc w o := by
  unfold instrOk at h
  split at h
  · simp at h
  · next w hw =>
    split at h
    · simp at h
    · next o ho =>
      simp only [Bool.and_eq_true, Bool.not_eq_true', decide_eq_true_eq, Bool.or_eq_true,
        List.contains_iff_mem] at h
      exact ⟨w, o, hw, ho, h.1.1.1.1.1, h.1.1.1.1.2, h.1.1.2, h.1.2, h.2⟩

theorem wf_spec {p : Prog} (h : p.wf = true) : ∃ bs, WF p bs := by
  unfold Prog.wf at h
  split at h
  · simp at h
  · next bs hbs =>
    simp only [Bool.and_eq_true, List.all_eq_true, List.contains_iff_mem] at h
    obtain ⟨⟨⟨⟨hall, h0⟩, hroot⟩, htgt⟩, _⟩ := h
    refine ⟨bs, hbs, fun pc hpc => instrOk_spec (hall pc hpc), h0, isOpAt_spec hroot, ?_⟩
    split at htgt
    · next t ht =>
      simp only [Bool.and_eq_true, decide_eq_true_eq] at htgt
      obtain ⟨wt, h1, h2⟩ := isOpAt_spec htgt.2
      exact ⟨t, wt, ht, htgt.1, h1, h2⟩
    · simp at htgt

/-! ## the frame invariant -/

/-- a frame of a greedy single-character loop: `pos` is where the loop stands after giving one character
    back, `i` how many more it can give back -/
def LoopPos (n : Int) (rtl : Bool) (pos i : Int) : Prop :=
  0 ≤ pos ∧ pos ≤ n ∧ (if rtl then pos + i ≤ n else i ≤ pos)

/-- a frame of a lazy single-character loop: `pos` is where the next character is read, `i` how many more
    may be taken after that one -/
def LazyPos (n : Int) (rtl : Bool) (pos i : Int) : Prop :=
  0 ≤ i ∧ (if rtl then pos ≤ n ∧ 0 ≤ pos - i - 1 else 0 ≤ pos ∧ pos + i + 1 ≤ n)

/-- what the data slots of a frame (top first) must satisfy so that the Back / Back2 case that pops them
    only touches the text inside `[0, n]` -/
def posOk (n : Int) (o : Op) (b2 rtl : Bool) (d : List Int) : Prop :=
  match o, b2, d with
  | .oneloop, false, [pos, i] => LoopPos n rtl pos i
  | .notoneloop, false, [pos, i] => LoopPos n rtl pos i
  | .setloop, false, [pos, i] => LoopPos n rtl pos i
  | .onelazy, false, [pos, i] => LazyPos n rtl pos i
  | .notonelazy, false, [pos, i] => LazyPos n rtl pos i
  | .setlazy, false, [pos, i] => LazyPos n rtl pos i
  | .lazybranch, false, [tp] => 0 ≤ tp ∧ tp ≤ n
  | .branchmark, false, [tp, _] => 0 ≤ tp ∧ tp ≤ n
  | .lazybranchmark, false, [tp, _] => 0 ≤ tp ∧ tp ≤ n
  | .lazybranchcount, false, [tp, _, _] => 0 ≤ tp ∧ tp ≤ n
  | _, _, _ => True

/-- the backtracking stack is a sequence of whole frames — saved code position (sign = Back2) on top of the
    data slots its Back / Back2 case pops — above the frame `[0, tp]` of the `Lazybranch` at code position 0 -/
inductive Frames (p : Prog) (bs : List Nat) (n : Int) : List Int → Prop
  | root (tp : Int) : 0 ≤ tp → tp ≤ n → Frames p bs n [0, tp]
  | cons (c : Int) (w : Word) (o : Op) (d rest : List Int) :
      (savedPos c).1 ∈ bs → fetch p (savedPos c).1 = .ok w → Op.ofNat? w.op = some o →
      frameData o (savedPos c).2 = some d.length → posOk n o (savedPos c).2 w.rtl d →
      Frames p bs n rest → Frames p bs n (c :: (d ++ rest))

/-- shape of the backtracking stack by the mode of the operator about to run -/
def Shape (p : Prog) (bs : List Nat) (n : Int) (s : VMState) (o : Op) : Prop :=
  match s.oper.back, s.oper.back2 with
  | false, false => Frames p bs n s.track ∨ (s.track = [] ∧ (s.codepos = 0 ∨ o = .stop))
  | true, false => ∃ d rest, s.track = d ++ rest ∧ frameData o false = some d.length ∧
      posOk n o false s.oper.rtl d ∧ (Frames p bs n rest ∨ (rest = [] ∧ s.codepos = 0))
  | false, true => ∃ d rest, s.track = d ++ rest ∧ frameData o true = some d.length ∧
      posOk n o true s.oper.rtl d ∧ Frames p bs n rest
  | true, true => False

/-- what every case of the switch may rely on -/
structure Ctx (p : Prog) (bs : List Nat) (env : Env) (s : VMState) (w : Word) (o : Op) : Prop where
  wf : WF p bs
  facts : InstrFacts p bs s.codepos w o
  pcIn : s.codepos ∈ bs
  oop : s.oper.op = w.op
  ortl : s.oper.rtl = w.rtl
  oci : s.oper.ci = w.ci
  tp0 : 0 ≤ s.textpos
  tpn : s.textpos ≤ env.len

/-- **the invariant** of the interpreter loop -/
def Inv (p : Prog) (bs : List Nat) (env : Env) (s : VMState) : Prop :=
  ∃ w o, Ctx p bs env s w o ∧ Shape p bs env.len s o

/-- what a case body hands to `advance` / `goTo` / `backtrack` -/
def Mid (p : Prog) (bs : List Nat) (n : Int) (s1 : VMState) (o : Op) : Exit → Prop
  | .halt => True
  | .back => Frames p bs n s1.track
  | .advance i => Frames p bs n s1.track ∧ i + 1 = o.size
  | .goto t => isBoundaryPos bs t = true ∧
      (Frames p bs n s1.track ∨
        (s1.track = [] ∧ ∃ wt, fetch p t.toNat = .ok wt ∧ Op.ofNat? wt.op = some .stop))

def BodyOk (p : Prog) (bs : List Nat) (env : Env) (s : VMState) (o : Op) : Res → Prop
  | .error f => f.structural = false
  | .ok (s1, e) => s1.codepos = s.codepos ∧ s1.oper = s.oper ∧ 0 ≤ s1.textpos ∧ s1.textpos ≤ env.len ∧
      Mid p bs env.len s1 o e

/-! ### generic lemmas -/

theorem savedPos_pos (c : Nat) : savedPos (c : Int) = (c, false) := by
  unfold savedPos; simp

theorem savedPos_neg (c : Nat) (h : c ≠ 0) : savedPos (-(c : Int)) = (c, true) := by
  unfold savedPos
  have : (-(c : Int)) < 0 := by omega
  simp [h]

theorem operand_ok {p : Prog} {bs : List Nat} {s : VMState} {w : Word} {o : Op}
    (hf : InstrFacts p bs s.codepos w o) (i : Nat) (hi : i + 1 < o.size) :
    ∃ v, operand p s i = .ok v ∧ p.codes[s.codepos + i + 1]? = some v := by
  have hlt : s.codepos + i + 1 < p.codes.size := by have := hf.inside; omega
  refine ⟨p.codes[s.codepos + i + 1], ?_, ?_⟩
  · unfold operand; simp [hlt]
  · simp [hlt]

theorem codepos_ne_zero {p : Prog} {bs : List Nat} {env : Env} {s : VMState} {w : Word} {o : Op}
    (c : Ctx p bs env s w o) (h : o ≠ .lazybranch) : s.codepos ≠ 0 := by
  intro h0
  obtain ⟨w0, hw0, ho0⟩ := c.wf.root
  have := c.facts.fetch
  rw [h0, hw0] at this
  cases this
  rw [c.facts.op] at ho0
  cases ho0
  exact h rfl

/-- pushing a frame for the current instruction -/
theorem frames_push {p : Prog} {bs : List Nat} {env : Env} {s : VMState} {w : Word} {o : Op}
    (c : Ctx p bs env s w o) (b2 : Bool) (d rest : List Int)
    (hd : frameData o b2 = some d.length) (hp : posOk env.len o b2 w.rtl d)
    (hne : b2 = true → o ≠ .lazybranch) (hr : Frames p bs env.len rest) :
    Frames p bs env.len ((if b2 then -(s.codepos : Int) else (s.codepos : Int)) :: (d ++ rest)) := by
  cases b2 with
  | false =>
    simp only [Bool.false_eq_true, ite_false]
    have hs := savedPos_pos s.codepos
    exact Frames.cons _ w o d rest (by rw [hs]; exact c.pcIn) (by rw [hs]; exact c.facts.fetch) c.facts.op
      (by rw [hs]; exact hd) (by rw [hs]; exact hp) hr
  | true =>
    simp only [ite_true]
    have hs := savedPos_neg s.codepos (codepos_ne_zero c (hne rfl))
    exact Frames.cons _ w o d rest (by rw [hs]; exact c.pcIn) (by rw [hs]; exact c.facts.fetch) c.facts.op
      (by rw [hs]; exact hd) (by rw [hs]; exact hp) hr

theorem charAt_ok (env : Env) (j : Int) (h0 : 0 ≤ j) (h1 : j < env.len) : ∃ c, charAt env j = .ok c := by
  unfold charAt Env.len at *
  have : j.toNat < env.text.size := by omega
  simp [h0, this]

/-- `scan` stays inside the text when `k` characters are available -/
theorem scan_ok (env : Env) (pred : Nat → Bool) (rtl : Bool) :
    ∀ (k : Nat) (pos : Int), 0 ≤ pos → pos ≤ env.len →
      (if rtl then (k : Int) ≤ pos else pos + k ≤ env.len) →
      ∃ m, scan env pred rtl k pos = .ok m ∧ m ≤ k := by
  intro k
  induction k with
  | zero => intro pos _ _ _; exact ⟨0, rfl, Nat.le_refl _⟩
  | succ k ih =>
    intro pos h0 hn hk
    unfold scan forwardcharnext
    cases rtl with
    | true =>
      simp only [ite_true] at hk ⊢
      obtain ⟨c, hc⟩ := charAt_ok env (pos - 1) (by omega) (by omega)
      simp only [hc, Except.map]
      by_cases hp : pred c
      · obtain ⟨m, hm, hle⟩ := ih (pos - 1) (by omega) (by omega) (by simp; omega)
        simp only [hp, ite_true, hm]
        exact ⟨m + 1, rfl, by omega⟩
      · simp only [hp]; exact ⟨0, rfl, by omega⟩
    | false =>
      simp only [Bool.false_eq_true, ite_false] at hk ⊢
      obtain ⟨c, hc⟩ := charAt_ok env pos (by omega) (by omega)
      simp only [hc, Except.map]
      by_cases hp : pred c
      · obtain ⟨m, hm, hle⟩ := ih (pos + 1) (by omega) (by omega) (by simp; omega)
        simp only [hp, ite_true, hm]
        exact ⟨m + 1, rfl, by omega⟩
      · simp only [hp]; exact ⟨0, rfl, by omega⟩

/-! ### the cases -/

section cases
variable {p : Prog} {bs : List Nat} {env : Env} {s : VMState} {w : Word} {o : Op}

/-- operand 0 is a set index (what `operandsOk` checks for the five set opcodes) -/
def SetOperand (p : Prog) (pc : Nat) : Prop := ∀ a, p.codes[pc + 1]? = some a → 0 ≤ a ∧ a.toNat < p.nsets

theorem setOperand_of (c : Ctx p bs env s w o)
    (ho : o = .set ∨ o = .setrep ∨ o = .setloop ∨ o = .setlazy ∨ o = .setloopatomic) :
    SetOperand p s.codepos := by
  intro a ha
  have h := c.facts.operands
  unfold operandsOk at h
  rcases ho with rfl | rfl | rfl | rfl | rfl <;> simpa [ha] using h

theorem charPred_ok (sel : Nat) (x : Int) (hset : 2 ≤ sel → 0 ≤ x ∧ x.toNat < p.nsets) :
    ∃ pred, charPred p env sel x = .ok pred := by
  unfold charPred
  match sel with
  | 0 => exact ⟨_, rfl⟩
  | 1 => exact ⟨_, rfl⟩
  | k + 2 =>
    have := hset (by omega)
    simp only [setPred, this, and_self, ite_true]
    exact ⟨_, rfl⟩

theorem forwardcharnext_ok (rtl : Bool) (pos : Int) (h0 : 0 ≤ pos) (hn : pos ≤ env.len)
    (hav : if rtl then 1 ≤ pos else pos + 1 ≤ env.len) :
    ∃ ch, forwardcharnext env rtl pos = .ok (ch, if rtl then pos - 1 else pos + 1) := by
  unfold forwardcharnext
  cases rtl with
  | true =>
    simp only [ite_true] at hav ⊢
    obtain ⟨ch, hc⟩ := charAt_ok env (pos - 1) (by omega) (by omega)
    exact ⟨ch, by simp [hc, Except.map]⟩
  | false =>
    simp only [Bool.false_eq_true, ite_false] at hav ⊢
    obtain ⟨ch, hc⟩ := charAt_ok env pos (by omega) (by omega)
    exact ⟨ch, by simp [hc, Except.map]⟩

theorem caseChar_ok (c : Ctx p bs env s w o) (hsz : o.size = 2) (sel : Nat)
    (hset : 2 ≤ sel → SetOperand p s.codepos) (hfr : Frames p bs env.len s.track) :
    BodyOk p bs env s o (caseChar p env sel s) := by
  unfold caseChar
  split
  · exact ⟨rfl, rfl, c.tp0, c.tpn, hfr⟩
  · next hfc =>
    obtain ⟨x, hx, hx'⟩ := operand_ok c.facts 0 (by omega)
    obtain ⟨pred, hpred⟩ := charPred_ok (p := p) (env := env) sel x (fun h => hset h x hx')
    have h0 := c.tp0
    have hn := c.tpn
    unfold forwardchars at hfc
    obtain ⟨ch, hch⟩ := forwardcharnext_ok (env := env) s.oper.rtl s.textpos h0 hn
      (by cases hr : s.oper.rtl <;> simp [hr] at hfc ⊢ <;> omega)
    simp only [bind, Except.bind, hx, hpred, hch, pure, Except.pure]
    cases hr : s.oper.rtl <;> simp [hr] at hfc <;>
      split <;> simp only [BodyOk, Mid, textto, Bool.false_eq_true, ite_false, ite_true] <;>
      refine ⟨trivial, trivial, by omega, by omega, ?_⟩ <;> first | exact hfr | exact ⟨hfr, by omega⟩

theorem caseRep_ok (c : Ctx p bs env s w o) (hsz : o.size = 3) (sel : Nat)
    (hset : 2 ≤ sel → SetOperand p s.codepos) (hfr : Frames p bs env.len s.track) :
    BodyOk p bs env s o (caseRep p env sel s) := by
  unfold caseRep
  obtain ⟨cnt, hc1, _⟩ := operand_ok c.facts 1 (by omega)
  simp only [bind, Except.bind, hc1, pure, Except.pure]
  have h0 := c.tp0
  have hn := c.tpn
  split
  · exact ⟨rfl, rfl, c.tp0, c.tpn, hfr⟩
  · next hfc =>
    obtain ⟨x, hx, hx'⟩ := operand_ok c.facts 0 (by omega)
    obtain ⟨pred, hpred⟩ := charPred_ok (p := p) (env := env) sel x (fun h => hset h x hx')
    obtain ⟨m, hm, hle⟩ := scan_ok env pred s.oper.rtl cnt.toNat s.textpos h0 hn
      (by cases hr : s.oper.rtl <;> simp [forwardchars, hr] at hfc ⊢ <;> omega)
    simp only [hx, hpred, hm]
    cases hr : s.oper.rtl <;> simp [forwardchars, hr] at hfc <;>
      split <;> simp only [BodyOk, Mid, textto, bump, hr, Bool.false_eq_true, ite_false, ite_true] <;>
      refine ⟨trivial, trivial, by omega, by omega, ?_⟩ <;> first | exact hfr | exact ⟨hfr, by omega⟩

theorem caseLoop_ok (c : Ctx p bs env s w o) (hsz : o.size = 3) (sel : Nat) (atomic : Bool)
    (hset : 2 ≤ sel → SetOperand p s.codepos)
    (ho : atomic = false → o = .oneloop ∨ o = .notoneloop ∨ o = .setloop)
    (hfr : Frames p bs env.len s.track) :
    BodyOk p bs env s o (caseLoop p env sel atomic s) := by
  unfold caseLoop
  obtain ⟨c0, hc0, _⟩ := operand_ok c.facts 1 (by omega)
  obtain ⟨x, hx, hx'⟩ := operand_ok c.facts 0 (by omega)
  obtain ⟨pred, hpred⟩ := charPred_ok (p := p) (env := env) sel x (fun h => hset h x hx')
  have h0 := c.tp0
  have hn := c.tpn
  obtain ⟨m, hm, hle⟩ := scan_ok env pred s.oper.rtl
      (if c0 > forwardchars env s then forwardchars env s else c0).toNat s.textpos h0 hn
      (by cases hr : s.oper.rtl <;> simp [forwardchars, hr] <;> split <;> omega)
  simp only [bind, Except.bind, hc0, hx, hpred, hm, pure, Except.pure]
  have hrtl := c.ortl
  split
  · next hpush =>
    have hat : atomic = false := by cases atomic <;> simp_all
    simp only [BodyOk, Mid, push2, textto]
    refine ⟨trivial, trivial, ?_, ?_, ?_, by omega⟩
    · cases hr : s.oper.rtl <;> simp [forwardchars, hr, bump] at hle ⊢ <;> split at hle <;> omega
    · cases hr : s.oper.rtl <;> simp [forwardchars, hr, bump] at hle ⊢ <;> split at hle <;> omega
    · have := frames_push c false [s.textpos + bump s * ↑m - bump s, (m : Int) - 1] s.track
        (by rcases ho hat with rfl | rfl | rfl <;> rfl)
        (by
          have hl : LoopPos env.len w.rtl (s.textpos + bump s * ↑m - bump s) ((m : Int) - 1) := by
            rw [← hrtl]
            unfold LoopPos
            cases hr : s.oper.rtl <;> simp [forwardchars, hr, bump] at hle ⊢ <;> split at hle <;> omega
          rcases ho hat with rfl | rfl | rfl <;> exact hl)
        (by intro h; cases h) hfr
      simpa using this
  · simp only [BodyOk, Mid, textto]
    refine ⟨trivial, trivial, ?_, ?_, hfr, by omega⟩
    · cases hr : s.oper.rtl <;> simp [forwardchars, hr, bump] at hle ⊢ <;> split at hle <;> omega
    · cases hr : s.oper.rtl <;> simp [forwardchars, hr, bump] at hle ⊢ <;> split at hle <;> omega

theorem len1 {d : List Int} (h : some 1 = some d.length) : ∃ a, d = [a] := by
  match d, h with
  | [a], _ => exact ⟨a, rfl⟩

theorem len2 {d : List Int} (h : some 2 = some d.length) : ∃ a b, d = [a, b] := by
  match d, h with
  | [a, b], _ => exact ⟨a, b, rfl⟩

theorem len3 {d : List Int} (h : some 3 = some d.length) : ∃ a b c, d = [a, b, c] := by
  match d, h with
  | [a, b, c], _ => exact ⟨a, b, c, rfl⟩

theorem len0 {d : List Int} (h : some 0 = some d.length) : d = [] := by
  match d, h with
  | [], _ => rfl

theorem caseLoopBack_ok (c : Ctx p bs env s w o) (hsz : o.size = 3)
    (ho : o = .oneloop ∨ o = .notoneloop ∨ o = .setloop) (d rest : List Int)
    (ht : s.track = d ++ rest) (hfd : frameData o false = some d.length)
    (hpos : posOk env.len o false s.oper.rtl d) (hrest : Frames p bs env.len rest) :
    BodyOk p bs env s o (caseLoopBack s) := by
  obtain ⟨pos, i, rfl⟩ : ∃ a b, d = [a, b] := by rcases ho with rfl | rfl | rfl <;> exact len2 hfd
  have hl : LoopPos env.len s.oper.rtl pos i := by rcases ho with rfl | rfl | rfl <;> exact hpos
  unfold caseLoopBack
  simp only [ht, List.cons_append, List.nil_append]
  unfold LoopPos at hl
  split
  · next hi =>
    simp only [BodyOk, Mid, push2, textto]
    refine ⟨trivial, trivial, hl.1, hl.2.1, ?_, by omega⟩
    have := frames_push c false [pos - bump s, i - 1] rest
        (by rcases ho with rfl | rfl | rfl <;> rfl)
        (by
          have hl' : LoopPos env.len w.rtl (pos - bump s) (i - 1) := by
            rw [← c.ortl]
            unfold LoopPos
            cases hr : s.oper.rtl <;> simp [hr, bump] at hl ⊢ <;> omega
          rcases ho with rfl | rfl | rfl <;> exact hl')
        (by intro h; cases h) hrest
    simpa using this
  · simp only [BodyOk, Mid, textto]
    exact ⟨trivial, trivial, hl.1, hl.2.1, hrest, by omega⟩

theorem caseLazy_ok (c : Ctx p bs env s w o) (hsz : o.size = 3)
    (ho : o = .onelazy ∨ o = .notonelazy ∨ o = .setlazy) (hfr : Frames p bs env.len s.track) :
    BodyOk p bs env s o (caseLazy p env s) := by
  unfold caseLazy
  obtain ⟨c0, hc0, _⟩ := operand_ok c.facts 1 (by omega)
  simp only [bind, Except.bind, hc0, pure, Except.pure]
  have h0 := c.tp0
  have hn := c.tpn
  generalize hcdef : (if c0 > forwardchars env s then forwardchars env s else c0) = cc
  have hcc : cc ≤ forwardchars env s := by rw [← hcdef]; split <;> omega
  split
  · next hpos =>
    simp only [BodyOk, Mid, push2]
    refine ⟨trivial, trivial, h0, hn, ?_, by omega⟩
    have := frames_push c false [s.textpos, cc - 1] s.track
        (by rcases ho with rfl | rfl | rfl <;> rfl)
        (by
          have hl' : LazyPos env.len w.rtl s.textpos (cc - 1) := by
            rw [← c.ortl]
            unfold LazyPos
            cases hr : s.oper.rtl <;> simp [hr, forwardchars] at hcc ⊢ <;> omega
          rcases ho with rfl | rfl | rfl <;> exact hl')
        (by intro h; cases h) hfr
    simpa using this
  · exact ⟨rfl, rfl, h0, hn, hfr, by omega⟩

theorem caseLazyBack_ok (c : Ctx p bs env s w o) (hsz : o.size = 3) (sel : Nat)
    (hset : 2 ≤ sel → SetOperand p s.codepos)
    (ho : o = .onelazy ∨ o = .notonelazy ∨ o = .setlazy) (d rest : List Int)
    (ht : s.track = d ++ rest) (hfd : frameData o false = some d.length)
    (hpos : posOk env.len o false s.oper.rtl d) (hrest : Frames p bs env.len rest) :
    BodyOk p bs env s o (caseLazyBack p env sel s) := by
  obtain ⟨pos, i, rfl⟩ : ∃ a b, d = [a, b] := by rcases ho with rfl | rfl | rfl <;> exact len2 hfd
  have hl : LazyPos env.len s.oper.rtl pos i := by rcases ho with rfl | rfl | rfl <;> exact hpos
  unfold caseLazyBack
  simp only [ht, List.cons_append, List.nil_append]
  obtain ⟨x, hx, hx'⟩ := operand_ok c.facts 0 (by omega)
  obtain ⟨pred, hpred⟩ := charPred_ok (p := p) (env := env) sel x (fun h => hset h x hx')
  unfold LazyPos at hl
  obtain ⟨ch, hch⟩ := forwardcharnext_ok (env := env) s.oper.rtl pos
    (by cases hr : s.oper.rtl <;> simp [hr] at hl <;> omega)
    (by cases hr : s.oper.rtl <;> simp [hr] at hl <;> omega)
    (by cases hr : s.oper.rtl <;> simp [hr] at hl ⊢ <;> omega)
  simp only [bind, Except.bind, hx, hpred, hch, pure, Except.pure]
  split
  · split
    · next hi =>
      simp only [BodyOk, Mid, push2, textto]
      refine ⟨trivial, trivial, ?_, ?_, ?_, by omega⟩
      · cases hr : s.oper.rtl <;> simp [hr] at hl ⊢ <;> omega
      · cases hr : s.oper.rtl <;> simp [hr] at hl ⊢ <;> omega
      · have := frames_push c false [pos + bump s, i - 1] rest
          (by rcases ho with rfl | rfl | rfl <;> rfl)
          (by
            have hl' : LazyPos env.len w.rtl (pos + bump s) (i - 1) := by
              rw [← c.ortl]
              unfold LazyPos
              cases hr : s.oper.rtl <;> simp [hr, bump] at hl ⊢ <;> omega
            rcases ho with rfl | rfl | rfl <;> exact hl')
          (by intro h; cases h) hrest
        simpa using this
    · simp only [BodyOk, Mid, textto]
      refine ⟨trivial, trivial, ?_, ?_, hrest, by omega⟩
      · cases hr : s.oper.rtl <;> simp [hr] at hl ⊢ <;> omega
      · cases hr : s.oper.rtl <;> simp [hr] at hl ⊢ <;> omega
  · simp only [BodyOk, Mid, textto]
    refine ⟨trivial, trivial, ?_, ?_, hrest⟩
    · cases hr : s.oper.rtl <;> simp [hr] at hl ⊢ <;> omega
    · cases hr : s.oper.rtl <;> simp [hr] at hl ⊢ <;> omega

/-- the comparison loop reads the text only inside `[b - k, b)`; its only possible faults are those of `get` -/
theorem cmpBack_ok (env : Env) (ci : Bool) (get : Int → M Nat) (E : Fault → Prop)
    (hget : ∀ i f, get i = .error f → E f) :
    ∀ (k : Nat) (a b : Int), 0 ≤ b - k → b ≤ env.len →
      match cmpBack env ci get k a b with
      | .error f => E f
      | .ok _ => True := by
  intro k
  induction k with
  | zero => intro a b _ _; simp [cmpBack]
  | succ k ih =>
    intro a b h0 hn
    unfold cmpBack
    obtain ⟨y, hy⟩ := charAt_ok env (b - 1) (by omega) (by omega)
    cases hg : get (a - 1) with
    | error f => simp only [hy]; exact hget _ _ hg
    | ok x =>
      simp only [hy]
      by_cases hx : x = (if ci then env.toLower y else y)
      · rw [if_pos hx]; exact ih (a - 1) (b - 1) (by omega) (by omega)
      · rw [if_neg hx]; trivial

theorem runematch_ok (c : Ctx p bs env s w o) (str : List Nat) :
    runematch env s str = .ok none ∨
      ∃ pos, runematch env s str = .ok (some pos) ∧ 0 ≤ pos ∧ pos ≤ env.len := by
  unfold runematch
  have h0 := c.tp0
  have hn := c.tpn
  simp only
  split
  · exact Or.inl rfl
  · next hfc =>
    have := cmpBack_ok env s.oper.ci (fun i => .ok (str.getD i.toNat 0)) (fun _ => False)
      (by intro i f h; cases h) str.length (str.length : Int)
      (if s.oper.rtl then s.textpos else s.textpos + str.length)
      (by cases hr : s.oper.rtl <;> simp [forwardchars, hr] at hfc ⊢ <;> omega)
      (by cases hr : s.oper.rtl <;> simp [forwardchars, hr] at hfc ⊢ <;> omega)
    split
    · next f hf => rw [hf] at this; exact this.elim
    · exact Or.inl rfl
    · refine Or.inr ⟨_, rfl, ?_, ?_⟩ <;>
        cases hr : s.oper.rtl <;> simp [forwardchars, hr] at hfc ⊢ <;> omega

theorem refmatch_ok (c : Ctx p bs env s w o) (index len : Int) :
    refmatch env s index len = .error .capRange ∨ refmatch env s index len = .ok none ∨
      ∃ pos, refmatch env s index len = .ok (some pos) ∧ 0 ≤ pos ∧ pos ≤ env.len := by
  unfold refmatch
  have h0 := c.tp0
  have hn := c.tpn
  by_cases hlen : len < 0
  · simp [hlen]
  · by_cases hfc : forwardchars env s < len
    · simp [hlen, hfc]
    · simp only [hlen, hfc, ite_false]
      have := cmpBack_ok env s.oper.ci
        (fun i => match charAt env i with
          | .ok x => .ok (if s.oper.ci then env.toLower x else x)
          | .error _ => .error .capRange) (fun f => f = .capRange)
        (by intro i f h; split at h <;> cases h; rfl) len.toNat (index + len)
        (if s.oper.rtl then s.textpos else s.textpos + len)
        (by cases hr : s.oper.rtl <;> simp [forwardchars, hr] at hfc ⊢ <;> omega)
        (by cases hr : s.oper.rtl <;> simp [forwardchars, hr] at hfc ⊢ <;> omega)
      cases hcmp : cmpBack env s.oper.ci
        (fun i => match charAt env i with
          | .ok x => .ok (if s.oper.ci then env.toLower x else x)
          | .error _ => .error .capRange) len.toNat (index + len)
        (if s.oper.rtl then s.textpos else s.textpos + len) with
      | error f => rw [hcmp] at this; simp only at this; subst this; exact Or.inl rfl
      | ok b =>
        cases b
        · exact Or.inr (Or.inl rfl)
        · refine Or.inr (Or.inr ⟨_, rfl, ?_, ?_⟩) <;>
            cases hr : s.oper.rtl <;> simp [forwardchars, hr] at hfc ⊢ <;> omega

theorem caseMulti_ok (c : Ctx p bs env s w o) (ho : o = .multi) (hfr : Frames p bs env.len s.track) :
    BodyOk p bs env s o (caseMulti p env s) := by
  subst ho
  unfold caseMulti
  obtain ⟨i, hi, hi'⟩ := operand_ok c.facts 0 (by decide)
  have hops := c.facts.operands
  simp only [operandsOk, hi', Option.getD_some, Bool.and_eq_true, decide_eq_true_eq] at hops
  have hlt : i.toNat < p.strings.size := hops.2
  simp only [bind, Except.bind, hi, hops.1, ite_true, pure, Except.pure]
  have hsome : p.strings[i.toNat]? = some p.strings[i.toNat] := by simp [hlt]
  rw [hsome]
  simp only
  rcases runematch_ok c p.strings[i.toNat] with h | ⟨pos, h, h1, h2⟩
  · rw [h]; exact ⟨rfl, rfl, c.tp0, c.tpn, hfr⟩
  · rw [h]; exact ⟨rfl, rfl, h1, h2, hfr, rfl⟩

theorem slotOperand_of (c : Ctx p bs env s w o) (ho : o = .ref ∨ o = .testref) :
    ∀ a, p.codes[s.codepos + 1]? = some a → 0 ≤ a ∧ a.toNat < p.capsize := by
  intro a ha
  have h := c.facts.operands
  unfold operandsOk at h
  rcases ho with rfl | rfl <;> simpa [ha] using h

theorem isMatched_ok (s : VMState) (a : Int) (h : 0 ≤ a) :
    isMatched s a = .ok (MatchBuilder.isMatched s.cap.m a.toNat) := by
  unfold isMatched
  have : ¬ a < 0 := by omega
  simp [this]

theorem caseRef_ok (c : Ctx p bs env s w o) (ho : o = .ref) (hfr : Frames p bs env.len s.track) :
    BodyOk p bs env s o (caseRef p env s) := by
  unfold caseRef
  obtain ⟨a, ha, ha'⟩ := operand_ok c.facts 0 (by subst ho; decide)
  have hslot := slotOperand_of c (Or.inl ho) a ha'
  simp only [bind, Except.bind, ha, isMatched_ok s a hslot.1, pure, Except.pure]
  split
  · rcases refmatch_ok c (MatchBuilder.matchIndex s.cap.m a.toNat) (MatchBuilder.matchLength s.cap.m a.toNat)
      with h | h | ⟨pos, h, h1, h2⟩
    · rw [h]; rfl
    · rw [h]; exact ⟨rfl, rfl, c.tp0, c.tpn, hfr⟩
    · rw [h]; exact ⟨rfl, rfl, h1, h2, hfr, by subst ho; rfl⟩
  · split
    · exact ⟨rfl, rfl, c.tp0, c.tpn, hfr, by subst ho; rfl⟩
    · exact ⟨rfl, rfl, c.tp0, c.tpn, hfr⟩

theorem caseTestref_ok (c : Ctx p bs env s w o) (ho : o = .testref) (hfr : Frames p bs env.len s.track) :
    BodyOk p bs env s o (caseTestref p s) := by
  unfold caseTestref
  obtain ⟨a, ha, ha'⟩ := operand_ok c.facts 0 (by subst ho; decide)
  have hslot := slotOperand_of c (Or.inr ho) a ha'
  simp only [bind, Except.bind, ha, isMatched_ok s a hslot.1, pure, Except.pure]
  split
  · exact ⟨rfl, rfl, c.tp0, c.tpn, hfr, by subst ho; rfl⟩
  · exact ⟨rfl, rfl, c.tp0, c.tpn, hfr⟩

theorem assertion_ok (c : Ctx p bs env s w o) (hsz : o.size = 1) (hfr : Frames p bs env.len s.track) (b : Bool) :
    BodyOk p bs env s o (.ok (assertion s b)) := by
  unfold assertion
  cases b
  · exact ⟨rfl, rfl, c.tp0, c.tpn, hfr⟩
  · exact ⟨rfl, rfl, c.tp0, c.tpn, hfr, by simp [hsz]⟩

theorem caseBol_ok (c : Ctx p bs env s w o) (hsz : o.size = 1) (hfr : Frames p bs env.len s.track) :
    BodyOk p bs env s o (caseBol env s) := by
  unfold caseBol
  have h0 := c.tp0
  have hn := c.tpn
  split
  · obtain ⟨ch, hch⟩ := charAt_ok env (s.textpos - 1) (by omega) (by omega)
    rw [hch]; exact assertion_ok c hsz hfr _
  · exact ⟨rfl, rfl, c.tp0, c.tpn, hfr, by simp [hsz]⟩

theorem caseEol_ok (c : Ctx p bs env s w o) (hsz : o.size = 1) (hfr : Frames p bs env.len s.track) :
    BodyOk p bs env s o (caseEol env s) := by
  unfold caseEol
  have h0 := c.tp0
  have hn := c.tpn
  split
  · obtain ⟨ch, hch⟩ := charAt_ok env s.textpos (by omega) (by omega)
    rw [hch]; exact assertion_ok c hsz hfr _
  · exact ⟨rfl, rfl, c.tp0, c.tpn, hfr, by simp [hsz]⟩

theorem caseBoundary_ok (c : Ctx p bs env s w o) (hsz : o.size = 1) (hfr : Frames p bs env.len s.track)
    (wd : Nat → Bool) (want : Bool) : BodyOk p bs env s o (caseBoundary env wd want s) := by
  unfold caseBoundary isBoundary
  have h0 := c.tp0
  have hn := c.tpn
  have h1 : ∃ a, (if s.textpos > 0 then (charAt env (s.textpos - 1)).map wd else .ok false) = .ok a := by
    split
    · obtain ⟨ch, hch⟩ := charAt_ok env (s.textpos - 1) (by omega) (by omega)
      exact ⟨_, by rw [hch]; rfl⟩
    · exact ⟨_, rfl⟩
  have h2 : ∃ a, (if s.textpos < env.len then (charAt env s.textpos).map wd else .ok false) = .ok a := by
    split
    · obtain ⟨ch, hch⟩ := charAt_ok env s.textpos (by omega) (by omega)
      exact ⟨_, by rw [hch]; rfl⟩
    · exact ⟨_, rfl⟩
  obtain ⟨a, ha⟩ := h1
  obtain ⟨b, hb⟩ := h2
  rw [ha, hb]
  exact assertion_ok c hsz hfr _

theorem caseEndZ_ok (c : Ctx p bs env s w o) (hsz : o.size = 1) (hfr : Frames p bs env.len s.track) :
    BodyOk p bs env s o (caseEndZ env s) := by
  unfold caseEndZ
  have h0 := c.tp0
  have hn := c.tpn
  simp only
  split
  · exact ⟨rfl, rfl, c.tp0, c.tpn, hfr⟩
  · split
    · exact assertion_ok c hsz hfr _
    · split
      · obtain ⟨ch, hch⟩ := charAt_ok env s.textpos (by omega) (by omega)
        rw [hch]; exact assertion_ok c hsz hfr _
      · exact ⟨rfl, rfl, c.tp0, c.tpn, hfr, by simp [hsz]⟩

theorem jumpOperand_of (c : Ctx p bs env s w o)
    (ho : o = .lazybranch ∨ o = .branchmark ∨ o = .lazybranchmark ∨ o = .goto ∨ o = .branchcount ∨
      o = .lazybranchcount) :
    ∀ a, p.codes[s.codepos + 1]? = some a → isBoundaryPos bs a = true := by
  intro a ha
  have h := c.facts.operands
  unfold operandsOk at h
  rcases ho with rfl | rfl | rfl | rfl | rfl | rfl <;> simpa [ha] using h

/-- the only possible fault is `E`; on success `P` holds -/
def OnlyFault (E : Fault) (P : VMState → Prop) : M VMState → Prop
  | .error f => f = E
  | .ok s' => P s'

/-- `s'` differs from `s` at most in the capture arrays -/
def SameButCap (s s' : VMState) : Prop :=
  s'.track = s.track ∧ s'.textpos = s.textpos ∧ s'.codepos = s.codepos ∧ s'.oper = s.oper ∧ s'.stack = s.stack

theorem uncapture_ok (s : VMState) : OnlyFault .crawlUnderflow (SameButCap s) (uncapture s) := by
  unfold uncapture
  split
  · exact rfl
  · exact ⟨rfl, rfl, rfl, rfl, rfl⟩

theorem uncaptureTo_ok (target : Int) : ∀ (fuel : Nat) (s : VMState),
    OnlyFault .crawlUnderflow (SameButCap s) (uncaptureTo target fuel s) := by
  intro fuel
  induction fuel with
  | zero =>
    intro s
    unfold uncaptureTo
    split
    · exact ⟨rfl, rfl, rfl, rfl, rfl⟩
    · exact rfl
  | succ fuel ih =>
    intro s
    unfold uncaptureTo
    split
    · exact ⟨rfl, rfl, rfl, rfl, rfl⟩
    · have h1 := uncapture_ok s
      cases hu : uncapture s with
      | error f => rw [hu] at h1; exact h1
      | ok s' =>
        rw [hu] at h1
        have h2 := ih s'
        simp only
        cases hu2 : uncaptureTo target fuel s' with
        | error f => rw [hu2] at h2; exact h2
        | ok s'' =>
          rw [hu2] at h2
          obtain ⟨a1, a2, a3, a4, a5⟩ : SameButCap s s' := h1
          obtain ⟨b1, b2, b3, b4, b5⟩ : SameButCap s' s'' := h2
          exact ⟨b1.trans a1, b2.trans a2, b3.trans a3, b4.trans a4, b5.trans a5⟩

theorem frameSize_cons {c : Int} {w : Word} {o : Op} {d : List Int}
    (hf : fetch p (savedPos c).1 = .ok w) (ho : Op.ofNat? w.op = some o)
    (hd : frameData o (savedPos c).2 = some d.length) : frameSize p c = some (d.length + 1) := by
  unfold frameSize
  simp [hf, ho, hd]

theorem frameSize_root (hwf : WF p bs) : frameSize p 0 = some 2 := by
  obtain ⟨w0, hw0, ho0⟩ := hwf.root
  unfold frameSize
  have : savedPos 0 = (0, false) := by decide
  simp [this, hw0, ho0, frameData]

/-- cutting whole frames off a stack of frames leaves a stack of frames (or nothing) -/
theorem cutFrames_frames (hwf : WF p bs) (n : Int) : ∀ (fuel k : Nat) (t t' : List Int),
    Frames p bs n t → cutFrames p fuel k t = some t' → t' = [] ∨ Frames p bs n t' := by
  intro fuel
  induction fuel with
  | zero =>
    intro k t t' hfr h
    cases k with
    | zero => simp [cutFrames] at h; subst h; exact Or.inr hfr
    | succ k => simp [cutFrames] at h
  | succ fuel ih =>
    intro k t t' hfr h
    cases k with
    | zero => simp [cutFrames] at h; subst h; exact Or.inr hfr
    | succ k =>
      cases hfr with
      | root tp h0 hn =>
        simp only [cutFrames, frameSize_root hwf] at h
        split at h
        · simp only [List.length_cons, List.length_nil, List.drop_succ_cons, List.drop_zero] at h
          have : ([] : List Int) = [] := rfl
          cases hk : k + 1 - 2 with
          | zero => rw [hk] at h; simp [cutFrames] at h; exact Or.inl h
          | succ j =>
            rw [hk] at h
            cases fuel <;> simp [cutFrames] at h
        · cases h
      | cons c w o d rest hin hf ho hd hp hr =>
        simp only [cutFrames, frameSize_cons hf ho hd] at h
        split at h
        · have hdrop : (c :: (d ++ rest)).drop (d.length + 1) = rest := by simp
          rw [hdrop] at h
          exact ih _ _ _ hr h
        · cases h

theorem trackto_ok (hwf : WF p bs) (s : VMState) (newpos : Int) (hfr : Frames p bs env.len s.track) :
    OnlyFault .tracktoRange (fun s' => Frames p bs env.len s'.track ∧ s'.textpos = s.textpos ∧
        s'.codepos = s.codepos ∧ s'.oper = s.oper ∧ s'.stack = s.stack ∧ s'.cap = s.cap)
      (trackto p s newpos) := by
  unfold trackto
  split
  · cases hcut : cutFrames p s.track.length (s.track.length - newpos.toNat) s.track with
    | none => exact rfl
    | some t =>
      cases t with
      | nil => exact rfl
      | cons c t =>
        rcases cutFrames_frames hwf env.len _ _ _ _ hfr hcut with h | h
        · cases h
        · exact ⟨h, rfl, rfl, rfl, rfl, rfl⟩
  · exact rfl

theorem frames_ne_nil {n : Int} {t : List Int} (h : Frames p bs n t) : t ≠ [] := by
  cases h <;> simp

/-- raising the bottom slot (the text position saved by the `Lazybranch` at 0) keeps the frames -/
theorem frames_setLast {n : Int} (tp : Int) (h0 : 0 ≤ tp) (hn : tp ≤ n) : ∀ {t : List Int},
    Frames p bs n t → Frames p bs n (t.dropLast ++ [tp]) := by
  intro t h
  induction h with
  | root v _ _ => exact Frames.root tp h0 hn
  | cons c w o d rest hin hf ho hd hp hr ih =>
    have hne := frames_ne_nil hr
    have : (c :: (d ++ rest)).dropLast ++ [tp] = c :: (d ++ (rest.dropLast ++ [tp])) := by
      rw [List.dropLast_cons_of_ne_nil (by simp [hne]), List.dropLast_append_of_ne_nil hne]
      simp
    rw [this]
    exact Frames.cons c w o d _ hin hf ho hd hp ih

theorem caseGoto_ok (c : Ctx p bs env s w o) (ho : o = .goto) (hfr : Frames p bs env.len s.track) :
    BodyOk p bs env s o (caseGoto p s) := by
  unfold caseGoto
  obtain ⟨t, ht, ht'⟩ := operand_ok c.facts 0 (by subst ho; decide)
  rw [ht]
  exact ⟨rfl, rfl, c.tp0, c.tpn, jumpOperand_of c (by simp [ho]) t ht', Or.inl hfr⟩

theorem caseLazybranchBack_ok (c : Ctx p bs env s w o) (ho : o = .lazybranch) (d rest : List Int)
    (ht : s.track = d ++ rest) (hfd : frameData o false = some d.length)
    (hpos : posOk env.len o false s.oper.rtl d)
    (hrest : Frames p bs env.len rest ∨ (rest = [] ∧ s.codepos = 0)) :
    BodyOk p bs env s o (caseLazybranchBack p s) := by
  subst ho
  obtain ⟨tp, rfl⟩ := len1 hfd
  have htp : 0 ≤ tp ∧ tp ≤ env.len := hpos
  unfold caseLazybranchBack
  simp only [ht, List.cons_append, List.nil_append]
  obtain ⟨t, ht1, ht'⟩ := operand_ok c.facts 0 (by decide)
  rw [ht1]
  refine ⟨rfl, rfl, htp.1, htp.2, jumpOperand_of c (by simp) t ht', ?_⟩
  rcases hrest with h | ⟨h1, h2⟩
  · exact Or.inl h
  · refine Or.inr ⟨h1, ?_⟩
    obtain ⟨t0, wt, hc1, _, hf, hs⟩ := c.wf.rootTarget
    rw [h2] at ht'
    simp only [Nat.zero_add] at ht'
    rw [hc1] at ht'
    cases ht'
    exact ⟨wt, hf, hs⟩

theorem casePop1Back_ok (c : Ctx p bs env s w o) (hfr : Frames p bs env.len s.track) :
    BodyOk p bs env s o (casePop1Back s) := by
  unfold casePop1Back
  split
  · exact ⟨rfl, rfl, c.tp0, c.tpn, hfr⟩
  · exact rfl

theorem casePop2Back_ok (c : Ctx p bs env s w o) (hfr : Frames p bs env.len s.track) :
    BodyOk p bs env s o (casePop2Back s) := by
  unfold casePop2Back
  split
  · exact ⟨rfl, rfl, c.tp0, c.tpn, hfr⟩
  · exact rfl

theorem caseGetmark_ok (c : Ctx p bs env s w o) (ho : o = .getmark) (hfr : Frames p bs env.len s.track) :
    BodyOk p bs env s o (caseGetmark env s) := by
  subst ho
  unfold caseGetmark
  split
  · next v rest hs =>
    unfold texttoStack
    split
    · next hv =>
      simp only [Except.map, BodyOk, Mid, textto, push1]
      refine ⟨trivial, trivial, hv.1, hv.2, ?_, rfl⟩
      simpa using frames_push c false [v] s.track rfl trivial (by intro h; cases h) hfr
    · exact rfl
  · exact rfl

theorem caseRestoreBack_ok (c : Ctx p bs env s w o) (d rest : List Int)
    (ht : s.track = d ++ rest) (hfd : some 1 = some d.length) (hrest : Frames p bs env.len rest) :
    BodyOk p bs env s o (caseRestoreBack s) := by
  obtain ⟨v, rfl⟩ := len1 hfd
  unfold caseRestoreBack restoreMark
  simp only [ht, List.cons_append, List.nil_append, Except.map]
  exact ⟨rfl, rfl, c.tp0, c.tpn, hrest⟩

theorem capOperands_of (c : Ctx p bs env s w o) (ho : o = .capturemark) :
    ∀ a b, p.codes[s.codepos + 1]? = some a → p.codes[s.codepos + 2]? = some b →
      ((0 ≤ a ∧ a.toNat < p.capsize) ∨ a = -1) ∧ ((0 ≤ b ∧ b.toNat < p.capsize) ∨ b = -1) ∧
        ¬ (a = -1 ∧ b = -1) := by
  intro a b ha hb
  have h := c.facts.operands
  subst ho
  simp only [operandsOk, ha, hb, Option.getD_some, Bool.and_eq_true, Bool.or_eq_true, decide_eq_true_eq,
    beq_iff_eq, Bool.not_eq_true', Bool.and_eq_false_imp] at h
  refine ⟨h.1.1, h.1.2, ?_⟩
  intro ⟨h1, h2⟩
  have := h.2 h1
  simp [h2] at this

theorem caseCapturemark_ok (c : Ctx p bs env s w o) (ho : o = .capturemark)
    (hfr : Frames p bs env.len s.track) : BodyOk p bs env s o (caseCapturemark p s) := by
  unfold caseCapturemark
  obtain ⟨c0, h0, h0'⟩ := operand_ok c.facts 0 (by subst ho; decide)
  obtain ⟨c1, h1, h1'⟩ := operand_ok c.facts 1 (by subst ho; decide)
  have hops := capOperands_of c ho c0 c1 h0' h1'
  simp only [bind, Except.bind, h0, h1, pure, Except.pure]
  by_cases hc1 : c1 = -1
  · subst hc1
    have hc0 : 0 ≤ c0 ∧ c0.toNat < p.capsize := by
      rcases hops.1 with h | h
      · exact h
      · exact absurd ⟨h, rfl⟩ hops.2.2
    simp only [bne_self_eq_false, Bool.false_eq_true, ite_false, capOk, hc0, decide_true, Bool.and_self,
      ite_true]
    split
    · next v rest hs =>
      simp only [BodyOk, Mid, push1]
      refine ⟨trivial, trivial, c.tp0, c.tpn, ?_, by subst ho; rfl⟩
      subst ho
      simpa using frames_push c false [v] s.track rfl trivial (by intro h; cases h) hfr
    · exact rfl
  · have hc1' : 0 ≤ c1 ∧ c1.toNat < p.capsize := by
      rcases hops.2.1 with h | h
      · exact h
      · exact absurd h hc1
    have hne : (c1 != -1) = true := by simp [hc1]
    simp only [hne, ite_true, isMatched_ok s c1 hc1'.1, Except.map]
    split
    · exact ⟨rfl, rfl, c.tp0, c.tpn, hfr⟩
    · split
      · next v rest hs =>
        have hcond : c0 = -1 ∨ capOk p c0 = true := by
          rcases hops.1 with h | h
          · exact Or.inr (by simp [capOk, h])
          · exact Or.inl h
        simp only [hcond, ite_true]
        simp only [BodyOk, Mid, push1]
        refine ⟨trivial, trivial, c.tp0, c.tpn, ?_, by subst ho; rfl⟩
        subst ho
        simpa using frames_push c false [v] s.track rfl trivial (by intro h; cases h) hfr
      · exact rfl

theorem caseCapturemarkBack_ok (c : Ctx p bs env s w o) (ho : o = .capturemark) (d rest : List Int)
    (ht : s.track = d ++ rest) (hfd : some 1 = some d.length) (hrest : Frames p bs env.len rest) :
    BodyOk p bs env s o (caseCapturemarkBack p s) := by
  obtain ⟨v, rfl⟩ := len1 hfd
  unfold caseCapturemarkBack restoreMark
  obtain ⟨c0, h0, _⟩ := operand_ok c.facts 0 (by subst ho; decide)
  obtain ⟨c1, h1, _⟩ := operand_ok c.facts 1 (by subst ho; decide)
  simp only [bind, Except.bind, h0, h1, pure, Except.pure, ht, List.cons_append, List.nil_append]
  have hu := uncapture_ok (spush { s with track := rest } v)
  cases hu1 : uncapture (spush { s with track := rest } v) with
  | error f => rw [hu1] at hu; have : f = .crawlUnderflow := hu; subst this; exact rfl
  | ok s2 =>
    rw [hu1] at hu
    obtain ⟨a1, a2, a3, a4, a5⟩ : SameButCap _ s2 := hu
    simp only [spush] at a1 a2 a3 a4
    simp only
    split
    · have hu' := uncapture_ok s2
      cases hu2 : uncapture s2 with
      | error f => rw [hu2] at hu'; have : f = .crawlUnderflow := hu'; subst this; exact rfl
      | ok s3 =>
        rw [hu2] at hu'
        obtain ⟨b1, b2, b3, b4, b5⟩ : SameButCap _ s3 := hu'
        refine ⟨b3.trans a3, b4.trans a4, ?_, ?_, ?_⟩
        · rw [b2, a2]; exact c.tp0
        · rw [b2, a2]; exact c.tpn
        · show Frames p bs env.len s3.track
          rw [b1, a1]; exact hrest
    · refine ⟨a3, a4, ?_, ?_, ?_⟩
      · rw [a2]; exact c.tp0
      · rw [a2]; exact c.tpn
      · show Frames p bs env.len s2.track
        rw [a1]; exact hrest

theorem caseBranchmark_ok (c : Ctx p bs env s w o) (ho : o = .branchmark)
    (hfr : Frames p bs env.len s.track) : BodyOk p bs env s o (caseBranchmark p s) := by
  subst ho
  unfold caseBranchmark
  split
  · next mark rest hs =>
    simp only
    split
    · obtain ⟨t, ht, ht'⟩ := operand_ok c.facts 0 (by decide)
      rw [ht]
      simp only [Except.map, BodyOk, Mid, spush, push2]
      refine ⟨trivial, trivial, c.tp0, c.tpn, jumpOperand_of c (by simp) t ht', Or.inl ?_⟩
      simpa using frames_push c false [s.textpos, mark] s.track rfl ⟨c.tp0, c.tpn⟩ (by intro h; cases h) hfr
    · simp only [BodyOk, Mid, pushNeg1]
      refine ⟨trivial, trivial, c.tp0, c.tpn, ?_, rfl⟩
      simpa using frames_push c true [mark] s.track rfl trivial (by intro _ h; cases h) hfr
  · exact rfl

theorem caseBranchmarkBack_ok (c : Ctx p bs env s w o) (ho : o = .branchmark) (d rest : List Int)
    (ht : s.track = d ++ rest) (hfd : frameData o false = some d.length)
    (hpos : posOk env.len o false s.oper.rtl d) (hrest : Frames p bs env.len rest) :
    BodyOk p bs env s o (caseBranchmarkBack s) := by
  subst ho
  obtain ⟨tp, mark, rfl⟩ := len2 hfd
  have htp : 0 ≤ tp ∧ tp ≤ env.len := hpos
  unfold caseBranchmarkBack
  simp only [ht, List.cons_append, List.nil_append]
  split
  · next h1 h2 =>
    cases h1
    simp only [BodyOk, Mid, pushNeg1, textto]
    refine ⟨trivial, trivial, htp.1, htp.2, ?_, rfl⟩
    simpa using frames_push c true [mark] rest rfl trivial (by intro _ h; cases h) hrest
  · exact rfl
  · next h h' =>
    cases hs : s.stack with
    | nil => exact (h' _ _ _ rfl hs).elim
    | cons a b => exact (h _ _ _ _ _ rfl hs).elim

theorem caseLazybranchmark_ok (c : Ctx p bs env s w o) (ho : o = .lazybranchmark)
    (hfr : Frames p bs env.len s.track) : BodyOk p bs env s o (caseLazybranchmark s) := by
  subst ho
  unfold caseLazybranchmark
  split
  · next old rest hs =>
    simp only
    split
    · split
      · simp only [BodyOk, Mid, push2]
        refine ⟨trivial, trivial, c.tp0, c.tpn, ?_, rfl⟩
        simpa using frames_push c false [s.textpos, old] s.track rfl ⟨c.tp0, c.tpn⟩ (by intro h; cases h) hfr
      · simp only [BodyOk, Mid, push2]
        refine ⟨trivial, trivial, c.tp0, c.tpn, ?_, rfl⟩
        simpa using frames_push c false [s.textpos, s.textpos] s.track rfl ⟨c.tp0, c.tpn⟩
          (by intro h; cases h) hfr
    · simp only [BodyOk, Mid, pushNeg2]
      refine ⟨trivial, trivial, c.tp0, c.tpn, ?_, rfl⟩
      simpa using frames_push c true [0, old] s.track rfl trivial (by intro _ h; cases h) hfr
  · exact rfl

theorem caseLazybranchmarkBack_ok (c : Ctx p bs env s w o) (ho : o = .lazybranchmark) (d rest : List Int)
    (ht : s.track = d ++ rest) (hfd : frameData o false = some d.length)
    (hpos : posOk env.len o false s.oper.rtl d) (hrest : Frames p bs env.len rest) :
    BodyOk p bs env s o (caseLazybranchmarkBack p s) := by
  subst ho
  obtain ⟨pos, old, rfl⟩ := len2 hfd
  have htp : 0 ≤ pos ∧ pos ≤ env.len := hpos
  unfold caseLazybranchmarkBack
  simp only [ht, List.cons_append, List.nil_append]
  obtain ⟨t, ht1, ht'⟩ := operand_ok c.facts 0 (by decide)
  rw [ht1]
  simp only [Except.map, BodyOk, Mid, textto, spush, pushNeg2]
  refine ⟨trivial, trivial, htp.1, htp.2, jumpOperand_of c (by simp) t ht', Or.inl ?_⟩
  simpa using frames_push c true [1, old] rest rfl trivial (by intro _ h; cases h) hrest

theorem caseLazybranchmarkBack2_ok (c : Ctx p bs env s w o) (d rest : List Int)
    (ht : s.track = d ++ rest) (hfd : some 2 = some d.length) (hrest : Frames p bs env.len rest) :
    BodyOk p bs env s o (caseLazybranchmarkBack2 s) := by
  obtain ⟨np, old, rfl⟩ := len2 hfd
  unfold caseLazybranchmarkBack2
  simp only [ht, List.cons_append, List.nil_append]
  split
  · split
    · exact ⟨rfl, rfl, c.tp0, c.tpn, hrest⟩
    · exact rfl
  · exact ⟨rfl, rfl, c.tp0, c.tpn, hrest⟩

theorem caseSetcount_ok (c : Ctx p bs env s w o) (ho : o = .setcount ∨ o = .nullcount) (mark : Int)
    (hfr : Frames p bs env.len s.track) : BodyOk p bs env s o (caseSetcount p mark s) := by
  unfold caseSetcount
  obtain ⟨v, hv, _⟩ := operand_ok c.facts 0 (by rcases ho with rfl | rfl <;> decide)
  rw [hv]
  simp only [Except.map, BodyOk, Mid, push0, spush2]
  refine ⟨trivial, trivial, c.tp0, c.tpn, ?_, by rcases ho with rfl | rfl <;> rfl⟩
  simpa using frames_push c false [] s.track (by rcases ho with rfl | rfl <;> rfl)
    (by rcases ho with rfl | rfl <;> trivial) (by intro h; cases h) hfr

theorem caseBranchcount_ok (c : Ctx p bs env s w o) (ho : o = .branchcount)
    (hfr : Frames p bs env.len s.track) : BodyOk p bs env s o (caseBranchcount p s) := by
  subst ho
  unfold caseBranchcount
  split
  · next count mark rest hs =>
    obtain ⟨lim, hl, _⟩ := operand_ok c.facts 1 (by decide)
    obtain ⟨t, ht, ht'⟩ := operand_ok c.facts 0 (by decide)
    simp only [bind, Except.bind, hl, ht, pure, Except.pure]
    split
    · simp only [BodyOk, Mid, pushNeg2]
      refine ⟨trivial, trivial, c.tp0, c.tpn, ?_, rfl⟩
      simpa using frames_push c true [count, mark] s.track rfl trivial (by intro _ h; cases h) hfr
    · simp only [BodyOk, Mid, spush2, push1]
      refine ⟨trivial, trivial, c.tp0, c.tpn, jumpOperand_of c (by simp) t ht', Or.inl ?_⟩
      simpa using frames_push c false [mark] s.track rfl trivial (by intro h; cases h) hfr
  · exact rfl

theorem caseBranchcountBack_ok (c : Ctx p bs env s w o) (ho : o = .branchcount) (d rest : List Int)
    (ht : s.track = d ++ rest) (hfd : some 1 = some d.length) (hrest : Frames p bs env.len rest) :
    BodyOk p bs env s o (caseBranchcountBack env s) := by
  subst ho
  obtain ⟨pmark, rfl⟩ := len1 hfd
  unfold caseBranchcountBack
  simp only [ht, List.cons_append, List.nil_append]
  split
  · next h1 h2 =>
    cases h1
    split
    · unfold texttoStack
      split
      · next hv =>
        simp only [Except.map, BodyOk, Mid, pushNeg2, textto]
        refine ⟨trivial, trivial, hv.1, hv.2, ?_, rfl⟩
        simpa using frames_push c true [_, pmark] rest rfl trivial (by intro _ h; cases h) hrest
      · exact rfl
    · exact ⟨rfl, rfl, c.tp0, c.tpn, hrest⟩
  · exact rfl
  · next h h' => exact (h _ _ rfl).elim

theorem caseBranchcountBack2_ok (c : Ctx p bs env s w o) (d rest : List Int)
    (ht : s.track = d ++ rest) (hfd : some 2 = some d.length) (hrest : Frames p bs env.len rest) :
    BodyOk p bs env s o (caseBranchcountBack2 s) := by
  obtain ⟨count, mark, rfl⟩ := len2 hfd
  unfold caseBranchcountBack2
  simp only [ht, List.cons_append, List.nil_append]
  exact ⟨rfl, rfl, c.tp0, c.tpn, hrest⟩

theorem caseLazybranchcount_ok (c : Ctx p bs env s w o) (ho : o = .lazybranchcount)
    (hfr : Frames p bs env.len s.track) : BodyOk p bs env s o (caseLazybranchcount p s) := by
  subst ho
  unfold caseLazybranchcount
  split
  · next count mark rest hs =>
    simp only
    split
    · obtain ⟨t, ht, ht'⟩ := operand_ok c.facts 0 (by decide)
      rw [ht]
      simp only [Except.map, BodyOk, Mid, spush2, pushNeg1]
      refine ⟨trivial, trivial, c.tp0, c.tpn, jumpOperand_of c (by simp) t ht', Or.inl ?_⟩
      simpa using frames_push c true [mark] s.track rfl trivial (by intro _ h; cases h) hfr
    · simp only [BodyOk, Mid, push3]
      refine ⟨trivial, trivial, c.tp0, c.tpn, ?_, rfl⟩
      simpa using frames_push c false [s.textpos, count, mark] s.track rfl ⟨c.tp0, c.tpn⟩
        (by intro h; cases h) hfr
  · exact rfl

theorem caseLazybranchcountBack_ok (c : Ctx p bs env s w o) (ho : o = .lazybranchcount) (d rest : List Int)
    (ht : s.track = d ++ rest) (hfd : frameData o false = some d.length)
    (hpos : posOk env.len o false s.oper.rtl d) (hrest : Frames p bs env.len rest) :
    BodyOk p bs env s o (caseLazybranchcountBack p s) := by
  subst ho
  obtain ⟨tp, count, mark, rfl⟩ := len3 hfd
  have htp : 0 ≤ tp ∧ tp ≤ env.len := hpos
  unfold caseLazybranchcountBack
  simp only [ht, List.cons_append, List.nil_append]
  obtain ⟨lim, hl, _⟩ := operand_ok c.facts 1 (by decide)
  obtain ⟨t, ht1, ht'⟩ := operand_ok c.facts 0 (by decide)
  simp only [bind, Except.bind, hl, ht1, pure, Except.pure]
  split
  · simp only [BodyOk, Mid, pushNeg1, spush2, textto]
    refine ⟨trivial, trivial, htp.1, htp.2, jumpOperand_of c (by simp) t ht', Or.inl ?_⟩
    simpa using frames_push c true [mark] rest rfl trivial (by intro _ h; cases h) hrest
  · exact ⟨rfl, rfl, c.tp0, c.tpn, hrest⟩

theorem caseLazybranchcountBack2_ok (c : Ctx p bs env s w o) (d rest : List Int)
    (ht : s.track = d ++ rest) (hfd : some 1 = some d.length) (hrest : Frames p bs env.len rest) :
    BodyOk p bs env s o (caseLazybranchcountBack2 s) := by
  obtain ⟨pmark, rfl⟩ := len1 hfd
  unfold caseLazybranchcountBack2
  simp only [ht, List.cons_append, List.nil_append]
  split
  · next h1 h2 => cases h1; exact ⟨rfl, rfl, c.tp0, c.tpn, hrest⟩
  · exact rfl
  · next h h' => exact (h _ _ rfl).elim

theorem caseSetjump_ok (c : Ctx p bs env s w o) (ho : o = .setjump) (hfr : Frames p bs env.len s.track) :
    BodyOk p bs env s o (caseSetjump s) := by
  subst ho
  unfold caseSetjump
  simp only [BodyOk, Mid, push0, spush2]
  refine ⟨trivial, trivial, c.tp0, c.tpn, ?_, rfl⟩
  simpa using frames_push c false [] s.track rfl trivial (by intro h; cases h) hfr

theorem caseBackjump_ok (c : Ctx p bs env s w o) (hfr : Frames p bs env.len s.track) :
    BodyOk p bs env s o (caseBackjump p s) := by
  unfold caseBackjump
  split
  · next cp tp rest hs =>
    have h1 := trackto_ok (env := env) c.wf { s with stack := rest } tp hfr
    cases ht : trackto p { s with stack := rest } tp with
    | error f => rw [ht] at h1; have : f = .tracktoRange := h1; subst this; exact rfl
    | ok s1 =>
      rw [ht] at h1
      obtain ⟨a1, a2, a3, a4, _, _⟩ := h1
      simp only [bind, Except.bind, pure, Except.pure]
      have h2 := uncaptureTo_ok cp s1.cap.crawl.length s1
      cases hu : uncaptureTo cp s1.cap.crawl.length s1 with
      | error f => rw [hu] at h2; have : f = .crawlUnderflow := h2; subst this; exact rfl
      | ok s2 =>
        rw [hu] at h2
        obtain ⟨b1, b2, b3, b4, _⟩ : SameButCap s1 s2 := h2
        refine ⟨b3.trans a3, b4.trans a4, ?_, ?_, ?_⟩
        · rw [b2, a2]; exact c.tp0
        · rw [b2, a2]; exact c.tpn
        · show Frames p bs env.len s2.track
          rw [b1]; exact a1
  · exact rfl

theorem caseForejump_ok (c : Ctx p bs env s w o) (ho : o = .forejump) (hfr : Frames p bs env.len s.track) :
    BodyOk p bs env s o (caseForejump p s) := by
  subst ho
  unfold caseForejump
  split
  · next cp tp rest hs =>
    have h1 := trackto_ok (env := env) c.wf { s with stack := rest } tp hfr
    cases ht : trackto p { s with stack := rest } tp with
    | error f => rw [ht] at h1; have : f = .tracktoRange := h1; subst this; exact rfl
    | ok s1 =>
      rw [ht] at h1
      obtain ⟨a1, a2, a3, a4, _, _⟩ := h1
      simp only [Except.map, BodyOk, Mid, push1]
      refine ⟨a3, a4, ?_, ?_, ?_, rfl⟩
      · rw [a2]; exact c.tp0
      · rw [a2]; exact c.tpn
      · have := frames_push c false [cp] s1.track rfl trivial (by intro h; cases h) a1
        simp only [a3]
        simpa using this
  · exact rfl

theorem caseForejumpBack_ok (c : Ctx p bs env s w o) (d rest : List Int)
    (ht : s.track = d ++ rest) (hfd : some 1 = some d.length) (hrest : Frames p bs env.len rest) :
    BodyOk p bs env s o (caseForejumpBack s) := by
  obtain ⟨cp, rfl⟩ := len1 hfd
  unfold caseForejumpBack
  simp only [ht, List.cons_append, List.nil_append]
  have h2 := uncaptureTo_ok cp s.cap.crawl.length { s with track := rest }
  cases hu : uncaptureTo cp s.cap.crawl.length { s with track := rest } with
  | error f => rw [hu] at h2; have : f = .crawlUnderflow := h2; subst this; exact rfl
  | ok s2 =>
    rw [hu] at h2
    obtain ⟨b1, b2, b3, b4, _⟩ : SameButCap _ s2 := h2
    refine ⟨b3, b4, ?_, ?_, ?_⟩
    · rw [b2]; exact c.tp0
    · rw [b2]; exact c.tpn
    · show Frames p bs env.len s2.track
      rw [b1]; exact hrest

theorem caseUpdateBumpalong_ok (c : Ctx p bs env s w o) (ho : o = .updatebumpalong)
    (hfr : Frames p bs env.len s.track) : BodyOk p bs env s o (caseUpdateBumpalong s) := by
  subst ho
  unfold caseUpdateBumpalong
  split
  · split
    · exact ⟨rfl, rfl, c.tp0, c.tpn, frames_setLast s.textpos c.tp0 c.tpn hfr, rfl⟩
    · exact ⟨rfl, rfl, c.tp0, c.tpn, hfr, rfl⟩
  · exact ⟨rfl, rfl, c.tp0, c.tpn, hfr, rfl⟩

/-- **every case of the switch**, from a state satisfying the invariant: no structural fault, and what it
    hands to `advance` / `goTo` / `backtrack` is again a stack of whole frames -/
theorem body_ok (c : Ctx p bs env s w o) (hsh : Shape p bs env.len s o) :
    BodyOk p bs env s o (body p env s) := by
  have hop : Op.ofNat? s.oper.op = some o := by rw [c.oop]; exact c.facts.op
  unfold Shape at hsh
  cases hb : s.oper.back <;> cases hb2 : s.oper.back2 <;> simp only [hb, hb2] at hsh
  · -- forward cases
    have hfr : o ≠ .lazybranch → o ≠ .stop → Frames p bs env.len s.track := by
      intro h1 h2
      rcases hsh with h | ⟨_, h | h⟩
      · exact h
      · exact absurd h (codepos_ne_zero c h1)
      · exact absurd h h2
    cases o with
    | stop => simp only [body, hop, modeOf, hb, hb2]; exact ⟨rfl, rfl, c.tp0, c.tpn, trivial⟩
    | prune => have := c.facts.operands; simp [operandsOk] at this
    | lazybranch =>
      simp only [body, hop, modeOf, hb, hb2, BodyOk, Mid, push1]
      refine ⟨trivial, trivial, c.tp0, c.tpn, ?_, rfl⟩
      rcases hsh with h | ⟨h1, h2⟩
      · simpa using frames_push c false [s.textpos] s.track rfl ⟨c.tp0, c.tpn⟩ (by intro h; cases h) h
      · rcases h2 with h2 | h2
        · rw [h1, h2]; exact Frames.root _ c.tp0 c.tpn
        · cases h2
    | setmark =>
      simp only [body, hop, modeOf, hb, hb2, BodyOk, Mid, push0, spush]
      refine ⟨trivial, trivial, c.tp0, c.tpn, ?_, rfl⟩
      simpa using frames_push c false [] s.track rfl trivial (by intro h; cases h) (hfr (by decide) (by decide))
    | nullmark =>
      simp only [body, hop, modeOf, hb, hb2, BodyOk, Mid, push0, spush]
      refine ⟨trivial, trivial, c.tp0, c.tpn, ?_, rfl⟩
      simpa using frames_push c false [] s.track rfl trivial (by intro h; cases h) (hfr (by decide) (by decide))
    | onerep => simp only [body, hop, modeOf, hb, hb2]; exact caseRep_ok c rfl 0 (by omega) (hfr (by decide) (by decide))
    | notonerep => simp only [body, hop, modeOf, hb, hb2]; exact caseRep_ok c rfl 1 (by omega) (hfr (by decide) (by decide))
    | setrep => simp only [body, hop, modeOf, hb, hb2]; exact caseRep_ok c rfl 2 (fun _ => setOperand_of c (by simp)) (hfr (by decide) (by decide))
    | oneloop => simp only [body, hop, modeOf, hb, hb2]; exact caseLoop_ok c rfl 0 false (by omega) (by simp) (hfr (by decide) (by decide))
    | notoneloop => simp only [body, hop, modeOf, hb, hb2]; exact caseLoop_ok c rfl 1 false (by omega) (by simp) (hfr (by decide) (by decide))
    | setloop => simp only [body, hop, modeOf, hb, hb2]; exact caseLoop_ok c rfl 2 false (fun _ => setOperand_of c (by simp)) (by simp) (hfr (by decide) (by decide))
    | oneloopatomic => simp only [body, hop, modeOf, hb, hb2]; exact caseLoop_ok c rfl 0 true (by omega) (by simp) (hfr (by decide) (by decide))
    | notoneloopatomic => simp only [body, hop, modeOf, hb, hb2]; exact caseLoop_ok c rfl 1 true (by omega) (by simp) (hfr (by decide) (by decide))
    | setloopatomic => simp only [body, hop, modeOf, hb, hb2]; exact caseLoop_ok c rfl 2 true (fun _ => setOperand_of c (by simp)) (by simp) (hfr (by decide) (by decide))
    | onelazy => simp only [body, hop, modeOf, hb, hb2]; exact caseLazy_ok c rfl (by simp) (hfr (by decide) (by decide))
    | notonelazy => simp only [body, hop, modeOf, hb, hb2]; exact caseLazy_ok c rfl (by simp) (hfr (by decide) (by decide))
    | setlazy => simp only [body, hop, modeOf, hb, hb2]; exact caseLazy_ok c rfl (by simp) (hfr (by decide) (by decide))
    | one => simp only [body, hop, modeOf, hb, hb2]; exact caseChar_ok c rfl 0 (by omega) (hfr (by decide) (by decide))
    | notone => simp only [body, hop, modeOf, hb, hb2]; exact caseChar_ok c rfl 1 (by omega) (hfr (by decide) (by decide))
    | set => simp only [body, hop, modeOf, hb, hb2]; exact caseChar_ok c rfl 2 (fun _ => setOperand_of c (by simp)) (hfr (by decide) (by decide))
    | multi => simp only [body, hop, modeOf, hb, hb2]; exact caseMulti_ok c rfl (hfr (by decide) (by decide))
    | ref => simp only [body, hop, modeOf, hb, hb2]; exact caseRef_ok c rfl (hfr (by decide) (by decide))
    | bol => simp only [body, hop, modeOf, hb, hb2]; exact caseBol_ok c rfl (hfr (by decide) (by decide))
    | eol => simp only [body, hop, modeOf, hb, hb2]; exact caseEol_ok c rfl (hfr (by decide) (by decide))
    | boundary => simp only [body, hop, modeOf, hb, hb2]; exact caseBoundary_ok c rfl (hfr (by decide) (by decide)) _ _
    | nonboundary => simp only [body, hop, modeOf, hb, hb2]; exact caseBoundary_ok c rfl (hfr (by decide) (by decide)) _ _
    | ecmaboundary => simp only [body, hop, modeOf, hb, hb2]; exact caseBoundary_ok c rfl (hfr (by decide) (by decide)) _ _
    | nonecmaboundary => simp only [body, hop, modeOf, hb, hb2]; exact caseBoundary_ok c rfl (hfr (by decide) (by decide)) _ _
    | beginning => simp only [body, hop, modeOf, hb, hb2]; exact assertion_ok c rfl (hfr (by decide) (by decide)) _
    | start => simp only [body, hop, modeOf, hb, hb2]; exact assertion_ok c rfl (hfr (by decide) (by decide)) _
    | end_ => simp only [body, hop, modeOf, hb, hb2]; exact assertion_ok c rfl (hfr (by decide) (by decide)) _
    | endz => simp only [body, hop, modeOf, hb, hb2]; exact caseEndZ_ok c rfl (hfr (by decide) (by decide))
    | nothing => simp only [body, hop, modeOf, hb, hb2]; exact ⟨rfl, rfl, c.tp0, c.tpn, hfr (by decide) (by decide)⟩
    | goto => simp only [body, hop, modeOf, hb, hb2]; exact caseGoto_ok c rfl (hfr (by decide) (by decide))
    | testref => simp only [body, hop, modeOf, hb, hb2]; exact caseTestref_ok c rfl (hfr (by decide) (by decide))
    | getmark => simp only [body, hop, modeOf, hb, hb2]; exact caseGetmark_ok c rfl (hfr (by decide) (by decide))
    | capturemark => simp only [body, hop, modeOf, hb, hb2]; exact caseCapturemark_ok c rfl (hfr (by decide) (by decide))
    | branchmark => simp only [body, hop, modeOf, hb, hb2]; exact caseBranchmark_ok c rfl (hfr (by decide) (by decide))
    | lazybranchmark => simp only [body, hop, modeOf, hb, hb2]; exact caseLazybranchmark_ok c rfl (hfr (by decide) (by decide))
    | setcount => simp only [body, hop, modeOf, hb, hb2]; exact caseSetcount_ok c (by simp) _ (hfr (by decide) (by decide))
    | nullcount => simp only [body, hop, modeOf, hb, hb2]; exact caseSetcount_ok c (by simp) _ (hfr (by decide) (by decide))
    | branchcount => simp only [body, hop, modeOf, hb, hb2]; exact caseBranchcount_ok c rfl (hfr (by decide) (by decide))
    | lazybranchcount => simp only [body, hop, modeOf, hb, hb2]; exact caseLazybranchcount_ok c rfl (hfr (by decide) (by decide))
    | setjump => simp only [body, hop, modeOf, hb, hb2]; exact caseSetjump_ok c rfl (hfr (by decide) (by decide))
    | backjump => simp only [body, hop, modeOf, hb, hb2]; exact caseBackjump_ok c (hfr (by decide) (by decide))
    | forejump => simp only [body, hop, modeOf, hb, hb2]; exact caseForejump_ok c rfl (hfr (by decide) (by decide))
    | updatebumpalong => simp only [body, hop, modeOf, hb, hb2]; exact caseUpdateBumpalong_ok c rfl (hfr (by decide) (by decide))
  · -- Back2 cases
    obtain ⟨d, rest, ht, hfd, hpos, hrest⟩ := hsh
    cases o with
    | branchmark => simp only [body, hop, modeOf, hb, hb2]; exact caseRestoreBack_ok c d rest ht hfd hrest
    | lazybranchmark => simp only [body, hop, modeOf, hb, hb2]; exact caseLazybranchmarkBack2_ok c d rest ht hfd hrest
    | branchcount => simp only [body, hop, modeOf, hb, hb2]; exact caseBranchcountBack2_ok c d rest ht hfd hrest
    | lazybranchcount => simp only [body, hop, modeOf, hb, hb2]; exact caseLazybranchcountBack2_ok c d rest ht hfd hrest
    | _ => simp [frameData] at hfd
  · -- Back cases
    obtain ⟨d, rest, ht, hfd, hpos, hrest⟩ := hsh
    have hR : o ≠ .lazybranch → Frames p bs env.len rest := by
      intro h1
      rcases hrest with h | ⟨_, h⟩
      · exact h
      · exact absurd h (codepos_ne_zero c h1)
    cases o with
    | oneloop => simp only [body, hop, modeOf, hb, hb2]; exact caseLoopBack_ok c rfl (by simp) d rest ht hfd hpos (hR (by decide))
    | notoneloop => simp only [body, hop, modeOf, hb, hb2]; exact caseLoopBack_ok c rfl (by simp) d rest ht hfd hpos (hR (by decide))
    | setloop => simp only [body, hop, modeOf, hb, hb2]; exact caseLoopBack_ok c rfl (by simp) d rest ht hfd hpos (hR (by decide))
    | onelazy => simp only [body, hop, modeOf, hb, hb2]; exact caseLazyBack_ok c rfl 0 (by omega) (by simp) d rest ht hfd hpos (hR (by decide))
    | notonelazy => simp only [body, hop, modeOf, hb, hb2]; exact caseLazyBack_ok c rfl 1 (by omega) (by simp) d rest ht hfd hpos (hR (by decide))
    | setlazy => simp only [body, hop, modeOf, hb, hb2]; exact caseLazyBack_ok c rfl 2 (fun _ => setOperand_of c (by simp)) (by simp) d rest ht hfd hpos (hR (by decide))
    | lazybranch => simp only [body, hop, modeOf, hb, hb2]; exact caseLazybranchBack_ok c rfl d rest ht hfd hpos hrest
    | branchmark => simp only [body, hop, modeOf, hb, hb2]; exact caseBranchmarkBack_ok c rfl d rest ht hfd hpos (hR (by decide))
    | lazybranchmark => simp only [body, hop, modeOf, hb, hb2]; exact caseLazybranchmarkBack_ok c rfl d rest ht hfd hpos (hR (by decide))
    | nullcount => simp only [body, hop, modeOf, hb, hb2]; exact casePop2Back_ok c (by rw [ht, len0 hfd]; exact hR (by decide))
    | setcount => simp only [body, hop, modeOf, hb, hb2]; exact casePop2Back_ok c (by rw [ht, len0 hfd]; exact hR (by decide))
    | setjump => simp only [body, hop, modeOf, hb, hb2]; exact casePop2Back_ok c (by rw [ht, len0 hfd]; exact hR (by decide))
    | nullmark => simp only [body, hop, modeOf, hb, hb2]; exact casePop1Back_ok c (by rw [ht, len0 hfd]; exact hR (by decide))
    | setmark => simp only [body, hop, modeOf, hb, hb2]; exact casePop1Back_ok c (by rw [ht, len0 hfd]; exact hR (by decide))
    | branchcount => simp only [body, hop, modeOf, hb, hb2]; exact caseBranchcountBack_ok c rfl d rest ht hfd (hR (by decide))
    | lazybranchcount => simp only [body, hop, modeOf, hb, hb2]; exact caseLazybranchcountBack_ok c rfl d rest ht hfd hpos (hR (by decide))
    | capturemark => simp only [body, hop, modeOf, hb, hb2]; exact caseCapturemarkBack_ok c rfl d rest ht hfd (hR (by decide))
    | getmark => simp only [body, hop, modeOf, hb, hb2]; exact caseRestoreBack_ok c d rest ht hfd (hR (by decide))
    | forejump => simp only [body, hop, modeOf, hb, hb2]; exact caseForejumpBack_ok c d rest ht hfd (hR (by decide))
    | _ => simp [frameData] at hfd

end cases
/-! ## one step -/

section stepping
variable {p : Prog} {bs : List Nat} {env : Env}

/-- the conclusion of the step theorem -/
def StepOk (p : Prog) (bs : List Nat) (env : Env) : Outcome → Prop
  | .fault f => f.structural = false
  | .stop _ => True
  | .next s' _ => Inv p bs env s'

theorem instr_unique {pc : Nat} {w w' : Word} {o o' : Op} (h : InstrFacts p bs pc w o)
    (hf : fetch p pc = .ok w') (ho : Op.ofNat? w'.op = some o') : w = w' ∧ o = o' := by
  have := h.fetch
  rw [hf] at this
  cases this
  have := h.op
  rw [ho] at this
  cases this
  exact ⟨rfl, rfl⟩

/-- the state reached by entering instruction `pc` forwards -/
theorem inv_enter (hwf : WF p bs) (s1 : VMState) (pc : Nat) (hpc : pc ∈ bs)
    (h0 : 0 ≤ s1.textpos) (hn : s1.textpos ≤ env.len)
    (hsh : Frames p bs env.len s1.track ∨
      (s1.track = [] ∧ ∃ wt, fetch p pc = .ok wt ∧ Op.ofNat? wt.op = some .stop)) :
    ∃ w, fetch p pc = .ok w ∧ Inv p bs env { s1 with codepos := pc, oper := w } := by
  obtain ⟨w, o, hf⟩ := hwf.instr pc hpc
  refine ⟨w, hf.fetch, w, o, ⟨hwf, hf, hpc, rfl, rfl, rfl, h0, hn⟩, ?_⟩
  unfold Shape
  simp only [hf.noback, hf.noback2]
  rcases hsh with h | ⟨h1, wt, h2, h3⟩
  · exact Or.inl h
  · exact Or.inr ⟨h1, Or.inr (instr_unique hf h2 h3).2⟩

theorem finish_ok (hwf : WF p bs) {s : VMState} {w : Word} {o : Op} (c : Ctx p bs env s w o)
    (hns : o ≠ .stop) (s1 : VMState) (e : Exit) (hb : BodyOk p bs env s o (.ok (s1, e))) :
    StepOk p bs env (finish p (s1, e)) := by
  obtain ⟨hcp, hop, h0, hn, hmid⟩ := hb
  cases e with
  | halt => exact trivial
  | advance i =>
    obtain ⟨hfr, hsz⟩ : Frames p bs env.len s1.track ∧ i + 1 = o.size := hmid
    have hnext : s1.codepos + i + 1 ∈ bs := by
      rcases c.facts.next with h | h
      · exact absurd h hns
      · rw [hcp]; have : s.codepos + i + 1 = s.codepos + o.size := by omega
        rw [this]; exact h
    obtain ⟨w', hf', hinv⟩ := inv_enter (env := env) hwf s1 _ hnext h0 hn (Or.inl hfr)
    simp only [finish, doAdvance, hf']
    exact hinv
  | goto t =>
    obtain ⟨hbd, hsh⟩ : isBoundaryPos bs t = true ∧ _ := hmid
    simp only [isBoundaryPos, Bool.and_eq_true, decide_eq_true_eq, List.contains_iff_mem] at hbd
    obtain ⟨w', hf', hinv⟩ := inv_enter (env := env) hwf s1 t.toNat hbd.2 h0 hn hsh
    have : ¬ t < 0 := by omega
    simp only [finish, doGoto, this, ite_false, hf']
    exact hinv
  | back =>
    have hfr : Frames p bs env.len s1.track := hmid
    cases htr : s1.track with
    | nil => rw [htr] at hfr; exact absurd rfl (frames_ne_nil hfr)
    | cons cc tl =>
      rw [htr] at hfr
      cases hfr with
      | root tp ht0 htn =>
        obtain ⟨w0, o0, hf0⟩ := hwf.instr 0 hwf.zero
        obtain ⟨wr, hwr, hor⟩ := hwf.root
        obtain ⟨rfl, rfl⟩ := instr_unique hf0 hwr hor
        have hsp : savedPos 0 = (0, false) := by decide
        simp only [finish, doBacktrack, htr, hsp, hf0.fetch]
        refine ⟨w0, .lazybranch, ⟨hwf, hf0, hwf.zero, rfl, rfl, rfl, h0, hn⟩, ?_⟩
        unfold Shape
        simp only [hf0.noback2, Bool.false_eq_true, ite_false]
        exact ⟨[tp], [], rfl, rfl, ⟨ht0, htn⟩, Or.inr ⟨rfl, trivial⟩⟩
      | cons _ w' o' d rest hin hf ho hd hp hr =>
        obtain ⟨w2, o2, hf2⟩ := hwf.instr _ hin
        obtain ⟨rfl, rfl⟩ := instr_unique hf2 hf ho
        simp only [finish, doBacktrack, htr, hf]
        cases hb2 : (savedPos cc).2 with
        | true =>
          simp only [ite_true]
          refine ⟨w2, o2, ⟨hwf, hf2, hin, rfl, rfl, rfl, h0, hn⟩, ?_⟩
          unfold Shape
          simp only [hf2.noback]
          rw [hb2] at hd hp
          exact ⟨d, rest, rfl, hd, hp, hr⟩
        | false =>
          simp only [Bool.false_eq_true, ite_false]
          refine ⟨w2, o2, ⟨hwf, hf2, hin, rfl, rfl, rfl, h0, hn⟩, ?_⟩
          unfold Shape
          simp only [hf2.noback2]
          rw [hb2] at hd hp
          exact ⟨d, rest, rfl, hd, hp, Or.inl hr⟩

/-- **One iteration of the interpreter loop keeps the invariant and raises no structural fault.** -/
theorem step_ok (hwf : WF p bs) {s : VMState} (hinv : Inv p bs env s) : StepOk p bs env (step p env s) := by
  obtain ⟨w, o, c, hsh⟩ := hinv
  have hb := body_ok c hsh
  by_cases hstop : o = .stop
  · -- at `Stop`: forwards it halts; it has no Back / Back2 case and no frame refers to it
    subst hstop
    have hop : Op.ofNat? s.oper.op = some .stop := by rw [c.oop]; exact c.facts.op
    unfold Shape at hsh
    cases hbk : s.oper.back <;> cases hbk2 : s.oper.back2 <;> simp only [hbk, hbk2] at hsh
    · simp only [step, body, hop, modeOf, hbk, hbk2, finish]; exact trivial
    · obtain ⟨d, rest, _, hfd, _⟩ := hsh; simp [frameData] at hfd
    · obtain ⟨d, rest, _, hfd, _⟩ := hsh; simp [frameData] at hfd
  · unfold step
    cases hbody : body p env s with
    | error f => rw [hbody] at hb; exact hb
    | ok r =>
      obtain ⟨s1, e⟩ := r
      rw [hbody] at hb
      exact finish_ok hwf c hstop s1 e hb

/-- the start state of an attempt (`executeDefault` after its `goTo(0)`) satisfies the invariant -/
theorem init_inv (hwf : WF p bs) (pos : Int) (h0 : 0 ≤ pos) (hn : pos ≤ env.len) :
    ∃ s0, init p pos = .ok s0 ∧ Inv p bs env s0 ∧ s0.codepos = 0 ∧ s0.track = [] := by
  obtain ⟨w, o, hf⟩ := hwf.instr 0 hwf.zero
  refine ⟨{ codepos := 0, oper := w, textpos := pos, track := [], stack := [],
             cap := { m := MatchBuilder.newMatch p.capsize, crawl := [] } },
    by simp [init, hf.fetch, Except.map], ⟨w, o, ⟨hwf, hf, hwf.zero, rfl, rfl, rfl, h0, hn⟩, ?_⟩, rfl, rfl⟩
  unfold Shape
  simp only [hf.noback, hf.noback2]
  exact Or.inr ⟨trivial, Or.inl trivial⟩

end stepping

/-! ## unfolding lemmas for `step` / `run` (for proofs built on the model) -/

section unfolding
variable (p : Prog) (env : Env)

@[simp] theorem finish_advance (s : VMState) (i : Nat) : finish p (s, .advance i) = doAdvance p s i := rfl
@[simp] theorem finish_goto (s : VMState) (t : Int) : finish p (s, .goto t) = doGoto p s t := rfl
@[simp] theorem finish_back (s : VMState) : finish p (s, .back) = doBacktrack p s := rfl
@[simp] theorem finish_halt (s : VMState) : finish p (s, .halt) = .stop s := rfl

theorem step_of_body_ok {s : VMState} {r : VMState × Exit} (h : body p env s = .ok r) :
    step p env s = finish p r := by simp [step, h]

theorem step_of_body_error {s : VMState} {f : Fault} (h : body p env s = .error f) :
    step p env s = .fault f := by simp [step, h]

@[simp] theorem run_zero (s : VMState) : run p env 0 s = (.fuel s, 0) := rfl

theorem run_succ_next {s s' : VMState} {chk : Bool} (fuel : Nat) (h : step p env s = .next s' chk) :
    run p env (fuel + 1) s = ((run p env fuel s').1, (run p env fuel s').2 + 1) := by
  simp [run, h]

theorem run_succ_stop {s s' : VMState} (fuel : Nat) (h : step p env s = .stop s') :
    run p env (fuel + 1) s = (.done s', 1) := by simp [run, h]

theorem run_succ_fault {s : VMState} {f : Fault} (fuel : Nat) (h : step p env s = .fault f) :
    run p env (fuel + 1) s = (.fault f, 1) := by simp [run, h]

/-- the observed run that the driver executes (leg W) is `run`: same outcome, same number of iterations -/
theorem runObs_eq_run {σ : Type} (obs : σ → VMState → σ) : ∀ (fuel : Nat) (s : VMState) (a : σ) (n : Nat),
    (runObs p env obs fuel s a n).1 = (run p env fuel s).1 ∧
    (runObs p env obs fuel s a n).2.2 = n + (run p env fuel s).2 := by
  intro fuel
  induction fuel with
  | zero => intro s a n; simp [runObs, run]
  | succ fuel ih =>
    intro s a n
    unfold runObs run
    cases h : step p env s with
    | fault f => simp
    | stop s' => simp
    | next s' chk =>
      simp only
      have := ih s' (obs a s) (n + 1)
      refine ⟨this.1, ?_⟩
      rw [this.2]; omega

end unfolding

/-! ## a concrete program for the non-vacuity examples -/

/-- `Lazybranch 18; Setmark; Nullmark; Goto 11; One a; Oneloopatomic b 1; Branchmark 6; One c;
    Capturemark 0 -1; Stop` (what the writer emits for `(?:ab?)*c`) -/
def demo : Prog :=
  { codes := #[23, 18, 31, 30, 38, 11, 9, 97, 43, 98, 1, 24, 6, 9, 99, 32, 0, -1, 40], strings := #[],
    nsets := 0, trackcount := 5, capsize := 1, caps := [], rtl := false }

/-- the text "ababc" with trivial oracles -/
def demoEnv : Env :=
  { text := #[97, 98, 97, 98, 99], textstart := 0, setMem := fun _ _ => false, toLower := id,
    wordChar := fun _ => true, ecmaWordChar := fun _ => true, endzStrict := false, ecma := false }

end RegexVerif.Lemmas.VM
