/-
Lemmas about the Boyer-Moore model (Model/BoyerMoore.lean): the table invariants
(`positive[m]` never exceeds a shift that a later occurrence could need after a mismatch at `m`;
the negative entry of a rune never exceeds its distance from the tail) and the induction over `Scan`'s
outer loop that turns them into "no occurrence is skipped".
-/
import RegexVerif.Model.BoyerMoore

namespace RegexVerif.Lemmas.BoyerMoore
open RegexVerif.BoyerMoore

/-! ### PART I: the positive table -/

/-- the inner loop of PART I keeps the distance `match - scan`, stops at a disagreement or at the head, and
    everything it walked over agrees with the copy of the pattern shifted by that distance -/
theorem extend_spec (pat : List Nat) : ∀ (s1 mt : Nat), s1 ≤ mt →
    (extend pat mt s1).1 ≤ mt ∧ (extend pat mt s1).1 + s1 = mt + (extend pat mt s1).2 ∧
    (∀ j k, (extend pat mt s1).1 < j → j ≤ mt → k + (mt + 1) = j + s1 → pat[j]? = pat[k]?) ∧
    ((extend pat mt s1).2 = 0 ∨ pat[(extend pat mt s1).1]? ≠ pat[(extend pat mt s1).2 - 1]?) := by
  intro s1
  induction s1 with
  | zero => intro mt _; simp [extend]; intro j k h1 h2; omega
  | succ s ih =>
    intro mt h
    unfold extend
    by_cases hne : (pat[mt]? != pat[s]?) = true
    · rw [if_pos hne]
      refine ⟨Nat.le_refl _, rfl, fun j k h1 h2 _ => by omega, Or.inr ?_⟩
      simpa using hne
    · rw [if_neg hne]
      have heq : pat[mt]? = pat[s]? := by simpa using hne
      obtain ⟨h1, h2, h3, h4⟩ := ih (mt - 1) (by omega)
      refine ⟨by omega, by omega, ?_, h4⟩
      intro j k hj1 hj2 hk
      by_cases hjm : j = mt
      · have : k = s := by omega
        rw [hjm, this]; exact heq
      · exact h3 j k hj1 (by omega) (by omega)

/-- the invariant of `Outerloop` before `examine = e1 - 1` is looked at -/
structure PosInv (pat : List Nat) (last ch e1 : Nat) (pos : List Nat) : Prop where
  len : pos.length = last + 1
  a : ∀ (i v : Nat), pos[i]? = some v → v ≤ i + 1
  c : ∀ (i v : Nat), pos[i]? = some v → v ≤ max 1 (last - e1)
  b : ∀ (e : Nat), e1 ≤ e → e < last → pat[e]? = some ch →
    ∃ v, pos[(extend pat last (e + 1)).1]? = some v ∧ 1 ≤ v ∧ v ≤ last - e

theorem posInv_step (pat : List Nat) (last ch e : Nat) (pos : List Nat) (he : e < last)
    (h : PosInv pat last ch (e + 1) pos) (hch : pat[e]? = some ch) :
    PosInv pat last ch e
      (if pos[(extend pat last (e + 1)).1]? == some 0 then
        pos.set (extend pat last (e + 1)).1 ((extend pat last (e + 1)).1 + 1 - (extend pat last (e + 1)).2) else pos) := by
  obtain ⟨x1, x2, _, _⟩ := extend_spec pat (e + 1) last (by omega)
  generalize hr : extend pat last (e + 1) = r at *
  have hlt : r.1 < pos.length := by rw [h.len]; omega
  by_cases hz : (pos[r.1]? == some 0) = true
  · rw [if_pos hz]
    have hz' : pos[r.1]? = some 0 := by simpa using hz
    refine ⟨by simp [h.len], ?_, ?_, ?_⟩
    · intro i v hv
      rw [List.getElem?_set] at hv
      by_cases hi : r.1 = i
      · simp [hi] at hv; omega
      · simp [hi] at hv; exact h.a i v hv
    · intro i v hv
      rw [List.getElem?_set] at hv
      by_cases hi : r.1 = i
      · simp [hi] at hv; omega
      · simp [hi] at hv; have := h.c i v hv; omega
    · intro e' h1 h2 h3
      by_cases hee : e' = e
      · rw [hee, hr]
        refine ⟨r.1 + 1 - r.2, ?_, by omega, by omega⟩
        rw [List.getElem?_set]; simp [hlt]
      · obtain ⟨v, hv1, hv2, hv3⟩ := h.b e' (by omega) h2 h3
        refine ⟨v, ?_, hv2, hv3⟩
        rw [List.getElem?_set]
        by_cases hi : r.1 = (extend pat last (e' + 1)).1
        · rw [← hi, hz'] at hv1; simp at hv1; omega
        · simp [hi]; exact hv1
  · rw [if_neg hz]
    refine ⟨h.len, h.a, fun i v hv => by have := h.c i v hv; omega, ?_⟩
    intro e' h1 h2 h3
    by_cases hee : e' = e
    · rw [hee, hr]
      have hsome : ∃ v, pos[r.1]? = some v := ⟨pos[r.1], by simp [hlt]⟩
      obtain ⟨v, hv⟩ := hsome
      have hv0 : v ≠ 0 := by intro h0; rw [hv, h0] at hz; simp at hz
      have := h.c r.1 v hv
      exact ⟨v, hv, by omega, by omega⟩
    · exact h.b e' (by omega) h2 h3

theorem posLoop_inv (pat : List Nat) (last ch : Nat) : ∀ (e1 : Nat) (pos : List Nat), e1 ≤ last →
    PosInv pat last ch e1 pos → PosInv pat last ch 0 (posLoop pat last ch e1 pos) := by
  intro e1
  induction e1 with
  | zero => intro pos _ h; exact h
  | succ e ih =>
    intro pos he h
    unfold posLoop
    by_cases hch : (pat[e]? == some ch) = true
    · rw [if_pos hch]
      exact ih _ (by omega) (posInv_step pat last ch e pos (by omega) h (by simpa using hch))
    · rw [if_neg hch]
      apply ih _ (by omega)
      refine ⟨h.len, h.a, fun i v hv => by have := h.c i v hv; omega, ?_⟩
      intro e' h1 h2 h3
      by_cases hee : e' = e
      · subst hee; rw [h3] at hch; simp at hch
      · exact h.b e' (by omega) h2 h3

/-- **the positive table.**  For a non-empty pattern: one entry per pattern index; every entry is at least
    1 and at most `index + 1`; and if, after a mismatch at `mt` with the suffix behind it matched, the
    pattern shifted by `d ≥ 1` is compatible with what was seen (agrees with the matched suffix where it
    overlaps it, and differs from `pattern[mt]` where it overlaps the mismatch), then `positive[mt] ≤ d`. -/
theorem positive_spec (pat : List Nat) (hne : pat ≠ []) :
    (positiveLtr pat).length = pat.length ∧
    (∀ i, i < pat.length → ∃ v, (positiveLtr pat)[i]? = some v ∧ 1 ≤ v ∧ v ≤ i + 1) ∧
    (∀ mt d, mt < pat.length - 1 → 1 ≤ d →
      (∀ j k, mt < j → j ≤ pat.length - 1 → k + d = j → pat[j]? = pat[k]?) →
      (∀ k, k + d = mt → pat[mt]? ≠ pat[k]?) →
      ∃ v, (positiveLtr pat)[mt]? = some v ∧ 1 ≤ v ∧ v ≤ d) := by
  have hlen : 0 < pat.length := List.length_pos_iff.mpr hne
  have hlast : pat[pat.length - 1]? = some (pat[pat.length - 1]'(by omega)) := by
    simp [List.getElem?_eq_getElem, hlen]
  unfold positiveLtr
  simp only [hlast]
  generalize hch : pat[pat.length - 1]'(by omega) = ch at hlast
  have h0 : PosInv pat (pat.length - 1) ch (pat.length - 1) ((List.replicate pat.length 0).set (pat.length - 1) 1) := by
    refine ⟨by simp; omega, ?_, ?_, fun e h1 h2 _ => by omega⟩
    · intro i v hv
      rw [List.getElem?_set] at hv
      by_cases hi : pat.length - 1 = i
      · simp [hi] at hv; omega
      · simp [hi, List.getElem?_replicate] at hv; omega
    · intro i v hv
      rw [List.getElem?_set] at hv
      by_cases hi : pat.length - 1 = i
      · simp [hi] at hv; omega
      · simp [hi, List.getElem?_replicate] at hv; omega
  have hinv := posLoop_inv pat (pat.length - 1) ch (pat.length - 1) _ (Nat.le_refl _) h0
  generalize posLoop pat (pat.length - 1) ch (pat.length - 1) ((List.replicate pat.length 0).set (pat.length - 1) 1) = P at hinv
  have hP : P.length = pat.length := by rw [hinv.len]; omega
  have hfill : ∀ i, i < pat.length → ∃ v, P[i]? = some v ∧
      (P.map fun v => if v == 0 then 1 else v)[i]? = some (if v = 0 then 1 else v) := by
    intro i hi
    refine ⟨P[i]'(by omega), by simp [hP, hi], ?_⟩
    simp [List.getElem?_map, hP, hi]
  refine ⟨by simp [hP], ?_, ?_⟩
  · intro i hi
    obtain ⟨v, hv1, hv2⟩ := hfill i hi
    have := hinv.a i v hv1
    refine ⟨_, hv2, ?_, ?_⟩ <;> split <;> omega
  · intro mt d hmt hd hagree hdis
    obtain ⟨v, hv1, hv2⟩ := hfill mt (by omega)
    have hva := hinv.a mt v hv1
    by_cases hdm : mt + 1 ≤ d
    · refine ⟨_, hv2, ?_, ?_⟩ <;> split <;> omega
    · -- `examine = last - d` carries the tail character and its match ends exactly at `mt`
      have he : pat[pat.length - 1 - d]? = some ch := by
        rw [← hagree (pat.length - 1) (pat.length - 1 - d) (by omega) (Nat.le_refl _) (by omega)]
        exact hlast
      obtain ⟨w, hw1, hw2, hw3⟩ := hinv.b (pat.length - 1 - d) (Nat.zero_le _) (by omega) he
      obtain ⟨x1, x2, x3, x4⟩ := extend_spec pat (pat.length - 1 - d + 1) (pat.length - 1) (by omega)
      generalize extend pat (pat.length - 1) (pat.length - 1 - d + 1) = r at *
      have hr : r.1 = mt := by
        by_cases hgt : mt < r.1
        · exfalso
          rcases x4 with h0' | hne'
          · omega
          · apply hne'
            exact hagree r.1 (r.2 - 1) hgt x1 (by omega)
        · by_cases hlt : r.1 < mt
          · exfalso
            exact hdis (mt - d) (by omega) (x3 mt (mt - d) hlt (by omega) (by omega))
          · omega
      rw [hr] at hw1
      rw [hv1] at hw1
      injection hw1 with hw1
      subst hw1
      refine ⟨_, hv2, ?_, ?_⟩ <;> split <;> omega

/-! ### PART II: the negative table -/

theorem negLoop_spec (pat : List Nat) (last : Nat) : ∀ (e1 : Nat) (tb : List (Nat × Nat)),
    (∀ j c, e1 ≤ j → pat[j]? = some c → ∃ v, tb.lookup c = some v ∧ v ≤ last - j) →
    (∀ c v, tb.lookup c = some v → ∃ j, e1 ≤ j ∧ pat[j]? = some c ∧ v = last - j) →
    (∀ j c, pat[j]? = some c → ∃ v, (negLoop pat last e1 tb).lookup c = some v ∧ v ≤ last - j) ∧
    (∀ c v, (negLoop pat last e1 tb).lookup c = some v → ∃ j, pat[j]? = some c ∧ v = last - j) := by
  intro e1
  induction e1 with
  | zero =>
    intro tb h1 h2
    exact ⟨fun j c hc => h1 j c (Nat.zero_le _) hc, fun c v hv => by
      obtain ⟨j, _, hj⟩ := h2 c v hv; exact ⟨j, hj⟩⟩
  | succ e ih =>
    intro tb h1 h2
    unfold negLoop
    cases hp : pat[e]? with
    | none =>
      simp only []
      apply ih tb
      · intro j c hj hc
        by_cases hje : j = e
        · subst hje; rw [hp] at hc; simp at hc
        · exact h1 j c (by omega) hc
      · intro c v hv
        obtain ⟨j, hj1, hj2⟩ := h2 c v hv
        exact ⟨j, by omega, hj2⟩
    | some ch =>
      simp only []
      by_cases hl : (tb.lookup ch).isNone = true
      · rw [if_pos hl]
        have hl' : tb.lookup ch = none := by simpa using hl
        apply ih
        · intro j c hj hc
          by_cases hcc : c = ch
          · subst hcc
            by_cases hje : j = e
            · subst hje; exact ⟨last - j, by simp [List.lookup], Nat.le_refl _⟩
            · obtain ⟨v, hv, _⟩ := h1 j c (by omega) hc
              rw [hl'] at hv; simp at hv
          · have hje : j ≠ e := by intro h; subst h; rw [hp] at hc; injection hc with hc; exact hcc hc.symm
            obtain ⟨v, hv1, hv2⟩ := h1 j c (by omega) hc
            refine ⟨v, ?_, hv2⟩
            have hb : (c == ch) = false := by simp [hcc]
            simp [List.lookup, hb, hv1]
        · intro c v hv
          by_cases hcc : c = ch
          · subst hcc
            simp [List.lookup] at hv
            exact ⟨e, Nat.le_refl _, hp, hv.symm⟩
          · have hb : (c == ch) = false := by simp [hcc]
            simp [List.lookup, hb] at hv
            obtain ⟨j, hj1, hj2⟩ := h2 c v hv
            exact ⟨j, by omega, hj2⟩
      · rw [if_neg hl]
        apply ih
        · intro j c hj hc
          by_cases hje : j = e
          · subst hje
            rw [hp] at hc; injection hc with hc; subst hc
            cases hv : tb.lookup ch with
            | none => rw [hv] at hl; simp at hl
            | some v =>
              obtain ⟨j', hj1, _, hj3⟩ := h2 ch v hv
              exact ⟨v, rfl, by omega⟩
          · exact h1 j c (by omega) hc
        · intro c v hv
          obtain ⟨j, hj1, hj2⟩ := h2 c v hv
          exact ⟨j, by omega, hj2⟩

/-- the sparse negative table of a pattern -/
theorem neg_spec (pat : List Nat) :
    (∀ j c, pat[j]? = some c → ∃ v, (buildLtr pat).neg.lookup c = some v ∧ v ≤ pat.length - 1 - j) ∧
    (∀ c v, (buildLtr pat).neg.lookup c = some v → ∃ j, pat[j]? = some c ∧ v = pat.length - 1 - j) := by
  apply negLoop_spec pat (pat.length - 1) pat.length []
  · intro j c hj hc
    have : j < pat.length := by
      cases Nat.lt_or_ge j pat.length with
      | inl h => exact h
      | inr h => rw [List.getElem?_eq_none h] at hc; simp at hc
    omega
  · intro c v hv; simp [List.lookup] at hv

/-- **`Scan`'s table lookup.**  A consulted entry is at most the pattern length, at most the distance from
    the tail of every occurrence of the rune in the pattern, and 0 only for the tail rune; when no table
    is consulted the rune does not occur in the pattern. -/
theorem lookup_spec (pat : List Nat) (hne : pat ≠ []) (hbmp : ∀ c, c ∈ pat → c ≤ 0xffff) (ch : Nat) :
    (∀ v, (buildLtr pat).lookup false ch = some v →
      v ≤ pat.length ∧ (∀ j : Nat, pat[j]? = some ch → v ≤ pat.length - 1 - j) ∧ (v = 0 → pat[pat.length - 1]? = some ch)) ∧
    ((buildLtr pat).lookup false ch = none → ∀ j : Nat, pat[j]? ≠ some ch) := by
  have hlen : 0 < pat.length := List.length_pos_iff.mpr hne
  obtain ⟨n1, n2⟩ := neg_spec pat
  have htab : ∀ v, (match (buildLtr pat).neg.lookup ch with | some v => v | none => pat.length) = v →
      v ≤ pat.length ∧ (∀ j : Nat, pat[j]? = some ch → v ≤ pat.length - 1 - j) ∧ (v = 0 → pat[pat.length - 1]? = some ch) := by
    intro v hv
    cases hl : (buildLtr pat).neg.lookup ch with
    | none =>
      rw [hl] at hv; simp only [] at hv; subst hv
      refine ⟨Nat.le_refl _, ?_, by omega⟩
      intro j hj
      obtain ⟨w, hw, _⟩ := n1 j ch hj
      rw [hl] at hw; simp at hw
    | some w =>
      rw [hl] at hv; simp only [] at hv; subst hv
      obtain ⟨j0, hj0, hw⟩ := n2 ch w hl
      refine ⟨by omega, ?_, ?_⟩
      · intro j hj
        obtain ⟨w', hw1, hw2⟩ := n1 j ch hj
        rw [hl] at hw1; injection hw1 with hw1; omega
      · intro h0
        have hj0lt : j0 < pat.length := by
          cases Nat.lt_or_ge j0 pat.length with
          | inl h => exact h
          | inr h => rw [List.getElem?_eq_none h] at hj0; simp at hj0
        have : j0 = pat.length - 1 := by omega
        rw [← this]; exact hj0
  constructor
  · intro v hv
    unfold Core.lookup at hv
    simp only [show (buildLtr pat).pattern = pat from rfl, Bool.false_eq_true, if_false] at hv
    by_cases h128 : ch < 128
    · rw [if_pos h128] at hv; injection hv with hv; exact htab v hv
    · rw [if_neg h128] at hv
      by_cases hc2 : (decide (ch ≤ 0xffff) && (buildLtr pat).hasUnicode) = true
      · rw [if_pos hc2] at hv
        by_cases hpg : (buildLtr pat).hasPage (ch / 256) = true
        · rw [if_pos hpg] at hv; injection hv with hv; exact htab v hv
        · rw [if_neg hpg] at hv; simp at hv
      · rw [if_neg hc2] at hv; simp at hv
  · intro hnone j hj
    have hmem : ch ∈ pat := List.mem_of_getElem? hj
    have hle := hbmp ch hmem
    unfold Core.lookup at hnone
    simp only [show (buildLtr pat).pattern = pat from rfl, Bool.false_eq_true, if_false] at hnone
    by_cases h128 : ch < 128
    · rw [if_pos h128] at hnone; simp at hnone
    · rw [if_neg h128] at hnone
      have hU : (buildLtr pat).hasUnicode = true := by
        simp only [Core.hasUnicode, show (buildLtr pat).pattern = pat from rfl, List.any_eq_true]
        exact ⟨ch, hmem, by simp; omega⟩
      have hPg : (buildLtr pat).hasPage (ch / 256) = true := by
        simp only [Core.hasPage, show (buildLtr pat).pattern = pat from rfl, List.any_eq_true]
        exact ⟨ch, hmem, by simp; omega⟩
      simp [hU, hPg, hle] at hnone

end RegexVerif.Lemmas.BoyerMoore
