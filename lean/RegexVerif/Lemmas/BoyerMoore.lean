/-
Lemmas about the Boyer-Moore model (Model/BoyerMoore.lean): the table invariants
(`positive[m]` never exceeds a shift that a later occurrence could need after a mismatch at `m`;
the negative entry of a rune never exceeds its distance from the tail) and the induction over `Scan`'s
outer loop that turns them into "no occurrence is skipped".
-/
import RegexVerif.Model.BoyerMoore

namespace RegexVerif.Lemmas.BoyerMoore
open RegexVerif.BoyerMoore

/-! ### PART I: the positive table -/

/-- the inner loop of PART I keeps the distance `match - scan`, stops at a disagreement or at the head, and
    everything it walked over agrees with the copy of the pattern shifted by that distance -/
theorem extend_spec (pat : List Nat) : ∀ (s1 mt : Nat), s1 ≤ mt →
    (extend pat mt s1).1 ≤ mt ∧ (extend pat mt s1).1 + s1 = mt + (extend pat mt s1).2 ∧
    (∀ j k, (extend pat mt s1).1 < j → j ≤ mt → k + (mt + 1) = j + s1 → pat[j]? = pat[k]?) ∧
    ((extend pat mt s1).2 = 0 ∨ pat[(extend pat mt s1).1]? ≠ pat[(extend pat mt s1).2 - 1]?) := by
  intro s1
  induction s1 with
  | zero => intro mt _; simp [extend]; intro j k h1 h2; omega
  | succ s ih =>
    intro mt h
    unfold extend
    by_cases hne : (pat[mt]? != pat[s]?) = true
    · rw [if_pos hne]
      refine ⟨Nat.le_refl _, rfl, fun j k h1 h2 _ => by omega, Or.inr ?_⟩
      simpa using hne
    · rw [if_neg hne]
      have heq : pat[mt]? = pat[s]? := by simpa using hne
      obtain ⟨h1, h2, h3, h4⟩ := ih (mt - 1) (by omega)
      refine ⟨by omega, by omega, ?_, h4⟩
      intro j k hj1 hj2 hk
      by_cases hjm : j = mt
      · have : k = s := by omega
        rw [hjm, this]; exact heq
      · exact h3 j k hj1 (by omega) (by omega)

/-- the invariant of `Outerloop` before `examine = e1 - 1` is looked at -/
structure PosInv (pat : List Nat) (last ch e1 : Nat) (pos : List Nat) : Prop where
  len : pos.length = last + 1
  a : ∀ (i v : Nat), pos[i]? = some v → v ≤ i + 1
  c : ∀ (i v : Nat), pos[i]? = some v → v ≤ max 1 (last - e1)
  b : ∀ (e : Nat), e1 ≤ e → e < last → pat[e]? = some ch →
    ∃ v, pos[(extend pat last (e + 1)).1]? = some v ∧ 1 ≤ v ∧ v ≤ last - e

theorem posInv_step (pat : List Nat) (last ch e : Nat) (pos : List Nat) (he : e < last)
    (h : PosInv pat last ch (e + 1) pos) (hch : pat[e]? = some ch) :
    PosInv pat last ch e
      (if pos[(extend pat last (e + 1)).1]? == some 0 then
        pos.set (extend pat last (e + 1)).1 ((extend pat last (e + 1)).1 + 1 - (extend pat last (e + 1)).2) else pos) := by
  obtain ⟨x1, x2, _, _⟩ := extend_spec pat (e + 1) last (by omega)
  generalize hr : extend pat last (e + 1) = r at *
  have hlt : r.1 < pos.length := by rw [h.len]; omega
  by_cases hz : (pos[r.1]? == some 0) = true
  · rw [if_pos hz]
    have hz' : pos[r.1]? = some 0 := by simpa using hz
    refine ⟨by simp [h.len], ?_, ?_, ?_⟩
    · intro i v hv
      rw [List.getElem?_set] at hv
      by_cases hi : r.1 = i
      · simp [hi] at hv; omega
      · simp [hi] at hv; exact h.a i v hv
    · intro i v hv
      rw [List.getElem?_set] at hv
      by_cases hi : r.1 = i
      · simp [hi] at hv; omega
      · simp [hi] at hv; have := h.c i v hv; omega
    · intro e' h1 h2 h3
      by_cases hee : e' = e
      · rw [hee, hr]
        refine ⟨r.1 + 1 - r.2, ?_, by omega, by omega⟩
        rw [List.getElem?_set]; simp [hlt]
      · obtain ⟨v, hv1, hv2, hv3⟩ := h.b e' (by omega) h2 h3
        refine ⟨v, ?_, hv2, hv3⟩
        rw [List.getElem?_set]
        by_cases hi : r.1 = (extend pat last (e' + 1)).1
        · rw [← hi, hz'] at hv1; simp at hv1; omega
        · simp [hi]; exact hv1
  · rw [if_neg hz]
    refine ⟨h.len, h.a, fun i v hv => by have := h.c i v hv; omega, ?_⟩
    intro e' h1 h2 h3
    by_cases hee : e' = e
    · rw [hee, hr]
      have hsome : ∃ v, pos[r.1]? = some v := ⟨pos[r.1], by simp [hlt]⟩
      obtain ⟨v, hv⟩ := hsome
      have hv0 : v ≠ 0 := by intro h0; rw [hv, h0] at hz; simp at hz
      have := h.c r.1 v hv
      exact ⟨v, hv, by omega, by omega⟩
    · exact h.b e' (by omega) h2 h3

theorem posLoop_inv (pat : List Nat) (last ch : Nat) : ∀ (e1 : Nat) (pos : List Nat), e1 ≤ last →
    PosInv pat last ch e1 pos → PosInv pat last ch 0 (posLoop pat last ch e1 pos) := by
  intro e1
  induction e1 with
  | zero => intro pos _ h; exact h
  | succ e ih =>
    intro pos he h
    unfold posLoop
    by_cases hch : (pat[e]? == some ch) = true
    · rw [if_pos hch]
      exact ih _ (by omega) (posInv_step pat last ch e pos (by omega) h (by simpa using hch))
    · rw [if_neg hch]
      apply ih _ (by omega)
      refine ⟨h.len, h.a, fun i v hv => by have := h.c i v hv; omega, ?_⟩
      intro e' h1 h2 h3
      by_cases hee : e' = e
      · subst hee; rw [h3] at hch; simp at hch
      · exact h.b e' (by omega) h2 h3

/-- **the positive table.**  For a non-empty pattern: one entry per pattern index; every entry is at least
    1 and at most `index + 1`; and if, after a mismatch at `mt` with the suffix behind it matched, the
    pattern shifted by `d ≥ 1` is compatible with what was seen (agrees with the matched suffix where it
    overlaps it, and differs from `pattern[mt]` where it overlaps the mismatch), then `positive[mt] ≤ d`. -/
theorem positive_spec (pat : List Nat) (hne : pat ≠ []) :
    (positiveLtr pat).length = pat.length ∧
    (∀ i, i < pat.length → ∃ v, (positiveLtr pat)[i]? = some v ∧ 1 ≤ v ∧ v ≤ i + 1) ∧
    (∀ mt d, mt < pat.length - 1 → 1 ≤ d →
      (∀ j k, mt < j → j ≤ pat.length - 1 → k + d = j → pat[j]? = pat[k]?) →
      (∀ k, k + d = mt → pat[mt]? ≠ pat[k]?) →
      ∃ v, (positiveLtr pat)[mt]? = some v ∧ 1 ≤ v ∧ v ≤ d) := by
  have hlen : 0 < pat.length := List.length_pos_iff.mpr hne
  have hlast : pat[pat.length - 1]? = some (pat[pat.length - 1]'(by omega)) := by
    simp [List.getElem?_eq_getElem, hlen]
  unfold positiveLtr
  simp only [hlast]
  generalize hch : pat[pat.length - 1]'(by omega) = ch at hlast
  have h0 : PosInv pat (pat.length - 1) ch (pat.length - 1) ((List.replicate pat.length 0).set (pat.length - 1) 1) := by
    refine ⟨by simp; omega, ?_, ?_, fun e h1 h2 _ => by omega⟩
    · intro i v hv
      rw [List.getElem?_set] at hv
      by_cases hi : pat.length - 1 = i
      · simp [hi] at hv; omega
      · simp [hi, List.getElem?_replicate] at hv; omega
    · intro i v hv
      rw [List.getElem?_set] at hv
      by_cases hi : pat.length - 1 = i
      · simp [hi] at hv; omega
      · simp [hi, List.getElem?_replicate] at hv; omega
  have hinv := posLoop_inv pat (pat.length - 1) ch (pat.length - 1) _ (Nat.le_refl _) h0
  generalize posLoop pat (pat.length - 1) ch (pat.length - 1) ((List.replicate pat.length 0).set (pat.length - 1) 1) = P at hinv
  have hP : P.length = pat.length := by rw [hinv.len]; omega
  have hfill : ∀ i, i < pat.length → ∃ v, P[i]? = some v ∧
      (P.map fun v => if v == 0 then 1 else v)[i]? = some (if v = 0 then 1 else v) := by
    intro i hi
    refine ⟨P[i]'(by omega), by simp [hP, hi], ?_⟩
    simp [List.getElem?_map, hP, hi]
  refine ⟨by simp [hP], ?_, ?_⟩
  · intro i hi
    obtain ⟨v, hv1, hv2⟩ := hfill i hi
    have := hinv.a i v hv1
    refine ⟨_, hv2, ?_, ?_⟩ <;> split <;> omega
  · intro mt d hmt hd hagree hdis
    obtain ⟨v, hv1, hv2⟩ := hfill mt (by omega)
    have hva := hinv.a mt v hv1
    by_cases hdm : mt + 1 ≤ d
    · refine ⟨_, hv2, ?_, ?_⟩ <;> split <;> omega
    · -- `examine = last - d` carries the tail character and its match ends exactly at `mt`
      have he : pat[pat.length - 1 - d]? = some ch := by
        rw [← hagree (pat.length - 1) (pat.length - 1 - d) (by omega) (Nat.le_refl _) (by omega)]
        exact hlast
      obtain ⟨w, hw1, hw2, hw3⟩ := hinv.b (pat.length - 1 - d) (Nat.zero_le _) (by omega) he
      obtain ⟨x1, x2, x3, x4⟩ := extend_spec pat (pat.length - 1 - d + 1) (pat.length - 1) (by omega)
      generalize extend pat (pat.length - 1) (pat.length - 1 - d + 1) = r at *
      have hr : r.1 = mt := by
        by_cases hgt : mt < r.1
        · exfalso
          rcases x4 with h0' | hne'
          · omega
          · apply hne'
            exact hagree r.1 (r.2 - 1) hgt x1 (by omega)
        · by_cases hlt : r.1 < mt
          · exfalso
            exact hdis (mt - d) (by omega) (x3 mt (mt - d) hlt (by omega) (by omega))
          · omega
      rw [hr] at hw1
      rw [hv1] at hw1
      injection hw1 with hw1
      subst hw1
      refine ⟨_, hv2, ?_, ?_⟩ <;> split <;> omega

/-! ### PART II: the negative table -/

theorem negLoop_spec (pat : List Nat) (last : Nat) : ∀ (e1 : Nat) (tb : List (Nat × Nat)),
    (∀ j c, e1 ≤ j → pat[j]? = some c → ∃ v, tb.lookup c = some v ∧ v ≤ last - j) →
    (∀ c v, tb.lookup c = some v → ∃ j, e1 ≤ j ∧ pat[j]? = some c ∧ v = last - j) →
    (∀ j c, pat[j]? = some c → ∃ v, (negLoop pat last e1 tb).lookup c = some v ∧ v ≤ last - j) ∧
    (∀ c v, (negLoop pat last e1 tb).lookup c = some v → ∃ j, pat[j]? = some c ∧ v = last - j) := by
  intro e1
  induction e1 with
  | zero =>
    intro tb h1 h2
    exact ⟨fun j c hc => h1 j c (Nat.zero_le _) hc, fun c v hv => by
      obtain ⟨j, _, hj⟩ := h2 c v hv; exact ⟨j, hj⟩⟩
  | succ e ih =>
    intro tb h1 h2
    unfold negLoop
    cases hp : pat[e]? with
    | none =>
      simp only []
      apply ih tb
      · intro j c hj hc
        by_cases hje : j = e
        · subst hje; rw [hp] at hc; simp at hc
        · exact h1 j c (by omega) hc
      · intro c v hv
        obtain ⟨j, hj1, hj2⟩ := h2 c v hv
        exact ⟨j, by omega, hj2⟩
    | some ch =>
      simp only []
      by_cases hl : (tb.lookup ch).isNone = true
      · rw [if_pos hl]
        have hl' : tb.lookup ch = none := by simpa using hl
        apply ih
        · intro j c hj hc
          by_cases hcc : c = ch
          · subst hcc
            by_cases hje : j = e
            · subst hje; exact ⟨last - j, by simp [List.lookup], Nat.le_refl _⟩
            · obtain ⟨v, hv, _⟩ := h1 j c (by omega) hc
              rw [hl'] at hv; simp at hv
          · have hje : j ≠ e := by intro h; subst h; rw [hp] at hc; injection hc with hc; exact hcc hc.symm
            obtain ⟨v, hv1, hv2⟩ := h1 j c (by omega) hc
            refine ⟨v, ?_, hv2⟩
            have hb : (c == ch) = false := by simp [hcc]
            simp [List.lookup, hb, hv1]
        · intro c v hv
          by_cases hcc : c = ch
          · subst hcc
            simp [List.lookup] at hv
            exact ⟨e, Nat.le_refl _, hp, hv.symm⟩
          · have hb : (c == ch) = false := by simp [hcc]
            simp [List.lookup, hb] at hv
            obtain ⟨j, hj1, hj2⟩ := h2 c v hv
            exact ⟨j, by omega, hj2⟩
      · rw [if_neg hl]
        apply ih
        · intro j c hj hc
          by_cases hje : j = e
          · subst hje
            rw [hp] at hc; injection hc with hc; subst hc
            cases hv : tb.lookup ch with
            | none => rw [hv] at hl; simp at hl
            | some v =>
              obtain ⟨j', hj1, _, hj3⟩ := h2 ch v hv
              exact ⟨v, rfl, by omega⟩
          · exact h1 j c (by omega) hc
        · intro c v hv
          obtain ⟨j, hj1, hj2⟩ := h2 c v hv
          exact ⟨j, by omega, hj2⟩

/-- the sparse negative table of a pattern -/
theorem neg_spec (pat : List Nat) :
    (∀ j c, pat[j]? = some c → ∃ v, (buildLtr pat).neg.lookup c = some v ∧ v ≤ pat.length - 1 - j) ∧
    (∀ c v, (buildLtr pat).neg.lookup c = some v → ∃ j, pat[j]? = some c ∧ v = pat.length - 1 - j) := by
  apply negLoop_spec pat (pat.length - 1) pat.length []
  · intro j c hj hc
    have : j < pat.length := by
      cases Nat.lt_or_ge j pat.length with
      | inl h => exact h
      | inr h => rw [List.getElem?_eq_none h] at hc; simp at hc
    omega
  · intro c v hv; simp [List.lookup] at hv

/-- **`Scan`'s table lookup.**  A consulted entry is at most the pattern length, at most the distance from
    the tail of every occurrence of the rune in the pattern, and 0 only for the tail rune; when no table
    is consulted the rune does not occur in the pattern. -/
theorem lookup_spec (pat : List Nat) (hne : pat ≠ []) (hbmp : ∀ c, c ∈ pat → c ≤ 0xffff) (ch : Nat) :
    (∀ v, (buildLtr pat).lookup false ch = some v →
      v ≤ pat.length ∧ (∀ j : Nat, pat[j]? = some ch → v ≤ pat.length - 1 - j) ∧ (v = 0 → pat[pat.length - 1]? = some ch)) ∧
    ((buildLtr pat).lookup false ch = none → ∀ j : Nat, pat[j]? ≠ some ch) := by
  have hlen : 0 < pat.length := List.length_pos_iff.mpr hne
  obtain ⟨n1, n2⟩ := neg_spec pat
  have htab : ∀ v, (match (buildLtr pat).neg.lookup ch with | some v => v | none => pat.length) = v →
      v ≤ pat.length ∧ (∀ j : Nat, pat[j]? = some ch → v ≤ pat.length - 1 - j) ∧ (v = 0 → pat[pat.length - 1]? = some ch) := by
    intro v hv
    cases hl : (buildLtr pat).neg.lookup ch with
    | none =>
      rw [hl] at hv; simp only [] at hv; subst hv
      refine ⟨Nat.le_refl _, ?_, by omega⟩
      intro j hj
      obtain ⟨w, hw, _⟩ := n1 j ch hj
      rw [hl] at hw; simp at hw
    | some w =>
      rw [hl] at hv; simp only [] at hv; subst hv
      obtain ⟨j0, hj0, hw⟩ := n2 ch w hl
      refine ⟨by omega, ?_, ?_⟩
      · intro j hj
        obtain ⟨w', hw1, hw2⟩ := n1 j ch hj
        rw [hl] at hw1; injection hw1 with hw1; omega
      · intro h0
        have hj0lt : j0 < pat.length := by
          cases Nat.lt_or_ge j0 pat.length with
          | inl h => exact h
          | inr h => rw [List.getElem?_eq_none h] at hj0; simp at hj0
        have : j0 = pat.length - 1 := by omega
        rw [← this]; exact hj0
  constructor
  · intro v hv
    unfold Core.lookup at hv
    simp only [show (buildLtr pat).pattern = pat from rfl, Bool.false_eq_true, if_false] at hv
    by_cases h128 : ch < 128
    · rw [if_pos h128] at hv; injection hv with hv; exact htab v hv
    · rw [if_neg h128] at hv
      by_cases hc2 : (decide (ch ≤ 0xffff) && (buildLtr pat).hasUnicode) = true
      · rw [if_pos hc2] at hv
        by_cases hpg : (buildLtr pat).hasPage (ch / 256) = true
        · rw [if_pos hpg] at hv; injection hv with hv; exact htab v hv
        · rw [if_neg hpg] at hv; simp at hv
      · rw [if_neg hc2] at hv; simp at hv
  · intro hnone j hj
    have hmem : ch ∈ pat := List.mem_of_getElem? hj
    have hle := hbmp ch hmem
    unfold Core.lookup at hnone
    simp only [show (buildLtr pat).pattern = pat from rfl, Bool.false_eq_true, if_false] at hnone
    by_cases h128 : ch < 128
    · rw [if_pos h128] at hnone; simp at hnone
    · rw [if_neg h128] at hnone
      have hU : (buildLtr pat).hasUnicode = true := by
        simp only [Core.hasUnicode, show (buildLtr pat).pattern = pat from rfl, List.any_eq_true]
        exact ⟨ch, hmem, by simp; omega⟩
      have hPg : (buildLtr pat).hasPage (ch / 256) = true := by
        simp only [Core.hasPage, show (buildLtr pat).pattern = pat from rfl, List.any_eq_true]
        exact ⟨ch, hmem, by simp; omega⟩
      simp [hU, hPg, hle] at hnone

/-! ### `Scan` -/

/-- the pattern occurs at `s` in the text as `Scan` reads it (`T i` = `text[i]`, lower-cased when
    case-insensitive) -/
def Occ (pat : List Nat) (T : Nat → Option Nat) (s : Nat) : Prop :=
  ∀ j, j < pat.length → T (s + j) = pat[j]?

/-- the inner loop of `Scan`: either everything down to the head matched, or it stopped at the first
    disagreement `mt` (from the tail) with the text character `ch` there -/
theorem inner_spec (pat : List Nat) (T : Nat → Option Nat) : ∀ (mt t2 : Nat), mt ≤ t2 →
    match inner pat T mt t2 with
    | .found r => r + mt = t2 ∧ ∀ j i, j < mt → i + mt = t2 + j → T i = pat[j]?
    | .mismatch m ch => m < mt ∧ (∀ j i, m < j → j < mt → i + mt = t2 + j → T i = pat[j]?) ∧
        (∀ i, i + mt = t2 + m → T i = some ch) ∧ some ch ≠ pat[m]?
    | .panic => ∃ i, i < t2 ∧ T i = none := by
  intro mt
  induction mt with
  | zero => intro t2 _; simp [inner]
  | succ mt ih =>
    intro t2 h
    unfold inner
    cases hT : T (t2 - 1) with
    | none => exact ⟨t2 - 1, by omega, hT⟩
    | some ch =>
      simp only []
      by_cases hne : (some ch != pat[mt]?) = true
      · rw [if_pos hne]
        refine ⟨by omega, fun j i h1 h2 _ => by omega, ?_, by simpa using hne⟩
        intro i hi
        have : i = t2 - 1 := by omega
        rw [this]; exact hT
      · rw [if_neg hne]
        have heq : some ch = pat[mt]? := by simpa using hne
        have := ih (t2 - 1) (by omega)
        cases hin : inner pat T mt (t2 - 1) with
        | found r =>
          rw [hin] at this
          obtain ⟨h1, h2⟩ := this
          refine ⟨by omega, ?_⟩
          intro j i hj hi
          by_cases hjm : j = mt
          · have : i = t2 - 1 := by omega
            rw [this, hT, hjm]; exact heq
          · exact h2 j i (by omega) (by omega)
        | mismatch m c2 =>
          rw [hin] at this
          obtain ⟨h1, h2, h3, h4⟩ := this
          refine ⟨by omega, ?_, fun i hi => h3 i (by omega), h4⟩
          intro j i hj1 hj2 hi
          by_cases hjm : j = mt
          · have : i = t2 - 1 := by omega
            rw [this, hT, hjm]; exact heq
          · exact h2 j i hj1 (by omega) (by omega)
        | panic =>
          rw [hin] at this
          obtain ⟨i, hi1, hi2⟩ := this
          exact ⟨i, by omega, hi2⟩

/-- what the outer loop of `Scan` establishes from `test` on (tail positions): a returned start is an
    occurrence whose tail lies in `[test, endlimit)` and no tail position before it carries an occurrence;
    `-1` means no tail position in `[test, endlimit)` carries one -/
theorem scanLoop_spec (pat : List Nat) (hne : pat ≠ []) (hbmp : ∀ c, c ∈ pat → c ≤ 0xffff)
    (T : Nat → Option Nat) (beglimit endlimit : Nat) (hT : ∀ i, i < endlimit → T i ≠ none) :
    ∀ (fuel test : Nat), pat.length - 1 ≤ test → endlimit < test + fuel → beglimit ≤ test →
      match scanLoop (buildLtr pat) false T beglimit endlimit fuel test with
      | some s => ∃ t, test ≤ t ∧ t < endlimit ∧ s + (pat.length - 1) = t ∧ Occ pat T s ∧
          ∀ s', test ≤ s' + (pat.length - 1) → s' < s → ¬ Occ pat T s'
      | none => ∀ s', test ≤ s' + (pat.length - 1) → s' + (pat.length - 1) < endlimit → ¬ Occ pat T s' := by
  have hlen : 0 < pat.length := List.length_pos_iff.mpr hne
  obtain ⟨_, hpos, hgs⟩ := positive_spec pat hne
  intro fuel
  induction fuel with
  | zero => intro test _ h _; simp only [scanLoop]; intro s' h1 h2; omega
  | succ fuel ih =>
    intro test hlast hfuel hbeg
    unfold scanLoop
    simp only [show (buildLtr pat).pattern = pat from rfl, show (buildLtr pat).positive = positiveLtr pat from rfl]
    by_cases hout : (decide (endlimit ≤ test) || decide (test < beglimit)) = true
    · rw [if_pos hout]
      simp only [Bool.or_eq_true, decide_eq_true_eq] at hout
      intro s' h1 h2; omega
    · rw [if_neg hout]
      simp only [Bool.or_eq_true, decide_eq_true_eq, not_or, Nat.not_le, Nat.not_lt] at hout
      cases hTt : T test with
      | none => exact absurd hTt (hT test hout.1)
      | some chTest =>
        simp only []
        -- extending the claim of the recursive call over the skipped tail positions
        have hext : ∀ a, 1 ≤ a →
            (∀ s', test ≤ s' + (pat.length - 1) → s' + (pat.length - 1) < test + a → ¬ Occ pat T s') →
            match scanLoop (buildLtr pat) false T beglimit endlimit fuel (test + a) with
            | some s => ∃ t, test ≤ t ∧ t < endlimit ∧ s + (pat.length - 1) = t ∧ Occ pat T s ∧
                ∀ s', test ≤ s' + (pat.length - 1) → s' < s → ¬ Occ pat T s'
            | none => ∀ s', test ≤ s' + (pat.length - 1) → s' + (pat.length - 1) < endlimit → ¬ Occ pat T s' := by
          intro a ha hskip
          have := ih (test + a) (by omega) (by omega) (by omega)
          cases hr : scanLoop (buildLtr pat) false T beglimit endlimit fuel (test + a) with
          | none =>
            rw [hr] at this
            intro s' h1 h2
            by_cases hlt : s' + (pat.length - 1) < test + a
            · exact hskip s' h1 hlt
            · exact this s' (by omega) h2
          | some s =>
            rw [hr] at this
            obtain ⟨t, h1, h2, h3, h4, h5⟩ := this
            refine ⟨t, by omega, h2, h3, h4, ?_⟩
            intro s' hs1 hs2
            by_cases hlt : s' + (pat.length - 1) < test + a
            · exact hskip s' hs1 hlt
            · exact h5 s' (by omega) hs2
        obtain ⟨hl1, hl2⟩ := lookup_spec pat hne hbmp chTest
        by_cases hne1 : (some chTest != pat[pat.length - 1]?) = true
        · rw [if_pos hne1]
          have hne1' : some chTest ≠ pat[pat.length - 1]? := by simpa using hne1
          -- the bad-character advance
          have hskip : ∀ a, a ≤ pat.length → (∀ j : Nat, pat[j]? = some chTest → a ≤ pat.length - 1 - j) →
              ∀ s', test ≤ s' + (pat.length - 1) → s' + (pat.length - 1) < test + a → ¬ Occ pat T s' := by
            intro a ha1 ha2 s' h1 h2 hocc
            -- the text character at `test` sits under pattern index `test - s'` of that occurrence
            have hj := hocc (test - s') (by omega)
            rw [show s' + (test - s') = test by omega, hTt] at hj
            have := ha2 (test - s') hj.symm
            omega
          cases hl : (buildLtr pat).lookup false chTest with
          | none =>
            simp only []
            exact hext pat.length hlen (hskip pat.length (Nat.le_refl _) (fun j hj => absurd hj (hl2 hl j)))
          | some v =>
            simp only []
            obtain ⟨x1, x2, x3⟩ := hl1 v hl
            have hv1 : 1 ≤ v := by
              cases Nat.eq_zero_or_pos v with
              | inl h0 => exact absurd (x3 h0).symm hne1'
              | inr h => exact h
            exact hext v hv1 (hskip v x1 x2)
        · rw [if_neg hne1]
          have heq1 : some chTest = pat[pat.length - 1]? := by simpa using hne1
          have hin := inner_spec pat T (pat.length - 1) test hlast
          cases hi : inner pat T (pat.length - 1) test with
          | found r =>
            rw [hi] at hin
            simp only []
            obtain ⟨h1, h2⟩ := hin
            refine ⟨test, Nat.le_refl _, hout.1, h1, ?_, fun s' hs1 hs2 => by omega⟩
            intro j hj
            by_cases hjl : j = pat.length - 1
            · rw [hjl, show r + (pat.length - 1) = test by omega, hTt]; exact heq1
            · exact h2 j (r + j) (by omega) (by omega)
          | panic =>
            rw [hi] at hin
            obtain ⟨i, hi1, hi2⟩ := hin
            exact absurd hi2 (hT i (by omega))
          | mismatch mt ch =>
            rw [hi] at hin
            simp only []
            obtain ⟨hm1, hm2, hm3, hm4⟩ := hin
            obtain ⟨p, hp1, hp2, hp3⟩ := hpos mt (by omega)
            rw [hp1]
            simp only []
            obtain ⟨hc1, hc2⟩ := lookup_spec pat hne hbmp ch
            -- whatever the advance is, it is positive and no later occurrence needs less
            have hkey : ∀ s', test < s' + (pat.length - 1) → Occ pat T s' →
                p ≤ s' + (pat.length - 1) - test ∧
                ∀ v, (buildLtr pat).lookup false ch = some v → mt + v - (pat.length - 1) ≤ s' + (pat.length - 1) - test := by
              intro s' hs hocc
              constructor
              · obtain ⟨v, hv1, hv2, hv3⟩ := hgs mt (s' + (pat.length - 1) - test) hm1 (by omega)
                  (by
                    intro j k hj1 hj2 hk
                    have e1 : T (test + j - (pat.length - 1)) = pat[j]? := by
                      by_cases hjl : j = pat.length - 1
                      · rw [hjl, show test + (pat.length - 1) - (pat.length - 1) = test by omega, hTt]; exact heq1
                      · exact hm2 j _ hj1 (by omega) (by omega)
                    have e2 := hocc k (by omega)
                    rw [show s' + k = test + j - (pat.length - 1) by omega] at e2
                    rw [← e1, e2])
                  (by
                    intro k hk heq
                    have e1 := hm3 (test + mt - (pat.length - 1)) (by omega)
                    have e2 := hocc k (by omega)
                    rw [show s' + k = test + mt - (pat.length - 1) by omega, e1] at e2
                    exact hm4 (by rw [e2, heq]))
                rw [hp1] at hv1; injection hv1 with hv1; omega
              · intro v hv
                obtain ⟨x1, x2, _⟩ := hc1 v hv
                by_cases hd : s' + (pat.length - 1) - test ≤ mt
                · have e1 := hm3 (test + mt - (pat.length - 1)) (by omega)
                  have e2 := hocc (mt - (s' + (pat.length - 1) - test)) (by omega)
                  rw [show s' + (mt - (s' + (pat.length - 1) - test)) = test + mt - (pat.length - 1) by omega, e1] at e2
                  have := x2 _ e2.symm
                  omega
                · omega
            have hzero : ¬ Occ pat T (test - (pat.length - 1)) := by
              intro hocc
              have e1 := hm3 (test + mt - (pat.length - 1)) (by omega)
              have e2 := hocc mt (by omega)
              rw [show test - (pat.length - 1) + mt = test + mt - (pat.length - 1) by omega, e1] at e2
              exact hm4 e2
            cases hl : (buildLtr pat).lookup false ch with
            | none =>
              simp only []
              apply hext p hp2
              intro s' h1 h2 hocc
              by_cases h0 : s' + (pat.length - 1) = test
              · exact hzero (by rwa [show test - (pat.length - 1) = s' by omega])
              · have := (hkey s' (by omega) hocc).1
                omega
            | some v =>
              simp only []
              apply hext (max p (mt + v - (pat.length - 1))) (by omega)
              intro s' h1 h2 hocc
              by_cases h0 : s' + (pat.length - 1) = test
              · exact hzero (by rwa [show test - (pat.length - 1) = s' by omega])
              · obtain ⟨k1, k2⟩ := hkey s' (by omega) hocc
                have := k2 v hl
                omega

/-- **`Scan`, left-to-right instance.**  A returned index is an occurrence at or after `index` that ends
    inside the window, and the first such; `-1` means there is none. -/
theorem scanLtr_spec (pat : List Nat) (hne : pat ≠ []) (hbmp : ∀ c, c ∈ pat → c ≤ 0xffff)
    (T : Nat → Option Nat) (index beglimit endlimit : Nat) (hT : ∀ i, i < endlimit → T i ≠ none)
    (hbeg : beglimit ≤ index) :
    match scanLtr (buildLtr pat) false T index beglimit endlimit with
    | some s => index ≤ s ∧ s + pat.length ≤ endlimit ∧ Occ pat T s ∧ ∀ s', index ≤ s' → s' < s → ¬ Occ pat T s'
    | none => ∀ s', index ≤ s' → s' + pat.length ≤ endlimit → ¬ Occ pat T s' := by
  have hlen : 0 < pat.length := List.length_pos_iff.mpr hne
  have := scanLoop_spec pat hne hbmp T beglimit endlimit hT (endlimit + 1) (index + pat.length - 1)
    (by omega) (by omega) (by omega)
  unfold scanLtr
  simp only [show (buildLtr pat).pattern = pat from rfl]
  cases hr : scanLoop (buildLtr pat) false T beglimit endlimit (endlimit + 1) (index + pat.length - 1) with
  | none =>
    rw [hr] at this
    intro s' h1 h2
    exact this s' (by omega) (by omega)
  | some s =>
    rw [hr] at this
    obtain ⟨t, h1, h2, h3, h4, h5⟩ := this
    exact ⟨by omega, by omega, h4, fun s' hs1 hs2 => h5 s' (by omega) hs2⟩

end RegexVerif.Lemmas.BoyerMoore
