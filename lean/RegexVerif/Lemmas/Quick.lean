/-
The bool-only program agrees with the full one (property C02, part A): stripping the capture groups
that the pattern never reads back changes nothing in the ordered list of successes except that the
capture log no longer contains the stripped groups.
-/
import RegexVerif.Model.Quick
import RegexVerif.Lemmas.SpecMirror

namespace RegexVerif.Spec

/-! ## erasing -/

@[simp] theorem eraseCaps_pos (keep : Nat → Bool) (st : St) : (eraseCaps keep st).pos = st.pos := rfl

@[simp] theorem eraseCaps_caps (keep : Nat → Bool) (st : St) :
    (eraseCaps keep st).caps = st.caps.filter (fun c => kept keep c.1) := rfl

theorem eraseCaps_nil (keep : Nat → Bool) (i : Nat) : eraseCaps keep { pos := i, caps := [] } = { pos := i, caps := [] } := rfl

@[simp] theorem kept_zero (keep : Nat → Bool) : kept keep 0 = true := rfl

theorem kept_of_keep {keep : Nat → Bool} {g : Nat} (h : keep g = true) : kept keep g = true := by
  simp [kept, h]

/-- the last capture of a kept group survives erasing -/
theorem lastCap_filter (keep : Nat → Bool) (caps : List (Nat × Nat × Nat)) (g : Nat) (hg : kept keep g = true) :
    lastCap (caps.filter (fun c => kept keep c.1)) g = lastCap caps g := by
  unfold lastCap
  congr 1
  rw [← List.filter_reverse]
  generalize caps.reverse = l
  induction l with
  | nil => rfl
  | cons c l ih =>
    by_cases hk : kept keep c.1 = true
    · rw [List.filter_cons_of_pos (p := fun c : Nat × Nat × Nat => kept keep c.1) hk, List.find?_cons, List.find?_cons, ih]
    · rw [List.filter_cons_of_neg (p := fun c : Nat × Nat × Nat => kept keep c.1) hk, List.find?_cons, ih]
      have hc : (c.1 == g) = false := by
        rw [beq_eq_false_iff_ne]; intro hc; rw [hc] at hk; exact hk hg
      rw [hc]

/-- "group `g` has captured" survives erasing for a kept group -/
theorem hasCap_filter (keep : Nat → Bool) (caps : List (Nat × Nat × Nat)) (g : Nat) (hg : kept keep g = true) :
    hasCap (caps.filter (fun c => kept keep c.1)) g = hasCap caps g := by
  unfold hasCap
  induction caps with
  | nil => rfl
  | cons c l ih =>
    by_cases hk : kept keep c.1 = true
    · rw [List.filter_cons_of_pos (p := fun c : Nat × Nat × Nat => kept keep c.1) hk, List.any_cons, List.any_cons, ih]
    · rw [List.filter_cons_of_neg (p := fun c : Nat × Nat × Nat => kept keep c.1) hk, List.any_cons, ih]
      have hc : (c.1 == g) = false := by
        rw [beq_eq_false_iff_ne]; intro hc; rw [hc] at hk; exact hk hg
      rw [hc, Bool.false_or]

/-! ## loops -/

/-- a loop whose body commutes with a position-preserving map commutes with it -/
theorem iter_map_comm (φ : St → St) (f g : St → List St)
    (hfg : ∀ st, g (φ st) = (f st).map φ) (hpos : ∀ st, (φ st).pos = st.pos)
    (lzy : Bool) (lo : Nat) (hi : Option Nat) (fuel cnt : Nat) (st : St) :
    iter g lzy lo hi fuel cnt (φ st) = (iter f lzy lo hi fuel cnt st).map φ :=
  (iter_map_conj (fun _ => True) φ f g (fun _ _ _ _ => trivial) (fun s _ => (hfg s).symm)
    (fun s s' _ _ => by rw [hpos, hpos]) lzy lo hi fuel cnt st trivial).symm

/-! ## the theorem -/

/-- **the bool-only program agrees with the full one** (list-of-successes form) -/
theorem m_strip (e : Env) (keep : Nat → Bool) (p : Pat) (h : ∀ g ∈ refsOf p, kept keep g = true) :
    ∀ (rtl : Bool) (st : St),
      m e (stripCaps keep p) rtl (eraseCaps keep st) = (m e p rtl st).map (eraseCaps keep) := by
  induction p with
  | empty => intro rtl st; rfl
  | nothing => intro rtl st; rfl
  | chr p =>
    intro rtl st
    simp only [m, stripCaps, eraseCaps_pos]
    cases stepChar e rtl st.pos with
    | none => rfl
    | some x =>
      obtain ⟨r, q⟩ := x
      simp only
      cases p.test e r <;> rfl
  | anchor a =>
    intro rtl st
    simp only [m, stripCaps, eraseCaps_pos]
    by_cases ha : anchorHolds e a st.pos = true <;> simp [ha]
  | seq a b iha ihb =>
    intro rtl st
    have ha := iha (fun g hg => h g (by simp [refsOf, hg]))
    have hb := ihb (fun g hg => h g (by simp [refsOf, hg]))
    cases rtl with
    | true =>
      simp only [m, stripCaps, if_true]
      rw [hb true st, List.map_flatMap, List.flatMap_map]
      exact flatMap_congr_mem _ _ _ (fun x _ => ha true x)
    | false =>
      simp only [m, stripCaps, Bool.false_eq_true, if_false]
      rw [ha false st, List.map_flatMap, List.flatMap_map]
      exact flatMap_congr_mem _ _ _ (fun x _ => hb false x)
  | alt a b iha ihb =>
    intro rtl st
    have ha := iha (fun g hg => h g (by simp [refsOf, hg]))
    have hb := ihb (fun g hg => h g (by simp [refsOf, hg]))
    simp only [m, stripCaps, List.map_append, ha rtl st, hb rtl st]
  | quant lzy lo hi body ih =>
    intro rtl st
    have hb := ih (fun g hg => h g (by simpa [refsOf] using hg))
    simp only [m, stripCaps]
    exact iter_map_comm (eraseCaps keep) _ _ (fun s => hb rtl s) (fun _ => rfl) lzy lo hi _ 0 st
  | cap g body ih =>
    intro rtl st
    have hb := ih (fun g' hg => h g' (by simpa [refsOf] using hg))
    by_cases hk : kept keep g = true
    · simp only [stripCaps, hk, if_true, m]
      rw [hb rtl st, List.map_map, List.map_map]
      apply List.map_congr_left
      intro y _
      simp [Function.comp, eraseCaps, List.filter_append, hk]
    · simp only [stripCaps, hk, m, Bool.false_eq_true, if_false]
      rw [hb rtl st, List.map_map]
      apply List.map_congr_left
      intro y _
      simp [Function.comp, eraseCaps, List.filter_append, hk]
  | look behind neg body ih =>
    intro rtl st
    have hb := ih (fun g hg => h g (by simpa [refsOf] using hg))
    simp only [m, stripCaps]
    rw [hb behind st]
    cases m e body behind st with
    | nil => cases neg <;> rfl
    | cons y ys => cases neg <;> rfl
  | atomic body ih =>
    intro rtl st
    have hb := ih (fun g hg => h g (by simpa [refsOf] using hg))
    simp only [m, stripCaps]
    rw [hb rtl st, List.map_take]
  | ref g ci =>
    intro rtl st
    have hg : kept keep g = true := h g (by simp [refsOf])
    simp only [m, stripCaps, eraseCaps_caps, eraseCaps_pos, lastCap_filter keep st.caps g hg]
    cases lastCap st.caps g with
    | none => rfl
    | some x =>
      obtain ⟨s, len⟩ := x
      simp only
      cases refMatch e ci rtl s len st.pos with
      | none => rfl
      | some q => rfl
  | refCond g yes no ihy ihn =>
    intro rtl st
    have hg : kept keep g = true := h g (by simp [refsOf])
    have hy := ihy (fun g' hg' => h g' (by simp [refsOf, hg']))
    have hn := ihn (fun g' hg' => h g' (by simp [refsOf, hg']))
    simp only [m, stripCaps, eraseCaps_caps, hasCap_filter keep st.caps g hg]
    split
    · exact hy rtl st
    · exact hn rtl st
  | exprCond c yes no ihc ihy ihn =>
    intro rtl st
    have hc := ihc (fun g' hg' => h g' (by simp [refsOf, hg']))
    have hy := ihy (fun g' hg' => h g' (by simp [refsOf, hg']))
    have hn := ihn (fun g' hg' => h g' (by simp [refsOf, hg']))
    simp only [m, stripCaps]
    rw [hc rtl st]
    cases m e c rtl st with
    | nil => exact hn rtl st
    | cons y ys => exact hy rtl { pos := st.pos, caps := y.caps }

/-! ## attempts and finds -/

theorem findSome?_map_comm {α β γ : Type} (φ : β → γ) (f : α → Option γ) (g : α → Option β)
    (h : ∀ x, f x = (g x).map φ) (l : List α) : l.findSome? f = (l.findSome? g).map φ := by
  induction l with
  | nil => rfl
  | cons a l ih =>
    simp only [List.findSome?_cons, h a]
    cases g a with
    | none => simpa using ih
    | some y => rfl

/-- one attempt of the bool-only program: the attempt of the full program with the stripped groups
    erased from its capture log -/
theorem attempt_strip (e : Env) (keep : Nat → Bool) (p : Pat) (h : ∀ g ∈ refsOf p, kept keep g = true)
    (rtl : Bool) (i : Nat) :
    attempt e (stripCaps keep p) rtl i = (attempt e p rtl i).map (eraseCaps keep) := by
  unfold attempt
  have := m_strip e keep (.cap 0 p) (by simpa [refsOf] using h) rtl { pos := i, caps := [] }
  simp only [stripCaps, kept_zero, if_true, eraseCaps_nil] at this
  rw [this, List.head?_map]

theorem find_strip (e : Env) (keep : Nat → Bool) (p : Pat) (h : ∀ g ∈ refsOf p, kept keep g = true)
    (rtl : Bool) (start : Nat) :
    find e (stripCaps keep p) rtl start = (find e p rtl start).map (eraseCaps keep) := by
  unfold find
  exact findSome?_map_comm _ _ _ (fun i => attempt_strip e keep p h rtl i) _

/-! ## the slots in use -/

theorem slotsInUse_refs (p : Pat) : ∀ g ∈ refsOf p, kept (inUse (slotsInUse p)) g = true := by
  intro g hg
  apply kept_of_keep
  simp [inUse, slotsInUse, hg]

/-- stripping nothing: when every capturing group of the pattern is kept, the pattern is unchanged -/
theorem stripCaps_id (keep : Nat → Bool) (p : Pat) (h : ∀ g ∈ capsOf p, kept keep g = true) :
    stripCaps keep p = p := by
  induction p with
  | empty => rfl
  | nothing => rfl
  | chr p => rfl
  | anchor a => rfl
  | seq a b iha ihb =>
    simp only [stripCaps, iha (fun g hg => h g (by simp [capsOf, hg])), ihb (fun g hg => h g (by simp [capsOf, hg]))]
  | alt a b iha ihb =>
    simp only [stripCaps, iha (fun g hg => h g (by simp [capsOf, hg])), ihb (fun g hg => h g (by simp [capsOf, hg]))]
  | quant lzy lo hi body ih => simp only [stripCaps, ih (fun g hg => h g (by simpa [capsOf] using hg))]
  | cap g body ih =>
    simp only [stripCaps, h g (by simp [capsOf]), if_true, ih (fun g' hg => h g' (by simp [capsOf, hg]))]
  | look behind neg body ih => simp only [stripCaps, ih (fun g hg => h g (by simpa [capsOf] using hg))]
  | atomic body ih => simp only [stripCaps, ih (fun g hg => h g (by simpa [capsOf] using hg))]
  | ref g ci => rfl
  | refCond g yes no ihy ihn =>
    simp only [stripCaps, ihy (fun g hg => h g (by simp [capsOf, hg])), ihn (fun g hg => h g (by simp [capsOf, hg]))]
  | exprCond c yes no ihc ihy ihn =>
    simp only [stripCaps, ihc (fun g hg => h g (by simp [capsOf, hg])), ihy (fun g hg => h g (by simp [capsOf, hg])),
      ihn (fun g hg => h g (by simp [capsOf, hg]))]

end RegexVerif.Spec
