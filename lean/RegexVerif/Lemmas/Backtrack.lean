/-
`run_eq`: the executable backtracking matcher returns exactly the first success (in priority
order) of the specification that the continuation accepts.
-/
import RegexVerif.Model.Backtrack

namespace RegexVerif.Spec

theorem findSome?_flatMap' {α β γ : Type} (l : List α) (f : α → List β) (k : β → Option γ) :
    (l.flatMap f).findSome? k = l.findSome? (fun x => (f x).findSome? k) := by
  induction l with
  | nil => rfl
  | cons x xs ih =>
    simp only [List.flatMap_cons, List.findSome?_append, List.findSome?_cons, ih]
    cases (f x).findSome? k <;> rfl

theorem findSome?_some_eq_head? {α : Type} (l : List α) : l.findSome? some = l.head? := by
  cases l <;> rfl

theorem findSome?_ite_nil {α β : Type} (c : Prop) [Decidable c] (x : α) (k : α → Option β) :
    (if c then [x] else []).findSome? k = if c then k x else none := by
  split <;> simp

theorem orElse_eq {α : Type} (a : Option α) (b : Unit → Option α) :
    a.orElse b = match a with | some x => some x | none => b () := by
  cases a <;> rfl

/-- the loop driver: continuation-passing = list of successes -/
theorem iterK_eq {α : Type} (f : St → (St → Option α) → Option α) (g : St → List St)
    (hfg : ∀ st k, f st k = (g st).findSome? k) (lzy : Bool) (lo : Nat) (hi : Option Nat) :
    ∀ (fuel cnt : Nat) (st : St) (k : St → Option α),
      iterK f lzy lo hi fuel cnt st k = (iter g lzy lo hi fuel cnt st).findSome? k := by
  intro fuel
  induction fuel with
  | zero => intro cnt st k; simp only [iterK, iter, findSome?_ite_nil]
  | succ fuel ih =>
    intro cnt st k
    simp only [iterK, iter]
    have hmore : (if canGo hi cnt = true then
          f st (fun st' => if (st'.pos == st.pos && decide (lo ≤ cnt + 1)) = true then k st'
            else iterK f lzy lo hi fuel (cnt + 1) st' k) else none)
        = (if canGo hi cnt = true then
            (g st).flatMap (fun st' => if (st'.pos == st.pos && decide (lo ≤ cnt + 1)) = true then [st']
              else iter g lzy lo hi fuel (cnt + 1) st') else []).findSome? k := by
      split
      · rw [hfg, findSome?_flatMap']
        congr 1
        funext st'
        split
        · simp
        · exact ih (cnt + 1) st' k
      · rfl
    cases lzy
    · simp only [Bool.false_eq_true, if_false]
      rw [List.findSome?_append, findSome?_ite_nil, ← hmore]
      generalize (if canGo hi cnt = true then
          f st (fun st' => if (st'.pos == st.pos && decide (lo ≤ cnt + 1)) = true then k st'
            else iterK f false lo hi fuel (cnt + 1) st' k) else none) = A
      cases A <;> rfl
    · simp only [if_true]
      rw [List.findSome?_append, findSome?_ite_nil, ← hmore]
      generalize (if lo ≤ cnt then k st else none) = A
      cases A <;> rfl

/-- **the executable matcher computes the specification**: for every continuation `k` (any result
    type), `run` returns `k` applied to the first success in priority order that `k` accepts. -/
theorem run_eq (e : Env) (p : Pat) :
    ∀ (rtl : Bool) {α : Type} (st : St) (k : St → Option α), run e p rtl st k = (m e p rtl st).findSome? k := by
  induction p with
  | empty => intro rtl α st k; simp [run, m]
  | nothing => intro rtl α st k; simp [run, m]
  | chr p =>
    intro rtl α st k
    simp only [run, m]
    cases hstep : stepChar e rtl st.pos with
    | none => simp
    | some x =>
      obtain ⟨r, pos'⟩ := x
      simp only []
      split <;> simp
  | anchor a =>
    intro rtl α st k
    simp only [run, m]
    split <;> simp
  | seq a b iha ihb =>
    intro rtl α st k
    simp only [run, m]
    split
    · rw [ihb, findSome?_flatMap']; congr 1; funext st'; exact iha rtl st' k
    · rw [iha, findSome?_flatMap']; congr 1; funext st'; exact ihb rtl st' k
  | alt a b iha ihb =>
    intro rtl α st k
    simp only [run, m, List.findSome?_append, orElse_eq, iha, ihb]
    cases (List.findSome? k (m e a rtl st)) <;> rfl
  | quant lzy lo hi body ih =>
    intro rtl α st k
    simp only [run, m]
    exact iterK_eq _ (m e body rtl) (fun st k => ih rtl st k) lzy lo hi _ 0 st k
  | cap g body ih =>
    intro rtl α st k
    simp only [run, m, ih, List.findSome?_map]
    rfl
  | look behind neg body ih =>
    intro rtl α st k
    simp only [run, m]
    rw [ih behind st some, findSome?_some_eq_head?]
    cases hm : m e body behind st with
    | nil => simp only [List.head?_nil]; split <;> simp
    | cons y ys => simp only [List.head?_cons]; split <;> simp
  | atomic body ih =>
    intro rtl α st k
    simp only [run, m]
    rw [ih rtl st some, findSome?_some_eq_head?]
    cases hm : m e body rtl st with
    | nil => simp
    | cons y ys => simp
  | ref g ci =>
    intro rtl α st k
    simp only [run, m]
    cases hl : lastCap st.caps g with
    | none => simp
    | some x =>
      obtain ⟨s, len⟩ := x
      simp only []
      cases hr : refMatch e ci rtl s len st.pos with
      | none => simp
      | some pos' => simp
  | refCond g yes no ihy ihn =>
    intro rtl α st k
    simp only [run, m]
    split
    · exact ihy rtl st k
    · exact ihn rtl st k
  | exprCond c yes no ihc ihy ihn =>
    intro rtl α st k
    simp only [run, m]
    rw [ihc rtl st some, findSome?_some_eq_head?]
    cases hm : m e c rtl st with
    | nil => simp only [List.head?_nil]; exact ihn rtl st k
    | cons y ys => simp only [List.head?_cons]; exact ihy rtl _ k

theorem attemptRun_eq (e : Env) (p : Pat) (rtl : Bool) (i : Nat) : attemptRun e p rtl i = attempt e p rtl i := by
  unfold attemptRun attempt
  rw [run_eq, findSome?_some_eq_head?]

theorem findRun_eq (e : Env) (p : Pat) (rtl : Bool) (start : Nat) : findRun e p rtl start = find e p rtl start := by
  unfold findRun find
  congr 1
  funext i
  exact attemptRun_eq e p rtl i

end RegexVerif.Spec
