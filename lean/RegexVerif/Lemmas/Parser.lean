/-
Lemmas about the parser model (`Model/Parser.lean`): a weakest-precondition calculus for the monad
`M`, the specification of every scanner ("advances, stays inside the pattern, touches only
position / options / capture tables, never faults"), and the progress of the two outer loops.
Used by `Props/C10Parser.lean` (`parse_total`).
-/
import RegexVerif.Model.Parser

namespace RegexVerif.Parser

variable {α β γ : Type}

/-! ## Weakest preconditions -/

/-- `m` started in `s` returns normally into `Q`, or with a Go error into `R`; never a fault, never
    out of fuel -/
def wp (m : M α) (Q : α → PS → Prop) (R : PS → Prop) (s : PS) : Prop :=
  match m s with
  | .ok a s' => Q a s'
  | .err _ s' => R s'
  | .fault _ => False
  | .fuel => False

theorem wp_mono {m : M α} {Q Q' : α → PS → Prop} {R R' : PS → Prop} {s : PS}
    (h : wp m Q R s) (hq : ∀ a s', Q a s' → Q' a s') (hr : ∀ s', R s' → R' s') : wp m Q' R' s := by
  unfold wp at *
  split <;> simp_all

@[simp] theorem wp_pure (a : α) (Q : α → PS → Prop) (R : PS → Prop) (s : PS) :
    wp (pure a : M α) Q R s ↔ Q a s := Iff.rfl

@[simp] theorem wp_bind (m : M α) (f : α → M β) (Q : β → PS → Prop) (R : PS → Prop) (s : PS) :
    wp (m >>= f) Q R s ↔ wp m (fun a s' => wp (f a) Q R s') R s := by
  show wp (M.bind m f) Q R s ↔ _
  unfold wp M.bind
  cases h : m s <;> simp

@[simp] theorem wp_get (Q : PS → PS → Prop) (R : PS → Prop) (s : PS) : wp get Q R s ↔ Q s s := Iff.rfl
@[simp] theorem wp_modify (f : PS → PS) (Q : Unit → PS → Prop) (R : PS → Prop) (s : PS) :
    wp (modify f) Q R s ↔ Q () (f s) := Iff.rfl
@[simp] theorem wp_throw (c : ErrCode) (Q : α → PS → Prop) (R : PS → Prop) (s : PS) :
    wp (throw c : M α) Q R s ↔ R s := Iff.rfl
@[simp] theorem wp_fault (f : Fault) (Q : α → PS → Prop) (R : PS → Prop) (s : PS) :
    wp (fault f : M α) Q R s ↔ False := Iff.rfl

@[simp] theorem wp_ite (c : Prop) [Decidable c] (a b : M α) (Q : α → PS → Prop) (R : PS → Prop) (s : PS) :
    wp (if c then a else b) Q R s ↔ (c → wp a Q R s) ∧ (¬c → wp b Q R s) := by
  split <;> simp_all

theorem wp_attempt (m : M α) (Q : Except ErrCode α → PS → Prop) (R : PS → Prop) (s : PS)
    (h : wp m (fun a s' => Q (.ok a) s') (fun s' => ∀ c, Q (.error c) s') s) : wp (attempt m) Q R s := by
  unfold wp attempt at *
  cases hm : m s <;> simp_all

theorem wp_ignoreErr (m : M α) (Q : Unit → PS → Prop) (R : PS → Prop) (s : PS)
    (h : wp m (fun _ s' => Q () s') (fun s' => Q () s') s) : wp (ignoreErr m) Q R s := by
  unfold ignoreErr
  rw [wp_bind]
  apply wp_attempt
  exact wp_mono h (fun _ _ h => h) (fun _ h _ => h)

/-! ## Position primitives -/

section
variable (E : Env)

@[simp] theorem wp_charsRight (Q : Nat → PS → Prop) (R : PS → Prop) (s : PS) :
    wp (charsRight E) Q R s ↔ Q (E.pat.length - s.pos) s := Iff.rfl
@[simp] theorem wp_textpos (Q : Nat → PS → Prop) (R : PS → Prop) (s : PS) : wp textpos Q R s ↔ Q s.pos s := Iff.rfl
@[simp] theorem wp_textto (p : Nat) (Q : Unit → PS → Prop) (R : PS → Prop) (s : PS) :
    wp (textto p) Q R s ↔ Q () { s with pos := p } := Iff.rfl
@[simp] theorem wp_moveRight (i : Nat) (Q : Unit → PS → Prop) (R : PS → Prop) (s : PS) :
    wp (moveRight i) Q R s ↔ Q () { s with pos := s.pos + i } := Iff.rfl
@[simp] theorem wp_moveLeft (Q : Unit → PS → Prop) (R : PS → Prop) (s : PS) :
    wp moveLeft Q R s ↔ 0 < s.pos ∧ Q () { s with pos := s.pos - 1 } := by
  unfold wp moveLeft
  by_cases h : s.pos = 0 <;> simp [h]; omega
@[simp] theorem wp_rightChar (i : Nat) (Q : Nat → PS → Prop) (R : PS → Prop) (s : PS) :
    wp (rightChar E i) Q R s ↔ s.pos + i < E.pat.length ∧ ∀ c, E.pat[s.pos + i]? = some c → Q c s := by
  unfold wp rightChar
  cases h : E.pat[s.pos + i]? with
  | none => simp; rw [List.getElem?_eq_none_iff] at h; omega
  | some c => simp; have := (List.getElem?_eq_some_iff.mp h).1; omega
@[simp] theorem wp_charAt (i : Nat) (Q : Nat → PS → Prop) (R : PS → Prop) (s : PS) :
    wp (charAt E i) Q R s ↔ i < E.pat.length ∧ ∀ c, E.pat[i]? = some c → Q c s := by
  unfold wp charAt
  cases h : E.pat[i]? with
  | none => simp; rw [List.getElem?_eq_none_iff] at h; omega
  | some c => simp; have := (List.getElem?_eq_some_iff.mp h).1; omega
@[simp] theorem wp_moveRightGetChar (Q : Nat → PS → Prop) (R : PS → Prop) (s : PS) :
    wp (moveRightGetChar E) Q R s ↔ s.pos < E.pat.length ∧ ∀ c, E.pat[s.pos]? = some c → Q c { s with pos := s.pos + 1 } := by
  unfold moveRightGetChar
  simp
@[simp] theorem wp_rest (Q : List Nat → PS → Prop) (R : PS → Prop) (s : PS) :
    wp (rest E) Q R s ↔ Q (E.pat.drop s.pos) s := Iff.rfl
@[simp] theorem wp_opts (Q : Opts → PS → Prop) (R : PS → Prop) (s : PS) : wp opts Q R s ↔ Q s.options s := Iff.rfl
@[simp] theorem wp_setOpts (o : Opts) (Q : Unit → PS → Prop) (R : PS → Prop) (s : PS) :
    wp (setOpts o) Q R s ↔ Q () { s with options := o } := Iff.rfl

/-! ## The common specification of the scanners -/

/-- the part of the state the scanners never touch -/
def PS.frame (s : PS) := (s.optionsStack, s.stack, s.unit, s.group, s.alternation, s.concatenation)

/-- `capnames != nil` implies a non-empty `capnamelist` (what `assignNameSlots` indexes) -/
def NamesOK (g : Groups.PState) : Prop := g.capnames.isSome = true → g.capnamelist ≠ []

/-- from `s` to `s'`: the position did not go back and is inside the pattern, only position, options,
    `ignoreNextParen` and the capture tables may differ -/
structure Adv (s s' : PS) : Prop where
  le : s.pos ≤ s'.pos
  inside : s'.pos ≤ E.pat.length
  frame : s'.frame = s.frame
  names : NamesOK s.g → NamesOK s'.g

attribute [irreducible] NamesOK

theorem Adv.refl (s : PS) (h : s.pos ≤ E.pat.length) : Adv E s s := ⟨Nat.le_refl _, h, rfl, id⟩
theorem Adv.trans {a b c : PS} (h1 : Adv E a b) (h2 : Adv E b c) : Adv E a c :=
  ⟨Nat.le_trans h1.le h2.le, h2.inside, h2.frame.trans h1.frame, fun h => h2.names (h1.names h)⟩

/-- `m` is a scanner: from any position inside the pattern it returns (normally or with an error)
    in an `Adv`-related state; it never faults and never runs out of fuel -/
def Scans (m : M α) : Prop :=
  ∀ s, s.pos ≤ E.pat.length → wp m (fun _ s' => Adv E s s') (Adv E s) s

theorem wp_of_scans {m : M α} (h : Scans E m) {Q : α → PS → Prop} {R : PS → Prop} {s : PS}
    (hs : s.pos ≤ E.pat.length) (hq : ∀ a s', Adv E s s' → Q a s') (hr : ∀ s', Adv E s s' → R s') :
    wp m Q R s := wp_mono (h s hs) hq hr

/-- calling a scanner: its postcondition, field by field, for the continuation -/
theorem wp_call {m : M α} (h : Scans E m) {Q : α → PS → Prop} {R : PS → Prop} {s : PS}
    (hs : s.pos ≤ E.pat.length)
    (hq : ∀ a s', s.pos ≤ s'.pos → s'.pos ≤ E.pat.length → s'.frame = s.frame → (NamesOK s.g → NamesOK s'.g) → Q a s')
    (hr : ∀ s', s.pos ≤ s'.pos → s'.pos ≤ E.pat.length → s'.frame = s.frame → (NamesOK s.g → NamesOK s'.g) → R s') :
    wp m Q R s :=
  wp_mono (h s hs) (fun a s' h' => hq a s' h'.le h'.inside h'.frame h'.names)
    (fun s' h' => hr s' h'.le h'.inside h'.frame h'.names)

theorem Scans.at {m : M α} (h : Scans E m) {s0 s1 : PS} (h01 : Adv E s0 s1) :
    wp m (fun _ s' => Adv E s0 s') (Adv E s0) s1 :=
  wp_mono (h s1 h01.inside) (fun _ _ h' => h01.trans E h') (fun _ h' => h01.trans E h')

/-! ## Leaf scanners -/

theorem blankGo_bounds (x : Bool) : ∀ (r : List Nat) (m : BlankMode) (k : Nat),
    k ≤ (blankGo x m r k).1 ∧ (blankGo x m r k).1 ≤ k + r.length := by
  intro r
  induction r with
  | nil => intro m k; cases m <;> simp [blankGo]
  | cons c r ih =>
    intro m k
    have h1 := ih .normal (k + 1)
    have h2 := ih .line (k + 1)
    have h3 := ih .paren (k + 1)
    cases m <;> simp only [blankGo, List.length_cons] <;> repeat' split
    all_goals first | omega | simp

theorem drop_length_le (s : PS) (h : s.pos ≤ E.pat.length) : (E.pat.drop s.pos).length + s.pos = E.pat.length := by
  simp; omega

theorem scans_scanBlank : Scans E (scanBlank E) := by
  intro s hs
  have hl := drop_length_le E s hs
  have hb := blankGo_bounds s.options.x (E.pat.drop s.pos) .normal 0
  unfold wp scanBlank
  simp only []
  split <;> (rename_i heq; split at heq <;> simp at heq <;> (obtain ⟨_, rfl⟩ := heq; refine ⟨?_, ?_, rfl, id⟩ <;> simp <;> omega))

theorem decGo_bounds : ∀ (r : List Nat) (acc k : Nat), k ≤ (decGo r acc k).2 ∧ (decGo r acc k).2 ≤ k + r.length := by
  intro r
  induction r with
  | nil => intro acc k; simp [decGo]
  | cons c r ih =>
    intro acc k
    simp only [decGo, List.length_cons]
    repeat' split
    all_goals first | (simp; done) | (simp; omega) | (have := ih (acc * 10 + (c - 48)) (k + 1); omega)

theorem optionsGo_bounds : ∀ (r : List Nat) (off : Bool) (o : Opts) (k : Nat),
    k ≤ (optionsGo r off o k).2 ∧ (optionsGo r off o k).2 ≤ k + r.length := by
  intro r
  induction r with
  | nil => intro off o k; simp [optionsGo]
  | cons c r ih =>
    intro off o k
    simp only [optionsGo, List.length_cons]
    repeat' split
    all_goals first | (simp; done) | (have := ih true o (k + 1); omega) | (have := ih false o (k + 1); omega) | skip
    rename_i f _
    have := ih off (f o (!off)) (k + 1); omega

theorem countWhile_le (p : Nat → Bool) : ∀ r : List Nat, countWhile p r ≤ r.length := by
  intro r
  induction r with
  | nil => simp [countWhile]
  | cons c r ih => simp only [countWhile, List.length_cons]; split <;> omega

/-- a state-to-state scanner that only moves the position forward inside the pattern -/
theorem adv_of_pos {s s' : PS} (hs : s.pos ≤ s'.pos) (hl : s'.pos ≤ E.pat.length)
    (hf : s'.frame = s.frame) (hg : s'.g = s.g) : Adv E s s' :=
  ⟨hs, hl, hf, fun h => hg ▸ h⟩

theorem scans_scanDecimal : Scans E (scanDecimal E) := by
  intro s hs
  have hl := drop_length_le E s hs
  have hb := decGo_bounds (E.pat.drop s.pos) 0 0
  unfold wp scanDecimal
  simp only []
  split <;> (rename_i heq; split at heq <;> simp at heq <;> (obtain ⟨_, rfl⟩ := heq; refine ⟨?_, ?_, rfl, id⟩ <;> simp <;> omega))

theorem scans_scanOptions : Scans E (scanOptions E) := by
  intro s hs
  have hl := drop_length_le E s hs
  have hb := optionsGo_bounds (E.pat.drop s.pos) false s.options 0
  unfold wp scanOptions
  simp only []
  refine ⟨?_, ?_, rfl, id⟩ <;> simp <;> omega

theorem scans_scanWord : Scans E (scanWord E) := by
  intro s hs
  have hl := drop_length_le E s hs
  have hb := countWhile_le E.orc.isWord (E.pat.drop s.pos)
  unfold wp scanWord
  simp only []
  refine ⟨?_, ?_, rfl, id⟩ <;> simp <;> omega

/-- a leaf result that consumed at most `n` runes and is not a fault -/
def LR.Bounded : LR α → Nat → Prop
  | .ok _ k, n => k ≤ n
  | .err _ k, n => k ≤ n
  | .fault, _ => False

theorem LR.Bounded.mono {x : LR α} {n m : Nat} (h : x.Bounded n) (hnm : n ≤ m) : x.Bounded m := by
  cases x <;> simp_all [LR.Bounded] <;> omega

theorem wp_liftL (f : List Nat → LR α) (s : PS) (hs : s.pos ≤ E.pat.length)
    (h : (f (E.pat.drop s.pos)).Bounded (E.pat.drop s.pos).length) :
    wp (liftL E f) (fun _ s' => Adv E s s') (Adv E s) s := by
  have hl := drop_length_le E s hs
  unfold wp liftL
  cases hf : f (E.pat.drop s.pos) <;> simp [hf, LR.Bounded] at h ⊢
  all_goals (refine ⟨?_, ?_, rfl, id⟩ <;> simp <;> omega)

theorem hexGo_ok : ∀ (c : Nat) (r : List Nat) (acc k : Nat), c ≤ r.length →
    (hexGo c r acc k).Bounded (k + r.length) := by
  intro c
  induction c with
  | zero => intro r acc k _; simp [hexGo, LR.Bounded]
  | succ c ih =>
    intro r acc k h
    cases r with
    | nil => simp at h
    | cons ch r =>
      simp only [hexGo]
      cases hd : Escape.hexDigit ch with
      | none => simp [LR.Bounded]
      | some d =>
        simp only []
        exact (ih r (acc * 16 + d) (k + 1) (by simp at h; omega)).mono (by simp; omega)

theorem scans_scanHex (c : Nat) : Scans E (scanHex E c) := by
  intro s hs
  apply wp_liftL E _ s hs
  split
  · rename_i h
    exact (hexGo_ok c (E.pat.drop s.pos) 0 0 h).mono (by omega)
  · split <;> simp [LR.Bounded]

theorem hexBraceGo_ok : ∀ (r : List Nat) (acc : Nat) (has : Bool) (k : Nat),
    (hexBraceGo r acc has k).Bounded (k + r.length) := by
  intro r
  induction r with
  | nil => intro acc has k; simp [hexBraceGo, LR.Bounded]
  | cons ch r ih =>
    intro acc has k
    simp only [hexBraceGo]
    split
    · split <;> simp [LR.Bounded]
    · cases hd : Escape.hexDigit ch with
      | none => simp [LR.Bounded]
      | some d =>
        simp only []
        split
        · simp [LR.Bounded]
        · exact (ih (acc * 16 + d) true (k + 1)).mono (by simp; omega)

theorem scans_scanHexUntilBrace : Scans E (scanHexUntilBrace E) := by
  intro s hs
  apply wp_liftL E _ s hs
  exact (hexBraceGo_ok (E.pat.drop s.pos) 0 false 0).mono (by omega)

theorem octGo_bounds (e : Bool) : ∀ (c : Nat) (r : List Nat) (acc k : Nat),
    (octGo e c r acc k).2 ≤ k + r.length := by
  intro c
  induction c with
  | zero => intro r acc k; simp [octGo]
  | succ c ih =>
    intro r acc k
    cases r with
    | nil => simp [octGo]
    | cons ch r =>
      simp only [octGo, List.length_cons]
      repeat' split
      all_goals first | (simp; done) | (simp; omega) | (have := ih r (acc * 8 + (ch - 48)) (k + 1); omega)

theorem scans_scanControl : Scans E (scanControl E) := by
  intro s hs
  apply wp_liftL E _ s hs
  cases h : E.pat.drop s.pos with
  | nil => simp [LR.Bounded]
  | cons c r => simp only []; split <;> split <;> simp [LR.Bounded]

/-- `scanOctal` reads `rightChar(0)` unguarded: it needs a rune to the right -/
theorem wp_scanOctal (s : PS) (hs : s.pos < E.pat.length) :
    wp (scanOctal E) (fun _ s' => Adv E s s') (Adv E s) s := by
  unfold scanOctal
  simp only [wp_bind, wp_opts]
  apply wp_liftL E _ s (Nat.le_of_lt hs)
  cases h : E.pat.drop s.pos with
  | nil => have := drop_length_le E s (Nat.le_of_lt hs); simp [h] at this; omega
  | cons c r =>
    simp only [LR.Bounded]
    have := octGo_bounds s.options.e 3 (c :: r) 0 0
    omega

theorem wp_scanOctal_at {s0 s1 : PS} (h01 : Adv E s0 s1) (hlt : s1.pos < E.pat.length) :
    wp (scanOctal E) (fun _ s' => Adv E s0 s') (Adv E s0) s1 :=
  wp_mono (wp_scanOctal E s1 hlt) (fun _ _ h' => h01.trans E h') (fun _ h' => h01.trans E h')

end

syntax "wp_simp" : tactic
macro_rules
  | `(tactic| wp_simp) => `(tactic| simp only [wp_bind, wp_pure, wp_ite, wp_moveRightGetChar, wp_moveLeft, wp_textpos, wp_opts,
      wp_charsRight, wp_rest, wp_moveRight, wp_throw, wp_textto, wp_rightChar, wp_charAt, wp_get, wp_modify, wp_fault, wp_setOpts])

/-- close an `Adv` goal, one of its components, or a bound on a position from the facts in the context -/
syntax "adv" : tactic
macro_rules
  | `(tactic| adv) => `(tactic| first
      | omega
      | (dsimp only at *; omega)
      | (constructor <;> (try dsimp only [PS.frame] at *) <;> (try simp_all) <;> (try omega) <;> done)
      | ((try dsimp only [PS.frame] at *); (try simp_all); (try omega); done))

syntax "wp_split" : tactic
macro_rules
  | `(tactic| wp_split) => `(tactic| repeat' (first | apply And.intro | intro _))

end RegexVerif.Parser
