import RegexVerif.Lemmas.Class

/-! Lemmas about `canonicalize` and the building operations (C16). -/
namespace RegexVerif.Class

def SortedFirst (rs : List (Nat × Nat)) : Prop := rs.Pairwise (fun a b => a.1 ≤ b.1)

/-! ## sorting -/

theorem inRanges_insertByFirst (r : Nat × Nat) (rs : List (Nat × Nat)) (ch : Nat) :
    inRanges (insertByFirst r rs) ch = (inRange r ch || inRanges rs ch) := by
  induction rs with
  | nil => simp [insertByFirst]
  | cons x xs ih =>
    unfold insertByFirst
    split
    · simp
    · simp only [inRanges_cons, ih]
      cases inRange r ch <;> cases inRange x ch <;> simp

theorem inRanges_sortByFirst (rs : List (Nat × Nat)) (ch : Nat) :
    inRanges (sortByFirst rs) ch = inRanges rs ch := by
  induction rs with
  | nil => rfl
  | cons r rs ih => simp [sortByFirst, inRanges_insertByFirst, ih]

theorem mem_insertByFirst (x r : Nat × Nat) (rs : List (Nat × Nat)) :
    x ∈ insertByFirst r rs ↔ x = r ∨ x ∈ rs := by
  induction rs with
  | nil => simp [insertByFirst]
  | cons y ys ih =>
    unfold insertByFirst
    split
    · simp
    · simp only [List.mem_cons, ih]
      constructor
      · rintro (h | h | h) <;> simp [h]
      · rintro (h | h | h) <;> simp [h]

theorem mem_sortByFirst (x : Nat × Nat) (rs : List (Nat × Nat)) : x ∈ sortByFirst rs ↔ x ∈ rs := by
  induction rs with
  | nil => simp [sortByFirst]
  | cons r rs ih => simp [sortByFirst, mem_insertByFirst, ih]

theorem sorted_insertByFirst (r : Nat × Nat) (rs : List (Nat × Nat)) (h : SortedFirst rs) :
    SortedFirst (insertByFirst r rs) := by
  unfold SortedFirst at *
  induction rs with
  | nil => simp [insertByFirst]
  | cons x xs ih =>
    rw [List.pairwise_cons] at h
    unfold insertByFirst
    split
    · next hle =>
      rw [List.pairwise_cons]
      refine ⟨fun b hb => ?_, List.pairwise_cons.mpr h⟩
      rcases List.mem_cons.mp hb with rfl | hb
      · exact hle
      · have := h.1 b hb; omega
    · next hgt =>
      rw [List.pairwise_cons]
      refine ⟨fun b hb => ?_, ih h.2⟩
      rcases (mem_insertByFirst b r xs).mp hb with rfl | hb
      · omega
      · exact h.1 b hb

theorem sorted_sortByFirst (rs : List (Nat × Nat)) : SortedFirst (sortByFirst rs) := by
  induction rs with
  | nil => exact List.Pairwise.nil
  | cons r rs ih => exact sorted_insertByFirst r _ ih

/-! ## the merge loop -/

theorem mergeGo_mem (ch : Nat) (hch : ch ≤ maxRune) :
    ∀ (rest : List (Nat × Nat)) (first last : Nat), (∀ c ∈ rest, first ≤ c.1) → SortedFirst rest →
      inRanges (mergeGo first last rest) ch = (inRange (first, last) ch || inRanges rest ch) := by
  intro rest
  induction rest with
  | nil => intro first last _ _; simp [mergeGo]
  | cons c rest ih =>
    intro first last hf hs
    unfold SortedFirst at hs
    rw [List.pairwise_cons] at hs
    have hc := hf c (List.mem_cons_self ..)
    unfold mergeGo
    split
    · next hdone =>
      -- last ≥ maxRune: everything after is covered
      apply bool_eq_of_iff
      simp only [inRanges_cons, inRanges_nil, Bool.or_false, Bool.or_eq_true, inRange_iff, inRanges_iff]
      constructor
      · intro h; exact Or.inl h
      · rintro (h | h | ⟨b, hb, h1, h2⟩)
        · exact h
        · omega
        · have := hf b (List.mem_cons_of_mem _ hb); omega
    · next hnd =>
      split
      · next hgap =>
        rw [inRanges_cons, ih c.1 c.2 (fun b hb => hs.1 b hb) hs.2]
        simp
      · next hov =>
        rw [ih first _ (fun b hb => hf b (List.mem_cons_of_mem _ hb)) hs.2]
        simp only [inRanges_cons]
        cases hR : inRanges rest ch
        · apply bool_eq_of_iff
          simp only [Bool.or_false, Bool.or_eq_true, inRange_iff]
          split <;> omega
        · simp

theorem mergeGo_first :
    ∀ (rest : List (Nat × Nat)) (first last : Nat), (∀ c ∈ rest, first ≤ c.1) → SortedFirst rest →
      ∀ b ∈ mergeGo first last rest, first ≤ b.1 := by
  intro rest
  induction rest with
  | nil => intro first last _ _ b hb; simp [mergeGo] at hb; subst hb; simp
  | cons c rest ih =>
    intro first last hf hs b hb
    unfold SortedFirst at hs
    rw [List.pairwise_cons] at hs
    have hc := hf c (List.mem_cons_self ..)
    unfold mergeGo at hb
    split at hb
    · simp at hb; subst hb; simp
    · split at hb
      · rcases List.mem_cons.mp hb with rfl | hb
        · simp
        · have := ih c.1 c.2 (fun b hb => hs.1 b hb) hs.2 b hb; omega
      · exact ih first _ (fun b hb => hf b (List.mem_cons_of_mem _ hb)) hs.2 b hb

theorem mergeGo_canon :
    ∀ (rest : List (Nat × Nat)) (first last : Nat), first ≤ last → (∀ c ∈ rest, c.1 ≤ c.2) →
      (∀ c ∈ rest, first ≤ c.1) → SortedFirst rest → Canon (mergeGo first last rest) := by
  intro rest
  induction rest with
  | nil =>
    intro first last hfl _ _ _
    refine ⟨by simp [mergeGo], ?_⟩
    intro r hr; simp [mergeGo] at hr; subst hr; exact hfl
  | cons c rest ih =>
    intro first last hfl hw hf hs
    have hs' := hs
    unfold SortedFirst at hs
    rw [List.pairwise_cons] at hs
    have hc := hf c (List.mem_cons_self ..)
    have hcw := hw c (List.mem_cons_self ..)
    have hw' : ∀ c ∈ rest, c.1 ≤ c.2 := fun b hb => hw b (List.mem_cons_of_mem _ hb)
    unfold mergeGo
    split
    · refine ⟨by simp, ?_⟩
      intro r hr; simp at hr; subst hr; exact hfl
    · split
      · next hgap =>
        obtain ⟨hp, hwf⟩ := ih c.1 c.2 hcw hw' (fun b hb => hs.1 b hb) hs.2
        refine ⟨List.pairwise_cons.mpr ⟨fun b hb => ?_, hp⟩, ?_⟩
        · have := mergeGo_first rest c.1 c.2 (fun b hb => hs.1 b hb) hs.2 b hb
          simp only; omega
        · intro r hr
          rcases List.mem_cons.mp hr with rfl | hr
          · exact hfl
          · exact hwf r hr
      · exact ih first _ (by split <;> omega) hw' (fun b hb => hf b (List.mem_cons_of_mem _ hb)) hs.2

theorem mergeRanges_mem (rs : List (Nat × Nat)) (ch : Nat) (hch : ch ≤ maxRune) :
    inRanges (mergeRanges rs) ch = inRanges rs ch := by
  unfold mergeRanges
  have hm := inRanges_sortByFirst rs ch
  have hs := sorted_sortByFirst rs
  revert hm hs
  cases sortByFirst rs with
  | nil => intro hm _; simpa using hm
  | cons r rest =>
    intro hm hs
    simp only
    unfold SortedFirst at hs
    rw [List.pairwise_cons] at hs
    rw [mergeGo_mem ch hch rest r.1 r.2 (fun b hb => hs.1 b hb) hs.2, ← hm]
    simp

theorem mergeRanges_canon (rs : List (Nat × Nat)) (hw : ∀ r ∈ rs, r.1 ≤ r.2) : Canon (mergeRanges rs) := by
  unfold mergeRanges
  have hm := fun x => mem_sortByFirst x rs
  have hs := sorted_sortByFirst rs
  revert hm hs
  cases sortByFirst rs with
  | nil => intro _ _; exact ⟨List.Pairwise.nil, by simp⟩
  | cons r rest =>
    intro hm hs
    simp only
    unfold SortedFirst at hs
    rw [List.pairwise_cons] at hs
    apply mergeGo_canon rest r.1 r.2 (hw r ((hm r).mp (List.mem_cons_self ..)))
      (fun b hb => hw b ((hm b).mp (List.mem_cons_of_mem _ hb))) (fun b hb => hs.1 b hb) hs.2

theorem mergeRanges_nil_iff (rs : List (Nat × Nat)) : mergeRanges rs = [] ↔ rs = [] := by
  unfold mergeRanges
  constructor
  · intro h
    cases rs with
    | nil => rfl
    | cons r rs =>
      exfalso
      have : r ∈ sortByFirst (r :: rs) := (mem_sortByFirst r _).mpr (List.mem_cons_self ..)
      revert h this
      cases sortByFirst (r :: rs) with
      | nil => intro _ h; cases h
      | cons a rest =>
        intro h _
        simp only at h
        cases rest with
        | nil => simp [mergeGo] at h
        | cons c rest =>
          unfold mergeGo at h
          split at h
          · cases h
          · split at h
            · cases h
            · -- the merge of a non-empty list is non-empty
              have : ∀ (l : List (Nat × Nat)) (f la : Nat), mergeGo f la l ≠ [] := by
                intro l
                induction l with
                | nil => intro f la; simp [mergeGo]
                | cons d l ih =>
                  intro f la; unfold mergeGo
                  split
                  · simp
                  · split
                    · simp
                    · exact ih _ _
              exact this _ _ _ h
  · intro h; subst h; rfl

/-! ## the normal forms -/

theorem not_eq_not_iff {a b : Bool} (h : a = true ↔ ¬ (b = true)) : a = !b := by
  cases a <;> cases b <;> simp_all

theorem makeAnything_pos (cat : Nat → Nat → Bool) (f : Flat) (ch : Nat) (hch : ch ≤ maxRune) :
    f.makeAnything.pos cat ch = true := by
  simp only [Flat.makeAnything, Flat.pos, inRanges_cons, inRanges_nil, inCats_nil, Bool.or_false, inRange_iff]
  exact ⟨Nat.zero_le _, hch⟩

theorem norm1_mem (cat : Nat → Nat → Bool) (hasSub : Bool) (f : Flat) (ch : Nat) (hch : ch ≤ maxRune) :
    (norm1 hasSub f).memAlg cat ch = f.memAlg cat ch := by
  unfold norm1
  split
  · next hcond =>
    simp only [Bool.and_eq_true, Bool.not_eq_true', List.isEmpty_iff] at hcond
    obtain ⟨⟨hn, _⟩, hc⟩ := hcond
    split
    · next r0 r1 hr =>
      split
      · next h =>
        simp only [Flat.memAlg, Flat.pos, hr, hc, hn, inRanges_cons, inRanges_nil, inCats_nil, Bool.or_false,
          Bool.bne_true, Bool.bne_false]
        symm; apply not_eq_not_iff
        simp only [Bool.or_eq_true, inRange_iff]
        omega
      · rfl
    · next r0 hr =>
      split
      · split
        · next h0 h1 =>
          simp only [Flat.memAlg, Flat.pos, hr, hc, hn, inRanges_cons, inRanges_nil, inCats_nil, Bool.or_false,
            Bool.bne_true, Bool.bne_false]
          symm; apply not_eq_not_iff
          simp only [inRange_iff]
          have hM : 1 ≤ maxRune := by decide
          generalize maxRune = M at *
          omega
        · rfl
      · split
        · split
          · next h0 h1 h2 =>
            simp only [Flat.memAlg, Flat.pos, hr, hc, hn, inRanges_cons, inRanges_nil, inCats_nil, Bool.or_false,
              Bool.bne_true, Bool.bne_false]
            symm; apply not_eq_not_iff
            simp only [inRange_iff]
            have hM : 1 ≤ maxRune := by decide
            generalize maxRune = M at *
            omega
          · rfl
        · rfl
    · rfl
  · rfl

theorem norm2_mem (cat : Nat → Nat → Bool) (hasSub : Bool) (f : Flat) (ch : Nat) (hch : ch ≤ maxRune) :
    (norm2 hasSub f).memAlg cat ch = f.memAlg cat ch := by
  unfold norm2
  split
  · split
    · next r0 hr =>
      split
      · next h =>
        have h1 := makeAnything_pos cat f ch hch
        have h2 : f.pos cat ch = true := by
          simp only [Flat.pos, hr, inRanges_cons, Bool.or_eq_true, inRange_iff]
          left; left; omega
        unfold Flat.memAlg; rw [h1, h2]; rfl
      · rfl
    · rfl
  · rfl

theorem norm3_mem (cat : Nat → Nat → Bool) (hasSub : Bool) (f : Flat) (ch : Nat) (hch : ch ≤ maxRune) :
    (norm3 cat hasSub f).memAlg cat ch = f.memAlg cat ch := by
  unfold norm3
  split
  · next hcond =>
    simp only [Bool.and_eq_true, Bool.not_eq_true'] at hcond
    obtain ⟨⟨hn, _⟩, _⟩ := hcond
    split
    · next r0 r1 hr =>
      split
      · next h =>
        split
        · next hcatx =>
          -- the omitted character is in the categories: everything
          have h1 := makeAnything_pos cat f ch hch
          have h2 : f.pos cat ch = true := by
            rw [catLoop_eq_inCats] at hcatx
            simp only [Flat.pos, hr, inRanges_cons, inRanges_nil, Bool.or_false, Bool.or_eq_true, inRange_iff]
            by_cases hx : ch = r0.2 + 1
            · right; rw [hx]; exact hcatx
            · left; omega
          unfold Flat.memAlg; rw [h1, h2]; rfl
        · next hcatx =>
          rw [catLoop_eq_inCats] at hcatx
          simp only [Flat.memAlg, Flat.pos, hr, hn, inRanges_cons, inRanges_nil, inCats_nil, Bool.or_false,
            Bool.bne_true, Bool.bne_false]
          symm; apply not_eq_not_iff
          simp only [Bool.or_eq_true, inRange_iff]
          by_cases hx : ch = r0.2 + 1
          · subst hx
            simp only [Bool.not_eq_true] at hcatx
            simp [hcatx]; omega
          · constructor
            · intro _; omega
            · intro _; left; omega
      · rfl
    · rfl
  · rfl

theorem Flat.canonicalize_mem (cat : Nat → Nat → Bool) (hasSub : Bool) (f : Flat) (ch : Nat) (hch : ch ≤ maxRune) :
    (f.canonicalize cat hasSub).memAlg cat ch = f.memAlg cat ch := by
  unfold Flat.canonicalize
  split
  · rfl
  · have hm : ({ f with ranges := mergeRanges f.ranges } : Flat).memAlg cat ch = f.memAlg cat ch := by
      simp only [Flat.memAlg, Flat.pos, mergeRanges_mem f.ranges ch hch]
    simp only
    split
    · exact hm
    · rw [norm3_mem cat hasSub _ ch hch, norm2_mem cat hasSub _ ch hch, norm1_mem cat hasSub _ ch hch, hm]

/-- ranges of the result of `canonicalize` are canonical when the input ranges are non-empty intervals -/
theorem Flat.canonicalize_canon (cat : Nat → Nat → Bool) (hasSub : Bool) (f : Flat)
    (hw : ∀ r ∈ f.ranges, r.1 ≤ r.2) : Canon (f.canonicalize cat hasSub).ranges := by
  have single : ∀ a b : Nat, a ≤ b → Canon [(a, b)] := by
    intro a b hab
    exact ⟨by simp, by intro r hr; simp at hr; subst hr; exact hab⟩
  unfold Flat.canonicalize
  split
  · next he =>
    have : f.ranges = [] := by simpa using he
    rw [this]; exact ⟨List.Pairwise.nil, by simp⟩
  · have hm : Canon (mergeRanges f.ranges) := mergeRanges_canon f.ranges hw
    simp only
    split
    · exact hm
    · -- each normal form either keeps the ranges or installs a single non-empty range
      generalize hg : ({ f with ranges := mergeRanges f.ranges } : Flat) = g
      have hg' : Canon g.ranges := by rw [← hg]; exact hm
      clear hg hm
      have h1 : Canon (norm1 hasSub g).ranges := by
        unfold norm1
        split
        · split
          · split
            · next h => exact single _ _ (by omega)
            · exact hg'
          · split
            · split
              · exact single _ _ (Nat.le_refl _)
              · exact hg'
            · split
              · split
                · exact single _ _ (Nat.le_refl _)
                · exact hg'
              · exact hg'
          · exact hg'
        · exact hg'
      have h2 : Canon (norm2 hasSub (norm1 hasSub g)).ranges := by
        unfold norm2
        split
        · split
          · split
            · exact single _ _ (by simp [maxRune])
            · exact h1
          · exact h1
        · exact h1
      unfold norm3
      split
      · split
        · split
          · split
            · exact single _ _ (by simp [maxRune])
            · exact single _ _ (Nat.le_refl _)
          · exact h2
        · exact h2
      · exact h2

end RegexVerif.Class
