/-
The capture arrays along a run of the interpreter model: every builder the interpreter reaches is `Props.C08.Reach`
(only intervals inside the text are added, only matched groups are balanced, only what was added is removed), and the
crawl stack records exactly the slots whose counts it will decrement.  Consequence: a backreference reads an interval
inside the text (no `capRange`).
-/
import RegexVerif.Props.C08
import RegexVerif.Model.VM

namespace RegexVerif.Lemmas.StackTypingCap
open RegexVerif RegexVerif.MatchBuilder RegexVerif.Lemmas.MatchBuilder RegexVerif.Props.C08

/-- the capture state of a run on a text of length `N` with `k` capture slots -/
def CapOk (N : Int) (k : Nat) (r : Runner) : Prop :=
  Reach N k r.m ∧ (∀ c ∈ r.crawl, c < k) ∧ ∀ c, r.crawl.count c ≤ cnt r.m c

theorem capOk_init (N : Int) (k : Nat) : CapOk N k { m := newMatch k, crawl := [] } :=
  ⟨Reach.init, by intro c h; simp at h, by intro c; simp⟩

theorem cnt_addMatch (b : Builder) (c : Nat) (s l : Int) (hc : c < b.matchcount.length) (c' : Nat) :
    cnt (addMatch b c s l) c' = cnt b c' + (if c' = c then 1 else 0) := by
  simp only [addMatch, cnt, getD_set, hc, and_true]
  by_cases h : c = c'
  · subst h; simp
  · have : ¬ c' = c := fun e => h e.symm
    simp [h, this]

theorem cnt_balanceMatch (b : Builder) (c : Nat) (hc : c < b.matchcount.length) (c' : Nat) :
    cnt (balanceMatch b c) c' = cnt b c' + (if c' = c then 1 else 0) := by
  rw [balanceMatch_eq]
  exact cnt_addMatch { b with balancing := true } c _ _ hc c'

theorem cnt_removeMatch (b : Builder) (c : Nat) (hc : c < b.matchcount.length) (c' : Nat) :
    cnt (removeMatch b c) c' = cnt b c' - (if c' = c then 1 else 0) := by
  simp only [removeMatch, cnt, getD_set, hc, and_true]
  by_cases h : c = c'
  · subst h; simp
  · have : ¬ c' = c := fun e => h e.symm
    simp [h, this]

theorem reach_len {N : Int} {k : Nat} {b : Builder} (h : Reach N k b) : b.matchcount.length = k :=
  (reach_inv N k b h).2.1

theorem count_cons' (c x : Nat) (l : List Nat) : (x :: l).count c = l.count c + (if c = x then 1 else 0) := by
  rw [List.count_cons]
  by_cases h : c = x
  · subst h; simp
  · have : ¬ x = c := fun e => h e.symm
    simp [h, this]

/-- `Runner.Capture` with both ends inside the text -/
theorem capOk_capture {N : Int} {k : Nat} {r : Runner} (h : CapOk N k r) (c : Nat) (hc : c < k) (s e : Int)
    (hs : 0 ≤ s) (hsN : s ≤ N) (he : 0 ≤ e) (heN : e ≤ N) : CapOk N k (capture r c s e) := by
  obtain ⟨h1, h2, h3⟩ := h
  refine ⟨capture_reach N k r h1 c hc s e hs hsN he heN, ?_, ?_⟩
  · intro c' hc'
    have : (capture r c s e).crawl = c :: r.crawl := by unfold capture; split <;> rfl
    rw [this] at hc'
    rcases List.mem_cons.mp hc' with rfl | h'
    · exact hc
    · exact h2 _ h'
  · intro c'
    have hcr : (capture r c s e).crawl = c :: r.crawl := by unfold capture; split <;> rfl
    have hm : cnt (capture r c s e).m c' = cnt r.m c' + (if c' = c then 1 else 0) := by
      unfold capture; split <;> exact cnt_addMatch _ _ _ _ (by rw [reach_len h1]; exact hc) _
    rw [hcr, hm, count_cons']
    have := h3 c'
    omega

theorem transferCapture_swap (r : Runner) (c0 : Int) (c1 : Nat) (s e : Int) (h : e < s) :
    transferCapture r c0 c1 s e = transferCapture r c0 c1 e s := by
  unfold transferCapture
  have h' : ¬ s < e := by omega
  simp only [h, h', ite_true, ite_false]

/-- `Runner.transferCapture` for `(?<c0-c1>…)` / `(?<-c1>…)` with `c1` matched and both ends inside the text -/
theorem capOk_transfer {N : Int} {k : Nat} {r : Runner} (h : CapOk N k r) (c0 : Int) (c1 : Nat)
    (hc0 : c0 = -1 ∨ (0 ≤ c0 ∧ c0.toNat < k)) (hc1 : c1 < k) (hm : isMatched r.m c1 = true) (s e : Int)
    (hs : 0 ≤ s) (hsN : s ≤ N) (he : 0 ≤ e) (heN : e ≤ N) : CapOk N k (transferCapture r c0 c1 s e) := by
  -- order the ends
  have key : ∀ s e : Int, 0 ≤ s → s ≤ e → e ≤ N → CapOk N k (transferCapture r c0 c1 s e) := by
    intro s e hs hse he
    obtain ⟨h1, h2, h3⟩ := h
    have hk := reach_len h1
    rcases hc0 with rfl | ⟨h0, h0k⟩
    · refine ⟨transferCapture_pop_reach N k r h1 c1 hc1 hm s e, ?_, ?_⟩
      · have : (transferCapture r (-1) c1 s e).crawl = c1 :: r.crawl := by
          unfold transferCapture; simp
        intro c' hc'; rw [this] at hc'
        rcases List.mem_cons.mp hc' with rfl | h'
        · exact hc1
        · exact h2 _ h'
      · intro c'
        have hcr : (transferCapture r (-1) c1 s e).crawl = c1 :: r.crawl := by unfold transferCapture; simp
        have hm' : cnt (transferCapture r (-1) c1 s e).m c' = cnt r.m c' + (if c' = c1 then 1 else 0) := by
          unfold transferCapture; simp only [ne_eq, not_true_eq_false, ite_false]
          exact cnt_balanceMatch _ _ (by rw [hk]; exact hc1) _
        rw [hcr, hm', count_cons']
        have := h3 c'; omega
    · have hcast : c0 = ((c0.toNat : Nat) : Int) := by omega
      have hr := transferCapture_reach N k r h1 c0.toNat c1 h0k hc1 hm s e hs hse he
      rw [← hcast] at hr
      have hne : c0 ≠ -1 := by omega
      have hcr : (transferCapture r c0 c1 s e).crawl = c0.toNat :: c1 :: r.crawl := by
        unfold transferCapture; simp [hne]
      refine ⟨hr, ?_, ?_⟩
      · intro c' hc'; rw [hcr] at hc'
        rcases List.mem_cons.mp hc' with rfl | h'
        · exact h0k
        · rcases List.mem_cons.mp h' with rfl | h''
          · exact hc1
          · exact h2 _ h''
      · intro c'
        have hm' : cnt (transferCapture r c0 c1 s e).m c' =
            cnt r.m c' + (if c' = c1 then 1 else 0) + (if c' = c0.toNat then 1 else 0) := by
          unfold transferCapture
          simp only [hne, ne_eq, not_false_eq_true, ite_true]
          rw [cnt_addMatch _ _ _ _ (by
            have : (balanceMatch r.m c1).matchcount.length = k :=
              reach_len (Reach.bal _ c1 h1 hc1 hm)
            rw [this]; exact h0k), cnt_balanceMatch _ _ (by rw [hk]; exact hc1)]
        rw [hcr, hm', count_cons', count_cons']
        have := h3 c'; omega
  by_cases hlt : e < s
  · rw [transferCapture_swap r c0 c1 s e hlt]; exact key e s he (by omega) hsN
  · exact key s e hs (by omega) heN

/-- `Runner.uncapture` on a non-empty crawl stack -/
theorem capOk_uncapture {N : Int} {k : Nat} {r : Runner} (h : CapOk N k r) (hne : r.crawl ≠ []) :
    CapOk N k (uncapture r) := by
  obtain ⟨h1, h2, h3⟩ := h
  cases hcr : r.crawl with
  | nil => exact absurd hcr hne
  | cons x rest =>
    have hx : x < k := h2 x (by rw [hcr]; simp)
    have hpos : 0 < cnt r.m x := by have := h3 x; rw [hcr] at this; simp at this; omega
    have hu : uncapture r = { m := removeMatch r.m x, crawl := rest } := by simp [uncapture, hcr]
    rw [hu]
    refine ⟨Reach.rem _ x h1 hx hpos, ?_, ?_⟩
    · intro c hc; exact h2 c (by rw [hcr]; exact List.mem_cons_of_mem _ hc)
    · intro c
      show rest.count c ≤ cnt (removeMatch r.m x) c
      rw [cnt_removeMatch _ _ (by rw [reach_len h1]; exact hx)]
      have := h3 c
      rw [hcr, count_cons'] at this
      by_cases hcx : c = x
      · subst hcx; simp only [ite_true] at this ⊢; omega
      · simp only [hcx, ite_false] at this ⊢; omega

/-- **what a backreference reads**: the innermost live capture of a matched group is an interval inside the text -/
theorem capOk_ref {N : Int} {k : Nat} {r : Runner} (h : CapOk N k r) (c : Nat) (hc : c < k)
    (hm : isMatched r.m c = true) :
    0 ≤ matchIndex r.m c ∧ 0 ≤ matchLength r.m c ∧ matchIndex r.m c + matchLength r.m c ≤ N := by
  obtain ⟨h1, _, _⟩ := h
  obtain ⟨hb, hk, _⟩ := reach_inv N k r.m h1
  have hc' : c < r.m.matchcount.length := by omega
  have hne := (isMatched_iff_live r.m hb c hc').mp hm
  obtain ⟨xs, p, hxs⟩ : ∃ xs p, absOf r.m c = xs ++ [p] := by
    cases hrev : (absOf r.m c).reverse with
    | nil => simp at hrev; exact absurd hrev hne
    | cons p t => exact ⟨t.reverse, p, by have := congrArg List.reverse hrev; simpa using this⟩
  obtain ⟨s2, l2⟩ := p
  obtain ⟨hmi, hml⟩ := matchIndex_matchLength_top r.m hb c hc' xs s2 l2 hxs
  have hbd := (captures_in_bounds N k r.m h1 c hc).1 (s2, l2) (by rw [hxs]; simp)
  rw [hmi, hml]
  exact hbd

end RegexVerif.Lemmas.StackTypingCap
