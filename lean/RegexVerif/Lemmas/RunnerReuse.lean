/-
Helper lemmas about the runner/match reuse model (`Model/RunnerReuse.lean`).
-/
import RegexVerif.Model.RunnerReuse

namespace RegexVerif.Lemmas.RunnerReuse
open RegexVerif.RunnerReuse

/-! ### list facts -/

theorem set_set_take (L R : List Int) (a b : Int) (hR : 2 ≤ R.length) :
    (((L ++ R).set L.length a).set (L.length + 1) b).take (L.length + 2) = L ++ [a, b] := by
  match R, hR with
  | r0 :: r1 :: R', _ =>
    have h1 : (L ++ r0 :: r1 :: R').set L.length a = L ++ a :: r1 :: R' := by
      rw [List.set_append_right _ _ (Nat.le_refl _)]; simp
    have h2 : (L ++ a :: r1 :: R').set (L.length + 1) b = L ++ a :: b :: R' := by
      rw [List.set_append_right _ _ (by omega)]; simp
    rw [h1, h2]
    have : L.length + 2 = L.length + 2 := rfl
    rw [List.take_length_add_append]
    simp

/-! ### `addMatch` on the live view -/

theorem addMatch_count (s : Slot) (a b : Int) : (s.addMatch a b).count = s.count + 1 := rfl

/-- the array `addMatch` writes into is `live ++ R` with at least two cells in `R` -/
theorem addMatch_split (s : Slot) (h : s.lenOK) :
    ∃ R : List Int, 2 ≤ R.length ∧
      (let arr0 := if s.arr = [] then [0, 0] else s.arr
       if s.count * 2 + 2 > arr0.length
         then arr0.take (s.count * 2) ++ List.replicate (s.count * 8 - s.count * 2) 0
         else arr0) = s.live ++ R := by
  unfold Slot.lenOK at h
  unfold Slot.live
  obtain ⟨h, h1⟩ := h
  by_cases hnil : s.arr = []
  · -- nil array: count = 0
    have hc : s.count = 0 := by simp [hnil] at h; omega
    refine ⟨[0, 0], by simp, ?_⟩
    simp [hnil, hc]
  · simp only [hnil, if_false]
    by_cases hg : s.count * 2 + 2 > s.arr.length
    · simp only [hg, if_true]
      have hpos : 0 < s.arr.length := List.length_pos_iff.mpr hnil
      refine ⟨List.replicate (s.count * 8 - s.count * 2) 0, by simp; omega, ?_⟩
      rw [Nat.mul_comm]
    · simp only [hg, if_false]
      refine ⟨s.arr.drop (2 * s.count), by simp; omega, ?_⟩
      simp

theorem live_addMatch (s : Slot) (a b : Int) (h : s.lenOK) :
    (s.addMatch a b).live = s.live ++ [a, b] ∧ (s.addMatch a b).lenOK := by
  obtain ⟨R, hR, hsplit⟩ := addMatch_split s h
  have hlen : s.live.length = s.count * 2 := by
    have := h.1
    unfold Slot.live; simp; omega
  have key : (s.addMatch a b).arr = ((s.live ++ R).set s.live.length a).set (s.live.length + 1) b := by
    unfold Slot.addMatch
    simp only at hsplit ⊢
    rw [hsplit, hlen]
  constructor
  · unfold Slot.live at *
    rw [addMatch_count, key]
    have : 2 * (s.count + 1) = (List.take (2 * s.count) s.arr).length + 2 := by rw [hlen]; omega
    rw [this]
    exact set_set_take _ R a b hR
  · unfold Slot.lenOK
    rw [addMatch_count, key]
    simp only [List.length_set, List.length_append]
    omega

/-! ### slots that agree below `2*count` -/

theorem equiv_refl (s : Slot) : Slot.Equiv s s := ⟨rfl, rfl⟩
theorem equiv_symm {s t : Slot} (h : Slot.Equiv s t) : Slot.Equiv t s := ⟨h.1.symm, h.2.symm⟩
theorem equiv_trans {s t u : Slot} (h1 : Slot.Equiv s t) (h2 : Slot.Equiv t u) : Slot.Equiv s u :=
  ⟨h1.1.trans h2.1, h1.2.trans h2.2⟩

theorem equiv_addMatch {s t : Slot} (h : Slot.Equiv s t) (hs : s.lenOK) (ht : t.lenOK) (a b : Int) :
    Slot.Equiv (s.addMatch a b) (t.addMatch a b) := by
  refine ⟨by simp [addMatch_count, h.1], ?_⟩
  rw [(live_addMatch s a b hs).1, (live_addMatch t a b ht).1, h.2]

theorem live_removeMatch {s s' : Slot} (h : s.removeMatch = some s') :
    s'.count = s.count - 1 ∧ s'.live = s.live.take (2 * (s.count - 1)) ∧ (s.lenOK → s'.lenOK) := by
  unfold Slot.removeMatch at h
  by_cases hc : s.count = 0
  · simp [hc] at h
  · simp only [hc, if_false, Option.some.injEq] at h
    subst h
    refine ⟨rfl, ?_, ?_⟩
    · unfold Slot.live
      simp only [List.take_take]
      congr 1
      omega
    · unfold Slot.lenOK; simp only; omega

theorem equiv_removeMatch {s t s' : Slot} (h : Slot.Equiv s t) (hs : s.removeMatch = some s') :
    ∃ t', t.removeMatch = some t' ∧ Slot.Equiv s' t' := by
  have hc : s.count ≠ 0 := by
    intro hc; simp [Slot.removeMatch, hc] at hs
  have ht : t.removeMatch = some { t with count := t.count - 1 } := by
    unfold Slot.removeMatch; simp [← h.1, hc]
  refine ⟨_, ht, ?_⟩
  obtain ⟨c1, l1, _⟩ := live_removeMatch hs
  obtain ⟨c2, l2, _⟩ := live_removeMatch ht
  exact ⟨by rw [c1, c2, h.1], by rw [l1, l2, h.1, h.2]⟩

/-- every read through `rdLive` is a function of the count and the live cells -/
theorem rdLive_congr {s t : Slot} (h : Slot.Equiv s t) (i : Int) : rdLive s i = rdLive t i := by
  unfold rdLive; rw [h.2]

theorem isMatched_congr {s t : Slot} (h : Slot.Equiv s t) :
    s.isMatchedWith rdLive = t.isMatchedWith rdLive := by
  unfold Slot.isMatchedWith; rw [h.1, rdLive_congr h]

theorem matchIndex_congr {s t : Slot} (h : Slot.Equiv s t) :
    s.matchIndexWith rdLive = t.matchIndexWith rdLive := by
  unfold Slot.matchIndexWith
  rw [h.1, rdLive_congr h]
  cases rdLive t ((t.count : Int) * 2 - 2) with
  | none => rfl
  | some i => simp only [rdLive_congr h]

theorem matchLength_congr {s t : Slot} (h : Slot.Equiv s t) :
    s.matchLengthWith rdLive = t.matchLengthWith rdLive := by
  unfold Slot.matchLengthWith
  rw [h.1, rdLive_congr h]
  cases rdLive t ((t.count : Int) * 2 - 1) with
  | none => rfl
  | some i => simp only [rdLive_congr h]

/-- `balanceMatch` on agreeing slots: both fail, or both succeed with agreeing results -/
theorem equiv_balanceMatch {s t : Slot} (h : Slot.Equiv s t) (hs : s.lenOK) (ht : t.lenOK) :
    (s.balanceMatchWith rdLive = none ∧ t.balanceMatchWith rdLive = none) ∨
    ∃ s' t', s.balanceMatchWith rdLive = some s' ∧ t.balanceMatchWith rdLive = some t' ∧ Slot.Equiv s' t' := by
  unfold Slot.balanceMatchWith
  have hr : rdLive s = rdLive t := funext (rdLive_congr h)
  rw [hr, h.1]
  cases balancePair (rdLive t) t.count with
  | none => exact Or.inl ⟨rfl, rfl⟩
  | some p => exact Or.inr ⟨_, _, rfl, rfl, equiv_addMatch h hs ht _ _⟩

/-! ### references point below themselves: reads never reach stale cells -/

theorem live_length (s : Slot) (h : s.lenOK) : s.live.length = 2 * s.count := by
  have := h.1; unfold Slot.live; simp; omega

/-- below `2*count` the Go array and its live part hold the same cells -/
theorem rd_eq_live (s : Slot) (i : Int) (h : i < 2 * (s.count : Int)) : rd s.arr i = rd s.live i := by
  unfold rd Slot.live
  by_cases h0 : 0 ≤ i
  · simp only [h0, if_true, List.getElem?_take]
    have : i.toNat < 2 * s.count := by omega
    simp [this]
  · simp [h0]

theorem rd_some_lt {l : List Int} {i v : Int} (h : rd l i = some v) : 0 ≤ i ∧ i < l.length ∧ l[i.toNat]? = some v := by
  unfold rd at h
  by_cases h0 : 0 ≤ i
  · simp only [h0, if_true] at h
    have := (List.getElem?_eq_some_iff.mp h).1
    exact ⟨h0, by omega, h⟩
  · simp [h0] at h

theorem wf_ref {s : Slot} (h : s.WF) {i v : Int} (hr : rdLive s i = some v) (hv : v < 0) : -3 - v < i := by
  obtain ⟨h0, _, hg⟩ := rd_some_lt hr
  have := h.2 i.toNat v hg hv
  omega

theorem isMatched_any_eq_live (s : Slot) : s.isMatchedWith rdAny = s.isMatchedWith rdLive := by
  unfold Slot.isMatchedWith rdAny rdLive
  by_cases hc : s.count = 0
  · simp [hc]
  · simp only [hc, if_false]
    rw [rd_eq_live s _ (by omega)]

/-- `matchIndex` never reads a cell at or above `2*matchcount` -/
theorem matchIndex_any_eq_live (s : Slot) (h : s.WF) : s.matchIndexWith rdAny = s.matchIndexWith rdLive := by
  unfold Slot.matchIndexWith
  have e : rdAny s ((s.count : Int) * 2 - 2) = rdLive s ((s.count : Int) * 2 - 2) := rd_eq_live s _ (by omega)
  rw [e]
  cases hr : rdLive s ((s.count : Int) * 2 - 2) with
  | none => rfl
  | some i =>
    simp only
    by_cases hi : i ≥ 0
    · simp [hi]
    · simp only [hi, if_false]
      have := wf_ref h hr (by omega)
      exact rd_eq_live s _ (by omega)

theorem matchLength_any_eq_live (s : Slot) (h : s.WF) : s.matchLengthWith rdAny = s.matchLengthWith rdLive := by
  unfold Slot.matchLengthWith
  have e : rdAny s ((s.count : Int) * 2 - 1) = rdLive s ((s.count : Int) * 2 - 1) := rd_eq_live s _ (by omega)
  rw [e]
  cases hr : rdLive s ((s.count : Int) * 2 - 1) with
  | none => rfl
  | some i =>
    simp only
    by_cases hi : i ≥ 0
    · simp [hi]
    · simp only [hi, if_false]
      have := wf_ref h hr (by omega)
      exact rd_eq_live s _ (by omega)

/-- `balanceMatch` never reads a cell at or above `2*matchcount` -/
theorem balancePair_any_eq_live (s : Slot) (h : s.WF) :
    balancePair (rdAny s) s.count = balancePair (rdLive s) s.count := by
  unfold balancePair
  have e : rdAny s ((s.count : Int) * 2 - 2) = rdLive s ((s.count : Int) * 2 - 2) := rd_eq_live s _ (by omega)
  simp only [e]
  cases hr : rdLive s ((s.count : Int) * 2 - 2) with
  | none => rfl
  | some v0 =>
    simp only
    have ht1 : (if v0 < 0 then -3 - v0 else (s.count : Int) * 2 - 2) ≤ (s.count : Int) * 2 - 2 := by
      by_cases hv : v0 < 0
      · simp only [hv, if_true]; have := wf_ref h hr hv; omega
      · simp [hv]
    have e2 : ∀ d : Int, d ≤ 1 →
        rdAny s ((if v0 < 0 then -3 - v0 else (s.count : Int) * 2 - 2) - 2 + d) =
        rdLive s ((if v0 < 0 then -3 - v0 else (s.count : Int) * 2 - 2) - 2 + d) :=
      fun d hd => rd_eq_live s _ (by omega)
    have e20 := e2 0 (by omega)
    have e21 := e2 1 (by omega)
    simp only [Int.add_zero] at e20
    simp only [e20, e21]

theorem balanceMatch_any_eq_live (s : Slot) (h : s.WF) :
    s.balanceMatchWith rdAny = s.balanceMatchWith rdLive := by
  unfold Slot.balanceMatchWith; rw [balancePair_any_eq_live s h]

theorem liveWF_append {l : List Int} (h : LiveWF l) (a b : Int)
    (ha : a < 0 → -3 - a < (l.length : Int)) (hb : b < 0 → -3 - b < (l.length : Int) + 1) : LiveWF (l ++ [a, b]) := by
  intro p v hp hv
  by_cases hlt : p < l.length
  · rw [List.getElem?_append_left hlt] at hp
    exact h p v hp hv
  · rw [List.getElem?_append_right (by omega)] at hp
    have hp2 : p - l.length = 0 ∨ p - l.length = 1 := by
      have := (List.getElem?_eq_some_iff.mp hp).1
      simp at this; omega
    cases hp2 with
    | inl h0 => rw [h0] at hp; simp at hp; subst hp; have := ha hv; omega
    | inr h1 => rw [h1] at hp; simp at hp; subst hp; have := hb hv; omega

theorem wf_addMatch {s : Slot} (h : s.WF) (a b : Int)
    (ha : a < 0 → -3 - a < 2 * (s.count : Int)) (hb : b < 0 → -3 - b < 2 * (s.count : Int) + 1) :
    (s.addMatch a b).WF := by
  obtain ⟨hl, hw⟩ := live_addMatch s a b h.1
  refine ⟨hw, ?_⟩
  rw [hl]
  have hlen := live_length s h.1
  exact liveWF_append h.2 a b (by rw [hlen]; intro h'; have := ha h'; omega) (by rw [hlen]; intro h'; have := hb h'; omega)

/-- `Capture` adds `(start, end-start)` with `0 ≤ start ≤ end`: no reference at all -/
theorem wf_capture {s : Slot} (h : s.WF) (start len : Int) (h1 : 0 ≤ start) (h2 : 0 ≤ len) :
    (s.addMatch start len).WF :=
  wf_addMatch h start len (by omega) (by omega)

theorem wf_removeMatch {s s' : Slot} (h : s.WF) (hr : s.removeMatch = some s') : s'.WF := by
  obtain ⟨_, hl, hk⟩ := live_removeMatch hr
  refine ⟨hk h.1, ?_⟩
  rw [hl]
  intro p v hp hv
  rw [List.getElem?_take] at hp
  by_cases hlt : p < 2 * (s.count - 1)
  · simp only [hlt, if_true] at hp; exact h.2 p v hp hv
  · simp [hlt] at hp

/-- the cells `balanceMatch` appends are references that point below the position they are written to -/
theorem wf_balanceMatch {s s' : Slot} (h : s.WF) (hb : s.balanceMatchWith rdLive = some s') : s'.WF := by
  unfold Slot.balanceMatchWith at hb
  cases hp : balancePair (rdLive s) s.count with
  | none => simp [hp] at hb
  | some p =>
    simp only [hp, Option.map_some, Option.some.injEq] at hb
    subst hb
    have hlen := live_length s h.1
    unfold balancePair at hp
    cases hr : rdLive s ((s.count : Int) * 2 - 2) with
    | none => simp [hr] at hp
    | some v0 =>
      simp only [hr] at hp
      have ht1 : (if v0 < 0 then -3 - v0 else (s.count : Int) * 2 - 2) ≤ (s.count : Int) * 2 - 2 := by
        by_cases hv : v0 < 0
        · simp only [hv, if_true]; have := wf_ref h hr hv; omega
        · simp [hv]
      generalize htg : (if v0 < 0 then -3 - v0 else (s.count : Int) * 2 - 2) - 2 = target at hp
      have htl : target ≤ (s.count : Int) * 2 - 4 := by omega
      by_cases hge : target ≥ 0
      · simp only [hge, if_true] at hp
        cases hrt : rdLive s target with
        | none => simp [hrt] at hp
        | some v =>
          simp only [hrt] at hp
          by_cases hv : v < 0
          · simp only [hv, if_true] at hp
            cases hrt1 : rdLive s (target + 1) with
            | none => simp [hrt1] at hp
            | some v' =>
              simp only [hrt1, Option.some.injEq] at hp
              subst hp
              apply wf_addMatch h
              · intro _; have := wf_ref h hrt hv; omega
              · intro hv'; have := wf_ref h hrt1 hv'; omega
          · simp only [hv, if_false, Option.some.injEq] at hp
            subst hp
            apply wf_addMatch h <;> (intro _; omega)
      · simp only [hge, if_false, Option.some.injEq] at hp
        subst hp
        apply wf_addMatch h <;> (intro _; omega)

/-- after `reset` (count 0) every slot is well formed, whatever its array holds -/
theorem wf_reset (s : Slot) (h : s.arr.length ≠ 1) : ({ s with count := 0 } : Slot).WF := by
  refine ⟨⟨by simp, h⟩, ?_⟩
  intro p v hp; simp [Slot.live] at hp

/-! ### compaction -/

theorem compactLoop_bounds : ∀ (fuel : Nat) (a : List Int) (i : Nat) (j : Int) (a' : List Int) (j' : Int),
    compactLoop fuel a i j = some (a', j') → a'.length = a.length ∧ j' ≤ j + fuel := by
  intro fuel
  induction fuel with
  | zero => intro a i j a' j' h; simp [compactLoop] at h; obtain ⟨rfl, rfl⟩ := h; simp
  | succ fuel ih =>
    intro a i j a' j' h
    simp only [compactLoop] at h
    cases hv : a[i]? with
    | none => simp [hv] at h; obtain ⟨rfl, rfl⟩ := h; constructor <;> omega
    | some v =>
      simp only [hv] at h
      by_cases hneg : v < 0
      · simp only [hneg, if_true] at h
        have := ih a (i + 1) (j - 1) a' j' h
        constructor
        · exact this.1
        · have := this.2; push_cast; omega
      · simp only [hneg, if_false] at h
        by_cases hj : j < 0
        · simp [hj] at h
        · simp only [hj, if_false] at h
          have := ih _ (i + 1) (j + 1) a' j' h
          constructor
          · rw [this.1]; split <;> simp
          · have := this.2; push_cast; omega

/-- result of the compaction loops on a live part -/
def compactRun (l : List Int) : Option (List Int × Int) :=
  compactLoop (l.length - firstNeg l) l (firstNeg l) (firstNeg l)

theorem compact_eq (s : Slot) : s.compact =
    match compactRun s.live with
    | none => none
    | some (a', j) => if j < 0 then none else some { count := j.toNat / 2, arr := a' ++ s.arr.drop (2 * s.count) } := rfl

theorem firstNeg_le (l : List Int) : firstNeg l ≤ l.length := by
  induction l with
  | nil => simp [firstNeg]
  | cons v vs ih => simp only [firstNeg]; split <;> simp <;> omega

/-- compaction is a function of the count and the live cells: agreeing slots compact to agreeing slots -/
theorem equiv_compact {s t : Slot} (h : Slot.Equiv s t) :
    (s.compact = none ∧ t.compact = none) ∨
    ∃ s' t', s.compact = some s' ∧ t.compact = some t' ∧ Slot.Equiv s' t' := by
  rw [compact_eq, compact_eq, h.2]
  cases hl : compactRun t.live with
  | none => exact Or.inl ⟨rfl, rfl⟩
  | some r =>
    obtain ⟨a', j⟩ := r
    by_cases hj : j < 0
    · simp only [hj, if_true]; exact Or.inl ⟨trivial, trivial⟩
    · simp only [hj, if_false]
      refine Or.inr ⟨_, _, rfl, rfl, rfl, ?_⟩
      obtain ⟨hlen, hjb⟩ := compactLoop_bounds _ _ _ _ _ _ hl
      have hfn := firstNeg_le t.live
      have hle : 2 * (j.toNat / 2) ≤ a'.length := by
        rw [hlen]; omega
      unfold Slot.live
      simp only
      rw [List.take_append_of_le_length hle, List.take_append_of_le_length hle]

/-! ### the capacity of the recycled backtracking stack -/

/-- what `ensureTrack` preserves: the position is inside the array and the array is within a
    non-negative limit (true after `initMatch`, kept by `growTrack`) -/
def TrackInv (limit : Int) (len pos : Nat) : Prop := pos ≤ len ∧ (limit ≥ 0 → (len : Int) ≤ limit)

/-- the new length `growTrack` aims for -/
def newLen (limit : Int) (len : Nat) : Nat :=
  if limit ≥ 0 ∧ (((if len * 2 = 0 then 1 else len * 2 : Nat)) : Int) > limit then limit.toNat
  else (if len * 2 = 0 then 1 else len * 2)

theorem growTrack_eq (limit : Int) (len pos : Nat) :
    growTrack limit len pos =
      if newLen limit len ≤ len then none else some (newLen limit len, pos + (newLen limit len - len)) := rfl

theorem newLen_le_limit (limit : Int) (len : Nat) (h : limit ≥ 0) (hl : (len : Int) ≤ limit) :
    (newLen limit len : Int) ≤ limit := by
  unfold newLen; split <;> split <;> omega

/-- below the limit (or without one) the stack can grow -/
theorem newLen_gt (limit : Int) (len : Nat) (h : limit < 0 ∨ (len : Int) < limit) : len < newLen limit len := by
  unfold newLen; split <;> split <;> omega

/-- at the limit it cannot -/
theorem newLen_at_limit (limit : Int) (len : Nat) (h : limit ≥ 0) (hl : (len : Int) = limit) :
    newLen limit len ≤ len := by
  unfold newLen; split <;> split <;> omega

/-- `ensureTrack` fails exactly when the used depth plus the reserve exceeds the limit -- whatever the
    current capacity `len` is -- and otherwise keeps the depth -/
theorem ensureTrack_spec (limit : Int) (tc : Nat) :
    ∀ (fuel len pos : Nat), TrackInv limit len pos → tc * 4 - pos ≤ fuel →
      if limit ≥ 0 ∧ ((len - pos : Nat) : Int) + tc * 4 > limit then ensureTrack limit tc fuel len pos = none
      else ∃ len' pos', ensureTrack limit tc fuel len pos = some (len', pos') ∧
             len' - pos' = len - pos ∧ tc * 4 ≤ pos' ∧ TrackInv limit len' pos' := by
  intro fuel
  induction fuel with
  | zero =>
    intro len pos hi hf
    unfold TrackInv at hi
    by_cases hc : limit ≥ 0 ∧ ((len - pos : Nat) : Int) + tc * 4 > limit
    · simp only [hc, and_self, if_true, ensureTrack]
      have : pos < tc * 4 := by omega
      simp [this]
    · simp only [hc, if_false]
      have : ¬ pos < tc * 4 := by omega
      exact ⟨len, pos, by simp [ensureTrack, this], rfl, by omega, hi⟩
  | succ fuel ih =>
    intro len pos hi hf
    simp only [ensureTrack]
    by_cases hp : pos < tc * 4
    · simp only [hp, if_true, growTrack_eq]
      by_cases hg : newLen limit len ≤ len
      · simp only [hg, if_true]
        -- growth is impossible only at the limit
        have hlim : limit ≥ 0 ∧ ((len - pos : Nat) : Int) + tc * 4 > limit := by
          unfold TrackInv at hi
          by_cases hl : limit < 0 ∨ (len : Int) < limit
          · have := newLen_gt limit len hl; omega
          · omega
        simp [hlim]
      · simp only [hg, if_false]
        have hi' : TrackInv limit (newLen limit len) (pos + (newLen limit len - len)) := by
          unfold TrackInv at *
          refine ⟨by omega, fun hl => newLen_le_limit limit len hl (hi.2 hl)⟩
        have hd : newLen limit len - (pos + (newLen limit len - len)) = len - pos := by
          unfold TrackInv at hi; omega
        have := ih _ _ hi' (by omega)
        rw [hd] at this
        exact this
    · simp only [hp, if_false]
      unfold TrackInv at hi
      have : ¬ (limit ≥ 0 ∧ ((len - pos : Nat) : Int) + tc * 4 > limit) := by omega
      simp only [this, if_false]
      exact ⟨len, pos, rfl, rfl, by omega, hi⟩

/-! ### `scanInit`, `put` -/

theorem view_reset (b : Builder) (text : Option Nat) (ts : Int) :
    (b.reset text ts).view = List.replicate b.slots.length (0, []) := by
  unfold Builder.reset Builder.view Slot.live
  simp only [List.map_map]
  apply List.ext_getElem
  · simp
  · intro i h1 h2; simp

theorem view_new (n : Nat) (text : Option Nat) (ts : Int) :
    (Builder.new n text ts).view = List.replicate n (0, []) := by
  unfold Builder.new Builder.view Slot.live
  simp only [List.map_map]
  apply List.ext_getElem
  · simp
  · intro i h1 h2; simp

theorem runInv_fresh (re : Re) : RunInv re Runner.fresh := by
  constructor
  · intro h; simp [Runner.fresh] at h
  · intro m h; simp [Runner.fresh] at h

theorem poolInv_fresh (re : Re) : PoolInv re Runner.fresh :=
  ⟨rfl, rfl, by intro m h; simp [Runner.fresh] at h, runInv_fresh re⟩

/-- the observable state after `scanInit`, written out: nothing of the incoming runner is left in it
    except the selected program -/
theorem observe_scanInit (re : Re) (a : ScanArgs) (r : Runner) (h : RunInv re r) :
    observe (scanInit re a r) =
      { code := r.code, debug := re.debug, runtextstart := a.textstart, runtext := some a.rt,
        runtextpos := a.textstart, runtextend := a.rtLen, trackUsed := [], stackUsed := [], crawlUsed := [],
        runtrackcount := re.trackCount,
        matchView := some (List.replicate re.capsize (0, []), false, a.textstart, a.textInfo),
        ignoreTimeout := a.noTimeout, timeout := a.timeout,
        deadline := if a.noTimeout then none else some a.newDeadline } := by
  obtain ⟨htc, hm⟩ := h
  have hview : (match r.runmatch with
      | none => Builder.new re.capsize a.textInfo a.textstart
      | some m => m.reset a.textInfo a.textstart).view = List.replicate re.capsize (0, []) := by
    cases hr : r.runmatch with
    | none => exact view_new _ _ _
    | some m => simp only; rw [view_reset, hm m hr]
  have hflags : ∀ m : Builder, (m.reset a.textInfo a.textstart).balancing = false ∧
      (m.reset a.textInfo a.textstart).textstart = a.textstart ∧ (m.reset a.textInfo a.textstart).text = a.textInfo :=
    fun m => ⟨rfl, rfl, rfl⟩
  have hvs : ∀ m, r.runmatch = some m →
      ({ slots := List.map (fun s => ({ count := 0, arr := s.arr } : Slot)) m.slots, balancing := false,
         textstart := a.textstart, text := a.textInfo } : Builder).view = List.replicate re.capsize (0, []) := by
    intro m hr
    have := view_reset m a.textInfo a.textstart
    rw [hm m hr] at this
    simpa [Builder.reset] using this
  have hvn : (Builder.new re.capsize a.textInfo a.textstart).view = List.replicate re.capsize (0, []) := view_new _ _ _
  cases hal : r.allocated <;> cases hto : a.noTimeout <;> cases hr : r.runmatch <;>
    simp [scanInit, initMatch, observe, hal, hto, hr, hvn, Builder.reset, Builder.new, List.drop_length] <;>
    first
      | exact hvs _ hr
      | (refine ⟨?_, ?_⟩ <;> first | exact htc hal | exact hvs _ hr | (simpa [Builder.new] using hvn))
      | (simpa [Builder.new] using hvn)
      | exact htc hal

end RegexVerif.Lemmas.RunnerReuse
