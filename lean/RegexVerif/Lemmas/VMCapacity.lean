/-
The interpreter model as a refinement of the abstract capacity system of Model/Capacity.lean (C13):
every iteration of `VM.step` is one legal move `go k p t` / `pop q t` whose storage check happens exactly
when `step` reports one, and whose pushes are bounded by the weight of the opcode in the regenerated
fingerprint table.
-/
import RegexVerif.Lemmas.VM
import RegexVerif.Lemmas.Capacity

namespace RegexVerif.Lemmas.VMCapacity
open RegexVerif.VM RegexVerif.Code RegexVerif RegexVerif.Lemmas.VM

/-- most slots by which one visit of the opcode (any of its cases) lets the backtracking stack grow -/
def pushMax : Op → Nat
  | .oneloop | .notoneloop | .setloop | .onelazy | .notonelazy | .setlazy => 3
  | .lazybranch => 2
  | .branchmark | .lazybranchmark | .branchcount => 3
  | .lazybranchcount => 4
  | .nullcount | .setcount | .nullmark | .setmark | .setjump => 1
  | .capturemark | .getmark | .forejump => 2
  | _ => 0

/-- the model's bound is the weight computed from the per-case fingerprints regenerated from runner.go -/
theorem pushMax_eq_weight : ∀ o : Op, pushMax o = Capacity.weight o.toNat := by
  intro o; cases o <;> decide

/-- growth of the backtracking stack by a case body: at most `W`, and none when it leaves by `break` -/
def LenOk (s : VMState) (W : Nat) : Res → Prop
  | .error _ => True
  | .ok (s1, e) => s1.track.length ≤ s.track.length + W ∧ (e = .back → s1.track.length ≤ s.track.length)

macro "len_tac" : tactic => `(tactic| (
  try simp only [bind, Except.bind, pure, Except.pure, Except.map]
  repeat' split
  all_goals (try simp_all [LenOk, push0, push1, push2, push3, pushNeg1, pushNeg2, spush, spush2, textto, assertion])
  all_goals (try omega)))

theorem caseChar_len (p : Prog) (env : Env) (sel : Nat) (s : VMState) : LenOk s 0 (caseChar p env sel s) := by
  unfold caseChar; len_tac

theorem caseRep_len (p : Prog) (env : Env) (sel : Nat) (s : VMState) : LenOk s 0 (caseRep p env sel s) := by
  unfold caseRep; len_tac

theorem caseLoop_len (p : Prog) (env : Env) (sel : Nat) (a : Bool) (s : VMState) :
    LenOk s 3 (caseLoop p env sel a s) := by
  unfold caseLoop; len_tac

theorem caseLoopAtomic_len (p : Prog) (env : Env) (sel : Nat) (s : VMState) :
    LenOk s 0 (caseLoop p env sel true s) := by
  unfold caseLoop; len_tac

theorem caseLoopBack_len (s : VMState) : LenOk s 3 (caseLoopBack s) := by
  unfold caseLoopBack; len_tac

theorem caseLazy_len (p : Prog) (env : Env) (s : VMState) : LenOk s 3 (caseLazy p env s) := by
  unfold caseLazy; len_tac

theorem caseLazyBack_len (p : Prog) (env : Env) (sel : Nat) (s : VMState) :
    LenOk s 3 (caseLazyBack p env sel s) := by
  unfold caseLazyBack; len_tac

theorem caseMulti_len (p : Prog) (env : Env) (s : VMState) : LenOk s 0 (caseMulti p env s) := by
  unfold caseMulti; len_tac

theorem caseRef_len (p : Prog) (env : Env) (s : VMState) : LenOk s 0 (caseRef p env s) := by
  unfold caseRef; len_tac

theorem caseTestref_len (p : Prog) (s : VMState) : LenOk s 0 (caseTestref p s) := by
  unfold caseTestref; len_tac

theorem assertion_len (s : VMState) (b : Bool) : LenOk s 0 (.ok (assertion s b)) := by
  cases b <;> simp [LenOk, assertion]

theorem map_assert_len {α : Type} (s : VMState) (x : M α) (f : α → Bool) :
    LenOk s 0 (x.map (fun c => assertion s (f c))) := by
  cases x with
  | error e => simp [Except.map, LenOk]
  | ok a => simp only [Except.map]; exact assertion_len s _

theorem caseBol_len (env : Env) (s : VMState) : LenOk s 0 (caseBol env s) := by
  unfold caseBol; split
  · exact map_assert_len s _ _
  · simp [LenOk]

theorem caseEol_len (env : Env) (s : VMState) : LenOk s 0 (caseEol env s) := by
  unfold caseEol; split
  · exact map_assert_len s _ _
  · simp [LenOk]

theorem caseBoundary_len (env : Env) (w : Nat → Bool) (b : Bool) (s : VMState) :
    LenOk s 0 (caseBoundary env w b s) := by
  unfold caseBoundary; exact map_assert_len s _ _

theorem caseEndZ_len (env : Env) (s : VMState) : LenOk s 0 (caseEndZ env s) := by
  unfold caseEndZ
  simp only
  split
  · simp [LenOk]
  · split
    · exact assertion_len s _
    · split
      · exact map_assert_len s _ _
      · simp [LenOk]

theorem caseGoto_len (p : Prog) (s : VMState) : LenOk s 0 (caseGoto p s) := by
  unfold caseGoto; len_tac

theorem caseLazybranchBack_len (p : Prog) (s : VMState) : LenOk s 0 (caseLazybranchBack p s) := by
  unfold caseLazybranchBack; len_tac

theorem casePop1Back_len (s : VMState) : LenOk s 0 (casePop1Back s) := by
  unfold casePop1Back; repeat' split
  all_goals simp [LenOk]

theorem casePop2Back_len (s : VMState) : LenOk s 0 (casePop2Back s) := by
  unfold casePop2Back; repeat' split
  all_goals simp [LenOk]

theorem texttoStack_track {env : Env} {s s' : VMState} {v : Int} (h : texttoStack env s v = .ok s') :
    s'.track = s.track := by
  unfold texttoStack at h
  split at h
  · cases h; rfl
  · cases h

theorem restoreMark_track {s s' : VMState} (h : restoreMark s = .ok s') :
    s'.track.length + 1 = s.track.length := by
  unfold restoreMark at h
  split at h
  · next v rest hs => cases h; simp [spush, hs]
  · cases h

theorem uncapture_track {s s' : VMState} (h : uncapture s = .ok s') : s'.track = s.track := by
  have := uncapture_ok s
  rw [h] at this
  exact this.1

theorem uncaptureTo_track {t : Int} {fuel : Nat} {s s' : VMState} (h : uncaptureTo t fuel s = .ok s') :
    s'.track = s.track := by
  have := uncaptureTo_ok t fuel s
  rw [h] at this
  exact this.1

theorem cutFrames_len (p : Prog) : ∀ (fuel k : Nat) (t t' : List Int),
    cutFrames p fuel k t = some t' → t'.length + k = t.length := by
  intro fuel
  induction fuel with
  | zero =>
    intro k t t' h
    cases k with
    | zero => simp [cutFrames] at h; subst h; rfl
    | succ k => simp [cutFrames] at h
  | succ fuel ih =>
    intro k t t' h
    cases k with
    | zero => simp [cutFrames] at h; subst h; rfl
    | succ k =>
      cases t with
      | nil => simp [cutFrames] at h
      | cons c rest =>
        simp only [cutFrames] at h
        split at h
        · cases h
        · next sz hsz =>
          split at h
          · next hle =>
            have := ih _ _ _ h
            simp only [List.length_drop, List.length_cons] at this ⊢
            omega
          · cases h

theorem trackto_track {p : Prog} {s s' : VMState} {n : Int} (h : trackto p s n = .ok s') :
    s'.track.length ≤ s.track.length := by
  unfold trackto at h
  split at h
  · split at h
    · cases h
    · next c t hc =>
      cases h
      have := cutFrames_len p _ _ _ _ hc
      simp only at this ⊢
      omega
    · cases h
  · cases h

theorem caseGetmark_len (env : Env) (s : VMState) : LenOk s 2 (caseGetmark env s) := by
  unfold caseGetmark
  split
  · next v rest hs =>
    cases h : texttoStack env (push1 { s with stack := rest } v) v with
    | error e => simp [Except.map, LenOk]
    | ok s' =>
      have := texttoStack_track h
      simp [Except.map, LenOk, this, push1]
  · simp [LenOk]

theorem caseRestoreBack_len (s : VMState) : LenOk s 0 (caseRestoreBack s) := by
  unfold caseRestoreBack
  cases h : restoreMark s with
  | error e => simp [Except.map, LenOk]
  | ok s' =>
    have := restoreMark_track h
    simp only [Except.map, LenOk]
    omega

theorem caseCapturemark_len (p : Prog) (s : VMState) : LenOk s 2 (caseCapturemark p s) := by
  unfold caseCapturemark; len_tac

theorem caseCapturemarkBack_len (p : Prog) (s : VMState) : LenOk s 0 (caseCapturemarkBack p s) := by
  unfold caseCapturemarkBack
  simp only [bind, Except.bind, pure, Except.pure]
  cases operand p s 0 with
  | error e => simp [LenOk]
  | ok c0 =>
    cases operand p s 1 with
    | error e => simp [LenOk]
    | ok c1 =>
      cases h1 : restoreMark s with
      | error e => simp [LenOk]
      | ok s1 =>
        have l1 := restoreMark_track h1
        dsimp only
        cases h2 : uncapture s1 with
        | error e => simp [LenOk]
        | ok s2 =>
          have l2 := uncapture_track h2
          dsimp only
          split
          · cases h3 : uncapture s2 with
            | error e => simp [LenOk]
            | ok s3 =>
              have l3 := uncapture_track h3
              simp only [LenOk, l3, l2]
              omega
          · simp only [LenOk, l2]
            omega

theorem caseBranchmark_len (p : Prog) (s : VMState) : LenOk s 3 (caseBranchmark p s) := by
  unfold caseBranchmark; len_tac

theorem caseBranchmarkBack_len (s : VMState) : LenOk s 3 (caseBranchmarkBack s) := by
  unfold caseBranchmarkBack; len_tac

theorem caseLazybranchmark_len (s : VMState) : LenOk s 3 (caseLazybranchmark s) := by
  unfold caseLazybranchmark; len_tac

theorem caseLazybranchmarkBack_len (p : Prog) (s : VMState) : LenOk s 3 (caseLazybranchmarkBack p s) := by
  unfold caseLazybranchmarkBack; len_tac

theorem caseLazybranchmarkBack2_len (s : VMState) : LenOk s 0 (caseLazybranchmarkBack2 s) := by
  unfold caseLazybranchmarkBack2; len_tac

theorem caseSetcount_len (p : Prog) (m : Int) (s : VMState) : LenOk s 1 (caseSetcount p m s) := by
  unfold caseSetcount; len_tac

theorem caseBranchcount_len (p : Prog) (s : VMState) : LenOk s 3 (caseBranchcount p s) := by
  unfold caseBranchcount; len_tac

theorem caseBranchcountBack_len (env : Env) (s : VMState) : LenOk s 3 (caseBranchcountBack env s) := by
  unfold caseBranchcountBack
  split
  · next pmark rest count mark srest h1 h2 =>
    dsimp only
    split
    · cases h : texttoStack env { s with track := rest, stack := srest } mark with
      | error e => simp [Except.map, LenOk]
      | ok s' =>
        have := texttoStack_track h
        simp [Except.map, LenOk, pushNeg2, this, h1]
    · simp [LenOk, spush2, h1]; omega
  · simp [LenOk]
  · simp [LenOk]

theorem caseBranchcountBack2_len (s : VMState) : LenOk s 0 (caseBranchcountBack2 s) := by
  unfold caseBranchcountBack2; len_tac

theorem caseLazybranchcount_len (p : Prog) (s : VMState) : LenOk s 4 (caseLazybranchcount p s) := by
  unfold caseLazybranchcount; len_tac

theorem caseLazybranchcountBack_len (p : Prog) (s : VMState) : LenOk s 4 (caseLazybranchcountBack p s) := by
  unfold caseLazybranchcountBack; len_tac

theorem caseLazybranchcountBack2_len (s : VMState) : LenOk s 0 (caseLazybranchcountBack2 s) := by
  unfold caseLazybranchcountBack2; len_tac

theorem caseSetjump_len (s : VMState) : LenOk s 1 (caseSetjump s) := by
  unfold caseSetjump; len_tac

theorem caseBackjump_len (p : Prog) (s : VMState) : LenOk s 0 (caseBackjump p s) := by
  unfold caseBackjump
  split
  · next cp tp rest hs =>
    simp only [bind, Except.bind, pure, Except.pure]
    cases h1 : trackto p { s with stack := rest } tp with
    | error e => simp [LenOk]
    | ok s1 =>
      have l1 := trackto_track h1
      dsimp only
      cases h2 : uncaptureTo cp s1.cap.crawl.length s1 with
      | error e => simp [LenOk]
      | ok s2 =>
        have l2 := uncaptureTo_track h2
        have l1' : s1.track.length ≤ s.track.length := l1
        simp only [LenOk, l2]
        omega
  · simp [LenOk]

theorem caseForejump_len (p : Prog) (s : VMState) : LenOk s 2 (caseForejump p s) := by
  unfold caseForejump
  split
  · next cp tp rest hs =>
    cases h1 : trackto p { s with stack := rest } tp with
    | error e => simp [Except.map, LenOk]
    | ok s1 =>
      have l1 : s1.track.length ≤ s.track.length := by have := trackto_track h1; exact this
      simp only [Except.map, LenOk, push1, List.length_cons, reduceCtorEq, false_implies, and_true]
      omega
  · simp [LenOk]

theorem caseForejumpBack_len (s : VMState) : LenOk s 0 (caseForejumpBack s) := by
  unfold caseForejumpBack
  split
  · next cp rest hs =>
    cases h2 : uncaptureTo cp s.cap.crawl.length { s with track := rest } with
    | error e => simp [Except.map, LenOk]
    | ok s2 =>
      have l2 := uncaptureTo_track h2
      simp only [Except.map, LenOk, l2, hs, List.length_cons]
      omega
  · simp [LenOk]

theorem caseUpdateBumpalong_len (s : VMState) : LenOk s 0 (caseUpdateBumpalong s) := by
  unfold caseUpdateBumpalong
  split
  · next v hv =>
    split
    · have hne : s.track ≠ [] := by intro h; rw [h] at hv; simp at hv
      have : (s.track.dropLast ++ [s.textpos]).length = s.track.length := by
        simp [List.length_dropLast]; have := List.length_pos_iff.mpr hne; omega
      simp [LenOk, this]
    · simp [LenOk]
  · simp [LenOk]

theorem LenOk_mono {s : VMState} {a b : Nat} (h : a ≤ b) {r : Res} (hr : LenOk s a r) : LenOk s b r := by
  cases r with
  | error e => trivial
  | ok x => obtain ⟨s1, e⟩ := x; exact ⟨by have := hr.1; omega, hr.2⟩

theorem LenOk_use {s : VMState} {a b : Nat} {r : Res} (hr : LenOk s a r) (h : a ≤ b := by decide) :
    LenOk s b r := LenOk_mono h hr

/-- **every case of the switch lets the backtracking stack grow by at most the weight of its opcode**, and
    not at all when it leaves by `break` (then `backtrack()` pops one more slot) -/
theorem body_len (p : Prog) (env : Env) (s : VMState) (o : Op) (hop : Op.ofNat? s.oper.op = some o) :
    LenOk s (pushMax o) (body p env s) := by
  unfold body
  rw [hop]
  cases hm : modeOf s.oper with
  | none => cases o <;> exact trivial
  | some m =>
    cases m with
    | fwd =>
      cases o with
      | stop => simp [LenOk]
      | nothing => simp [LenOk]
      | prune => exact trivial
      | lazybranch => simp [LenOk, push1, pushMax]
      | setmark => simp [LenOk, push0, spush, pushMax]
      | nullmark => simp [LenOk, push0, spush, pushMax]
      | onerep => exact LenOk_use (caseRep_len _ _ _ _)
      | notonerep => exact LenOk_use (caseRep_len _ _ _ _)
      | setrep => exact LenOk_use (caseRep_len _ _ _ _)
      | oneloop => exact LenOk_use (caseLoop_len _ _ _ _ _)
      | notoneloop => exact LenOk_use (caseLoop_len _ _ _ _ _)
      | setloop => exact LenOk_use (caseLoop_len _ _ _ _ _)
      | oneloopatomic => exact LenOk_use (caseLoopAtomic_len _ _ _ _)
      | notoneloopatomic => exact LenOk_use (caseLoopAtomic_len _ _ _ _)
      | setloopatomic => exact LenOk_use (caseLoopAtomic_len _ _ _ _)
      | onelazy => exact LenOk_use (caseLazy_len _ _ _)
      | notonelazy => exact LenOk_use (caseLazy_len _ _ _)
      | setlazy => exact LenOk_use (caseLazy_len _ _ _)
      | one => exact LenOk_use (caseChar_len _ _ _ _)
      | notone => exact LenOk_use (caseChar_len _ _ _ _)
      | set => exact LenOk_use (caseChar_len _ _ _ _)
      | multi => exact LenOk_use (caseMulti_len _ _ _)
      | ref => exact LenOk_use (caseRef_len _ _ _)
      | bol => exact LenOk_use (caseBol_len _ _)
      | eol => exact LenOk_use (caseEol_len _ _)
      | boundary => exact LenOk_use (caseBoundary_len _ _ _ _)
      | nonboundary => exact LenOk_use (caseBoundary_len _ _ _ _)
      | ecmaboundary => exact LenOk_use (caseBoundary_len _ _ _ _)
      | nonecmaboundary => exact LenOk_use (caseBoundary_len _ _ _ _)
      | beginning => exact LenOk_use (assertion_len _ _)
      | start => exact LenOk_use (assertion_len _ _)
      | end_ => exact LenOk_use (assertion_len _ _)
      | endz => exact LenOk_use (caseEndZ_len _ _)
      | goto => exact LenOk_use (caseGoto_len _ _)
      | testref => exact LenOk_use (caseTestref_len _ _)
      | getmark => exact LenOk_use (caseGetmark_len _ _)
      | capturemark => exact LenOk_use (caseCapturemark_len _ _)
      | branchmark => exact LenOk_use (caseBranchmark_len _ _)
      | lazybranchmark => exact LenOk_use (caseLazybranchmark_len _)
      | setcount => exact LenOk_use (caseSetcount_len _ _ _)
      | nullcount => exact LenOk_use (caseSetcount_len _ _ _)
      | branchcount => exact LenOk_use (caseBranchcount_len _ _)
      | lazybranchcount => exact LenOk_use (caseLazybranchcount_len _ _)
      | setjump => exact LenOk_use (caseSetjump_len _)
      | backjump => exact LenOk_use (caseBackjump_len _ _)
      | forejump => exact LenOk_use (caseForejump_len _ _)
      | updatebumpalong => exact LenOk_use (caseUpdateBumpalong_len _)
    | back =>
      cases o with
      | oneloop => exact LenOk_use (caseLoopBack_len _)
      | notoneloop => exact LenOk_use (caseLoopBack_len _)
      | setloop => exact LenOk_use (caseLoopBack_len _)
      | onelazy => exact LenOk_use (caseLazyBack_len _ _ _ _)
      | notonelazy => exact LenOk_use (caseLazyBack_len _ _ _ _)
      | setlazy => exact LenOk_use (caseLazyBack_len _ _ _ _)
      | lazybranch => exact LenOk_use (caseLazybranchBack_len _ _)
      | branchmark => exact LenOk_use (caseBranchmarkBack_len _)
      | lazybranchmark => exact LenOk_use (caseLazybranchmarkBack_len _ _)
      | nullcount => exact LenOk_use (casePop2Back_len _)
      | setcount => exact LenOk_use (casePop2Back_len _)
      | setjump => exact LenOk_use (casePop2Back_len _)
      | nullmark => exact LenOk_use (casePop1Back_len _)
      | setmark => exact LenOk_use (casePop1Back_len _)
      | branchcount => exact LenOk_use (caseBranchcountBack_len _ _)
      | lazybranchcount => exact LenOk_use (caseLazybranchcountBack_len _ _)
      | capturemark => exact LenOk_use (caseCapturemarkBack_len _ _)
      | getmark => exact LenOk_use (caseRestoreBack_len _)
      | forejump => exact LenOk_use (caseForejumpBack_len _)
      | _ => exact trivial
    | back2 =>
      cases o with
      | branchmark => exact LenOk_use (caseRestoreBack_len _)
      | lazybranchmark => exact LenOk_use (caseLazybranchmarkBack2_len _)
      | branchcount => exact LenOk_use (caseBranchcountBack2_len _)
      | lazybranchcount => exact LenOk_use (caseLazybranchcountBack2_len _)
      | _ => exact trivial

/-! ## one step of the interpreter is one move of the abstract capacity system -/

theorem ofNat_toNat {n : Nat} {o : Op} (h : Op.ofNat? n = some o) : n = o.toNat := by
  unfold Op.ofNat? at h
  cases hf : opTable.find? (fun e => e.1 == n) with
  | none => rw [hf] at h; cases h
  | some e =>
    rw [hf] at h
    simp only [Option.map_some, Option.some.injEq] at h
    have hmem := List.mem_of_find?_eq_some hf
    have hpred := List.find?_some hf
    simp only [beq_iff_eq] at hpred
    have hall : ∀ e ∈ opTable, e.2.toNat = e.1 := by decide
    rw [← hpred, ← hall e hmem, h]

theorem weightAt_wsOf {p : Prog} {bs : List Nat} {pc : Nat} {w : Word} (hb : p.boundaries = some bs)
    (hpc : pc ∈ bs) (hf : fetch p pc = .ok w) : Capacity.weightAt (wsOf p) pc = Capacity.weight w.op := by
  have hlt : pc < p.codes.size := by
    unfold fetch at hf
    cases h : p.codes[pc]? with
    | none => rw [h] at hf; cases hf
    | some v =>
      rcases Nat.lt_or_ge pc p.codes.size with hlt | hge
      · exact hlt
      · have : p.codes[pc]? = none := by simp; omega
        rw [this] at h; cases h
  unfold Capacity.weightAt wsOf
  simp [hlt, hb, hpc, hf]

open Capacity in
/-- **Refinement.**  From a state satisfying the invariant, an iteration of the interpreter that goes on is a
    legal move of the abstract capacity system over the weights `wsOf p`: it pops `k ≤ used` slots and pushes
    at most the weight of the current opcode (`go`), or pops and resumes at a saved position (`pop`); the
    new depth and code position are those of the move, and the move passes through a storage check exactly
    when the interpreter does (`goTo`: target ≤ position, `backtrack`: target < position). -/
theorem step_refines {p : Prog} {bs : List Nat} {env : Env} {s s' : VMState} {chk : Bool}
    (hwf : WF p bs) (hinv : Inv p bs env s) (h : VM.step p env s = .next s' chk) :
    ∃ m : Move, legal (wsOf p) ⟨s.codepos, s.track.length⟩ m ∧
      lstep ⟨s.codepos, s.track.length⟩ m = ⟨s'.codepos, s'.track.length⟩ ∧
      checks ⟨s.codepos, s.track.length⟩ m = chk := by
  obtain ⟨w, o, c, hsh⟩ := hinv
  have hop : Op.ofNat? s.oper.op = some o := by rw [c.oop]; exact c.facts.op
  have hlen := body_len p env s o hop
  have hbody := body_ok c hsh
  have hW : weightAt (wsOf p) s.codepos = pushMax o := by
    rw [weightAt_wsOf hwf.bnd c.pcIn c.facts.fetch, pushMax_eq_weight, ← ofNat_toNat c.facts.op]
  unfold VM.step at h
  cases hb : body p env s with
  | error f => rw [hb] at h; cases h
  | ok r =>
    obtain ⟨s1, e⟩ := r
    rw [hb] at h hlen hbody
    obtain ⟨hl1, hl2⟩ := hlen
    have hcp : s1.codepos = s.codepos := hbody.1
    cases e with
    | halt => simp [finish] at h
    | advance i =>
      simp only [finish, doAdvance] at h
      split at h
      · cases h
      · next w' hw' =>
        cases h
        refine ⟨.go (s.track.length - s1.track.length) (s1.track.length - s.track.length) (s1.codepos + i + 1),
          ⟨by show _ ≤ s.track.length; omega, by show _ ≤ weightAt _ s.codepos; rw [hW]; omega⟩, ?_, ?_⟩
        · simp only [lstep, LSt.mk.injEq, true_and]; omega
        · simp only [checks, decide_eq_false_iff_not]; omega
    | goto t =>
      simp only [finish, doGoto] at h
      split at h
      · cases h
      · split at h
        · cases h
        · next w' hw' =>
          cases h
          refine ⟨.go (s.track.length - s1.track.length) (s1.track.length - s.track.length) t.toNat,
            ⟨by show _ ≤ s.track.length; omega, by show _ ≤ weightAt _ s.codepos; rw [hW]; omega⟩, ?_, ?_⟩
          · simp only [lstep, LSt.mk.injEq, true_and]; omega
          · simp only [checks, hcp]
    | back =>
      have hle := hl2 rfl
      simp only [finish, doBacktrack] at h
      split at h
      · cases h
      · next cc rest hs1 =>
        split at h
        · cases h
        · next w' hw' =>
          cases h
          rw [hs1] at hle
          simp only [List.length_cons] at hle
          refine ⟨.pop (s.track.length - rest.length) (savedPos cc).1, by simp only [legal]; omega, ?_, ?_⟩
          · simp only [lstep, LSt.mk.injEq, true_and]; omega
          · simp only [checks, hcp]

end RegexVerif.Lemmas.VMCapacity
