/-
Lemmas for part B of C02: the entry points of `Model/Api.lean` all perform the same scans.
Also the bridge from part A: the specification of a pattern and of its bool-only program form a
`Programs` value that satisfies `Programs.Agree`, and a pattern without `\G` is `OriginFree`.
-/
import RegexVerif.Model.Api
import RegexVerif.Lemmas.Scan
import RegexVerif.Lemmas.Quick
import RegexVerif.Lemmas.Facts

namespace RegexVerif.Api
open RegexVerif.Scan RegexVerif.Lemmas.Scan

/-! ### the naive scan only looks at the attempts inside the input -/

theorem naiveFrom_congr (a b : Nat → Option (Nat × Nat)) (rtl : Bool) (n pos : Nat) (hpos : pos ≤ n)
    (h : ∀ p, p ≤ n → a p = b p) : naiveFrom a rtl n pos = naiveFrom b rtl n pos := by
  unfold naiveFrom
  have : ∀ (l : List Nat), (∀ p ∈ l, p ≤ n) → l.findSome? a = l.findSome? b := by
    intro l
    induction l with
    | nil => intro _; rfl
    | cons x l ih =>
      intro hl
      simp only [List.findSome?_cons, h x (hl x (by simp))]
      rw [ih (fun p hp => hl p (by simp [hp]))]
  apply this
  intro p hp
  rw [mem_scanOrder] at hp
  cases rtl <;> simp at hp <;> omega

theorem naive_congr (a b : Nat → Option (Nat × Nat)) (rtl : Bool) (n start : Nat) (prevLen : Int) (hs : start ≤ n)
    (h : ∀ p, p ≤ n → a p = b p) : naive a start prevLen rtl n = naive b start prevLen rtl n := by
  unfold naive
  split
  · split
    · rfl
    · rename_i hne
      apply naiveFrom_congr a b rtl n _ _ h
      cases rtl <;> simp [bump, stopPos] at hne ⊢ <;> omega
  · exact naiveFrom_congr a b rtl n _ hs h

/-- two sound engines whose attempts for origin `start` agree perform the same scan from `start` -/
theorem scanAt_congr (Q E : Engine) (rtl : Bool) (n : Nat) (hQ : Q.Sound rtl n) (hE : E.Sound rtl n)
    (start : Nat) (prevLen : Int) (hs : start ≤ n) (h : ∀ p, p ≤ n → Q.attempt start p = E.attempt start p) :
    scanAt Q rtl n start prevLen = scanAt E rtl n start prevLen := by
  rw [scanAt_eq_naive Q rtl n hQ start prevLen hs, scanAt_eq_naive E rtl n hE start prevLen hs,
    naive_congr _ _ rtl n start prevLen hs h]

theorem firstMatch_congr (P : Programs) (rtl : Bool) (n : Nat) (hP : P.Agree rtl n) :
    firstMatch P.quick rtl n = firstMatch P.full rtl n :=
  scanAt_congr _ _ rtl n hP.quick hP.full _ _ (firstStart_le rtl n) (fun p hp => hP.same _ p (firstStart_le rtl n) hp)

theorem iterFrom_congr (P : Programs) (rtl : Bool) (n : Nat) (hP : P.Agree rtl n) :
    ∀ (fuel : Nat) (o : Option Hit), (∀ m, o = some m → m.Valid rtl n) →
      iterFrom P.quick rtl n fuel o = iterFrom P.full rtl n fuel o := by
  intro fuel
  induction fuel with
  | zero => intro o _; rfl
  | succ fuel ih =>
    intro o hv
    cases o with
    | none => rfl
    | some m =>
      have hm := hv m rfl
      have htp := valid_textpos_le hm
      have hnext : nextMatch P.quick rtl n m = nextMatch P.full rtl n m :=
        scanAt_congr _ _ rtl n hP.quick hP.full _ _ htp (fun p hp => hP.same _ p htp hp)
      simp only [iterFrom, hnext]
      rw [ih]
      intro m' hm'
      exact (nextMatch_spec P.full rtl n hP.full m m' hm hm').1

theorem iterate_congr (P : Programs) (rtl : Bool) (n : Nat) (hP : P.Agree rtl n) :
    iterate P.quick rtl n = iterate P.full rtl n := by
  unfold iterate
  rw [firstMatch_congr P rtl n hP]
  exact iterFrom_congr P rtl n hP _ _ (fun m hm => firstMatch_valid P.full rtl n hP.full m hm)

/-! ### the string prefix filter -/

/-- restarting a left-to-right search at the filter's candidate (which rebinds `\G` to it) finds what
    the search from 0 finds; "no" from the filter means the search from 0 finds nothing -/
theorem stringStart_scan (E : Engine) (n : Nat) (hE : E.Sound false n) (hO : OriginFree E n)
    (filter : Nat → Option Nat) (hF : FilterSound (E.attempt 0) n filter) :
    (match stringStart filter false n with
     | none => none
     | some c => scanAt E false n c (-1)) = firstMatch E false n := by
  have hfirst : firstMatch E false n = (naiveFrom (E.attempt 0) false n 0).map (Hit.ofSpan false) := by
    unfold firstMatch
    rw [scanAt_eq_naive E false n hE _ _ (firstStart_le false n)]
    simp [naive, firstStart]
  rw [hfirst]
  simp only [stringStart, Bool.false_eq_true, if_false]
  cases hf : filter 0 with
  | none =>
    simp only [Option.map_none]
    rw [naiveFrom_eq_none]
    · rfl
    · intro p hp
      rw [mem_scanOrder] at hp
      exact hF.1 hf p (by simpa using hp)
  | some c =>
    simp only [Option.map_some]
    have hc : clampStart n c ≤ n := by unfold clampStart; split <;> omega
    rw [scanAt_eq_naive E false n hE _ _ hc]
    have : naive (E.attempt (clampStart n c)) (clampStart n c) (-1) false n
        = naiveFrom (E.attempt 0) false n (clampStart n c) := by
      simp only [naive, show ((-1 : Int) = 0) = False from by simp, if_false]
      exact naiveFrom_congr _ _ false n _ hc (fun p hp => hO _ _ p hc (Nat.zero_le n) hp)
    rw [this]
    congr 1
    symm
    apply naiveFrom_skip (E.attempt 0) false n (clampStart n c) 0 (clampStart n c) (Nat.zero_le n) hc (by simp)
    intro p hp
    simp only [Bool.false_eq_true, if_false] at hp
    have hpc : p < c := by
      have := hp.2
      unfold clampStart at this
      split at this <;> omega
    exact hF.2 c hf p hpc (by omega)

theorem stringStart_rtl (filter : Nat → Option Nat) (n : Nat) : stringStart filter true n = some (firstStart true n) := by
  simp [stringStart, firstStart]

/-! ### the replace loop -/

theorem replaceLoop_eq (E : Engine) (rtl : Bool) (n : Nat) :
    ∀ (fuel : Nat) (o : Option Hit) (count : Int), count ≠ 0 →
      replaceLoop E rtl n fuel o count = takeK count (iterFrom E rtl n fuel o) := by
  intro fuel
  induction fuel with
  | zero => intro o count _; simp [replaceLoop, iterFrom, takeK_nil]
  | succ fuel ih =>
    intro o count hc
    cases o with
    | none => simp [replaceLoop, iterFrom, takeK_nil]
    | some m =>
      simp only [replaceLoop, iterFrom]
      rw [takeK_cons count m _ hc]
      congr 1
      by_cases h1 : count - 1 = 0
      · have : count = 1 := by omega
        subst this
        simp [takeK_zero]
      · simp only [h1, if_false]
        rw [ih _ _ h1]
        by_cases hpos : count > 0
        · simp [hpos]
        · simp only [hpos, if_false]
          have h2 : count < 0 := by omega
          have h3 : count - 1 < 0 := by omega
          simp [takeK, h2, h3]

/-! ### the specification as an engine (bridge from part A) -/

open RegexVerif.Spec

/-- the overall span `(index, length)` one attempt of the specification reports, for `\G` origin `ts` -/
def specAttempt (e : Env) (p : Pat) (rtl : Bool) (ts pos : Nat) : Option (Nat × Nat) :=
  (attempt { e with textstart := ts } p rtl pos).bind (fun st => lastCap st.caps 0)

/-- the specification as an engine without accelerators -/
def specEngine (e : Env) (p : Pat) (rtl : Bool) : Engine :=
  { finder := fun _ pos => (true, pos), after := fun _ q => q, attempt := specAttempt e p rtl, minLen := 0 }

/-- a pattern and its bool-only program -/
def specPrograms (e : Env) (p : Pat) (rtl : Bool) : Programs :=
  { full := specEngine e p rtl, quick := specEngine e (quickPat p) rtl }

theorem specAttempt_shape (e : Env) (p : Pat) (rtl : Bool) (ts : Nat) :
    AttemptShape rtl e.n (specAttempt e p rtl ts) := by
  intro pos i l hpos h
  unfold specAttempt at h
  cases hat : attempt { e with textstart := ts } p rtl pos with
  | none => simp [hat] at h
  | some st =>
    simp only [hat, Option.bind_some] at h
    obtain ⟨y, hy, _, hcap⟩ := Facts.attempt_success _ p rtl pos st hat
    rw [hcap] at h
    have hfwd := Facts.m_fwd _ p rtl _ y hy
    have hwf := (m_wf { e with textstart := ts } p rtl { pos := pos, caps := [] } ⟨hpos, by simp⟩ y hy).1
    have hn : ({ e with textstart := ts } : Env).n = e.n := rfl
    rw [hn] at hwf
    simp only [Option.some.injEq, Prod.mk.injEq] at h
    cases rtl <;> simp [Facts.Fwd] at hfwd ⊢ <;> omega

theorem specEngine_sound (e : Env) (p : Pat) (rtl : Bool) : (specEngine e p rtl).Sound rtl e.n where
  shape := fun ts _ => specAttempt_shape e p rtl ts
  finder := by
    intro ts _ pos hpos
    cases rtl
    · exact ⟨Nat.le_refl _, hpos, fun _ p h1 h2 => absurd h2 (by simp [specEngine]; omega), fun h => by simp [specEngine] at h⟩
    · exact ⟨Nat.le_refl _, fun _ p h1 h2 => absurd h1 (by simp [specEngine]; omega), fun h => by simp [specEngine] at h⟩
  after := by
    intro ts _ q hq _
    cases rtl
    · exact ⟨Nat.le_refl _, hq, fun p h1 h2 => absurd h2 (by simp [specEngine]; omega)⟩
    · exact ⟨Nat.le_refl _, fun p h1 h2 => absurd h1 (by simp [specEngine]; omega)⟩
  minLen := by intro ts _ p i l _ _; simp [specEngine]

/-- the bool-only program reports the same overall span at every position, for every `\G` origin -/
theorem specAttempt_quick (e : Env) (p : Pat) (rtl : Bool) (ts pos : Nat) :
    specAttempt e (quickPat p) rtl ts pos = specAttempt e p rtl ts pos := by
  unfold specAttempt quickPat
  rw [attempt_strip _ _ p (slotsInUse_refs p) rtl pos]
  cases attempt { e with textstart := ts } p rtl pos with
  | none => rfl
  | some st =>
    simp only [Option.map_some, Option.bind_some, eraseCaps_caps]
    exact lastCap_filter _ st.caps 0 (kept_zero _)

theorem specPrograms_agree (e : Env) (p : Pat) (rtl : Bool) : (specPrograms e p rtl).Agree rtl e.n where
  full := specEngine_sound e p rtl
  quick := specEngine_sound e (quickPat p) rtl
  same := fun ts pos _ _ => specAttempt_quick e p rtl ts pos

/-! ### patterns without `\G` -/

/-- the pattern contains `\G` (`Code.UsesStartAnchor`) -/
def usesStart : Pat → Bool
  | .empty => false
  | .nothing => false
  | .chr _ => false
  | .anchor a => a == .start
  | .seq a b => usesStart a || usesStart b
  | .alt a b => usesStart a || usesStart b
  | .quant _ _ _ body => usesStart body
  | .cap _ body => usesStart body
  | .look _ _ body => usesStart body
  | .atomic body => usesStart body
  | .ref _ _ => false
  | .refCond _ yes no => usesStart yes || usesStart no
  | .exprCond c yes no => usesStart c || usesStart yes || usesStart no

theorem cls_mem_textstart (e : Env) (ts : Nat) (ci : Bool) (c : Cls) (r : Nat) :
    c.mem { e with textstart := ts } ci r = c.mem e ci r := by
  induction c with
  | base neg rs ns => rfl
  | diff a b iha ihb => simp only [Cls.mem, iha, ihb]

theorem pred_test_textstart (e : Env) (ts : Nat) (p : Pred) (r : Nat) :
    p.test { e with textstart := ts } r = p.test e r := by
  cases p with
  | one c ci => rfl
  | notone c ci => rfl
  | set c ci => simp only [Pred.test, cls_mem_textstart]

theorem anchorHolds_textstart (e : Env) (ts : Nat) (a : Anchor) (h : a ≠ .start) (p : Nat) :
    anchorHolds { e with textstart := ts } a p = anchorHolds e a p := by
  cases a <;> first | rfl | exact absurd rfl h

/-- a pattern without `\G` does not look at the search origin -/
theorem m_textstart (e : Env) (ts : Nat) (p : Pat) (h : usesStart p = false) :
    ∀ (rtl : Bool), m { e with textstart := ts } p rtl = m e p rtl := by
  induction p with
  | empty => intro rtl; rfl
  | nothing => intro rtl; rfl
  | chr p =>
    intro rtl; funext st
    simp only [m, pred_test_textstart]
    rfl
  | anchor a =>
    intro rtl; funext st
    simp only [m]
    rw [anchorHolds_textstart e ts a (by intro ha; subst ha; simp [usesStart] at h)]
  | seq a b iha ihb =>
    intro rtl; funext st
    simp only [usesStart, Bool.or_eq_false_iff] at h
    simp only [m, iha h.1, ihb h.2]
  | alt a b iha ihb =>
    intro rtl; funext st
    simp only [usesStart, Bool.or_eq_false_iff] at h
    simp only [m, iha h.1, ihb h.2]
  | quant lzy lo hi body ih =>
    intro rtl; funext st
    simp only [m, ih (by simpa [usesStart] using h)]
    rfl
  | cap g body ih =>
    intro rtl; funext st
    simp only [m, ih (by simpa [usesStart] using h)]
  | look behind neg body ih =>
    intro rtl; funext st
    simp only [m, ih (by simpa [usesStart] using h)]
  | atomic body ih =>
    intro rtl; funext st
    simp only [m, ih (by simpa [usesStart] using h)]
  | ref g ci => intro rtl; rfl
  | refCond g yes no ihy ihn =>
    intro rtl; funext st
    simp only [usesStart, Bool.or_eq_false_iff] at h
    simp only [m, ihy h.1, ihn h.2]
  | exprCond c yes no ihc ihy ihn =>
    intro rtl; funext st
    simp only [usesStart, Bool.or_eq_false_iff] at h
    simp only [m, ihc h.1.1, ihy h.1.2, ihn h.2]

theorem specEngine_originFree (e : Env) (p : Pat) (rtl : Bool) (h : usesStart p = false) :
    OriginFree (specEngine e p rtl) e.n := by
  intro ts ts' pos _ _ _
  simp only [specEngine, specAttempt, attempt]
  have hc : usesStart (.cap 0 p) = false := by simpa [usesStart] using h
  rw [m_textstart e ts _ hc, m_textstart e ts' _ hc]

end RegexVerif.Api
