/-
Joint J2 of the chain: the raw tree `scanRegex` returns has the node shapes the reducer assumes, up to ONE residual
condition — an ExprCond node may still lack its condition (have one child instead of two or three).  The tree
invariant (`TreeInv`: the current group / alternation / concatenation, the unit and every frame of the group stack hold
well-shaped nodes) is carried through every tree-building operation in the partial-correctness logic of
`Lemmas/ParserShape.lean`; the position facts the scanners' specifications need come from the totality proof
(`Lemmas/ParserMain.lean`) through `H.of_wp`.
-/
import RegexVerif.Lemmas.ParserShape
import RegexVerif.Model.ChainHyps

namespace RegexVerif.Parser
open RegexVerif.EscapeParse (isSpaceCh isSpecialCh isQuantCh isDigitCh isTrueQuant isTrueBrace dropDigits)

variable {α β γ : Type}

theorem H_and {P : PS → Prop} {m : M α} {Q1 Q2 : α → PS → Prop} (h1 : H P m Q1) (h2 : H P m Q2) :
    H P m (fun a s => Q1 a s ∧ Q2 a s) := fun s a s' hp hm => ⟨h1 s a s' hp hm, h2 s a s' hp hm⟩

theorem H_andRet {P : PS → Prop} {m : M α} {Q : α → PS → Prop} {R : α → Prop} (h1 : H P m Q) (h2 : Ret m R) :
    H P m (fun a s => Q a s ∧ R a) := by
  unfold Ret at h2
  exact fun s a s' hp hm => ⟨h1 s a s' hp hm, h2 s a s' trivial hm⟩

theorem H_get {P : PS → Prop} : H P get (fun a s' => a = s' ∧ P s') := by
  intro s a s' hp hm
  unfold get at hm
  cases hm
  exact ⟨rfl, hp⟩

theorem H_modify {P : PS → Prop} {f : PS → PS} {Q : Unit → PS → Prop} (h : ∀ s, P s → Q () (f s)) : H P (modify f) Q := by
  intro s a s' hp hm
  unfold modify at hm
  cases hm
  exact h _ hp

/-- the loop rule (partial correctness: no fuel bookkeeping) -/
theorem H_iter {J : PS → Prop} {f : β → M (Sum β γ)} {Q : γ → PS → Prop}
    (hstep : ∀ b, H J (f b) (fun r s' => match r with | .inl _ => J s' | .inr c => Q c s')) :
    ∀ (n : Nat) (b : β), H J (iter f n b) Q := by
  intro n
  induction n with
  | zero => intro b s a s' _ hm; unfold iter at hm; cases hm
  | succ n ih =>
    intro b s a s' hp hm
    unfold iter at hm
    cases hr : f b s with
    | ok r s1 =>
      rw [hr] at hm
      have h1 := hstep b s r s1 hp hr
      cases r with
      | inl b' => exact ih b' s1 a s' h1 hm
      | inr c =>
        simp only [Res.ok.injEq] at hm
        obtain ⟨rfl, rfl⟩ := hm
        exact h1
    | err c s1 => rw [hr] at hm; cases hm
    | fault x => rw [hr] at hm; cases hm
    | fuel => rw [hr] at hm; cases hm

/-! ## The weak shape -/

/-- the child counts of a raw tree (`Reduce.okRaw`) -/
def shapeW (t : NT) (k : Nat) : Bool :=
  Reduce.shapeOk t.toNat k || ((t == .alternate || t == .concatenate) && k == 0)

mutual
def shp : RNode → Bool
  | .mk t _ _ _ _ _ _ kids => shapeW t kids.length && shps kids
def shps : List RNode → Bool
  | [] => true
  | k :: ks => shp k && shps ks
end

theorem shp_iff (x : RNode) : shp x = (shapeW x.t x.kids.length && shps x.kids) := by
  cases x; rw [shp]; rfl

theorem shps_cons (x : RNode) (xs : List RNode) : shps (x :: xs) = (shp x && shps xs) := by rw [shps]
theorem shps_nil : shps [] = true := by rw [shps]

theorem shps_iff_all : ∀ (l : List RNode), shps l = true ↔ ∀ x ∈ l, shp x = true
  | [] => by simp [shps_nil]
  | x :: xs => by simp [shps_cons, shps_iff_all xs]

theorem shps_append {a b : List RNode} (ha : shps a = true) (hb : shps b = true) : shps (a ++ b) = true := by
  rw [shps_iff_all] at *
  intro x hx
  rcases List.mem_append.mp hx with h | h
  · exact ha x h
  · exact hb x h

theorem shps_reverse {a : List RNode} (ha : shps a = true) : shps a.reverse = true := by
  rw [shps_iff_all] at *
  intro x hx
  exact ha x (List.mem_reverse.mp hx)

theorem shps_single {x : RNode} (h : shp x = true) : shps [x] = true := by simp [shps_cons, shps_nil, h]

theorem leafType_shape {t : NT} (h : isLeafType t = true) : shapeW t 0 = true := by
  cases t <;> first | rfl | (simp [isLeafType] at h)

theorem shp_leaf {r : RNode} (h : Leaf r) : shp r = true := by
  rw [shp_iff, h.1]
  simp [shps_nil, leafType_shape h.2]

theorem shp_of {x : RNode} (h1 : shapeW x.t x.kids.length = true) (h2 : shps x.kids = true) : shp x = true := by
  rw [shp_iff, h1, h2]; rfl

theorem addChild_t (p c : RNode) : (p.addChild c).t = p.t := by cases p; rfl
theorem addChild_kids (p c : RNode) : (p.addChild c).kids = p.kids ++ [c] := by cases p; rfl

theorem shp_kids {x : RNode} (h : shp x = true) : shps x.kids = true := by
  rw [shp_iff] at h
  simp only [Bool.and_eq_true] at h
  exact h.2

theorem shp_makeQuantifier {nd : RNode} (h : shp nd = true) (lazy : Bool) (mn mx : Nat) :
    shp (makeQuantifier nd lazy mn mx) = true := by
  have hk := shp_kids h
  have hone : ∀ t : NT, nd.t = t → isLeafType t = true → nd.kids = [] := by
    intro t ht hl
    rw [shp_iff, ht] at h
    simp only [Bool.and_eq_true] at h
    cases hkk : nd.kids with
    | nil => rfl
    | cons a l =>
      rw [hkk] at h
      exfalso
      cases t <;> simp [isLeafType] at hl <;> simp [shapeW, Reduce.shapeOk, NT.toNat] at h
  unfold makeQuantifier
  split
  · exact shp_leaf ⟨rfl, rfl⟩
  · split
    · exact h
    · split
      · rename_i hc
        have := hone .one hc.2.2 rfl
        rw [this]
        exact shp_leaf ⟨rfl, rfl⟩
      · split
        · rename_i o ch str set m n kids
          have := hone .one rfl rfl
          simp only [RNode.kids] at this
          subst this
          cases lazy <;> exact shp_leaf ⟨rfl, rfl⟩
        · rename_i o ch str set m n kids
          have := hone .notone rfl rfl
          simp only [RNode.kids] at this
          subst this
          cases lazy <;> exact shp_leaf ⟨rfl, rfl⟩
        · rename_i o ch str set m n kids
          have := hone .set rfl rfl
          simp only [RNode.kids] at this
          subst this
          cases lazy <;> exact shp_leaf ⟨rfl, rfl⟩
        · rw [shp]
          simp only [List.length_singleton, shps_cons, shps_nil, h, Bool.and_true]
          cases lazy <;> rfl

/-! ## The invariant -/

/-- an open group with its alternation and concatenation under construction -/
structure Open3 (g a c : RNode) : Prop where
  ct : c.t = .concatenate
  ck : shps c.kids = true
  at_ : a.t = .alternate
  ak : shps a.kids = true
  gt : GroupT g.t = true
  gk : shps g.kids = true
  gz : isCond g.t = false → g.kids = []

def FramesOK (st : List Frame) : Prop := ∀ fr ∈ st, Open3 fr.group fr.alternation fr.concatenation
def UnitOK (u : Option RNode) : Prop := ∀ x, u = some x → shp x = true
/-- the unit and the frames -/
def TreeInvW (s : PS) : Prop := UnitOK s.unit ∧ FramesOK s.stack
/-- … and the group under construction -/
def TreeInv (s : PS) : Prop := Open3 s.group s.alternation s.concatenation ∧ TreeInvW s

theorem TreeInv_frame {s s' : PS} (h : s'.frame = s.frame) (hi : TreeInv s) : TreeInv s' := by
  simp only [PS.frame, Prod.mk.injEq] at h
  obtain ⟨_, h2, h3, h4, h5, h6⟩ := h
  unfold TreeInv TreeInvW at *
  rw [h2, h3, h4, h5, h6]
  exact hi

theorem shp_conc {c : RNode} (ht : c.t = .concatenate) (hk : shps c.kids = true) : shp c = true := by
  apply shp_of _ hk
  rw [ht]
  unfold shapeW Reduce.shapeOk
  cases c.kids.length <;> simp [NT.toNat]

theorem reverseLeft_t (c : RNode) : (reverseLeft c).t = c.t := by
  unfold reverseLeft; split
  · cases c; rfl
  · rfl

theorem reverseLeft_kids {c : RNode} (hk : shps c.kids = true) : shps (reverseLeft c).kids = true := by
  unfold reverseLeft; split
  · cases c; simp only [RNode.withKids, RNode.kids] at *; exact shps_reverse hk
  · exact hk

theorem shp_reverseLeft {c : RNode} (ht : c.t = .concatenate) (hk : shps c.kids = true) : shp (reverseLeft c) = true :=
  shp_conc ((reverseLeft_t c).trans ht) (reverseLeft_kids hk)

theorem open3_start {g : RNode} (o : Opts) (h : OpenNode g) : Open3 g (mkNode .alternate o) (mkNode .concatenate o) :=
  ⟨rfl, rfl, rfl, rfl, h.2, by rw [h.1]; rfl, fun _ => h.1⟩

/-! ## The tree-building operations -/

attribute [local irreducible] H

theorem inv_setUnit {r : RNode} (h : shp r = true) : H TreeInv (setUnit (some r)) (fun _ => TreeInv) := by
  unfold setUnit
  apply H_modify
  intro s hi
  refine ⟨hi.1, ⟨?_, hi.2.2⟩⟩
  intro x hx
  simp only [Option.some.injEq] at hx
  rw [← hx]; exact h

theorem inv_addConcatenate : H TreeInv addConcatenate (fun _ => TreeInv) := by
  unfold H
  intro s a s' hi hm
  unfold addConcatenate at hm
  cases hu : s.unit with
  | none => rw [hu] at hm; cases hm
  | some u =>
    rw [hu] at hm
    simp only [Res.ok.injEq] at hm
    obtain ⟨_, rfl⟩ := hm
    have hsu := hi.2.1 u hu
    refine ⟨⟨by rw [addChild_t]; exact hi.1.ct, by rw [addChild_kids]; exact shps_append hi.1.ck (shps_single hsu),
      hi.1.at_, hi.1.ak, hi.1.gt, hi.1.gk, hi.1.gz⟩, ⟨(fun _ hx => nomatch hx), hi.2.2⟩⟩

theorem inv_addConcatenate3 (lazy : Bool) (mn mx : Nat) : H TreeInv (addConcatenate3 lazy mn mx) (fun _ => TreeInv) := by
  unfold H
  intro s a s' hi hm
  unfold addConcatenate3 at hm
  cases hu : s.unit with
  | none => rw [hu] at hm; cases hm
  | some u =>
    rw [hu] at hm
    simp only [Res.ok.injEq] at hm
    obtain ⟨_, rfl⟩ := hm
    have hsu := shp_makeQuantifier (hi.2.1 u hu) lazy mn mx
    refine ⟨⟨by rw [addChild_t]; exact hi.1.ct, by rw [addChild_kids]; exact shps_append hi.1.ck (shps_single hsu),
      hi.1.at_, hi.1.ak, hi.1.gt, hi.1.gk, hi.1.gz⟩, ⟨(fun _ hx => nomatch hx), hi.2.2⟩⟩

variable (E : Env)

theorem conc_foldl (o : Opts) : ∀ (sl : List Nat) (c : RNode), c.t = .concatenate → shps c.kids = true →
    (sl.foldl (fun c ch => c.addChild (nodeCh E .one o ch)) c).t = .concatenate ∧
    shps (sl.foldl (fun c ch => c.addChild (nodeCh E .one o ch)) c).kids = true
  | [], c, ht, hk => ⟨ht, hk⟩
  | ch :: rest, c, ht, hk => by
    simp only [List.foldl_cons]
    exact conc_foldl o rest _ (by rw [addChild_t]; exact ht)
      (by rw [addChild_kids]; exact shps_append hk (shps_single (shp_leaf (leaf_nodeCh E _ rfl _ _))))

theorem inv_addToConcatenate (pos cch : Nat) : H TreeInv (addToConcatenate E pos cch) (fun _ => TreeInv) := by
  unfold H
  intro s a s' hi hm
  unfold addToConcatenate at hm
  have hmk : ∀ c', c'.t = .concatenate → shps c'.kids = true → TreeInv { s with concatenation := c' } :=
    fun c' h1 h2 => ⟨⟨h1, h2, hi.1.at_, hi.1.ak, hi.1.gt, hi.1.gk, hi.1.gz⟩, hi.2⟩
  have hadd : ∀ r, Leaf r → TreeInv { s with concatenation := s.concatenation.addChild r } := fun r hr =>
    hmk _ (by rw [addChild_t]; exact hi.1.ct) (by rw [addChild_kids]; exact shps_append hi.1.ck (shps_single (shp_leaf hr)))
  split at hm
  · cases hm; exact hi
  · split at hm
    · cases hm
    · simp only [] at hm
      split at hm
      · cases hm; exact hadd _ (leaf_nodeCh E _ rfl _ _)
      · split at hm
        · cases hm; exact hadd _ ⟨rfl, rfl⟩
        · cases hm
          have := conc_foldl E s.options ((E.pat.drop pos).take cch) s.concatenation hi.1.ct hi.1.ck
          exact hmk _ this.1 this.2

theorem inv_addAlternate : H TreeInv addAlternate (fun _ => TreeInv) := by
  unfold addAlternate
  apply H_modify
  intro s hi
  have hc := shp_reverseLeft hi.1.ct hi.1.ck
  dsimp only
  split
  · rename_i hcond
    refine ⟨⟨rfl, rfl, hi.1.at_, hi.1.ak, by rw [addChild_t]; exact hi.1.gt,
      by rw [addChild_kids]; exact shps_append hi.1.gk (shps_single hc), ?_⟩, hi.2⟩
    intro h
    rw [addChild_t] at h
    rw [h] at hcond
    cases hcond
  · exact ⟨⟨rfl, rfl, by rw [addChild_t]; exact hi.1.at_,
      by rw [addChild_kids]; exact shps_append hi.1.ak (shps_single hc), hi.1.gt, hi.1.gk, hi.1.gz⟩, hi.2⟩

theorem groupT_shape1 {t : NT} (h : GroupT t = true) (hc : isCond t = false) : shapeW t 1 = true := by
  cases t <;> first | rfl | (simp [isCond] at hc; done) | (simp [GroupT] at h; done)

/-- the group under construction is not an ExprCond that still waits for its condition -/
def NP (s : PS) : Prop := ¬(s.group.t = .exprCond ∧ s.group.kids = [])

/-- `addGroup`: the closed group becomes the unit; the frames are untouched.  (An ExprCond must have received its
    condition: `NP`.) -/
theorem inv_addGroup : H (fun s => TreeInv s ∧ NP s) addGroup (fun _ => TreeInvW) := by
  unfold H
  intro s a s' hi' hm
  have hnp := hi'.2
  have hi := hi'.1
  unfold addGroup at hm
  have hc := shp_reverseLeft hi.1.ct hi.1.ck
  split at hm
  · rename_i hcond
    simp only [] at hm
    split at hm
    · cases hm
    · rename_i hlen
      cases hm
      refine ⟨?_, hi.2.2⟩
      intro x hx
      simp only [Option.some.injEq] at hx
      rw [← hx]
      apply shp_of
      · rw [addChild_t, addChild_kids]
        simp only [addChild_t, addChild_kids, List.length_append, List.length_singleton, Bool.or_eq_true, Bool.and_eq_true,
          decide_eq_true_eq, not_or, not_and, Nat.not_lt, beq_iff_eq] at hlen
        simp only [List.length_append, List.length_singleton]
        simp only [isCond, Bool.or_eq_true, beq_iff_eq] at hcond
        rcases hcond with hcond | hcond
        · rw [hcond]
          have : s.group.kids.length + 1 ≤ 3 := hlen.2
          unfold shapeW Reduce.shapeOk
          rcases Nat.lt_or_ge s.group.kids.length 1 with h0 | h0
          · exfalso
            exact hnp ⟨hcond, List.eq_nil_of_length_eq_zero (by omega)⟩
          · rcases Nat.lt_or_ge s.group.kids.length 2 with h1 | h1
            · have : s.group.kids.length = 1 := by omega
              rw [this]; rfl
            · have : s.group.kids.length = 2 := by omega
              rw [this]; rfl
        · rw [hcond]
          have h2 : s.group.kids.length + 1 ≤ 2 := hlen.1 hcond
          unfold shapeW Reduce.shapeOk
          rcases Nat.lt_or_ge s.group.kids.length 1 with h0 | h0
          · have : s.group.kids.length = 0 := by omega
            rw [this]; rfl
          · have : s.group.kids.length = 1 := by omega
            rw [this]; rfl
      · rw [addChild_kids]
        exact shps_append hi.1.gk (shps_single hc)
  · rename_i hcond
    cases hm
    refine ⟨?_, hi.2.2⟩
    intro x hx
    simp only [Option.some.injEq] at hx
    rw [← hx]
    have hcf : isCond s.group.t = false := by simpa using hcond
    have ha : shp (s.alternation.addChild (reverseLeft s.concatenation)) = true := by
      apply shp_of
      · rw [addChild_t, addChild_kids, hi.1.at_]
        simp only [List.length_append, List.length_singleton]
        unfold shapeW Reduce.shapeOk
        simp [NT.toNat]
      · rw [addChild_kids]; exact shps_append hi.1.ak (shps_single hc)
    apply shp_of
    · rw [addChild_t, addChild_kids, hi.1.gz hcf]
      exact groupT_shape1 hi.1.gt hcf
    · rw [addChild_kids, hi.1.gz hcf]
      exact shps_single ha

/-- `popGroup`: the frame on top becomes the group under construction (an ExprCond without children takes the unit as
    its condition) -/
theorem inv_popGroup : H TreeInvW popGroup (fun _ s' => TreeInv s' ∧ NP s') := by
  unfold H
  intro s a s' hi hm
  unfold popGroup at hm
  cases hst : s.stack with
  | nil => rw [hst] at hm; cases hm
  | cons fr st =>
    rw [hst] at hm
    have hfr : Open3 fr.group fr.alternation fr.concatenation := hi.2 fr (by rw [hst]; exact List.mem_cons_self ..)
    have hrest : FramesOK st := fun f hf => hi.2 f (by rw [hst]; exact List.mem_cons_of_mem _ hf)
    simp only [] at hm
    split at hm
    · rename_i hec
      split at hm
      · cases hm
      · rename_i u hu
        cases hm
        simp only [Bool.and_eq_true, beq_iff_eq] at hec
        refine ⟨⟨⟨hfr.ct, hfr.ck, hfr.at_, hfr.ak, by rw [addChild_t]; exact hfr.gt,
          by rw [addChild_kids]; exact shps_append hfr.gk (shps_single (hi.1 u hu)), ?_⟩, ⟨(fun _ hx => nomatch hx), hrest⟩⟩, ?_⟩
        · intro h
          rw [addChild_t, hec.1] at h
          cases h
        · intro hnp
          have := hnp.2
          dsimp only at this
          rw [addChild_kids] at this
          simp at this
    · rename_i hec
      cases hm
      refine ⟨⟨hfr, ⟨hi.1, hrest⟩⟩, ?_⟩
      intro hnp
      apply hec
      dsimp only at hnp ⊢
      simp [hnp.1, hnp.2]

theorem inv_pushGroup : H TreeInv pushGroup (fun _ => TreeInv) := by
  unfold pushGroup
  apply H_modify
  intro s hi
  refine ⟨hi.1, ⟨hi.2.1, ?_⟩⟩
  intro fr hfr
  rcases List.mem_cons.mp hfr with h | h
  · rw [h]; exact hi.1
  · exact hi.2.2 fr h

theorem inv_startGroup {g : RNode} (hg : OpenNode g) : H TreeInv (startGroup g) (fun _ => TreeInv) := by
  unfold startGroup
  apply H_modify
  intro s hi
  exact ⟨open3_start _ hg, hi.2⟩

/-- whatever touches only position, options, `ignoreNextParen` and the capture tables keeps the invariant -/
theorem inv_of_frame {m : M α} (h : ∀ s a s', m s = .ok a s' → s'.frame = s.frame) : H TreeInv m (fun _ => TreeInv) := by
  unfold H
  exact fun s a s' hi hm => TreeInv_frame (h s a s' hm) hi

theorem inv_scanBlank : H TreeInv (scanBlank E) (fun _ => TreeInv) := by
  apply inv_of_frame
  intro s a s' hm
  unfold scanBlank at hm
  simp only [] at hm
  split at hm <;> cases hm
  rfl

theorem inv_isTrueQuantifier : H TreeInv (isTrueQuantifier E) (fun _ => TreeInv) := by
  apply inv_of_frame
  intro s a s' hm
  unfold isTrueQuantifier at hm
  split at hm <;> cases hm <;> rfl

theorem inv_scanDecimal : H TreeInv (scanDecimal E) (fun _ => TreeInv) := by
  apply inv_of_frame
  intro s a s' hm
  unfold scanDecimal at hm
  simp only [] at hm
  split at hm <;> cases hm
  rfl

theorem inv_charsRight : H TreeInv (charsRight E) (fun _ => TreeInv) := by
  apply inv_of_frame; intro s a s' hm; unfold charsRight at hm; cases hm; rfl
theorem inv_textpos : H TreeInv textpos (fun _ => TreeInv) := by
  apply inv_of_frame; intro s a s' hm; unfold textpos at hm; cases hm; rfl
theorem inv_opts : H TreeInv opts (fun _ => TreeInv) := by
  apply inv_of_frame; intro s a s' hm; unfold opts at hm; cases hm; rfl
theorem inv_textto (p : Nat) : H TreeInv (textto p) (fun _ => TreeInv) := by
  unfold textto; apply H_modify; intro s hi; exact hi
theorem inv_moveRight (i : Nat) : H TreeInv (moveRight i) (fun _ => TreeInv) := by
  unfold moveRight; apply H_modify; intro s hi; exact hi
theorem inv_moveLeft : H TreeInv moveLeft (fun _ => TreeInv) := by
  apply inv_of_frame; intro s a s' hm; unfold moveLeft at hm; split at hm <;> cases hm; rfl
theorem inv_rightChar (i : Nat) : H TreeInv (rightChar E i) (fun _ => TreeInv) := by
  apply inv_of_frame; intro s a s' hm; unfold rightChar at hm; split at hm <;> cases hm; rfl
theorem inv_charAt (i : Nat) : H TreeInv (charAt E i) (fun _ => TreeInv) := by
  apply inv_of_frame; intro s a s' hm; unfold charAt at hm; split at hm <;> cases hm; rfl
theorem inv_get : H TreeInv get (fun _ => TreeInv) := by
  apply inv_of_frame; intro s a s' hm; unfold get at hm; cases hm; rfl
theorem inv_popOptions : H TreeInv popOptions (fun _ => TreeInv) := by
  unfold H
  intro s a s' hi hm
  unfold popOptions at hm
  split at hm <;> cases hm
  exact hi
theorem inv_popKeepOptions : H TreeInv popKeepOptions (fun _ => TreeInv) := by
  unfold H
  intro s a s' hi hm
  unfold popKeepOptions at hm
  split at hm <;> cases hm
  exact hi
theorem inv_pushOptions : H TreeInv pushOptions (fun _ => TreeInv) := by
  unfold pushOptions; apply H_modify; intro s hi; exact hi

/-- the uniform rules: one invariant before and after -/
theorem H_bindI {I : PS → Prop} {m : M α} {f : α → M β} (h1 : H I m (fun _ => I)) (h2 : ∀ a, H I (f a) (fun _ => I)) :
    H I (m >>= f) (fun _ => I) := H.bind h1 h2
theorem H_pureI {I : PS → Prop} {a : α} : H I (pure a : M α) (fun _ => I) := H.pure (fun _ h => h)
theorem H_iteI {I : PS → Prop} {c : Prop} [Decidable c] {m1 m2 : M α} (h1 : H I m1 (fun _ => I)) (h2 : H I m2 (fun _ => I)) :
    H I (if c then m1 else m2) (fun _ => I) := H.ite (fun _ => h1) (fun _ => h2)

syntax "inv_run" : tactic
macro_rules
  | `(tactic| inv_run) => `(tactic| repeat' (first
      | exact H_pureI
      | exact H.throw
      | exact H.fault
      | exact inv_scanBlank _
      | exact inv_isTrueQuantifier _
      | exact inv_scanDecimal _
      | exact inv_charsRight _
      | exact inv_textpos
      | exact inv_opts
      | exact inv_textto _
      | exact inv_moveRight _
      | exact inv_moveLeft
      | exact inv_rightChar _ _
      | exact inv_charAt _ _
      | exact inv_get
      | exact inv_popOptions
      | exact inv_popKeepOptions
      | exact inv_pushOptions
      | exact inv_addConcatenate
      | exact inv_addConcatenate3 _ _ _
      | exact inv_addToConcatenate _ _ _
      | exact inv_addAlternate
      | (apply H_iteI)
      | (apply H_bindI)
      | intro _
      | split))

theorem inv_moveRightGetChar : H TreeInv (moveRightGetChar E) (fun _ => TreeInv) := by
  unfold moveRightGetChar
  inv_run

theorem inv_nextIs (c : Nat) : H TreeInv (nextIs E c) (fun _ => TreeInv) := by
  unfold nextIs
  inv_run

theorem inv_quantMax (sp mn : Nat) : H TreeInv (quantMax E sp mn) (fun _ => TreeInv) := by
  unfold quantMax orM rcIs
  inv_run
  all_goals first | exact inv_nextIs E _

theorem inv_quantClosed (sp : Nat) : H TreeInv (quantClosed E sp) (fun _ => TreeInv) := by
  unfold quantClosed
  inv_run
  all_goals exact inv_moveRightGetChar E

theorem inv_quantBrace : H TreeInv (quantBrace E) (fun _ => TreeInv) := by
  unfold quantBrace
  inv_run
  all_goals first | exact inv_quantMax E _ _ | exact inv_quantClosed E _

theorem inv_quantBounds (ch : Nat) : H TreeInv (quantBounds E ch) (fun _ => TreeInv) := by
  unfold quantBounds
  inv_run
  all_goals exact inv_quantBrace E

theorem inv_quantApply (mn mx : Nat) : H TreeInv (quantApply E mn mx) (fun _ => TreeInv) := by
  unfold quantApply
  inv_run
  all_goals exact inv_nextIs E _

theorem inv_scanQuantifier (ch : Nat) : H TreeInv (scanQuantifier E ch) (fun _ => TreeInv) := by
  unfold scanQuantifier
  inv_run
  all_goals first | exact inv_quantBounds E _ | exact inv_quantApply E _ _

theorem inv_stepAfter (b : Bool) : H TreeInv (stepAfter E b) (fun _ => TreeInv) := by
  unfold stepAfter
  inv_run
  all_goals first | exact inv_moveRightGetChar E | exact inv_scanQuantifier E _

theorem inv_stepLiteral (sp ep : Nat) (isQ wp0 : Bool) : H TreeInv (stepLiteral E sp ep isQ wp0) (fun _ => TreeInv) := by
  unfold stepLiteral
  inv_run
  all_goals exact inv_setUnit (shp_leaf (leaf_nodeCh E _ rfl _ _))

/-! ## The group under construction is left alone by everything but the group operations -/

/-- `m` keeps the group under construction -/
def GP (m : M α) : Prop := ∀ s a s', m s = .ok a s' → s'.group = s.group

theorem GP.bind' {m : M α} {f : α → M β} (h1 : GP m) (h2 : ∀ a, GP (f a)) : GP (m >>= f) := by
  intro s b s' hm
  change M.bind m f s = _ at hm
  unfold M.bind at hm
  cases hr : m s with
  | ok a s1 => rw [hr] at hm; exact (h2 a s1 b s' hm).trans (h1 s a s1 hr)
  | err c s1 => rw [hr] at hm; cases hm
  | fault x => rw [hr] at hm; cases hm
  | fuel => rw [hr] at hm; cases hm
theorem GP.pure' {a : α} : GP (pure a : M α) := by
  intro s b s' hm
  change M.pure a s = _ at hm
  unfold M.pure at hm
  cases hm; rfl
theorem GP.throw' {c : ErrCode} : GP (throw c : M α) := by intro s b s' hm; cases hm
theorem GP.fault' {f : Fault} : GP (fault f : M α) := by intro s b s' hm; cases hm
theorem GP.ite' {c : Prop} [Decidable c] {m1 m2 : M α} (h1 : GP m1) (h2 : GP m2) : GP (if c then m1 else m2) := by
  split
  · exact h1
  · exact h2
theorem GP.modify' {f : PS → PS} (h : ∀ s, (f s).group = s.group) : GP (modify f) := by
  intro s a s' hm
  unfold modify at hm
  cases hm
  exact h s
theorem GP.of_frame {m : M α} (h : ∀ s a s', m s = .ok a s' → s'.frame = s.frame) : GP m := by
  intro s a s' hm
  have := h s a s' hm
  simp only [PS.frame, Prod.mk.injEq] at this
  exact this.2.2.2.1

theorem gp_scanBlank : GP (scanBlank E) := by
  intro s a s' hm; unfold scanBlank at hm; simp only [] at hm; split at hm <;> cases hm; rfl
theorem gp_isTrueQuantifier : GP (isTrueQuantifier E) := by
  intro s a s' hm; unfold isTrueQuantifier at hm; split at hm <;> cases hm <;> rfl
theorem gp_scanDecimal : GP (scanDecimal E) := by
  intro s a s' hm; unfold scanDecimal at hm; simp only [] at hm; split at hm <;> cases hm; rfl
theorem gp_charsRight : GP (charsRight E) := by intro s a s' hm; unfold charsRight at hm; cases hm; rfl
theorem gp_textpos : GP textpos := by intro s a s' hm; unfold textpos at hm; cases hm; rfl
theorem gp_opts : GP opts := by intro s a s' hm; unfold opts at hm; cases hm; rfl
theorem gp_textto (p : Nat) : GP (textto p) := by unfold textto; exact GP.modify' (fun _ => rfl)
theorem gp_moveRight (i : Nat) : GP (moveRight i) := by unfold moveRight; exact GP.modify' (fun _ => rfl)
theorem gp_moveLeft : GP moveLeft := by intro s a s' hm; unfold moveLeft at hm; split at hm <;> cases hm; rfl
theorem gp_rightChar (i : Nat) : GP (rightChar E i) := by
  intro s a s' hm; unfold rightChar at hm; split at hm <;> cases hm; rfl
theorem gp_charAt (i : Nat) : GP (charAt E i) := by
  intro s a s' hm; unfold charAt at hm; split at hm <;> cases hm; rfl
theorem gp_get : GP get := by intro s a s' hm; unfold get at hm; cases hm; rfl
theorem gp_popOptions : GP popOptions := by intro s a s' hm; unfold popOptions at hm; split at hm <;> cases hm; rfl
theorem gp_popKeepOptions : GP popKeepOptions := by
  intro s a s' hm; unfold popKeepOptions at hm; split at hm <;> cases hm; rfl
theorem gp_pushOptions : GP pushOptions := by unfold pushOptions; exact GP.modify' (fun _ => rfl)
theorem gp_setUnit (u : Option RNode) : GP (setUnit u) := by unfold setUnit; exact GP.modify' (fun _ => rfl)
theorem gp_addConcatenate : GP addConcatenate := by
  intro s a s' hm; unfold addConcatenate at hm; split at hm <;> cases hm; rfl
theorem gp_addConcatenate3 (lazy : Bool) (mn mx : Nat) : GP (addConcatenate3 lazy mn mx) := by
  intro s a s' hm; unfold addConcatenate3 at hm; split at hm <;> cases hm; rfl
theorem gp_addToConcatenate (pos cch : Nat) : GP (addToConcatenate E pos cch) := by
  intro s a s' hm
  unfold addToConcatenate at hm
  split at hm
  · cases hm; rfl
  · split at hm
    · cases hm
    · simp only [] at hm
      split at hm
      · cases hm; rfl
      · split at hm <;> (cases hm; rfl)

/-- what keeps the group keeps `NP` -/
theorem np_of_gp {m : M α} (h : GP m) : H NP m (fun _ => NP) := by
  unfold H
  intro s a s' hp hm
  unfold NP at *
  rw [h s a s' hm]
  exact hp

/-- the invariant together with `NP` -/
def TN (s : PS) : Prop := TreeInv s ∧ NP s

theorem tn_of {m : M α} (h1 : H TreeInv m (fun _ => TreeInv)) (h2 : GP m) : H TN m (fun _ => TN) :=
  H_and (H.conseq h1 (fun _ h => h.1) (fun _ _ h => h)) (H.conseq (np_of_gp h2) (fun _ h => h.2) (fun _ _ h => h))

/-- `addAlternate` gives a conditional group a child and leaves any other group alone -/
theorem np_addAlternate : H NP addAlternate (fun _ => NP) := by
  unfold addAlternate
  apply H_modify
  intro s hnp
  unfold NP at *
  dsimp only
  split
  · intro h
    have := h.2
    dsimp only at this
    rw [addChild_kids] at this
    simp at this
  · exact hnp

attribute [local irreducible] GP

syntax "gp_run" : tactic
macro_rules
  | `(tactic| gp_run) => `(tactic| repeat' (first
      | exact GP.pure'
      | exact GP.throw'
      | exact GP.fault'
      | exact gp_scanBlank _
      | exact gp_isTrueQuantifier _
      | exact gp_scanDecimal _
      | exact gp_charsRight _
      | exact gp_textpos
      | exact gp_opts
      | exact gp_textto _
      | exact gp_moveRight _
      | exact gp_moveLeft
      | exact gp_rightChar _ _
      | exact gp_charAt _ _
      | exact gp_get
      | exact gp_popOptions
      | exact gp_setUnit _
      | exact gp_addConcatenate
      | exact gp_addConcatenate3 _ _ _
      | exact gp_addToConcatenate _ _ _
      | (apply GP.ite')
      | (apply GP.bind')
      | intro _
      | split))

theorem gp_moveRightGetChar : GP (moveRightGetChar E) := by unfold moveRightGetChar; gp_run
theorem gp_nextIs (c : Nat) : GP (nextIs E c) := by unfold nextIs; gp_run
theorem gp_quantMax (sp mn : Nat) : GP (quantMax E sp mn) := by
  unfold quantMax orM rcIs
  gp_run
  all_goals first | exact gp_nextIs E _
theorem gp_quantClosed (sp : Nat) : GP (quantClosed E sp) := by
  unfold quantClosed
  gp_run
  all_goals exact gp_moveRightGetChar E
theorem gp_quantBrace : GP (quantBrace E) := by
  unfold quantBrace
  gp_run
  all_goals first | exact gp_quantMax E _ _ | exact gp_quantClosed E _
theorem gp_quantBounds (ch : Nat) : GP (quantBounds E ch) := by
  unfold quantBounds
  gp_run
  all_goals exact gp_quantBrace E
theorem gp_quantApply (mn mx : Nat) : GP (quantApply E mn mx) := by
  unfold quantApply
  gp_run
  all_goals exact gp_nextIs E _
theorem gp_scanQuantifier (ch : Nat) : GP (scanQuantifier E ch) := by
  unfold scanQuantifier
  gp_run
  all_goals first | exact gp_quantBounds E _ | exact gp_quantApply E _ _
theorem gp_stepAfter (b : Bool) : GP (stepAfter E b) := by
  unfold stepAfter
  gp_run
  all_goals first | exact gp_moveRightGetChar E | exact gp_scanQuantifier E _
theorem gp_stepLiteral (sp ep : Nat) (isQ wp0 : Bool) : GP (stepLiteral E sp ep isQ wp0) := by
  unfold stepLiteral
  gp_run

end RegexVerif.Parser
