/-
C19: the specification-level reading of a literal raw tree.  The denotation the reducer slice gives a raw tree is
`RewriteDecisions.toPat rtl (Reduce.toR (Reduce.ofRaw root))`; for the tree `Parser.parse` builds for `Escape s`
(`Lemmas/EscapeFull.lean`) it is `cap 0 (s as a string of literal runes)`, whose successes are computed here.
-/
import RegexVerif.Lemmas.EscapeFull
import RegexVerif.Lemmas.RewriteDecisions
import RegexVerif.Model.Reduce

namespace RegexVerif.Lemmas.EscapeSpec
open RegexVerif RegexVerif.Spec RegexVerif.RewriteDecisions RegexVerif.Reduce

/-- the successes of a string of literal runes, left to right: one, right after the string, iff the text
    continues with it -/
theorem m_strPat_exact (e : Env) : ∀ (w : List Nat) (st : St),
    m e (strPat w) false st =
      if (e.text.drop st.pos).take w.length = w then [{ st with pos := st.pos + w.length }] else [] := by
  intro w
  induction w with
  | nil => intro st; simp [strPat, seqOf, m]
  | cons c w ih =>
    intro st
    have h1 : m e (strPat (c :: w)) false st = (m e (lit c) false st).flatMap (fun st' => m e (strPat w) false st') :=
      ms_cons_ltr e (lit c) (w.map lit) st
    rw [h1]
    simp only [lit, m, stepChar, Bool.false_eq_true, if_false, Pred.test]
    cases hc : e.text[st.pos]? with
    | none =>
      have : e.text.drop st.pos = [] := by
        rw [List.getElem?_eq_none_iff] at hc; exact List.drop_eq_nil_of_le hc
      simp [this]
    | some r =>
      obtain ⟨hlt, hr⟩ := List.getElem?_eq_some_iff.mp hc
      have hd : e.text.drop st.pos = r :: e.text.drop (st.pos + 1) := by
        rw [List.drop_eq_getElem_cons hlt, hr]
      simp only [Option.map_some, hd, List.length_cons, List.take_succ_cons, List.cons.injEq]
      by_cases hcr : c = r
      · subst hcr
        simp only [beq_self_eq_true, if_true, List.flatMap_cons, List.flatMap_nil, List.append_nil, true_and]
        rw [ih]
        simp [Nat.add_assoc, Nat.add_comm 1]
      · have : (c == r) = false := by simpa using hcr
        simp [this]
        intro h; exact absurd h.symm hcr


/-- the denotation of a literal leaf of the raw tree is the string of its runes -/
theorem toPat_leaf (rtl : Bool) (k : Parser.RNode) (w : List Nat) (h : Parser.leafRunes k = some w) :
    toPat rtl (toR (ofRaw k)) = strPat w := by
  obtain ⟨t, o, ch, str, set, m, n, kids⟩ := k
  cases t <;> cases set <;> cases kids <;> simp [Parser.leafRunes] at h
  all_goals subst h
  · simp [ofRaw, ofRaws, toR, Parser.NT.toNat, optsR, cpOf, isOneFamily, isSetFamily, toPat, CP.pred, strPat, seqOf, lit, Node.t, Node.ch]
  · simp [ofRaw, ofRaws, toR, Parser.NT.toNat, isCharLoop, toPat]
  · simp [ofRaw, ofRaws, toR, Parser.NT.toNat, isCharLoop, toPat, strPat, seqOf]

/-- the children of a literal concatenation, evaluated left to right, succeed like the string they spell -/
theorem ms_kids (e : Env) : ∀ (ks : List Parser.RNode) (w : List Nat), Parser.kidsRunes ks = some w →
    ∀ st, ms e false (toPats false (toRs (ofRaws ks))) st = m e (strPat w) false st := by
  intro ks
  induction ks with
  | nil =>
    intro w h st
    simp [Parser.kidsRunes] at h; subst h
    simp [ofRaws, toRs, toPats, ms_nil, strPat, seqOf, m]
  | cons k ks ih =>
    intro w h st
    simp only [Parser.kidsRunes] at h
    cases h1 : Parser.leafRunes k with
    | none => simp [h1] at h
    | some a =>
      cases h2 : Parser.kidsRunes ks with
      | none => simp [h1, h2] at h
      | some b =>
        simp [h1, h2] at h; subst h
        simp only [ofRaws, toRs, toPats]
        rw [ms_cons_ltr, toPat_leaf false k a h1]
        have e1 : (fun st' => ms e false (toPats false (toRs (ofRaws ks))) st') = fun st' => m e (strPat b) false st' := by
          funext st'; exact ih b h2 st'
        have e2 := m_strPat_append e false a b st
        rw [ms_cons_ltr, ms_single] at e2
        have e3 : ms e false [strPat b] = fun st' => m e (strPat b) false st' := by
          funext st'; exact ms_single e false _ st'
        rw [e3] at e2
        rw [← e2]
        exact congrArg (fun f => List.flatMap f (m e (strPat a) false st)) e1


/-- **the specification-level reading of the literal tree**: the denotation (`toPat ∘ toR ∘ ofRaw`, left to
    right) of the root Capture 0 over the one-branch Alternate over a Concatenate of literal leaves spelling `w`
    has exactly one success from `st` when the text continues with `w` — right after `w`, with group 0 recorded
    over it — and none otherwise -/
theorem m_litRoot (e : Env) (opts co : Parser.Opts) (cch : Nat) (cstr : List Nat) (cset : Option Class.Class)
    (cm cn : Int) (ks : List Parser.RNode) (w : List Nat) (h : Parser.kidsRunes ks = some w) (st : St) :
    m e (toPat false (toR (ofRaw (.mk .capture opts 0 [] none 0 (-1)
      [.mk .alternate opts 0 [] none 0 0 [.mk .concatenate co cch cstr cset cm cn ks]])))) false st =
    if (e.text.drop st.pos).take w.length = w then
      [{ pos := st.pos + w.length, caps := st.caps ++ [(0, st.pos, w.length)] }] else [] := by
  have hden : toPat false (toR (ofRaw (.mk .capture opts 0 [] none 0 (-1)
      [.mk .alternate opts 0 [] none 0 0 [.mk .concatenate co cch cstr cset cm cn ks]]))) =
      .cap 0 (seqOf (toPats false (toRs (ofRaws ks)))) := by
    simp [ofRaw, ofRaws, toR, toRs, Parser.NT.toNat, isCharLoop, payload, toPat, toPats, altOf, seqOf, dir]
  rw [hden]
  simp only [m]
  have := ms_kids e ks w h st
  simp only [ms] at this
  rw [this, m_strPat_exact]
  split
  · simp
  · simp

/-! ## right to left -/

theorem take_succ_drop (l : List Nat) (k n c : Nat) (w : List Nat) :
    (l.drop k).take (n + 1) = c :: w ↔ l[k]? = some c ∧ (l.drop (k + 1)).take n = w := by
  by_cases hk : k < l.length
  · rw [List.drop_eq_getElem_cons hk]
    simp only [List.take_succ_cons, List.cons.injEq, List.getElem?_eq_getElem hk, Option.some.injEq]
  · have h1 : l.drop k = [] := List.drop_eq_nil_of_le (by omega)
    have h2 : l[k]? = none := by rw [List.getElem?_eq_none_iff]; omega
    simp [h1, h2]

/-- right to left: one success, right before the string, iff the text before the position ends with it -/
theorem m_strPat_exact_rtl (e : Env) : ∀ (w : List Nat) (st : St),
    m e (strPat w) true st =
      if w.length ≤ st.pos ∧ (e.text.drop (st.pos - w.length)).take w.length = w then
        [{ st with pos := st.pos - w.length }] else [] := by
  intro w
  induction w with
  | nil => intro st; simp [strPat, seqOf, m]
  | cons c w ih =>
    intro st
    have h1 : m e (strPat (c :: w)) true st = (m e (strPat w) true st).flatMap (m e (lit c) true) :=
      ms_cons_rtl e (lit c) (w.map lit) st
    rw [h1, ih]
    by_cases hw : w.length ≤ st.pos ∧ (e.text.drop (st.pos - w.length)).take w.length = w
    · rw [if_pos hw]
      simp only [List.flatMap_cons, List.flatMap_nil, List.append_nil, lit, m, stepChar, if_true, Pred.test,
        Bool.false_eq_true, if_false, List.length_cons]
      by_cases h0 : st.pos - w.length = 0
      · have : ¬ (w.length + 1 ≤ st.pos) := by omega
        simp [h0, this]
      · have hle : w.length + 1 ≤ st.pos := by omega
        have hk : st.pos - (w.length + 1) + 1 = st.pos - w.length := by omega
        have key := take_succ_drop e.text (st.pos - (w.length + 1)) w.length c w
        rw [hk] at key
        have hidx : st.pos - w.length - 1 = st.pos - (w.length + 1) := by omega
        simp only [h0, if_false, hidx]
        cases hc : e.text[st.pos - (w.length + 1)]? with
        | none =>
          have : ¬ ((e.text.drop (st.pos - (w.length + 1))).take (w.length + 1) = c :: w) := by
            rw [key, hc]; simp
          simp [this]
        | some r =>
          by_cases hcr : c = r
          · subst hcr
            have : (e.text.drop (st.pos - (w.length + 1))).take (w.length + 1) = c :: w := by
              rw [key, hc]; exact ⟨rfl, hw.2⟩
            simp [this, hle]
          · have : ¬ ((e.text.drop (st.pos - (w.length + 1))).take (w.length + 1) = c :: w) := by
              rw [key, hc]; simp; intro h; exact absurd h.symm hcr
            have hb : (c == r) = false := by simpa using hcr
            simp [this, hb]
    · rw [if_neg hw]
      simp only [List.flatMap_nil, List.length_cons]
      have : ¬ (w.length + 1 ≤ st.pos ∧ (e.text.drop (st.pos - (w.length + 1))).take (w.length + 1) = c :: w) := by
        rintro ⟨hle, ht⟩
        have hk : st.pos - (w.length + 1) + 1 = st.pos - w.length := by omega
        have key := take_succ_drop e.text (st.pos - (w.length + 1)) w.length c w
        rw [hk] at key
        exact hw ⟨by omega, (key.mp ht).2⟩
      simp [this]


theorem ofRaws_eq_map : ∀ (l : List Parser.RNode), ofRaws l = l.map ofRaw
  | [] => by simp [ofRaws]
  | x :: xs => by simp [ofRaws, ofRaws_eq_map xs]

theorem toRs_eq_map : ∀ (l : List Node), toRs l = l.map toR
  | [] => by simp [toRs]
  | x :: xs => by simp [toRs, toRs_eq_map xs]

/-- right to left, the children in pattern order succeed like the string they spell -/
theorem ms_kids_rtl (e : Env) : ∀ (ks : List Parser.RNode) (w : List Nat), Parser.kidsRunes ks = some w →
    ∀ st, ms e true (toPats true (toRs (ofRaws ks))) st = m e (strPat w) true st := by
  intro ks
  induction ks with
  | nil =>
    intro w h st
    simp [Parser.kidsRunes] at h; subst h
    simp [ofRaws, toRs, toPats, ms_nil, strPat, seqOf, m]
  | cons k ks ih =>
    intro w h st
    simp only [Parser.kidsRunes] at h
    cases h1 : Parser.leafRunes k with
    | none => simp [h1] at h
    | some a =>
      cases h2 : Parser.kidsRunes ks with
      | none => simp [h1, h2] at h
      | some b =>
        simp [h1, h2] at h; subst h
        simp only [ofRaws, toRs, toPats]
        rw [ms_cons_rtl, toPat_leaf true k a h1, ih b h2 st]
        have e2 := m_strPat_append e true a b st
        rw [ms_cons_rtl, ms_single, ms_single] at e2
        exact e2

/-- the literal tree of a RightToLeft pattern (children stored reversed), read right to left -/
theorem m_litRoot_rtl (e : Env) (opts co : Parser.Opts) (cch : Nat) (cstr : List Nat) (cset : Option Class.Class)
    (cm cn : Int) (ks : List Parser.RNode) (w : List Nat) (h : Parser.kidsRunes ks = some w) (st : St) :
    m e (toPat true (toR (ofRaw (.mk .capture opts 0 [] none 0 (-1)
      [.mk .alternate opts 0 [] none 0 0 [.mk .concatenate co cch cstr cset cm cn ks.reverse]])))) true st =
    if w.length ≤ st.pos ∧ (e.text.drop (st.pos - w.length)).take w.length = w then
      [{ pos := st.pos - w.length, caps := st.caps ++ [(0, st.pos - w.length, w.length)] }] else [] := by
  have hden : toPat true (toR (ofRaw (.mk .capture opts 0 [] none 0 (-1)
      [.mk .alternate opts 0 [] none 0 0 [.mk .concatenate co cch cstr cset cm cn ks.reverse]]))) =
      .cap 0 (seqOf (toPats true (toRs (ofRaws ks)))) := by
    simp [ofRaw, ofRaws, toR, toRs, Parser.NT.toNat, isCharLoop, payload, toPat, toPats, altOf, seqOf, dir,
      ofRaws_eq_map, toRs_eq_map, toPats_eq_map]
  rw [hden]
  simp only [m]
  have := ms_kids_rtl e ks w h st
  simp only [ms] at this
  rw [this, m_strPat_exact_rtl]
  split
  · rename_i hc
    have : min st.pos (st.pos - w.length) = st.pos - w.length := by omega
    have h2 : max st.pos (st.pos - w.length) = st.pos := by omega
    simp [this, h2]; omega
  · simp

end RegexVerif.Lemmas.EscapeSpec
