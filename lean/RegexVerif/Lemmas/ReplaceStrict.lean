/-
Helper lemmas for the strict variants of `Model/ReplaceStrict.lean`:
* a strict run that does not panic returns what the total run of `Model/Replace.lean` returns;
* strict lookups succeed for well-formed matches (`MatchOk`) and rules that name existing slots
  (`pieceOk`), string indices inside the table (`RulesWF`);
* the scanner / `NewReplacerData` only produce such rules for well-formed tables (`envOk`, `capsOk`).
-/
import RegexVerif.Model.ReplaceStrict
import RegexVerif.Lemmas.Replace

namespace RegexVerif.Lemmas.ReplaceStrict
open RegexVerif RegexVerif.Replace RegexVerif.Lemmas.Replace

/-! ### `collect` -/

theorem collect_map_eq {α β : Type} (f : α → Option β) (g : α → β) :
    ∀ (l : List α) (r : List β), (∀ x ∈ l, ∀ y, f x = some y → y = g x) → collect (l.map f) = some r → r = l.map g := by
  intro l
  induction l with
  | nil => intro r _ h; simp [collect] at h; simp [h]
  | cons a rest ih =>
    intro r hfg h
    simp only [List.map_cons] at h
    cases hfa : f a with
    | none => rw [hfa] at h; simp [collect] at h
    | some b =>
      rw [hfa] at h
      simp only [collect, Option.map_eq_some_iff] at h
      obtain ⟨r', hr', rfl⟩ := h
      have hb := hfg a (by simp) b hfa
      have := ih r' (fun x hx => hfg x (by simp [hx])) hr'
      simp [hb, this]

theorem collect_map_some {α β : Type} (f : α → Option β) (g : α → β) :
    ∀ (l : List α), (∀ x ∈ l, f x = some (g x)) → collect (l.map f) = some (l.map g) := by
  intro l
  induction l with
  | nil => intro _; simp [collect]
  | cons a rest ih =>
    intro h
    simp only [List.map_cons, h a (by simp), collect, ih (fun x hx => h x (by simp [hx]))]
    simp

/-! ### a strict lookup that succeeds returns the total lookup's value -/

theorem sliceLoop_eq (text : List Nat) (a b : Nat) (x : List Nat) (h : sliceLoop text a b = some x) : x = slice text a b := by
  unfold sliceLoop at h
  split at h <;> simp at h
  exact h.symm

theorem sliceExpr_eq (text : List Nat) (a b : Nat) (x : List Nat) (h : sliceExpr text a b = some x) : x = slice text a b := by
  unfold sliceExpr at h
  split at h <;> simp at h
  exact h.symm

theorem groupText?_eq (text : List Nat) (m : Match) (slot : Nat) (x : List Nat)
    (h : groupText? text m slot = some x) : x = groupText text m slot := by
  unfold groupText? at h
  unfold groupText
  cases slot with
  | zero =>
    simp only [groupSpan?, groupSpan] at *
    exact sliceLoop_eq _ _ _ _ h
  | succ k =>
    simp only [groupSpan?, groupSpan] at *
    cases hg : m.groups[k]? with
    | none => rw [hg] at h; simp at h
    | some g =>
      rw [hg] at h
      have hd : m.groups.getD k none = g := by simp [List.getD_eq_getElem?_getD, hg]
      rw [hd]
      cases g with
      | none => simp at h; simp [h]
      | some p =>
        obtain ⟨i, l⟩ := p
        simp only at h ⊢
        exact sliceLoop_eq _ _ _ _ h

theorem pieceText?_eq (text : List Nat) (m : Match) (p : Piece) (x : List Nat)
    (h : pieceText? text m p = some x) : x = pieceText text m p := by
  cases p with
  | lit s => simp [pieceText?] at h; simp [pieceText, h]
  | group slot => exact groupText?_eq text m slot x h
  | leftPortion =>
    simp only [pieceText?] at h
    rw [sliceLoop_eq _ _ _ _ h, slice_zero]; rfl
  | rightPortion => simp [pieceText?] at h; simp [pieceText, h]
  | lastGroup => exact groupText?_eq text m _ x h
  | wholeString => simp [pieceText?] at h; simp [pieceText, h]

theorem expand?_eq (pieces : List Piece) (text : List Nat) (m : Match) (x : List Nat)
    (h : expand? pieces text m = some x) : x = expand pieces text m := by
  simp only [expand?, Option.map_eq_some_iff] at h
  obtain ⟨r, hr, rfl⟩ := h
  rw [collect_map_eq _ (pieceText text m) pieces r (fun p _ y hy => pieceText?_eq text m p y hy) hr]
  simp [expand, List.flatMap_def]

theorem expandRTL?_eq (pieces : List Piece) (text : List Nat) (m : Match) (es : List (List Nat))
    (h : expandRTL? pieces text m = some es) : es = pieces.reverse.map (pieceText text m) :=
  collect_map_eq _ (pieceText text m) pieces.reverse es (fun p _ y hy => pieceText?_eq text m p y hy) h

theorem decodeRule?_eq (strings : List (List Nat)) (r : Int) (p : Piece)
    (h : decodeRule? strings r = some p) : p = decodeRule strings r := by
  unfold decodeRule? at h
  split at h
  · rename_i h0
    simp only [Option.map_eq_some_iff] at h
    obtain ⟨s, hs, rfl⟩ := h
    simp [decodeRule, h0, List.getD_eq_getElem?_getD, hs]
  · simp at h; exact h.symm

theorem ruleText?_eq (strings : List (List Nat)) (text : List Nat) (m : Match) (r : Int) (x : List Nat)
    (h : ruleText? strings text m r = some x) : x = pieceText text m (decodeRule strings r) := by
  unfold ruleText? at h
  split at h
  · simp at h
  · rename_i p hp
    rw [← decodeRule?_eq strings r p hp]
    exact pieceText?_eq text m p x h

theorem expandData?_eq (d : ReplacerData) (text : List Nat) (m : Match) (x : List Nat)
    (h : expandData? d text m = some x) : x = expand d.pieces text m := by
  simp only [expandData?, Option.map_eq_some_iff] at h
  obtain ⟨r, hr, rfl⟩ := h
  rw [collect_map_eq _ (fun r => pieceText text m (decodeRule d.strings r)) d.rules r
    (fun p _ y hy => ruleText?_eq d.strings text m p y hy) hr]
  simp [expand, ReplacerData.pieces, List.flatMap_def, List.map_map, Function.comp_def]

theorem expandDataRTL?_eq (d : ReplacerData) (text : List Nat) (m : Match) (es : List (List Nat))
    (h : expandDataRTL? d text m = some es) : es = d.pieces.reverse.map (pieceText text m) := by
  rw [collect_map_eq _ (fun r => pieceText text m (decodeRule d.strings r)) d.rules.reverse es
    (fun p _ y hy => ruleText?_eq d.strings text m p y hy) h]
  simp [ReplacerData.pieces, List.map_map, Function.comp_def, List.map_reverse]

theorem capTexts?_eq (text : List Nat) (m : Match) (x : List (List Nat))
    (h : capTexts? text m = some x) : x = capTexts text m := by
  unfold capTexts? at h
  unfold capTexts
  refine collect_map_eq _ _ m.groups x ?_ h
  intro g _ y hy
  cases g with
  | none => simp at hy; simp [hy]
  | some p =>
    obtain ⟨i, l⟩ := p
    simp only at hy ⊢
    exact sliceExpr_eq _ _ _ _ hy

/-! ### the strict loops: a result is the total loop's result -/

theorem loopLTRStrict_eq (text : List Nat) (pieces : List Piece) (ex : Match → Option (List Nat))
    (hex : ∀ m x, ex m = some x → x = expand pieces text m) :
    ∀ (ms : List Match) (prevat : Nat) (buf : List Nat) (count : Int) (r : List Nat),
      loopLTRStrict text ex ms prevat buf count = some r → loopLTR text pieces ms prevat buf count = some r := by
  intro ms
  induction ms with
  | nil => intro prevat buf count r h; simpa [loopLTRStrict, loopLTR] using h
  | cons m rest ih =>
    intro prevat buf count r h
    simp only [loopLTRStrict] at h
    simp only [loopLTR]
    cases hgap : (if m.index ≠ prevat then sliceLoop text prevat m.index else some []) with
    | none => rw [hgap] at h; simp at h
    | some gap =>
      rw [hgap] at h
      cases hx : ex m with
      | none => rw [hx] at h; simp at h
      | some e =>
        rw [hx] at h
        have he := hex m e hx
        subst he
        simp only at h ⊢
        by_cases hc : count - 1 = 0
        · simpa [hc] using h
        · simp only [hc, if_false] at h ⊢
          exact ih _ _ _ _ h

theorem loopRTLStrict_eq (text : List Nat) (pieces : List Piece) (exR : Match → Option (List (List Nat)))
    (hex : ∀ m es, exR m = some es → es = pieces.reverse.map (pieceText text m)) :
    ∀ (ms : List Match) (prevat : Nat) (al : List (List Nat)) (count : Int) (r : List Nat),
      loopRTLStrict text exR ms prevat al count = some r → loopRTL text pieces ms prevat al count = some r := by
  intro ms
  induction ms with
  | nil => intro prevat al count r h; simpa [loopRTLStrict, loopRTL] using h
  | cons m rest ih =>
    intro prevat al count r h
    simp only [loopRTLStrict] at h
    simp only [loopRTL]
    cases hgap : (if m.index + m.len ≠ prevat then (sliceExpr text (m.index + m.len) prevat).map (fun g => al ++ [g]) else some al) with
    | none => rw [hgap] at h; simp at h
    | some al' =>
      rw [hgap] at h
      cases hx : exR m with
      | none => rw [hx] at h; simp at h
      | some es =>
        rw [hx] at h
        have he := hex m es hx
        subst he
        simp only [expandRTL] at h ⊢
        by_cases hc : count - 1 = 0
        · simpa [hc] using h
        · simp only [hc, if_false] at h ⊢
          exact ih _ _ _ _ h

theorem loopFuncLTRStrict_eq (text : List Nat) (ev : Match → Option (List Nat)) (ev' : Match → List Nat)
    (hev : ∀ m x, ev m = some x → x = ev' m) :
    ∀ (ms : List Match) (prevat : Nat) (buf : List Nat) (count : Int) (r : List Nat),
      loopFuncLTRStrict text ev ms prevat buf count = some r → loopFuncLTR text ev' ms prevat buf count = some r := by
  intro ms
  induction ms with
  | nil => intro prevat buf count r h; simpa [loopFuncLTRStrict, loopFuncLTR] using h
  | cons m rest ih =>
    intro prevat buf count r h
    simp only [loopFuncLTRStrict] at h
    simp only [loopFuncLTR]
    cases hgap : (if m.index ≠ prevat then sliceExpr text prevat m.index else some []) with
    | none => rw [hgap] at h; simp at h
    | some gap =>
      rw [hgap] at h
      cases hx : ev m with
      | none => rw [hx] at h; simp at h
      | some e =>
        rw [hx] at h
        have he := hev m e hx
        subst he
        simp only at h ⊢
        by_cases hc : count - 1 = 0
        · simpa [hc] using h
        · simp only [hc, if_false] at h ⊢
          exact ih _ _ _ _ h

theorem loopFuncRTLStrict_eq (text : List Nat) (ev : Match → Option (List Nat)) (ev' : Match → List Nat)
    (hev : ∀ m x, ev m = some x → x = ev' m) :
    ∀ (ms : List Match) (prevat : Nat) (al : List (List Nat)) (count : Int) (r : List Nat),
      loopFuncRTLStrict text ev ms prevat al count = some r → loopFuncRTL text ev' ms prevat al count = some r := by
  intro ms
  induction ms with
  | nil => intro prevat al count r h; simpa [loopFuncRTLStrict, loopFuncRTL] using h
  | cons m rest ih =>
    intro prevat al count r h
    simp only [loopFuncRTLStrict] at h
    simp only [loopFuncRTL]
    cases hgap : (if m.index + m.len ≠ prevat then (sliceExpr text (m.index + m.len) prevat).map (fun g => al ++ [g]) else some al) with
    | none => rw [hgap] at h; simp at h
    | some al' =>
      rw [hgap] at h
      cases hx : ev m with
      | none => rw [hx] at h; simp at h
      | some e =>
        rw [hx] at h
        have he := hev m e hx
        subst he
        simp only at h ⊢
        by_cases hc : count - 1 = 0
        · simpa [hc] using h
        · simp only [hc, if_false] at h ⊢
          exact ih _ _ _ _ h

theorem splitLoopStrict_eq (text : List Nat) (rtl : Bool) :
    ∀ (ms : List Match) (prior : Nat) (ret : List (List Nat)) (count : Int) (r : List (List Nat)),
      splitLoopStrict text rtl ms prior ret count = some r → splitLoop text rtl ms prior ret count = some r := by
  intro ms
  induction ms with
  | nil => intro prior ret count r h; simpa [splitLoopStrict, splitLoop] using h
  | cons m rest ih =>
    intro prior ret count r h
    simp only [splitLoopStrict] at h
    simp only [splitLoop]
    by_cases hc : count > 0
    · simp only [hc, if_true] at h ⊢
      cases hgap : (if rtl then sliceExpr text (m.index + m.len) prior else sliceExpr text prior m.index) with
      | none => rw [hgap] at h; simp at h
      | some g =>
        rw [hgap] at h
        cases hx : capTexts? text m with
        | none => rw [hx] at h; simp at h
        | some caps =>
          rw [hx] at h
          have he := capTexts?_eq text m caps hx
          subst he
          simp only at h ⊢
          exact ih _ _ _ _ h
    · simpa [hc] using h

/-! ### the strict loops agree with the total loops when the expansion succeeds on every match -/

theorem loopLTRStrict_agree (text : List Nat) (pieces : List Piece) (ex : Match → Option (List Nat)) :
    ∀ (ms : List Match) (prevat : Nat) (buf : List Nat) (count : Int),
      (∀ m ∈ ms, ex m = some (expand pieces text m)) →
      loopLTRStrict text ex ms prevat buf count = loopLTR text pieces ms prevat buf count := by
  intro ms
  induction ms with
  | nil => intro prevat buf count _; simp [loopLTRStrict, loopLTR]
  | cons m rest ih =>
    intro prevat buf count hex
    simp only [loopLTRStrict, loopLTR, hex m (by simp)]
    cases (if m.index ≠ prevat then sliceLoop text prevat m.index else some []) with
    | none => rfl
    | some gap =>
      simp only
      rw [ih _ _ _ (fun x hx => hex x (by simp [hx]))]

theorem loopRTLStrict_agree (text : List Nat) (pieces : List Piece) (exR : Match → Option (List (List Nat))) :
    ∀ (ms : List Match) (prevat : Nat) (al : List (List Nat)) (count : Int),
      (∀ m ∈ ms, exR m = some (pieces.reverse.map (pieceText text m))) →
      loopRTLStrict text exR ms prevat al count = loopRTL text pieces ms prevat al count := by
  intro ms
  induction ms with
  | nil => intro prevat al count _; simp [loopRTLStrict, loopRTL]
  | cons m rest ih =>
    intro prevat al count hex
    simp only [loopRTLStrict, loopRTL, hex m (by simp), expandRTL]
    cases (if m.index + m.len ≠ prevat then (sliceExpr text (m.index + m.len) prevat).map (fun g => al ++ [g]) else some al) with
    | none => rfl
    | some al' =>
      simp only
      rw [ih _ _ _ (fun x hx => hex x (by simp [hx]))]

theorem loopFuncLTRStrict_agree (text : List Nat) (ev : Match → Option (List Nat)) (ev' : Match → List Nat) :
    ∀ (ms : List Match) (prevat : Nat) (buf : List Nat) (count : Int),
      (∀ m ∈ ms, ev m = some (ev' m)) →
      loopFuncLTRStrict text ev ms prevat buf count = loopFuncLTR text ev' ms prevat buf count := by
  intro ms
  induction ms with
  | nil => intro prevat buf count _; simp [loopFuncLTRStrict, loopFuncLTR]
  | cons m rest ih =>
    intro prevat buf count hex
    simp only [loopFuncLTRStrict, loopFuncLTR, hex m (by simp)]
    cases (if m.index ≠ prevat then sliceExpr text prevat m.index else some []) with
    | none => rfl
    | some gap =>
      simp only
      rw [ih _ _ _ (fun x hx => hex x (by simp [hx]))]

theorem loopFuncRTLStrict_agree (text : List Nat) (ev : Match → Option (List Nat)) (ev' : Match → List Nat) :
    ∀ (ms : List Match) (prevat : Nat) (al : List (List Nat)) (count : Int),
      (∀ m ∈ ms, ev m = some (ev' m)) →
      loopFuncRTLStrict text ev ms prevat al count = loopFuncRTL text ev' ms prevat al count := by
  intro ms
  induction ms with
  | nil => intro prevat al count _; simp [loopFuncRTLStrict, loopFuncRTL]
  | cons m rest ih =>
    intro prevat al count hex
    simp only [loopFuncRTLStrict, loopFuncRTL, hex m (by simp)]
    cases (if m.index + m.len ≠ prevat then (sliceExpr text (m.index + m.len) prevat).map (fun g => al ++ [g]) else some al) with
    | none => rfl
    | some al' =>
      simp only
      rw [ih _ _ _ (fun x hx => hex x (by simp [hx]))]

theorem splitLoopStrict_agree (text : List Nat) (rtl : Bool) :
    ∀ (ms : List Match) (prior : Nat) (ret : List (List Nat)) (count : Int),
      (∀ m ∈ ms, capTexts? text m = some (capTexts text m)) →
      splitLoopStrict text rtl ms prior ret count = splitLoop text rtl ms prior ret count := by
  intro ms
  induction ms with
  | nil => intro prior ret count _; simp [splitLoopStrict, splitLoop]
  | cons m rest ih =>
    intro prior ret count hex
    simp only [splitLoopStrict, splitLoop, hex m (by simp)]
    by_cases hc : count > 0
    · simp only [hc, if_true]
      cases (if rtl then sliceExpr text (m.index + m.len) prior else sliceExpr text prior m.index) with
      | none => rfl
      | some g =>
        simp only
        rw [ih _ _ _ (fun x hx => hex x (by simp [hx]))]
    · simp [hc]

/-! ### strict lookups succeed on well-formed matches -/

theorem MatchOk_parts {capsize : Nat} {text : List Nat} {m : Match} (h : MatchOk capsize text m = true) :
    m.groups.length + 1 = capsize ∧ m.index + m.len ≤ text.length ∧ ∀ g ∈ m.groups, spanOk text g = true := by
  simpa [MatchOk, and_assoc] using h

theorem sliceLoop_some (text : List Nat) (a b : Nat) (hb : b ≤ text.length) :
    sliceLoop text a b = some (slice text a b) := by
  unfold sliceLoop
  have : ¬ (a < b ∧ text.length < b) := by omega
  simp [this]

theorem groupText?_ok (capsize : Nat) (text : List Nat) (m : Match) (hm : MatchOk capsize text m = true)
    (slot : Nat) (hs : slot < capsize) : groupText? text m slot = some (groupText text m slot) := by
  obtain ⟨hlen, hstop, hg⟩ := MatchOk_parts hm
  unfold groupText? groupText
  cases slot with
  | zero => simp only [groupSpan?, groupSpan]; exact sliceLoop_some _ _ _ hstop
  | succ k =>
    have hk : k < m.groups.length := by omega
    simp only [groupSpan?, groupSpan, List.getD_eq_getElem?_getD, List.getElem?_eq_getElem hk, Option.getD_some]
    have hmem : m.groups[k] ∈ m.groups := List.getElem_mem hk
    have hok := hg _ hmem
    cases hgk : m.groups[k] with
    | none => rfl
    | some p =>
      obtain ⟨i, l⟩ := p
      rw [hgk] at hok
      simp only [spanOk, decide_eq_true_eq] at hok
      exact sliceLoop_some _ _ _ hok

theorem pieceText?_ok (capsize : Nat) (text : List Nat) (m : Match) (hm : MatchOk capsize text m = true)
    (p : Piece) (hp : pieceOk capsize p = true) : pieceText? text m p = some (pieceText text m p) := by
  obtain ⟨hlen, hstop, _⟩ := MatchOk_parts hm
  cases p with
  | lit s => rfl
  | group slot =>
    simp only [pieceOk, decide_eq_true_eq] at hp
    exact groupText?_ok capsize text m hm slot hp
  | leftPortion =>
    simp only [pieceText?, pieceText]
    rw [sliceLoop_some _ _ _ (by omega), slice_zero]
  | rightPortion => rfl
  | lastGroup => exact groupText?_ok capsize text m hm _ (by omega)
  | wholeString => rfl

theorem expand?_ok (capsize : Nat) (text : List Nat) (m : Match) (hm : MatchOk capsize text m = true)
    (pieces : List Piece) (hp : ∀ p ∈ pieces, pieceOk capsize p = true) :
    expand? pieces text m = some (expand pieces text m) := by
  simp only [expand?, collect_map_some _ (pieceText text m) pieces (fun p h => pieceText?_ok capsize text m hm p (hp p h))]
  simp [expand, List.flatMap_def]

theorem expandRTL?_ok (capsize : Nat) (text : List Nat) (m : Match) (hm : MatchOk capsize text m = true)
    (pieces : List Piece) (hp : ∀ p ∈ pieces, pieceOk capsize p = true) :
    expandRTL? pieces text m = some (pieces.reverse.map (pieceText text m)) :=
  collect_map_some _ (pieceText text m) pieces.reverse
    (fun p h => pieceText?_ok capsize text m hm p (hp p (by simpa using h)))

theorem capTexts?_ok (capsize : Nat) (text : List Nat) (m : Match) (hm : MatchOk capsize text m = true) :
    capTexts? text m = some (capTexts text m) := by
  obtain ⟨_, _, hg⟩ := MatchOk_parts hm
  unfold capTexts? capTexts
  refine collect_map_some _ _ m.groups ?_
  intro g hmem
  have hok := hg g hmem
  cases g with
  | none => rfl
  | some p =>
    obtain ⟨i, l⟩ := p
    simp only [spanOk, decide_eq_true_eq] at hok
    simp only
    exact sliceExpr_ok text i (i + l) (by omega) hok

/-! ### rules inside the string table -/

theorem decodeRule?_ok (strings : List (List Nat)) (r : Int) (h : 0 ≤ r → r.toNat < strings.length) :
    decodeRule? strings r = some (decodeRule strings r) := by
  unfold decodeRule?
  by_cases h0 : 0 ≤ r
  · have := h h0
    simp [h0, decodeRule, List.getD_eq_getElem?_getD, List.getElem?_eq_getElem this]
  · simp [h0]

theorem ruleText?_ok (capsize : Nat) (text : List Nat) (m : Match) (hm : MatchOk capsize text m = true)
    (strings : List (List Nat)) (r : Int) (h : 0 ≤ r → r.toNat < strings.length)
    (hp : pieceOk capsize (decodeRule strings r) = true) :
    ruleText? strings text m r = some (pieceText text m (decodeRule strings r)) := by
  unfold ruleText?
  rw [decodeRule?_ok strings r h]
  exact pieceText?_ok capsize text m hm _ hp

theorem expandData?_ok (capsize : Nat) (text : List Nat) (m : Match) (hm : MatchOk capsize text m = true)
    (d : ReplacerData) (hwf : RulesWF d.strings d.rules) (hp : ∀ p ∈ d.pieces, pieceOk capsize p = true) :
    expandData? d text m = some (expand d.pieces text m) := by
  have hr : ∀ r ∈ d.rules, ruleText? d.strings text m r = some (pieceText text m (decodeRule d.strings r)) := by
    intro r hr
    exact ruleText?_ok capsize text m hm d.strings r (hwf r hr)
      (hp _ (by simp only [ReplacerData.pieces, List.mem_map]; exact ⟨r, hr, rfl⟩))
  simp only [expandData?, collect_map_some _ _ d.rules hr]
  simp [expand, ReplacerData.pieces, List.flatMap_def, List.map_map, Function.comp_def]

theorem expandDataRTL?_ok (capsize : Nat) (text : List Nat) (m : Match) (hm : MatchOk capsize text m = true)
    (d : ReplacerData) (hwf : RulesWF d.strings d.rules) (hp : ∀ p ∈ d.pieces, pieceOk capsize p = true) :
    expandDataRTL? d text m = some (d.pieces.reverse.map (pieceText text m)) := by
  have hr : ∀ r ∈ d.rules.reverse, ruleText? d.strings text m r = some (pieceText text m (decodeRule d.strings r)) := by
    intro r hr
    have hr' : r ∈ d.rules := by simpa using hr
    exact ruleText?_ok capsize text m hm d.strings r (hwf r hr')
      (hp _ (by simp only [ReplacerData.pieces, List.mem_map]; exact ⟨r, hr', rfl⟩))
  simp only [expandDataRTL?, collect_map_some _ _ d.rules.reverse hr]
  simp [ReplacerData.pieces, List.map_map, Function.comp_def, List.map_reverse]

/-! ### the scanner and `NewReplacerData` only name slots below `capsize` -/

theorem slotOf_lt (env : Env) (hc : capsOk env = true) (n : Nat) (h : isCaptureSlot env n = true) :
    slotOf env n < env.capsize := by
  unfold isCaptureSlot at h
  unfold slotOf
  unfold capsOk at hc
  cases hcaps : env.caps with
  | none => rw [hcaps] at h; simpa using h
  | some l =>
    rw [hcaps] at h hc
    simp only at h hc ⊢
    cases hl : l.lookup n with
    | none => rw [hl] at h; simp at h
    | some v =>
      obtain ⟨a', hmem⟩ := lookup_mem l n v hl
      have hv := (List.all_eq_true.mp hc) _ hmem
      simp only [decide_eq_true_eq] at hv
      have hpos : l.length > 0 := List.length_pos_of_mem hmem
      simp [hpos, hv]

theorem refPiece_ok (env : Env) (hc : capsOk env = true) (n : Int) (h : RefOk env (.ref n)) :
    pieceOk env.capsize (refPiece env n) = true := by
  unfold refPiece
  by_cases hn : 0 ≤ n
  · simp only [hn, if_true, pieceOk, decide_eq_true_eq]
    exact slotOf_lt env hc _ (h.1 hn)
  · simp only [hn, if_false]
    repeat' split
    all_goals rfl

theorem piecesOf_ok (env : Env) (hc : capsOk env = true) :
    ∀ (toks : List Tok) (sb : List Nat), (∀ t ∈ toks, RefOk env t) → ∀ p ∈ piecesOf env toks sb, pieceOk env.capsize p = true := by
  intro toks
  induction toks with
  | nil =>
    intro sb _ p hp
    simp only [piecesOf] at hp
    split at hp
    · simp at hp; subst hp; rfl
    · simp at hp
  | cons t rest ih =>
    intro sb ht p hp
    cases t with
    | ch c => simp only [piecesOf] at hp; exact ih _ (fun t h => ht t (by simp [h])) p hp
    | ref n =>
      simp only [piecesOf, List.mem_append, List.mem_cons] at hp
      rcases hp with hp | hp | hp
      · split at hp
        · simp at hp; subst hp; rfl
        · simp at hp
      · subst hp; exact refPiece_ok env hc n (ht _ (by simp))
      · exact ih _ (fun t h => ht t (by simp [h])) p hp

theorem buildData_wf (env : Env) : ∀ (toks : List Tok) (sb : List Nat) (strings : List (List Nat)) (rules : List Int),
    (∀ t ∈ toks, RefOk env t) → RulesWF strings rules →
    RulesWF (buildData env toks sb strings rules).strings (buildData env toks sb strings rules).rules := by
  intro toks
  induction toks with
  | nil =>
    intro sb strings rules _ hwf
    simp only [buildData]
    by_cases hsb : sb ≠ []
    · simp only [if_pos hsb]
      intro r hm h0
      simp only [List.mem_append, List.mem_singleton] at hm
      rcases hm with hm | hm
      · have := hwf r hm h0; simp; omega
      · subst hm; simp
    · simp only [if_neg hsb]; exact hwf
  | cons t rest ih =>
    intro sb strings rules ht hwf
    cases t with
    | ch c => simp only [buildData]; exact ih _ _ _ (fun t h => ht t (by simp [h])) hwf
    | ref n =>
      have hrefok : RefOk env (.ref n) := ht _ (by simp)
      have hneg : ¬ (0 : Int) ≤ -4 - 1 - (if 0 ≤ n then (slotOf env n.toNat : Int) else n) := by
        by_cases hn : 0 ≤ n
        · simp only [hn, if_true]; omega
        · have := hrefok.2 (by omega); simp only [hn, if_false]; omega
      simp only [buildData]
      by_cases hsb : sb ≠ []
      · simp only [if_pos hsb]
        refine ih _ _ _ (fun t h => ht t (by simp [h])) ?_
        intro r hm h0
        simp only [List.mem_append, List.mem_singleton] at hm
        rcases hm with (hm | hm) | hm
        · have := hwf r hm h0; simp; omega
        · subst hm; simp
        · subst hm; exact absurd h0 hneg
      · simp only [if_neg hsb]
        refine ih _ _ _ (fun t h => ht t (by simp [h])) ?_
        intro r hm h0
        simp only [List.mem_append, List.mem_singleton] at hm
        rcases hm with hm | hm
        · exact hwf r hm h0
        · subst hm; exact absurd h0 hneg

/-- what `NewReplacerData` returns for well-formed tables: string indices inside the table, group
    slots below `capsize` -/
theorem newReplacerData_ok (isWord : Nat → Bool) (env : Env) (henv : envOk env = true) (hc : capsOk env = true)
    (rep : List Nat) (d : ReplacerData) (h : newReplacerData isWord env rep = .ok d) :
    RulesWF d.strings d.rules ∧ ∀ p ∈ d.pieces, pieceOk env.capsize p = true := by
  obtain ⟨hn, h0⟩ := envOk_names env henv
  unfold newReplacerData at h
  cases hs : scanLoop isWord env rep 0 with
  | error e => rw [hs] at h; simp at h
  | ok toks =>
    rw [hs] at h
    simp only [Except.ok.injEq] at h
    subst h
    have hok := scanLoop_ok isWord env hn h0 rep 0 toks hs
    have hwf0 : RulesWF ([] : List (List Nat)) ([] : List Int) := by intro r hr; simp at hr
    refine ⟨buildData_wf env toks [] [] [] hok hwf0, ?_⟩
    rw [buildData_pieces env toks [] [] [] hok hwf0]
    simpa using piecesOf_ok env hc toks [] hok

theorem parse_ok (isWord : Nat → Bool) (env : Env) (henv : envOk env = true) (hc : capsOk env = true)
    (rep : List Nat) (pieces : List Piece) (h : parse isWord env rep = .ok pieces) :
    ∀ p ∈ pieces, pieceOk env.capsize p = true := by
  unfold parse at h
  cases hd : newReplacerData isWord env rep with
  | error e => rw [hd] at h; simp at h
  | ok d =>
    rw [hd] at h
    simp only [Except.ok.injEq] at h
    subst h
    exact (newReplacerData_ok isWord env henv hc rep d hd).2

/-! ### the API level -/

theorem ofOption_ne_panic {α : Type} (o : Option α) (h : Res.ofOption o ≠ .panic) : ∃ r, o = some r := by
  cases o with
  | none => simp [Res.ofOption] at h
  | some r => exact ⟨r, rfl⟩

theorem replaceWith_eq (text : List Nat) (ms : List Match) (pieces : List Piece)
    (ex : Match → Option (List Nat)) (exR : Match → Option (List (List Nat)))
    (hex : ∀ m x, ex m = some x → x = expand pieces text m)
    (hexR : ∀ m es, exR m = some es → es = pieces.reverse.map (pieceText text m))
    (count : Int) (rtl : Bool) (h : replaceWith text ms ex exR count rtl ≠ .panic) :
    replaceWith text ms ex exR count rtl = replace text ms pieces count rtl := by
  unfold replaceWith at h ⊢
  unfold replace
  by_cases h1 : count < -1
  · simp [h1]
  simp only [h1, if_false] at h ⊢
  by_cases h0 : count = 0
  · simp [h0]
  simp only [h0, if_false] at h ⊢
  cases ms with
  | nil => rfl
  | cons m rest =>
    simp only at h ⊢
    cases rtl with
    | true =>
      simp only [if_true] at h ⊢
      obtain ⟨r, hr⟩ := ofOption_ne_panic _ h
      rw [hr, replaceRTL, loopRTLStrict_eq text pieces exR hexR _ _ _ _ r hr]
    | false =>
      simp only [Bool.false_eq_true, if_false] at h ⊢
      obtain ⟨r, hr⟩ := ofOption_ne_panic _ h
      rw [hr, replaceLTR, loopLTRStrict_eq text pieces ex hex _ _ _ _ r hr]

theorem replaceWith_agree (text : List Nat) (ms : List Match) (pieces : List Piece)
    (ex : Match → Option (List Nat)) (exR : Match → Option (List (List Nat)))
    (hex : ∀ m ∈ ms, ex m = some (expand pieces text m))
    (hexR : ∀ m ∈ ms, exR m = some (pieces.reverse.map (pieceText text m)))
    (count : Int) (rtl : Bool) :
    replaceWith text ms ex exR count rtl = replace text ms pieces count rtl := by
  unfold replaceWith replace replaceRTL replaceLTR
  rw [loopRTLStrict_agree text pieces exR ms _ _ _ hexR, loopLTRStrict_agree text pieces ex ms _ _ _ hex]
  cases ms <;> rfl

theorem replaceFuncStrict_eq (text : List Nat) (ms : List Match) (ev : Match → Option (List Nat)) (ev' : Match → List Nat)
    (hev : ∀ m x, ev m = some x → x = ev' m)
    (count : Int) (rtl : Bool) (h : replaceFuncStrict text ms ev count rtl ≠ .panic) :
    replaceFuncStrict text ms ev count rtl = replaceFunc text ms ev' count rtl := by
  unfold replaceFuncStrict at h ⊢
  unfold replaceFunc
  by_cases h1 : count < -1
  · simp [h1]
  simp only [h1, if_false] at h ⊢
  by_cases h0 : count = 0
  · simp [h0]
  simp only [h0, if_false] at h ⊢
  cases ms with
  | nil => rfl
  | cons m rest =>
    simp only at h ⊢
    cases rtl with
    | true =>
      simp only [if_true] at h ⊢
      obtain ⟨r, hr⟩ := ofOption_ne_panic _ h
      rw [hr, loopFuncRTLStrict_eq text ev ev' hev _ _ _ _ r hr]
    | false =>
      simp only [Bool.false_eq_true, if_false] at h ⊢
      obtain ⟨r, hr⟩ := ofOption_ne_panic _ h
      rw [hr, loopFuncLTRStrict_eq text ev ev' hev _ _ _ _ r hr]

theorem replaceFuncStrict_agree (text : List Nat) (ms : List Match) (ev : Match → Option (List Nat)) (ev' : Match → List Nat)
    (hev : ∀ m ∈ ms, ev m = some (ev' m)) (count : Int) (rtl : Bool) :
    replaceFuncStrict text ms ev count rtl = replaceFunc text ms ev' count rtl := by
  unfold replaceFuncStrict replaceFunc
  rw [loopFuncRTLStrict_agree text ev ev' ms _ _ _ hev, loopFuncLTRStrict_agree text ev ev' ms _ _ _ hev]
  cases ms <;> rfl

theorem splitStrict_eq (text : List Nat) (ms : List Match) (count : Int) (rtl : Bool)
    (h : splitStrict text ms count rtl ≠ .panic) : splitStrict text ms count rtl = split text ms count rtl := by
  unfold splitStrict at h ⊢
  unfold split
  by_cases h1 : count < -1
  · simp [h1]
  simp only [h1, if_false] at h ⊢
  by_cases h0 : count = 0
  · simp [h0]
  simp only [h0, if_false] at h ⊢
  by_cases h2 : count = 1
  · simp [h2]
  simp only [h2, if_false] at h ⊢
  cases ms with
  | nil => rfl
  | cons m rest =>
    simp only at h ⊢
    obtain ⟨r, hr⟩ := ofOption_ne_panic _ h
    rw [hr, splitLoopStrict_eq text rtl _ _ _ _ r hr]

theorem splitStrict_agree (text : List Nat) (ms : List Match) (count : Int) (rtl : Bool)
    (hm : ∀ m ∈ ms, capTexts? text m = some (capTexts text m)) :
    splitStrict text ms count rtl = split text ms count rtl := by
  unfold splitStrict split
  simp only [splitLoopStrict_agree text rtl ms _ _ _ hm]
  cases ms <;> rfl

/-! ### a slot the match does not have panics -/

theorem collect_map_none {α β : Type} (f : α → Option β) : ∀ (l : List α) (x : α), x ∈ l → f x = none → collect (l.map f) = none := by
  intro l
  induction l with
  | nil => intro x hx; simp at hx
  | cons a rest ih =>
    intro x hx hf
    simp only [List.map_cons]
    cases hfa : f a with
    | none => rfl
    | some b =>
      have hx' : x ∈ rest := by
        rcases List.mem_cons.mp hx with rfl | h
        · rw [hf] at hfa; cases hfa
        · exact h
      simp [collect, ih x hx' hf]

theorem groupText?_none (text : List Nat) (m : Match) (slot : Nat) (h : m.groups.length < slot) :
    groupText? text m slot = none := by
  unfold groupText?
  cases slot with
  | zero => omega
  | succ k =>
    have : m.groups[k]? = none := List.getElem?_eq_none (by omega)
    simp [groupSpan?, this]

theorem expand?_none (pieces : List Piece) (text : List Nat) (m : Match) (slot : Nat)
    (hp : Piece.group slot ∈ pieces) (h : m.groups.length < slot) :
    expand? pieces text m = none ∧ expandRTL? pieces text m = none := by
  have hn : pieceText? text m (.group slot) = none := groupText?_none text m slot h
  constructor
  · simp [expand?, collect_map_none _ pieces _ hp hn]
  · exact collect_map_none _ pieces.reverse _ (by simpa using hp) hn

theorem loopLTRStrict_first_none (text : List Nat) (ex : Match → Option (List Nat)) (m : Match) (rest : List Match)
    (prevat : Nat) (buf : List Nat) (count : Int) (h : ex m = none) :
    loopLTRStrict text ex (m :: rest) prevat buf count = none := by
  simp only [loopLTRStrict, h]
  cases (if m.index ≠ prevat then sliceLoop text prevat m.index else some []) <;> rfl

theorem loopRTLStrict_first_none (text : List Nat) (exR : Match → Option (List (List Nat))) (m : Match) (rest : List Match)
    (prevat : Nat) (al : List (List Nat)) (count : Int) (h : exR m = none) :
    loopRTLStrict text exR (m :: rest) prevat al count = none := by
  simp only [loopRTLStrict, h]
  cases (if m.index + m.len ≠ prevat then (sliceExpr text (m.index + m.len) prevat).map (fun g => al ++ [g]) else some al) <;> rfl

end RegexVerif.Lemmas.ReplaceStrict
