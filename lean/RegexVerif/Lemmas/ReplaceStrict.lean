/-
Helper lemmas for the strict variants of `Model/ReplaceStrict.lean`:
* a strict run that does not panic returns what the total run of `Model/Replace.lean` returns;
* strict lookups succeed for well-formed matches (`MatchOk`) and rules that name existing slots
  (`pieceOk`), string indices inside the table (`RulesWF`);
* the scanner / `NewReplacerData` only produce such rules for well-formed tables (`envOk`, `capsOk`).
-/
import RegexVerif.Model.ReplaceStrict
import RegexVerif.Lemmas.Replace

namespace RegexVerif.Lemmas.ReplaceStrict
open RegexVerif RegexVerif.Replace RegexVerif.Lemmas.Replace

/-! ### `collect` -/

theorem collect_map_eq {α β : Type} (f : α → Option β) (g : α → β) :
    ∀ (l : List α) (r : List β), (∀ x ∈ l, ∀ y, f x = some y → y = g x) → collect (l.map f) = some r → r = l.map g := by
  intro l
  induction l with
  | nil => intro r _ h; simp [collect] at h; simp [h]
  | cons a rest ih =>
    intro r hfg h
    simp only [List.map_cons] at h
    cases hfa : f a with
    | none => rw [hfa] at h; simp [collect] at h
    | some b =>
      rw [hfa] at h
      simp only [collect, Option.map_eq_some_iff] at h
      obtain ⟨r', hr', rfl⟩ := h
      have hb := hfg a (by simp) b hfa
      have := ih r' (fun x hx => hfg x (by simp [hx])) hr'
      simp [hb, this]

theorem collect_map_some {α β : Type} (f : α → Option β) (g : α → β) :
    ∀ (l : List α), (∀ x ∈ l, f x = some (g x)) → collect (l.map f) = some (l.map g) := by
  intro l
  induction l with
  | nil => intro _; simp [collect]
  | cons a rest ih =>
    intro h
    simp only [List.map_cons, h a (by simp), collect, ih (fun x hx => h x (by simp [hx]))]
    simp

/-! ### a strict lookup that succeeds returns the total lookup's value -/

theorem sliceLoop_eq (text : List Nat) (a b : Nat) (x : List Nat) (h : sliceLoop text a b = some x) : x = slice text a b := by
  unfold sliceLoop at h
  split at h <;> simp at h
  exact h.symm

theorem sliceExpr_eq (text : List Nat) (a b : Nat) (x : List Nat) (h : sliceExpr text a b = some x) : x = slice text a b := by
  unfold sliceExpr at h
  split at h <;> simp at h
  exact h.symm

theorem groupText?_eq (text : List Nat) (m : Match) (slot : Nat) (x : List Nat)
    (h : groupText? text m slot = some x) : x = groupText text m slot := by
  unfold groupText? at h
  unfold groupText
  cases slot with
  | zero =>
    simp only [groupSpan?, groupSpan] at *
    exact sliceLoop_eq _ _ _ _ h
  | succ k =>
    simp only [groupSpan?, groupSpan] at *
    cases hg : m.groups[k]? with
    | none => rw [hg] at h; simp at h
    | some g =>
      rw [hg] at h
      have hd : m.groups.getD k none = g := by simp [List.getD_eq_getElem?_getD, hg]
      rw [hd]
      cases g with
      | none => simp at h; simp [h]
      | some p =>
        obtain ⟨i, l⟩ := p
        simp only at h ⊢
        exact sliceLoop_eq _ _ _ _ h

theorem pieceText?_eq (text : List Nat) (m : Match) (p : Piece) (x : List Nat)
    (h : pieceText? text m p = some x) : x = pieceText text m p := by
  cases p with
  | lit s => simp [pieceText?] at h; simp [pieceText, h]
  | group slot => exact groupText?_eq text m slot x h
  | leftPortion =>
    simp only [pieceText?] at h
    rw [sliceLoop_eq _ _ _ _ h, slice_zero]; rfl
  | rightPortion => simp [pieceText?] at h; simp [pieceText, h]
  | lastGroup => exact groupText?_eq text m _ x h
  | wholeString => simp [pieceText?] at h; simp [pieceText, h]

theorem expand?_eq (pieces : List Piece) (text : List Nat) (m : Match) (x : List Nat)
    (h : expand? pieces text m = some x) : x = expand pieces text m := by
  simp only [expand?, Option.map_eq_some_iff] at h
  obtain ⟨r, hr, rfl⟩ := h
  rw [collect_map_eq _ (pieceText text m) pieces r (fun p _ y hy => pieceText?_eq text m p y hy) hr]
  simp [expand, List.flatMap_def]

theorem expandRTL?_eq (pieces : List Piece) (text : List Nat) (m : Match) (es : List (List Nat))
    (h : expandRTL? pieces text m = some es) : es = pieces.reverse.map (pieceText text m) :=
  collect_map_eq _ (pieceText text m) pieces.reverse es (fun p _ y hy => pieceText?_eq text m p y hy) h

theorem decodeRule?_eq (strings : List (List Nat)) (r : Int) (p : Piece)
    (h : decodeRule? strings r = some p) : p = decodeRule strings r := by
  unfold decodeRule? at h
  split at h
  · rename_i h0
    simp only [Option.map_eq_some_iff] at h
    obtain ⟨s, hs, rfl⟩ := h
    simp [decodeRule, h0, List.getD_eq_getElem?_getD, hs]
  · simp at h; exact h.symm

theorem ruleText?_eq (strings : List (List Nat)) (text : List Nat) (m : Match) (r : Int) (x : List Nat)
    (h : ruleText? strings text m r = some x) : x = pieceText text m (decodeRule strings r) := by
  unfold ruleText? at h
  split at h
  · simp at h
  · rename_i p hp
    rw [← decodeRule?_eq strings r p hp]
    exact pieceText?_eq text m p x h

theorem expandData?_eq (d : ReplacerData) (text : List Nat) (m : Match) (x : List Nat)
    (h : expandData? d text m = some x) : x = expand d.pieces text m := by
  simp only [expandData?, Option.map_eq_some_iff] at h
  obtain ⟨r, hr, rfl⟩ := h
  rw [collect_map_eq _ (fun r => pieceText text m (decodeRule d.strings r)) d.rules r
    (fun p _ y hy => ruleText?_eq d.strings text m p y hy) hr]
  simp [expand, ReplacerData.pieces, List.flatMap_def, List.map_map, Function.comp_def]

theorem expandDataRTL?_eq (d : ReplacerData) (text : List Nat) (m : Match) (es : List (List Nat))
    (h : expandDataRTL? d text m = some es) : es = d.pieces.reverse.map (pieceText text m) := by
  rw [collect_map_eq _ (fun r => pieceText text m (decodeRule d.strings r)) d.rules.reverse es
    (fun p _ y hy => ruleText?_eq d.strings text m p y hy) h]
  simp [ReplacerData.pieces, List.map_map, Function.comp_def, List.map_reverse]

theorem capTexts?_eq (text : List Nat) (m : Match) (x : List (List Nat))
    (h : capTexts? text m = some x) : x = capTexts text m := by
  unfold capTexts? at h
  unfold capTexts
  refine collect_map_eq _ _ m.groups x ?_ h
  intro g _ y hy
  cases g with
  | none => simp at hy; simp [hy]
  | some p =>
    obtain ⟨i, l⟩ := p
    simp only at hy ⊢
    exact sliceExpr_eq _ _ _ _ hy

/-! ### the strict loops: a result is the total loop's result -/

theorem loopLTRStrict_eq (text : List Nat) (pieces : List Piece) (ex : Match → Option (List Nat))
    (hex : ∀ m x, ex m = some x → x = expand pieces text m) :
    ∀ (ms : List Match) (prevat : Nat) (buf : List Nat) (count : Int) (r : List Nat),
      loopLTRStrict text ex ms prevat buf count = some r → loopLTR text pieces ms prevat buf count = some r := by
  intro ms
  induction ms with
  | nil => intro prevat buf count r h; simpa [loopLTRStrict, loopLTR] using h
  | cons m rest ih =>
    intro prevat buf count r h
    simp only [loopLTRStrict] at h
    simp only [loopLTR]
    cases hgap : (if m.index ≠ prevat then sliceLoop text prevat m.index else some []) with
    | none => rw [hgap] at h; simp at h
    | some gap =>
      rw [hgap] at h
      cases hx : ex m with
      | none => rw [hx] at h; simp at h
      | some e =>
        rw [hx] at h
        have he := hex m e hx
        subst he
        simp only at h ⊢
        by_cases hc : count - 1 = 0
        · simpa [hc] using h
        · simp only [hc, if_false] at h ⊢
          exact ih _ _ _ _ h

theorem loopRTLStrict_eq (text : List Nat) (pieces : List Piece) (exR : Match → Option (List (List Nat)))
    (hex : ∀ m es, exR m = some es → es = pieces.reverse.map (pieceText text m)) :
    ∀ (ms : List Match) (prevat : Nat) (al : List (List Nat)) (count : Int) (r : List Nat),
      loopRTLStrict text exR ms prevat al count = some r → loopRTL text pieces ms prevat al count = some r := by
  intro ms
  induction ms with
  | nil => intro prevat al count r h; simpa [loopRTLStrict, loopRTL] using h
  | cons m rest ih =>
    intro prevat al count r h
    simp only [loopRTLStrict] at h
    simp only [loopRTL]
    cases hgap : (if m.index + m.len ≠ prevat then (sliceExpr text (m.index + m.len) prevat).map (fun g => al ++ [g]) else some al) with
    | none => rw [hgap] at h; simp at h
    | some al' =>
      rw [hgap] at h
      cases hx : exR m with
      | none => rw [hx] at h; simp at h
      | some es =>
        rw [hx] at h
        have he := hex m es hx
        subst he
        simp only [expandRTL] at h ⊢
        by_cases hc : count - 1 = 0
        · simpa [hc] using h
        · simp only [hc, if_false] at h ⊢
          exact ih _ _ _ _ h

theorem loopFuncLTRStrict_eq (text : List Nat) (ev : Match → Option (List Nat)) (ev' : Match → List Nat)
    (hev : ∀ m x, ev m = some x → x = ev' m) :
    ∀ (ms : List Match) (prevat : Nat) (buf : List Nat) (count : Int) (r : List Nat),
      loopFuncLTRStrict text ev ms prevat buf count = some r → loopFuncLTR text ev' ms prevat buf count = some r := by
  intro ms
  induction ms with
  | nil => intro prevat buf count r h; simpa [loopFuncLTRStrict, loopFuncLTR] using h
  | cons m rest ih =>
    intro prevat buf count r h
    simp only [loopFuncLTRStrict] at h
    simp only [loopFuncLTR]
    cases hgap : (if m.index ≠ prevat then sliceExpr text prevat m.index else some []) with
    | none => rw [hgap] at h; simp at h
    | some gap =>
      rw [hgap] at h
      cases hx : ev m with
      | none => rw [hx] at h; simp at h
      | some e =>
        rw [hx] at h
        have he := hev m e hx
        subst he
        simp only at h ⊢
        by_cases hc : count - 1 = 0
        · simpa [hc] using h
        · simp only [hc, if_false] at h ⊢
          exact ih _ _ _ _ h

theorem loopFuncRTLStrict_eq (text : List Nat) (ev : Match → Option (List Nat)) (ev' : Match → List Nat)
    (hev : ∀ m x, ev m = some x → x = ev' m) :
    ∀ (ms : List Match) (prevat : Nat) (al : List (List Nat)) (count : Int) (r : List Nat),
      loopFuncRTLStrict text ev ms prevat al count = some r → loopFuncRTL text ev' ms prevat al count = some r := by
  intro ms
  induction ms with
  | nil => intro prevat al count r h; simpa [loopFuncRTLStrict, loopFuncRTL] using h
  | cons m rest ih =>
    intro prevat al count r h
    simp only [loopFuncRTLStrict] at h
    simp only [loopFuncRTL]
    cases hgap : (if m.index + m.len ≠ prevat then (sliceExpr text (m.index + m.len) prevat).map (fun g => al ++ [g]) else some al) with
    | none => rw [hgap] at h; simp at h
    | some al' =>
      rw [hgap] at h
      cases hx : ev m with
      | none => rw [hx] at h; simp at h
      | some e =>
        rw [hx] at h
        have he := hev m e hx
        subst he
        simp only at h ⊢
        by_cases hc : count - 1 = 0
        · simpa [hc] using h
        · simp only [hc, if_false] at h ⊢
          exact ih _ _ _ _ h

theorem splitLoopStrict_eq (text : List Nat) (rtl : Bool) :
    ∀ (ms : List Match) (prior : Nat) (ret : List (List Nat)) (count : Int) (r : List (List Nat)),
      splitLoopStrict text rtl ms prior ret count = some r → splitLoop text rtl ms prior ret count = some r := by
  intro ms
  induction ms with
  | nil => intro prior ret count r h; simpa [splitLoopStrict, splitLoop] using h
  | cons m rest ih =>
    intro prior ret count r h
    simp only [splitLoopStrict] at h
    simp only [splitLoop]
    by_cases hc : count > 0
    · simp only [hc, if_true] at h ⊢
      cases hgap : (if rtl then sliceExpr text (m.index + m.len) prior else sliceExpr text prior m.index) with
      | none => rw [hgap] at h; simp at h
      | some g =>
        rw [hgap] at h
        cases hx : capTexts? text m with
        | none => rw [hx] at h; simp at h
        | some caps =>
          rw [hx] at h
          have he := capTexts?_eq text m caps hx
          subst he
          simp only at h ⊢
          exact ih _ _ _ _ h
    · simpa [hc] using h

/-! ### the strict loops agree with the total loops when the expansion succeeds on every match -/

theorem loopLTRStrict_agree (text : List Nat) (pieces : List Piece) (ex : Match → Option (List Nat)) :
    ∀ (ms : List Match) (prevat : Nat) (buf : List Nat) (count : Int),
      (∀ m ∈ ms, ex m = some (expand pieces text m)) →
      loopLTRStrict text ex ms prevat buf count = loopLTR text pieces ms prevat buf count := by
  intro ms
  induction ms with
  | nil => intro prevat buf count _; simp [loopLTRStrict, loopLTR]
  | cons m rest ih =>
    intro prevat buf count hex
    simp only [loopLTRStrict, loopLTR, hex m (by simp)]
    cases (if m.index ≠ prevat then sliceLoop text prevat m.index else some []) with
    | none => rfl
    | some gap =>
      simp only
      rw [ih _ _ _ (fun x hx => hex x (by simp [hx]))]

theorem loopRTLStrict_agree (text : List Nat) (pieces : List Piece) (exR : Match → Option (List (List Nat))) :
    ∀ (ms : List Match) (prevat : Nat) (al : List (List Nat)) (count : Int),
      (∀ m ∈ ms, exR m = some (pieces.reverse.map (pieceText text m))) →
      loopRTLStrict text exR ms prevat al count = loopRTL text pieces ms prevat al count := by
  intro ms
  induction ms with
  | nil => intro prevat al count _; simp [loopRTLStrict, loopRTL]
  | cons m rest ih =>
    intro prevat al count hex
    simp only [loopRTLStrict, loopRTL, hex m (by simp), expandRTL]
    cases (if m.index + m.len ≠ prevat then (sliceExpr text (m.index + m.len) prevat).map (fun g => al ++ [g]) else some al) with
    | none => rfl
    | some al' =>
      simp only
      rw [ih _ _ _ (fun x hx => hex x (by simp [hx]))]

theorem loopFuncLTRStrict_agree (text : List Nat) (ev : Match → Option (List Nat)) (ev' : Match → List Nat) :
    ∀ (ms : List Match) (prevat : Nat) (buf : List Nat) (count : Int),
      (∀ m ∈ ms, ev m = some (ev' m)) →
      loopFuncLTRStrict text ev ms prevat buf count = loopFuncLTR text ev' ms prevat buf count := by
  intro ms
  induction ms with
  | nil => intro prevat buf count _; simp [loopFuncLTRStrict, loopFuncLTR]
  | cons m rest ih =>
    intro prevat buf count hex
    simp only [loopFuncLTRStrict, loopFuncLTR, hex m (by simp)]
    cases (if m.index ≠ prevat then sliceExpr text prevat m.index else some []) with
    | none => rfl
    | some gap =>
      simp only
      rw [ih _ _ _ (fun x hx => hex x (by simp [hx]))]

theorem loopFuncRTLStrict_agree (text : List Nat) (ev : Match → Option (List Nat)) (ev' : Match → List Nat) :
    ∀ (ms : List Match) (prevat : Nat) (al : List (List Nat)) (count : Int),
      (∀ m ∈ ms, ev m = some (ev' m)) →
      loopFuncRTLStrict text ev ms prevat al count = loopFuncRTL text ev' ms prevat al count := by
  intro ms
  induction ms with
  | nil => intro prevat al count _; simp [loopFuncRTLStrict, loopFuncRTL]
  | cons m rest ih =>
    intro prevat al count hex
    simp only [loopFuncRTLStrict, loopFuncRTL, hex m (by simp)]
    cases (if m.index + m.len ≠ prevat then (sliceExpr text (m.index + m.len) prevat).map (fun g => al ++ [g]) else some al) with
    | none => rfl
    | some al' =>
      simp only
      rw [ih _ _ _ (fun x hx => hex x (by simp [hx]))]

theorem splitLoopStrict_agree (text : List Nat) (rtl : Bool) :
    ∀ (ms : List Match) (prior : Nat) (ret : List (List Nat)) (count : Int),
      (∀ m ∈ ms, capTexts? text m = some (capTexts text m)) →
      splitLoopStrict text rtl ms prior ret count = splitLoop text rtl ms prior ret count := by
  intro ms
  induction ms with
  | nil => intro prior ret count _; simp [splitLoopStrict, splitLoop]
  | cons m rest ih =>
    intro prior ret count hex
    simp only [splitLoopStrict, splitLoop, hex m (by simp)]
    by_cases hc : count > 0
    · simp only [hc, if_true]
      cases (if rtl then sliceExpr text (m.index + m.len) prior else sliceExpr text prior m.index) with
      | none => rfl
      | some g =>
        simp only
        rw [ih _ _ _ (fun x hx => hex x (by simp [hx]))]
    · simp [hc]

end RegexVerif.Lemmas.ReplaceStrict
