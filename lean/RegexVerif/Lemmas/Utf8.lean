/-
Helper lemmas for C08, byte-offset part (model `RegexVerif.Model.Utf8`).
-/
import RegexVerif.Model.Utf8

namespace RegexVerif.Lemmas.Utf8
open RegexVerif RegexVerif.Utf8

/-! ### prefix sums -/

/-- `[p, p+w₀, p+w₀+w₁, …, p+Σw]` -/
def prefixSums : List Nat → Nat → List Nat
  | [], p => [p]
  | w :: t, p => p :: prefixSums t (p + w)

theorem prefixSums_length (ws : List Nat) (p : Nat) : (prefixSums ws p).length = ws.length + 1 := by
  induction ws generalizing p with
  | nil => rfl
  | cons w t ih => simp [prefixSums, ih]

theorem prefixSums_get (ws : List Nat) (p i : Nat) (h : i ≤ ws.length) :
    (prefixSums ws p)[i]? = some (p + (ws.take i).sum) := by
  induction ws generalizing p i with
  | nil =>
    have : i = 0 := by simpa using h
    subst this; simp [prefixSums]
  | cons w t ih =>
    cases i with
    | zero => simp [prefixSums]
    | succ i =>
      have h' : i ≤ t.length := by simpa using h
      simp [prefixSums, ih (p + w) i h']
      omega

theorem sum_take_ones (ws : List Nat) (h : ∀ w ∈ ws, w = 1) (i : Nat) (hi : i ≤ ws.length) :
    (ws.take i).sum = i := by
  induction ws generalizing i with
  | nil =>
    have : i = 0 := by simpa using hi
    subst this; simp
  | cons w t ih =>
    cases i with
    | zero => simp
    | succ i =>
      have hw : w = 1 := h w (by simp)
      have h' : i ≤ t.length := by simpa using hi
      have := ih (fun w hw => h w (by simp [hw])) i h'
      simp [this, hw]; omega

/-! ### the lazily allocated tables -/

theorem lazyLoop_some {α : Type} (trig adv : α → Nat) (pt : Bool) (xs : List α) (idx pos : Nat) (l : List Nat) :
    lazyLoop trig adv pt xs idx pos (some l) = some (l ++ prefixSums (xs.map adv) pos) := by
  induction xs generalizing idx pos l with
  | nil => simp [lazyLoop, prefixSums]
  | cons x rest ih => simp [lazyLoop, ih, prefixSums]

theorem lazyLoop_none {α : Type} (trig adv : α → Nat) (pt : Bool) (xs : List α)
    (h : ∀ x ∈ xs, trig x = 1 → adv x = 1) (k : Nat) :
    (lazyLoop trig adv pt xs k k none = none ∧ ∀ x ∈ xs, adv x = 1) ∨
    lazyLoop trig adv pt xs k k none = some (List.range k ++ prefixSums (xs.map adv) k) := by
  induction xs generalizing k with
  | nil => left; simp [lazyLoop]
  | cons x rest ih =>
    by_cases ht : trig x = 1
    · have ha : adv x = 1 := h x (by simp) ht
      have ih' := ih (fun y hy => h y (by simp [hy])) (k + 1)
      simp only [lazyLoop, Option.map_none, ht, ha, ne_eq, not_true_eq_false, and_false, or_false, ite_false]
      rcases ih' with ⟨h1, h2⟩ | h1
      · left; exact ⟨h1, by intro y hy; rcases List.mem_cons.mp hy with rfl | hy; exact ha; exact h2 y hy⟩
      · right; rw [h1]; simp [prefixSums, List.range_succ, ha]
    · right
      simp only [lazyLoop, Option.map_none, ne_eq, ht, not_false_eq_true, or_true, ite_true]
      rw [lazyLoop_some]; simp [prefixSums]

/-- every lazily allocated table answers with the prefix sum of the advances, provided the
    trigger does not miss an element whose advance is not 1 -/
theorem offsetAt_lazy {α : Type} (trig adv : α → Nat) (pt : Bool) (xs : List α)
    (h : ∀ x ∈ xs, trig x = 1 → adv x = 1) (i : Nat) (hi : i ≤ xs.length) :
    offsetAt (lazyLoop trig adv pt xs 0 0 none) i = some (((xs.map adv).take i).sum) := by
  rcases lazyLoop_none trig adv pt xs h 0 with ⟨h1, h2⟩ | h1
  · rw [h1]; simp only [offsetAt]
    rw [sum_take_ones (xs.map adv) (by intro w hw; obtain ⟨x, hx, rfl⟩ := List.mem_map.mp hw; exact h2 x hx) i (by simpa using hi)]
  · rw [h1]; simp only [offsetAt, List.range_zero, List.nil_append]
    rw [prefixSums_get _ _ _ (by simpa using hi)]; simp

/-! ### the decoding contract -/

theorem runeLen_cases (r : Int) : runeLen r = -1 ∨ runeLen r = 1 ∨ runeLen r = 2 ∨ runeLen r = 3 ∨ runeLen r = 4 := by
  unfold runeLen; (repeat' split) <;> simp

theorem computedLen_eq_width (s : Int × Nat) (h : segOK s = true) : computedLen s = s.2 := by
  unfold segOK at h; unfold computedLen
  split at h
  · rename_i he; simp [he]
  · rename_i he; simp [he]
    have : runeLen s.1 = (s.2 : Int) := by simpa using h
    omega

theorem width_pos (s : Int × Nat) (h : segOK s = true) : 1 ≤ s.2 ∧ s.2 ≤ 4 := by
  unfold segOK at h
  split at h
  · have : s.2 = 1 ∨ s.2 = 3 := by simpa using h
    omega
  · have h' : runeLen s.1 = (s.2 : Int) := by simpa using h
    have := runeLen_cases s.1
    omega

theorem map_computedLen_eq (segs : List (Int × Nat)) (h : WF segs) : segs.map computedLen = widths segs := by
  unfold widths
  apply List.map_congr_left
  intro s hs; exact computedLen_eq_width s (h s hs)

/-! ### the delta table -/

/-- the table `newStringByteMapper` builds, as a list of `(runeIndexes[i], deltas[i])`, defined
    without accumulators -/
def tbl : List (Int × Nat) → Nat → Nat → List (Nat × Nat)
  | [], _, _ => []
  | s :: rest, k, d =>
    if computedLen s ≠ 1 then (k + 1, d + (computedLen s - 1)) :: tbl rest (k + 1) (d + (computedLen s - 1))
    else tbl rest (k + 1) d

theorem nsbmLoop_some (rest : List (Int × Nat)) (k d : Nat) (ri ds : List Nat) :
    nsbmLoop rest k d (some ⟨ri, ds⟩) =
      some ⟨ri ++ (tbl rest k d).map (·.1), ds ++ (tbl rest k d).map (·.2)⟩ := by
  induction rest generalizing k d ri ds with
  | nil => simp [nsbmLoop, tbl]
  | cons s rest ih =>
    by_cases hc : computedLen s = 1
    · simp [nsbmLoop, tbl, hc, ih]
    · simp [nsbmLoop, tbl, hc, ih]

theorem nsbmLoop_none (rest : List (Int × Nat)) (k d : Nat) :
    nsbmLoop rest k d none =
      if tbl rest k d = [] then none else some ⟨(tbl rest k d).map (·.1), (tbl rest k d).map (·.2)⟩ := by
  induction rest generalizing k d with
  | nil => simp [nsbmLoop, tbl]
  | cons s rest ih =>
    by_cases hc : computedLen s = 1
    · simp [nsbmLoop, tbl, hc, ih]
    · simp [nsbmLoop, tbl, hc, nsbmLoop_some]

theorem tbl_idx_gt (rest : List (Int × Nat)) (k d : Nat) : ∀ e ∈ tbl rest k d, k < e.1 := by
  induction rest generalizing k d with
  | nil => simp [tbl]
  | cons s rest ih =>
    intro e he
    unfold tbl at he
    split at he
    · rcases List.mem_cons.mp he with rfl | he
      · simp
      · have := ih _ _ e he; omega
    · have := ih _ _ e he; omega

theorem tbl_sorted (rest : List (Int × Nat)) (k d : Nat) : ((tbl rest k d).map (·.1)).Pairwise (· < ·) := by
  induction rest generalizing k d with
  | nil => simp [tbl]
  | cons s rest ih =>
    unfold tbl
    split
    · simp only [List.map_cons, List.pairwise_cons]
      refine ⟨?_, ih _ _⟩
      intro a ha
      obtain ⟨e, he, rfl⟩ := List.mem_map.mp ha
      exact tbl_idx_gt _ _ _ e he
    · exact ih _ _

/-- linear reading of the table: the delta of the last entry whose rune index is ≤ `i` -/
def linLookup : List (Nat × Nat) → Nat → Nat → Nat
  | [], _, acc => acc
  | (idx, d) :: t, i, acc => if idx ≤ i then linLookup t i d else acc

theorem linLookup_all_gt (T : List (Nat × Nat)) (i acc : Nat) (h : ∀ e ∈ T, i < e.1) : linLookup T i acc = acc := by
  cases T with
  | nil => rfl
  | cons e t =>
    obtain ⟨idx, d⟩ := e
    have : i < idx := h (idx, d) (by simp)
    simp [linLookup]; omega

/-- sum of `(len − 1)` over the first `m` segments -/
def extra (segs : List (Int × Nat)) (m : Nat) : Nat := (((segs.map computedLen).take m).map (· - 1)).sum

theorem extra_zero (segs : List (Int × Nat)) : extra segs 0 = 0 := by simp [extra]

theorem extra_succ (s : Int × Nat) (rest : List (Int × Nat)) (m : Nat) :
    extra (s :: rest) (m + 1) = (computedLen s - 1) + extra rest m := by simp [extra]

/-- the linear reading of the table built from `rest` (starting at rune index `k`, accumulated
    delta `d`) at rune index `k + m` is `d` plus the extra bytes of the first `m` segments -/
theorem linLookup_tbl (rest : List (Int × Nat)) (k d m : Nat) (hm : m ≤ rest.length) :
    linLookup (tbl rest k d) (k + m) d = d + extra rest m := by
  induction rest generalizing k d m with
  | nil => simp [tbl, linLookup, extra]
  | cons s rest ih =>
    cases m with
    | zero =>
      rw [extra_zero]
      apply linLookup_all_gt
      intro e he; have := tbl_idx_gt _ _ _ e he; omega
    | succ m =>
      have hm' : m ≤ rest.length := by simpa using hm
      rw [extra_succ]
      unfold tbl
      split
      · have h1 : k + 1 ≤ k + (m + 1) := by omega
        simp only [linLookup, h1, ite_true]
        have := ih (k + 1) (d + (computedLen s - 1)) m hm'
        rw [show k + (m + 1) = k + 1 + m by omega, this]; omega
      · rename_i hc
        have hc' : computedLen s = 1 := by simpa using hc
        have := ih (k + 1) d m hm'
        rw [show k + (m + 1) = k + 1 + m by omega, this, hc']; simp

theorem sum_eq_len_add_extra (ws : List Nat) (h : ∀ w ∈ ws, 1 ≤ w) : ws.sum = ws.length + (ws.map (· - 1)).sum := by
  induction ws with
  | nil => simp
  | cons w t ih =>
    have hw : 1 ≤ w := h w (by simp)
    have := ih (fun w hw => h w (by simp [hw]))
    simp [this]; omega

/-! ### `sort.Search` -/

theorem searchLoop_spec (f : Nat → Bool) (n : Nat)
    (hmono : ∀ a b, a ≤ b → b < n → f a = true → f b = true) :
    ∀ fuel i j, i ≤ j → j ≤ n → j - i ≤ fuel → (∀ h, h < i → f h = false) → (∀ h, j ≤ h → h < n → f h = true) →
      i ≤ searchLoop f fuel i j ∧ searchLoop f fuel i j ≤ j ∧
      (∀ h, h < searchLoop f fuel i j → f h = false) ∧ (∀ h, searchLoop f fuel i j ≤ h → h < n → f h = true) := by
  intro fuel
  induction fuel with
  | zero =>
    intro i j hij _ hf hlo hhi
    have : i = j := by omega
    subst this
    simp [searchLoop]; exact ⟨hlo, hhi⟩
  | succ fuel ih =>
    intro i j hij hjn hf hlo hhi
    unfold searchLoop
    by_cases hlt : i < j
    · simp only [hlt, ite_true]
      have hh1 : i ≤ (i + j) / 2 := by omega
      have hh2 : (i + j) / 2 < j := by omega
      cases hfh : f ((i + j) / 2) with
      | false =>
        simp only [Bool.not_false, ite_true]
        have := ih ((i + j) / 2 + 1) j (by omega) hjn (by omega)
          (by
            intro h hh
            cases hfx : f h with
            | false => rfl
            | true =>
              have := hmono h ((i + j) / 2) (by omega) (by omega) hfx
              rw [hfh] at this; exact absurd this (by simp))
          hhi
        obtain ⟨a, b, c, d⟩ := this
        exact ⟨by omega, b, c, d⟩
      | true =>
        simp only [Bool.not_true, Bool.false_eq_true, ite_false]
        have := ih i ((i + j) / 2) hh1 (by omega) (by omega) hlo
          (by intro h hh hn; exact hmono _ h hh hn hfh)
        obtain ⟨a, b, c, d⟩ := this
        exact ⟨a, by omega, c, d⟩
    · have : i = j := by omega
      subst this
      simp only [hlt, ite_false]
      exact ⟨Nat.le_refl _, Nat.le_refl _, hlo, hhi⟩

theorem sortSearch_spec (f : Nat → Bool) (n : Nat)
    (hmono : ∀ a b, a ≤ b → b < n → f a = true → f b = true) :
    sortSearch n f ≤ n ∧ (∀ h, h < sortSearch n f → f h = false) ∧ (∀ h, sortSearch n f ≤ h → h < n → f h = true) := by
  have := searchLoop_spec f n hmono n 0 n (Nat.zero_le _) (Nat.le_refl _) (by omega) (by intro h hh; omega) (by intro h h1 h2; omega)
  exact ⟨this.2.1, this.2.2.1, this.2.2.2⟩

/-- a cut position `k` of the table (entries before `k` are ≤ `i`, entries from `k` on are > `i`)
    reads the same delta as the linear lookup -/
theorem linLookup_of_cut (T : List (Nat × Nat)) (i acc k : Nat) (hk : k ≤ T.length)
    (hlo : ∀ h, h < k → (T.map (·.1)).getD h 0 ≤ i)
    (hhi : ∀ h, k ≤ h → h < T.length → i < (T.map (·.1)).getD h 0) :
    linLookup T i acc = if k = 0 then acc else (T.map (·.2)).getD (k - 1) 0 := by
  induction T generalizing acc k with
  | nil =>
    have : k = 0 := by simpa using hk
    simp [this, linLookup]
  | cons e t ih =>
    obtain ⟨idx, d⟩ := e
    cases k with
    | zero =>
      have := hhi 0 (Nat.le_refl _) (by simp)
      simp at this
      simp [linLookup]; omega
    | succ k =>
      have h0 := hlo 0 (by omega)
      simp at h0
      have := ih d k (by simpa using hk)
        (by intro h hh; have := hlo (h + 1) (by omega); simpa using this)
        (by intro h h1 h2; have := hhi (h + 1) (by omega) (by simp; omega); simpa using this)
      simp only [linLookup, h0, ite_true, this]
      cases k with
      | zero => simp
      | succ k => simp

theorem getD_mono_of_pairwise (l : List Nat) (hp : l.Pairwise (· < ·)) (a b : Nat) (hab : a ≤ b) (hb : b < l.length) :
    l.getD a 0 ≤ l.getD b 0 := by
  rcases Nat.eq_or_lt_of_le hab with rfl | hlt
  · exact Nat.le_refl _
  · have ha : a < l.length := by omega
    have := (List.pairwise_iff_getElem.mp hp) a b ha hb hlt
    simp [List.getD, List.getElem?_eq_getElem ha, List.getElem?_eq_getElem hb]
    omega

theorem byteIndex_eq_linLookup (T : List (Nat × Nat)) (hs : (T.map (·.1)).Pairwise (· < ·)) (i : Nat) :
    byteIndex ⟨T.map (·.1), T.map (·.2)⟩ i = i + linLookup T i 0 := by
  have hmono : ∀ a b, a ≤ b → b < (T.map (·.1)).length →
      (fun h => decide ((T.map (·.1)).getD h 0 > i)) a = true → (fun h => decide ((T.map (·.1)).getD h 0 > i)) b = true := by
    intro a b hab hb ha
    have := getD_mono_of_pairwise _ hs a b hab hb
    simp only [gt_iff_lt, decide_eq_true_eq] at ha ⊢; omega
  obtain ⟨h1, h2, h3⟩ := sortSearch_spec _ _ hmono
  have hcut := linLookup_of_cut T i 0 (sortSearch (T.map (·.1)).length (fun h => decide ((T.map (·.1)).getD h 0 > i)))
    (by simpa using h1)
    (by intro h hh; have := h2 h hh; simp only [gt_iff_lt, decide_eq_false_iff_not, Nat.not_lt] at this; exact this)
    (by intro h hh hl; have := h3 h hh (by simpa using hl); simp only [gt_iff_lt, decide_eq_true_eq] at this; exact this)
  unfold byteIndex
  simp only
  rw [hcut]
  split <;> simp

/-! ### byte index → rune index -/

theorem runeStartLoop_past (startAt : Int) (rest : List (Int × Nat)) (n p : Nat) (rs : Int) (h : startAt < (p : Int)) :
    runeStartLoop startAt rest n p rs = rs := by
  induction rest generalizing n p rs with
  | nil => simp [runeStartLoop]; omega
  | cons s rest ih =>
    have hne : ¬ ((p : Int) = startAt) := by omega
    simp only [runeStartLoop, hne, and_false, ite_false]
    exact ih _ _ _ (by omega)

theorem runeStartLoop_at (rest : List (Int × Nat)) (hw : ∀ s ∈ rest, 1 ≤ s.2) (n p m : Nat) (rs : Int)
    (hm : m ≤ rest.length) :
    runeStartLoop ((p + ((widths rest).take m).sum : Nat) : Int) rest n p rs = ((n + m : Nat) : Int) := by
  induction rest generalizing n p m rs with
  | nil =>
    have : m = 0 := by simpa using hm
    subst this; simp [runeStartLoop, widths]
  | cons s rest ih =>
    have hs : 1 ≤ s.2 := hw s (by simp)
    cases m with
    | zero =>
      simp only [widths, List.take_zero, List.sum_nil, Nat.add_zero, runeStartLoop]
      simp only [Int.natCast_nonneg, ge_iff_le, and_self, ite_true]
      rw [runeStartLoop_past]; omega
    | succ m =>
      have hm' : m ≤ rest.length := by simpa using hm
      have := ih (fun s hs => hw s (by simp [hs])) (n + 1) (p + s.2) m rs hm'
      simp only [widths, List.map_cons, List.take_succ_cons, List.sum_cons] at this ⊢
      have hne : ¬ ((p : Int) = ((p + (s.2 + ((rest.map (·.2)).take m).sum) : Nat) : Int)) := by omega
      simp only [runeStartLoop, hne, and_false, ite_false]
      rw [show p + (s.2 + ((rest.map (·.2)).take m).sum) = p + s.2 + ((rest.map (·.2)).take m).sum by omega, this]
      congr 1; omega

theorem runeStartLoop_found (startAt : Int) (rest : List (Int × Nat)) (n p : Nat) (rs : Int) :
    runeStartLoop startAt rest n p rs = rs ∨
    ∃ m, m ≤ rest.length ∧ runeStartLoop startAt rest n p rs = ((n + m : Nat) : Int) ∧
      startAt = ((p + ((widths rest).take m).sum : Nat) : Int) := by
  induction rest generalizing n p rs with
  | nil =>
    simp only [runeStartLoop]
    split
    · rename_i h; right; exact ⟨0, by simp, by simp, by simp [widths]; omega⟩
    · left; rfl
  | cons s rest ih =>
    simp only [runeStartLoop]
    rcases ih (n + 1) (p + s.2) (if startAt ≥ 0 ∧ (p : Int) = startAt then (n : Int) else rs) with h | ⟨m, hm, h1, h2⟩
    · rw [h]
      split
      · rename_i hc; right; exact ⟨0, by simp, by simp, by simp [widths]; omega⟩
      · left; rfl
    · right
      refine ⟨m + 1, by simpa using hm, ?_, ?_⟩
      · rw [h1]; congr 1; omega
      · rw [h2]; simp [widths]; omega

/-! ### `readRunes`, spans, the rune mapper -/

theorem readRunesLoop_eq (rest : List (Int × Nat)) (text : List Int) (offs : List Nat) (last : Nat) :
    readRunesLoop rest text offs last = (text ++ runes rest, offs ++ (prefixSums (widths rest) last).tail) := by
  induction rest generalizing text offs last with
  | nil => simp [readRunesLoop, runes, widths, prefixSums]
  | cons s rest ih =>
    obtain ⟨ch, w⟩ := s
    simp only [readRunesLoop, ih, runes, widths, List.map_cons, prefixSums, List.tail_cons, List.append_assoc,
      List.cons_append, List.nil_append]
    cases rest <;> simp [prefixSums]

theorem prefixSums_eq_cons_tail (ws : List Nat) (p : Nat) : prefixSums ws p = p :: (prefixSums ws p).tail := by
  cases ws <;> simp [prefixSums]

theorem sum_take_add (ws : List Nat) (a b : Nat) :
    (ws.take (a + b)).sum = (ws.take a).sum + ((ws.drop a).take b).sum := by
  rw [List.take_add]; simp

theorem encLen_eq_width (s : Int × Nat) (h : segOK s = true) (hv : s.1 = runeError → s.2 = 3) : encLen s.1 = s.2 := by
  unfold segOK at h
  split at h
  · rename_i he
    rw [he, hv he]; decide
  · have h' : runeLen s.1 = (s.2 : Int) := by simpa using h
    unfold encLen
    simp only [h']
    have : ¬ ((s.2 : Int) < 0) := by omega
    simp [this]

theorem sum_take_lt (ws : List Nat) (h : ∀ w ∈ ws, 1 ≤ w) (i j : Nat) (hij : i < j) (hj : j ≤ ws.length) :
    (ws.take i).sum < (ws.take j).sum := by
  obtain ⟨d, rfl⟩ : ∃ d, j = i + (d + 1) := ⟨j - i - 1, by omega⟩
  rw [sum_take_add]
  have hlen : i < ws.length := by omega
  have : ws.drop i = ws[i] :: ws.drop (i + 1) := by
    rw [List.drop_eq_getElem_cons hlen]
  rw [this]
  have h1 : 1 ≤ ws[i] := h _ (List.getElem_mem hlen)
  simp only [List.take_succ_cons, List.sum_cons]; omega

end RegexVerif.Lemmas.Utf8
