/-
What the decidable check `StackTyping.typed` (Model/StackTyping.lean) provides, in the form a soundness proof
over `VM.step` would consume (the analogue of `Lemmas.VM.wf_spec` for `Prog.wf`).
-/
import RegexVerif.Model.StackTyping

namespace RegexVerif.Lemmas.StackTyping
open RegexVerif RegexVerif.Code RegexVerif.VM RegexVerif.StackTyping

/-- a grouping-stack typing of a program: `[]` at code position 0; every typed boundary holds a known opcode whose
    transfer function accepts the type there, and every continuation of every case of that instruction is again a
    typed boundary whose type is above the computed one (`pos ≤ mark`, equal heights) -/
structure Typing (p : Prog) (bs : List Nat) (a : Assign) : Prop where
  zero : a.get 0 = some []
  closed : ∀ pc ∈ bs, ∀ σ, a.get pc = some σ →
    ∃ o succs, opAt p pc = some o ∧ flow p pc o σ = some succs ∧
      ∀ s ∈ succs, s.1 ∈ bs ∧ ∃ τ, a.get s.1 = some τ ∧ subTy s.2 τ = true

theorem checkAt_spec {p : Prog} {bs : List Nat} {a : Assign} {pc : Nat} (h : checkAt p bs a pc = true)
    (σ : STy) (hσ : a.get pc = some σ) :
    ∃ o succs, opAt p pc = some o ∧ flow p pc o σ = some succs ∧
      ∀ s ∈ succs, s.1 ∈ bs ∧ ∃ τ, a.get s.1 = some τ ∧ subTy s.2 τ = true := by
  unfold checkAt at h
  rw [hσ] at h
  simp only at h
  split at h
  · simp at h
  · next o ho =>
    split at h
    · simp at h
    · next succs hs =>
      refine ⟨o, succs, ho, hs, ?_⟩
      intro s hsm
      rw [List.all_eq_true] at h
      have := h s hsm
      simp only [Bool.and_eq_true, List.contains_iff_mem] at this
      refine ⟨this.1, ?_⟩
      have h2 := this.2
      split at h2
      · next τ hτ => exact ⟨τ, hτ, h2⟩
      · simp at h2

/-- **what `typed` checks**: the inferred assignment is a typing in the sense above -/
theorem typed_spec {p : Prog} (h : typed p = true) : ∃ bs, p.boundaries = some bs ∧ Typing p bs (assignOf p) := by
  unfold typed at h
  split at h
  · simp at h
  · next bs hbs =>
    refine ⟨bs, hbs, ?_⟩
    unfold check at h
    simp only [Bool.and_eq_true, beq_iff_eq, List.all_eq_true] at h
    exact ⟨h.1, fun pc hpc σ hσ => checkAt_spec (h.2 pc hpc) σ hσ⟩

/-- a well-formed program (`Prog.wf`, `potOk`) that is not typed: `Lazybranch 3; Getmark; Stop` -/
def untypedDemo : Prog :=
  { codes := #[23, 3, 33, 40], strings := #[], nsets := 0, trackcount := 2, capsize := 1, caps := [], rtl := false }

end RegexVerif.Lemmas.StackTyping
