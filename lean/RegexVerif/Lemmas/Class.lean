import RegexVerif.Model.Class

/-! Helper lemmas for C16 (character classes). -/
namespace RegexVerif.Class

/-! ## Predicates -/

/-- what the lookup of `charInSlow` needs of a range list: `First`s and `Last`s non-decreasing -/
def LookupOk (rs : List (Nat × Nat)) : Prop := rs.Pairwise (fun a b => a.1 ≤ b.1 ∧ a.2 ≤ b.2)

/-- canonical range list: sorted, pairwise neither overlapping nor abutting, every range non-empty -/
def Canon (rs : List (Nat × Nat)) : Prop :=
  rs.Pairwise (fun a b => a.2 + 1 < b.1) ∧ ∀ r ∈ rs, r.1 ≤ r.2

theorem Canon.lookupOk {rs : List (Nat × Nat)} (h : Canon rs) : LookupOk rs := by
  obtain ⟨hp, hw⟩ := h
  unfold LookupOk
  induction rs with
  | nil => exact List.Pairwise.nil
  | cons a rs ih =>
    rw [List.pairwise_cons] at hp ⊢
    refine ⟨fun b hb => ?_, ih hp.2 (fun r hr => hw r (List.mem_cons_of_mem _ hr))⟩
    have h1 := hp.1 b hb
    have h2 := hw a (List.mem_cons_self ..)
    have h3 := hw b (List.mem_cons_of_mem _ hb)
    omega

/-- every range list of every level satisfies `LookupOk` -/
def Class.RangesOk : Class → Prop
  | .leaf f => RegexVerif.Class.LookupOk f.ranges
  | .minus f s => RegexVerif.Class.LookupOk f.ranges ∧ Class.RangesOk s

/-- a bitmap, when present, agrees with the slow path on 0..127 -/
def FlatBitmapOk (ascii : Option (Nat × Nat)) (slow : Nat → Bool) : Prop :=
  ∀ bm, ascii = some bm → ∀ ch, ch < 128 → bitTest bm ch = slow ch

/-- every bitmap present anywhere in the class agrees with `charInSlow` of its level -/
def BitmapOk (cat : Nat → Nat → Bool) : Class → Prop
  | .leaf f => FlatBitmapOk f.ascii (charInSlow cat (.leaf f))
  | .minus f s => BitmapOk cat s ∧ FlatBitmapOk f.ascii (charInSlow cat (.minus f s))

/-! ## Basic facts about the specification -/

@[simp] theorem inRange_iff (r : Nat × Nat) (ch : Nat) : inRange r ch = true ↔ r.1 ≤ ch ∧ ch ≤ r.2 := by
  simp [inRange]

theorem inRanges_iff (rs : List (Nat × Nat)) (ch : Nat) :
    inRanges rs ch = true ↔ ∃ r ∈ rs, r.1 ≤ ch ∧ ch ≤ r.2 := by
  simp [inRanges, List.any_eq_true]

@[simp] theorem inRanges_nil (ch : Nat) : inRanges [] ch = false := rfl

@[simp] theorem inRanges_cons (r : Nat × Nat) (rs : List (Nat × Nat)) (ch : Nat) :
    inRanges (r :: rs) ch = (inRange r ch || inRanges rs ch) := by
  simp [inRanges]

@[simp] theorem inRanges_append (xs ys : List (Nat × Nat)) (ch : Nat) :
    inRanges (xs ++ ys) ch = (inRanges xs ch || inRanges ys ch) := by
  simp [inRanges]

@[simp] theorem inCats_nil (cat : Nat → Nat → Bool) (ch : Nat) : inCats cat [] ch = false := rfl

@[simp] theorem inCats_cons (cat : Nat → Nat → Bool) (c : Nat × Bool) (cs : List (Nat × Bool)) (ch : Nat) :
    inCats cat (c :: cs) ch = (catAccepts cat c ch || inCats cat cs ch) := by
  simp [inCats]

@[simp] theorem inCats_append (cat : Nat → Nat → Bool) (xs ys : List (Nat × Bool)) (ch : Nat) :
    inCats cat (xs ++ ys) ch = (inCats cat xs ch || inCats cat ys ch) := by
  simp [inCats]

/-- two Booleans are equal when they are true together -/
theorem bool_eq_of_iff {a b : Bool} (h : a = true ↔ b = true) : a = b := by
  cases a <;> cases b <;> simp_all

/-! ## The category loop -/

theorem catLoop_eq_inCats (cat : Nat → Nat → Bool) (cs : List (Nat × Bool)) (ch : Nat) :
    catLoop cat cs ch = inCats cat cs ch := by
  induction cs with
  | nil => rfl
  | cons c rest ih =>
    obtain ⟨id, ng⟩ := c
    simp only [catLoop, inCats_cons, catAccepts, ih]
    cases cat id ch <;> cases ng <;> simp

/-! ## The range lookup -/

theorem scanLinear_eq (rs : List (Nat × Nat)) (ch : Nat)
    (hs : rs.Pairwise (fun a b => a.1 ≤ b.1)) : scanLinear rs ch = inRanges rs ch := by
  induction rs with
  | nil => rfl
  | cons r rs ih =>
    rw [List.pairwise_cons] at hs
    simp only [scanLinear, inRanges_cons]
    by_cases h1 : ch < r.1
    · simp only [h1, if_true]
      have hr : inRange r ch = false := by
        apply Bool.eq_false_iff.mpr; intro h; rw [inRange_iff] at h; omega
      have hrest : inRanges rs ch = false := by
        apply Bool.eq_false_iff.mpr; intro h
        rw [inRanges_iff] at h
        obtain ⟨b, hb, h2, _⟩ := h
        have := hs.1 b hb
        omega
      simp [hr, hrest]
    · simp only [h1, if_false]
      by_cases h2 : ch ≤ r.2
      · have hr : inRange r ch = true := by rw [inRange_iff]; omega
        simp [h2, hr]
      · have hr : inRange r ch = false := by
          apply Bool.eq_false_iff.mpr; intro h; rw [inRange_iff] at h; omega
        simp [h2, hr, ih hs.2]

/-- the loop invariant of the binary search: it ends with `lo` = number of ranges whose `First ≤ ch` -/
theorem bsLoop_spec (rs : List (Nat × Nat)) (ch : Nat) (hs : rs.Pairwise (fun a b => a.1 ≤ b.1)) :
    ∀ (fuel lo hi : Nat), lo ≤ hi → hi ≤ rs.length → hi - lo ≤ fuel →
      (∀ k (h : k < rs.length), k < lo → rs[k].1 ≤ ch) →
      (∀ k (h : k < rs.length), hi ≤ k → ch < rs[k].1) →
      bsLoop rs ch fuel lo hi ≤ rs.length ∧
      (∀ k (h : k < rs.length), k < bsLoop rs ch fuel lo hi → rs[k].1 ≤ ch) ∧
      (∀ k (h : k < rs.length), bsLoop rs ch fuel lo hi ≤ k → ch < rs[k].1) := by
  rw [List.pairwise_iff_getElem] at hs
  intro fuel
  induction fuel with
  | zero =>
    intro lo hi hle hlen hf hlo hhi
    have : lo = hi := by omega
    subst this
    exact ⟨hlen, hlo, hhi⟩
  | succ fuel ih =>
    intro lo hi hle hlen hf hlo hhi
    unfold bsLoop
    by_cases hlt : lo < hi
    · simp only [hlt, if_true]
      have hmid : (lo + hi) / 2 < rs.length := by omega
      rw [List.getElem?_eq_getElem hmid]
      simp only
      by_cases hc : rs[(lo + hi) / 2].1 ≤ ch
      · simp only [hc, if_true]
        apply ih _ _ (by omega) hlen (by omega) _ hhi
        intro k hk hk2
        by_cases hkm : k = (lo + hi) / 2
        · subst hkm; exact hc
        · have := (hs k ((lo + hi) / 2) hk hmid (by omega))
          omega
      · simp only [hc, if_false]
        apply ih _ _ (by omega) (by omega) (by omega) hlo
        intro k hk hk2
        by_cases hkm : k = (lo + hi) / 2
        · subst hkm; omega
        · have := (hs ((lo + hi) / 2) k hmid hk (by omega))
          omega
    · simp only [hlt, if_false]
      have : lo = hi := by omega
      subst this
      exact ⟨hlen, hlo, hhi⟩

theorem rangeLookup_eq (rs : List (Nat × Nat)) (ch : Nat) (hs : LookupOk rs) :
    rangeLookup rs ch = inRanges rs ch := by
  have hfirst : rs.Pairwise (fun a b => a.1 ≤ b.1) := hs.imp (fun h => h.1)
  unfold rangeLookup
  simp only
  by_cases h0 : rs.length = 0
  · have : rs = [] := List.eq_nil_of_length_eq_zero h0
    subst this; simp
  · simp only [h0, if_false]
    by_cases h4 : rs.length ≤ 4
    · simp only [h4, if_true]; exact scanLinear_eq rs ch hfirst
    · simp only [h4, if_false]
      obtain ⟨hlen, hlo, hhi⟩ := bsLoop_spec rs ch hfirst rs.length 0 rs.length (by omega) (by omega) (by omega)
        (fun k _ hk => by omega) (fun k h hk => by omega)
      generalize bsLoop rs ch rs.length 0 rs.length = lo at hlen hlo hhi
      unfold LookupOk at hs
      rw [List.pairwise_iff_getElem] at hs
      apply bool_eq_of_iff
      rw [inRanges_iff]
      by_cases hpos : lo > 0
      · simp only [hpos, if_true]
        have hl1 : lo - 1 < rs.length := by omega
        rw [List.getElem?_eq_getElem hl1]
        simp only [decide_eq_true_eq]
        constructor
        · intro hle
          exact ⟨rs[lo - 1], List.getElem_mem hl1, hlo (lo - 1) hl1 (by omega), hle⟩
        · rintro ⟨r, hr, h1, h2⟩
          obtain ⟨k, hk, rfl⟩ := List.mem_iff_getElem.mp hr
          have hklo : k < lo := by
            apply Classical.byContradiction; intro hn
            have := hhi k hk (by omega); omega
          by_cases hk1 : k = lo - 1
          · subst hk1; exact h2
          · have := (hs k (lo - 1) hk hl1 (by omega)).2
            omega
      · simp only [hpos, if_false]
        constructor
        · intro h; cases h
        · rintro ⟨r, hr, h1, h2⟩
          obtain ⟨k, hk, rfl⟩ := List.mem_iff_getElem.mp hr
          have := hhi k hk (by omega); omega

/-! ## `charInSlow` of one level -/

theorem Flat.head_eq (cat : Nat → Nat → Bool) (f : Flat) (ch : Nat) (hs : LookupOk f.ranges) :
    f.head cat ch = f.memAlg cat ch := by
  unfold Flat.head Flat.memAlg Flat.pos
  simp only [rangeLookup_eq _ _ hs, catLoop_eq_inCats]
  cases hr : inRanges f.ranges ch <;> cases hn : f.neg <;> cases hc : f.cats with
  | nil => simp
  | cons c cs => simp

/-! ## Bitmaps -/

theorem bitTest_bitSet (bm : Nat × Nat) (i ch : Nat) (hi : i < 128) (hch : ch < 128) :
    bitTest (bitSet bm i) ch = (bitTest bm ch || decide (i = ch)) := by
  unfold bitTest bitSet
  by_cases h1 : i / 64 = 0 <;> by_cases h2 : ch / 64 = 0 <;>
    simp only [h1, h2, if_true, if_false, Nat.testBit_or, Nat.one_shiftLeft, Nat.testBit_two_pow]
  · congr 1
    apply bool_eq_of_iff; simp only [decide_eq_true_eq]; omega
  · have : decide (i = ch) = false := decide_eq_false (by omega)
    simp [this]
  · have : decide (i = ch) = false := decide_eq_false (by omega)
    simp [this]
  · congr 1
    apply bool_eq_of_iff; simp only [decide_eq_true_eq]; omega

theorem bitTest_zero (ch : Nat) : bitTest (0, 0) ch = false := by
  unfold bitTest; split <;> simp

theorem foldBitmap_spec (slow : Nat → Bool) (l : List Nat) (hl : ∀ i ∈ l, i < 128) (bm : Nat × Nat)
    (ch : Nat) (hch : ch < 128) :
    bitTest (l.foldl (fun bm i => if slow i then bitSet bm i else bm) bm) ch
      = (bitTest bm ch || (decide (ch ∈ l) && slow ch)) := by
  induction l generalizing bm with
  | nil => simp
  | cons i l ih =>
    rw [List.foldl_cons, ih (fun j hj => hl j (List.mem_cons_of_mem _ hj))]
    have hi := hl i (List.mem_cons_self ..)
    by_cases hs : slow i = true
    · simp only [hs, if_true, bitTest_bitSet bm i ch hi hch]
      by_cases he : i = ch
      · subst he; simp [hs]
      · have h2 : ¬ (ch = i) := by omega
        simp [he, List.mem_cons, h2]
    · simp only [hs]
      by_cases he : i = ch
      · subst he
        have : slow i = false := by simpa using hs
        simp [this]
      · have h2 : ¬ (ch = i) := by omega
        simp [List.mem_cons, h2]

theorem buildBitmap_spec (slow : Nat → Bool) (ch : Nat) (hch : ch < 128) :
    bitTest (buildBitmap slow) ch = slow ch := by
  unfold buildBitmap
  rw [foldBitmap_spec slow (List.range 128) (fun i hi => List.mem_range.mp hi) (0, 0) ch hch]
  simp [bitTest_zero, List.mem_range, hch]

theorem viaBitmap_ok (ascii : Option (Nat × Nat)) (slow : Nat → Bool) (h : FlatBitmapOk ascii slow) (ch : Nat) :
    viaBitmap ascii ch (slow ch) = slow ch := by
  unfold viaBitmap
  by_cases hc : ch < 128
  · simp only [hc, if_true]
    cases ha : ascii with
    | none => rfl
    | some bm => exact h bm ha ch hc
  · simp [hc]

/-- `BitmapOk` for the subtractor chain only (what `charInSlow` of the head level depends on) -/
theorem charInSlow_eq_memAlg (cat : Nat → Nat → Bool) (c : Class) (ch : Nat)
    (hl : Class.RangesOk c) (hb : BitmapOk cat c) : charInSlow cat c ch = memAlg cat c ch := by
  induction c with
  | leaf f => exact Flat.head_eq cat f ch hl
  | minus f s ih =>
    obtain ⟨hlf, hls⟩ := hl
    obtain ⟨hbs, _⟩ := hb
    have hsub : FlatBitmapOk s.flat.ascii (charInSlow cat s) := by
      cases s with
      | leaf g => exact hbs
      | minus g t => exact hbs.2
    have hv := viaBitmap_ok _ _ hsub ch
    simp only [charInSlow, memAlg]
    rw [hv, ih hls hbs, Flat.head_eq cat f ch hlf]
    cases f.memAlg cat ch <;> simp

theorem charIn_eq_charInSlow (cat : Nat → Nat → Bool) (c : Class) (ch : Nat) (hb : BitmapOk cat c) :
    charIn cat c ch = charInSlow cat c ch := by
  have htop : FlatBitmapOk c.flat.ascii (charInSlow cat c) := by
    cases c with
    | leaf g => exact hb
    | minus g t => exact hb.2
  exact viaBitmap_ok _ _ htop ch

/-- the head level of `charInSlow` does not read its own bitmap -/
theorem charInSlow_leaf_ascii (cat : Nat → Nat → Bool) (f : Flat) (a : Option (Nat × Nat)) (ch : Nat) :
    charInSlow cat (.leaf { f with ascii := a }) ch = charInSlow cat (.leaf f) ch := rfl

theorem charInSlow_minus_ascii (cat : Nat → Nat → Bool) (f : Flat) (s : Class) (a : Option (Nat × Nat)) (ch : Nat) :
    charInSlow cat (.minus { f with ascii := a } s) ch = charInSlow cat (.minus f s) ch := rfl

theorem prepare_spec (cat : Nat → Nat → Bool) (c : Class) (hb : BitmapOk cat c) :
    BitmapOk cat (prepare cat c) ∧ (∀ ch, charInSlow cat (prepare cat c) ch = charInSlow cat c ch) ∧
      (prepare cat c).flat.ascii ≠ none := by
  induction c with
  | leaf f =>
    unfold prepare
    split
    · next bm ha => exact ⟨hb, fun _ => rfl, by simp [Class.flat, ha]⟩
    · next ha =>
      refine ⟨?_, fun _ => rfl, by simp [Class.flat]⟩
      intro bm hbm ch hch
      simp only [Option.some.injEq] at hbm
      subst hbm
      rw [buildBitmap_spec _ ch hch]; rfl
  | minus f s ih =>
    obtain ⟨hbs, hbf⟩ := hb
    obtain ⟨ih1, ih2, _⟩ := ih hbs
    unfold prepare
    split
    · next bm ha => exact ⟨⟨hbs, hbf⟩, fun _ => rfl, by simp [Class.flat, ha]⟩
    · next ha =>
      have hsub : FlatBitmapOk s.flat.ascii (charInSlow cat s) := by
        cases s with
        | leaf g => exact hbs
        | minus g t => exact hbs.2
      have hsub' : FlatBitmapOk (prepare cat s).flat.ascii (charInSlow cat (prepare cat s)) := by
        cases hp : prepare cat s with
        | leaf g => rw [hp] at ih1; exact ih1
        | minus g t => rw [hp] at ih1; exact ih1.2
      have hslow : ∀ ch, charInSlow cat (.minus f (prepare cat s)) ch = charInSlow cat (.minus f s) ch := by
        intro ch
        have h1 := viaBitmap_ok _ _ hsub ch
        have h2 := viaBitmap_ok _ _ hsub' ch
        simp only [charInSlow]
        rw [h2, h1, ih2]
      refine ⟨⟨ih1, ?_⟩, fun ch => ?_, by simp [Class.flat]⟩
      · intro bm hbm ch hch
        simp only [Option.some.injEq] at hbm
        subst hbm
        rw [buildBitmap_spec _ ch hch]; rfl
      · exact hslow ch

/-- a class without bitmaps is trivially `BitmapOk` -/
theorem bitmapOk_strip (cat : Nat → Nat → Bool) (c : Class) : BitmapOk cat (strip c) := by
  induction c with
  | leaf f => intro bm h; simp at h
  | minus f s ih => exact ⟨ih, by intro bm h; simp at h⟩

theorem memAlg_strip (cat : Nat → Nat → Bool) (c : Class) (ch : Nat) : memAlg cat (strip c) ch = memAlg cat c ch := by
  induction c with
  | leaf f => rfl
  | minus f s ih => simp only [strip, memAlg, ih]; rfl

theorem rangesOk_strip (c : Class) (hl : Class.RangesOk c) : Class.RangesOk (strip c) := by
  induction c with
  | leaf f => exact hl
  | minus f s ih => exact ⟨hl.1, ih hl.2⟩

end RegexVerif.Class
