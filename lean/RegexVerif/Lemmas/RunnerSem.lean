/-
The laws of the interleaving theorem (`Lemmas/Interleave.lean`, `structure Laws`) proved for the
instance `RunnerSem.runnerSem` built from the C12 models: `runnerLaws`.

The two fields that say "the interpreter / the result read only the observable state" are proved here
from the definitions: every builder operation and every read of the concrete arrays (stale cells
included) is shown to act on `observe` as an explicitly given function of `observe` (`execActO`, `readO`,
`stepO`, `finishO`), using `builder_never_reads_stale`'s lemmas (reads stay below `2*matchcount` on
well-formed slots), `equiv_*` (operations respect agreement below `2*matchcount`), `ensureTrack_spec`
(the capacity of the recycled stack is not observable) and `goToZero` (left-over `codepos` is dead).
-/
import RegexVerif.Model.RunnerSem
import RegexVerif.Lemmas.Interleave

namespace RegexVerif.Lemmas.RunnerSem
open RegexVerif RegexVerif.Interleave RegexVerif.RunnerReuse RegexVerif.RunnerSem
open RegexVerif.Lemmas.RunnerReuse RegexVerif.Lemmas.Interleave

/-! ### slots and what `observe` keeps of them -/

def viewS (s : Slot) : Nat × List Int := (s.count, s.live)

/-- the slot rebuilt from its view: no cells above `2*count` -/
def ofP (p : Nat × List Int) : Slot := { count := p.1, arr := p.2 }

theorem canon_live (s : Slot) : (ofP (viewS s)).live = s.live := by
  simp [ofP, viewS, Slot.live, List.take_take]

theorem canon_equiv (s : Slot) : Slot.Equiv s (ofP (viewS s)) := ⟨rfl, (canon_live s).symm⟩

theorem canon_lenOK (s : Slot) (h : s.lenOK) : (ofP (viewS s)).lenOK := by
  have := live_length s h
  unfold Slot.lenOK
  simp only [ofP, viewS]
  omega

theorem canon_WF (s : Slot) (h : s.WF) : (ofP (viewS s)).WF :=
  ⟨canon_lenOK s h.1, by rw [canon_live]; exact h.2⟩

theorem viewS_of_equiv {s t : Slot} (h : Slot.Equiv s t) : viewS s = viewS t := by
  simp [viewS, h.1, h.2]

/-- a slot operation that, on a well-formed slot, produces the view it produces on the slot rebuilt
    from the view (so it has read nothing else), and keeps well-formedness -/
def Respects (g : Slot → Option Slot) : Prop :=
  ∀ s, s.WF → (g s).map viewS = (g (ofP (viewS s))).map viewS ∧ ∀ s', g s = some s' → s'.WF

theorem respects_add (a b : Nat) : Respects (fun s => some (s.addMatch a b)) := by
  intro s h
  refine ⟨?_, ?_⟩
  · simp only [Option.map_some]
    rw [viewS_of_equiv (equiv_addMatch (canon_equiv s) h.1 (canon_lenOK s h.1) a b)]
  · intro s' hs'
    simp only [Option.some.injEq] at hs'
    subst hs'
    exact wf_capture h _ _ (by omega) (by omega)

theorem respects_remove : Respects Slot.removeMatch := by
  intro s h
  refine ⟨?_, fun s' hs' => wf_removeMatch h hs'⟩
  cases hr : s.removeMatch with
  | none =>
    have hc : s.count = 0 := by
      unfold Slot.removeMatch at hr
      by_cases hc : s.count = 0
      · exact hc
      · simp [hc] at hr
    have : (ofP (viewS s)).removeMatch = none := by simp [Slot.removeMatch, ofP, viewS, hc]
    rw [this]
  | some s' =>
    obtain ⟨t', ht', he⟩ := equiv_removeMatch (canon_equiv s) hr
    rw [ht']
    simp [viewS_of_equiv he]

theorem respects_balance : Respects (Slot.balanceMatchWith rdAny) := by
  intro s h
  refine ⟨?_, ?_⟩
  · rw [balanceMatch_any_eq_live s h, balanceMatch_any_eq_live _ (canon_WF s h)]
    rcases equiv_balanceMatch (canon_equiv s) h.1 (canon_lenOK s h.1) with ⟨h1, h2⟩ | ⟨s', t', h1, h2, he⟩
    · rw [h1, h2]
    · rw [h1, h2]; simp [viewS_of_equiv he]
  · intro s' hs'
    rw [balanceMatch_any_eq_live s h] at hs'
    exact wf_balanceMatch h hs'

/-- the operation on the view that corresponds to `modifySlot` -/
def modifyView (v : List (Nat × List Int)) (c : Nat) (g : Slot → Option Slot) : Option (List (Nat × List Int)) :=
  match v[c]? with
  | none => none
  | some p => (g (ofP p)).map (fun s' => v.set c (viewS s'))

theorem modifySlot_view (slots : List Slot) (c : Nat) (g : Slot → Option Slot) (hg : Respects g)
    (hw : ∀ s ∈ slots, s.WF) :
    (modifySlot slots c g).map (List.map viewS) = modifyView (slots.map viewS) c g ∧
    ∀ ss, modifySlot slots c g = some ss → (∀ s ∈ ss, s.WF) ∧ ss.length = slots.length := by
  unfold modifySlot modifyView
  rw [List.getElem?_map]
  cases hs : slots[c]? with
  | none => simp
  | some s =>
    have hsw := hw s (List.mem_of_getElem? hs)
    obtain ⟨h1, h2⟩ := hg s hsw
    simp only [Option.map_some]
    refine ⟨?_, ?_⟩
    · cases hgs : g s <;> cases hgc : g (ofP (viewS s)) <;> rw [hgs, hgc] at h1 <;> simp at h1
      · rfl
      · simp [List.map_set, h1]
    · intro ss hss
      simp only [Option.map_eq_some_iff] at hss
      obtain ⟨s', hs', rfl⟩ := hss
      refine ⟨?_, by simp⟩
      intro x hx
      rcases List.mem_or_eq_of_mem_set hx with hx | hx
      · exact hw x hx
      · subst hx; exact h2 _ hs'

/-! ### the result object -/

abbrev MView := List (Nat × List Int) × Bool × Int × Option Nat

def mview (m : Builder) : MView := (m.view, m.balancing, m.textstart, m.text)

/-- every slot of the result object is well formed -/
def BWF (m : Builder) : Prop := ∀ s ∈ m.slots, s.WF

theorem observe_matchView (r : Runner) : (observe r).matchView = r.runmatch.map mview := rfl

/-- the three builder operations have this shape -/
def bop (c : Nat) (g : Slot → Option Slot) (bal : Bool → Bool) (m : Builder) : Option Builder :=
  (modifySlot m.slots c g).map (fun ss => { m with slots := ss, balancing := bal m.balancing })

theorem addMatch_bop (c : Nat) (s l : Int) :
    (fun m : Builder => m.addMatch c s l) = bop c (fun sl => some (sl.addMatch s l)) id := rfl
theorem removeMatch_bop (c : Nat) : (fun m : Builder => m.removeMatch c) = bop c Slot.removeMatch id := rfl
theorem balanceMatch_bop (c : Nat) :
    (fun m : Builder => m.balanceMatch c) = bop c (Slot.balanceMatchWith rdAny) (fun _ => true) := rfl

/-- the same on the observable state -/
def withView (o : Obs) (f : List (Nat × List Int) → Option (List (Nat × List Int))) (bal : Bool → Bool) : Option Obs :=
  match o.matchView with
  | none => none
  | some mv => (f mv.1).map (fun v' => { o with matchView := some (v', bal mv.2.1, mv.2.2.1, mv.2.2.2) })

/-- ownership facts of a runner of this Regexp: `RunInv`, well-formed result object, backtracking stack
    within its limit -/
def OwnR (re : Re) (r : Runner) : Prop :=
  RunInv re r ∧ (∀ m, r.runmatch = some m → BWF m) ∧ TrackInv re.stackLimit r.runtrack.length r.runtrackpos

theorem withMatch_bop_obs (re : Re) (r : Runner) (h : OwnR re r) (c : Nat) (g : Slot → Option Slot)
    (bal : Bool → Bool) (hg : Respects g) :
    (withMatch r (bop c g bal)).map observe = withView (observe r) (fun v => modifyView v c g) bal ∧
    ∀ r', withMatch r (bop c g bal) = some r' → OwnR re r' := by
  unfold withMatch withView
  rw [observe_matchView]
  cases hm : r.runmatch with
  | none => simp
  | some m =>
    obtain ⟨hv, hk⟩ := modifySlot_view m.slots c g hg (h.2.1 m hm)
    simp only [Option.map_some, mview, bop]
    have hview : m.view = m.slots.map viewS := rfl
    rw [hview, ← hv]
    cases hms : modifySlot m.slots c g with
    | none => simp
    | some ss =>
      refine ⟨rfl, ?_⟩
      intro r' hr'
      simp only [Option.map_some, Option.some.injEq] at hr'
      subst hr'
      obtain ⟨hw, hl⟩ := hk ss hms
      refine ⟨⟨h.1.1, ?_⟩, ?_, h.2.2⟩
      · intro m' hm'
        simp only [Option.some.injEq] at hm'
        subst hm'
        simp only
        rw [hl]; exact h.1.2 m hm
      · intro m' hm'
        simp only [Option.some.injEq] at hm'
        subst hm'
        exact hw

/-! ### `ensureStorage` -/

theorem ensureTrack_grow (limit : Int) (tc : Nat) :
    ∀ (fuel len pos len' pos' : Nat), ensureTrack limit tc fuel len pos = some (len', pos') →
      len ≤ len' ∧ pos' = pos + (len' - len) := by
  intro fuel
  induction fuel with
  | zero =>
    intro len pos len' pos' h
    simp only [ensureTrack] at h
    split at h
    · cases h
    · simp only [Option.some.injEq, Prod.mk.injEq] at h; omega
  | succ fuel ih =>
    intro len pos len' pos' h
    simp only [ensureTrack] at h
    by_cases hp : pos < tc * 4
    · simp only [hp, if_true, growTrack_eq] at h
      by_cases hg : newLen limit len ≤ len
      · simp [hg] at h
      · simp only [hg, if_false] at h
        have := ih _ _ _ _ h
        omega
    · simp only [hp, if_false, Option.some.injEq, Prod.mk.injEq] at h; omega

/-- `ensureStorage` on the observable state: fails iff used depth + reserve exceeds the limit -/
def ensureO (re : Re) (o : Obs) : Option Obs :=
  if re.stackLimit ≥ 0 ∧ ((o.trackUsed.length : Nat) : Int) + o.runtrackcount * 4 > re.stackLimit then none
  else some o

theorem ensure_obs (re : Re) (r : Runner) (h : OwnR re r) :
    (ensure re r).map observe = ensureO re (observe r) ∧ ∀ r', ensure re r = some r' → OwnR re r' := by
  have hspec := ensureTrack_spec re.stackLimit r.runtrackcount (r.runtrackcount * 4) r.runtrack.length r.runtrackpos
    h.2.2 (by omega)
  have hlen : (observe r).trackUsed.length = r.runtrack.length - r.runtrackpos := by
    simp [observe]
  have htc : (observe r).runtrackcount = r.runtrackcount := rfl
  unfold ensure ensureO
  rw [hlen, htc]
  by_cases hc : re.stackLimit ≥ 0 ∧ ((r.runtrack.length - r.runtrackpos : Nat) : Int) + r.runtrackcount * 4 > re.stackLimit
  · rw [if_pos hc] at hspec
    rw [hspec, if_pos hc]
    exact ⟨rfl, by intro r' hr'; cases hr'⟩
  · rw [if_neg hc] at hspec
    obtain ⟨len', pos', he, hd, _, hti⟩ := hspec
    obtain ⟨hge, hpos⟩ := ensureTrack_grow _ _ _ _ _ _ _ he
    rw [he, if_neg hc]
    simp only [Option.map_some]
    have hdrop : (List.replicate (len' - r.runtrack.length) 0 ++ r.runtrack).drop pos' = r.runtrack.drop r.runtrackpos := by
      rw [hpos, Nat.add_comm, ← List.drop_drop]
      simp
    refine ⟨?_, ?_⟩
    · simp only [observe, hdrop]
    · intro r' hr'
      simp only [Option.some.injEq] at hr'
      subst hr'
      refine ⟨h.1, h.2.1, ?_⟩
      simp only [List.length_append, List.length_replicate]
      have : len' - r.runtrack.length + r.runtrack.length = len' := by omega
      rw [this]; exact hti

/-! ### one action -/

def execActO (re : Re) : Act → Obs → Option Obs
  | .nop, o => some o
  | .setpos p, o => some { o with runtextpos := p }
  | .capture c s l, o => withView o (fun v => modifyView v c (fun sl => some (sl.addMatch s l))) id
  | .uncapture c, o => withView o (fun v => modifyView v c Slot.removeMatch) id
  | .balance c, o => withView o (fun v => modifyView v c (Slot.balanceMatchWith rdAny)) (fun _ => true)
  | .enter _ _ _, o => ensureO re o

theorem ownR_scratch (re : Re) (r : Runner) (h : OwnR re r) (op : Int) (cp : Nat) (b1 b2 : Bool) :
    OwnR re { r with operator := op, rightToLeft := b1, caseInsensitive := b2, codepos := cp } := h

theorem execAct_obs (re : Re) (act : Act) (r : Runner) (h : OwnR re r) :
    (execAct re act r).map observe = execActO re act (observe r) ∧
    ∀ r', execAct re act r = some r' → OwnR re r' := by
  cases act with
  | nop => exact ⟨rfl, by intro r' hr'; simp only [execAct, Option.some.injEq] at hr'; subst hr'; exact h⟩
  | setpos p =>
    refine ⟨rfl, ?_⟩
    intro r' hr'; simp only [execAct, Option.some.injEq] at hr'; subst hr'; exact h
  | capture c s l =>
    simp only [execAct, execActO]
    rw [addMatch_bop]
    exact withMatch_bop_obs re r h c _ id (respects_add s l)
  | uncapture c =>
    simp only [execAct, execActO]
    rw [removeMatch_bop]
    exact withMatch_bop_obs re r h c _ id respects_remove
  | balance c =>
    simp only [execAct, execActO]
    rw [balanceMatch_bop]
    exact withMatch_bop_obs re r h c _ _ respects_balance
  | enter op0 rtl ci =>
    simp only [execAct, execActO, goToZero, Nat.zero_le, decide_true, if_true]
    have := ensure_obs re _ (ownR_scratch re r h op0 0 rtl ci)
    exact this

/-! ### the reads -/

def readO (o : Obs) (c : Nat) : Option Bool × Option Int × Option Int :=
  match o.matchView.bind (fun mv => mv.1[c]?) with
  | none => (some false, none, none)
  | some p => ((ofP p).isMatchedWith rdAny, (ofP p).matchIndexWith rdAny, (ofP p).matchLengthWith rdAny)

theorem reads_canon (s : Slot) (h : s.WF) :
    s.isMatchedWith rdAny = (ofP (viewS s)).isMatchedWith rdAny ∧
    s.matchIndexWith rdAny = (ofP (viewS s)).matchIndexWith rdAny ∧
    s.matchLengthWith rdAny = (ofP (viewS s)).matchLengthWith rdAny := by
  have hc := canon_WF s h
  have he := canon_equiv s
  refine ⟨?_, ?_, ?_⟩
  · rw [isMatched_any_eq_live s, isMatched_any_eq_live _, isMatched_congr he]
  · rw [matchIndex_any_eq_live s h, matchIndex_any_eq_live _ hc, matchIndex_congr he]
  · rw [matchLength_any_eq_live s h, matchLength_any_eq_live _ hc, matchLength_congr he]

theorem readSlot_obs (re : Re) (r : Runner) (h : OwnR re r) : readSlot r = readO (observe r) := by
  funext c
  unfold readSlot readO
  rw [observe_matchView]
  cases hm : r.runmatch with
  | none => rfl
  | some m =>
    simp only [Option.map_some, Option.bind_some, mview]
    have hview : m.view = m.slots.map viewS := rfl
    rw [hview, List.getElem?_map]
    cases hs : m.slots[c]? with
    | none => rfl
    | some s =>
      obtain ⟨h1, h2, h3⟩ := reads_canon s (h.2.1 m hm s (List.mem_of_getElem? hs))
      simp only [Option.map_some]
      rw [← h1, ← h2, ← h3]

/-! ### one step, the result -/

def stepO (re : Re) (a : CallArgs) (t : List Int) (o : Obs × Bool) : Obs × Bool :=
  if o.2 then o
  else
    match execActO re (resolve (a.ctl t o.1) (readO o.1)) o.1 with
    | some o' => (o', false)
    | none => (o.1, true)

theorem stepSt_obs (re : Re) (a : CallArgs) (t : List Int) (s : RunSt) (h : OwnR re s.r) :
    (observe (stepSt re a t s).r, (stepSt re a t s).err) = stepO re a t (observe s.r, s.err) ∧
    OwnR re (stepSt re a t s).r := by
  unfold stepSt stepO
  cases he : s.err with
  | true => simp [he]; exact h
  | false =>
    simp only [Bool.false_eq_true, if_false]
    rw [readSlot_obs re s.r h]
    obtain ⟨h1, h2⟩ := execAct_obs re (resolve (a.ctl t (observe s.r)) (readO (observe s.r))) s.r h
    cases hx : execAct re (resolve (a.ctl t (observe s.r)) (readO (observe s.r))) s.r with
    | none =>
      rw [hx] at h1
      simp only [Option.map_none] at h1
      rw [← h1]
      exact ⟨rfl, h⟩
    | some r' =>
      rw [hx] at h1
      simp only [Option.map_some] at h1
      rw [← h1]
      exact ⟨rfl, h2 r' hx⟩

/-- `tidy`'s compaction on the view -/
def compactView (mv : MView) : Option (List (Nat × List Int)) :=
  if mv.2.1 then ((mv.1.map ofP).mapM Slot.compact).map (List.map viewS) else some mv.1

def finishO {ν : Type} (d : Option ν) (o : Obs × Bool) : Res ν :=
  { err := o.2, groups := o.1.matchView.bind compactView, textpos := o.1.runtextpos, repl := d }

theorem mapM_compact_view (l : List Slot) :
    (l.mapM Slot.compact).map (List.map viewS) = ((l.map (fun s => ofP (viewS s))).mapM Slot.compact).map (List.map viewS) := by
  induction l with
  | nil => rfl
  | cons s l ih =>
    simp only [List.map_cons, List.mapM_cons]
    rcases equiv_compact (canon_equiv s) with ⟨h1, h2⟩ | ⟨s', t', h1, h2, he⟩
    · rw [h1, h2]; rfl
    · rw [h1, h2]
      cases hA : l.mapM Slot.compact <;> cases hB : (l.map (fun s => ofP (viewS s))).mapM Slot.compact <;>
        rw [hA, hB] at ih <;> simp at ih
      · rfl
      · simp [viewS_of_equiv he, ih]

theorem compact_view (m : Builder) : (m.compact).map Builder.view = compactView (mview m) := by
  unfold Builder.compact compactView mview
  cases hb : m.balancing with
  | false => simp
  | true =>
    simp only [if_true, Option.map_map]
    have hview : m.view = m.slots.map viewS := rfl
    rw [hview, List.map_map]
    exact mapM_compact_view m.slots

theorem finishSt_obs {ν : Type} (d : Option ν) (s : RunSt) : finishSt d s = finishO d (observe s.r, s.err) := by
  unfold finishSt finishO
  rw [observe_matchView]
  cases hm : s.r.runmatch with
  | none => rfl
  | some m =>
    simp only [Option.bind_some, Option.map_some]
    rw [compact_view]
    rfl

/-! ### `scanInit`, program selection, `put` keep the ownership facts -/

theorem scanInit_runmatch (re : Re) (a : ScanArgs) (r : Runner) :
    (scanInit re a r).runmatch = some (match r.runmatch with
      | none => Builder.new re.capsize a.textInfo a.textstart
      | some m => m.reset a.textInfo a.textstart) := by
  cases hal : r.allocated <;> cases hto : a.noTimeout <;> cases hr : r.runmatch <;>
    simp [scanInit, initMatch, hal, hto, hr]

theorem scanInit_track (re : Re) (a : ScanArgs) (r : Runner)
    (h : TrackInv re.stackLimit r.runtrack.length r.runtrackpos) :
    TrackInv re.stackLimit (scanInit re a r).runtrack.length (scanInit re a r).runtrackpos := by
  unfold TrackInv at *
  cases hal : r.allocated <;> cases hto : a.noTimeout <;>
    simp only [scanInit, initMatch, hal, hto, Bool.false_eq_true, if_false, if_true, List.length_replicate] <;>
    first
      | exact ⟨Nat.le_refl _, h.2⟩
      | (refine ⟨Nat.le_refl _, ?_⟩; intro hl; (repeat' split) <;> omega)

theorem bwf_new (n : Nat) (t : Option Nat) (ts : Int) : BWF (Builder.new n t ts) := by
  intro s hs
  simp only [Builder.new, List.mem_map] at hs
  obtain ⟨c, _, rfl⟩ := hs
  have := wf_reset { count := 0, arr := if c = 0 then [0, 0] else [] } (by split <;> simp)
  exact this

theorem bwf_reset (m : Builder) (hm : BWF m) (t : Option Nat) (ts : Int) : BWF (m.reset t ts) := by
  intro s hs
  simp only [Builder.reset, List.mem_map] at hs
  obtain ⟨s0, hs0, rfl⟩ := hs
  exact wf_reset s0 (hm s0 hs0).1.2

def sel (re : Re) (q : Bool) (r : Runner) : Runner := if q then selectQuick re r else r

theorem sel_cases (re : Re) (q : Bool) (r : Runner) : sel re q r = r ∨ sel re q r = { r with code := .quick } := by
  unfold sel selectQuick
  cases q <;> cases re.hasQuick <;> simp

theorem ownR_sel (re : Re) (q : Bool) (r : Runner) (h : OwnR re r) : OwnR re (sel re q r) := by
  rcases sel_cases re q r with h' | h' <;> rw [h'] <;> exact h

theorem ownR_scanInit (re : Re) (a : ScanArgs) (r : Runner) (h : OwnR re r) : OwnR re (scanInit re a r) := by
  refine ⟨(Props.C12.put_resets_code re r h.1).2.2.2.2 a, ?_, scanInit_track re a r h.2.2⟩
  intro m hm
  rw [scanInit_runmatch] at hm
  simp only [Option.some.injEq] at hm
  subst hm
  cases hr : r.runmatch with
  | none => exact bwf_new _ _ _
  | some m0 => exact bwf_reset m0 (h.2.1 m0 hr) _ _

theorem ownR_put (re : Re) (r : Runner) (h : OwnR re r) : OwnR re (put r) := by
  refine ⟨(Props.C12.put_resets_code re r h.1).1.2.2.2, ?_, h.2.2⟩
  intro m hm
  simp only [put, Option.map_eq_some_iff] at hm
  obtain ⟨m0, hm0, rfl⟩ := hm
  exact h.2.1 m0 hm0

theorem ownR_fresh (re : Re) : OwnR re Runner.fresh :=
  ⟨runInv_fresh re, by intro m hm; simp [Runner.fresh] at hm,
   ⟨Nat.le_refl _, by intro h; simp [Runner.fresh]; exact h⟩⟩

/-! ### the buffer -/

theorem decodeBuf_spec (a : CallArgs) (b : Pool.Buf) :
    Pool.decode { b with len := a.needed } a.runes = some (decodeBuf a b) ∧
    (decodeBuf a b).visible = a.runes := by
  have := a.hn
  simp [decodeBuf, Pool.decode, this, Pool.Buf.visible]

/-- whatever `Pool.get` hands out (any pools, any pick): `decodeBuf` on it is `Pool.decode`'s result, i.e.
    `doPoolGet` at `runnerSem` performs exactly `get` + the decode loop of the C12 pool model -/
theorem decodeBuf_of_get (p : Pool.Pools) (a : CallArgs) (pick : Option Nat) :
    Pool.decode (Pool.get p a.needed a.maxPool pick).buf a.runes =
      some (decodeBuf a (Pool.get p a.needed a.maxPool pick).buf) := by
  have h := (Props.C12.pool_get_len p a.needed a.maxPool pick).1
  generalize (Pool.get p a.needed a.maxPool pick).buf = b at h
  have := (decodeBuf_spec a b).1
  have e : ({ b with len := a.needed } : Pool.Buf) = b := by cases b; simp_all
  rw [e] at this
  exact this

/-- a buffer `Pool.get` takes out of the class list it consults passes `fitsBuf` (under the class
    invariant of `poolIndex_put_get_consistent`: capacity = class size), and vice versa `get` keeps it -/
theorem fitsBuf_iff (sizes : List Nat) (a : CallArgs) (b : Pool.Buf) (idx : Nat)
    (hi : Pool.poolIndex sizes a.needed a.maxPool = some idx) (hc : b.cap = sizes.getD idx 0) :
    fitsBuf sizes a b = decide (b.cap ≥ a.needed) := by
  simp [fitsBuf, hi, hc]

/-! ### a checker for `LiveWF` on concrete lists (used by the non-vacuity examples) -/

def refsBelow : List Int → Nat → Bool
  | [], _ => true
  | v :: vs, p => (if v < 0 then decide (-3 - v < (p : Int)) else true) && refsBelow vs (p + 1)

theorem refsBelow_sound : ∀ (l : List Int) (p0 : Nat), refsBelow l p0 = true →
    ∀ (p : Nat) (v : Int), l[p]? = some v → v < 0 → -3 - v < ((p0 + p : Nat) : Int) := by
  intro l
  induction l with
  | nil => intro p0 _ p v hp; simp at hp
  | cons x xs ih =>
    intro p0 h p v hp hv
    simp only [refsBelow, Bool.and_eq_true] at h
    cases p with
    | zero =>
      simp only [List.getElem?_cons_zero, Option.some.injEq] at hp
      subst hp
      have := h.1
      simp only [hv, if_true, decide_eq_true_eq] at this
      simpa using this
    | succ p =>
      simp only [List.getElem?_cons_succ] at hp
      have := ih (p0 + 1) h.2 p v hp hv
      have e : p0 + 1 + p = p0 + (p + 1) := by omega
      rw [e] at this; exact this

theorem wf_of_check (s : Slot) (h1 : 2 * s.count ≤ s.arr.length) (h2 : s.arr.length ≠ 1)
    (h3 : refsBelow s.live 0 = true) : s.WF := by
  refine ⟨⟨h1, h2⟩, ?_⟩
  intro p v hp hv
  have := refsBelow_sound s.live 0 h3 p v hp hv
  simpa using this

/-! ### the record -/

/-- **the laws of the interleaving theorem, for the C12 models** -/
def runnerLaws {κ ν : Type} (re : Re) (sizes : List Nat) (parse : κ → Option ν) :
    Laws (runnerSem re sizes parse) where
  InvR := fun s => PoolInv re s.r ∧ OwnR re s.r
  Own := fun s => OwnR re s.r
  stepO := stepO re
  finishO := fun _ d o => finishO d o
  fresh_inv := ⟨poolInv_fresh re, ownR_fresh re⟩
  inv_own := fun _ h => h.2
  start_obs := by
    intro a t s h
    have := (Props.C12.scanInit_resets re (scanArgs a t) a.quick s.r h.1).1
    simp only at this
    simp only [runnerSem, this]
  start_own := fun a t s h => ownR_scanInit re (scanArgs a t) _ (ownR_sel re a.quick s.r h)
  step_obs := fun a t s h => (stepSt_obs re a t s h).1
  step_own := fun a t s h => (stepSt_obs re a t s h).2
  finish_obs := fun _ d s _ => finishSt_obs d s
  put_inv := fun s h => ⟨(Props.C12.put_resets_code re s.r h.1).1, ownR_put re s.r h⟩
  decode_vis := by
    intro a b _
    show (decodeBuf a b).visible = (decodeBuf a _).visible
    rw [(decodeBuf_spec a b).2, (decodeBuf_spec a _).2]

end RegexVerif.Lemmas.RunnerSem
