/-
Compiler correctness, part 10: backreferences and conditionals — `Ref` (`refmatch` against `Spec.refMatch`), `Testref`,
and the two conditional constructs `Setjump; Lazybranch; Testref; Forejump … Goto; Forejump …` (BackRefCond) and
`Setjump; Setmark; Lazybranch; ⟨cond⟩; Getmark; Forejump … Goto; Getmark; Forejump …` (ExprCond).

The capture arrays are read through `CapRep`; group numbers are slots here (`sl = id`: the writer has no `caps` map —
the fragment of tier 6 demands it).
-/
import RegexVerif.Lemmas.CompileCut

namespace RegexVerif.Compile
open RegexVerif.VM RegexVerif.Code RegexVerif.Writer RegexVerif.Generated.Opcodes RegexVerif RegexVerif.Spec
open RegexVerif.Lemmas.VM

/-! ## what the capture arrays say about the last capture of a group -/

theorem slotLog_getLast {sl : Nat → Nat} {C1 : List (Nat × Nat × Nat)} {b : Nat × Nat × Nat} {c : Nat}
    (hb : sl b.1 = c) (as : List (Nat × Nat × Nat)) (has : ∀ x ∈ as, ¬ sl x.1 = c) :
    slotLog sl (C1 ++ b :: as) c = slotLog sl C1 c ++ [(b.2.1 : Int), (b.2.2 : Int)] ∧
    ((C1 ++ b :: as).filter (fun x => sl x.1 == c)).length = (C1.filter (fun x => sl x.1 == c)).length + 1 := by
  have hnil : as.filter (fun x => sl x.1 == c) = [] := by
    rw [List.filter_eq_nil_iff]; intro x hx; simpa using has x hx
  constructor
  · simp [slotLog, List.filter_append, List.filter_cons, hb, hnil]
  · simp [List.filter_append, List.filter_cons, hb, hnil]

/-- **reading a group through the capture arrays**: `isMatched`, `matchIndex`, `matchLength` of a slot are the
    specification's `lastCap` of the group (slots = groups) -/
theorem capRep_last {N : Nat} {R : MatchBuilder.Runner} {C : List (Nat × Nat × Nat)} (h : CapRep (fun g => g) N R C)
    (g : Nat) (hg : g < N) :
    match lastCap C g with
    | none => MatchBuilder.isMatched R.m g = false ∧ hasCap C g = false
    | some (st, len) => MatchBuilder.isMatched R.m g = true ∧ hasCap C g = true ∧
        MatchBuilder.matchIndex R.m g = (st : Int) ∧ MatchBuilder.matchLength R.m g = (len : Int) := by
  unfold lastCap
  cases hf : C.reverse.find? (fun c => c.1 == g) with
  | none =>
    simp only [Option.map_none]
    rw [List.find?_eq_none] at hf
    have hall : ∀ x ∈ C, ¬ x.1 = g := fun x hx => by simpa using hf x (by simpa using hx)
    have hnil : C.filter (fun x => x.1 == g) = [] := by
      rw [List.filter_eq_nil_iff]; intro x hx; simpa using hall x hx
    have hcnt := h.cnt g hg
    rw [hnil] at hcnt
    refine ⟨by simp [MatchBuilder.isMatched, hcnt], ?_⟩
    simp only [hasCap, List.any_eq_false]
    intro x hx; simpa using hall x hx
  | some b =>
    simp only [Option.map_some]
    obtain ⟨hpb, as, bs, hrev, has⟩ := List.find?_eq_some_iff_append.1 hf
    have hbg : b.1 = g := by simpa using hpb
    have hC : C = bs.reverse ++ b :: as.reverse := by
      have := congrArg List.reverse hrev
      simpa using this
    have has' : ∀ x ∈ as.reverse, ¬ (fun g => g) x.1 = g := by
      intro x hx; simpa using has x (by simpa using hx)
    obtain ⟨hlog, hlen⟩ := slotLog_getLast (sl := fun g => g) (C1 := bs.reverse) (b := b) (c := g) hbg as.reverse has'
    rw [← hC] at hlog hlen
    have hcnt := h.cnt g hg
    rw [hlen] at hcnt
    have hlive := h.live g hg
    rw [hlog, hcnt] at hlive
    generalize hk : (bs.reverse.filter (fun x => (fun g => g) x.1 == g)).length = k at hcnt hlive
    have hll : (slotLog (fun g => g) bs.reverse g).length = 2 * k := by rw [slotLog_length, hk]
    -- the two live entries on top
    have h0 : (MatchBuilder.arr R.m g)[2 * k]? = some (b.2.1 : Int) := by
      have : ((MatchBuilder.arr R.m g).take (2 * (k + 1)))[2 * k]? = some (b.2.1 : Int) := by
        rw [hlive, List.getElem?_append_right (by omega), hll]; simp
      rw [List.getElem?_take, if_pos (by omega)] at this
      exact this
    have h1 : (MatchBuilder.arr R.m g)[2 * k + 1]? = some (b.2.2 : Int) := by
      have : ((MatchBuilder.arr R.m g).take (2 * (k + 1)))[2 * k + 1]? = some (b.2.2 : Int) := by
        rw [hlive, List.getElem?_append_right (by omega), hll]
        have : 2 * k + 1 - 2 * k = 1 := by omega
        simp [this]
      rw [List.getElem?_take, if_pos (by omega)] at this
      exact this
    have e1 : (k + 1) * 2 - 1 = 2 * k + 1 := by omega
    have e2 : (k + 1) * 2 - 2 = 2 * k := by omega
    have hmem : hasCap C g = true := by
      simp only [hasCap, List.any_eq_true]
      exact ⟨b, by rw [hC]; simp, by simpa using hbg⟩
    refine ⟨?_, hmem, ?_, ?_⟩
    · have hN : g < R.m.matchcount.length := by rw [h.mlen]; exact hg
      simp only [MatchBuilder.isMatched, hcnt, e1, MatchBuilder.geti, List.getD_eq_getElem?_getD, h1, Option.getD_some]
      simp [hN]
    · simp only [MatchBuilder.matchIndex, hcnt, e2, MatchBuilder.geti, List.getD_eq_getElem?_getD, h0, Option.getD_some]
      simp
    · simp only [MatchBuilder.matchLength, hcnt, e1, MatchBuilder.geti, List.getD_eq_getElem?_getD, h1, Option.getD_some]
      simp

/-! ## `refmatch` -/

theorem zipWith_beq_all : ∀ (a b : List Nat), a.length = b.length →
    ((List.zipWith (fun x y => x == y) a b).all id = true ↔ a = b)
  | [], [], _ => by simp
  | [], _ :: _, h => by simp at h
  | _ :: _, [], h => by simp at h
  | x :: a, y :: b, h => by
    have ih := zipWith_beq_all a b (by simpa using h)
    simp only [List.zipWith_cons_cons, List.all_cons, id, Bool.and_eq_true, beq_iff_eq, List.cons.injEq]
    rw [ih]

section ref
variable {X : Setup} {TPx : TP} {sets : List (List Nat)}

/-- the comparison loop of `refmatch`, case-sensitive: `k` runes ending before `s + k` against those ending before
    `t + k` -/
theorem cmpBack_text (hrel : EnvRel TPx sets X.env X.se) (s t : Nat) (get : Int → VM.M Nat)
    (hget : ∀ j c, VM.charAt X.env j = .ok c → get j = .ok c) :
    ∀ k, s + k ≤ X.se.n → t + k ≤ X.se.n →
      VM.cmpBack X.env false get k ((s + k : Nat) : Int) ((t + k : Nat) : Int) =
        .ok (decide ((X.se.text.drop s).take k = (X.se.text.drop t).take k)) := by
  intro k
  induction k with
  | zero => intro _ _; simp [VM.cmpBack]
  | succ k ih =>
    intro hs ht
    obtain ⟨c, hc, hch⟩ := charAt_lt hrel (s + k) (by omega)
    obtain ⟨c', hc', hch'⟩ := charAt_lt hrel (t + k) (by omega)
    have e1 : ((s + (k + 1) : Nat) : Int) - 1 = ((s + k : Nat) : Int) := by omega
    have e2 : ((t + (k + 1) : Nat) : Int) - 1 = ((t + k : Nat) : Int) := by omega
    have hcs : (X.se.text.drop s)[k]? = some c := by rw [List.getElem?_drop]; exact hc
    have hct : (X.se.text.drop t)[k]? = some c' := by rw [List.getElem?_drop]; exact hc'
    unfold VM.cmpBack
    simp only [e1, e2, hget _ _ hch, hch', Bool.false_eq_true, if_false]
    have hd : decide ((X.se.text.drop s).take (k + 1) = (X.se.text.drop t).take (k + 1)) =
        decide ((X.se.text.drop s).take k = (X.se.text.drop t).take k ∧ c = c') := by
      rw [decide_eq_decide]; exact take_succ_eq_iff _ _ k c c' hcs hct
    rw [hd]
    by_cases heq : c = c'
    · subst heq
      rw [if_pos rfl, ih (by omega) (by omega)]
      simp
    · rw [if_neg heq]
      simp [heq]

theorem cmpBack_text' (hrel : EnvRel TPx sets X.env X.se) (s t : Nat) (get : Int → VM.M Nat) (k : Nat) (sk tk : Int)
    (hget : ∀ j c, VM.charAt X.env j = .ok c → get j = .ok c) (hs : sk = ((s + k : Nat) : Int))
    (ht : tk = ((t + k : Nat) : Int)) (hsk : s + k ≤ X.se.n) (htk : t + k ≤ X.se.n) :
    VM.cmpBack X.env false get k sk tk = .ok (decide ((X.se.text.drop s).take k = (X.se.text.drop t).take k)) := by
  rw [hs, ht]; exact cmpBack_text hrel s t get hget k hsk htk

end ref

theorem lastCap_mem {C : List (Nat × Nat × Nat)} {g st len : Nat} (h : lastCap C g = some (st, len)) :
    (g, st, len) ∈ C := by
  unfold lastCap at h
  cases hf : C.reverse.find? (fun c => c.1 == g) with
  | none => rw [hf] at h; simp at h
  | some b =>
    rw [hf] at h
    simp only [Option.map_some, Option.some.injEq] at h
    have hm := List.mem_of_find?_eq_some hf
    have hp := List.find?_some hf
    have hb : b = (g, st, len) := by
      obtain ⟨b1, b2⟩ := b
      simp only [beq_iff_eq] at hp
      simp only at h
      rw [hp, h]
    rw [← hb]
    simpa using hm

/-- `Spec.sliceEq`, case-sensitive, for slices inside the text -/
theorem sliceEq_false_iff (e : Spec.Env) (s t len : Nat) (hs : s + len ≤ e.n) (ht0 : t ≤ e.n) :
    sliceEq e false s t len = (decide (t + len ≤ e.n) && decide ((e.text.drop s).take len = (e.text.drop t).take len)) := by
  unfold sliceEq
  unfold Spec.Env.n at *
  have hla : ((e.text.drop s).take len).length = len := by
    simp only [List.length_take, List.length_drop]; omega
  by_cases ht : t + len ≤ e.text.length
  · have hlb : ((e.text.drop t).take len).length = len := by
      simp only [List.length_take, List.length_drop]; omega
    have hz := zipWith_beq_all _ _ (hla.trans hlb.symm)
    simp only [hla, hlb, beq_self_eq_true, Bool.true_and, ht, decide_true, Bool.false_eq_true, if_false]
    rw [Bool.eq_iff_iff, hz]; simp
  · have hlb : (((e.text.drop t).take len).length == len) = false := by
      simp only [List.length_take, List.length_drop, beq_eq_false_iff_ne, ne_eq]; omega
    simp only [hlb, Bool.and_false, Bool.false_and, ht, decide_false]

section refnode
variable {X : Setup} {TPx : TP} {sets : List (List Nat)} {a i : Nat} {T S : List Int} {v : Int}
  {C : List (Nat × Nat × Nat)} {s : VMState}

/-- **`Ref g`**, either direction, case-sensitive, not ECMAScript: the last capture of the group, compared with the
    text at (right to left: before) the position -/
theorem ref_delivers (hrel : EnvRel TPx sets X.env X.se) (hwf : St.wf X.se.n ⟨i, C⟩) (hid : ∀ g, X.sl g = g) {g : Nat}
    (hg : g < X.p.capsize) (hecma : X.env.ecma = false) (he : Entry X a i (T ++ [v]) S C s) {d : Bool}
    (hia : InstrAt X.p a (i1 (opRef ||| bits d false) (g : Int))) (hf : ∃ w, VM.fetch X.p (a + 2) = .ok w) :
    Delivers X (a + 2) T S S C (Spec.m X.se (.ref g false) d ⟨i, C⟩) s := by
  have hoper : s.oper = ⟨opRef, d, false, false, false⟩ := by
    rw [he.oper hia]; exact (decode_bits opRef (by decide) d false).2
  have hop : Op.ofNat? s.oper.op = some .ref := by rw [hoper]; rfl
  have hb : s.oper.back = false := by rw [hoper]
  have hb2 : s.oper.back2 = false := by rw [hoper]
  have hrtl : s.oper.rtl = d := by rw [hoper]
  have hci : s.oper.ci = false := by rw [hoper]
  have hsl : X.sl = fun g => g := funext hid
  have hcap := he.cap
  rw [hsl] at hcap
  have hlast := capRep_last hcap g hg
  have hop0 := hia.operand he.pc 0 (g : Int) rfl
  have hg0 : ¬ ((g : Int) < 0) := by omega
  have hin : i ≤ X.se.n := hwf.1
  cases hl : lastCap C g with
  | none =>
    rw [hl] at hlast
    have hm : Spec.m X.se (.ref g false) d ⟨i, C⟩ = [] := by simp [Spec.m, hl]
    rw [hm]
    have hbody : VM.body X.p X.env s = .ok (s, .back) := by
      simp only [body, hop, modeOf, hb, hb2, caseRef, bind, Except.bind, hop0, VM.isMatched, hg0, if_false,
        Int.toNat_natCast, hlast.1, hecma, Bool.false_eq_true, pure, Except.pure]
    exact deliver_none he hbody rfl rfl rfl
  | some p =>
    obtain ⟨st, len⟩ := p
    rw [hl] at hlast
    obtain ⟨hmt, _, hmi, hml⟩ := hlast
    have hcin : st + len ≤ X.se.n := hwf.2 (g, st, len) (lastCap_mem hl)
    have hlen0 : ¬ ((len : Int) < 0) := by omega
    -- what the case does, given what `refmatch` answers
    have hbody_some : ∀ pos : Int, VM.refmatch X.env s (st : Int) (len : Int) = .ok (some pos) →
        VM.body X.p X.env s = .ok (VM.textto s pos, .advance 1) := by
      intro pos hrm
      simp only [body, hop, modeOf, hb, hb2, caseRef, bind, Except.bind, hop0, VM.isMatched, hg0, if_false,
        Int.toNat_natCast, hmt, if_true, hmi, hml, hrm, pure, Except.pure]
    have hbody_none : VM.refmatch X.env s (st : Int) (len : Int) = .ok none → VM.body X.p X.env s = .ok (s, .back) := by
      intro hrm
      simp only [body, hop, modeOf, hb, hb2, caseRef, bind, Except.bind, hop0, VM.isMatched, hg0, if_false,
        Int.toNat_natCast, hmt, if_true, hmi, hml, hrm, pure, Except.pure]
    have e1 : (st : Int) + (len : Int) = ((st + len : Nat) : Int) := by omega
    cases d with
    | false =>
      have hse := sliceEq_false_iff X.se st i len hcin hin
      by_cases hfit : i + len ≤ X.se.n
      · have hfc : ¬ (VM.forwardchars X.env s < (len : Int)) := by
          simp only [VM.forwardchars, hrtl, Bool.false_eq_true, if_false, env_len hrel, he.tp]; omega
        have hcmp := fun get hget => cmpBack_text hrel st i get hget len hcin hfit
        have e2 : (i : Int) + (len : Int) = ((i + len : Nat) : Int) := by omega
        have hrm : VM.refmatch X.env s (st : Int) (len : Int) =
            .ok (if (X.se.text.drop st).take len = (X.se.text.drop i).take len then some ((i : Int) + (len : Int)) else none) := by
          unfold VM.refmatch
          simp only [hlen0, if_false, hfc, hrtl, Bool.false_eq_true, hci, he.tp, Int.toNat_natCast, e1, e2]
          rw [hcmp _ (fun j c h => by simp [h])]
          by_cases heq : (X.se.text.drop st).take len = (X.se.text.drop i).take len
          · simp [heq]
          · simp [heq]
        by_cases heq : (X.se.text.drop st).take len = (X.se.text.drop i).take len
        · have hm : Spec.m X.se (.ref g false) false ⟨i, C⟩ = [⟨i + len, C⟩] := by
            simp [Spec.m, hl, refMatch, hse, hfit, heq]
          rw [hm]
          rw [if_pos heq] at hrm
          exact deliver_one (k := 1) he (hbody_some _ hrm) rfl rfl rfl rfl (by simp [VM.textto]) hf
        · have hm : Spec.m X.se (.ref g false) false ⟨i, C⟩ = [] := by
            simp [Spec.m, hl, refMatch, hse, heq]
          rw [hm]
          rw [if_neg heq] at hrm
          exact deliver_none he (hbody_none hrm) rfl rfl rfl
      · have hfc : VM.forwardchars X.env s < (len : Int) := by
          simp only [VM.forwardchars, hrtl, Bool.false_eq_true, if_false, env_len hrel, he.tp]; omega
        have hrm : VM.refmatch X.env s (st : Int) (len : Int) = .ok none := by
          unfold VM.refmatch; simp only [hlen0, if_false, hfc, if_true]
        have hm : Spec.m X.se (.ref g false) false ⟨i, C⟩ = [] := by
          simp [Spec.m, hl, refMatch, hse, hfit]
        rw [hm]
        exact deliver_none he (hbody_none hrm) rfl rfl rfl
    | true =>
      by_cases hfit : len ≤ i
      · have hse := sliceEq_false_iff X.se st (i - len) len hcin (by omega)
        have hfit' : i - len + len ≤ X.se.n := by omega
        have hfc : ¬ (VM.forwardchars X.env s < (len : Int)) := by
          simp only [VM.forwardchars, hrtl, if_true, he.tp]; omega
        have hcmp := fun get hget => cmpBack_text hrel st (i - len) get hget len hcin hfit'
        have e2 : ((i - len + len : Nat) : Int) = (i : Int) := by omega
        have hrm : VM.refmatch X.env s (st : Int) (len : Int) =
            .ok (if (X.se.text.drop st).take len = (X.se.text.drop (i - len)).take len then some ((i : Int) - (len : Int))
              else none) := by
          unfold VM.refmatch
          simp only [hlen0, if_false, hfc, hrtl, if_true, hci, he.tp, Int.toNat_natCast, e1]
          rw [cmpBack_text' hrel st (i - len) _ len _ _ ?_ rfl e2.symm hcin hfit']
          · by_cases heq : (X.se.text.drop st).take len = (X.se.text.drop (i - len)).take len
            · simp [heq]
            · simp [heq]
          · intro j c h; simp [h]
        have hnl : ¬ i < len := by omega
        by_cases heq : (X.se.text.drop st).take len = (X.se.text.drop (i - len)).take len
        · have hm : Spec.m X.se (.ref g false) true ⟨i, C⟩ = [⟨i - len, C⟩] := by
            simp [Spec.m, hl, refMatch, hse, hfit', heq, hnl]
          rw [hm]
          rw [if_pos heq] at hrm
          exact deliver_one (k := 1) he (hbody_some _ hrm) rfl rfl rfl rfl (by simp [VM.textto]; omega) hf
        · have hm : Spec.m X.se (.ref g false) true ⟨i, C⟩ = [] := by
            simp [Spec.m, hl, refMatch, hse, heq, hnl]
          rw [hm]
          rw [if_neg heq] at hrm
          exact deliver_none he (hbody_none hrm) rfl rfl rfl
      · have hfc : VM.forwardchars X.env s < (len : Int) := by
          simp only [VM.forwardchars, hrtl, if_true, he.tp]; omega
        have hrm : VM.refmatch X.env s (st : Int) (len : Int) = .ok none := by
          unfold VM.refmatch; simp only [hlen0, if_false, hfc, if_true]
        have hm : Spec.m X.se (.ref g false) true ⟨i, C⟩ = [] := by
          have : i < len := by omega
          simp [Spec.m, hl, refMatch, this]
        rw [hm]
        exact deliver_none he (hbody_none hrm) rfl rfl rfl

/-- `Testref g`: goes on exactly when the group has a capture -/
theorem testref_step (hid : ∀ g, X.sl g = g) {g : Nat} (hg : g < X.p.capsize) {T' : List Int}
    (he : Entry X a i T' S C s) (hia : InstrAt X.p a (i1 opTestref (g : Int))) (hf : ∃ w, VM.fetch X.p (a + 2) = .ok w) :
    if hasCap C g then Leads X s (Entry X (a + 2) i T' S C) else FailAt X T' S C s := by
  obtain ⟨w, hw⟩ := hf
  have hoper : s.oper = ⟨opTestref, false, false, false, false⟩ := by
    rw [he.oper hia]; exact decode_plain opTestref (by decide)
  have hop : Op.ofNat? s.oper.op = some .testref := by rw [hoper]; rfl
  have hb : s.oper.back = false := by rw [hoper]
  have hb2 : s.oper.back2 = false := by rw [hoper]
  have hsl : X.sl = fun g => g := funext hid
  have hcap := he.cap
  rw [hsl] at hcap
  have hlast := capRep_last hcap g hg
  have hop0 := hia.operand he.pc 0 (g : Int) rfl
  have hg0 : ¬ ((g : Int) < 0) := by omega
  cases hl : lastCap C g with
  | none =>
    rw [hl] at hlast
    rw [hlast.2]
    simp only [Bool.false_eq_true, if_false]
    refine ⟨s, ?_, he.tr, he.st, he.cap⟩
    simp only [body, hop, modeOf, hb, hb2, caseTestref, bind, Except.bind, hop0, VM.isMatched, hg0, if_false,
      Int.toNat_natCast, hlast.1, Bool.false_eq_true, pure, Except.pure]
  | some p =>
    obtain ⟨st, len⟩ := p
    rw [hl] at hlast
    rw [hlast.2.1]
    simp only [if_true]
    have hbody : VM.body X.p X.env s = .ok (s, .advance 1) := by
      simp only [body, hop, modeOf, hb, hb2, caseTestref, bind, Except.bind, hop0, VM.isMatched, hg0, if_false,
        Int.toNat_natCast, hlast.1, if_true, pure, Except.pure]
    refine Leads.of_step (step_adv hbody (by rw [he.pc]; exact hw)) (Leads.here ?_)
    exact ⟨by simp [he.pc], hw, he.tp, he.tr, he.st, he.cap⟩

end refnode

/-! ## the conditionals -/

section conds
variable {X : Setup} {TPx : TP} {sets : List (List Nat)} {a i : Nat} {T S : List Int} {v : Int}
  {C : List (Nat × Nat × Nat)} {s : VMState}

/-- `BackRefCond`: `Setjump; Lazybranch L; Testref g; Forejump; ⟨yes⟩; Goto end; L: Forejump; ⟨no⟩` — the `yes`
    branch when the group has a capture, else the `no` branch (no code = `Empty`) -/
theorem backrefcond_delivers (hid : ∀ g, X.sl g = g) {g : Nat} (hg : g < X.p.capsize) {szy szn : Nat}
    {ycode ncode : Code} {rsY rsN : List St}
    (hcode : CodeAt X.p a ([i0 opSetjump, i1 opLazybranch ((a + 6 + szy + 2 : Nat) : Int), i1 opTestref (g : Int),
        i0 opForejump] ++ ycode ++ [i1 opGoto ((a + 6 + szy + 3 + szn : Nat) : Int), i0 opForejump] ++ ncode))
    (hszy : codeLen ycode = szy) (hszn : codeLen ncode = szn) (he : Entry X a i (T ++ [v]) S C s)
    (hyes : hasCap C g = true → ∀ s1, Entry X (a + 6) i (((a + 5 : Nat) : Int) :: (C.length : Int) :: (T ++ [v])) S C s1 →
      Delivers X (a + 6 + szy) (((a + 5 : Nat) : Int) :: (C.length : Int) :: T) S S C rsY s1)
    (hno : hasCap C g = false → ∀ s1,
      Entry X (a + 6 + szy + 3) i (((a + 6 + szy + 2 : Nat) : Int) :: (C.length : Int) :: (T ++ [v])) S C s1 →
      Delivers X (a + 6 + szy + 3 + szn) (((a + 6 + szy + 2 : Nat) : Int) :: (C.length : Int) :: T) S S C rsN s1) :
    Delivers X (a + 6 + szy + 3 + szn) T S S C (if hasCap C g then rsY else rsN) s := by
  -- the instructions
  have hA : CodeAt X.p a ([i0 opSetjump] ++ ([i1 opLazybranch ((a + 6 + szy + 2 : Nat) : Int)] ++
      ([i1 opTestref (g : Int)] ++ [i0 opForejump]))) := (((hcode.left').left').left').cast rfl (by simp)
  have hsj : InstrAt X.p a (i0 opSetjump) := (hA.left').instr
  have hB := hA.right
  have hlb : InstrAt X.p (a + 1) (i1 opLazybranch ((a + 6 + szy + 2 : Nat) : Int)) := ((hB.left').cast (by simp [codeLen]) rfl).instr
  have hCc := hB.right
  have htr : InstrAt X.p (a + 3) (i1 opTestref (g : Int)) := ((hCc.left').cast (by simp [codeLen]) rfl).instr
  have hfj1 : InstrAt X.p (a + 5) (i0 opForejump) := ((hCc.right).cast (by simp [codeLen]) rfl).instr
  have hf6 : ∃ w, VM.fetch X.p (a + 6) = .ok w := by
    have := hA.fetch_end
    simpa [codeLen] using this
  have hD : CodeAt X.p (a + 6 + szy) ([i1 opGoto ((a + 6 + szy + 3 + szn : Nat) : Int)] ++ [i0 opForejump]) := by
    have := (hcode.left').right
    rw [codeLen_append, hszy] at this
    exact this.cast (by simp [codeLen] <;> omega) rfl
  have hgo : InstrAt X.p (a + 6 + szy) (i1 opGoto ((a + 6 + szy + 3 + szn : Nat) : Int)) := (hD.left').instr
  have hfj2 : InstrAt X.p (a + 6 + szy + 2) (i0 opForejump) := ((hD.right).cast (by simp [codeLen]) rfl).instr
  have hf9 : ∃ w, VM.fetch X.p (a + 6 + szy + 3) = .ok w := by
    have := hD.fetch_end
    simpa [codeLen, Nat.add_assoc] using this
  have hend : ∃ w, VM.fetch X.p (a + 6 + szy + 3 + szn) = .ok w := by
    have := hcode.fetch_end
    simp only [codeLen_append, hszy, hszn] at this
    simpa [codeLen, Nat.add_assoc] using this
  -- run
  obtain ⟨s1, hr1, he1⟩ := setjump_leads he hsj ⟨_, hlb.fetch⟩
  obtain ⟨s2, hr2, he2⟩ := lazybranch_leads he1 hlb ⟨_, by simpa [Nat.add_assoc] using htr.fetch⟩
  refine Delivers.of_reach (hr1.trans hr2) ?_
  have he2' : Entry X (a + 3) i (((a + 1 : Nat) : Int) :: (i : Int) :: (a : Int) :: (T ++ [v]))
      ((C.length : Int) :: ((T ++ [v]).length : Int) :: S) C s2 := by simpa [Nat.add_assoc] using he2
  have hts := testref_step hid hg he2' htr ⟨_, by simpa [Nat.add_assoc] using hfj1.fetch⟩
  by_cases hc : hasCap C g = true
  · rw [if_pos hc] at hts ⊢
    obtain ⟨s3, hr3, he3⟩ := hts
    refine Delivers.of_reach hr3 ?_
    have hFr : Framed X.p ([((a + 1 : Nat) : Int), (i : Int)] ++ [(a : Int)]) :=
      (lazybranch_frame hlb _).append (setjump_frame hsj)
    have he3' : Entry X (a + 5) i (([((a + 1 : Nat) : Int), (i : Int)] ++ [(a : Int)]) ++ (T ++ [v]))
        ((C.length : Int) :: ((T ++ [v]).length : Int) :: S) C s3 := by simpa [Nat.add_assoc] using he3
    obtain ⟨s4, hr4, he4⟩ := forejump_leads hFr (by simp) he3' hfj1 hf6
    refine Delivers.of_reach hr4 ?_
    have hy := (hyes hc s4 he4).goto hgo hend
    refine (Delivers.append (F := [((a + 5 : Nat) : Int), (C.length : Int)]) (forejump_frame hfj1 _) (ys := []) _ s4
      (by simpa using hy) ?_).cast rfl (List.append_nil _)
    intro s'' v' hf
    exact Delivers.fail (v := v') (forejump_back (ext := []) (by simpa using hf) hfj1)
  · have hc' : hasCap C g = false := by simpa using hc
    rw [hc'] at hts ⊢
    simp only [Bool.false_eq_true, if_false] at hts ⊢
    obtain ⟨s3, hr3, he3⟩ := lazybranch_back hts hlb ⟨_, hfj2.fetch⟩
    refine Delivers.of_reach hr3 ?_
    have he3' : Entry X (a + 6 + szy + 2) i ([(a : Int)] ++ (T ++ [v])) ((C.length : Int) :: ((T ++ [v]).length : Int) :: S) C s3 := by
      simpa using he3
    obtain ⟨s4, hr4, he4⟩ := forejump_leads (setjump_frame hsj) (by simp) he3' hfj2 hf9
    refine Delivers.of_reach hr4 ?_
    have hn := hno hc' s4 he4
    refine (Delivers.append (F := [((a + 6 + szy + 2 : Nat) : Int), (C.length : Int)]) (forejump_frame hfj2 _) (ys := []) _ s4
      (by simpa using hn) ?_).cast rfl (List.append_nil _)
    intro s'' v' hf
    exact Delivers.fail (v := v') (forejump_back (ext := []) (by simpa using hf) hfj2)

/-- `ExprCond`: `Setjump; Setmark; Lazybranch L; ⟨cond⟩; Getmark; Forejump; ⟨yes⟩; Goto end; L: Getmark; Forejump; ⟨no⟩` —
    the first success of the condition is kept (its captures, not its position) and `yes` runs; if the condition has
    no success `no` runs (no code = `Empty`); nothing of the condition is retried -/
theorem exprcond_delivers (hrel : EnvRel TPx sets X.env X.se) (hi : i ≤ X.se.n) {szc szy szn : Nat}
    {ccode ycode ncode : Code} {rsC : List St} {rsY : St → List St} {rsN : List St}
    (hcode : CodeAt X.p a ([i0 opSetjump, i0 opSetmark, i1 opLazybranch ((a + 4 + szc + 2 + szy + 2 : Nat) : Int)] ++ ccode ++
        [i0 opGetmark, i0 opForejump] ++ ycode ++
        [i1 opGoto ((a + 4 + szc + 2 + szy + 4 + szn : Nat) : Int), i0 opGetmark, i0 opForejump] ++ ncode))
    (hszc : codeLen ccode = szc) (hszy : codeLen ycode = szy) (hszn : codeLen ncode = szn)
    (he : Entry X a i (T ++ [v]) S C s) (hext : ∀ r ∈ rsC, ∃ ext, r.caps = C ++ ext)
    (hcond : ∀ s1, Entry X (a + 4) i (((a + 2 : Nat) : Int) :: (i : Int) :: ((a + 1 : Nat) : Int) :: (a : Int) :: (T ++ [v]))
        ((i : Int) :: (C.length : Int) :: ((T.length + 1 : Nat) : Int) :: S) C s1 →
      Delivers X (a + 4 + szc) (((a + 2 : Nat) : Int) :: (i : Int) :: ((a + 1 : Nat) : Int) :: (a : Int) :: T)
        ((i : Int) :: (C.length : Int) :: ((T.length + 1 : Nat) : Int) :: S)
        ((i : Int) :: (C.length : Int) :: ((T.length + 1 : Nat) : Int) :: S) C rsC s1)
    (hyes : ∀ r, rsC.head? = some r → ∀ s1 v1,
      Entry X (a + 4 + szc + 2) i (((a + 4 + szc + 1 : Nat) : Int) :: (C.length : Int) :: (T ++ [v1])) S r.caps s1 →
      Delivers X (a + 4 + szc + 2 + szy) (((a + 4 + szc + 1 : Nat) : Int) :: (C.length : Int) :: T) S S r.caps (rsY r) s1)
    (hno : rsC = [] → ∀ s1 v1,
      Entry X (a + 4 + szc + 2 + szy + 4) i (((a + 4 + szc + 2 + szy + 3 : Nat) : Int) :: (C.length : Int) :: (T ++ [v1])) S C s1 →
      Delivers X (a + 4 + szc + 2 + szy + 4 + szn) (((a + 4 + szc + 2 + szy + 3 : Nat) : Int) :: (C.length : Int) :: T) S S C
        rsN s1) :
    Delivers X (a + 4 + szc + 2 + szy + 4 + szn) T S S C (match rsC with | r :: _ => rsY r | [] => rsN) s := by
  -- the instructions
  have h1 := ((((hcode.left').left').left').left').left'
  have hA : CodeAt X.p a ([i0 opSetjump] ++ ([i0 opSetmark] ++ [i1 opLazybranch ((a + 4 + szc + 2 + szy + 2 : Nat) : Int)])) :=
    h1.cast rfl (by simp)
  have hsj : InstrAt X.p a (i0 opSetjump) := (hA.left').instr
  have hsm : InstrAt X.p (a + 1) (i0 opSetmark) := ((hA.right.left').cast (by simp [codeLen]) rfl).instr
  have hlb : InstrAt X.p (a + 2) (i1 opLazybranch ((a + 4 + szc + 2 + szy + 2 : Nat) : Int)) :=
    ((hA.right.right).cast (by simp [codeLen]) rfl).instr
  have hf4 : ∃ w, VM.fetch X.p (a + 4) = .ok w := by
    have := hA.fetch_end
    simpa [codeLen] using this
  have hB : CodeAt X.p (a + 4 + szc) ([i0 opGetmark] ++ [i0 opForejump]) := by
    have := (((hcode.left').left').left').right
    rw [codeLen_append, hszc] at this
    exact this.cast (by simp [codeLen] <;> omega) rfl
  have hgm1 : InstrAt X.p (a + 4 + szc) (i0 opGetmark) := (hB.left').instr
  have hfj1 : InstrAt X.p (a + 4 + szc + 1) (i0 opForejump) := ((hB.right).cast (by simp [codeLen]) rfl).instr
  have hfyp : ∃ w, VM.fetch X.p (a + 4 + szc + 2) = .ok w := by
    have := hB.fetch_end
    simpa [codeLen, Nat.add_assoc] using this
  have hD : CodeAt X.p (a + 4 + szc + 2 + szy)
      ([i1 opGoto ((a + 4 + szc + 2 + szy + 4 + szn : Nat) : Int)] ++ ([i0 opGetmark] ++ [i0 opForejump])) := by
    have := (hcode.left').right
    simp only [codeLen_append, hszc, hszy] at this
    exact this.cast (by simp [codeLen] <;> omega) (by simp)
  have hgo : InstrAt X.p (a + 4 + szc + 2 + szy) (i1 opGoto ((a + 4 + szc + 2 + szy + 4 + szn : Nat) : Int)) := (hD.left').instr
  have hgm2 : InstrAt X.p (a + 4 + szc + 2 + szy + 2) (i0 opGetmark) := ((hD.right.left').cast (by simp [codeLen]) rfl).instr
  have hfj2 : InstrAt X.p (a + 4 + szc + 2 + szy + 3) (i0 opForejump) :=
    ((hD.right.right).cast (by simp [codeLen] <;> omega) rfl).instr
  have hfn : ∃ w, VM.fetch X.p (a + 4 + szc + 2 + szy + 4) = .ok w := by
    have := hD.fetch_end
    simpa [codeLen, Nat.add_assoc] using this
  have hend : ∃ w, VM.fetch X.p (a + 4 + szc + 2 + szy + 4 + szn) = .ok w := by
    have := hcode.fetch_end
    simp only [codeLen_append, hszc, hszy, hszn] at this
    simpa [codeLen, Nat.add_assoc] using this
  -- run
  obtain ⟨s1, hr1, he1⟩ := setjump_leads he hsj ⟨_, hsm.fetch⟩
  obtain ⟨s2, hr2, he2⟩ := setmark_leads he1 hsm ⟨_, by simpa [Nat.add_assoc] using hlb.fetch⟩
  obtain ⟨s3, hr3, he3⟩ := lazybranch_leads he2 hlb (by simpa [Nat.add_assoc] using hf4)
  refine Delivers.of_reach ((hr1.trans hr2).trans hr3) ?_
  have hb := hcond s3 (by simpa [Nat.add_assoc] using he3)
  cases rsC with
  | nil =>
    obtain ⟨s4, hr4, v', hfl⟩ := hb
    refine Delivers.of_reach hr4 ?_
    obtain ⟨s5, hr5, he5⟩ := lazybranch_back (T := ((a + 1 : Nat) : Int) :: (a : Int) :: (T ++ [v'])) (by simpa using hfl) hlb
      ⟨_, hgm2.fetch⟩
    refine Delivers.of_reach hr5 ?_
    obtain ⟨s6, hr6, he6⟩ := getmark_leads hrel hi he5 hgm2 ⟨_, hfj2.fetch⟩
    refine Delivers.of_reach hr6 ?_
    have hFr : Framed X.p ([((a + 4 + szc + 2 + szy + 2 : Nat) : Int), (i : Int)] ++ ([((a + 1 : Nat) : Int)] ++ [(a : Int)])) :=
      (getmark_frame hgm2 _).append ((setmark_frame hsm).append (setjump_frame hsj))
    have he6' : Entry X (a + 4 + szc + 2 + szy + 3) i
        (([((a + 4 + szc + 2 + szy + 2 : Nat) : Int), (i : Int)] ++ ([((a + 1 : Nat) : Int)] ++ [(a : Int)])) ++ (T ++ [v']))
        ((C.length : Int) :: ((T ++ [v']).length : Int) :: S) C s6 := by simpa [Nat.add_assoc] using he6
    obtain ⟨s7, hr7, he7⟩ := forejump_leads hFr (by simp) he6' hfj2 (by simpa [Nat.add_assoc] using hfn)
    refine Delivers.of_reach hr7 ?_
    have hn := hno rfl s7 v' (by simpa [Nat.add_assoc] using he7)
    refine (Delivers.append (F := [((a + 4 + szc + 2 + szy + 3 : Nat) : Int), (C.length : Int)]) (forejump_frame hfj2 _)
      (ys := []) _ s7 (by simpa using hn) ?_).cast rfl (List.append_nil _)
    intro s'' v'' hf
    exact Delivers.fail (v := v'') (forejump_back (ext := []) (by simpa using hf) hfj2)
  | cons r rs' =>
    obtain ⟨F, hF, ⟨s4, hr4, v', he4⟩, _⟩ := hb
    obtain ⟨ext, hx⟩ := hext r (by simp)
    refine Delivers.of_reach hr4 ?_
    obtain ⟨s5, hr5, he5⟩ := getmark_leads hrel hi he4 hgm1 ⟨_, hfj1.fetch⟩
    refine Delivers.of_reach hr5 ?_
    have hFr : Framed X.p ([((a + 4 + szc : Nat) : Int), (i : Int)] ++
        (F ++ ([((a + 2 : Nat) : Int), (i : Int)] ++ ([((a + 1 : Nat) : Int)] ++ [(a : Int)])))) :=
      (getmark_frame hgm1 _).append (hF.append ((lazybranch_frame hlb _).append ((setmark_frame hsm).append (setjump_frame hsj))))
    have he5' : Entry X (a + 4 + szc + 1) i
        (([((a + 4 + szc : Nat) : Int), (i : Int)] ++
          (F ++ ([((a + 2 : Nat) : Int), (i : Int)] ++ ([((a + 1 : Nat) : Int)] ++ [(a : Int)])))) ++ (T ++ [v']))
        ((C.length : Int) :: ((T ++ [v']).length : Int) :: S) r.caps s5 := by simpa using he5
    obtain ⟨s6, hr6, he6⟩ := forejump_leads hFr (by simp) he5' hfj1 (by simpa [Nat.add_assoc] using hfyp)
    refine Delivers.of_reach hr6 ?_
    have hy := (hyes r rfl s6 v' (by simpa [Nat.add_assoc] using he6)).goto hgo hend
    refine (Delivers.append (F := [((a + 4 + szc + 1 : Nat) : Int), (C.length : Int)]) (forejump_frame hfj1 _) (ys := []) _ s6
      (by simpa using hy) ?_).cast rfl (List.append_nil _)
    intro s'' v'' hf
    rw [hx] at hf
    exact Delivers.fail (v := v'') (forejump_back (by simpa using hf) hfj1)

end conds

end RegexVerif.Compile
