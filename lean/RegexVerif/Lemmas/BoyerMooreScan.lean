/-
`BmPrefix.Scan` in the terms of the finder model: occurrences as `Finders.bmIsMatch`, both directions
(the right-to-left instance through the reflection that defines it), and the candidate finder
`finderBmScan` as "first position in scan order at which `IsMatch` holds".
-/
import RegexVerif.Lemmas.BoyerMoore
import RegexVerif.Model.Finders

namespace RegexVerif.Lemmas.BoyerMoore
open RegexVerif.BoyerMoore RegexVerif.Finders

/-! ### occurrences: `Occ` is `occursAt` under the prefix's comparison -/

theorem prefixOf_iff (eq : Nat → Nat → Bool) : ∀ (pat ts : List Nat),
    prefixOf eq pat ts = true ↔ ∀ j : Nat, j < pat.length → ∃ t c, ts[j]? = some t ∧ pat[j]? = some c ∧ eq t c = true := by
  intro pat
  induction pat with
  | nil => intro ts; simp [prefixOf]
  | cons c ps ih =>
    intro ts
    cases ts with
    | nil =>
      simp only [prefixOf]
      constructor
      · intro h; simp at h
      · intro h; obtain ⟨t, _, ht, _⟩ := h 0 (by simp); simp at ht
    | cons t ts' =>
      simp only [prefixOf, Bool.and_eq_true, ih ts']
      constructor
      · intro ⟨h1, h2⟩ j hj
        cases j with
        | zero => exact ⟨t, c, by simp, by simp, h1⟩
        | succ j =>
          obtain ⟨t', c', x1, x2, x3⟩ := h2 j (by simp at hj; omega)
          exact ⟨t', c', by simpa using x1, by simpa using x2, x3⟩
      · intro h
        constructor
        · obtain ⟨t', c', x1, x2, x3⟩ := h 0 (by simp)
          simp at x1 x2; subst x1; subst x2; exact x3
        · intro j hj
          obtain ⟨t', c', x1, x2, x3⟩ := h (j + 1) (by simp; omega)
          exact ⟨t', c', by simpa using x1, by simpa using x2, x3⟩

/-- `Occ` for the text as `Scan` reads it is `occursAt` under `Bm.eq` -/
theorem occ_iff_occursAt (lower : Nat → Nat) (pat : List Nat) (ci : Bool) (text : List Nat) (s : Nat) :
    Occ pat (chAt lower ci text) s ↔ occursAt (Bm.eq lower ⟨pat, ci⟩) pat text s = true := by
  unfold occursAt
  rw [prefixOf_iff]
  unfold Occ chAt
  constructor
  · intro h j hj
    have := h j hj
    have hc : pat[j]? = some (pat[j]'hj) := by simp
    rw [hc] at this
    cases ht : text[s + j]? with
    | none => rw [ht] at this; simp at this
    | some t =>
      rw [ht] at this
      simp only [Option.map_some, Option.some.injEq] at this
      refine ⟨t, pat[j]'hj, by rw [List.getElem?_drop]; exact ht, hc, ?_⟩
      cases ci <;> simp [Bm.eq, eqBmLower, eqExact] at this ⊢ <;> exact this
  · intro h j hj
    obtain ⟨t, c, x1, x2, x3⟩ := h j hj
    rw [List.getElem?_drop] at x1
    rw [x1, x2]
    simp only [Option.map_some, Option.some.injEq]
    cases ci <;> simp [Bm.eq, eqBmLower, eqExact] at x3 ⊢ <;> exact x3

theorem chAt_ne_none (lower : Nat → Nat) (ci : Bool) (text : List Nat) (i : Nat) (h : i < text.length) :
    chAt lower ci text i ≠ none := by
  simp [chAt, h]

theorem chAt_reverse (lower : Nat → Nat) (ci : Bool) (text : List Nat) (i : Nat) (h : i < text.length) :
    chAt lower ci text.reverse i = chAt lower ci text (text.length - 1 - i) := by
  simp [chAt, List.getElem?_reverse h]

/-- an occurrence of the reversed pattern in the reversed text is an occurrence of the pattern, reflected -/
theorem occ_reverse (lower : Nat → Nat) (pat : List Nat) (ci : Bool) (text : List Nat) (s : Nat)
    (h : s + pat.length ≤ text.length) :
    Occ pat.reverse (chAt lower ci text.reverse) s ↔ Occ pat (chAt lower ci text) (text.length - s - pat.length) := by
  unfold Occ
  simp only [List.length_reverse]
  constructor
  · intro hocc k hk
    have := hocc (pat.length - 1 - k) (by omega)
    rw [chAt_reverse _ _ _ _ (by omega), List.getElem?_reverse (by omega)] at this
    rw [show text.length - s - pat.length + k = text.length - 1 - (s + (pat.length - 1 - k)) by omega, this]
    congr 1; omega
  · intro hocc j hj
    have := hocc (pat.length - 1 - j) (by omega)
    rw [chAt_reverse _ _ _ _ (by omega), List.getElem?_reverse (by omega)]
    rw [show text.length - 1 - (s + j) = text.length - s - pat.length + (pat.length - 1 - j) by omega, this]

/-! ### the compiled prefix -/

theorem build_some (pat : List Nat) (ci rtl : Bool) (t : Tables) (h : build pat ci rtl = some t) :
    pat ≠ [] ∧ (∀ c, c ∈ pat → c ≤ 0xffff) ∧ t.rtl = rtl ∧ t.ci = ci ∧ t.pattern = pat ∧
    t.core = buildLtr (if rtl then pat.reverse else pat) := by
  unfold build at h
  by_cases hc : (pat.isEmpty || pat.any (fun c => decide (0xffff < c))) = true
  · rw [if_pos hc] at h; simp at h
  · rw [if_neg hc] at h
    injection h with h
    subst h
    simp only [Bool.or_eq_true, not_or, Bool.not_eq_true] at hc
    refine ⟨by intro h0; simp [h0] at hc, ?_, rfl, rfl, ?_, rfl⟩
    · intro c hcm
      have := hc.2
      rw [List.any_eq_false] at this
      have := this c hcm
      simpa using this
    · cases rtl <;> simp [Tables.pattern, buildLtr]

/-- **`Scan`, both directions, in the finder's terms.**  With `beglimit ≤ index ≤ endlimit ≤ len(text)`:
    a returned index `i` lies in the window in scan direction from `index`, the prefix occurs there
    (left-to-right: starts at `i`; right-to-left: ends at `i`) and at no window position before it in scan
    order; `-1` means the prefix occurs at no window position. -/
theorem scan_spec (lower : Nat → Nat) (pat : List Nat) (ci rtl : Bool) (t : Tables) (hb : build pat ci rtl = some t)
    (text : List Nat) (index beglimit endlimit : Nat)
    (h1 : beglimit ≤ index) (h2 : index ≤ endlimit) (h3 : endlimit ≤ text.length) :
    match scan lower t text index beglimit endlimit with
    | some i =>
      (if rtl then i ≤ index ∧ beglimit + pat.length ≤ i else index ≤ i ∧ i + pat.length ≤ endlimit) ∧
      bmIsMatch lower ⟨pat, ci⟩ rtl text i = true ∧
      ∀ j, (if rtl then i < j ∧ j ≤ index else index ≤ j ∧ j < i) → bmIsMatch lower ⟨pat, ci⟩ rtl text j = false
    | none =>
      ∀ j, (if rtl then j ≤ index ∧ beglimit + pat.length ≤ j else index ≤ j ∧ j + pat.length ≤ endlimit) →
        bmIsMatch lower ⟨pat, ci⟩ rtl text j = false := by
  obtain ⟨hne, hbmp, hr, hci, _, hcore⟩ := build_some pat ci rtl t hb
  have hlen : 0 < pat.length := List.length_pos_iff.mpr hne
  have hfalse : ∀ (b : Bool), ¬ b = true → b = false := by intro b; cases b <;> simp
  unfold scan scanWith
  cases rtl with
  | false =>
    simp only [hr, Bool.false_eq_true, if_false, hci, hcore]
    have := scanLtr_spec pat hne hbmp (chAt lower ci text) index beglimit endlimit
      (fun i hi => chAt_ne_none lower ci text i (by omega)) h1
    cases hs : scanLtr (buildLtr pat) false (chAt lower ci text) index beglimit endlimit with
    | none =>
      rw [hs] at this
      intro j hj
      apply hfalse
      simp only [bmIsMatch, Bool.false_eq_true, if_false]
      rw [← occ_iff_occursAt]
      exact this j hj.1 hj.2
    | some s =>
      rw [hs] at this
      obtain ⟨x1, x2, x3, x4⟩ := this
      refine ⟨⟨x1, x2⟩, ?_, ?_⟩
      · simp only [bmIsMatch, Bool.false_eq_true, if_false]
        rw [← occ_iff_occursAt]; exact x3
      · intro j hj
        apply hfalse
        simp only [bmIsMatch, Bool.false_eq_true, if_false]
        rw [← occ_iff_occursAt]
        exact x4 j hj.1 hj.2
  | true =>
    simp only [hr, if_true, hci, hcore]
    have hn1 : ¬ (text.length < index ∨ text.length < endlimit) := by omega
    simp only [Bool.or_eq_true, decide_eq_true_eq, hn1, if_false]
    have hrne : pat.reverse ≠ [] := by simpa using hne
    have := scanLtr_spec pat.reverse hrne (by intro c hc; exact hbmp c (by simpa using hc))
      (chAt lower ci text.reverse) (text.length - index) (text.length - endlimit) (text.length - beglimit)
      (fun i hi => chAt_ne_none lower ci text.reverse i (by simp; omega)) (by omega)
    simp only [List.length_reverse] at this
    -- `bmIsMatch … true text e` for `e` with room is `Occ` of the reversed data at `n - e`
    have hbridge : ∀ e, e ≤ text.length →
        (bmIsMatch lower ⟨pat, ci⟩ true text e = true ↔
          (pat.length ≤ e ∧ Occ pat.reverse (chAt lower ci text.reverse) (text.length - e))) := by
      intro e he
      simp only [bmIsMatch, if_true, Bool.and_eq_true, decide_eq_true_eq]
      constructor
      · intro ⟨a, b⟩
        refine ⟨a, ?_⟩
        rw [occ_reverse _ _ _ _ _ (by omega), show text.length - (text.length - e) - pat.length = e - pat.length by omega,
          occ_iff_occursAt]
        exact b
      · intro ⟨a, b⟩
        refine ⟨a, ?_⟩
        rw [occ_reverse _ _ _ _ _ (by omega), show text.length - (text.length - e) - pat.length = e - pat.length by omega,
          occ_iff_occursAt] at b
        exact b
    cases hs : scanLtr (buildLtr pat.reverse) false (chAt lower ci text.reverse) (text.length - index)
        (text.length - endlimit) (text.length - beglimit) with
    | none =>
      rw [hs] at this
      simp only [Option.map_none]
      intro j hj
      apply hfalse
      rw [hbridge j (by omega)]
      intro ⟨_, hocc⟩
      exact this (text.length - j) (by omega) (by omega) hocc
    | some s =>
      rw [hs] at this
      simp only [Option.map_some]
      obtain ⟨x1, x2, x3, x4⟩ := this
      refine ⟨⟨by omega, by omega⟩, ?_, ?_⟩
      · rw [hbridge _ (by omega)]
        refine ⟨by omega, ?_⟩
        rw [show text.length - (text.length - s) = s by omega]; exact x3
      · intro j hj
        apply hfalse
        rw [hbridge j (by omega)]
        intro ⟨hl, hocc⟩
        exact x4 (text.length - j) (by omega) (by omega) hocc

/-! ### `matchPattern` / `IsMatch` -/

theorem matchFrom_iff (lower : Nat → Nat) (ci : Bool) (text : List Nat) (index : Nat) : ∀ (ps : List Nat) (i : Nat),
    matchFrom lower ci text index ps i = true ↔ ∀ j : Nat, j < ps.length → chAt lower ci text (index + i + j) = ps[j]? := by
  intro ps
  induction ps with
  | nil => intro i; simp [matchFrom]
  | cons c rest ih =>
    intro i
    simp only [matchFrom, Bool.and_eq_true, beq_iff_eq, ih (i + 1)]
    constructor
    · intro ⟨h1, h2⟩ j hj
      cases j with
      | zero => simpa using h1
      | succ j =>
        have := h2 j (by simp at hj; omega)
        rw [show index + i + (j + 1) = index + (i + 1) + j by omega]
        simpa using this
    · intro h
      refine ⟨by simpa using h 0 (by simp), ?_⟩
      intro j hj
      have := h (j + 1) (by simp; omega)
      rw [show index + i + (j + 1) = index + (i + 1) + j by omega] at this
      simpa using this

/-- **`IsMatch` over the whole input is the finder model's `bmIsMatch`** (the anchored path of
    `findFirstCharDefault` calls `IsMatch(text, pos, 0, len(text))`) -/
theorem isMatch_eq (lower : Nat → Nat) (pat : List Nat) (ci rtl : Bool) (t : Tables) (hb : build pat ci rtl = some t)
    (text : List Nat) (index : Nat) :
    isMatch lower t text index 0 text.length = bmIsMatch lower ⟨pat, ci⟩ rtl text index := by
  obtain ⟨hne, _, hr, hci, hp, _⟩ := build_some pat ci rtl t hb
  have hlen : 0 < pat.length := List.length_pos_iff.mpr hne
  have hmp : ∀ s, matchPattern lower t text s = occursAt (Bm.eq lower ⟨pat, ci⟩) pat text s := by
    intro s
    have hiff : matchPattern lower t text s = true ↔ occursAt (Bm.eq lower ⟨pat, ci⟩) pat text s = true := by
      rw [← occ_iff_occursAt]
      unfold matchPattern
      rw [hp, hci]
      by_cases hfit : text.length < s + pat.length
      · rw [if_pos hfit]
        constructor
        · intro h; simp at h
        · intro hocc
          have := hocc (pat.length - 1) (by omega)
          have hnone : chAt lower ci text (s + (pat.length - 1)) = none := by
            simp [chAt]; omega
          rw [hnone] at this
          have : pat[pat.length - 1]? = some (pat[pat.length - 1]'(by omega)) := by simp
          simp_all
      · rw [if_neg hfit, matchFrom_iff]
        simp only [Nat.add_zero]
        exact Iff.rfl
    cases h1 : matchPattern lower t text s <;> cases h2 : occursAt (Bm.eq lower ⟨pat, ci⟩) pat text s <;> simp_all
  unfold isMatch bmIsMatch
  rw [hr, hp]
  cases rtl with
  | false =>
    simp only [Bool.not_false, if_true, Bool.false_eq_true, if_false, Nat.not_lt_zero, decide_false, Bool.false_or]
    by_cases hfit : text.length < index + pat.length
    · simp only [hfit, decide_true, if_true]
      cases ho : occursAt (Bm.eq lower ⟨pat, ci⟩) pat text index with
      | false => rfl
      | true =>
        exfalso
        rw [← occ_iff_occursAt] at ho
        have := ho (pat.length - 1) (by omega)
        have hnone : chAt lower ci text (index + (pat.length - 1)) = none := by simp [chAt]; omega
        rw [hnone] at this
        have : pat[pat.length - 1]? = some (pat[pat.length - 1]'(by omega)) := by simp
        simp_all
    · simp only [hfit, decide_false, Bool.false_eq_true, if_false]
      exact hmp index
  | true =>
    simp only [Bool.not_true, Bool.false_eq_true, if_false, if_true, Nat.zero_add]
    by_cases hlt : index < pat.length
    · have : ¬ pat.length ≤ index := by omega
      simp [hlt, this]
    · have hle : pat.length ≤ index := by omega
      by_cases hend : text.length < index
      · simp only [hend, decide_true, Bool.true_or, if_true, hle, Bool.true_and]
        cases ho : occursAt (Bm.eq lower ⟨pat, ci⟩) pat text (index - pat.length) with
        | false => rfl
        | true =>
          exfalso
          rw [← occ_iff_occursAt] at ho
          have := ho (pat.length - 1) (by omega)
          have hnone : chAt lower ci text (index - pat.length + (pat.length - 1)) = none := by simp [chAt]; omega
          rw [hnone] at this
          have : pat[pat.length - 1]? = some (pat[pat.length - 1]'(by omega)) := by simp
          simp_all
      · simp only [hend, hlt, decide_false, Bool.false_or, Bool.false_eq_true, if_false, hle, decide_true, Bool.true_and]
        exact hmp _

end RegexVerif.Lemmas.BoyerMoore
