/-
Helper lemmas for C20, pattern side: the re-cased pattern `Spec.recase e ch p` (Model/Recase.lean) has
leaf-wise the same character tests as `p` (`PatTestEq`) when every re-cased *range* keeps its closure
under case partners (`RecaseOK`, a decidable condition on the fold table).
-/
import RegexVerif.Model.Recase
import RegexVerif.Lemmas.SpecFlip

namespace RegexVerif.Spec

/-! ## definitions -/

/-- the runes `lo … hi` -/
def rangeRunes (p : Nat × Nat) : List Nat := List.range' p.1 (p.2 + 1 - p.1)

/-- **the condition on a re-cased range** (decidable on the tables): every rune of `a` is case-equal to
    a rune of `b` and vice versa, i.e. the two ranges have the same closure under case partners. -/
def rangeCiEq (e : Env) (a b : Nat × Nat) : Bool :=
  (rangeRunes a).all (fun x => ciRanges e [b] x) && (rangeRunes b).all (fun y => ciRanges e [a] y)

/-- a range that was not changed needs no check (so that `decide` does not enumerate it) -/
def rangeOK (e : Env) (a b : Nat × Nat) : Bool := a == b || rangeCiEq e a b

def rangesOK (e : Env) (ch : Choice) : Nat → List (Nat × Nat) → Bool
  | _, [] => true
  | i, (lo, hi) :: rs =>
    rangeOK e (lo, hi) (recaseRune e (ch [i, 0]) lo, recaseRune e (ch [i, 1]) hi) && rangesOK e ch (i + 1) rs

def clsOK (e : Env) : Choice → Cls → Bool
  | ch, .base _ rs _ => rangesOK e ch 0 rs
  | ch, .diff a b => clsOK e (ch.sub 0) a && clsOK e (ch.sub 1) b

def predOK (e : Env) (ch : Choice) : Pred → Bool
  | .set cls true => clsOK e ch cls
  | _ => true

/-- every range of every ci class of `p` that `ch` re-cases keeps its closure under case partners;
    literals and single class members re-cased as a whole never need a check (`rangeOK_single`) -/
def recaseOK (e : Env) : Choice → Pat → Bool
  | _, .empty => true
  | _, .nothing => true
  | ch, .chr p => predOK e ch p
  | _, .anchor _ => true
  | ch, .seq a b => recaseOK e (ch.sub 0) a && recaseOK e (ch.sub 1) b
  | ch, .alt a b => recaseOK e (ch.sub 0) a && recaseOK e (ch.sub 1) b
  | ch, .quant _ _ _ body => recaseOK e (ch.sub 0) body
  | ch, .cap _ body => recaseOK e (ch.sub 0) body
  | ch, .look _ _ body => recaseOK e (ch.sub 0) body
  | ch, .atomic body => recaseOK e (ch.sub 0) body
  | _, .ref _ _ => true
  | ch, .refCond _ yes no => recaseOK e (ch.sub 0) yes && recaseOK e (ch.sub 1) no
  | ch, .exprCond c yes no => recaseOK e (ch.sub 0) c && recaseOK e (ch.sub 1) yes && recaseOK e (ch.sub 2) no

/-- the side condition of the re-casing theorems (decidable) -/
def RecaseOK (e : Env) (ch : Choice) (p : Pat) : Prop := recaseOK e ch p = true

instance (e : Env) (ch : Choice) (p : Pat) : Decidable (RecaseOK e ch p) := by unfold RecaseOK; infer_instance

/-! ## runes -/

theorem recaseRune_eqCi (e : Env) (b : Bool) (c : Nat) : e.eqCi c (recaseRune e b c) = true := by
  unfold recaseRune
  cases b with
  | false => exact eqCi_refl e c
  | true =>
    simp only [if_true]
    cases h : e.partner c with
    | none => exact eqCi_refl e c
    | some q => exact (eqCi_iff e c q).mpr (Or.inr h)

/-! ## ranges -/

theorem inRanges_single (lo hi x : Nat) : inRanges [(lo, hi)] x = true ↔ lo ≤ x ∧ x ≤ hi := by
  simp [inRanges]

theorem mem_rangeRunes (p : Nat × Nat) (x : Nat) : x ∈ rangeRunes p ↔ p.1 ≤ x ∧ x ≤ p.2 := by
  unfold rangeRunes
  rw [List.mem_range'_1]
  omega

theorem ciRanges_cons (e : Env) (p : Nat × Nat) (rs : List (Nat × Nat)) (r : Nat) :
    ciRanges e (p :: rs) r = (ciRanges e [p] r || ciRanges e rs r) := by
  unfold ciRanges
  have h : ∀ x, inRanges (p :: rs) x = (inRanges [p] x || inRanges rs x) := by
    intro x; simp [inRanges]
  cases hq : e.partner r with
  | none => simp only [h, Bool.or_false]
  | some q =>
    simp only [h]
    generalize inRanges [p] r = a
    generalize inRanges rs r = b
    generalize inRanges [p] q = c
    generalize inRanges rs q = d
    cases a <;> cases b <;> cases c <;> cases d <;> rfl

/-- one half of `rangeCiEq` -/
theorem ciRanges_single_mono {e : Env} (hf : FoldOK e) {a b : Nat × Nat}
    (h : (rangeRunes a).all (fun x => ciRanges e [b] x) = true) (r : Nat) :
    ciRanges e [a] r = true → ciRanges e [b] r = true := by
  rw [ciRanges_iff]
  intro ⟨x, hx, hin⟩
  rw [inRanges_single] at hin
  have hb := (List.all_eq_true.mp h) x ((mem_rangeRunes a x).mpr hin)
  rw [ciRanges_iff] at hb ⊢
  obtain ⟨y, hy, hyin⟩ := hb
  exact ⟨y, eqCi_trans hf hx hy, hyin⟩

/-- **soundness of the range condition**: ranges that pass `rangeCiEq` have the same ci closure -/
theorem rangeCiEq_sound {e : Env} (hf : FoldOK e) {a b : Nat × Nat} (h : rangeCiEq e a b = true) (r : Nat) :
    ciRanges e [b] r = ciRanges e [a] r := by
  unfold rangeCiEq at h
  rw [Bool.and_eq_true] at h
  rw [Bool.eq_iff_iff]
  exact ⟨ciRanges_single_mono hf h.2 r, ciRanges_single_mono hf h.1 r⟩

/-- **completeness of the range condition**: it holds whenever the two ranges have the same ci
    closure, so it is exactly the condition under which `[a]` and `[b]` are the same ci class -/
theorem rangeCiEq_complete (e : Env) {a b : Nat × Nat} (h : ∀ r, ciRanges e [b] r = ciRanges e [a] r) :
    rangeCiEq e a b = true := by
  unfold rangeCiEq
  rw [Bool.and_eq_true, List.all_eq_true, List.all_eq_true]
  constructor
  · intro x hx
    rw [mem_rangeRunes] at hx
    rw [h x, ciRanges_iff]
    exact ⟨x, eqCi_refl e x, (inRanges_single a.1 a.2 x).mpr hx⟩
  · intro y hy
    rw [mem_rangeRunes] at hy
    rw [← h y, ciRanges_iff]
    exact ⟨y, eqCi_refl e y, (inRanges_single b.1 b.2 y).mpr hy⟩

theorem rangeOK_sound {e : Env} (hf : FoldOK e) {a b : Nat × Nat} (h : rangeOK e a b = true) (r : Nat) :
    ciRanges e [b] r = ciRanges e [a] r := by
  unfold rangeOK at h
  rw [Bool.or_eq_true] at h
  rcases h with h | h
  · rw [beq_iff_eq] at h; subst h; rfl
  · exact rangeCiEq_sound hf h r

/-- a ci class with a single range is that range's ci closure (complemented when negated) -/
theorem cls_single_mem (e : Env) (neg : Bool) (a : Nat × Nat) (r : Nat) :
    (Cls.base neg [a] []).mem e true r = (ciRanges e [a] r != neg) := by
  unfold ciRanges
  simp only [Cls.mem, inNames, List.any_nil, Bool.or_false, Bool.true_and]
  cases e.partner r <;> rfl

/-- a single class member (or any range) re-cased as a whole: `(c, c)` ↦ `(c', c')` with `c'` case-equal
    to `c` always passes -/
theorem rangeCiEq_single {e : Env} (hf : FoldOK e) {c c' : Nat} (h : e.eqCi c c' = true) :
    rangeCiEq e (c, c) (c', c') = true := by
  unfold rangeCiEq
  rw [Bool.and_eq_true, List.all_eq_true, List.all_eq_true]
  constructor
  · intro x hx
    rw [mem_rangeRunes] at hx
    have : x = c := by simp only at hx; omega
    subst this
    rw [ciRanges_iff]
    exact ⟨c', h, (inRanges_single c' c' c').mpr ⟨Nat.le_refl _, Nat.le_refl _⟩⟩
  · intro y hy
    rw [mem_rangeRunes] at hy
    have : y = c' := by simp only at hy; omega
    subst this
    rw [ciRanges_iff]
    exact ⟨c, eqCi_symm hf h, (inRanges_single c c c).mpr ⟨Nat.le_refl _, Nat.le_refl _⟩⟩

/-- **both endpoints re-cased together, partner map a shift on the range** (`[A-Z]` ↦ `[a-z]`): when
    every rune `x` of `lo … hi` has the partner `x + d`, the range `lo+d … hi+d` passes -/
theorem rangeCiEq_shift_up {e : Env} (hf : FoldOK e) {lo hi d : Nat}
    (h : ∀ x, lo ≤ x → x ≤ hi → e.partner x = some (x + d)) :
    rangeCiEq e (lo, hi) (lo + d, hi + d) = true := by
  unfold rangeCiEq
  rw [Bool.and_eq_true, List.all_eq_true, List.all_eq_true]
  constructor
  · intro x hx
    rw [mem_rangeRunes] at hx
    simp only at hx
    rw [ciRanges_iff]
    exact ⟨x + d, (eqCi_iff e x (x + d)).mpr (Or.inr (h x hx.1 hx.2)),
      (inRanges_single _ _ _).mpr ⟨by omega, by omega⟩⟩
  · intro y hy
    rw [mem_rangeRunes] at hy
    simp only at hy
    rw [ciRanges_iff]
    have hp := h (y - d) (by omega) (by omega)
    have hyd : y - d + d = y := by omega
    rw [hyd] at hp
    exact ⟨y - d, (eqCi_iff e y (y - d)).mpr (Or.inr (hf.invol _ _ hp)),
      (inRanges_single _ _ _).mpr ⟨by omega, by omega⟩⟩

theorem rangeCiEq_symm (e : Env) (a b : Nat × Nat) : rangeCiEq e b a = rangeCiEq e a b := by
  unfold rangeCiEq
  rw [Bool.and_comm]

/-- the same downwards (`[a-z]` ↦ `[A-Z]`): every rune `x` of `lo … hi` has the partner `x - d` -/
theorem rangeCiEq_shift_down {e : Env} (hf : FoldOK e) {lo hi d : Nat} (hd : d ≤ lo) (hlh : lo ≤ hi)
    (h : ∀ x, lo ≤ x → x ≤ hi → e.partner x = some (x - d)) :
    rangeCiEq e (lo, hi) (lo - d, hi - d) = true := by
  rw [rangeCiEq_symm]
  have := rangeCiEq_shift_up hf (lo := lo - d) (hi := hi - d) (d := d) (by
    intro x h1 h2
    have hp := h (x + d) (by omega) (by omega)
    have hyd : x + d - d = x := by omega
    rw [hyd] at hp
    exact hf.invol _ _ hp)
  have e1 : lo - d + d = lo := by omega
  have e2 : hi - d + d = hi := by omega
  rw [e1, e2] at this
  exact this

/-- the ranges of one `Cls.base` -/
theorem recaseRanges_ciRanges {e : Env} (hf : FoldOK e) (ch : Choice) (rs : List (Nat × Nat)) :
    ∀ (i : Nat), rangesOK e ch i rs = true → ∀ r, ciRanges e (recaseRanges e ch i rs) r = ciRanges e rs r := by
  induction rs with
  | nil => intro i _ r; rfl
  | cons p rs ih =>
    intro i h r
    obtain ⟨lo, hi⟩ := p
    simp only [rangesOK, Bool.and_eq_true] at h
    simp only [recaseRanges]
    rw [ciRanges_cons, ciRanges_cons e (lo, hi), rangeOK_sound hf h.1 r, ih (i + 1) h.2 r]

/-! ## classes, tests, patterns -/

theorem recaseCls_mem {e : Env} (hf : FoldOK e) (c : Cls) :
    ∀ (ch : Choice), clsOK e ch c = true → ∀ r, (recaseCls e ch c).mem e true r = c.mem e true r := by
  induction c with
  | base neg rs ns =>
    intro ch h r
    simp only [clsOK] at h
    simp only [recaseCls]
    exact cls_base_ranges_congr e neg rs _ ns r (recaseRanges_ciRanges hf ch rs 0 h r)
  | diff a b iha ihb =>
    intro ch h r
    simp only [clsOK, Bool.and_eq_true] at h
    simp only [recaseCls]
    exact cls_diff_congr e true _ _ _ _ r (iha _ h.1 r) (ihb _ h.2 r)

theorem recasePred_test {e : Env} (hf : FoldOK e) (ch : Choice) (p : Pred) (h : predOK e ch p = true) (r : Nat) :
    (recasePred e ch p).test e r = p.test e r := by
  cases p with
  | one c ci =>
    cases ci with
    | false => rfl
    | true => exact pred_one_flip_pattern hf (recaseRune_eqCi e _ c) r
  | notone c ci =>
    cases ci with
    | false => rfl
    | true => exact pred_notone_flip_pattern hf (recaseRune_eqCi e _ c) r
  | set cls ci =>
    cases ci with
    | false => rfl
    | true =>
      simp only [predOK] at h
      simp only [recasePred, Pred.test]
      exact recaseCls_mem hf cls ch h r

/-- **the re-cased pattern has leaf-wise the same character tests** -/
theorem recase_patTestEq' {e : Env} (hf : FoldOK e) (p : Pat) :
    ∀ (ch : Choice), recaseOK e ch p = true → PatTestEq e p (recase e ch p) := by
  induction p with
  | empty => intro ch _; exact .empty
  | nothing => intro ch _; exact .nothing
  | chr p => intro ch h; exact .chr (recasePred_test hf ch p h)
  | anchor a => intro ch _; exact .anchor a
  | seq a b iha ihb =>
    intro ch h
    simp only [recaseOK, Bool.and_eq_true] at h
    exact .seq (iha _ h.1) (ihb _ h.2)
  | alt a b iha ihb =>
    intro ch h
    simp only [recaseOK, Bool.and_eq_true] at h
    exact .alt (iha _ h.1) (ihb _ h.2)
  | quant lzy lo hi body ih => intro ch h; exact .quant lzy lo hi (ih _ h)
  | cap g body ih => intro ch h; exact .cap g (ih _ h)
  | look behind neg body ih => intro ch h; exact .look behind neg (ih _ h)
  | atomic body ih => intro ch h; exact .atomic (ih _ h)
  | ref g ci => intro ch _; exact .ref g ci
  | refCond g yes no ihy ihn =>
    intro ch h
    simp only [recaseOK, Bool.and_eq_true] at h
    exact .refCond g (ihy _ h.1) (ihn _ h.2)
  | exprCond c yes no ihc ihy ihn =>
    intro ch h
    simp only [recaseOK, Bool.and_eq_true] at h
    exact .exprCond (ihc _ h.1.1) (ihy _ h.1.2) (ihn _ h.2)

/-- re-casing keeps `AllCi` -/
theorem recase_allCi (e : Env) (p : Pat) : ∀ (ch : Choice), (recase e ch p).allCi = p.allCi := by
  induction p with
  | chr p =>
    intro ch
    simp only [recase, Pat.allCi]
    cases p with
    | one c ci => cases ci <;> rfl
    | notone c ci => cases ci <;> rfl
    | set cls ci => cases ci <;> rfl
  | seq a b iha ihb => intro ch; simp only [recase, Pat.allCi, iha, ihb]
  | alt a b iha ihb => intro ch; simp only [recase, Pat.allCi, iha, ihb]
  | quant lzy lo hi body ih => intro ch; simp only [recase, Pat.allCi, ih]
  | cap g body ih => intro ch; simp only [recase, Pat.allCi, ih]
  | look behind neg body ih => intro ch; simp only [recase, Pat.allCi, ih]
  | atomic body ih => intro ch; simp only [recase, Pat.allCi, ih]
  | refCond g yes no ihy ihn => intro ch; simp only [recase, Pat.allCi, ihy, ihn]
  | exprCond c yes no ihc ihy ihn => intro ch; simp only [recase, Pat.allCi, ihc, ihy, ihn]
  | _ => intro ch; rfl

/-! ## `recase` covers every leaf-by-leaf re-casing -/

/-- `c'` is `c` or its simple case partner -/
def RuneRecased (e : Env) (c c' : Nat) : Prop := c' = c ∨ e.partner c = some c'

inductive RangesRecased (e : Env) : List (Nat × Nat) → List (Nat × Nat) → Prop
  | nil : RangesRecased e [] []
  | cons {lo hi lo' hi' : Nat} {rs rs' : List (Nat × Nat)} :
      RuneRecased e lo lo' → RuneRecased e hi hi' → RangesRecased e rs rs' →
      RangesRecased e ((lo, hi) :: rs) ((lo', hi') :: rs')

inductive ClsRecased (e : Env) : Cls → Cls → Prop
  | base (neg : Bool) (ns : List (Nat × Bool)) {rs rs' : List (Nat × Nat)} :
      RangesRecased e rs rs' → ClsRecased e (.base neg rs ns) (.base neg rs' ns)
  | diff {a a' b b' : Cls} : ClsRecased e a a' → ClsRecased e b b' → ClsRecased e (.diff a b) (.diff a' b')

inductive PredRecased (e : Env) : Pred → Pred → Prop
  | one {c c' : Nat} : RuneRecased e c c' → PredRecased e (.one c true) (.one c' true)
  | notone {c c' : Nat} : RuneRecased e c c' → PredRecased e (.notone c true) (.notone c' true)
  | set {cls cls' : Cls} : ClsRecased e cls cls' → PredRecased e (.set cls true) (.set cls' true)
  | same (p : Pred) : PredRecased e p p

/-- **`p'` is a re-casing of `p`**, stated without a choice function: same shape, and every letter of
    a case-insensitive test — literal, negated literal, each range endpoint of a class — is, each
    occurrence on its own, the original rune or its simple case partner -/
inductive Recased (e : Env) : Pat → Pat → Prop
  | empty : Recased e .empty .empty
  | nothing : Recased e .nothing .nothing
  | chr {p p' : Pred} : PredRecased e p p' → Recased e (.chr p) (.chr p')
  | anchor (a : Anchor) : Recased e (.anchor a) (.anchor a)
  | seq {a a' b b' : Pat} : Recased e a a' → Recased e b b' → Recased e (.seq a b) (.seq a' b')
  | alt {a a' b b' : Pat} : Recased e a a' → Recased e b b' → Recased e (.alt a b) (.alt a' b')
  | quant (lzy : Bool) (lo : Nat) (hi : Option Nat) {b b' : Pat} :
      Recased e b b' → Recased e (.quant lzy lo hi b) (.quant lzy lo hi b')
  | cap (g : Nat) {b b' : Pat} : Recased e b b' → Recased e (.cap g b) (.cap g b')
  | look (behind neg : Bool) {b b' : Pat} : Recased e b b' → Recased e (.look behind neg b) (.look behind neg b')
  | atomic {b b' : Pat} : Recased e b b' → Recased e (.atomic b) (.atomic b')
  | ref (g : Nat) (ci : Bool) : Recased e (.ref g ci) (.ref g ci)
  | refCond (g : Nat) {y y' n n' : Pat} :
      Recased e y y' → Recased e n n' → Recased e (.refCond g y n) (.refCond g y' n')
  | exprCond {c c' y y' n n' : Pat} :
      Recased e c c' → Recased e y y' → Recased e n n' → Recased e (.exprCond c y n) (.exprCond c' y' n')

theorem recaseRune_recased (e : Env) (b : Bool) (c : Nat) : RuneRecased e c (recaseRune e b c) := by
  unfold recaseRune RuneRecased
  cases b with
  | false => exact Or.inl rfl
  | true =>
    simp only [if_true]
    cases h : e.partner c with
    | none => exact Or.inl rfl
    | some q => exact Or.inr rfl

theorem RuneRecased.bit {e : Env} {c c' : Nat} (h : RuneRecased e c c') : ∃ b, c' = recaseRune e b c := by
  rcases h with h | h
  · exact ⟨false, h⟩
  · exact ⟨true, by simp [recaseRune, h]⟩

/-- choice functions glued from the choice functions of the children -/
def Choice.join (f : Nat → Choice) : Choice
  | [] => false
  | i :: path => f i path

theorem Choice.join_sub (f : Nat → Choice) (i : Nat) : (Choice.join f).sub i = f i := rfl

theorem recaseRanges_recased (e : Env) (ch : Choice) (rs : List (Nat × Nat)) :
    ∀ i, RangesRecased e rs (recaseRanges e ch i rs) := by
  induction rs with
  | nil => intro i; exact .nil
  | cons p rs ih =>
    intro i
    obtain ⟨lo, hi⟩ := p
    exact .cons (recaseRune_recased ..) (recaseRune_recased ..) (ih (i + 1))

theorem recaseRanges_congr (e : Env) (ch ch' : Choice) (rs : List (Nat × Nat)) :
    ∀ i, (∀ j k, i ≤ j → ch [j, k] = ch' [j, k]) → recaseRanges e ch i rs = recaseRanges e ch' i rs := by
  induction rs with
  | nil => intro i _; rfl
  | cons p rs ih =>
    intro i h
    obtain ⟨lo, hi⟩ := p
    simp only [recaseRanges]
    rw [h i 0 (Nat.le_refl _), h i 1 (Nat.le_refl _), ih (i + 1) (fun j k hj => h j k (by omega))]

theorem RangesRecased.choice {e : Env} {rs rs' : List (Nat × Nat)} (h : RangesRecased e rs rs') :
    ∀ i, ∃ ch : Choice, rs' = recaseRanges e ch i rs := by
  induction h with
  | nil => intro i; exact ⟨fun _ => false, rfl⟩
  | @cons lo hi lo' hi' rs rs' hlo hhi _ ih =>
    intro i
    obtain ⟨ch', hch'⟩ := ih (i + 1)
    obtain ⟨b0, hb0⟩ := hlo.bit
    obtain ⟨b1, hb1⟩ := hhi.bit
    refine ⟨fun path => if path = [i, 0] then b0 else if path = [i, 1] then b1 else ch' path, ?_⟩
    simp only [recaseRanges]
    rw [recaseRanges_congr e _ ch' rs (i + 1) (by
      intro j k hj
      have h0 : ¬ ([j, k] = [i, 0]) := by simp; omega
      have h1 : ¬ ([j, k] = [i, 1]) := by simp; omega
      simp only [h0, h1, if_false])]
    simp [← hch', ← hb0, ← hb1]

theorem recaseCls_recased (e : Env) (c : Cls) : ∀ ch : Choice, ClsRecased e c (recaseCls e ch c) := by
  induction c with
  | base neg rs ns => intro ch; exact .base neg ns (recaseRanges_recased e ch rs 0)
  | diff a b iha ihb => intro ch; exact .diff (iha _) (ihb _)

theorem ClsRecased.choice {e : Env} {c c' : Cls} (h : ClsRecased e c c') : ∃ ch : Choice, c' = recaseCls e ch c := by
  induction h with
  | base neg ns hr =>
    obtain ⟨ch, hch⟩ := hr.choice 0
    exact ⟨ch, by simp only [recaseCls, hch]⟩
  | diff _ _ iha ihb =>
    obtain ⟨cha, ha⟩ := iha
    obtain ⟨chb, hb⟩ := ihb
    refine ⟨Choice.join (fun i => if i = 0 then cha else chb), ?_⟩
    simp only [recaseCls, Choice.join_sub]
    simp [← ha, ← hb]

theorem recasePred_recased (e : Env) (ch : Choice) (p : Pred) : PredRecased e p (recasePred e ch p) := by
  cases p with
  | one c ci =>
    cases ci with
    | false => exact .same _
    | true => exact .one (recaseRune_recased ..)
  | notone c ci =>
    cases ci with
    | false => exact .same _
    | true => exact .notone (recaseRune_recased ..)
  | set cls ci =>
    cases ci with
    | false => exact .same _
    | true => exact .set (recaseCls_recased e cls ch)

/-- the choice function that re-cases nothing -/
def Choice.none : Choice := fun _ => false

theorem Choice.none_sub (i : Nat) : Choice.none.sub i = Choice.none := rfl

theorem recaseRanges_none (e : Env) (rs : List (Nat × Nat)) : ∀ i, recaseRanges e Choice.none i rs = rs := by
  induction rs with
  | nil => intro i; rfl
  | cons p rs ih =>
    intro i
    obtain ⟨lo, hi⟩ := p
    simp only [recaseRanges, ih (i + 1)]
    rfl

theorem recaseCls_none (e : Env) (c : Cls) : recaseCls e Choice.none c = c := by
  induction c with
  | base neg rs ns => simp only [recaseCls, recaseRanges_none]
  | diff a b iha ihb => simp only [recaseCls, Choice.none_sub, iha, ihb]

theorem recasePred_none (e : Env) (p : Pred) : recasePred e Choice.none p = p := by
  cases p with
  | one c ci => cases ci <;> rfl
  | notone c ci => cases ci <;> rfl
  | set cls ci =>
    cases ci with
    | false => rfl
    | true => simp only [recasePred, recaseCls_none]

theorem PredRecased.choice {e : Env} {p p' : Pred} (h : PredRecased e p p') : ∃ ch : Choice, p' = recasePred e ch p := by
  cases h with
  | one hc =>
    obtain ⟨b, hb⟩ := hc.bit
    exact ⟨fun _ => b, by simp only [recasePred, hb]⟩
  | notone hc =>
    obtain ⟨b, hb⟩ := hc.bit
    exact ⟨fun _ => b, by simp only [recasePred, hb]⟩
  | set hc =>
    obtain ⟨ch, hch⟩ := hc.choice
    exact ⟨ch, by simp only [recasePred, hch]⟩
  | same p => exact ⟨Choice.none, (recasePred_none e p).symm⟩

theorem recase_recased (e : Env) (p : Pat) : ∀ ch : Choice, Recased e p (recase e ch p) := by
  induction p with
  | empty => intro ch; exact .empty
  | nothing => intro ch; exact .nothing
  | chr p => intro ch; exact .chr (recasePred_recased e ch p)
  | anchor a => intro ch; exact .anchor a
  | seq a b iha ihb => intro ch; exact .seq (iha _) (ihb _)
  | alt a b iha ihb => intro ch; exact .alt (iha _) (ihb _)
  | quant lzy lo hi body ih => intro ch; exact .quant lzy lo hi (ih _)
  | cap g body ih => intro ch; exact .cap g (ih _)
  | look behind neg body ih => intro ch; exact .look behind neg (ih _)
  | atomic body ih => intro ch; exact .atomic (ih _)
  | ref g ci => intro ch; exact .ref g ci
  | refCond g yes no ihy ihn => intro ch; exact .refCond g (ihy _) (ihn _)
  | exprCond c yes no ihc ihy ihn => intro ch; exact .exprCond (ihc _) (ihy _) (ihn _)

theorem Recased.choice {e : Env} {p p' : Pat} (h : Recased e p p') : ∃ ch : Choice, p' = recase e ch p := by
  induction h with
  | empty => exact ⟨Choice.none, rfl⟩
  | nothing => exact ⟨Choice.none, rfl⟩
  | chr hp =>
    obtain ⟨ch, hch⟩ := hp.choice
    exact ⟨ch, by simp only [recase, hch]⟩
  | anchor a => exact ⟨Choice.none, rfl⟩
  | seq _ _ iha ihb =>
    obtain ⟨cha, ha⟩ := iha
    obtain ⟨chb, hb⟩ := ihb
    refine ⟨Choice.join (fun i => if i = 0 then cha else chb), ?_⟩
    simp only [recase, Choice.join_sub]
    simp [← ha, ← hb]
  | alt _ _ iha ihb =>
    obtain ⟨cha, ha⟩ := iha
    obtain ⟨chb, hb⟩ := ihb
    refine ⟨Choice.join (fun i => if i = 0 then cha else chb), ?_⟩
    simp only [recase, Choice.join_sub]
    simp [← ha, ← hb]
  | quant lzy lo hi _ ih =>
    obtain ⟨ch, hch⟩ := ih
    exact ⟨Choice.join (fun _ => ch), by simp only [recase, Choice.join_sub, ← hch]⟩
  | cap g _ ih =>
    obtain ⟨ch, hch⟩ := ih
    exact ⟨Choice.join (fun _ => ch), by simp only [recase, Choice.join_sub, ← hch]⟩
  | look behind neg _ ih =>
    obtain ⟨ch, hch⟩ := ih
    exact ⟨Choice.join (fun _ => ch), by simp only [recase, Choice.join_sub, ← hch]⟩
  | atomic _ ih =>
    obtain ⟨ch, hch⟩ := ih
    exact ⟨Choice.join (fun _ => ch), by simp only [recase, Choice.join_sub, ← hch]⟩
  | ref g ci => exact ⟨Choice.none, rfl⟩
  | refCond g _ _ ihy ihn =>
    obtain ⟨cha, ha⟩ := ihy
    obtain ⟨chb, hb⟩ := ihn
    refine ⟨Choice.join (fun i => if i = 0 then cha else chb), ?_⟩
    simp only [recase, Choice.join_sub]
    simp [← ha, ← hb]
  | exprCond _ _ _ ihc ihy ihn =>
    obtain ⟨chc, hc⟩ := ihc
    obtain ⟨cha, ha⟩ := ihy
    obtain ⟨chb, hb⟩ := ihn
    refine ⟨Choice.join (fun i => if i = 0 then chc else if i = 1 then cha else chb), ?_⟩
    simp only [recase, Choice.join_sub]
    simp [← hc, ← ha, ← hb]

/-- **`recase` covers exactly the leaf-by-leaf re-casings** -/
theorem recased_iff_recase' (e : Env) (p p' : Pat) : Recased e p p' ↔ ∃ ch : Choice, p' = recase e ch p :=
  ⟨Recased.choice, fun ⟨ch, h⟩ => h ▸ recase_recased e p ch⟩

/-! ## literals and single class members need no table condition -/

/-- the two endpoint bits of every range agree: ranges are re-cased as a whole or not at all -/
def Choice.Paired (ch : Choice) : Prop := ∀ (pre : List Nat) (i : Nat), ch (pre ++ [i, 0]) = ch (pre ++ [i, 1])

theorem Choice.Paired.sub {ch : Choice} (h : ch.Paired) (k : Nat) : (ch.sub k).Paired :=
  fun pre i => h (k :: pre) i

/-- every range of every ci class is a single member `(c, c)` -/
def Cls.onlyMembers : Cls → Bool
  | .base _ rs _ => rs.all (fun p => p.1 == p.2)
  | .diff a b => a.onlyMembers && b.onlyMembers

def Pred.onlyMembers : Pred → Bool
  | .set cls true => cls.onlyMembers
  | _ => true

def Pat.onlyMembers : Pat → Bool
  | .empty => true
  | .nothing => true
  | .chr p => p.onlyMembers
  | .anchor _ => true
  | .seq a b => a.onlyMembers && b.onlyMembers
  | .alt a b => a.onlyMembers && b.onlyMembers
  | .quant _ _ _ body => body.onlyMembers
  | .cap _ body => body.onlyMembers
  | .look _ _ body => body.onlyMembers
  | .atomic body => body.onlyMembers
  | .ref _ _ => true
  | .refCond _ yes no => yes.onlyMembers && no.onlyMembers
  | .exprCond c yes no => c.onlyMembers && yes.onlyMembers && no.onlyMembers

theorem rangeOK_member {e : Env} (hf : FoldOK e) (b : Bool) (c : Nat) :
    rangeOK e (c, c) (recaseRune e b c, recaseRune e b c) = true := by
  unfold rangeOK
  rw [rangeCiEq_single hf (recaseRune_eqCi e b c)]
  exact Bool.or_true _

theorem rangesOK_members {e : Env} (hf : FoldOK e) {ch : Choice} (hch : ch.Paired) (rs : List (Nat × Nat))
    (h : rs.all (fun p => p.1 == p.2) = true) : ∀ i, rangesOK e ch i rs = true := by
  induction rs with
  | nil => intro i; rfl
  | cons p rs ih =>
    intro i
    obtain ⟨lo, hi⟩ := p
    simp only [List.all_cons, Bool.and_eq_true, beq_iff_eq] at h
    obtain ⟨h1, h2⟩ := h
    subst h1
    have hb : ch [i, 0] = ch [i, 1] := hch [] i
    simp only [rangesOK, hb, rangeOK_member hf, ih h2 (i + 1), Bool.and_self]

theorem clsOK_members {e : Env} (hf : FoldOK e) (c : Cls) :
    ∀ {ch : Choice}, ch.Paired → c.onlyMembers = true → clsOK e ch c = true := by
  induction c with
  | base neg rs ns => intro ch hch h; exact rangesOK_members hf hch rs h 0
  | diff a b iha ihb =>
    intro ch hch h
    simp only [Cls.onlyMembers, Bool.and_eq_true] at h
    simp only [clsOK, iha (hch.sub 0) h.1, ihb (hch.sub 1) h.2, Bool.and_self]

theorem recaseOK_members {e : Env} (hf : FoldOK e) (p : Pat) :
    ∀ {ch : Choice}, ch.Paired → p.onlyMembers = true → recaseOK e ch p = true := by
  induction p with
  | empty => intro ch _ _; rfl
  | nothing => intro ch _ _; rfl
  | chr p =>
    intro ch hch h
    cases p with
    | one c ci => rfl
    | notone c ci => rfl
    | set cls ci =>
      cases ci with
      | false => rfl
      | true => exact clsOK_members hf cls hch h
  | anchor a => intro ch _ _; rfl
  | seq a b iha ihb =>
    intro ch hch h
    simp only [Pat.onlyMembers, Bool.and_eq_true] at h
    simp only [recaseOK, iha (hch.sub 0) h.1, ihb (hch.sub 1) h.2, Bool.and_self]
  | alt a b iha ihb =>
    intro ch hch h
    simp only [Pat.onlyMembers, Bool.and_eq_true] at h
    simp only [recaseOK, iha (hch.sub 0) h.1, ihb (hch.sub 1) h.2, Bool.and_self]
  | quant lzy lo hi body ih => intro ch hch h; exact ih (hch.sub 0) h
  | cap g body ih => intro ch hch h; exact ih (hch.sub 0) h
  | look behind neg body ih => intro ch hch h; exact ih (hch.sub 0) h
  | atomic body ih => intro ch hch h; exact ih (hch.sub 0) h
  | ref g ci => intro ch _ _; rfl
  | refCond g yes no ihy ihn =>
    intro ch hch h
    simp only [Pat.onlyMembers, Bool.and_eq_true] at h
    simp only [recaseOK, ihy (hch.sub 0) h.1, ihn (hch.sub 1) h.2, Bool.and_self]
  | exprCond c yes no ihc ihy ihn =>
    intro ch hch h
    simp only [Pat.onlyMembers, Bool.and_eq_true] at h
    simp only [recaseOK, ihc (hch.sub 0) h.1.1, ihy (hch.sub 1) h.1.2, ihn (hch.sub 2) h.2, Bool.and_self]

end RegexVerif.Spec

/-! ## a concrete instance for the non-vacuity examples: letters a/A b/B c/C x/X -/
namespace RegexVerif.Spec.RecaseDemo
open RegexVerif.Spec

def env (text : List Nat) : Env :=
  { text := text, textstart := 0, named := [], word := [97, 98, 99, 120, 65, 66, 67, 88, 95],
    fold := [(97, 65), (65, 97), (98, 66), (66, 98), (99, 67), (67, 99), (120, 88), (88, 120)] }

theorem foldOK (text : List Nat) : FoldOK (env text) := foldOK_of_check rfl

/-- `(?i)[a-c-[b]]x` -/
def pat : Pat :=
  .seq (.chr (.set (.diff (.base false [(97, 99)] []) (.base false [(98, 98)] [])) true)) (.chr (.one 120 true))

/-- `(?i)[A-C-[B]]X` -/
def patUpper : Pat :=
  .seq (.chr (.set (.diff (.base false [(65, 67)] []) (.base false [(66, 66)] [])) true)) (.chr (.one 88 true))

/-- `(?i)[A-c-[b]]x` : only the lower endpoint of the range re-cased -/
def patMixed : Pat :=
  .seq (.chr (.set (.diff (.base false [(65, 99)] []) (.base false [(98, 98)] [])) true)) (.chr (.one 120 true))

/-- re-case every letter -/
def all : Choice := fun _ => true

/-- re-case only the lower endpoint of range 0 of the left operand of the subtraction in the first
    element of the concatenation (path `[0, 0]`, then `[0, 0]` = range 0, lower endpoint) -/
def loOnly : Choice := fun path => path == [0, 0, 0, 0]

/-- `(?i)[^a-b]+` and `(?i)[^A-B]+` -/
def negPat : Pat := .quant false 1 none (.chr (.set (.base true [(97, 98)] []) true))
def negPatUpper : Pat := .quant false 1 none (.chr (.set (.base true [(65, 66)] []) true))

/-- "Ax", "bx", "_x", "xCaB" -/
def tAx : List Nat := [65, 120]
def tbx : List Nat := [98, 120]
def tUx : List Nat := [95, 120]
def tNeg : List Nat := [120, 67, 97, 66]
def tNeg' : List Nat := [88, 99, 65, 98]

end RegexVerif.Spec.RecaseDemo
