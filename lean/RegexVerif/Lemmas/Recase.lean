/-
Helper lemmas for C20, pattern side: the re-cased pattern `Spec.recase e ch p` (Model/Recase.lean) has
leaf-wise the same character tests as `p` (`PatTestEq`) when every re-cased *range* keeps its closure
under case partners (`RecaseOK`, a decidable condition on the fold table).
-/
import RegexVerif.Model.Recase
import RegexVerif.Lemmas.SpecFlip

namespace RegexVerif.Spec

/-! ## definitions -/

/-- the runes `lo … hi` -/
def rangeRunes (p : Nat × Nat) : List Nat := List.range' p.1 (p.2 + 1 - p.1)

/-- **the condition on a re-cased range** (decidable on the tables): every rune of `a` is case-equal to
    a rune of `b` and vice versa, i.e. the two ranges have the same closure under case partners. -/
def rangeCiEq (e : Env) (a b : Nat × Nat) : Bool :=
  (rangeRunes a).all (fun x => ciRanges e [b] x) && (rangeRunes b).all (fun y => ciRanges e [a] y)

/-- a range that was not changed needs no check (so that `decide` does not enumerate it) -/
def rangeOK (e : Env) (a b : Nat × Nat) : Bool := a == b || rangeCiEq e a b

def rangesOK (e : Env) (ch : Choice) : Nat → List (Nat × Nat) → Bool
  | _, [] => true
  | i, (lo, hi) :: rs =>
    rangeOK e (lo, hi) (recaseRune e (ch [i, 0]) lo, recaseRune e (ch [i, 1]) hi) && rangesOK e ch (i + 1) rs

def clsOK (e : Env) : Choice → Cls → Bool
  | ch, .base _ rs _ => rangesOK e ch 0 rs
  | ch, .diff a b => clsOK e (ch.sub 0) a && clsOK e (ch.sub 1) b

def predOK (e : Env) (ch : Choice) : Pred → Bool
  | .set cls true => clsOK e ch cls
  | _ => true

/-- every range of every ci class of `p` that `ch` re-cases keeps its closure under case partners;
    literals and single class members re-cased as a whole never need a check (`rangeOK_single`) -/
def recaseOK (e : Env) : Choice → Pat → Bool
  | _, .empty => true
  | _, .nothing => true
  | ch, .chr p => predOK e ch p
  | _, .anchor _ => true
  | ch, .seq a b => recaseOK e (ch.sub 0) a && recaseOK e (ch.sub 1) b
  | ch, .alt a b => recaseOK e (ch.sub 0) a && recaseOK e (ch.sub 1) b
  | ch, .quant _ _ _ body => recaseOK e (ch.sub 0) body
  | ch, .cap _ body => recaseOK e (ch.sub 0) body
  | ch, .look _ _ body => recaseOK e (ch.sub 0) body
  | ch, .atomic body => recaseOK e (ch.sub 0) body
  | _, .ref _ _ => true
  | ch, .refCond _ yes no => recaseOK e (ch.sub 0) yes && recaseOK e (ch.sub 1) no
  | ch, .exprCond c yes no => recaseOK e (ch.sub 0) c && recaseOK e (ch.sub 1) yes && recaseOK e (ch.sub 2) no

/-- the side condition of the re-casing theorems (decidable) -/
def RecaseOK (e : Env) (ch : Choice) (p : Pat) : Prop := recaseOK e ch p = true

instance (e : Env) (ch : Choice) (p : Pat) : Decidable (RecaseOK e ch p) := by unfold RecaseOK; infer_instance

/-! ## runes -/

theorem recaseRune_eqCi (e : Env) (b : Bool) (c : Nat) : e.eqCi c (recaseRune e b c) = true := by
  unfold recaseRune
  cases b with
  | false => exact eqCi_refl e c
  | true =>
    simp only [if_true]
    cases h : e.partner c with
    | none => exact eqCi_refl e c
    | some q => exact (eqCi_iff e c q).mpr (Or.inr h)

/-! ## ranges -/

theorem inRanges_single (lo hi x : Nat) : inRanges [(lo, hi)] x = true ↔ lo ≤ x ∧ x ≤ hi := by
  simp [inRanges]

theorem mem_rangeRunes (p : Nat × Nat) (x : Nat) : x ∈ rangeRunes p ↔ p.1 ≤ x ∧ x ≤ p.2 := by
  unfold rangeRunes
  rw [List.mem_range'_1]
  omega

theorem ciRanges_cons (e : Env) (p : Nat × Nat) (rs : List (Nat × Nat)) (r : Nat) :
    ciRanges e (p :: rs) r = (ciRanges e [p] r || ciRanges e rs r) := by
  unfold ciRanges
  have h : ∀ x, inRanges (p :: rs) x = (inRanges [p] x || inRanges rs x) := by
    intro x; simp [inRanges]
  cases hq : e.partner r with
  | none => simp only [h, Bool.or_false]
  | some q =>
    simp only [h]
    generalize inRanges [p] r = a
    generalize inRanges rs r = b
    generalize inRanges [p] q = c
    generalize inRanges rs q = d
    cases a <;> cases b <;> cases c <;> cases d <;> rfl

/-- one half of `rangeCiEq` -/
theorem ciRanges_single_mono {e : Env} (hf : FoldOK e) {a b : Nat × Nat}
    (h : (rangeRunes a).all (fun x => ciRanges e [b] x) = true) (r : Nat) :
    ciRanges e [a] r = true → ciRanges e [b] r = true := by
  rw [ciRanges_iff]
  intro ⟨x, hx, hin⟩
  rw [inRanges_single] at hin
  have hb := (List.all_eq_true.mp h) x ((mem_rangeRunes a x).mpr hin)
  rw [ciRanges_iff] at hb ⊢
  obtain ⟨y, hy, hyin⟩ := hb
  exact ⟨y, eqCi_trans hf hx hy, hyin⟩

/-- **soundness of the range condition**: ranges that pass `rangeCiEq` have the same ci closure -/
theorem rangeCiEq_sound {e : Env} (hf : FoldOK e) {a b : Nat × Nat} (h : rangeCiEq e a b = true) (r : Nat) :
    ciRanges e [b] r = ciRanges e [a] r := by
  unfold rangeCiEq at h
  rw [Bool.and_eq_true] at h
  rw [Bool.eq_iff_iff]
  exact ⟨ciRanges_single_mono hf h.2 r, ciRanges_single_mono hf h.1 r⟩

/-- **completeness of the range condition**: it holds whenever the two ranges have the same ci
    closure, so it is exactly the condition under which `[a]` and `[b]` are the same ci class -/
theorem rangeCiEq_complete (e : Env) {a b : Nat × Nat} (h : ∀ r, ciRanges e [b] r = ciRanges e [a] r) :
    rangeCiEq e a b = true := by
  unfold rangeCiEq
  rw [Bool.and_eq_true, List.all_eq_true, List.all_eq_true]
  constructor
  · intro x hx
    rw [mem_rangeRunes] at hx
    rw [h x, ciRanges_iff]
    exact ⟨x, eqCi_refl e x, (inRanges_single a.1 a.2 x).mpr hx⟩
  · intro y hy
    rw [mem_rangeRunes] at hy
    rw [← h y, ciRanges_iff]
    exact ⟨y, eqCi_refl e y, (inRanges_single b.1 b.2 y).mpr hy⟩

theorem rangeOK_sound {e : Env} (hf : FoldOK e) {a b : Nat × Nat} (h : rangeOK e a b = true) (r : Nat) :
    ciRanges e [b] r = ciRanges e [a] r := by
  unfold rangeOK at h
  rw [Bool.or_eq_true] at h
  rcases h with h | h
  · rw [beq_iff_eq] at h; subst h; rfl
  · exact rangeCiEq_sound hf h r

/-- a ci class with a single range is that range's ci closure (complemented when negated) -/
theorem cls_single_mem (e : Env) (neg : Bool) (a : Nat × Nat) (r : Nat) :
    (Cls.base neg [a] []).mem e true r = (ciRanges e [a] r != neg) := by
  unfold ciRanges
  simp only [Cls.mem, inNames, List.any_nil, Bool.or_false, Bool.true_and]
  cases e.partner r <;> rfl

/-- a single class member (or any range) re-cased as a whole: `(c, c)` ↦ `(c', c')` with `c'` case-equal
    to `c` always passes -/
theorem rangeCiEq_single {e : Env} (hf : FoldOK e) {c c' : Nat} (h : e.eqCi c c' = true) :
    rangeCiEq e (c, c) (c', c') = true := by
  unfold rangeCiEq
  rw [Bool.and_eq_true, List.all_eq_true, List.all_eq_true]
  constructor
  · intro x hx
    rw [mem_rangeRunes] at hx
    have : x = c := by simp only at hx; omega
    subst this
    rw [ciRanges_iff]
    exact ⟨c', h, (inRanges_single c' c' c').mpr ⟨Nat.le_refl _, Nat.le_refl _⟩⟩
  · intro y hy
    rw [mem_rangeRunes] at hy
    have : y = c' := by simp only at hy; omega
    subst this
    rw [ciRanges_iff]
    exact ⟨c, eqCi_symm hf h, (inRanges_single c c c).mpr ⟨Nat.le_refl _, Nat.le_refl _⟩⟩

/-- **both endpoints re-cased together, partner map a shift on the range** (`[A-Z]` ↦ `[a-z]`): when
    every rune `x` of `lo … hi` has the partner `x + d`, the range `lo+d … hi+d` passes -/
theorem rangeCiEq_shift_up {e : Env} (hf : FoldOK e) {lo hi d : Nat}
    (h : ∀ x, lo ≤ x → x ≤ hi → e.partner x = some (x + d)) :
    rangeCiEq e (lo, hi) (lo + d, hi + d) = true := by
  unfold rangeCiEq
  rw [Bool.and_eq_true, List.all_eq_true, List.all_eq_true]
  constructor
  · intro x hx
    rw [mem_rangeRunes] at hx
    simp only at hx
    rw [ciRanges_iff]
    exact ⟨x + d, (eqCi_iff e x (x + d)).mpr (Or.inr (h x hx.1 hx.2)),
      (inRanges_single _ _ _).mpr ⟨by omega, by omega⟩⟩
  · intro y hy
    rw [mem_rangeRunes] at hy
    simp only at hy
    rw [ciRanges_iff]
    have hp := h (y - d) (by omega) (by omega)
    have hyd : y - d + d = y := by omega
    rw [hyd] at hp
    exact ⟨y - d, (eqCi_iff e y (y - d)).mpr (Or.inr (hf.invol _ _ hp)),
      (inRanges_single _ _ _).mpr ⟨by omega, by omega⟩⟩

theorem rangeCiEq_symm (e : Env) (a b : Nat × Nat) : rangeCiEq e b a = rangeCiEq e a b := by
  unfold rangeCiEq
  rw [Bool.and_comm]

/-- the same downwards (`[a-z]` ↦ `[A-Z]`): every rune `x` of `lo … hi` has the partner `x - d` -/
theorem rangeCiEq_shift_down {e : Env} (hf : FoldOK e) {lo hi d : Nat} (hd : d ≤ lo) (hlh : lo ≤ hi)
    (h : ∀ x, lo ≤ x → x ≤ hi → e.partner x = some (x - d)) :
    rangeCiEq e (lo, hi) (lo - d, hi - d) = true := by
  rw [rangeCiEq_symm]
  have := rangeCiEq_shift_up hf (lo := lo - d) (hi := hi - d) (d := d) (by
    intro x h1 h2
    have hp := h (x + d) (by omega) (by omega)
    have hyd : x + d - d = x := by omega
    rw [hyd] at hp
    exact hf.invol _ _ hp)
  have e1 : lo - d + d = lo := by omega
  have e2 : hi - d + d = hi := by omega
  rw [e1, e2] at this
  exact this

/-- the ranges of one `Cls.base` -/
theorem recaseRanges_ciRanges {e : Env} (hf : FoldOK e) (ch : Choice) (rs : List (Nat × Nat)) :
    ∀ (i : Nat), rangesOK e ch i rs = true → ∀ r, ciRanges e (recaseRanges e ch i rs) r = ciRanges e rs r := by
  induction rs with
  | nil => intro i _ r; rfl
  | cons p rs ih =>
    intro i h r
    obtain ⟨lo, hi⟩ := p
    simp only [rangesOK, Bool.and_eq_true] at h
    simp only [recaseRanges]
    rw [ciRanges_cons, ciRanges_cons e (lo, hi), rangeOK_sound hf h.1 r, ih (i + 1) h.2 r]

/-! ## classes, tests, patterns -/

theorem recaseCls_mem {e : Env} (hf : FoldOK e) (c : Cls) :
    ∀ (ch : Choice), clsOK e ch c = true → ∀ r, (recaseCls e ch c).mem e true r = c.mem e true r := by
  induction c with
  | base neg rs ns =>
    intro ch h r
    simp only [clsOK] at h
    simp only [recaseCls]
    exact cls_base_ranges_congr e neg rs _ ns r (recaseRanges_ciRanges hf ch rs 0 h r)
  | diff a b iha ihb =>
    intro ch h r
    simp only [clsOK, Bool.and_eq_true] at h
    simp only [recaseCls]
    exact cls_diff_congr e true _ _ _ _ r (iha _ h.1 r) (ihb _ h.2 r)

theorem recasePred_test {e : Env} (hf : FoldOK e) (ch : Choice) (p : Pred) (h : predOK e ch p = true) (r : Nat) :
    (recasePred e ch p).test e r = p.test e r := by
  cases p with
  | one c ci =>
    cases ci with
    | false => rfl
    | true => exact pred_one_flip_pattern hf (recaseRune_eqCi e _ c) r
  | notone c ci =>
    cases ci with
    | false => rfl
    | true => exact pred_notone_flip_pattern hf (recaseRune_eqCi e _ c) r
  | set cls ci =>
    cases ci with
    | false => rfl
    | true =>
      simp only [predOK] at h
      simp only [recasePred, Pred.test]
      exact recaseCls_mem hf cls ch h r

/-- **the re-cased pattern has leaf-wise the same character tests** -/
theorem recase_patTestEq' {e : Env} (hf : FoldOK e) (p : Pat) :
    ∀ (ch : Choice), recaseOK e ch p = true → PatTestEq e p (recase e ch p) := by
  induction p with
  | empty => intro ch _; exact .empty
  | nothing => intro ch _; exact .nothing
  | chr p => intro ch h; exact .chr (recasePred_test hf ch p h)
  | anchor a => intro ch _; exact .anchor a
  | seq a b iha ihb =>
    intro ch h
    simp only [recaseOK, Bool.and_eq_true] at h
    exact .seq (iha _ h.1) (ihb _ h.2)
  | alt a b iha ihb =>
    intro ch h
    simp only [recaseOK, Bool.and_eq_true] at h
    exact .alt (iha _ h.1) (ihb _ h.2)
  | quant lzy lo hi body ih => intro ch h; exact .quant lzy lo hi (ih _ h)
  | cap g body ih => intro ch h; exact .cap g (ih _ h)
  | look behind neg body ih => intro ch h; exact .look behind neg (ih _ h)
  | atomic body ih => intro ch h; exact .atomic (ih _ h)
  | ref g ci => intro ch _; exact .ref g ci
  | refCond g yes no ihy ihn =>
    intro ch h
    simp only [recaseOK, Bool.and_eq_true] at h
    exact .refCond g (ihy _ h.1) (ihn _ h.2)
  | exprCond c yes no ihc ihy ihn =>
    intro ch h
    simp only [recaseOK, Bool.and_eq_true] at h
    exact .exprCond (ihc _ h.1.1) (ihy _ h.1.2) (ihn _ h.2)

/-- re-casing keeps `AllCi` -/
theorem recase_allCi (e : Env) (p : Pat) : ∀ (ch : Choice), (recase e ch p).allCi = p.allCi := by
  induction p with
  | chr p =>
    intro ch
    simp only [recase, Pat.allCi]
    cases p with
    | one c ci => cases ci <;> rfl
    | notone c ci => cases ci <;> rfl
    | set cls ci => cases ci <;> rfl
  | seq a b iha ihb => intro ch; simp only [recase, Pat.allCi, iha, ihb]
  | alt a b iha ihb => intro ch; simp only [recase, Pat.allCi, iha, ihb]
  | quant lzy lo hi body ih => intro ch; simp only [recase, Pat.allCi, ih]
  | cap g body ih => intro ch; simp only [recase, Pat.allCi, ih]
  | look behind neg body ih => intro ch; simp only [recase, Pat.allCi, ih]
  | atomic body ih => intro ch; simp only [recase, Pat.allCi, ih]
  | refCond g yes no ihy ihn => intro ch; simp only [recase, Pat.allCi, ihy, ihn]
  | exprCond c yes no ihc ihy ihn => intro ch; simp only [recase, Pat.allCi, ihc, ihy, ihn]
  | _ => intro ch; rfl

end RegexVerif.Spec

/-! ## a concrete instance for the non-vacuity examples: letters a/A b/B c/C x/X -/
namespace RegexVerif.Spec.RecaseDemo
open RegexVerif.Spec

def env (text : List Nat) : Env :=
  { text := text, textstart := 0, named := [], word := [97, 98, 99, 120, 65, 66, 67, 88, 95],
    fold := [(97, 65), (65, 97), (98, 66), (66, 98), (99, 67), (67, 99), (120, 88), (88, 120)] }

theorem foldOK (text : List Nat) : FoldOK (env text) := foldOK_of_check rfl

/-- `(?i)[a-c-[b]]x` -/
def pat : Pat :=
  .seq (.chr (.set (.diff (.base false [(97, 99)] []) (.base false [(98, 98)] [])) true)) (.chr (.one 120 true))

/-- `(?i)[A-C-[B]]X` -/
def patUpper : Pat :=
  .seq (.chr (.set (.diff (.base false [(65, 67)] []) (.base false [(66, 66)] [])) true)) (.chr (.one 88 true))

/-- `(?i)[A-c-[b]]x` : only the lower endpoint of the range re-cased -/
def patMixed : Pat :=
  .seq (.chr (.set (.diff (.base false [(65, 99)] []) (.base false [(98, 98)] [])) true)) (.chr (.one 120 true))

/-- re-case every letter -/
def all : Choice := fun _ => true

/-- re-case only the lower endpoint of range 0 of the left operand of the subtraction in the first
    element of the concatenation (path `[0, 0]`, then `[0, 0]` = range 0, lower endpoint) -/
def loOnly : Choice := fun path => path == [0, 0, 0, 0]

/-- `(?i)[^a-b]+` and `(?i)[^A-B]+` -/
def negPat : Pat := .quant false 1 none (.chr (.set (.base true [(97, 98)] []) true))
def negPatUpper : Pat := .quant false 1 none (.chr (.set (.base true [(65, 66)] []) true))

/-- "Ax", "bx", "_x", "xCaB" -/
def tAx : List Nat := [65, 120]
def tbx : List Nat := [98, 120]
def tUx : List Nat := [95, 120]
def tNeg : List Nat := [120, 67, 97, 66]
def tNeg' : List Nat := [88, 99, 65, 98]

end RegexVerif.Spec.RecaseDemo
