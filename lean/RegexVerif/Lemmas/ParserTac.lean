/-
A syntax-directed symbolic-execution tactic for the parser model: `wp_run`.

`wp_step` looks at the head of the program in a goal `wp m Q R s`: if `m` is a call of a scanner `f`
that has a specification lemma (`scans_f`, `scansF_f` or `wp_f`, stating `Scans`, `ScansLt`, `ScansK`,
`ScansF` or `ScansBack`), the matching call rule is applied; if `m` is a local function `next` the
hypothesis `hnext : ∀ …, ScansF E a k p (next …)` is used; otherwise the `wp` equations are rewritten.
Nothing is unfolded by unification (the old `wp_callee` tried every specification on every goal).
-/
import Lean
import RegexVerif.Lemmas.ParserScan4

namespace RegexVerif.Parser

set_option hygiene false in
macro "wp_rule3 " r:ident c:term : tactic =>
  `(tactic| refine $r E (by apply $c <;> first | assumption | apply hsub | apply hnext | adv) (by adv) ?_ ?_)
set_option hygiene false in
macro "wp_rule4 " r:ident c:term : tactic =>
  `(tactic| refine $r E (by apply $c <;> first | assumption | apply hsub | apply hnext | adv) (by adv) (by adv) ?_ ?_)

open Lean Elab Tactic Meta in
/-- one step of symbolic execution on a goal `wp m Q R s` (see the file header) -/
elab "wp_step" : tactic => withMainContext do
  let goal ← getMainGoal
  let t ← instantiateMVars (← goal.getType)
  let t' := t.headBeta
  if t' != t then
    let g' ← goal.change t'
    replaceMainGoal [g']
    return
  unless t.isAppOfArity ``RegexVerif.Parser.wp 5 do throwError "wp_step: not a wp goal"
  let m := t.getAppArgs[1]!
  match m.getAppFn with
  | .const n _ =>
    if n == ``RegexVerif.Parser.ignoreErr then
      evalTactic (← `(tactic| apply wp_ignoreErr))
      return
    let pre := n.getPrefix
    let base := n.getString!
    let mut found : Option (Name × Name × Bool) := none
    for c in [Name.str pre ("scans_" ++ base), Name.str pre ("scansF_" ++ base), Name.str pre ("wp_" ++ base)] do
      if found.isNone then
        if let some ci := (← getEnv).find? c then
          match ci.type.getForallBody.getAppFn.constName? with
          | some ``RegexVerif.Parser.Scans => found := some (c, ``RegexVerif.Parser.wp_call, false)
          | some ``RegexVerif.Parser.ScansLt => found := some (c, ``RegexVerif.Parser.wp_call_lt, false)
          | some ``RegexVerif.Parser.ScansK => found := some (c, ``RegexVerif.Parser.wp_call_k, false)
          | some ``RegexVerif.Parser.ScansF => found := some (c, ``RegexVerif.Parser.wp_callF, true)
          | some ``RegexVerif.Parser.ScansBack => found := some (c, ``RegexVerif.Parser.wp_call_back, true)
          | _ => pure ()
    match found with
    | some (c, r, false) => evalTactic (← `(tactic| wp_rule3 $(mkIdent r) $(mkIdent c)))
    | some (c, r, true) => evalTactic (← `(tactic| wp_rule4 $(mkIdent r) $(mkIdent c)))
    | none => evalTactic (← `(tactic| wp_simp3))
  | .fvar id =>
    let nm ← id.getUserName
    let h := mkIdent (Name.mkSimple ("h" ++ nm.toString))
    evalTactic (← `(tactic| wp_rule4 wp_callF $h))
  | _ => evalTactic (← `(tactic| wp_simp3))

/-- close an `Adv` / `AdvF` goal or an arithmetic side goal from the facts in the context -/
syntax "advf2" : tactic
macro_rules
  | `(tactic| advf2) => `(tactic| first
      | trivial
      | omega
      | (refine ⟨?_, ?_, ?_, ?_⟩ <;> first
          | omega
          | (dsimp only at *; omega)
          | (simp only [PS.frame, Prod.mk.injEq, *, and_self]; done)
          | (intro hN; solve_by_elim)
          | ((try dsimp only [PS.frame] at *); simp_all; done)
          | (intro hN; (try dsimp only at *); simp_all; done))
      | (dsimp only at *; omega)
      | (refine ⟨?_, ?_, ?_, ?_, ?_⟩ <;> first
          | omega
          | (dsimp only at *; omega)
          | (simp only [*]; done)
          | ((try dsimp only at *); simp_all; done))
      | (refine ⟨?_, ?_, ?_⟩ <;> first
          | omega
          | (dsimp only at *; omega)
          | (intro hN; solve_by_elim)
          | (intro hN; (try dsimp only at *); simp_all; done))
      | adv)

/-- symbolic execution of a scanner body: split conjunctions, introduce (and reduce) hypotheses, step,
    split matches, close the leaves -/
syntax "wp_run" : tactic
macro_rules
  | `(tactic| wp_run) => `(tactic| repeat' (first
      | with_reducible apply And.intro
      | (intro h; try simp only [PS.frame, Prod.mk.injEq, decide_eq_true_eq, decide_eq_false_iff_not, beq_iff_eq, bne_iff_ne, Nat.add_zero] at h)
      | wp_step
      | split
      | advf2))

end RegexVerif.Parser
