/-
Helper lemmas for the interleaving model of makeDeadline (Model/ClockConc.lean, C14): the invariant
of the new variant (`Inv` = `CInv` for the clock + `GInv` for every call in flight), its
preservation by every step, and the lemmas about runs of a single goroutine.
-/
import RegexVerif.Model.ClockConc
import RegexVerif.Lemmas.Clock
set_option linter.unusedSimpArgs false
set_option linter.unusedVariables false
namespace RegexVerif.Lemmas.ClockConc
open RegexVerif.Clock hiding step run Event Reachable
open RegexVerif.ClockConc RegexVerif.Lemmas.Clock

/-- invariant of the clock: the clock part of `Lemmas.Clock.Inv` (this model keeps no `pending` list) -/
structure CInv (p : Params) (c : State) : Prop where
  lw_le : c.lastWrite ≤ c.now
  unstarted : c.started = false → c.current = 0 ∧ c.clockEnd = 0 ∧ c.running = false
  cur_eq : c.started = true → c.current = (c.lastWrite - c.startNs) / 1048576 ∧ c.startNs ≤ c.lastWrite
  progress : c.running = true → c.started = true ∧ c.now ≤ c.lastWrite + p.period + p.eps
  stopped : c.started = true → c.running = false → c.clockEnd < c.current

/-- invariant of one call in flight (new variant) -/
structure GInv (p : Params) (c : State) (stops : Nat) (g : G) : Prop where
  d_nonneg : 0 ≤ g.d
  d_le : g.d ≤ maxInt64
  t0_le : g.t0 ≤ c.now
  s0_le : g.s0 ≤ stops
  no_ext : g.pc ≠ .needExtend
  /-- after the read of clockEnd: `current` is fresh with respect to `t0`, or has passed what was read -/
  first : g.pc = .gotFirst → c.started = true →
    (g.t0 - p.period - p.eps - c.startNs) / 1048576 ≤ c.current ∨ g.ce < c.current
  /-- the returned `end` is not early -/
  early : g.pc = .done →
    (c.started = true → (g.t0 - c.startNs) + effDur p.period g.d - p.period - p.eps - 2097150 ≤ 1048576 * g.e) ∧
    (c.started = false → effDur p.period g.d - 1048575 ≤ 1048576 * g.e)
  covFirst : g.s0 = stops → g.pc = .gotFirst →
    g.ce ≤ c.clockEnd ∧ (c.running = true ∨ g.ce < c.current ∨ c.started = false)
  covDone : g.s0 = stops → g.pc = .done → g.e ≤ c.clockEnd ∧ (c.running = true ∨ g.e ≤ c.current)
  /-- the deadline was made after the call began, and not in the future -/
  made_ge : g.t0 ≤ g.tMade
  made_le : g.tMade ≤ c.now
  /-- the returned `end` is not late: reached already, or at most `effDur` after the time it was made -/
  within : g.pc = .done → c.started = true →
    g.e ≤ c.current ∨ 1048576 * g.e ≤ (g.tMade - c.startNs) + effDur p.period g.d
  withinUn : g.pc = .done → c.started = false → g.e ≤ 0
  firstUn : g.pc = .gotFirst → c.started = false → g.ce ≤ 0

structure Inv (p : Params) (s : CState) : Prop where
  clk : CInv p s.clk
  gs : ∀ g ∈ s.gs, GInv p s.clk s.stops g

/-- case split on `running`/`started` of clock `c`, normalise, linear arithmetic -/
local macro "clk_omega" c:term : tactic =>
  `(tactic| (
    cases hr : (State.running $c) <;> cases hst : (State.started $c) <;>
    simp only [hr, hst, refresh, extendClock, tick, stop, ticks_eq, Bool.not_true, Bool.not_false, Bool.and_true,
      Bool.and_false, Bool.false_and, Bool.true_and, Bool.false_eq_true, Bool.true_eq_false, if_true, if_false,
      ↓reduceIte, false_implies, true_implies, forall_const, reduceCtorEq, true_and, and_true, false_and, and_false,
      true_or, or_true, false_or, or_false, imp_self, not_true_eq_false, not_false_eq_true, decide_eq_true_eq,
      decide_eq_false_iff_not, imp_false, gt_iff_lt, ne_eq] at * <;>
    omega))

theorem cinv_init (p : Params) : CInv p State.init := by
  refine ⟨?_, ?_, ?_, ?_, ?_⟩ <;> simp [State.init]

/-! ### the clock invariant under each kind of step -/

/-- the locked section of the new variant: refresh, then extendClock with any `e` -/
theorem cinv_lock (p : Params) (hp : p.Valid) (c : State) (h : CInv p c) (e : Int) :
    CInv p (extendClock p (refresh c) e) := by
  obtain ⟨hp0, hp1, he0, hs0, hs1⟩ := hp
  obtain ⟨c1, c2, c3, c4, c5⟩ := h
  refine ⟨?_, ?_, ?_, ?_, ?_⟩ <;> clk_omega c

theorem cinv_tick (p : Params) (hp : p.Valid) (c : State) (dt : Int) (h : CInv p c)
    (hr : c.running = true) (h0 : 0 ≤ dt) (h1 : c.lastWrite + p.period ≤ c.now + dt) :
    CInv p (tick c dt) := by
  obtain ⟨hp0, hp1, he0, hs0, hs1⟩ := hp
  obtain ⟨c1, c2, c3, c4, c5⟩ := h
  refine ⟨?_, ?_, ?_, ?_, ?_⟩ <;> clk_omega c

theorem cinv_idle (p : Params) (c : State) (dt : Int) (h : CInv p c) (h0 : 0 ≤ dt)
    (h1 : c.running = true → c.now + dt ≤ c.lastWrite + p.period + p.eps) :
    CInv p { c with now := c.now + dt } := by
  obtain ⟨c1, c2, c3, c4, c5⟩ := h
  refine ⟨?_, ?_, ?_, ?_, ?_⟩ <;> clk_omega c

theorem cinv_stop (p : Params) (c : State) (h : CInv p c) : CInv p (stop c) := by
  obtain ⟨c1, c2, c3, c4, c5⟩ := h
  refine ⟨?_, ?_, ?_, ?_, ?_⟩ <;> clk_omega c

/-! ### the invariant of a call that does not move, under each kind of step of the others -/

theorem ginv_lock_frame (p : Params) (hp : p.Valid) (c : State) (n : Nat) (g : G) (h : CInv p c)
    (hg : GInv p c n g) (e : Int) : GInv p (extendClock p (refresh c) e) n g := by
  have hslop := slop_ticks_nonneg p hp
  rw [ticks_eq] at hslop
  obtain ⟨hp0, hp1, he0, hs0, hs1⟩ := hp
  obtain ⟨c1, c2, c3, c4, c5⟩ := h
  obtain ⟨g1, g2, g3, g4, g5, g6, g7, g8, g9, g10, g11, g12, g13, g14⟩ := hg
  refine ⟨g1, g2, ?_, g4, g5, ?_, ?_, ?_, ?_, g10, ?_, ?_, ?_, ?_⟩
  · clk_omega c
  · intro hpc; have := g6 hpc; clk_omega c
  · intro hpc; have := g7 hpc; clk_omega c
  · intro hs hpc; have := g8 hs hpc; clk_omega c
  · intro hs hpc; have := g9 hs hpc; clk_omega c
  · clk_omega c
  · intro hpc; have := g12 hpc; have := g13 hpc; clk_omega c
  · intro hpc; have := g13 hpc; clk_omega c
  · intro hpc; have := g14 hpc; clk_omega c

theorem ginv_tick (p : Params) (hp : p.Valid) (c : State) (n : Nat) (g : G) (dt : Int) (h : CInv p c)
    (hg : GInv p c n g) (hr : c.running = true) (h0 : 0 ≤ dt) : GInv p (tick c dt) n g := by
  obtain ⟨hp0, hp1, he0, hs0, hs1⟩ := hp
  obtain ⟨c1, c2, c3, c4, c5⟩ := h
  obtain ⟨g1, g2, g3, g4, g5, g6, g7, g8, g9, g10, g11, g12, g13, g14⟩ := hg
  refine ⟨g1, g2, ?_, g4, g5, ?_, ?_, ?_, ?_, g10, ?_, ?_, ?_, ?_⟩
  · clk_omega c
  · intro hpc; have := g6 hpc; clk_omega c
  · intro hpc; have := g7 hpc; clk_omega c
  · intro hs hpc; have := g8 hs hpc; clk_omega c
  · intro hs hpc; have := g9 hs hpc; clk_omega c
  · clk_omega c
  · intro hpc; have := g12 hpc; clk_omega c
  · intro hpc; have := g13 hpc; clk_omega c
  · intro hpc; have := g14 hpc; clk_omega c

theorem ginv_idle (p : Params) (c : State) (n : Nat) (g : G) (dt : Int)
    (hg : GInv p c n g) (h0 : 0 ≤ dt) : GInv p { c with now := c.now + dt } n g := by
  obtain ⟨g1, g2, g3, g4, g5, g6, g7, g8, g9, g10, g11, g12, g13, g14⟩ := hg
  exact ⟨g1, g2, by show g.t0 ≤ c.now + dt; omega, g4, g5, g6, g7, g8, g9, g10,
    by show g.tMade ≤ c.now + dt; omega, g12, g13, g14⟩

theorem ginv_stop (p : Params) (c : State) (n : Nat) (g : G)
    (hg : GInv p c n g) : GInv p (stop c) (n + 1) g := by
  obtain ⟨g1, g2, g3, g4, g5, g6, g7, g8, g9, g10, g11, g12, g13, g14⟩ := hg
  refine ⟨g1, g2, g3, by omega, g5, g6, g7, ?_, ?_, g10, g11, g12, g13, g14⟩
  · intro hs; omega
  · intro hs; omega

/-! ### the invariant of the call that moves (new variant) -/

theorem ginv_new (p : Params) (c : State) (n : Nat) (d : Int) (hd0 : 0 ≤ d) (hd1 : d ≤ maxInt64) :
    GInv p c n { t0 := c.now, d := d, pc := .start, ce := 0, e := 0, s0 := n, tMade := c.now } := by
  refine ⟨hd0, hd1, ?_, ?_, ?_, ?_, ?_, ?_, ?_, ?_, ?_, ?_, ?_, ?_⟩ <;> simp

/-- step 1: read clockEnd -/
theorem ginv_readCE (p : Params) (hp : p.Valid) (c : State) (n : Nat) (g : G) (h : CInv p c)
    (hg : GInv p c n g) : GInv p c n { g with pc := .gotFirst, ce := c.clockEnd } := by
  obtain ⟨hp0, hp1, he0, hs0, hs1⟩ := hp
  obtain ⟨c1, c2, c3, c4, c5⟩ := h
  obtain ⟨g1, g2, g3, g4, g5, g6, g7, g8, g9, g10, g11, g12, g13, g14⟩ := hg
  refine ⟨g1, g2, g3, g4, ?_, ?_, ?_, ?_, ?_, g10, g11, ?_, ?_, ?_⟩
  · simp
  · intro _; clk_omega c
  · intro hpc; simp at hpc
  · intro _ _; clk_omega c
  · intro _ hpc; simp at hpc
  · intro hpc; simp at hpc
  · intro hpc; simp at hpc
  · intro _; clk_omega c

/-- step 2: read current, compute `end`, compare -/
theorem ginv_readCur (p : Params) (hp : p.Valid) (c : State) (n : Nat) (g : G) (h : CInv p c)
    (hg : GInv p c n g) (hpc : g.pc = .gotFirst) :
    GInv p c n { g with e := c.current + deadlineTicks p.period g.d, tMade := c.now,
                        pc := if c.current + deadlineTicks p.period g.d > g.ce then .needLock else .done } := by
  obtain ⟨hp0, hp1, he0, hs0, hs1⟩ := hp
  obtain ⟨c1, c2, c3, c4, c5⟩ := h
  obtain ⟨g1, g2, g3, g4, g5, g6, g7, g8, g9, g10, g11, g12, g13, g14⟩ := hg
  obtain ⟨hdt, heff0, heff1, heff2, heff3, heff4, _⟩ := dt_facts p.period g.d hp0 hp1 g1 g2
  generalize hE : effDur p.period g.d = E at *
  generalize hD : deadlineTicks p.period g.d = D at *
  have h6 := g6 hpc
  have h14 := g14 hpc
  by_cases hgt : c.current + D > g.ce
  · simp only [hgt, ↓reduceIte]
    refine ⟨g1, g2, g3, g4, ?_, ?_, ?_, ?_, ?_, g3, ?_, ?_, ?_, ?_⟩ <;> simp
  · simp only [hgt, ↓reduceIte]
    refine ⟨g1, g2, g3, g4, ?_, ?_, ?_, ?_, ?_, g3, ?_, ?_, ?_, ?_⟩
    · simp
    · intro h; simp at h
    · intro _; clk_omega c
    · intro _ h; simp at h
    · intro hs _; have := g8 hs hpc; clk_omega c
    · simp
    · intro _; clk_omega c
    · intro _; clk_omega c
    · intro h; simp at h

/-- step 3: the locked section -/
theorem ginv_lock (p : Params) (hp : p.Valid) (c : State) (n : Nat) (g : G) (h : CInv p c)
    (hg : GInv p c n g) :
    GInv p (extendClock p (refresh c) ((refresh c).current + deadlineTicks p.period g.d)) n
      { g with e := (refresh c).current + deadlineTicks p.period g.d, tMade := c.now, pc := .done } := by
  have hslop := slop_ticks_nonneg p hp
  rw [ticks_eq] at hslop
  obtain ⟨hp0, hp1, he0, hs0, hs1⟩ := hp
  obtain ⟨c1, c2, c3, c4, c5⟩ := h
  obtain ⟨g1, g2, g3, g4, g5, g6, g7, g8, g9, g10, g11, g12, g13, g14⟩ := hg
  obtain ⟨hdt, heff0, heff1, heff2, heff3, heff4, _⟩ := dt_facts p.period g.d hp0 hp1 g1 g2
  generalize hE : effDur p.period g.d = E at *
  generalize hD : deadlineTicks p.period g.d = D at *
  refine ⟨g1, g2, ?_, g4, ?_, ?_, ?_, ?_, ?_, ?_, ?_, ?_, ?_, ?_⟩
  · clk_omega c
  · simp
  · intro h; simp at h
  · intro _; clk_omega c
  · intro _ h; simp at h
  · intro _ _; clk_omega c
  · clk_omega c
  · clk_omega c
  · intro _; clk_omega c
  · intro _; clk_omega c
  · intro h; simp at h

/-! ### every step of the new variant preserves the invariant -/

theorem inv_init (p : Params) : Inv p CState.init :=
  ⟨cinv_init p, by intro g hg; simp [CState.init] at hg⟩

theorem inv_stepG (p : Params) (hp : p.Valid) (s : CState) (i : Nat) (g : G) (r : State × G) (h : Inv p s)
    (hi : s.gs[i]? = some g) (hs : stepG .new p s.clk g = some r) :
    Inv p { s with clk := r.1, gs := s.gs.set i r.2 } := by
  have hg := h.gs g (List.mem_of_getElem? hi)
  have hc := h.clk
  cases hpc : g.pc <;> simp only [stepG, hpc, reduceCtorEq, Option.some.injEq] at hs
  · -- start: read clockEnd
    subst hs
    refine ⟨hc, fun g' hg' => ?_⟩
    rcases List.mem_or_eq_of_mem_set hg' with hm | rfl
    · exact h.gs g' hm
    · exact ginv_readCE p hp s.clk s.stops g hc hg
  · -- gotFirst: read current
    subst hs
    refine ⟨hc, fun g' hg' => ?_⟩
    rcases List.mem_or_eq_of_mem_set hg' with hm | rfl
    · exact h.gs g' hm
    · exact ginv_readCur p hp s.clk s.stops g hc hg hpc
  · -- needLock: the locked section
    subst hs
    refine ⟨cinv_lock p hp s.clk hc _, fun g' hg' => ?_⟩
    rcases List.mem_or_eq_of_mem_set hg' with hm | rfl
    · exact ginv_lock_frame p hp s.clk s.stops g' hc (h.gs g' hm) _
    · exact ginv_lock p hp s.clk s.stops g hc hg

theorem inv_step (p : Params) (hp : p.Valid) (s s' : CState) (ev : ClockConc.Event) (h : Inv p s)
    (hs : ClockConc.step .new p s ev = some s') : Inv p s' := by
  cases ev with
  | begin d =>
    simp only [ClockConc.step] at hs
    split at hs
    · next hd =>
      cases hs
      refine ⟨h.clk, fun g hg => ?_⟩
      rcases List.mem_append.mp hg with hm | hm
      · exact h.gs g hm
      · simp only [List.mem_singleton] at hm
        subst hm
        exact ginv_new p s.clk s.stops d hd.1 hd.2
    · cases hs
  | stepG i =>
    simp only [ClockConc.step] at hs
    split at hs
    · cases hs
    · next g hi =>
      split at hs
      · cases hs
      · next r hr => cases hs; exact inv_stepG p hp s i g r h hi hr
  | tick dt =>
    simp only [ClockConc.step, Clock.step] at hs
    split at hs
    · next c hc =>
      cases hs
      split at hc
      · next hcond =>
        cases hc
        exact ⟨cinv_tick p hp s.clk dt h.clk hcond.1 hcond.2.1 hcond.2.2.1,
          fun g hg => ginv_tick p hp s.clk s.stops g dt h.clk (h.gs g hg) hcond.1 hcond.2.1⟩
      · cases hc
    · cases hs
  | idle dt =>
    simp only [ClockConc.step, Clock.step] at hs
    split at hs
    · next c hc =>
      cases hs
      split at hc
      · next hcond =>
        cases hc
        exact ⟨cinv_idle p s.clk dt h.clk hcond.1 hcond.2,
          fun g hg => ginv_idle p s.clk s.stops g dt (h.gs g hg) hcond.1⟩
      · cases hc
    · cases hs
  | stop =>
    simp only [ClockConc.step] at hs
    cases hs
    exact ⟨cinv_stop p s.clk h.clk, fun g hg => ginv_stop p s.clk s.stops g (h.gs g hg)⟩
  | retire i =>
    simp only [ClockConc.step] at hs
    split at hs
    · cases hs
    · split at hs
      · cases hs
        exact ⟨h.clk, fun g hg => h.gs g (List.mem_of_mem_eraseIdx hg)⟩
      · cases hs

theorem inv_of_reachable (p : Params) (hp : p.Valid) (s : CState) (h : ClockConc.Reachable .new p s) : Inv p s := by
  induction h with
  | init => exact inv_init p
  | step e _ hs ih => exact inv_step p hp _ _ e ih hs

/-- an executed event sequence yields a reachable state -/
theorem reachable_of_run (v : Variant) (p : Params) (evs : List ClockConc.Event) (s s' : CState)
    (h : ClockConc.Reachable v p s) (hr : ClockConc.run v p s evs = some s') : ClockConc.Reachable v p s' := by
  induction evs generalizing s with
  | nil => simp only [ClockConc.run] at hr; cases hr; exact h
  | cons e es ih =>
    simp only [ClockConc.run] at hr
    split at hr
    · cases hr
    · next s1 hs => exact ih s1 (ClockConc.Reachable.step e h hs) hr

/-! ### one goroutine running alone (all variants) -/

/-- `k` consecutive steps of one goroutine -/
def iterG (v : Variant) (p : Params) : Nat → State × G → Option (State × G)
  | 0, r => some r
  | k + 1, r =>
    match stepG v p r.1 r.2 with
    | none => none
    | some r' => iterG v p k r'

theorem step_last (v : Variant) (p : Params) (c : State) (gs : List G) (n : Nat) (g : G) :
    ClockConc.step v p { clk := c, gs := gs ++ [g], stops := n } (.stepG gs.length) =
      match stepG v p c g with
      | none => none
      | some r => some { clk := r.1, gs := gs ++ [r.2], stops := n } := by
  simp only [ClockConc.step, List.getElem?_concat_length]
  cases stepG v p c g with
  | none => rfl
  | some r => simp [List.set_append_right]

theorem run_last (v : Variant) (p : Params) (k : Nat) (c : State) (gs : List G) (n : Nat) (g : G) :
    ClockConc.run v p { clk := c, gs := gs ++ [g], stops := n } (List.replicate k (.stepG gs.length)) =
      match iterG v p k (c, g) with
      | none => none
      | some r => some { clk := r.1, gs := gs ++ [r.2], stops := n } := by
  induction k generalizing c g with
  | zero => simp [ClockConc.run, iterG]
  | succ k ih =>
    simp only [List.replicate, ClockConc.run, step_last, iterG]
    cases hst : stepG v p c g with
    | none => rfl
    | some r => simp only []; exact ih r.1 r.2

theorem run_solo (v : Variant) (p : Params) (s : CState) (d : Int) (hd : 0 ≤ d ∧ d ≤ maxInt64) (k : Nat)
    (r : State × G) (h : iterG v p k (s.clk, newG s d) = some r) :
    ClockConc.run v p s (soloEvents s d k) = some { clk := r.1, gs := s.gs ++ [r.2], stops := s.stops } := by
  simp only [soloEvents, ClockConc.run, ClockConc.step, hd, and_self, ↓reduceIte]
  rw [run_last, h]

/-- the steps of one call executed in a row are `Clock.makeDeadline`, in every variant -/
theorem iterG_makeDeadline (v : Variant) (p : Params) (c : State) (g : G) (hpc : g.pc = .start) :
    ∃ k, k ≤ 4 ∧ iterG v p k (c, g) =
      some ((makeDeadline p c g.d).1,
        { g with pc := .done, ce := c.clockEnd, e := (makeDeadline p c g.d).2, tMade := c.now }) := by
  obtain ⟨t0, d, pc, ce, e, s0, tm⟩ := g
  simp only at hpc
  subst hpc
  generalize hD : deadlineTicks p.period d = D
  by_cases hgt : c.current + D > c.clockEnd
  · cases v
    · refine ⟨4, by omega, ?_⟩
      cases hr : c.running <;> cases hst : c.started <;>
        simp [iterG, stepG, makeDeadline, hD, hgt, refresh, hr, hst]
    · refine ⟨4, by omega, ?_⟩
      simp [iterG, stepG, makeDeadline, hD, hgt]
    · refine ⟨3, by omega, ?_⟩
      simp [iterG, stepG, makeDeadline, hD, hgt]
  · refine ⟨2, by omega, ?_⟩
    cases v <;> simp [iterG, stepG, makeDeadline, hD, hgt]

/-- `Clock.makeDeadline` on a clock with no updater (never started / exited / stopped): it takes the
    locked path, refreshes `current`, starts the updater.  Needs only the clock invariant, so it applies
    to the clock of any reachable state of the interleaving model. -/
theorem makeDeadline_restart (p : Params) (hp : p.Valid) (c : State) (h : CInv p c) (hr : c.running = false)
    (d : Int) (hd0 : 0 ≤ d) (hd1 : d ≤ maxInt64) (hfirst : c.started = true ∨ 1048576 ≤ d + p.period) :
    (makeDeadline p c d).1.running = true ∧ (makeDeadline p c d).1.started = true ∧
    (makeDeadline p c d).1.now = c.now ∧ (makeDeadline p c d).1.lastWrite = c.now ∧
    (makeDeadline p c d).1.current = ticks (c.now - (makeDeadline p c d).1.startNs) ∧
    (makeDeadline p c d).2 = (makeDeadline p c d).1.current + deadlineTicks p.period d ∧
    (makeDeadline p c d).2 + ticks p.slop ≤ (makeDeadline p c d).1.clockEnd := by
  obtain ⟨hp0, hp1, he0, hs0, hs1⟩ := hp
  obtain ⟨hdt, heff0, heff1, heff2, heff3, heff4, heff5⟩ := dt_facts p.period d hp0 hp1 hd0 hd1
  generalize hD : deadlineTicks p.period d = D at *
  generalize hE : effDur p.period d = E at *
  have hgt : c.current + D > c.clockEnd := by
    cases hst : c.started
    · have hu := h.unstarted hst
      rcases hfirst with h1 | h1
      · simp [hst] at h1
      · have : 1048576 ≤ E := by
          by_cases h2 : d ≤ maxInt64 - p.period
          · have := heff4 h2; omega
          · have := heff5 (by omega); unfold maxInt64 at *; omega
        omega
    · have := h.stopped hst hr; omega
  cases hst : c.started <;>
    simp only [makeDeadline, refresh, extendClock, hr, hst, hgt, hD, ticks_eq, Bool.not_true, Bool.not_false,
      Bool.and_true, Bool.and_false, Bool.false_eq_true, ↓reduceIte]
  · have hu := h.unstarted hst
    exact ⟨trivial, trivial, trivial, trivial, by omega, trivial, by omega⟩
  · exact ⟨trivial, trivial, trivial, trivial, trivial, trivial, by omega⟩

end RegexVerif.Lemmas.ClockConc
