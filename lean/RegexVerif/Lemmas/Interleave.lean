/-
Helper lemmas for the interleaving theorem (`Props/C11.lean`): an abstraction of a goroutine's local
state that forgets exactly what history independence allows to forget, and the fact that one step of
the concrete semantics acts on that abstraction as a function that mentions neither the shared state
nor `sync.Pool`'s choice.
-/
import RegexVerif.Model.Interleave
import RegexVerif.Props.C12

namespace RegexVerif.Lemmas.Interleave
open RegexVerif RegexVerif.Interleave

variable {R B O Args Res κ ν : Type} [DecidableEq κ]

/-- what is assumed of the operations: the statements `Props/C12` proves for the concrete models, plus
    "the interpreter reads only the observable state" (`stepO`, `finishO`: `stepR` and `finishR` factor
    through `obs` on every runner that satisfies the ownership facts `Own`).  `Props/C11` builds a value
    of this record for the C12 models (`runnerLaws`). -/
structure Laws (M : Sem R B O Args Res κ ν) where
  InvR : R → Prop                       -- pool invariant of runners (`PoolInv`)
  Own : R → Prop                        -- facts about a runner of this Regexp that nothing changes (`RunInv`)
  stepO : Args → List Int → O → O
  finishO : Args → Option ν → O → Res
  fresh_inv : InvR M.freshR
  inv_own : ∀ r, InvR r → Own r
  start_obs : ∀ a t r, InvR r → M.obs (M.startR a t r) = M.obs (M.startR a t M.freshR)   -- `scanInit_resets`
  start_own : ∀ a t r, Own r → Own (M.startR a t r)
  step_obs : ∀ a t r, Own r → M.obs (M.stepR a t r) = stepO a t (M.obs r)                  -- run reads only `obs`
  step_own : ∀ a t r, Own r → Own (M.stepR a t r)
  finish_obs : ∀ a d r, Own r → M.finishR a d r = finishO a d (M.obs r)
  put_inv : ∀ r, Own r → InvR (M.putR r)                                                   -- `put_resets_code`
  decode_vis : ∀ a b, M.fits a b = true →
      M.visB (M.decodeB a b) = M.visB (M.decodeB a (M.freshB a))                            -- `pool_decode_history_independent`

/-- the abstraction of a local state: the runner is "none", "pooled/new, not started" or "running with
    observable state o"; the buffer is what the matcher sees in it -/
structure AbsLocal (O Res ν : Type) where
  todo : List Step
  runner : Option (Option O)
  buf : Option (List Int)
  data : Option ν
  res : Option Res

def α (M : Sem R B O Args Res κ ν) (L : Local R B Res ν) : AbsLocal O Res ν :=
  { todo := L.todo, runner := L.runner.map (fun r => if L.started then some (M.obs r) else none),
    buf := L.buf.map M.visB, data := L.data, res := L.res }

/-! the abstract counterparts of the step functions: no shared state, no choice -/

def absLruGet (M : Sem R B O Args Res κ ν) (c : Call Args κ) (A : AbsLocal O Res ν) : AbsLocal O Res ν :=
  match c.repl with
  | none => A
  | some k => { A with data := M.parse k }

def absGetRunner (A : AbsLocal O Res ν) : AbsLocal O Res ν := { A with runner := some none }

def absPoolGet (M : Sem R B O Args Res κ ν) (c : Call Args κ) (A : AbsLocal O Res ν) : AbsLocal O Res ν :=
  { A with buf := some (M.visB (M.decodeB c.args (M.freshB c.args))) }

def absRunStep (M : Sem R B O Args Res κ ν) (W : Laws M) (c : Call Args κ) (A : AbsLocal O Res ν) : AbsLocal O Res ν :=
  match A.runner, A.buf with
  | some none, some t => { A with runner := some (some (M.obs (M.startR c.args t M.freshR))) }
  | some (some o), some t => { A with runner := some (some (W.stepO c.args t o)) }
  | _, _ => A

def absPutRunner (M : Sem R B O Args Res κ ν) (W : Laws M) (c : Call Args κ) (A : AbsLocal O Res ν) : AbsLocal O Res ν :=
  match A.runner with
  | some (some o) => { A with runner := none, res := some (W.finishO c.args A.data o) }
  | some none => { A with runner := none, res := none }
  | none => A

def absPoolPut (A : AbsLocal O Res ν) : AbsLocal O Res ν :=
  match A.buf with
  | some _ => { A with buf := none }
  | none => A

/-- one step on the abstraction -/
def absStep (M : Sem R B O Args Res κ ν) (W : Laws M) (c : Call Args κ) (A : AbsLocal O Res ν) : AbsLocal O Res ν :=
  match A.todo with
  | [] => A
  | st :: rest =>
    let A := { A with todo := rest }
    match st with
    | .lruGet => absLruGet M c A
    | .lruAdd => A
    | .getRunner => absGetRunner A
    | .poolGet => absPoolGet M c A
    | .runStep => absRunStep M W c A
    | .putRunner => absPutRunner M W c A
    | .poolPut => absPoolPut A

/-- invariant of the shared state: pooled runners satisfy the pool invariant; the cache has no duplicate
    keys, respects its bound, and holds only parses of its keys -/
def SharedInv (M : Sem R B O Args Res κ ν) (W : Laws M) (S : Shared R B κ ν) : Prop :=
  (∀ r ∈ S.runners, W.InvR r) ∧ Props.C12.CacheInv S.cache ∧
  (∀ k v, LRU.lookup k S.cache.entries = some v → M.parse k = some v)

/-- invariant of a goroutine's local state -/
def LocalGood (M : Sem R B O Args Res κ ν) (W : Laws M) (c : Call Args κ) (L : Local R B Res ν) : Prop :=
  (∀ r, L.runner = some r → W.Own r ∧ (L.started = false → W.InvR r)) ∧
  (∀ k v, c.repl = some k → L.data = some v → M.parse k = some v)

theorem mem_removeAt {α : Type} (xs : List α) (j : Nat) (x : α) (h : x ∈ removeAt xs j) : x ∈ xs := by
  induction xs generalizing j with
  | nil => simp [removeAt] at h
  | cons y ys ih =>
    cases j with
    | zero => simp only [removeAt] at h; exact List.mem_cons_of_mem _ h
    | succ j =>
      simp only [removeAt, List.mem_cons] at h
      cases h with
      | inl h => simp [h]
      | inr h => exact List.mem_cons_of_mem _ (ih j h)

theorem localGood_init (M : Sem R B O Args Res κ ν) (W : Laws M) (c : Call Args κ) :
    LocalGood M W c (Local.init c : Local R B Res ν) :=
  ⟨by intro r h; simp [Local.init] at h, by intro k v _ h; simp [Local.init] at h⟩

theorem lruGet_abs (M : Sem R B O Args Res κ ν) (W : Laws M) (c : Call Args κ)
    (S : Shared R B κ ν) (L : Local R B Res ν) (hS : SharedInv M W S) (hL : LocalGood M W c L) :
    α M (doLruGet M c S L).2 = absLruGet M c (α M L) ∧
    SharedInv M W (doLruGet M c S L).1 ∧ LocalGood M W c (doLruGet M c S L).2 := by
  obtain ⟨hSr, hSc, hSv⟩ := hS
  obtain ⟨hLr, hLd⟩ := hL
  unfold doLruGet absLruGet
  cases hrepl : c.repl with
  | none => exact ⟨rfl, ⟨hSr, hSc, hSv⟩, hLr, hLd⟩
  | some k =>
    simp only
    cases hl : LRU.lookup k S.cache.entries with
    | some v =>
      obtain ⟨⟨_, hg2, _, hg4⟩, _⟩ := Props.C12.lru_refines_map S.cache hSc k
      have hp := hSv k v hl
      refine ⟨by simp [α, hp], ⟨hSr, hg4, ?_⟩, hLr, ?_⟩
      · intro k' v' h'; exact hSv k' v' (by rw [← hg2 k']; exact h')
      · intro k' v' hk' hv'
        rw [hrepl] at hk'; simp only [Option.some.injEq] at hk' hv'; subst hk'; subst hv'; exact hp
    | none =>
      refine ⟨rfl, ⟨hSr, hSc, hSv⟩, hLr, ?_⟩
      intro k' v' hk' hv'
      rw [hrepl] at hk'; simp only [Option.some.injEq] at hk'; subst hk'; exact hv'

theorem lruAdd_abs (M : Sem R B O Args Res κ ν) (W : Laws M) (c : Call Args κ)
    (S : Shared R B κ ν) (L : Local R B Res ν) (hS : SharedInv M W S) (hL : LocalGood M W c L) :
    α M (doLruAdd c S L).2 = α M L ∧
    SharedInv M W (doLruAdd c S L).1 ∧ LocalGood M W c (doLruAdd c S L).2 := by
  obtain ⟨hSr, hSc, hSv⟩ := hS
  unfold doLruAdd
  cases hrepl : c.repl with
  | none => exact ⟨rfl, ⟨hSr, hSc, hSv⟩, hL⟩
  | some k =>
    cases hd : L.data with
    | none => exact ⟨rfl, ⟨hSr, hSc, hSv⟩, hL⟩
    | some v =>
      cases hm : L.miss with
      | false => exact ⟨rfl, ⟨hSr, hSc, hSv⟩, hL⟩
      | true =>
        simp only
        obtain ⟨_, hadd⟩ := Props.C12.lru_refines_map S.cache hSc k
        obtain ⟨ha1, ha2, _, ha4⟩ := hadd v
        have hp : M.parse k = some v := hL.2 k v hrepl hd
        refine ⟨trivial, ⟨hSr, ha4, ?_⟩, hL⟩
        intro k' v' h'
        by_cases hk : k' = k
        · subst hk; rw [ha1] at h'; simp only [Option.some.injEq] at h'; subst h'; exact hp
        · rw [ha2 k' hk] at h'
          by_cases he : LRU.evicted S.cache k = some k'
          · simp [he] at h'
          · simp only [he, if_false] at h'; exact hSv k' v' h'

theorem getRunner_abs (M : Sem R B O Args Res κ ν) (W : Laws M) (c : Call Args κ) (ch : Nat)
    (S : Shared R B κ ν) (L : Local R B Res ν) (hS : SharedInv M W S) (hL : LocalGood M W c L) :
    α M (doGetRunner M ch S L).2 = absGetRunner (α M L) ∧
    SharedInv M W (doGetRunner M ch S L).1 ∧ LocalGood M W c (doGetRunner M ch S L).2 := by
  obtain ⟨hSr, hSc, hSv⟩ := hS
  unfold doGetRunner absGetRunner
  cases hr : S.runners[ch]? with
  | some r =>
    have hin : W.InvR r := hSr r (List.mem_of_getElem? hr)
    refine ⟨by simp [α], ⟨fun x hx => hSr x (mem_removeAt _ _ _ hx), hSc, hSv⟩, ?_, hL.2⟩
    intro x hx; simp only [Option.some.injEq] at hx; subst hx; exact ⟨W.inv_own _ hin, fun _ => hin⟩
  | none =>
    refine ⟨by simp [α], ⟨hSr, hSc, hSv⟩, ?_, hL.2⟩
    intro x hx; simp only [Option.some.injEq] at hx; subst hx; exact ⟨W.inv_own _ W.fresh_inv, fun _ => W.fresh_inv⟩

theorem poolGet_abs (M : Sem R B O Args Res κ ν) (W : Laws M) (c : Call Args κ) (ch : Nat)
    (S : Shared R B κ ν) (L : Local R B Res ν) (hS : SharedInv M W S) (hL : LocalGood M W c L) :
    α M (doPoolGet M c ch S L).2 = absPoolGet M c (α M L) ∧
    SharedInv M W (doPoolGet M c ch S L).1 ∧ LocalGood M W c (doPoolGet M c ch S L).2 := by
  unfold doPoolGet absPoolGet
  cases hb : S.bufs[ch]? with
  | some b =>
    simp only
    by_cases hf : M.fits c.args b = true
    · rw [if_pos hf]; exact ⟨by simp [α, W.decode_vis _ _ hf], hS, hL⟩
    · rw [if_neg hf]; exact ⟨by simp [α], hS, hL⟩
  | none => exact ⟨by simp [α], hS, hL⟩

theorem runStep_abs (M : Sem R B O Args Res κ ν) (W : Laws M) (c : Call Args κ)
    (L : Local R B Res ν) (hL : LocalGood M W c L) :
    α M (doRunStep M c L) = absRunStep M W c (α M L) ∧ LocalGood M W c (doRunStep M c L) := by
  unfold doRunStep absRunStep
  cases hr : L.runner with
  | none => simp [α, hr]; exact hL
  | some r =>
    cases hb : L.buf with
    | none => cases hs : L.started <;> simp [α, hr, hb, hs] <;> exact hL
    | some b =>
      obtain ⟨hown, hinv⟩ := hL.1 r hr
      cases hs : L.started with
      | false =>
        simp only [α, hr, hb, hs, Option.map_some, Bool.false_eq_true, if_false]
        refine ⟨by simp [W.start_obs _ _ _ (hinv hs)], ?_, hL.2⟩
        intro x hx; simp only [Option.some.injEq] at hx; subst hx
        exact ⟨W.start_own _ _ _ hown, by intro h; cases h⟩
      | true =>
        simp only [α, hr, hb, hs, Option.map_some, if_true]
        refine ⟨by simp [W.step_obs _ _ _ hown], ?_, hL.2⟩
        intro x hx; simp only [Option.some.injEq] at hx; subst hx
        exact ⟨W.step_own _ _ _ hown, by intro h; simp [hs] at h⟩

theorem putRunner_abs (M : Sem R B O Args Res κ ν) (W : Laws M) (c : Call Args κ)
    (S : Shared R B κ ν) (L : Local R B Res ν) (hS : SharedInv M W S) (hL : LocalGood M W c L) :
    α M (doPutRunner M c S L).2 = absPutRunner M W c (α M L) ∧
    SharedInv M W (doPutRunner M c S L).1 ∧ LocalGood M W c (doPutRunner M c S L).2 := by
  obtain ⟨hSr, hSc, hSv⟩ := hS
  unfold doPutRunner absPutRunner
  cases hr : L.runner with
  | none => simp [α, hr]; exact ⟨⟨hSr, hSc, hSv⟩, hL⟩
  | some r =>
    obtain ⟨hown, _⟩ := hL.1 r hr
    have hsh : SharedInv M W { S with runners := M.putR r :: S.runners } := by
      refine ⟨?_, hSc, hSv⟩
      intro x hx
      simp only [List.mem_cons] at hx
      cases hx with
      | inl h => subst h; exact W.put_inv _ hown
      | inr h => exact hSr x h
    have hlg : ∀ st res, LocalGood M W c { L with runner := none, started := st, res := res } :=
      fun _ _ => ⟨(by intro x hx; cases hx), hL.2⟩
    cases hs : L.started with
    | false => simp [α, hr, hs]; exact ⟨hsh, hlg _ _⟩
    | true => simp [α, hr, hs, W.finish_obs _ _ _ hown]; exact ⟨hsh, hlg _ _⟩

theorem poolPut_abs (M : Sem R B O Args Res κ ν) (W : Laws M) (c : Call Args κ)
    (S : Shared R B κ ν) (L : Local R B Res ν) (hS : SharedInv M W S) (hL : LocalGood M W c L) :
    α M (doPoolPut M S L).2 = absPoolPut (α M L) ∧
    SharedInv M W (doPoolPut M S L).1 ∧ LocalGood M W c (doPoolPut M S L).2 := by
  unfold doPoolPut absPoolPut
  cases hb : L.buf with
  | none => simp [α, hb]; exact ⟨hS, hL⟩
  | some b => simp [α, hb]; exact ⟨hS, hL⟩

/-- **one step**: under the invariants, a step of the concrete semantics -- with any shared state and
    any choice of `sync.Pool` -- acts on the abstraction as `absStep`, and keeps the invariants -/
theorem stepG_abs (M : Sem R B O Args Res κ ν) (W : Laws M) (c : Call Args κ) (ch : Nat)
    (S : Shared R B κ ν) (L : Local R B Res ν) (hS : SharedInv M W S) (hL : LocalGood M W c L) :
    α M (stepG M c ch S L).2 = absStep M W c (α M L) ∧
    SharedInv M W (stepG M c ch S L).1 ∧ LocalGood M W c (stepG M c ch S L).2 := by
  unfold stepG absStep
  cases htodo : L.todo with
  | nil => simp only [α, htodo]; exact ⟨trivial, hS, hL⟩
  | cons st rest =>
    have hL' : LocalGood M W c { L with todo := rest } := hL
    have hα : α M { L with todo := rest } = { α M L with todo := rest } := rfl
    simp only [α, htodo]
    cases st with
    | lruGet => have := lruGet_abs M W c S _ hS hL'; rw [hα] at this; exact this
    | lruAdd => have := lruAdd_abs M W c S _ hS hL'; rw [hα] at this; exact this
    | getRunner => have := getRunner_abs M W c ch S _ hS hL'; rw [hα] at this; exact this
    | poolGet => have := poolGet_abs M W c ch S _ hS hL'; rw [hα] at this; exact this
    | runStep => have := runStep_abs M W c _ hL'; rw [hα] at this; exact ⟨this.1, hS, this.2⟩
    | putRunner => have := putRunner_abs M W c S _ hS hL'; rw [hα] at this; exact this
    | poolPut => have := poolPut_abs M W c S _ hS hL'; rw [hα] at this; exact this

/-! ### schedules -/

/-- `iter f n a`: apply `f` to `a`, `n` times -/
def iter {α' : Type} (f : α' → α') : Nat → α' → α'
  | 0, a => a
  | n + 1, a => iter f n (f a)

/-- number of moves of goroutine `g` in a schedule -/
def moves (g : Nat) : Schedule → Nat
  | [] => 0
  | s :: rest => (if s.1 = g then 1 else 0) + moves g rest

def GInv (M : Sem R B O Args Res κ ν) (W : Laws M) (calls : Nat → Call Args κ) (σ : State R B Res κ ν) : Prop :=
  SharedInv M W σ.shared ∧ ∀ g, LocalGood M W (calls g) (σ.locals g)

theorem exec_abs (M : Sem R B O Args Res κ ν) (W : Laws M) (calls : Nat → Call Args κ) :
    ∀ (sch : Schedule) (σ : State R B Res κ ν), GInv M W calls σ →
      GInv M W calls (exec M calls sch σ) ∧
      ∀ g, α M ((exec M calls sch σ).locals g) = iter (absStep M W (calls g)) (moves g sch) (α M (σ.locals g)) := by
  intro sch
  induction sch with
  | nil => intro σ h; exact ⟨h, fun g => rfl⟩
  | cons s rest ih =>
    intro σ h
    obtain ⟨g0, ch⟩ := s
    have hstep := stepG_abs M W (calls g0) ch σ.shared (σ.locals g0) h.1 (h.2 g0)
    have hinv : GInv M W calls (exec1 M calls (g0, ch) σ) := by
      refine ⟨hstep.2.1, ?_⟩
      intro g
      by_cases hg : g = g0
      · subst hg; simp only [exec1, if_true]; exact hstep.2.2
      · simp only [exec1, hg, if_false]; exact h.2 g
    obtain ⟨h1, h2⟩ := ih _ hinv
    refine ⟨h1, ?_⟩
    intro g
    rw [show exec M calls ((g0, ch) :: rest) σ = exec M calls rest (exec1 M calls (g0, ch) σ) from rfl, h2 g]
    by_cases hg : g0 = g
    · subst hg
      have : (exec1 M calls (g0, ch) σ).locals g0 = (stepG M (calls g0) ch σ.shared (σ.locals g0)).2 := by
        simp [exec1]
      rw [this, hstep.1]
      simp only [moves, if_true]
      rw [Nat.add_comm]
      rfl
    · have : (exec1 M calls (g0, ch) σ).locals g = σ.locals g := by
        have hne : ¬ g = g0 := fun h => hg h.symm
        simp [exec1, hne]
      rw [this]
      simp [moves, hg]

theorem absStep_todo (M : Sem R B O Args Res κ ν) (W : Laws M) (c : Call Args κ) (A : AbsLocal O Res ν) :
    (absStep M W c A).todo = A.todo.drop 1 := by
  unfold absStep
  cases h : A.todo with
  | nil => simp [h]
  | cons st rest =>
    simp only [List.drop_succ_cons, List.drop_zero]
    cases st with
    | lruGet => simp only [absLruGet]; cases c.repl <;> rfl
    | lruAdd => rfl
    | getRunner => rfl
    | poolGet => rfl
    | runStep => simp only [absRunStep]; split <;> rfl
    | putRunner => simp only [absPutRunner]; split <;> rfl
    | poolPut => simp only [absPoolPut]; split <;> rfl

theorem iterate_todo (M : Sem R B O Args Res κ ν) (W : Laws M) (c : Call Args κ) (n : Nat) (A : AbsLocal O Res ν) :
    (iter (absStep M W c) n A).todo = A.todo.drop n := by
  induction n generalizing A with
  | zero => simp [iter]
  | succ n ih =>
    show (iter (absStep M W c) n (absStep M W c A)).todo = _
    rw [ih, absStep_todo, List.drop_drop, Nat.add_comm]

theorem iterate_done (M : Sem R B O Args Res κ ν) (W : Laws M) (c : Call Args κ) (k : Nat) (A : AbsLocal O Res ν)
    (h : A.todo = []) : iter (absStep M W c) k A = A := by
  induction k with
  | zero => rfl
  | succ k ih =>
    show iter (absStep M W c) k (absStep M W c A) = A
    have : absStep M W c A = A := by unfold absStep; simp [h]
    rw [this, ih]

theorem iterate_add {α' : Type} (f : α' → α') (m n : Nat) (x : α') : iter f (m + n) x = iter f n (iter f m x) := by
  induction m generalizing x with
  | zero => simp [iter]
  | succ m ih =>
    rw [Nat.succ_add]
    show iter f (m + n) (f x) = iter f n (iter f m (f x))
    exact ih (f x)

theorem moves_replicate (n : Nat) : moves 0 (List.replicate n (0, 0)) = n := by
  induction n with
  | zero => rfl
  | succ n ih => simp [List.replicate_succ, moves, ih]; omega


end RegexVerif.Lemmas.Interleave
