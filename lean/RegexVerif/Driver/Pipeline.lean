import Std.Data.HashMap
import Std.Data.HashSet
import RegexVerif.Sexp
import RegexVerif.Model.Reduce
import RegexVerif.Model.ChainHyps
import RegexVerif.Driver.Parser

namespace RegexVerif.Driver
open RegexVerif Sexp
open RegexVerif.Reduce

/-! Driver glue for leg Pl (unverified IO code).

Request: `(c01 pipeline <the fields of (c18 parser …)> (sets (code…)…) (chars c…) (in ((code…) c…)…)
          (ov ((code…) (code…)…)…) (pword c…) (peword c…))`
  `sets` / `chars`: the universe the harness answered for; `in`: the characters of `chars` a set contains
  (`CharSet.CharIn`); `ov`: the sets of `sets` a set may overlap (`CharSet.MayOverlap`, first argument =
  receiver); `pword` / `peword`: `IsWordChar` / `IsECMAWordChar` on `chars`.
Answer: `(ok (off TREE) (on TREE) <info> (prog codes strings sets trackcount capsize caps rtl inuse quick)
          (wf treeWf wfProg wfQuick okRaw chainHyps) (miss 0|1) (fired tag…))`
        | `(error code)` | `(fault what)` | `(fuel)` | `(write-error (off TREE) (on TREE))`.
  `miss` = an oracle question outside the supplied universe changed the result. -/

private def listKey (l : List Nat) : String := " ".intercalate (l.map toString)

private def mkOrc (args : List Sexp) (dflt : Bool) : Orc :=
  let sets : Std.HashSet String := ((lookup "sets" args).getD []).foldl (fun s e =>
    match e.nats? with | some c => s.insert (listKey c) | none => s) {}
  let chars : Std.HashSet Nat := ((lookup "chars" args).getD []).foldl (fun s e =>
    match e.nat? with | some c => s.insert c | none => s) {}
  let inT : Std.HashSet String := ((lookup "in" args).getD []).foldl (fun s row =>
    match row with
    | .list (code :: cs) =>
      match code.nats? with
      | some c => cs.foldl (fun s x => match x.nat? with | some ch => s.insert (listKey c ++ "|" ++ toString ch) | none => s) s
      | none => s
    | _ => s) {}
  let ovT : Std.HashSet String := ((lookup "ov" args).getD []).foldl (fun s row =>
    match row with
    | .list (code :: os) =>
      match code.nats? with
      | some c => os.foldl (fun s x => match x.nats? with | some d => s.insert (listKey c ++ "|" ++ listKey d) | none => s) s
      | none => s
    | _ => s) {}
  let word : Std.HashSet Nat := ((lookup "pword" args).getD []).foldl (fun s e =>
    match e.nat? with | some c => s.insert c | none => s) {}
  let eword : Std.HashSet Nat := ((lookup "peword" args).getD []).foldl (fun s e =>
    match e.nat? with | some c => s.insert c | none => s) {}
  { charIn := fun s ch => if sets.contains (listKey s) && chars.contains ch then inT.contains (listKey s ++ "|" ++ toString ch) else dflt,
    overlap := fun a b => if sets.contains (listKey a) && sets.contains (listKey b) then ovT.contains (listKey a ++ "|" ++ listKey b) else dflt,
    isWord := fun c => if chars.contains c then word.contains c else dflt,
    isEcmaWord := fun c => if chars.contains c then eword.contains c else dflt }

/-- the writer's tree in the vocabulary of leg Wr (`Driver/Writer.lean: goNode?`) -/
private partial def goSexp : Writer.GoNode → Sexp
  | .empty => mk "empty" []
  | .bare t => mk "bare" [ofNat t]
  | .char t r c ch => mk "char" [ofNat t, ofBool r, ofBool c, ofInt ch]
  | .set r c s => mk "set" [ofBool r, ofBool c, ofNats s]
  | .multi r c s => mk "multi" [ofBool r, ofBool c, ofNats s]
  | .ref r c m => mk "ref" [ofBool r, ofBool c, ofInt m]
  | .charloop t r c ch m n => mk "charloop" [ofNat t, ofBool r, ofBool c, ofInt ch, ofInt m, ofInt n]
  | .setloop t r c s m n => mk "setloop" [ofNat t, ofBool r, ofBool c, ofNats s, ofInt m, ofInt n]
  | .concat cs => mk "concat" (cs.map goSexp)
  | .alt cs => mk "alt" (cs.map goSexp)
  | .loop l m n c => mk "loop" [ofBool l, ofInt m, ofInt n, goSexp c]
  | .capture m n c => mk "capture" [ofInt m, ofInt n, goSexp c]
  | .group c => mk "group" [goSexp c]
  | .poslook c => mk "poslook" [goSexp c]
  | .neglook c => mk "neglook" [goSexp c]
  | .atomic c => mk "atomic" [goSexp c]
  | .backrefcond1 m y => mk "backrefcond" [ofInt m, goSexp y]
  | .backrefcond2 m y n => mk "backrefcond" [ofInt m, goSexp y, goSexp n]
  | .exprcond2 c y => mk "exprcond" [goSexp c, goSexp y]
  | .exprcond3 c y n => mk "exprcond" [goSexp c, goSexp y, goSexp n]
  | .other t => mk "other" [ofInt t]

private def pairsSexp (xs : List (Int × Int)) : Sexp := .list (xs.map fun p => .list [ofInt p.1, ofInt p.2])

private def nodeStr (x : Node) : String := toString (goSexp (toGo x))

/-- which `reduce()` calls change their node (by node type), for the histogram -/
private partial def firedWalk (orc : Orc) (fuel : Nat) (x : Node) : Node × List String :=
  let rs := x.kids.map fun k =>
    let r := firedWalk orc fuel k
    let k' := reduce orc true fuel (x.t == ntAtomic) r.1
    (k', if nodeStr k' != nodeStr r.1 then s!"reduce-{r.1.t}" :: r.2 else r.2)
  (x.withKids (rs.map (·.1)), rs.flatMap (·.2))

private def fired (orc : Orc) (root : Node) : List String :=
  let fuel := fuelFor root
  let r := firedWalk orc fuel root
  let a := faml orc fuel fuel [] r.1
  let b := elim orc true fuel false a
  let c := match b.kids with
    | k :: rest => b.withKids (placeBump fuel k :: rest)
    | [] => b
  if root.rtl then r.2 ++ ["final-skipped-rtl"]
  else
    r.2 ++ (if nodeStr a != nodeStr r.1 then ["auto-atomic"] else []) ++
      (if nodeStr b != nodeStr a then ["ending-backtracking"] else []) ++
      (if nodeStr c != nodeStr b then ["bumpalong"] else [])

private def errName (c : Parser.ErrCode) : String := (reprStr c).replace "RegexVerif.Parser.ErrCode." ""
private def faultName (c : Parser.Fault) : String := (reprStr c).replace "RegexVerif.Parser.Fault." ""

/-- `(c01 pipeline …)` -/
def handlePipeline (args : List Sexp) : String :=
  match (lookup "pat" args).bind (fun l => (Sexp.list l).nats?), ((lookup "opts" args).bind (·.head?)).bind (·.nat?),
        ((lookup "mco" args).bind (·.head?)).bind (·.bool?) with
  | some pat, some mask, some mco =>
    let E : Parser.Env := { pat := pat, opts := Parser.Opts.ofMask mask, mco := mco, orc := mkOracles args }
    let orcT := mkOrc args true
    let orcF := mkOrc args false
    match Parser.parse E with
    | .error c => toString (mk "error" [atom (errName c)])
    | .fault f => toString (mk "fault" [atom (faultName f)])
    | .fuel => "(fuel)"
    | .ok t =>
      if !Parser.wfTree t then "(notwf)" else
      let off := goSexp (reduceTree orcF false t)
      let onT := reduceTree orcT true t
      let onF := reduceTree orcF true t
      let miss := toString (goSexp onT) != toString (goSexp onF) ||
        toString (goSexp (reduceTree orcT false t)) != toString off
      let info := treeInfo E.opts.r t
      match Writer.write info onF with
      | none => toString (mk "write-error" [mk "off" [off], mk "on" [goSexp onF]])
      | some w =>
        let quickWf := match Writer.emitQuick info onF with
          | some q => Writer.wfProg q
          | none => true
        toString (mk "ok" [mk "off" [off], mk "on" [goSexp onF],
          mk "info" [ofInt info.captop,
            (match info.capnumlist with | none => atom "nil" | some l => ofInts l),
            pairsSexp info.caps, ofBool info.rtl],
          mk "prog" [ofInts w.prog.codes.toList, .list (w.prog.strings.toList.map ofNats), .list (w.sets.map ofNats),
            ofNat w.prog.trackcount, ofNat w.prog.capsize, pairsSexp w.prog.caps, ofBool w.prog.rtl,
            .list (w.slotInUse.map ofBool),
            (match w.quick with | some q => mk "quick" (q.map ofInt) | none => mk "noquick" [])],
          mk "wf" [ofBool (Writer.treeWf info onF), ofBool (Writer.wfProg w.prog), ofBool quickWf, ofBool (okRawTree (ofRaw t.root)),
            -- the hypotheses of `Props.C10.compile_and_run_no_fault_partial` (Model/ChainHyps.lean)
            ofBool (RawShapeOk t && PrescanAgrees t)],
          mk "miss" [ofBool miss],
          mk "fired" ((fired orcF (ofRaw t.root)).map atom)])
  | _, _, _ => "(bad-op)"

end RegexVerif.Driver
