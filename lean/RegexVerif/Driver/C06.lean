import RegexVerif.Sexp
import RegexVerif.Model.Scan
import RegexVerif.Driver.C07

namespace RegexVerif.Driver
open RegexVerif Sexp RegexVerif.Scan

def attEntry? : Sexp → Option (Option (Nat × Nat))
  | .atom "x" => some none
  | .list [i, l] =>
    match i.nat?, l.nat? with
    | some i, some l => some (some (i, l))
    | _, _ => none
  | _ => none

/-- `(c06 (n N) (ks (k…)) (row (att…)))` with `att` = `x` or `(index len)`: the single-position
    matches of a `\G`-free left-to-right pattern. ↦ `(ok (k K compatAll findAll stdAll)…)` where the
    first two run the regexp2 loops over the trivially accelerated scan (every position is a
    candidate) and the third runs the standard library's loop over "leftmost match at or after pos". -/
def handleC06 (args : List Sexp) : String :=
  let get (key : String) : Option Sexp := (lookup key args).bind (·.head?)
  match (get "n").bind nat?, (get "ks").bind ints?, (get "row").bind list? with
  | some n, some ks, some row =>
    match row.mapM attEntry? with
    | none => "(bad-op)"
    | some atts =>
      let tab := atts.toArray
      let attempt : Nat → Option (Nat × Nat) := fun p => (tab[p]?).bind id
      let E : Engine := { finder := fun _ pos => (true, pos), after := fun _ q => q, attempt := fun _ => attempt, minLen := 0 }
      let perK := ks.map fun k => Sexp.list [.atom "k", ofInt k, spansSexp (compatAll E false n k), spansSexp (findAll E false n k),
        spansSexp (stdAll (findFromOf attempt n) n k)]
      toString (Sexp.list (.atom "ok" :: perK))
  | _, _, _ => "(bad-op)"

end RegexVerif.Driver
