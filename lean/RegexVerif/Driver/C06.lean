import RegexVerif.Sexp

namespace RegexVerif.Driver
open RegexVerif Sexp

/-- protocol lines with head `c06` (stub) -/
def handleC06 (_args : List Sexp) : String := "(unimplemented)"

end RegexVerif.Driver
