import RegexVerif.Sexp
import RegexVerif.Model.Scan
import RegexVerif.Model.Compat
import RegexVerif.Driver.C07

namespace RegexVerif.Driver
open RegexVerif Sexp RegexVerif.Scan

def attEntry? : Sexp → Option (Option (Nat × Nat))
  | .atom "x" => some none
  | .list [i, l] =>
    match i.nat?, l.nat? with
    | some i, some l => some (some (i, l))
    | _, _ => none
  | _ => none

/-- `(c06 (n N) (ks (k…)) (row (att…)))` with `att` = `x` or `(index len)`: the single-position
    matches of a `\G`-free left-to-right pattern. ↦ `(ok (k K compatAll findAll stdAll)…)` where the
    first two run the regexp2 loops over the trivially accelerated scan (every position is a
    candidate) and the third runs the standard library's loop over "leftmost match at or after pos". -/
def handleC06Loops (args : List Sexp) : String :=
  let get (key : String) : Option Sexp := (lookup key args).bind (·.head?)
  match (get "n").bind nat?, (get "ks").bind ints?, (get "row").bind list? with
  | some n, some ks, some row =>
    match row.mapM attEntry? with
    | none => "(bad-op)"
    | some atts =>
      let tab := atts.toArray
      let attempt : Nat → Option (Nat × Nat) := fun p => (tab[p]?).bind id
      let E : Engine := { finder := fun _ pos => (true, pos), after := fun _ q => q, attempt := fun _ => attempt, minLen := 0 }
      let perK := ks.map fun k => Sexp.list [.atom "k", ofInt k, spansSexp (compatAll E false n k), spansSexp (findAll E false n k),
        spansSexp (stdAll (findFromOf attempt n) n k)]
      toString (Sexp.list (.atom "ok" :: perK))
  | _, _, _ => "(bad-op)"

/-! ### sub-head `methods`: the adapter model of `Model/Compat.lean`, all 21 methods -/

namespace C06M
open RegexVerif.Compat

def optPair? : Sexp → Option (Option (Nat × Nat))
  | .atom "x" => some none
  | .list [i, l] =>
    match i.nat?, l.nat? with
    | some i, some l => some (some (i, l))
    | _, _ => none
  | _ => none

/-- `(index len (cap…))`, a cap being `x` or `(index len)` -/
def rmatch? : Sexp → Option RMatch
  | .list [i, l, .list caps] =>
    match i.nat?, l.nat?, caps.mapM optPair? with
    | some i, some l, some caps => some ⟨i, l, caps⟩
    | _, _, _ => none
  | _ => none

/-- `(rune byte…)` -/
def seg? : Sexp → Option (Int × List Nat)
  | .list (r :: bs) =>
    match r.int?, bs.mapM nat? with
    | some r, some bs => some (r, bs)
    | _, _ => none
  | _ => none

/-- `(rune size)` -/
def item? : Sexp → Option (Int × Nat)
  | .list [r, w] =>
    match r.int?, w.nat? with
    | some r, some w => some (r, w)
    | _, _ => none
  | _ => none

def showRes {α : Type} (f : α → Sexp) : Res α → Sexp
  | .ok a => f a
  | .panic => .atom "panic"

def showOpt {α : Type} (f : α → Sexp) : Option α → Sexp
  | none => .atom "nil"
  | some a => f a

def showList {α : Type} (f : α → Sexp) (l : List α) : Sexp := .list (l.map f)

def showBytes : List Nat → Sexp := showList ofNat
def showInts : List Int → Sexp := showList ofInt

end C06M

open C06M RegexVerif.Compat in
/-- `(c06 methods (rtl B) (err B) (nil B) (segs ((rune byte…)…)) (rfail B) (ritems ((rune size)…))
    (ms ((index len (cap…))…)) (ns (n…)))` ↦ `(ok v…)`: the 13 methods without limit in the order of
    `compat.Matcher`'s model, then the 8 find-all methods, each for every `n` of `ns`.  The byte and
    string methods run on `segs` (`nil` = the `[]byte` argument is the nil slice), the reader methods on
    the reader `ritems`/`rfail`, all on the same engine answer `ms`/`err`/`rtl`. -/
def handleC06Methods (args : List Sexp) : String :=
  let get (key : String) : Option Sexp := (lookup key args).bind (·.head?)
  match (get "rtl").bind bool?, (get "err").bind bool?, (get "nil").bind bool?,
        ((get "segs").bind list?).bind (·.mapM seg?), (get "rfail").bind bool?,
        ((get "ritems").bind list?).bind (·.mapM item?), ((get "ms").bind list?).bind (·.mapM rmatch?),
        (get "ns").bind ints? with
  | some rtl, some err, some isNil, some segs, some rfail, some ritems, some ms, some ns =>
    let a : Ans := ⟨rtl, ms, err⟩
    let b : Option (List (Int × List Nat)) := if isNil then none else some segs
    let rd : Reader := ⟨ritems, rfail⟩
    let bool (x : Bool) : Sexp := ofBool x
    let single : List Sexp := [
      showRes bool (Compat.Match a),
      showRes bool (Compat.MatchString a),
      showRes bool (Compat.MatchReader a rd),
      showRes (showOpt showBytes) (Compat.Find a b),
      showRes (showOpt showInts) (Compat.FindIndex a b),
      showRes showBytes (Compat.FindString a segs),
      showRes (showOpt showInts) (Compat.FindStringIndex a segs),
      showRes (showOpt showInts) (Compat.FindReaderIndex a rd),
      showRes (showOpt (showList (showOpt showBytes))) (Compat.FindSubmatch a b),
      showRes (showOpt showInts) (Compat.FindSubmatchIndex a b),
      showRes (showOpt (showList showBytes)) (Compat.FindStringSubmatch a segs),
      showRes (showOpt showInts) (Compat.FindStringSubmatchIndex a segs),
      showRes (showOpt showInts) (Compat.FindReaderSubmatchIndex a rd)]
    let perN (n : Int) : List Sexp := [
      showRes (showOpt (showList (showOpt showBytes))) (Compat.FindAll a b n),
      showRes (showOpt (showList showInts)) (Compat.FindAllIndex a b n),
      showRes (showOpt (showList showBytes)) (Compat.FindAllString a segs n),
      showRes (showOpt (showList showInts)) (Compat.FindAllStringIndex a segs n),
      showRes (showOpt (showList (showList (showOpt showBytes)))) (Compat.FindAllSubmatch a b n),
      showRes (showOpt (showList showInts)) (Compat.FindAllSubmatchIndex a b n),
      showRes (showOpt (showList (showList showBytes))) (Compat.FindAllStringSubmatch a segs n),
      showRes (showOpt (showList showInts)) (Compat.FindAllStringSubmatchIndex a segs n)]
    toString (Sexp.list (.atom "ok" :: single ++ ns.flatMap perN))
  | _, _, _, _, _, _, _, _ => "(bad-op)"

open C06M RegexVerif.Compat in
/-- `(c06 spec (nil B) (segs ((rune byte…)…)) (table (e…)) (ns (n…)))`, `e` = `x` or `(lo hi (cap…))`
    in byte offsets, one entry per rune boundary 0 … n: the standard library's own "leftmost match at
    or after this position".  ↦ `(ok v…)`: the specification `Compat.Std` of the 21 methods in the same
    order as `methods` (the reader methods on a reader over the same text). -/
def handleC06Spec (args : List Sexp) : String :=
  let get (key : String) : Option Sexp := (lookup key args).bind (·.head?)
  let smatch? : Sexp → Option (Option SMatch)
    | .atom "x" => some none
    | .list [lo, hi, .list caps] =>
      match lo.nat?, hi.nat?, caps.mapM optPair? with
      | some lo, some hi, some caps => some (some ⟨lo, hi, caps⟩)
      | _, _, _ => none
    | _ => none
  match (get "nil").bind bool?, ((get "segs").bind list?).bind (·.mapM seg?),
        ((get "table").bind list?).bind (·.mapM smatch?), (get "ns").bind ints? with
  | some isNil, some segs, some table, some ns =>
    let d := decoded segs
    -- byte position ↦ rune boundary index
    let bounds : List Nat := (List.range (d.length + 1)).map (off d)
    let tab := table.toArray
    let ff : Nat → Option SMatch := fun pos =>
      match bounds.idxOf? pos with
      | some i => (tab[i]?).bind id
      | none => none
    let s := bytesOf segs
    let b : Option (List Nat) := if isNil then none else some s
    let bool (x : Bool) : Sexp := ofBool x
    let single : List Sexp := [
      bool (Std.Match ff), bool (Std.Match ff), bool (Std.Match ff),
      showOpt showBytes (Std.Find ff b),
      showOpt showInts (Std.FindIndex ff),
      showBytes (Std.FindString ff s),
      showOpt showInts (Std.FindIndex ff),
      showOpt showInts (Std.FindIndex ff),
      showOpt (showList (showOpt showBytes)) (Std.FindSubmatch ff b),
      showOpt showInts (Std.FindSubmatchIndex ff),
      showOpt (showList showBytes) (Std.FindStringSubmatch ff s),
      showOpt showInts (Std.FindSubmatchIndex ff),
      showOpt showInts (Std.FindSubmatchIndex ff)]
    let perN (n : Int) : List Sexp := [
      showOpt (showList (showOpt showBytes)) (Std.FindAll ff d b n),
      showOpt (showList showInts) (Std.FindAllIndex ff d n),
      showOpt (showList showBytes) (Std.FindAllString ff d s n),
      showOpt (showList showInts) (Std.FindAllIndex ff d n),
      showOpt (showList (showList (showOpt showBytes))) (Std.FindAllSubmatch ff d b n),
      showOpt (showList showInts) (Std.FindAllSubmatchIndex ff d n),
      showOpt (showList (showList showBytes)) (Std.FindAllStringSubmatch ff d s n),
      showOpt (showList showInts) (Std.FindAllSubmatchIndex ff d n)]
    toString (Sexp.list (.atom "ok" :: single ++ ns.flatMap perN))
  | _, _, _, _ => "(bad-op)"

/-- dispatch on the sub-head: `(c06 methods …)` or the find-all loops request `(c06 (n N) …)` -/
def handleC06 (args : List Sexp) : String :=
  match args with
  | .atom "methods" :: rest => handleC06Methods rest
  | .atom "spec" :: rest => handleC06Spec rest
  | _ => handleC06Loops args

end RegexVerif.Driver
