import RegexVerif.Sexp

namespace RegexVerif.Driver
open RegexVerif Sexp

/-- protocol lines with head `c09` (stub) -/
def handleC09 (_args : List Sexp) : String := "(unimplemented)"

end RegexVerif.Driver
