import RegexVerif.Sexp
import RegexVerif.Model.Replace
import RegexVerif.Model.ReplaceStrict

namespace RegexVerif.Driver
open RegexVerif Sexp RegexVerif.Replace

namespace C09

def group? : Sexp → Option (Option (Nat × Nat))
  | .atom _ => some none
  | .list [a, b] => match a.nat?, b.nat? with
    | some i, some l => some (some (i, l))
    | _, _ => none
  | _ => none

def match? : Sexp → Option Match
  | .list (i :: l :: gs) =>
    match i.nat?, l.nat?, gs.mapM group? with
    | some i, some l, some gs => some ⟨i, l, gs⟩
    | _, _, _ => none
  | _ => none

def pair? : Sexp → Option (Nat × Nat)
  | .list [a, b] => match a.nat?, b.nat? with
    | some i, some l => some (i, l)
    | _, _ => none
  | _ => none

def name? : Sexp → Option (List Nat × Nat)
  | .list [a, b] => match a.nats?, b.nat? with
    | some n, some k => some (n, k)
    | _, _ => none
  | _ => none

def resNats : Res (List Nat) → List Sexp
  | .ok s => [.atom "ok", ofNats s]
  | .err => [.atom "err"]
  | .panic => [.atom "panic"]

def resLists : Res (List (List Nat)) → List Sexp
  | .ok ps => [.atom "ok", .list (ps.map ofNats)]
  | .err => [.atom "err"]
  | .panic => [.atom "panic"]

end C09

open C09 in
/-- `(c09 (text …) (rms M…) (sms M…) (rep …) (caps nil | (n s)…) (capsize k) (names ((name…) num)…)
     (word (…)) (ecma b) (count c) (rtl b))` with `M = (index len G…)`, `G = (i l) | u`.
    Answer: the parsed replacement (rules, strings), validity of both sequences, and the results of
    the Replace / ReplaceFunc / Split models.  The models run are the *strict* variants
    (`Model/ReplaceStrict.lean`: group slots, capture spans and string indices indexed as in Go, `panic`
    when out of range); by `Props.C09.strict_eq_total*` they return what the total models return
    whenever they return.  The third `valid` flag is the conjunction of the hypotheses of
    `Props.C09.*_no_panic*` on the regex's tables and Go's matches: `envOk`, `capsOk` and `MatchOk
    capsize text m` for every delivered match. -/
def handleC09 (args : List Sexp) : String :=
  let field (k : String) : Option (List Sexp) := lookup k args
  let r : Option String := do
    let text ← (← field "text").head? >>= (·.nats?)
    let rms ← (← field "rms").mapM match?
    let sms ← (← field "sms").mapM match?
    let rep ← (← field "rep").head? >>= (·.nats?)
    let capsArgs ← field "caps"
    let caps : Option (List (Nat × Nat)) ←
      (match capsArgs with
       | [.atom _] => some none
       | l => (l.mapM pair?).map some)
    let capsize ← (← field "capsize").head? >>= (·.nat?)
    let names ← (← field "names").mapM name?
    let word ← (← field "word").head? >>= (·.nats?)
    let ecma ← (← field "ecma").head? >>= (·.bool?)
    let count ← (← field "count").head? >>= (·.int?)
    let rtl ← (← field "rtl").head? >>= (·.bool?)
    let env : Env := ⟨caps, capsize, names, ecma⟩
    let isWord := fun c => word.contains c
    let tablesOk := envOk env && capsOk env && (rms ++ sms).all (MatchOk capsize text)
    let validS := mk "valid" [ofBool (valid rtl text rms), ofBool (valid rtl text sms), ofBool tablesOk]
    let splitS := mk "split" (resLists (splitStrict text sms count rtl))
    match newReplacerData isWord env rep with
    | .error e =>
      let es := match e with | .overflow => "overflow" | .unmodelled => "unmodelled"
      pure (toString (mk "ans" [mk "parse" [.atom es], validS, splitS]))
    | .ok d =>
      let pieces := d.pieces
      let parseS := mk "parse" [.atom "ok", mk "rules" (d.rules.map ofInt), mk "strings" (d.strings.map ofNats)]
      let replS := mk "replace" (resNats (replaceDataStrict text rms d count rtl))
      let funcS := mk "func" (resNats (replaceFuncStrict text rms (expand? pieces text) count rtl))
      pure (toString (mk "ans" [parseS, validS, replS, funcS, splitS]))
  r.getD "(bad-op)"

end RegexVerif.Driver
