import RegexVerif.Sexp
import RegexVerif.Model.AutoAtomic
import RegexVerif.Model.RewriteDecisions
import RegexVerif.Driver.SpecIO
import RegexVerif.Driver.C04

/-! Driver glue for the rewrite-decision model (leg Rw of C05): readers / printers of the n-ary tree. -/
namespace RegexVerif.Driver
open RegexVerif Sexp Spec AutoAtomic RewriteDecisions

def cp? (s : Sexp) : Option CP :=
  match pred? s with
  | some (.one c false) => some (.one c)
  | some (.notone c false) => some (.notone c)
  | some (.set c false) => some (.set c)
  | _ => none

def lk? : Sexp → Option LK
  | .atom "g" => some .greedy
  | .atom "l" => some .lzy
  | .atom "a" => some .atomic
  | _ => none

def hi? : Sexp → Option (Option Nat)
  | .atom "inf" => some none
  | x => (x.nat?).map some

partial def rnode? : Sexp → Option RNode
  | .list [.atom "chr", o, p] => do some (.chr (← o.nat?) (← cp? p))
  | .list [.atom "cloop", o, k, p, lo, hi] => do some (.cloop (← o.nat?) (← lk? k) (← cp? p) (← lo.nat?) (← hi? hi))
  | .list [.atom "multi", o, .list cs] => do some (.multi (← o.nat?) (← cs.mapM (·.nat?)))
  | .list [.atom "empty"] => some .empty
  | .list [.atom "nothing"] => some .nothing
  | .list [.atom "bump"] => some .bump
  | .list [.atom "anchor", .atom a] => do some (.anchor (← anchor? a))
  | .list [.atom "ref", g, ci] => do some (.ref (← g.nat?) (← ci.bool?))
  | .list [.atom "alt", o, .list cs] => do some (.alt (← o.nat?) (← cs.mapM rnode?))
  | .list [.atom "cat", o, .list cs] => do some (.cat (← o.nat?) (← cs.mapM rnode?))
  | .list [.atom "loop", lz, lo, hi, b] => do some (.loop (← lz.bool?) (← lo.nat?) (← hi? hi) (← rnode? b))
  | .list [.atom "cap", g, b] => do some (.cap (← g.nat?) (← rnode? b))
  | .list [.atom "look", bh, ng, b] => do some (.look (← bh.bool?) (← ng.bool?) (← rnode? b))
  | .list [.atom "atomic", b] => do some (.atomic (← rnode? b))
  | .list [.atom "refcond", g, y, n] => do some (.refCond (← g.nat?) (← rnode? y) (← rnode? n))
  | .list [.atom "exprcond", c, y, n] => do some (.exprCond (← rnode? c) (← rnode? y) (← rnode? n))
  | _ => none

def cpSexp (p : CP) : Sexp := predSexp p.pred

def hiSexp : Option Nat → Sexp
  | none => .atom "inf"
  | some h => ofNat h

partial def rnodeSexp : RNode → Sexp
  | .chr o p => mk "chr" [ofNat o, cpSexp p]
  | .cloop o k p lo hi =>
    mk "cloop" [ofNat o, .atom (match k with | .greedy => "g" | .lzy => "l" | .atomic => "a"), cpSexp p, ofNat lo, hiSexp hi]
  | .multi o cs => mk "multi" [ofNat o, ofNats cs]
  | .empty => mk "empty" []
  | .nothing => mk "nothing" []
  | .bump => mk "bump" []
  | .anchor a => mk "anchor" [.atom (anchorName a)]
  | .ref g ci => mk "ref" [ofNat g, ofBool ci]
  | .alt o cs => mk "alt" [ofNat o, .list (cs.map rnodeSexp)]
  | .cat o cs => mk "cat" [ofNat o, .list (cs.map rnodeSexp)]
  | .loop lz lo hi b => mk "loop" [ofBool lz, ofNat lo, hiSexp hi, rnodeSexp b]
  | .cap g b => mk "cap" [ofNat g, rnodeSexp b]
  | .look bh ng b => mk "look" [ofBool bh, ofBool ng, rnodeSexp b]
  | .atomic b => mk "atomic" [rnodeSexp b]
  | .refCond g y n => mk "refcond" [ofNat g, rnodeSexp y, rnodeSexp n]
  | .exprCond c y n => mk "exprcond" [rnodeSexp c, rnodeSexp y, rnodeSexp n]

partial def patSexp : Pat → Sexp
  | .empty => mk "empty" []
  | .nothing => mk "nothing" []
  | .chr p => mk "chr" [predSexp p]
  | .anchor a => mk "anchor" [.atom (anchorName a)]
  | .seq a b => mk "seq" [patSexp a, patSexp b]
  | .alt a b => mk "alt" [patSexp a, patSexp b]
  | .quant lz lo hi b => mk "quant" [ofBool lz, ofNat lo, hiSexp hi, patSexp b]
  | .cap g b => mk "cap" [ofNat g, patSexp b]
  | .look bh ng b => mk "look" [ofBool bh, ofBool ng, patSexp b]
  | .atomic b => mk "atomic" [patSexp b]
  | .ref g ci => mk "ref" [ofNat g, ofBool ci]
  | .refCond g y n => mk "refcond" [ofNat g, patSexp y, patSexp n]
  | .exprCond c y n => mk "exprcond" [patSexp c, patSexp y, patSexp n]

/-- some alternation of the tree has two adjacent branches (Concatenates of at least two children) whose first
    children are the same loop with `M == N` in DIFFERENT kinds: what the second reduction of the ending walk does
    with them depends on which of the loops `findAndMakeLoopsAtomic` made atomic (see `samePrefix`); the two
    readings `fk` cover "none / all of them", this predicate names the patterns where a mixed outcome is possible
    (driver glue, diagnostic) -/
partial def kindSensitive : RNode → Bool
  | .alt _ cs =>
    let firsts := cs.map firstOf
    let rec adj : List (Option RNode) → Bool
      | some a :: some b :: rest => (samePrefix true a b && !samePrefix false a b) || adj (some b :: rest)
      | _ :: rest => adj rest
      | [] => false
    adj firsts || cs.any kindSensitive
  | .cat _ cs => cs.any kindSensitive
  | .loop _ _ _ b => kindSensitive b
  | .cap _ b => kindSensitive b
  | .look _ _ b => kindSensitive b
  | .atomic b => kindSensitive b
  | .refCond _ y n => kindSensitive y || kindSensitive n
  | .exprCond c y n => kindSensitive c || kindSensitive y || kindSensitive n
  | _ => false

/-- remove the bump-along markers (driver glue) -/
partial def stripBump : RNode → RNode
  | .alt o cs => .alt o (cs.map stripBump)
  | .cat o cs => .cat o ((cs.filter (fun c => match c with | .bump => false | _ => true)).map stripBump)
  | .loop z lo hi b => .loop z lo hi (stripBump b)
  | .cap g b => .cap g (stripBump b)
  | .look bh ng b => .look bh ng (stripBump b)
  | .atomic b => .atomic (stripBump b)
  | .refCond g y n => .refCond g (stripBump y) (stripBump n)
  | .exprCond c y n => .exprCond (stripBump c) (stripBump y) (stripBump n)
  | n => n

/-- `(c05 bump <rnode>)` → `(ok 0|1 <site 0|1>)`: the engine's final left-to-right tree is what `placeBump` makes of
    the same tree without its markers; `site` = a marker is placed

    `(c05 topat <rtl> <rnode>)` → the specification pattern of the n-ary tree (must be what
    `gen.FromGoTree` prints for the same engine tree)

    `(c05 reduce <on 0|1> <rtl> <rnode>)` → `(ok <ll-agrees 0|1> <rnode'>)`: `reduceAll` (all cases of
    the loop coalescing enabled) of the tree, and whether the proved variant (`ll = false`) gives the same

    `(c05 step <on> <rtl> <pa> <rnode>)` → `(ok <rnode'>)`: one `reduce()` of a node with reduced children -/
def handleC05Rw (args : List Sexp) : Option String :=
  match args with
  | [.atom "bump", n] =>
    match rnode? n with
    | some n =>
      let n0 := stripBump n
      some (toString (Sexp.list [.atom "ok", ofBool (RNode.same (placeBump false true n0) n), ofBool (bumpSite false true n0).isSome]))
    | none => some "(bad-args)"
  | [.atom "topat", rtl, n] =>
    match rtl.bool?, rnode? n with
    | some rtl, some n => some (toString (patSexp (toPat rtl n)))
    | _, _ => some "(bad-args)"
  | [.atom "reduce", on, rtl, n] =>
    match on.bool?, rtl.bool?, rnode? n with
    | some on, some rtl, some n =>
      let fuel := 2 * size n + 8
      let r := reduceAll true on true fuel rtl false n
      let r0 := reduceAll false on true fuel rtl false n
      some (toString (Sexp.list [.atom "ok", ofBool (RNode.same r r0), rnodeSexp r]))
    | _, _, _ => some "(bad-args)"
  | [.atom "step", on, rtl, pa, n] =>
    match on.bool?, rtl.bool?, pa.bool?, rnode? n with
    | some on, some rtl, some pa, some n =>
      some (toString (Sexp.list [.atom "ok", rnodeSexp (reduceNode true false on rtl (size n + 2) pa n)]))
    | _, _, _, _ => some "(bad-args)"
  | _ => none

end RegexVerif.Driver
