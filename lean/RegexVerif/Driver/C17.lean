import RegexVerif.Sexp

namespace RegexVerif.Driver
open RegexVerif Sexp

/-- protocol lines with head `c17` (stub) -/
def handleC17 (_args : List Sexp) : String := "(unimplemented)"

end RegexVerif.Driver
