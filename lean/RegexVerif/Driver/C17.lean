import RegexVerif.Sexp
import RegexVerif.Model.Groups

namespace RegexVerif.Driver
open RegexVerif Sexp

private def c17Event (e : Sexp) : Option Groups.Event :=
  match e with
  | .list [.atom "u"] => some .unnamed
  | .list [.atom "x"] => some .noncap
  | .list [.atom "k", n] => n.nat?.map .numbered
  | .list [.atom "z", n] => n.nat?.map .numbered0
  | .list [.atom "n", cps] => cps.nats?.map fun l => .named (String.ofList (l.map Char.ofNat))
  | _ => none

private def c17Name (s : String) : Sexp := ofNats (s.toList.map Char.toNat)

/-- `(c17 (cfg mco ecma n) (evs ev…))` ↦
    `(ok (nums (…)) (names (…)…) (caps nil | (k v)…) (capsize c) (ev (…)))` or `(err)` -/
def handleC17 (args : List Sexp) : String :=
  match lookup "cfg" args, lookup "evs" args with
  | some [a, b, c], some evs =>
    match a.bool?, b.bool?, c.bool?, evs.mapM c17Event with
    | some mco, some ecma, some n, some es =>
      match Groups.assign es { mco := mco, ecma := ecma, explicitCapture := n } with
      | none => "(err)"
      | some m =>
        let caps : Sexp := match m.codeCaps with
          | none => mk "caps" [atom "nil"]
          | some l => mk "caps" ((List.range l.length).zip l |>.map fun (i, k) => list [ofNat k, ofNat i])
        let ev : List Int := m.evNums.map fun o => match o with | some k => (k : Int) | none => -1
        toString (mk "ok" [mk "nums" [ofNats (Groups.getGroupNumbers m)],
                           mk "names" ((Groups.getGroupNames m).map c17Name),
                           caps, mk "capsize" [ofNat m.capsize], mk "ev" [ofInts ev]])
    | _, _, _, _ => "(bad-op)"
  | _, _ => "(bad-op)"

end RegexVerif.Driver
