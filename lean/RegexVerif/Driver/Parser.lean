import Std.Data.HashMap
import Std.Data.HashSet
import RegexVerif.Sexp
import RegexVerif.Model.Parser

namespace RegexVerif.Driver
open RegexVerif Sexp
open RegexVerif.Parser

/-! Driver glue for the parser model (unverified IO code).

Request: `(c18 parser (pat r…) (opts mask) (mco 0|1) (word r…) (estart r…) (epart r…)
  (lower (r l)…) (islower r…) (isupper r…) (orbit (r e…)…) (part r…) (cat (id r…)…)
  (catname ((runes…) id)…))`
Answer: `(ok TREE TABLES)` | `(error code)` | `(fault what)` | `(fuel)`. -/

private def natSet (rest : List Sexp) (key : String) : Nat → Bool :=
  let rs := ((lookup key rest).getD []).filterMap (·.nat?)
  let tbl : Std.HashSet Nat := rs.foldl (fun s r => s.insert r) {}
  fun r => tbl.contains r

def mkOracles (rest : List Sexp) : Oracles :=
  let lowerT : Std.HashMap Nat Nat := ((lookup "lower" rest).getD []).foldl (fun m row =>
    match row.nats? with
    | some [i, l] => m.insert i l
    | _ => m) {}
  let orbitT : Std.HashMap Nat (List Nat) := ((lookup "orbit" rest).getD []).foldl (fun m row =>
    match row.nats? with
    | some (i :: es) => m.insert i es
    | _ => m) {}
  let catT : Std.HashMap Nat (Std.HashSet Nat) := ((lookup "cat" rest).getD []).foldl (fun m row =>
    match row.nats? with
    | some (id :: rs) => m.insert id (rs.foldl (fun s r => s.insert r) ((m.get? id).getD {}))
    | _ => m) {}
  let names : List (List Nat × Nat) := ((lookup "catname" rest).getD []).filterMap fun row =>
    match row with
    | .list [nm, id] => match nm.nats?, id.nat? with
      | some n, some i => some (n, i)
      | _, _ => none
    | _ => none
  { isWord := natSet rest "word", ecmaStart := natSet rest "estart", ecmaPart := natSet rest "epart",
    toLower := fun r => (lowerT.get? r).getD r,
    isLower := natSet rest "islower", isUpper := natSet rest "isupper",
    orbit := fun r => (orbitT.get? r).getD [],
    participates := natSet rest "part",
    cat := fun id r => match catT.get? id with | some s => s.contains r | none => false,
    catName := fun nm => names.lookup nm }

private def flatSexp (f : Class.Flat) (sub : List Sexp) : Sexp :=
  mk "set" ([mk "rs" (f.ranges.flatMap fun r => [ofNat r.1, ofNat r.2]),
             mk "cs" (f.cats.flatMap fun c => [ofNat c.1, ofBool c.2]), ofBool f.neg, ofBool f.anything] ++ sub)

private partial def classSexp : Class.Class → Sexp
  | .leaf f => flatSexp f []
  | .minus f s => flatSexp f [classSexp s]

private partial def nodeSexp : RNode → Sexp
  | .mk t o ch str set m n kids =>
    mk "n" [ofNat t.toNat, ofNat o.toMask, ofNat ch, ofNats str,
      (match set with | none => atom "nil" | some c => classSexp c), ofInt m, ofInt n,
      Sexp.list (kids.map nodeSexp)]

private def strRunes (s : String) : Sexp := ofNats (s.toList.map Char.toNat)

private def lexLt : List Nat → List Nat → Bool
  | [], [] => false
  | [], _ :: _ => true
  | _ :: _, [] => false
  | a :: as, b :: bs => if a < b then true else if a > b then false else lexLt as bs

private def insertName (x : List Nat × Nat) : List (List Nat × Nat) → List (List Nat × Nat)
  | [] => [x]
  | y :: ys => if lexLt x.1 y.1 then x :: y :: ys else y :: insertName x ys

private def tablesSexp (t : Groups.Tables) : Sexp :=
  mk "tables" [mk "caps" ((Groups.isort t.caps).map ofNat),
    (match t.capnumlist with | none => atom "nil" | some l => ofNats l), ofNat t.captop,
    (match t.capnames with
     | none => atom "nil"
     | some cn =>
       let sorted := (cn.map fun p => (p.1.toList.map Char.toNat, p.2)).foldl (fun acc x => insertName x acc) []
       Sexp.list (sorted.map fun p => Sexp.list [ofNats p.1, ofNat p.2])),
    (match t.caplist with | none => atom "nil" | some l => Sexp.list (l.map strRunes))]

private def errName (c : ErrCode) : String := (reprStr c).replace "RegexVerif.Parser.ErrCode." ""
private def faultName (c : Fault) : String := (reprStr c).replace "RegexVerif.Parser.Fault." ""

/-- `(c18 parser …)` -/
def handleParser (args : List Sexp) : String :=
  match (lookup "pat" args).bind (fun l => (Sexp.list l).nats?), ((lookup "opts" args).bind (·.head?)).bind (·.nat?),
        ((lookup "mco" args).bind (·.head?)).bind (·.bool?) with
  | some pat, some mask, some mco =>
    let E : Env := { pat := pat, opts := Opts.ofMask mask, mco := mco, orc := mkOracles args }
    match parse E with
    | .ok t => if wfTree t then toString (mk "ok" [nodeSexp t.root, tablesSexp t.tables]) else "(notwf)"
    | .error c => toString (mk "error" [atom (errName c)])
    | .fault f => toString (mk "fault" [atom (faultName f)])
    | .fuel => "(fuel)"
  | _, _, _ => "(bad-op)"

end RegexVerif.Driver
