import RegexVerif.Sexp
import RegexVerif.Model.StringFilter
import RegexVerif.Driver.C03

namespace RegexVerif.Driver
open RegexVerif Sexp

open RegexVerif.StringFilter in
/-- `(set (chars r…) (neg b) (range lo hi)|(range) (dist d))` -/
def setB? (e : Sexp) : Option SetB :=
  match e with
  | .list (.atom "set" :: fs) =>
    match (lookup "chars" fs).bind (·.mapM nat?), (lookup "neg" fs).bind (·.head?) |>.bind bool?,
          lookup "range" fs, (lookup "dist" fs).bind (·.head?) |>.bind int? with
    | some chars, some neg, some rg, some d =>
      let range : Option (Option (Nat × Nat)) :=
        match rg with
        | [] => some none
        | [lo, hi] => match lo.nat?, hi.nat? with
          | some lo, some hi => some (some (lo, hi))
          | _, _ => none
        | _ => none
      range.map fun range => { chars := chars, negated := neg, range := range, distance := d }
    | _, _, _, _ => none
  | _ => none

open RegexVerif.StringFilter in
/-- leg Sf.  `(strfilter (rtl b) (usesstart b) (hasopts b) (mode M) (minlen L) (prefix b…) (prefixes (b…)…)
     (sets <set>…) (fchar c) (fstring b…) (fdist d) (lal (str b…) (ci b) (char c) (chars r…) (loop b))|(lal) (input b…))`
    — strings as BYTE lists, `chars`/`fchar`/`char` as runes — ↦ `(ok <kind>|none (c ok)…)`: which filter the
    model of `newStringPrefixFilter` installs and its answer for every `startAt` in `0 … len(input)+1` -/
def handleStrFilter (fs : List Sexp) : String :=
  let one (k : String) : Option Sexp := (lookup k fs).bind (·.head?)
  let nats (k : String) : Option (List Nat) := (lookup k fs).bind (·.mapM nat?)
  let lal : Option (Option LitB) :=
    match lookup "lal" fs with
    | some [] => some none
    | some ls =>
      let o (k : String) : Option Sexp := (lookup k ls).bind (·.head?)
      match (lookup "str" ls).bind (·.mapM nat?), (o "ci").bind bool?, (o "char").bind nat?,
            (lookup "chars" ls).bind (·.mapM nat?), (o "loop").bind bool? with
      | some str, some ci, some ch, some chars, some loop =>
        some (some { str := str, strIgnoreCase := ci, char := ch, chars := chars, hasLoopSet := loop })
      | _, _, _, _, _ => none
    | none => none
  match (one "rtl").bind bool?, (one "usesstart").bind bool?, (one "hasopts").bind bool?,
        ((one "mode").bind sym?).bind mode?, (one "minlen").bind nat?, nats "prefix",
        (lookup "prefixes" fs).bind (·.mapM nats?), (lookup "sets" fs).bind (·.mapM setB?) with
  | some rtl, some usesStart, some hasOpts, some mode, some minLen, some pre, some pres, some sets =>
    match (one "fchar").bind nat?, nats "fstring", (one "fdist").bind int?, lal, nats "input" with
    | some fchar, some fstring, some fdist, some lal, some input =>
      let o : StrOpts := { mode := mode, minLen := minLen, leadingPrefix := pre, prefixes := pres, sets := sets,
                           fixedChar := fchar, fixedString := fstring, fixedDistance := fdist, literalAfterLoop := lal }
      let code : CodeB := { rightToLeft := rtl, usesStartAnchor := usesStart, opts := if hasOpts then some o else none }
      match newStringPrefixFilter code with
      | none => "(ok none)"
      | some (kind, f) =>
        let ans := (List.range (input.length + 2)).map fun startAt =>
          let r := f input startAt
          Sexp.list [ofNat r.1, ofBool r.2]
        toString (Sexp.list (.atom "ok" :: .atom kind.name :: ans))
    | _, _, _, _, _ => "(bad-op)"
  | _, _, _, _, _, _, _, _ => "(bad-op)"

/-- protocol lines with head `c02`: `(c02 (strfilter …))` ↦ see `handleStrFilter` -/
def handleC02 (args : List Sexp) : String :=
  match args with
  | [.list (.atom "strfilter" :: fs)] => handleStrFilter fs
  | _ => "(unimplemented)"

end RegexVerif.Driver
