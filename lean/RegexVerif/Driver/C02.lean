import RegexVerif.Sexp

namespace RegexVerif.Driver
open RegexVerif Sexp

/-- protocol lines with head `c02` (stub) -/
def handleC02 (_args : List Sexp) : String := "(unimplemented)"

end RegexVerif.Driver
