import RegexVerif.Sexp
import RegexVerif.Model.Clock
import RegexVerif.Model.ClockConc

namespace RegexVerif.Driver
open RegexVerif Sexp Clock

private def parseApi (e : Sexp) : Option Api :=
  match e.head?, e.args with
  | some "make", [a, b, c] => do some (Api.make (← a.nat?) (← b.int?) (← c.int?))
  | some "stop", [a, b] => do some (Api.stop (← a.int?) (← b.int?))
  | some "probe", [a] => do some (Api.probe (← a.int?))
  | some "fin", [a, b] => do some (Api.fin (← a.nat?) (← b.int?))
  | _, _ => none

private def renderObs : Obs → Sexp
  | .make id armed dl lo hi fresh => mk "make" [ofNat id, ofBool armed, ofInt dl, ofInt lo, ofInt hi, ofBool fresh]
  | .stop t => mk "stop" [ofInt t]
  | .probe r t => mk "probe" [ofBool r, ofInt t]
  | .fin id k r => mk "fin" [ofNat id, ofBool k, ofBool r]

private def parseSimEv (e : Sexp) : Option ClockConc.SimEv :=
  match e.head?, e.args with
  | some "begin", [a, b, c] => do some (ClockConc.SimEv.begin (← a.nat?) (← b.int?) (← c.int?))
  | some "step", [a, b] => do some (ClockConc.SimEv.step (← a.nat?) (← b.int?))
  | _, _ => none

private def renderSimObs (o : ClockConc.SimObs) : Sexp :=
  mk "o" [ofNat o.id, ofBool o.moved, ofNat o.pc, ofInt o.e, ofInt o.tMade, ofBool o.wasRunning,
    ofInt o.current, ofInt o.clockEnd, ofBool o.running]

private def parseVariant (rest : List Sexp) : ClockConc.Variant :=
  match (lookup "variant" rest).bind (·.head?) |>.bind (·.sym?) with
  | some "old" => .old
  | some "split" => .split
  | _ => .new

/-- `(c14 sim (period P) (init started startNs now) (events e…))` → `(ok obs…)`;
    `(c14 dticks period d)` → `(ok deadlineTicks oldDeadlineTicks)`;
    `(c14 conc (period P) (init current clockEnd running started startNs now) (events (begin g d t) (step g t) …))`
    → `(ok (o g moved pc e tMade wasRunning current clockEnd running) …)`, one item per event: the
    interleaving model (`ClockConc.simulate`, variant new unless `(variant old|split)`) on the clock
    state the harness observed, ideal wake-ups between the events -/
def handleC14 (args : List Sexp) : String :=
  match args with
  | mode :: rest =>
    match mode.sym? with
    | some "dticks" =>
      match rest with
      | [a, b] =>
        match a.int?, b.int? with
        | some period, some d => toString (mk "ok" [ofInt (deadlineTicks period d), ofInt (oldDeadlineTicks period d)])
        | _, _ => "(bad-op)"
      | _ => "(bad-op)"
    | some "sim" =>
      let period := ((lookup "period" rest).bind (·.head?) |>.bind (·.int?))
      let init := (lookup "init" rest).bind (fun xs => xs.mapM Sexp.int?)
      let evs := (lookup "events" rest).bind (fun xs => xs.mapM parseApi)
      match period, init, evs with
      | some period, some [st, startNs, now], some evs =>
        let p : Params := { period := period, eps := 0, slop := goSlop }
        let s0 := if st = 0 then { State.init with now := now, lastWrite := now } else State.stopped startNs now
        toString (mk "ok" ((simulate p (s0, []) evs).map renderObs))
      | _, _, _ => "(bad-op)"
    | some "conc" =>
      let period := ((lookup "period" rest).bind (·.head?) |>.bind (·.int?))
      let init := (lookup "init" rest).bind (fun xs => xs.mapM Sexp.int?)
      let evs := (lookup "events" rest).bind (fun xs => xs.mapM parseSimEv)
      match period, init, evs with
      | some period, some [cur, ce, running, started, startNs, now], some evs =>
        let p : Params := { period := period, eps := 0, slop := goSlop }
        let c := ClockConc.observedClock p cur ce (running != 0) (started != 0) startNs now
        let s0 : ClockConc.CState := { clk := c, gs := [], stops := 0 }
        toString (mk "ok" ((ClockConc.simulate (parseVariant rest) p (s0, []) evs).map renderSimObs))
      | _, _, _ => "(bad-op)"
    | _ => "(bad-op)"
  | _ => "(bad-op)"

end RegexVerif.Driver
