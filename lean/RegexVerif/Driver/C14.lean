import RegexVerif.Sexp

namespace RegexVerif.Driver
open RegexVerif Sexp

/-- protocol lines with head `c14` (stub) -/
def handleC14 (_args : List Sexp) : String := "(unimplemented)"

end RegexVerif.Driver
