import RegexVerif.Sexp
import RegexVerif.Model.Capacity

namespace RegexVerif.Driver
open RegexVerif Sexp Capacity

/-- protocol lines with head `c13`:
    `(c13 sim L tc (used₁ used₂ …))` — initial allocation, then one storage check per entry (slots in use at
       that check) → `(ok len)` or `(err i len)` (check number i failed; len = length of the stack then);
    `(c13 alloc L tc)` → `(alloc n)`;  `(c13 grow L len)` → `(grow n)` | `(nogrow)`;
    `(c13 prog (code₀ code₁ …))` — decode the code array with the regenerated opcodeSize table →
       `(prog ninstr potential trackcount nullmarks gotos)` or `(bad)`. -/
def handleC13 (args : List Sexp) : String :=
  match args with
  | [mode, a, b, c] =>
    match mode.sym?, a.int?, b.nat?, c.nats? with
    | some "sim", some L, some tc, some us =>
      match simulate L tc (alloc0 L tc) 0 us with
      | (len, none) => toString (mk "ok" [ofNat len])
      | (len, some i) => toString (mk "err" [ofNat i, ofNat len])
    | _, _, _, _ => "(bad-op)"
  | [mode, a, b] =>
    match mode.sym?, a.int?, b.nat? with
    | some "alloc", some L, some tc => toString (mk "alloc" [ofNat (alloc0 L tc)])
    | some "grow", some L, some len =>
      match grow L len with
      | some n => toString (mk "grow" [ofNat n])
      | none => "(nogrow)"
    | _, _, _ => "(bad-op)"
  | [mode, a] =>
    match mode.sym?, a.ints? with
    | some "prog", some codes =>
      match decode codes.length codes with
      | none => "(bad)"
      | some prog =>
        toString (mk "prog" [ofNat prog.length, ofNat (phi (weights prog) 0), ofNat (trackCount prog),
          ofNat (count Generated.Opcodes.opNullmark prog), ofNat (count Generated.Opcodes.opGoto prog)])
    | _, _ => "(bad-op)"
  | _ => "(bad-op)"

end RegexVerif.Driver
