import RegexVerif.Sexp

namespace RegexVerif.Driver
open RegexVerif Sexp

/-- protocol lines with head `c13` (stub) -/
def handleC13 (_args : List Sexp) : String := "(unimplemented)"

end RegexVerif.Driver
