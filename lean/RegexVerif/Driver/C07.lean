import RegexVerif.Sexp

namespace RegexVerif.Driver
open RegexVerif Sexp

/-- protocol lines with head `c07` (stub) -/
def handleC07 (_args : List Sexp) : String := "(unimplemented)"

end RegexVerif.Driver
