import RegexVerif.Sexp
import RegexVerif.Model.Scan

namespace RegexVerif.Driver
open RegexVerif Sexp RegexVerif.Scan

/-- one table entry `(att found q)`: `att` is `x` (the attempt fails) or `(index len)`;
    `found q` is the candidate finder's answer from that position -/
structure ScanEntry where
  att : Option (Nat × Nat)
  found : Bool
  q : Nat

def scanEntry? : Sexp → Option ScanEntry
  | .list [a, f, q] =>
    match f.bool?, q.nat? with
    | some f, some q =>
      match a with
      | .atom "x" => some ⟨none, f, q⟩
      | .list [i, l] =>
        match i.nat?, l.nat? with
        | some i, some l => some ⟨some (i, l), f, q⟩
        | _, _ => none
      | _ => none
    | _, _ => none
  | _ => none

def scanRow? : Sexp → Option (Array ScanEntry)
  | .list es => (es.mapM scanEntry?).map List.toArray
  | _ => none

/-- the matcher as tables: `rows[tsmap[textstart]][pos]`. Out-of-table lookups fail / do not move. -/
def engineOfTables (rows : Array (Array ScanEntry)) (tsmap : Array Nat) (minLen : Nat) : Engine :=
  let entry (ts pos : Nat) : Option ScanEntry := do
    let r ← tsmap[ts]?
    let row ← rows[r]?
    row[pos]?
  { finder := fun ts pos => match entry ts pos with
      | some e => (e.found, e.q)
      | none => (false, pos)
    after := fun _ q => q      -- no hook exposes where a failed execution leaves the scan position
    attempt := fun ts pos => (entry ts pos).bind (·.att)
    minLen := minLen }

def spansSexp : Option (List (Nat × Nat)) → Sexp
  | none => .atom "nil"
  | some l => .list (l.map fun p => .list [ofNat p.1, ofNat p.2])

/-- `(c07 (n N) (rtl b) (minlen L) (ks (k…)) (tsmap (i…)) (rows row…))` ↦
    `(ok (iter ((index len textpos)…)) (k K findAll compatAll)…)` -/
def handleC07 (args : List Sexp) : String :=
  let get (key : String) : Option Sexp := (lookup key args).bind (·.head?)
  match (get "n").bind nat?, (get "rtl").bind bool?, (get "minlen").bind nat?, (get "ks").bind ints?,
        (get "tsmap").bind nats?, (lookup "rows" args).bind (·.mapM scanRow?) with
  | some n, some rtl, some minLen, some ks, some tsmap, some rows =>
    let E := engineOfTables rows.toArray tsmap.toArray minLen
    let iter := (iterate E rtl n).map fun h => Sexp.list [ofNat h.index, ofNat h.len, ofNat h.textpos]
    let perK := ks.map fun k => Sexp.list [.atom "k", ofInt k, spansSexp (findAll E rtl n k), spansSexp (compatAll E rtl n k)]
    toString (Sexp.list (.atom "ok" :: Sexp.list [.atom "iter", .list iter] :: perK))
  | _, _, _, _, _, _ => "(bad-op)"

end RegexVerif.Driver
