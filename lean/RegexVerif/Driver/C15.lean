import RegexVerif.Sexp

namespace RegexVerif.Driver
open RegexVerif Sexp

/-- protocol lines with head `c15` (stub) -/
def handleC15 (_args : List Sexp) : String := "(unimplemented)"

end RegexVerif.Driver
