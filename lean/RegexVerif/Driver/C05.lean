import RegexVerif.Sexp
import RegexVerif.Model.AutoAtomic
import RegexVerif.Driver.SpecIO
import RegexVerif.Driver.C04
import RegexVerif.Driver.C05Rw

namespace RegexVerif.Driver
open RegexVerif Sexp Spec AutoAtomic RewriteDecisions

def siteSexp : Site → Sexp
  | .acc p => mk "acc" [predSexp p]
  | .btw p => mk "btw" [predSexp p]
  | .top => mk "top" []

def errSexp : Err → Sexp
  | .blocked s c => mk "blocked" [siteSexp s, ofNat c]
  | .pending s w => mk "pending" [siteSexp s, ofNat w]
  | .other c => mk "other" [ofNat c]

def predPair? : Sexp → Option (Pred × Pred)
  | .list [a, b] => do some ((← pred? a), (← pred? b))
  | _ => none

/-- the oracle given by two tables: the pairs of tests declared disjoint (either order) and the tests
    declared uniform -/
def tableOracle (dj : List (Pred × Pred)) (un : List Pred) : Oracle :=
  { disj := fun p q => dj.contains (p, q) || dj.contains (q, p), uni := fun p => un.contains p }

/-- `(c05 cert <rtl 0|1> <p> <p'> (disj (<pred> <pred>)…) (uni <pred>…))` →
    `(ok <0|1> (made N) (errs E…))`: the verdict `certTopDir` of `Model/AutoAtomic.lean` for the
    un-rewritten tree `p` and the rewritten tree `p'` (direction `rtl`), the number of rewritten places
    recognised, and why the pair is not certified: `(blocked <site> code)` a pending site meets a
    continuation (classified by `patCode`) that neither fails nor stays at its dead positions,
    `(pending <site> why)` a site is still pending where only the first success is kept and the first
    successes are not known to agree (`why = 17`: the site passed `\B`, `1`: a lazy loop made greedy),
    `(other code)` a difference that is not one of the modelled rewrites.
    `<site>` = `(acc pred)` | `(btw pred)` | `(top)`.

    `(c05 endfix <p'>)` → `(ok 0|1)`: is the tree a fixed point of `endAtomicTop`? -/
def handleC05 (args : List Sexp) : String :=
  match handleC05Rw args with
  | some s => s
  | none =>
  match args with
  | [.atom "rwcert", rtl, n, n', dj, un] =>
    -- `(c05 rwcert <rtl> <un-rewritten n-ary tree> <rewritten n-ary tree> (disj …) (uni …))` →
    -- `(ok <corresponds 0|1> <proved-variant-agrees 0|1> (made N) (errs E…) (mid <rnode>) (dg 0|1))`: Lean's
    -- model of the gated rewrites (`rewriteTop`, all cases) applied to the un-rewritten tree gives `mid`;
    -- `cert` (Model/AutoAtomic.lean) validates `toPat mid` against the engine's rewritten tree: equality up
    -- to certified auto-atomic / ending differences.  When the proved variant (`ll = false`) computes the
    -- same `mid`, Props.C05.rewrites_certified applies: same `find` from every start.  Both readings of an
    -- alternation directly under an Atomic node (`dg`) and of the kind comparison of fixed loops (`fk`) are tried.
    match rtl.bool?, rnode? n, rnode? n', tagged? "disj" dj, tagged? "uni" un with
    | some rtl, some n, some n', some dj, some un =>
      match dj.mapM predPair?, un.mapM pred? with
      | some dj, some un =>
        let o := tableOracle dj un
        let fuel := 2 * size n + 8
        let p' := toPat rtl n'
        let answer (fk dg : Bool) : Bool × String :=
          let mid := rewriteTop false fk dg fuel rtl n
          let midLL := rewriteTop true fk dg fuel rtl n
          let pLL := toPat rtl midLL
          let r := (cert o rtl pLL p').close
          -- correspondence: the full model against the engine's tree
          let okLL := certTopDir o rtl pLL p'
          -- the proved variant agrees with the full model: `rewrites_certified` applies
          let same := RNode.same mid midLL
          (okLL, toString (Sexp.list [.atom "ok", ofBool okLL, ofBool same,
            mk "made" [ofNat r.made], mk "errs" (r.errs.map errSexp), mk "mid" [rnodeSexp midLL], mk "dg" [ofBool dg], mk "fk" [ofBool fk], mk "ks" [ofBool (kindSensitive n)],
            -- for the histogram: what the certifier alone (without the model of the rewrites) says
            mk "base" [ofBool (certTopDir o rtl (toPat rtl n) p')]]))
        -- readings: an alternation directly under an Atomic node was its direct child or not (`dg`); the ending
        -- walk's second reduction compares the kinds of fixed loops or not (`fk`, see `samePrefix`)
        let a1 := answer false true
        if a1.1 then a1.2 else
        let a0 := answer false false
        if a0.1 then a0.2 else
        let b1 := answer true true
        if b1.1 then b1.2 else
        let b0 := answer true false
        if b0.1 then b0.2 else a1.2
      | _, _ => "(bad-oracle)"
    | _, _, _, _, _ => "(bad-args)"
  | [.atom "cert", rtl, p, p', dj, un] =>
    match rtl.bool?, pat? p, pat? p', tagged? "disj" dj, tagged? "uni" un with
    | some rtl, some p, some p', some dj, some un =>
      match dj.mapM predPair?, un.mapM pred? with
      | some dj, some un =>
        let o := tableOracle dj un
        let r := (cert o rtl p p').close
        toString (Sexp.list [.atom "ok", ofBool (certTopDir o rtl p p'), mk "made" [ofNat r.made], mk "errs" (r.errs.map errSexp)])
      | _, _ => "(bad-oracle)"
    | _, _, _, _, _ => "(bad-args)"
  | [.atom "endfix", p] =>
    -- the engine's final left-to-right tree is a fixed point of Lean's model of eliminateEndingBacktracking
    match pat? p with
    | some p => if endAtomicTop p = p then "(ok 1)" else "(ok 0)"
    | none => "(bad-args)"
  | _ => "(bad-op)"

end RegexVerif.Driver
