import RegexVerif.Sexp

namespace RegexVerif.Driver
open RegexVerif Sexp

/-- protocol lines with head `c05` (stub) -/
def handleC05 (_args : List Sexp) : String := "(unimplemented)"

end RegexVerif.Driver
