import RegexVerif.Sexp

namespace RegexVerif.Driver
open RegexVerif Sexp

/-- protocol lines with head `c20` (stub) -/
def handleC20 (_args : List Sexp) : String := "(unimplemented)"

end RegexVerif.Driver
