import RegexVerif.Sexp
import RegexVerif.Model.Options
import RegexVerif.Driver.Parser

namespace RegexVerif.Driver
open RegexVerif Sexp Options

private def c18Flag : Nat → Option Flag
  | 0 => some .i | 1 => some .m | 2 => some .n | 3 => some .s | 4 => some .x | _ => none

private def c18Seq (e : Sexp) : Option (List (Flag × Bool)) :=
  match e with
  | .list xs => xs.mapM fun p =>
      match p with
      | .list [f, b] => do
        let fl ← (f.nat?).bind c18Flag
        let pol ← b.bool?
        pure (fl, pol)
      | _ => none
  | _ => none

private partial def c18Pat (e : Sexp) : Option Pat :=
  match e with
  | .list [.atom "l", id] => id.nat?.map .leaf
  | .list [.atom "b", id] => id.nat?.map .bar
  | .list [.atom "o", seq] => (c18Seq seq).map .opt
  | .list (.atom "g" :: id :: cap :: kids) => do
    let i ← id.nat?
    let c ← cap.nat?
    let ks ← kids.mapM c18Pat
    pure (.group i (if c = 1 then .unnamed else if c = 2 then .named else .noncap) ks)
  | .list (.atom "s" :: id :: seq :: kids) => do
    let i ← id.nat?
    let sq ← c18Seq seq
    let ks ← kids.mapM c18Pat
    pure (.scoped i sq ks)
  | _ => none

private def c18Tok : Tok → Sexp
  | .leaf id o => mk "l" [ofNat id, ofNat o.toMask]
  | .bar id => mk "b" [ofNat id]
  | .gopen id c o => mk "g" [ofNat id, ofBool c, ofNat o.toMask]
  | .gclose id => mk "c" [ofNat id]

/-- `(c18 resolve O (pat item…))` ↦ `(ok tok…)`: the explicit token list under compile options `O`.
    `(c18 run O (pat item…))` answers with the stack machine over the flattened pattern instead. -/
def handleC18 (args : List Sexp) : String :=
  match args with
  | .atom "parser" :: rest => handleParser rest
  | [mode, o, pat] =>
    match mode.sym?, o.nat?, (tagged? "pat" pat).bind (fun ks => ks.mapM c18Pat) with
    | some md, some k, some ps =>
      let toks := if md == "run" then run (Opts.ofMask k) [] (flatten ps) else resolve (Opts.ofMask k) ps
      toString (mk "ok" (toks.map c18Tok))
    | _, _, _ => "(bad-op)"
  | _ => "(bad-op)"

end RegexVerif.Driver
