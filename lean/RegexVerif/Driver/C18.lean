import RegexVerif.Sexp

namespace RegexVerif.Driver
open RegexVerif Sexp

/-- protocol lines with head `c18` (stub) -/
def handleC18 (_args : List Sexp) : String := "(unimplemented)"

end RegexVerif.Driver
