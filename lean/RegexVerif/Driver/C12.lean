import RegexVerif.Sexp
import RegexVerif.Model.LRU
import RegexVerif.Model.Pool
import RegexVerif.Generated.Fields

namespace RegexVerif.Driver
open RegexVerif Sexp

/-- run `getReplacerData` over a key sequence; after every call report the cache's key order
    (most recent first).  Keys listed in `uncacheable` are longer than `MaxCachedReplacerDataBytes`. -/
def lruTrace (maxSize : Nat) (uncacheable errs : List Nat) (ks : List Nat) : List (List Nat) :=
  let parse : Nat → Except Unit Nat := fun k => if errs.contains k then .error () else .ok k
  let cacheable : Nat → Bool := fun k => !uncacheable.contains k
  let rec go (st : Option (LRU.Cache Nat Nat)) : List Nat → List (List Nat)
    | [] => []
    | k :: rest =>
      let r := LRU.getReplacerData parse cacheable st k
      (match r.2 with | some c => LRU.keys c.entries | none => []) :: go r.2 rest
  go (if maxSize = 0 then none else some (LRU.empty maxSize)) ks

/-- protocol lines with head `c12`:
    `(c12 lru <maxSize> (uncacheable…) (unparsable…) (keys…))` ↦ `(ok (keys-after-call-1) (keys-after-call-2) …)`
    `(c12 pool rune|byte <needed> <max>)` ↦ `(ok <class capacity>)` or `(ok -1)` when not pooled -/
def handleC12 (args : List Sexp) : String :=
  match args with
  | [op, a, b, c, d] =>
    match op.sym?, a.nat?, b.nats?, c.nats?, d.nats? with
    | some "lru", some mx, some un, some er, some ks => toString (mk "ok" ((lruTrace mx un er ks).map ofNats))
    | _, _, _, _, _ => "(bad-op)"
  | [op, a, b, c] =>
    match op.sym? with
    | some "pool" =>
      match a.sym?, b.nat?, c.int? with
      | some which, some needed, some mx =>
        let sizes := if which == "rune" then Generated.runePoolSizes else Generated.bytePoolSizes
        match Pool.poolIndex sizes needed mx with
        | some i => toString (mk "ok" [ofNat (sizes.getD i 0)])
        | none => "(ok -1)"
      | _, _, _ => "(bad-op)"
    | _ => "(bad-op)"
  | _ => "(bad-op)"

end RegexVerif.Driver
