import RegexVerif.Sexp

namespace RegexVerif.Driver
open RegexVerif Sexp

/-- protocol lines with head `c12` (stub) -/
def handleC12 (_args : List Sexp) : String := "(unimplemented)"

end RegexVerif.Driver
