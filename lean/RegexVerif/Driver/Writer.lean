import RegexVerif.Sexp
import RegexVerif.Model.Writer

namespace RegexVerif.Driver
open RegexVerif Sexp Writer

/-- the tree of leg Wr:
    `(empty) (bare t) (char t rtl ci ch) (set rtl ci (hash…)) (multi rtl ci (runes…)) (ref rtl ci m)
     (charloop t rtl ci ch m n) (setloop t rtl ci (hash…) m n) (concat c…) (alt c…) (loop lazy m n c)
     (capture m n c) (group c) (poslook c) (neglook c) (atomic c) (backrefcond m yes [no])
     (exprcond cond yes [no]) (other t)` -/
partial def goNode? (e : Sexp) : Option GoNode :=
  match e with
  | .list (.atom tag :: xs) =>
    match tag, xs with
    | "empty", [] => some .empty
    | "bare", [t] => t.nat?.map .bare
    | "char", [t, r, c, ch] => do some (.char (← t.nat?) (← r.bool?) (← c.bool?) (← ch.int?))
    | "set", [r, c, s] => do some (.set (← r.bool?) (← c.bool?) (← s.nats?))
    | "multi", [r, c, s] => do some (.multi (← r.bool?) (← c.bool?) (← s.nats?))
    | "ref", [r, c, m] => do some (.ref (← r.bool?) (← c.bool?) (← m.int?))
    | "charloop", [t, r, c, ch, m, n] =>
      do some (.charloop (← t.nat?) (← r.bool?) (← c.bool?) (← ch.int?) (← m.int?) (← n.int?))
    | "setloop", [t, r, c, s, m, n] =>
      do some (.setloop (← t.nat?) (← r.bool?) (← c.bool?) (← s.nats?) (← m.int?) (← n.int?))
    | "concat", cs => (cs.mapM goNode?).map .concat
    | "alt", cs => (cs.mapM goNode?).map .alt
    | "loop", [l, m, n, c] => do some (.loop (← l.bool?) (← m.int?) (← n.int?) (← goNode? c))
    | "capture", [m, n, c] => do some (.capture (← m.int?) (← n.int?) (← goNode? c))
    | "group", [c] => (goNode? c).map .group
    | "poslook", [c] => (goNode? c).map .poslook
    | "neglook", [c] => (goNode? c).map .neglook
    | "atomic", [c] => (goNode? c).map .atomic
    | "backrefcond", [m, y] => do some (.backrefcond1 (← m.int?) (← goNode? y))
    | "backrefcond", [m, y, n] => do some (.backrefcond2 (← m.int?) (← goNode? y) (← goNode? n))
    | "exprcond", [c, y] => do some (.exprcond2 (← goNode? c) (← goNode? y))
    | "exprcond", [c, y, n] => do some (.exprcond3 (← goNode? c) (← goNode? y) (← goNode? n))
    | "other", [t] => t.int?.map .other
    | _, _ => none
  | _ => none

def pair? (e : Sexp) : Option (Int × Int) :=
  match e with
  | .list [a, b] => do some (← a.int?, ← b.int?)
  | _ => none

/-- `(info captop nil|(capnumlist…) ((k v)…) rtl)` -/
def treeInfo? (e : Sexp) : Option TreeInfo :=
  match e with
  | .list [.atom "info", ct, cl, caps, rtl] => do
    let cl ← (match cl with
      | .atom "nil" => some none
      | l => l.ints?.map some)
    let caps ← (← caps.list?).mapM pair?
    some { captop := ← ct.int?, capnumlist := cl, caps := caps, rtl := ← rtl.bool? }
  | _ => none

def ofPairs (xs : List (Int × Int)) : Sexp := .list (xs.map fun p => .list [ofInt p.1, ofInt p.2])

/-- the innermost node whose fragment `[a, a + size)` contains the code offset `off`, by constructor
    name (failure keys of leg Wr) -/
partial def locate (cfg : Cfg) (off : Nat) (a : Nat) (n : GoNode) : String :=
  let inside (b : Nat) (c : GoNode) : Option String :=
    if b ≤ off && off < b + size cfg c then some (locate cfg off b c) else none
  let rec seq (b : Nat) (gap : Nat) : List GoNode → Option String
    | [] => none
    | c :: cs => (inside b c).orElse fun _ => seq (b + size cfg c + gap) gap cs
  let name := match n with
    | .empty => "Empty" | .bare t => s!"Bare{t}" | .char t .. => s!"Char{t}" | .set .. => "Set" | .multi .. => "Multi"
    | .ref .. => "Ref" | .charloop t .. => s!"Charloop{t}" | .setloop t .. => s!"Setloop{t}" | .concat _ => "Concatenate"
    | .alt _ => "Alternate" | .loop l .. => if l then "Lazyloop" else "Loop" | .capture .. => "Capture" | .group _ => "Group"
    | .poslook _ => "PosLook" | .neglook _ => "NegLook" | .atomic _ => "Atomic" | .backrefcond1 .. => "BackRefCond"
    | .backrefcond2 .. => "BackRefCond" | .exprcond2 .. => "ExprCond" | .exprcond3 .. => "ExprCond" | .other _ => "Other"
  let sub : Option String := match n with
    | .concat cs => seq a 0 cs
    | .alt cs => seq (a + 2) 4 cs |>.orElse fun _ => (match cs.getLast? with
        | some c => inside (a + sizeAlt cfg cs - size cfg c) c
        | none => none)
    | .loop _ m k c => inside (a + loopHeadLen m k) c
    | .capture m k c => inside (if emitCapture cfg m k then a + 1 else a) c
    | .group c => inside a c
    | .poslook c => inside (a + 2) c
    | .neglook c => inside (a + 3) c
    | .atomic c => inside (a + 1) c
    | .backrefcond1 _ y => inside (a + 6) y
    | .backrefcond2 _ y k => (inside (a + 6) y).orElse fun _ => inside (a + 6 + size cfg y + 3) k
    | .exprcond2 c y => (inside (a + 4) c).orElse fun _ => inside (a + 4 + size cfg c + 2) y
    | .exprcond3 c y k => ((inside (a + 4) c).orElse fun _ => inside (a + 4 + size cfg c + 2) y).orElse fun _ =>
        inside (a + 4 + size cfg c + 2 + size cfg y + 4) k
    | _ => none
  sub.getD name

/-- `(c01 writer emit <info> <node>)` →
      `(ok (codes…) (strings (…)…) (sets (…)…) trackcount capsize (caps (k v)…) rtl (inuse b…) (quick w…)|(noquick)
           (wf treeWf wfProg wfQuickProg))` or `(err)` when the writer reports an error;
    `(c01 writer locate <info> <node> off quick)` → the node type whose fragment holds code offset `off`
      of the main (quick = 0) or bool-only program. -/
def handleWriter (args : List Sexp) : String :=
  match args with
  | [.atom "emit", info, node] =>
    match treeInfo? info, goNode? node with
    | some ti, some root =>
      match write ti root with
      | none => "(err)"
      | some w =>
        let quickWf := match emitQuick ti root with
          | some q => wfProg q
          | none => true
        toString (mk "ok" [
          ofInts w.prog.codes.toList,
          .list (w.prog.strings.toList.map ofNats),
          .list (w.sets.map ofNats),
          ofNat w.prog.trackcount, ofNat w.prog.capsize, ofPairs w.prog.caps, ofBool w.prog.rtl,
          .list (w.slotInUse.map ofBool),
          (match w.quick with
           | some q => mk "quick" (q.map ofInt)
           | none => mk "noquick" []),
          mk "wf" [ofBool (treeWf ti root), ofBool (wfProg w.prog), ofBool quickWf]])
    | _, _ => "(bad-op)"
  | [.atom "locate", info, node, off, quick] =>
    match treeInfo? info, goNode? node, off.nat?, quick.bool? with
    | some ti, some root, some off, some quick =>
      let cfg := if quick then quickCfg ti root else mainCfg ti
      if off < 2 then "(at Top)" else s!"(at {locate cfg off 2 root})"
    | _, _, _, _ => "(bad-op)"
  | _ => "(bad-op)"

end RegexVerif.Driver
