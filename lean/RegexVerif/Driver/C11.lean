import RegexVerif.Sexp

namespace RegexVerif.Driver
open RegexVerif Sexp

/-- protocol lines with head `c11` (stub) -/
def handleC11 (_args : List Sexp) : String := "(unimplemented)"

end RegexVerif.Driver
