import Std.Data.HashMap
import Std.Data.HashSet
import RegexVerif.Sexp
import RegexVerif.Model.Class
import RegexVerif.Model.ClassQuery
import RegexVerif.Generated.Class
import RegexVerif.Generated.ClassQuery

namespace RegexVerif.Driver
open RegexVerif Sexp
open RegexVerif.Class

/-! Driver glue for C16 (unverified IO code).

Class syntax on the wire: `(cls (rs f1 l1 f2 l2 …) (cs id1 neg1 id2 neg2 …) neg anything bitmap sub?)`.
Oracle rows: `(oracle (id r1 r2 …) …)` list, per category id, the runes (among those that can be
asked about) that ARE in the category.  -/

private def pairs : List Nat → List (Nat × Nat)
  | a :: b :: rest => (a, b) :: pairs rest
  | _ => []

private def catPairs : List Nat → List (Nat × Bool)
  | a :: b :: rest => (a, b != 0) :: catPairs rest
  | _ => []

private def unpairs (ps : List (Nat × Nat)) : List Nat := ps.flatMap (fun p => [p.1, p.2])
private def uncat (ps : List (Nat × Bool)) : List Nat := ps.flatMap (fun p => [p.1, if p.2 then 1 else 0])

private partial def parseClass (e : Sexp) : Option Class :=
  match tagged? "cls" e with
  | some (rs :: cs :: neg :: anything :: _bitmap :: rest) =>
    match tagged? "rs" rs, tagged? "cs" cs, neg.bool?, anything.bool? with
    | some rl, some cl, some ng, some an =>
      match (Sexp.list rl).nats?, (Sexp.list cl).nats? with
      | some rn, some cn =>
        let f : Flat := { ranges := pairs rn, cats := catPairs cn, neg := ng, anything := an }
        match rest with
        | [] => some (.leaf f)
        | s :: _ => (parseClass s).map (fun sc => .minus f sc)
      | _, _ => none
    | _, _, _, _ => none
  | _ => none

private def topBitmap (e : Sexp) : Bool :=
  match tagged? "cls" e with
  | some (_ :: _ :: _ :: _ :: bm :: _) => bm.bool?.getD false
  | _ => false

private def renderFlat (f : Flat) : Sexp :=
  mk "flat" [mk "rs" ((unpairs f.ranges).map ofNat), mk "cs" ((uncat f.cats).map ofNat), ofBool f.neg, ofBool f.anything]

private partial def renderClass : Class → Sexp
  | .leaf f => mk "cls" [renderFlat f]
  | .minus f s => mk "cls" [renderFlat f, renderClass s]

private def mkOracle (rest : List Sexp) : Nat → Nat → Bool :=
  let rows := (lookup "oracle" rest).getD []
  let tbl : Std.HashMap Nat (Std.HashSet Nat) := rows.foldl (fun m row =>
    match row.nats? with
    | some (id :: rs) => m.insert id (rs.foldl (fun s r => s.insert r) ((m.get? id).getD {}))
    | _ => m) {}
  fun id ch => match tbl.get? id with
    | some s => s.contains ch
    | none => false

private def mkOrbit (rest : List Sexp) : Nat → List Nat :=
  let rows := (lookup "orbit" rest).getD []
  let tbl : Std.HashMap Nat (List Nat) := rows.foldl (fun m row =>
    match row.nats? with
    | some (i :: es) => m.insert i es
    | _ => m) {}
  fun i => (tbl.get? i).getD []

private def mkLower (rest : List Sexp) : Nat → Nat :=
  let rows := (lookup "lower" rest).getD []
  let tbl : Std.HashMap Nat Nat := rows.foldl (fun m row =>
    match row.nats? with
    | some [i, l] => m.insert i l
    | _ => m) {}
  fun i => (tbl.get? i).getD i

private def bits (xs : List Bool) : Sexp := atom (String.ofList ('b' :: xs.map (fun b => if b then '1' else '0')))

private def parseItem (e : Sexp) : Option Item :=
  match e with
  | .list (.atom t :: rest) =>
    match (Sexp.list rest).nats? with
    | some ns =>
      if t == "r" then (match ns with | [lo, hi] => some (.range lo hi) | _ => none)
      else if t == "rs" then some (.ranges (pairs ns))
      else if t == "nrs" then some (.negRanges (pairs ns))
      else if t == "cs" then some (.cats (catPairs ns))
      else none
    | none => none
  | _ => none

/-! ### sub-head `query`: the query functions of Model/ClassQuery.lean -/

/-- interval rows `(oranges (id lo hi lo hi …) …)` as a table (built ONCE per request: a definition returning
a function would be eta-expanded by the compiler and rebuild the table on every lookup) -/
private def mkRangeTable (rest : List Sexp) : Std.HashMap Nat (Array (Nat × Nat)) :=
  let rows := (lookup "oranges" rest).getD []
  rows.foldl (fun m row =>
    match row.nats? with
    | some (id :: rs) => m.insert id (pairs rs).toArray
    | _ => m) {}

private def ivSearch (a : Array (Nat × Nat)) (ch : Nat) : Nat → Nat → Nat → Nat
  | 0, lo, _ => lo
  | fuel + 1, lo, hi =>
    if lo < hi then
      let mid := (lo + hi) / 2
      if (a[mid]?.getD (0, 0)).2 < ch then ivSearch a ch fuel (mid + 1) hi else ivSearch a ch fuel lo mid
    else lo

/-- category oracle over the interval table: binary search for the first interval whose upper end is not below `ch` -/
private def rangeOracle (tbl : Std.HashMap Nat (Array (Nat × Nat))) (id ch : Nat) : Bool :=
  match tbl.get? id with
  | some a =>
    match a[ivSearch a ch 64 0 a.size]? with
    | some r => decide (r.1 ≤ ch) && decide (ch ≤ r.2)
    | none => false
  | none => false

private def mkNames (rest : List Sexp) : (Nat → List Nat) × (List Nat → Nat) :=
  let rows := ((lookup "names" rest).getD []).filterMap (fun row =>
    match row.nats? with
    | some (id :: bs) => some (id, bs)
    | _ => none)
  (fun id => ((rows.find? (fun r => r.1 == id)).map (·.2)).getD [],
   fun bs => ((rows.find? (fun r => r.2 == bs)).map (·.1)).getD 999999)

/-- the constants of the source: category ids 0 = " ", 1 = "W", 2 = "Nd" (fixed by the harness) -/
private def srcConsts : Consts :=
  { space := 0, word := 1, nd := 2, ecmaSpace := RegexVerif.Generated.ecmaSpace, ecmaWord := RegexVerif.Generated.ecmaWord,
    ecmaDigit := RegexVerif.Generated.ecmaDigit, whitespaceChars := RegexVerif.Generated.whitespaceChars }

private def optNats : Option (List Nat) → Sexp
  | none => atom "nil"
  | some xs => ofNats xs

private def item (name : String) (v : Sexp) : Sexp := list [atom name, v]

private def queryUnary (tag : String) (cat : Nat → Nat → Bool) (isLetter : Nat → Bool)
    (names : (Nat → List Nat) × (List Nat → Nat)) (maxChars nRanges : List Nat) (c : Class) : List Sexp :=
  let h := Class.hash names.1 c
  let caic := containsAsciiIgnoreCaseCharacter cat isLetter c
  [ item (tag ++ ".sing") (ofBool c.isSingleton), item (tag ++ ".singinv") (ofBool c.isSingletonInverse),
    item (tag ++ ".schar") (match c.singletonChar with | some x => ofNat x | none => atom "-"),
    item (tag ++ ".merge") (ofBool c.isMergeable), item (tag ++ ".neg") (ofBool c.isNegated),
    item (tag ++ ".sub") (ofBool c.hasSubtraction), item (tag ++ ".empty") (ofBool c.isEmpty),
    item (tag ++ ".any") (ofBool c.isAnything), item (tag ++ ".eqself") (ofBool (c.equals c)) ] ++
  maxChars.map (fun k => item (tag ++ ".gsc." ++ toString k) (optNats (getSetChars cat c k))) ++
  nRanges.map (fun n => item (tag ++ ".gnr." ++ toString n) (optNats ((getIfNRanges c n).map unpairs))) ++
  [ item (tag ++ ".gcats") (match getIfOnlyUnicodeCategories srcConsts c with
      | none => atom "nil"
      | some (cs, ng) => list [ofNats (uncat cs), ofBool ng]),
    item (tag ++ ".small") (match isUnicodeCategoryOfSmallCharCount srcConsts c with
      | none => atom "nil"
      | some (chars, ng, d) => list [ofNats chars, ofBool ng, ofNat d]),
    item (tag ++ ".caic") (list [ofBool caic.1, optNats caic.2]),
    item (tag ++ ".hash") (ofNats h),
    item (tag ++ ".rt") (renderClass (newCharSetRuntime names.2 h.length h)),
    item (tag ++ ".copy") (renderClass c.copy) ]

private def queryBinary (tag : String) (cat : Nat → Nat → Bool) (withEnum : Bool) (a b : Class) : List Sexp :=
  [ item (tag ++ ".eq") (ofBool (a.equals b)), item (tag ++ ".eqig") (ofBool (Class.equalsGo a b true)),
    item (tag ++ ".mo") (ofBool (mayOverlap cat srcConsts a b)),
    item (tag ++ ".kd") (ofBool (knownDistinctSets srcConsts a b)) ] ++
  (if withEnum then [item (tag ++ ".en") (ofBool (mayOverlapByEnumeration cat a b))] else [])

/-- `(c16 mem <cls> (runes…) (oracle …))` → `(ok bALG bSLOW bFAST)`;
`(c16 build neg hasSub (items…) (oracle …))` → `(flat …)`;
`(c16 caseq (levels (neg (items…))…) (orbit (i e…)…) (oracle …))` → `(cls …)`;
`(c16 neg (rs…))` → complement list of `addNegativeRanges`;
`(c16 query <clsA> <clsB> (maxchars k…) (nranges n…) (enum 0|1) (oranges (id lo hi …)…) (names (id byte…)…) (letters r…))`
→ `((A.sing b) … (B.sing b) … (AB.eq b) … (BA.eq b) …)`: every query function of Model/ClassQuery.lean on A, on B,
on (A,B) and on (B,A) -/
def handleC16 (args : List Sexp) : String :=
  match args with
  | mode :: rest =>
    match mode.sym? with
    | some "mem" =>
      match rest with
      | cls :: runes :: more =>
        match parseClass cls, runes.nats? with
        | some c, some rs =>
          let cat := mkOracle more
          let cb := if topBitmap cls then prepare cat c else c
          toString (mk "ok" [bits (rs.map (memAlg cat c)), bits (rs.map (charInSlow cat c)), bits (rs.map (charIn cat cb))])
        | _, _ => "(bad-args)"
      | _ => "(bad-args)"
    | some "build" =>
      match rest with
      | neg :: hasSub :: items :: more =>
        match neg.bool?, hasSub.bool?, items.list?.bind (·.mapM parseItem) with
        | some ng, some hs, some its => toString (renderFlat (build (mkOracle more) ng its hs))
        | _, _, _ => "(bad-args)"
      | _ => "(bad-args)"
    | some "caseq" =>
      -- (c16 caseq (levels (neg (items…)) (neg (items…)) …) (orbit …) (oracle …)): the class as
      -- scanCharSet leaves it under IgnoreCase (items, then addLowercase with the `(lower (i l)…)` rows as
      -- unicode.ToLower; still `building`), copied, case equivalences added
      match rest with
      | lv :: more =>
        let cat := mkOracle more
        let level (e : Sexp) : Option Flat :=
          match e with
          | .list [neg, items] =>
            match neg.bool?, items.list?.bind (·.mapM parseItem) with
            | some ng, some its =>
              some (Flat.addLowercase cat (mkLower more) RegexVerif.Generated.lcTable false (buildItems cat ng its))
            | _, _ => none
          | _ => none
        match (tagged? "levels" lv).bind (·.mapM level) with
        | some (f :: fs) =>
          let rec chain (f : Flat) : List Flat → Class
            | [] => .leaf f
            | g :: gs => .minus f (chain g gs)
          toString (renderClass (Class.addCaseEquivalences cat (mkOrbit more) (chain f fs).copy))
        | _ => "(bad-args)"
      | _ => "(bad-args)"
    | some "query" =>
      match rest with
      | ca :: cb :: more =>
        match parseClass ca, parseClass cb with
        | some a, some b =>
          let tbl := mkRangeTable more
          let cat := rangeOracle tbl
          let names := mkNames more
          let letters := (((lookup "letters" more).map Sexp.list).bind (·.nats?)).getD []
          let isLetter : Nat → Bool := fun r => letters.contains r
          let mc := (((lookup "maxchars" more).map Sexp.list).bind (·.nats?)).getD []
          let nr := (((lookup "nranges" more).map Sexp.list).bind (·.nats?)).getD []
          let en := (((lookup "enum" more).map Sexp.list).bind (·.nats?)).getD [] == [1]
          toString (Sexp.list (queryUnary "A" cat isLetter names mc nr a ++ queryUnary "B" cat isLetter names mc nr b ++
            queryBinary "AB" cat en a b ++ queryBinary "BA" cat en b a))
        | _, _ => "(bad-args)"
      | _ => "(bad-args)"
    | some "neg" =>
      match rest with
      | [rs] =>
        match rs.nats? with
        | some ns => toString (ofNats (unpairs (negGo 0 (pairs ns))))
        | none => "(bad-args)"
      | _ => "(bad-args)"
    | _ => "(bad-op)"
  | _ => "(bad-op)"

end RegexVerif.Driver
