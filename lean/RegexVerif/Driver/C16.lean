import RegexVerif.Sexp

namespace RegexVerif.Driver
open RegexVerif Sexp

/-- protocol lines with head `c16` (stub) -/
def handleC16 (_args : List Sexp) : String := "(unimplemented)"

end RegexVerif.Driver
