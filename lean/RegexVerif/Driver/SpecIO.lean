import RegexVerif.Sexp
import RegexVerif.Model.Spec

/-! S-expression readers for the specification's types (driver glue, unverified). -/
namespace RegexVerif.Driver
open RegexVerif Sexp Spec

def pairNat? : Sexp → Option (Nat × Nat)
  | .list [a, b] => do some ((← a.nat?), (← b.nat?))
  | _ => none

def pairNatBool? : Sexp → Option (Nat × Bool)
  | .list [a, b] => do some ((← a.nat?), (← b.bool?))
  | _ => none

partial def cls? : Sexp → Option Cls
  | .list [.atom "base", neg, .list rs, .list ns] => do
    some (.base (← neg.bool?) (← rs.mapM pairNat?) (← ns.mapM pairNatBool?))
  | .list [.atom "diff", a, b] => do some (.diff (← cls? a) (← cls? b))
  | _ => none

def pred? : Sexp → Option Pred
  | .list [.atom "one", c, ci] => do some (.one (← c.nat?) (← ci.bool?))
  | .list [.atom "notone", c, ci] => do some (.notone (← c.nat?) (← ci.bool?))
  | .list [.atom "set", c, ci] => do some (.set (← cls? c) (← ci.bool?))
  | _ => none

def anchor? : String → Option Anchor
  | "bol" => some .bol | "eol" => some .eol | "boundary" => some .boundary
  | "nonboundary" => some .nonboundary | "beginning" => some .beginning | "start" => some .start
  | "endz" => some .endz | "end" => some .end | _ => none

partial def pat? : Sexp → Option Pat
  | .list [.atom "empty"] => some .empty
  | .list [.atom "nothing"] => some .nothing
  | .list [.atom "chr", p] => do some (.chr (← pred? p))
  | .list [.atom "anchor", .atom a] => do some (.anchor (← anchor? a))
  | .list [.atom "seq", a, b] => do some (.seq (← pat? a) (← pat? b))
  | .list [.atom "alt", a, b] => do some (.alt (← pat? a) (← pat? b))
  | .list [.atom "quant", lz, lo, hi, b] => do
    let h ← match hi with
      | .atom "inf" => some none
      | x => (x.nat?).map some
    some (.quant (← lz.bool?) (← lo.nat?) h (← pat? b))
  | .list [.atom "cap", g, b] => do some (.cap (← g.nat?) (← pat? b))
  | .list [.atom "look", bh, ng, b] => do some (.look (← bh.bool?) (← ng.bool?) (← pat? b))
  | .list [.atom "atomic", b] => do some (.atomic (← pat? b))
  | .list [.atom "ref", g, ci] => do some (.ref (← g.nat?) (← ci.bool?))
  | .list [.atom "refcond", g, y, n] => do some (.refCond (← g.nat?) (← pat? y) (← pat? n))
  | .list [.atom "exprcond", c, y, n] => do some (.exprCond (← pat? c) (← pat? y) (← pat? n))
  | _ => none

/-- `(env (text r…) (start k) (named (id r)…) (word r…) (fold (r p)…))` -/
def env? (e : Sexp) : Option Env := do
  let items ← tagged? "env" e
  let text ← (← lookup "text" items).mapM (·.nat?)
  let start ← ((← lookup "start" items).head?).bind (·.nat?)
  let named ← (← lookup "named" items).mapM pairNat?
  let word ← (← lookup "word" items).mapM (·.nat?)
  let fold ← (← lookup "fold" items).mapM pairNat?
  some { text := text, textstart := start, named := named, word := word, fold := fold }

/-- canonical rendering of a find result: `(none)` or `(ok idx len ((i l)…) … )` with the capture
    lists of groups 1..ngroups -/
def renderResult (ngroups : Nat) : Option St → String
  | none => "(none)"
  | some st =>
    let g0 := (lastCap st.caps 0).getD (0, 0)
    let groups := (List.range ngroups).map (fun k =>
      Sexp.list ((st.caps.filter (fun c => c.1 == k + 1)).map (fun c => Sexp.list [ofNat c.2.1, ofNat c.2.2])))
    toString (Sexp.list ([Sexp.atom "ok", ofNat g0.1, ofNat g0.2] ++ groups))

end RegexVerif.Driver
