import RegexVerif.Sexp
import RegexVerif.Model.Scan
import RegexVerif.Model.Finders
import RegexVerif.Model.BoyerMoore
import RegexVerif.Model.IndexOf

namespace RegexVerif.Driver
open RegexVerif Sexp RegexVerif.Scan

/-- one table entry `(att found q after)`: `att` = `x` | `(index len)`; `(found, q)` the candidate
    finder's answer from this position; `after` where a failed execution leaves the scan position -/
structure C03Entry where
  att : Option (Nat × Nat)
  found : Bool
  q : Nat
  after : Nat

def c03Entry? : Sexp → Option C03Entry
  | .list [a, f, q, af] =>
    match f.bool?, q.nat?, af.nat? with
    | some f, some q, some af =>
      match a with
      | .atom "x" => some ⟨none, f, q, af⟩
      | .list [i, l] =>
        match i.nat?, l.nat? with
        | some i, some l => some ⟨some (i, l), f, q, af⟩
        | _, _ => none
      | _ => none
    | _, _, _ => none
  | _ => none

/-- executable versions of the hypotheses of `acceleration_transparent` on a finite table; the finder
    and bump-along hypotheses are evaluated at the positions the scan can visit from `start` (the `\G`
    origin of the table): the engine's finder is not meant to be called behind the origin -/
def checkShape (rtl : Bool) (n : Nat) (attempt : Nat → Option (Nat × Nat)) : Bool :=
  (List.range (n + 1)).all fun p => match attempt p with
    | none => true
    | some (i, l) => if rtl then i + l == p else i == p && decide (i + l ≤ n)

/-- `Scan.FinderSound`: a `false` answer vouches for the positions up to and including the one the
    finder left — what the scan loop relies on.  (The stronger reading "nothing anywhere ahead" is false
    of the real anchored finder: right-to-left `abc$` on "xabc\n" answers `(false, end)` at the end while
    the match sits at `end-1`.) -/
def checkFinder (rtl : Bool) (n start : Nat) (finder : Nat → Bool × Nat) (attempt : Nat → Option (Nat × Nat)) : Bool :=
  (scanOrder rtl n start).all fun pos =>
    let (f, q) := finder pos
    if rtl then
      decide (q ≤ pos) &&
      (if f then (List.range (n + 1)).all fun p => !(decide (q < p) && decide (p ≤ pos)) || (attempt p).isNone
       else (List.range (n + 1)).all fun p => !(decide (q ≤ p) && decide (p ≤ pos)) || (attempt p).isNone)
    else
      decide (pos ≤ q) && decide (q ≤ n) &&
      (if f then (List.range (n + 1)).all fun p => !(decide (pos ≤ p) && decide (p < q)) || (attempt p).isNone
       else (List.range (n + 1)).all fun p => !(decide (pos ≤ p) && decide (p ≤ q)) || (attempt p).isNone)

def checkAfter (rtl : Bool) (n start : Nat) (after : Nat → Nat) (attempt : Nat → Option (Nat × Nat)) : Bool :=
  (scanOrder rtl n start).all fun q =>
    (attempt q).isSome ||
    (if rtl then decide (after q ≤ q) && (List.range (n + 1)).all fun p => !(decide (after q ≤ p) && decide (p < q)) || (attempt p).isNone
     else decide (q ≤ after q) && decide (after q ≤ n) &&
       (List.range (n + 1)).all fun p => !(decide (q < p) && decide (p ≤ after q)) || (attempt p).isNone)

def checkMinLen (rtl : Bool) (n L : Nat) (attempt : Nat → Option (Nat × Nat)) : Bool :=
  (List.range (n + 1)).all fun p => (attempt p).isNone || (if rtl then decide (L ≤ p) else decide (L ≤ n - p))

def spanSexp : Option (Nat × Nat) → Sexp
  | none => .atom "x"
  | some (i, l) => .list [ofNat i, ofNat l]

/-! ### the candidate finders (Model/Finders.lean) on facts exported by the Go side -/

open RegexVerif.Finders in
/-- `x` ↦ nil; `(tbl D r…)` ↦ the membership test "listed ≠ D" (`D` = the answer for unlisted runes) -/
def tbl? : Sexp → Option (Option (Nat → Bool))
  | .atom "x" => some none
  | .list (.atom "tbl" :: d :: rs) =>
    match d.bool?, rs.mapM nat? with
    | some d, some rs => some (some fun c => if rs.contains c then !d else d)
    | _, _ => none
  | _ => none

open RegexVerif.Finders in
def mode? : String → Option Mode
  | "NoSearch" => some .noSearch
  | "LeadingAnchor_LeftToRight_Beginning" => some .leadingAnchorLtrBeginning
  | "LeadingAnchor_LeftToRight_Start" => some .leadingAnchorLtrStart
  | "LeadingAnchor_LeftToRight_EndZ" => some .leadingAnchorLtrEndZ
  | "LeadingAnchor_LeftToRight_End" => some .leadingAnchorLtrEnd
  | "LeadingAnchor_RightToLeft_Beginning" => some .leadingAnchorRtlBeginning
  | "LeadingAnchor_RightToLeft_Start" => some .leadingAnchorRtlStart
  | "LeadingAnchor_RightToLeft_EndZ" => some .leadingAnchorRtlEndZ
  | "LeadingAnchor_RightToLeft_End" => some .leadingAnchorRtlEnd
  | "TrailingAnchor_FixedLength_LeftToRight_End" => some .trailingAnchorFixedLengthLtrEnd
  | "TrailingAnchor_FixedLength_LeftToRight_EndZ" => some .trailingAnchorFixedLengthLtrEndZ
  | "LeadingString_LeftToRight" => some .leadingStringLtr
  | "LeadingString_RightToLeft" => some .leadingStringRtl
  | "LeadingString_OrdinalIgnoreCase_LeftToRight" => some .leadingStringOrdinalIgnoreCaseLtr
  | "LeadingStrings_LeftToRight" => some .leadingStringsLtr
  | "LeadingStrings_OrdinalIgnoreCase_LeftToRight" => some .leadingStringsOrdinalIgnoreCaseLtr
  | "LeadingSet_LeftToRight" => some .leadingSetLtr
  | "LeadingSet_RightToLeft" => some .leadingSetRtl
  | "LeadingChar_RightToLeft" => some .leadingCharRtl
  | "FixedDistanceChar_LeftToRight" => some .fixedDistanceCharLtr
  | "FixedDistanceString_LeftToRight" => some .fixedDistanceStringLtr
  | "FixedDistanceSets_LeftToRight" => some .fixedDistanceSetsLtr
  | "LiteralAfterLoop_LeftToRight" => some .literalAfterLoopLtr
  | "RequiredLandmarkChain_LeftToRight" => some .requiredLandmarkChainLtr
  | _ => none

open RegexVerif.Finders in
/-- `(set (chars r…) (neg b) (range lo hi)|(range) (mem <tbl>) (dist d))` -/
def fdSet? (e : Sexp) : Option FDSet :=
  match e with
  | .list (.atom "set" :: fs) =>
    match (lookup "chars" fs).bind (·.mapM nat?), (lookup "neg" fs).bind (·.head?) |>.bind bool?,
          lookup "range" fs, (lookup "mem" fs).bind (·.head?) |>.bind tbl?, (lookup "dist" fs).bind (·.head?) |>.bind nat? with
    | some chars, some neg, some rg, some mem, some d =>
      let range : Option (Option (Nat × Nat)) :=
        match rg with
        | [] => some none
        | [lo, hi] => match lo.nat?, hi.nat? with
          | some lo, some hi => some (some (lo, hi))
          | _, _ => none
        | _ => none
      range.map fun range => { chars := chars, negated := neg, range := range, set := mem, distance := d }
    | _, _, _, _, _ => none
  | _ => none

open RegexVerif.Finders in
/-- `(alt (lit r…) (set <tbl>) (lws <tbl>) (tws <tbl>) (min m) (max M) (rb b) (ra b))` -/
def lmAlt? (e : Sexp) : Option LmAlt :=
  match e with
  | .list (.atom "alt" :: fs) =>
    let one (k : String) : Option Sexp := (lookup k fs).bind (·.head?)
    match (lookup "lit" fs).bind (·.mapM nat?), (one "set").bind tbl?, (one "lws").bind tbl?, (one "tws").bind tbl?,
          (one "min").bind nat?, (one "max").bind int?, (one "rb").bind bool?, (one "ra").bind bool? with
    | some lit, some set, some lws, some tws, some mn, some mx, some rb, some ra =>
      some { literal := lit, set := set, leadWs := lws, trailWs := tws, minRepeat := mn, maxRepeat := mx, reqBefore := rb, reqAfter := ra }
    | _, _, _, _, _, _, _, _ => none
  | _ => none

open RegexVerif.Finders in
/-- `(finder (rtl b) (anchors B S Z E) (bm ci r…)|(bm) (mode M) (minlen L) (prefix r…) (prefixes (r…)…)
     (firstrunes r…) (fchar c) (fstring r…) (fdist d) (sets <set>…) (lal (str r…) (ci b) (char c) (chars r…) (loop <tbl>))|(lal)
     (chain (loop <tbl>) (lm <alt>…)…)|(chain) (fc <tbl>) (lower (r l)…) (text r…) (textstart s))`
    ↦ `(ok <path> (found q)…)`, the model's `findFirstCharDefault` from every position `0 … n` -/
def handleFinder (fs : List Sexp) : String :=
  let one (k : String) : Option Sexp := (lookup k fs).bind (·.head?)
  let nats (k : String) : Option (List Nat) := (lookup k fs).bind (·.mapM nat?)
  let bm : Option (Option Bm) :=
    match lookup "bm" fs with
    | some [] => some none
    | some (ci :: pat) => match ci.bool?, pat.mapM nat? with
      | some ci, some pat => some (some ⟨pat, ci⟩)
      | _, _ => none
    | none => none
  let anchors : Option Anchors :=
    match (lookup "anchors" fs).bind (·.mapM bool?) with
    | some [b, s, z, e] => some { beginning := b, start := s, endZ := z, «end» := e }
    | _ => none
  let lal : Option (Option LitAfterLoop) :=
    match lookup "lal" fs with
    | some [] => some none
    | some ls =>
      let o (k : String) : Option Sexp := (lookup k ls).bind (·.head?)
      match (lookup "str" ls).bind (·.mapM nat?), (o "ci").bind bool?, (o "char").bind nat?,
            (lookup "chars" ls).bind (·.mapM nat?), (o "loop").bind tbl? with
      | some str, some ci, some ch, some chars, some loop =>
        some (some { str := str, strIgnoreCase := ci, char := ch, chars := chars, loopSet := loop })
      | _, _, _, _, _ => none
    | none => none
  let chain : Option (Option LmChain) :=
    match lookup "chain" fs with
    | some [] => some none
    | some cs =>
      match ((lookup "loop" cs).bind (·.head?)).bind tbl?,
            (cs.filterMap (tagged? "lm")).mapM (fun alts => alts.mapM lmAlt?) with
      | some loop, some lms => some (some { loopSet := loop, landmarks := lms })
      | _, _ => none
    | none => none
  let lower : Option (Nat → Nat) :=
    match (lookup "lower" fs).bind (·.mapM fun e => match e with
      | .list [a, b] => match a.nat?, b.nat? with
        | some a, some b => some (a, b)
        | _, _ => none
      | _ => none) with
    | some ps => some fun c => match ps.find? (fun p => p.1 == c) with
      | some p => p.2
      | none => c
    | none => none
  match (one "rtl").bind bool?, anchors, bm, ((one "mode").bind sym?).bind mode?, (one "minlen").bind nat?,
        nats "prefix", (lookup "prefixes" fs).bind (·.mapM nats?), nats "firstrunes" with
  | some rtl, some anchors, some bm, some mode, some minLen, some pre, some pres, some firsts =>
    match (one "fchar").bind nat?, nats "fstring", (one "fdist").bind nat?, (lookup "sets" fs).bind (·.mapM fdSet?),
          lal, chain, (one "fc").bind tbl?, lower, nats "text", (one "textstart").bind nat? with
    | some fchar, some fstring, some fdist, some sets, some lal, some chain, some fc, some lower, some text, some ts =>
      let o : FindOpts := ⟨mode, minLen, pre, pres, firsts, fchar, fstring, fdist, sets, lal, chain⟩
      let f : Facts := ⟨rtl, anchors, bm, o, fc, lower⟩
      let path := match pathOf f with
        | .anchors => "anchors" | .bmScan => "bm" | .optimized => "opt" | .fc => "fc" | .none => "none"
      let ans := (List.range (text.length + 1)).map fun pos =>
        let r := finderDefault f text ts pos
        Sexp.list [ofBool r.1, ofNat r.2]
      toString (Sexp.list (.atom "ok" :: .atom path :: ans))
    | _, _, _, _, _, _, _, _, _, _ => "(bad-op)"
  | _, _, _, _, _, _, _, _ => "(bad-op)"

/-! ### the Boyer-Moore prefix (Model/BoyerMoore.lean) -/

def lowerTable? (fs : List Sexp) : Option (Nat → Nat) :=
  match (lookup "lower" fs).bind (·.mapM fun e => match e with
    | .list [a, b] => match a.nat?, b.nat? with
      | some a, some b => some (a, b)
      | _, _ => none
    | _ => none) with
  | some ps => some fun c => match ps.find? (fun p => p.1 == c) with
    | some p => p.2
    | none => c
  | none => none

open RegexVerif.BoyerMoore in
/-- `(bm (rtl b) (ci b) (old b) (tables b) (pat r…) (lower (r l)…) (text r…) (beg B) (end E))` ↦ `(ok nil)` when
    `newBmPrefix` returns nil, else `(ok (pattern r…) (positive i…) (lowhigh L H) (ascii i…) (pages (P i…)…)
    (scan i…) (ismatch b…))`: the physical tables (only when `tables` is 1), `Scan(text, index, beg, end)` and
    `IsMatch(text, index, beg, end)` for every `index` in `0 … len(text)`; `old = 1` selects the table lookup
    before /repo 649b08f -/
def handleBm (fs : List Sexp) : String :=
  let one (k : String) : Option Sexp := (lookup k fs).bind (·.head?)
  let nats (k : String) : Option (List Nat) := (lookup k fs).bind (·.mapM nat?)
  match (one "rtl").bind bool?, (one "ci").bind bool?, (one "old").bind bool?, (one "tables").bind bool?,
        nats "pat", lowerTable? fs, nats "text", (one "beg").bind nat?, (one "end").bind nat? with
  | some rtl, some ci, some old, some tables, some pat, some lower, some text, some beg, some en =>
    match newBmPrefix lower pat ci rtl with
    | none => "(ok nil)"
    | some t =>
      let idx := List.range (text.length + 1)
      let sc := idx.map fun i => match scanWith old lower t text i beg en with
        | some r => (r : Int)
        | none => -1
      let im := idx.map fun i => ofBool (isMatch lower t text i beg en)
      let tabs : List Sexp :=
        if tables then
          [mk "pattern" (t.pattern.map ofNat), mk "positive" (t.positive.map ofInt),
           mk "lowhigh" [ofNat t.lowHigh.1, ofNat t.lowHigh.2], mk "ascii" (t.negAscii.map ofInt),
           mk "pages" (t.negPages.map fun p => Sexp.list (ofNat p.1 :: p.2.map ofInt))]
        else []
      toString (Sexp.list (.atom "ok" :: tabs ++ [mk "scan" (sc.map ofInt), mk "ismatch" im]))
  | _, _, _, _, _, _, _, _, _ => "(bad-op)"


/-! ### the rune-slice searches of helpers/indexof.go (Model/IndexOf.lean) -/

open RegexVerif.IndexOf in
/-- `(indexof (in r…) (find r…) (abc a b c) (sl start length) (lower (r l)…))` ↦ `(ok (<Function> v)…)`: every
    mirrored helper on the same arguments (`a b c` the single runes / range bounds, `IndexFunc` with the test
    "odd or equal to a"); `v` = the integer returned, `0`/`1` for a boolean, `panic` for a run-time panic -/
def handleIndexOf (fs : List Sexp) : String :=
  let nats (k : String) : Option (List Nat) := (lookup k fs).bind (·.mapM nat?)
  match nats "in", nats "find", nats "abc", nats "sl", lowerTable? fs with
  | some inp, some find, some [a, b, c], some [start, len], some lower =>
    let oi : Option Int → Sexp := fun r => match r with | some v => ofInt v | none => .atom "panic"
    let ob : Option Bool → Sexp := fun r => match r with | some v => ofBool v | none => .atom "panic"
    toString (Sexp.list [.atom "ok",
      mk "IndexOfAny" [oi (indexOfAny inp find)],
      mk "IndexOfAny1" [oi (indexOfAny1 inp a)],
      mk "IndexOfAny2" [oi (indexOfAny2 inp a b)],
      mk "IndexOfAny3" [oi (indexOfAny3 inp a b c)],
      mk "IndexOfAnyInRange" [oi (indexOfAnyInRange inp a b)],
      mk "IndexOfAnyExcept" [oi (indexOfAnyExcept inp find)],
      mk "IndexOfAnyExcept1" [oi (indexOfAnyExcept1 inp a)],
      mk "IndexOfAnyExcept2" [oi (indexOfAnyExcept2 inp a b)],
      mk "IndexOfAnyExcept3" [oi (indexOfAnyExcept3 inp a b c)],
      mk "IndexOfAnyExceptInRange" [oi (indexOfAnyExceptInRange inp a b)],
      mk "IndexFunc" [oi (indexFunc inp fun ch => ch % 2 == 1 || ch == a)],
      mk "LastIndexOf" [oi (lastIndexOf inp find)],
      mk "LastIndexOfAnyExcept1" [oi (lastIndexOfAnyExcept1 inp a)],
      mk "LastIndexOfAny1" [oi (lastIndexOfAny1 inp a)],
      mk "LastIndexOfAnyInRange" [oi (lastIndexOfAnyInRange inp a b)],
      mk "IndexOfIgnoreCase" [oi (indexOfIgnoreCase lower inp find)],
      mk "IndexOfIgnoreCaseAscii" [oi (indexOfIgnoreCaseAscii inp find)],
      mk "IndexOf" [oi (indexOf inp find)],
      mk "StartsWith" [ob (startsWith inp find)],
      mk "StartsWithIgnoreCase" [ob (startsWithIgnoreCase lower inp find)],
      mk "Equals" [ob (equals inp start len find)],
      mk "EqualsIgnoreCase" [ob (equalsIgnoreCase lower inp start len find)],
      mk "indexOfAnyRunes" [oi (indexOfAnyRunes inp find)]])
  | _, _, _, _, _ => "(bad-op)"

/-- `(c03 (n N) (rtl b) (minlen L) (start s) (prevlen k) (row (att found q after)…))` ↦
    `(ok <scan> <naive> (hyp shape finder after minlen))`;
    `(c03 (finder …))` ↦ see `handleFinder`; `(c03 (bm …))` ↦ see `handleBm`; `(c03 (indexof …))` ↦ see `handleIndexOf` -/
def handleC03 (args : List Sexp) : String :=
  match args with
  | [.list (.atom "finder" :: fs)] => handleFinder fs
  | [.list (.atom "bm" :: fs)] => handleBm fs
  | [.list (.atom "indexof" :: fs)] => handleIndexOf fs
  | _ =>
  let get (key : String) : Option Sexp := (lookup key args).bind (·.head?)
  match (get "n").bind nat?, (get "rtl").bind bool?, (get "minlen").bind nat?, (get "start").bind nat?,
        (get "prevlen").bind int?, (lookup "row" args).bind (·.mapM c03Entry?) with
  | some n, some rtl, some minLen, some start, some prevLen, some row =>
    let tbl := row.toArray
    let attempt : Nat → Option (Nat × Nat) := fun p => (tbl[p]?).bind (·.att)
    let finder : Nat → Bool × Nat := fun p => match tbl[p]? with | some e => (e.found, e.q) | none => (false, p)
    let after : Nat → Nat := fun p => match tbl[p]? with | some e => e.after | none => p
    let sc := (scan finder after attempt start prevLen rtl n minLen).map (·.span)
    let nv := naive attempt start prevLen rtl n
    toString (Sexp.list [.atom "ok", spanSexp sc, spanSexp nv,
      .list [.atom "hyp", ofBool (checkShape rtl n attempt), ofBool (checkFinder rtl n start finder attempt),
             ofBool (checkAfter rtl n start after attempt), ofBool (checkMinLen rtl n minLen attempt)]])
  | _, _, _, _, _, _ => "(bad-op)"

end RegexVerif.Driver
