import RegexVerif.Sexp
import RegexVerif.Model.Scan

namespace RegexVerif.Driver
open RegexVerif Sexp RegexVerif.Scan

/-- one table entry `(att found q after)`: `att` = `x` | `(index len)`; `(found, q)` the candidate
    finder's answer from this position; `after` where a failed execution leaves the scan position -/
structure C03Entry where
  att : Option (Nat × Nat)
  found : Bool
  q : Nat
  after : Nat

def c03Entry? : Sexp → Option C03Entry
  | .list [a, f, q, af] =>
    match f.bool?, q.nat?, af.nat? with
    | some f, some q, some af =>
      match a with
      | .atom "x" => some ⟨none, f, q, af⟩
      | .list [i, l] =>
        match i.nat?, l.nat? with
        | some i, some l => some ⟨some (i, l), f, q, af⟩
        | _, _ => none
      | _ => none
    | _, _, _ => none
  | _ => none

/-- executable versions of the hypotheses of `acceleration_transparent` on a finite table; the finder
    and bump-along hypotheses are evaluated at the positions the scan can visit from `start` (the `\G`
    origin of the table): the engine's finder is not meant to be called behind the origin -/
def checkShape (rtl : Bool) (n : Nat) (attempt : Nat → Option (Nat × Nat)) : Bool :=
  (List.range (n + 1)).all fun p => match attempt p with
    | none => true
    | some (i, l) => if rtl then i + l == p else i == p && decide (i + l ≤ n)

def checkFinder (rtl : Bool) (n start : Nat) (finder : Nat → Bool × Nat) (attempt : Nat → Option (Nat × Nat)) : Bool :=
  (scanOrder rtl n start).all fun pos =>
    let (f, q) := finder pos
    if rtl then
      decide (q ≤ pos) &&
      (if f then (List.range (n + 1)).all fun p => !(decide (q < p) && decide (p ≤ pos)) || (attempt p).isNone
       else (List.range (n + 1)).all fun p => !(decide (q ≤ p) && decide (p ≤ pos)) || (attempt p).isNone)
    else
      decide (pos ≤ q) && decide (q ≤ n) &&
      (if f then (List.range (n + 1)).all fun p => !(decide (pos ≤ p) && decide (p < q)) || (attempt p).isNone
       else (List.range (n + 1)).all fun p => !(decide (pos ≤ p) && decide (p ≤ q)) || (attempt p).isNone)

def checkAfter (rtl : Bool) (n start : Nat) (after : Nat → Nat) (attempt : Nat → Option (Nat × Nat)) : Bool :=
  (scanOrder rtl n start).all fun q =>
    (attempt q).isSome ||
    (if rtl then decide (after q ≤ q) && (List.range (n + 1)).all fun p => !(decide (after q ≤ p) && decide (p < q)) || (attempt p).isNone
     else decide (q ≤ after q) && decide (after q ≤ n) &&
       (List.range (n + 1)).all fun p => !(decide (q < p) && decide (p ≤ after q)) || (attempt p).isNone)

def checkMinLen (rtl : Bool) (n L : Nat) (attempt : Nat → Option (Nat × Nat)) : Bool :=
  (List.range (n + 1)).all fun p => (attempt p).isNone || (if rtl then decide (L ≤ p) else decide (L ≤ n - p))

def spanSexp : Option (Nat × Nat) → Sexp
  | none => .atom "x"
  | some (i, l) => .list [ofNat i, ofNat l]

/-- `(c03 (n N) (rtl b) (minlen L) (start s) (prevlen k) (row (att found q after)…))` ↦
    `(ok <scan> <naive> (hyp shape finder after minlen))` -/
def handleC03 (args : List Sexp) : String :=
  let get (key : String) : Option Sexp := (lookup key args).bind (·.head?)
  match (get "n").bind nat?, (get "rtl").bind bool?, (get "minlen").bind nat?, (get "start").bind nat?,
        (get "prevlen").bind int?, (lookup "row" args).bind (·.mapM c03Entry?) with
  | some n, some rtl, some minLen, some start, some prevLen, some row =>
    let tbl := row.toArray
    let attempt : Nat → Option (Nat × Nat) := fun p => (tbl[p]?).bind (·.att)
    let finder : Nat → Bool × Nat := fun p => match tbl[p]? with | some e => (e.found, e.q) | none => (false, p)
    let after : Nat → Nat := fun p => match tbl[p]? with | some e => e.after | none => p
    let sc := (scan finder after attempt start prevLen rtl n minLen).map (·.span)
    let nv := naive attempt start prevLen rtl n
    toString (Sexp.list [.atom "ok", spanSexp sc, spanSexp nv,
      .list [.atom "hyp", ofBool (checkShape rtl n attempt), ofBool (checkFinder rtl n start finder attempt),
             ofBool (checkAfter rtl n start after attempt), ofBool (checkMinLen rtl n minLen attempt)]])
  | _, _, _, _, _, _ => "(bad-op)"

end RegexVerif.Driver
