import RegexVerif.Sexp

namespace RegexVerif.Driver
open RegexVerif Sexp

/-- protocol lines with head `c03` (stub) -/
def handleC03 (_args : List Sexp) : String := "(unimplemented)"

end RegexVerif.Driver
