import RegexVerif.Sexp
import RegexVerif.Model.Compile
import RegexVerif.Model.Backtrack
import RegexVerif.Driver.SpecIO
import RegexVerif.Driver.Writer

/-! Driver of leg Cc (compile-correctness tie): coverage class of a tree (`Compile.InFrag`), the
    translation `Compile.toPatRoot` printed in the syntax of `gen.FromGoTree`, and a run of both sides of
    the compile-correctness statement through the executable definitions.  Glue, not proved. -/
namespace RegexVerif.Driver
open RegexVerif Sexp Writer Spec
open RegexVerif.Generated.Opcodes

namespace Cc

/-- node type number ↦ the name of the `Nt…` constant -/
def typeName (t : Nat) : String :=
  let tab : List (Nat × String) := [
    (opOneloop, "Oneloop"), (opNotoneloop, "Notoneloop"), (opSetloop, "Setloop"), (opOnelazy, "Onelazy"),
    (opNotonelazy, "Notonelazy"), (opSetlazy, "Setlazy"), (opOne, "One"), (opNotone, "Notone"), (opSet, "Set"),
    (opMulti, "Multi"), (opRef, "Ref"), (opBol, "Bol"), (opEol, "Eol"), (opBoundary, "Boundary"),
    (opNonboundary, "Nonboundary"), (opBeginning, "Beginning"), (opStart, "Start"), (opEndZ, "EndZ"), (opEnd, "End"),
    (opNothing, "Nothing"), (opECMABoundary, "ECMABoundary"), (opNonECMABoundary, "NonECMABoundary"),
    (opOneloopatomic, "Oneloopatomic"), (opNotoneloopatomic, "Notoneloopatomic"), (opSetloopatomic, "Setloopatomic"),
    (opUpdateBumpalong, "UpdateBumpalong")]
  ((tab.find? (fun e => e.1 == t)).map (·.2)).getD s!"T{t}"

/-! ### printing a pattern as `gen.FromGoTree` does -/

def ofCls : Cls → Sexp
  | .base neg rs ns =>
    mk "base" [ofBool neg, .list (rs.map fun p => .list [ofNat p.1, ofNat p.2]),
      .list (ns.map fun p => .list [ofNat p.1, ofBool p.2])]
  | .diff a b => mk "diff" [ofCls a, ofCls b]

def ofPred : Pred → Sexp
  | .one c ci => mk "one" [ofNat c, ofBool ci]
  | .notone c ci => mk "notone" [ofNat c, ofBool ci]
  | .set c ci => mk "set" [ofCls c, ofBool ci]

def anchorName : Anchor → String
  | .bol => "bol" | .eol => "eol" | .boundary => "boundary" | .nonboundary => "nonboundary"
  | .beginning => "beginning" | .start => "start" | .endz => "endz" | .end => "end" | .begz => "begz"

def ofPat : Pat → Sexp
  | .empty => mk "empty" []
  | .nothing => mk "nothing" []
  | .chr p => mk "chr" [ofPred p]
  | .anchor a => mk "anchor" [.atom (anchorName a)]
  | .seq a b => mk "seq" [ofPat a, ofPat b]
  | .alt a b => mk "alt" [ofPat a, ofPat b]
  | .quant lz lo hi b =>
    mk "quant" [ofBool lz, ofNat lo, (match hi with | none => .atom "inf" | some h => ofNat h), ofPat b]
  | .cap g b => mk "cap" [ofNat g, ofPat b]
  | .look bh ng b => mk "look" [ofBool bh, ofBool ng, ofPat b]
  | .atomic b => mk "atomic" [ofPat b]
  | .ref g ci => mk "ref" [ofNat g, ofBool ci]
  | .refCond g y n => mk "refcond" [ofNat g, ofPat y, ofPat n]
  | .exprCond c y n => mk "exprcond" [ofPat c, ofPat y, ofPat n]

/-! ### why a tree is outside every fragment -/

/-- the first thing, in a pre-order walk below a position of direction `d`, that keeps the tree out of
    the fragments (`toPat` fails there, or the node has tier 9) -/
partial def why (X : Compile.TP) (d : Bool) (n : GoNode) : Option String :=
  let dir (rtl : Bool) (t : Nat) : Option String := if rtl != d then some s!"rtl:{typeName t}" else none
  let first (cs : List GoNode) : Option String := cs.findSome? (why X d)
  let look (c : GoNode) : Option String :=
    match Compile.lookDir c with
    | none => some "look-direction-unknown"
    | some b => why X b c
  match n with
  | .empty => none
  | .bare t =>
    if t == opECMABoundary || t == opNonECMABoundary then some "ECMABoundary"
    else if (Compile.bareToPat X t).isNone then some s!"node:{typeName t}" else none
  | .char t rtl _ ch =>
    (dir rtl t).orElse fun _ =>
      if ch < 0 || !(t == opOne || t == opNotone) then some s!"node:{typeName t}" else none
  | .set rtl ci s =>
    (dir rtl opSet).orElse fun _ =>
      if ci then some "ci:Set" else if (X.rd s).isNone then some "set-unreadable" else none
  | .multi rtl ci _ => (dir rtl opMulti).orElse fun _ => if ci then some "ci:Multi" else none
  | .ref rtl ci m => (dir rtl opRef).orElse fun _ => if m < 0 then some "node:Ref" else if ci then some "ci:Ref" else none
  | .charloop t rtl _ ch _ _ =>
    (dir rtl t).orElse fun _ =>
      if ch < 0 || !(charloopTypes.contains t) then some s!"node:{typeName t}" else none
  | .setloop t rtl ci s _ _ =>
    (dir rtl t).orElse fun _ =>
      if ci then some s!"ci:{typeName t}"
      else if !(setloopTypes.contains t) then some s!"node:{typeName t}"
      else if (X.rd s).isNone then some "set-unreadable" else none
  | .concat cs => first cs
  | .alt cs => first cs
  | .loop _ _ _ c => why X d c
  | .capture m k c =>
    if k != -1 then some "balancing" else if m < 0 then some "node:Capture" else why X d c
  | .group c => why X d c
  | .poslook c => look c
  | .neglook c => look c
  | .atomic c => why X d c
  | .backrefcond1 m y => if m < 0 then some "node:BackRefCond" else why X d y
  | .backrefcond2 m y k => if m < 0 then some "node:BackRefCond" else first [y, k]
  | .exprcond2 c y => first [c, y]
  | .exprcond3 c y k => first [c, y, k]
  | .other t => some s!"other:{t}"

/-- the reason printed after `notcovered` -/
def reason (X : Compile.TP) (ti : TreeInfo) (root : GoNode) : String :=
  match root with
  | .capture 0 (-1) body =>
    match why X ti.rtl body with
      | some r => r
      | none =>
        if mapCapnum (mainCfg ti) 0 != 0 then "slot0"
        else if (writerCaps ti).2.isSome && decide (6 ≤ Compile.tier root) then "caps-map" else "unknown"
  | _ => "root"

/-- the smallest `k ∈ {1,…,8}` with `Compile.InFrag k` (tier 9, ECMAScript boundaries, has no pattern in the
    specification: `toPat` fails there) -/
def cover (X : Compile.TP) (ti : TreeInfo) (root : GoNode) : Option Nat :=
  [1, 2, 3, 4, 5, 6, 7, 8].find? (fun k => Compile.InFrag k X ti root)

/-- the name of the theorem `Props.C01.compile_correct_<name>` whose fragment is tier `k` -/
def tierName (k : Nat) : String :=
  match k with
  | 4 => "T4a" | 5 => "T4b" | 6 => "T4c" | 7 => "T4d" | 8 => "T4e"
  | k => s!"T{k}"

/-! ### both sides of the statement on one input -/

/-- `(input (text r…) (named (id r)…) (word r…))` -/
structure Input where
  text : List Nat
  named : List (Nat × Nat)
  word : List Nat

def input? (e : Sexp) : Option Input := do
  let items ← tagged? "input" e
  let text ← (← lookup "text" items).mapM (·.nat?)
  let named ← (← lookup "named" items).mapM pairNat?
  let word ← (← lookup "word" items).mapM (·.nat?)
  some { text := text, named := named, word := word }

/-- what is fixed for all inputs of one tree -/
structure Side where
  prog : Code.Prog
  /-- the specification's reading of the k-th set of the program -/
  cls : Array (Option Cls)
  pat : Pat
  strict : Bool
  sl : Nat → Nat
  /-- the tree option RightToLeft: the direction of the attempt -/
  rtl : Bool

def mkSide (ti : TreeInfo) (root : GoNode) (names : List (List Nat)) (pat : Pat) (strict : Bool) : Side :=
  { prog := Writer.emit ti root,
    cls := ((Writer.codeFromTree (Writer.mainCfg ti) root).2.sets.map (Compile.readSet names)).toArray,
    pat := pat, strict := strict,
    sl := fun g => (Writer.mapCapnum (Writer.mainCfg ti) (g : Int)).toNat, rtl := ti.rtl }

/-- one attempt at `i` (`\G` origin `i`): `(ok none)` / `(ok idx len)` when the interpreter model on the
    written program and the specification agree, `(diff what)` when not, `(fuel)` when the fuel ran out -/
def attemptAt (S : Side) (inp : Input) (fuel : Nat) (i : Nat) : Sexp :=
  let se : Spec.Env := { text := inp.text, textstart := i, named := inp.named, word := inp.word, fold := [] }
  let env : VM.Env :=
    { text := inp.text.toArray, textstart := (i : Int),
      setMem := fun k r => match S.cls[k]? with
        | some (some c) => c.mem se false r
        | _ => false,
      toLower := id, wordChar := fun r => se.isWord r, ecmaWordChar := fun _ => false,
      endzStrict := S.strict, ecma := false }
  match VM.init S.prog (i : Int) with
  | .error f => mk "diff" [.atom ("fault-" ++ f.name)]
  | .ok s0 =>
    match (VM.run S.prog env fuel s0).1 with
    | .fault f => mk "diff" [.atom ("fault-" ++ f.name)]
    | .fuel _ => mk "fuel" []
    | .done s =>
      let r := Spec.attemptRun se S.pat S.rtl i      -- = Spec.attempt (Lemmas.Backtrack.attemptRun_eq)
      if VM.matched s != r.isSome then mk "diff" [.atom "matched"]
      else match r with
        | none => mk "ok" [.atom "none"]
        | some st =>
          let bad := (List.range S.prog.capsize).find? fun c =>
            (MatchBuilder.arr s.cap.m c).take (2 * MatchBuilder.cnt s.cap.m c) != Compile.slotLog S.sl st.caps c
          match bad with
          | some c => mk "diff" [.atom "slot", ofNat c]
          | none =>
            if s.textpos != (st.pos : Int) then mk "diff" [.atom "textpos"]
            else
              let g0 := (lastCap st.caps 0).getD (0, 0)
              mk "ok" [ofNat g0.1, ofNat g0.2]

end Cc

/-- `(c01 compile strict <info> <node> fuel (<input>…))` with `<input>` = `(input (text r…) (named (id r)…) (word r…))` →
    `(cc (covered T<k>)|(notcovered <reason>) <pat>|none (names (byte…)…) (<attempt at 0> … <attempt at len>)…)`:
    the coverage class by `Compile.InFrag`, `Compile.toPatRoot X ti.rtl root` in the syntax of `gen.FromGoTree`,
    the category names of the tree in id order (`Compile.namesOf`, id = 100 + index), and, for a covered tree
    only, per input the attempts at every position. -/
def handleCompile (args : List Sexp) : String :=
  match args with
  | [strict, info, node, fuel, inputs] =>
    match strict.bool?, treeInfo? info, goNode? node, fuel.nat?, inputs.list? with
    | some strict, some ti, some root, some fuel, some inputs =>
      let names := Compile.namesOf root
      let X : Compile.TP := { strict := strict, rd := Compile.readSet names }
      let cov := Cc.cover X ti root
      let cls := match cov with
        | some k => mk "covered" [.atom (Cc.tierName k)]
        | none => mk "notcovered" [.atom (Cc.reason X ti root)]
      let pat := Compile.toPatRoot X ti.rtl root
      let patS := match pat with
        | some p => Cc.ofPat p
        | none => .atom "none"
      let runs : List Sexp := match cov, Compile.toPatRoot X ti.rtl root with
        | some _, some p =>
          let S := Cc.mkSide ti root names p strict
          inputs.map fun e =>
            match Cc.input? e with
            | some inp => .list ((List.range (inp.text.length + 1)).map (Cc.attemptAt S inp fuel))
            | none => .atom "bad-input"
        | _, _ => []
      toString (mk "cc" ([cls, patS, mk "names" (names.map ofNats)] ++ runs))
    | _, _, _, _, _ => "(bad-op)"
  | _ => "(bad-op)"

end RegexVerif.Driver
