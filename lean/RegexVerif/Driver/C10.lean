import RegexVerif.Sexp
import RegexVerif.Model.VM
import RegexVerif.Model.StackTyping

namespace RegexVerif.Driver
open RegexVerif Sexp VM Code

/-- digest of the interpreter trace: rolling hash of all tuples, number of tuples, the first `k`
    tuples (reversed, flat), largest depth of the backtracking stack -/
structure C10Obs where
  hash : Nat := 0
  n : Nat := 0
  first : List Int := []
  maxTrack : Nat := 0
  maxStack : Nat := 0

def c10Mod : Nat := 1000000007
def c10Mul : Nat := 1000003

def c10Mix (h : Nat) (x : Int) : Nat := (h * c10Mul + (x % (c10Mod : Int)).toNat) % c10Mod

def c10Observe (k : Nat) (o : C10Obs) (s : VMState) : C10Obs :=
  let t : List Int := [s.codepos, operatorNum s.oper, s.textpos, s.track.length, s.stack.length, s.cap.crawl.length]
  { hash := t.foldl c10Mix o.hash,
    n := o.n + 1,
    first := if o.n < k then t.reverse ++ o.first else o.first,
    maxTrack := max o.maxTrack s.track.length,
    maxStack := max o.maxStack s.stack.length }

def c10Pairs (e : Sexp) : List (Nat × Nat) :=
  match e with
  | .list xs => xs.filterMap fun x =>
      match x.nats? with
      | some [a, b] => some (a, b)
      | _ => none
  | _ => []

/-- `(c10 vm codes strings nsets capsize trackcount text setrows lower word ecmaword endzStrict ecma fuel k attempts)`:
    `codes` the code array, `strings` the string table (lists of runes), `setrows` the pairs `(set rune)`
    with `Sets[set].CharIn(rune)`, `lower` the pairs `(rune unicode.ToLower(rune))` that differ, `word` /
    `ecmaword` the word characters among the runes of the text, `attempts` a list of `(pos textstart)`.
    Answer: `(vm wf potOk typeReport (stackcap maxHeight stackAlloc0 crawlAlloc0) (outcome steps maxtrack maxstack textpos hash (first k tuples) (counts) (arrays…))…)`,
    one entry per attempt; `typeReport` = 0 when the program has a grouping-stack typing (`StackTyping.typed`), else
    1 + the opcode of the first instruction at which the typing fails; `stackcap`: the largest height of the inferred
    typing, and the model's initial lengths of `runstack` / `runcrawl` (C13 section 6: the first never changes); outcome ∈ match | nomatch | fuel | fault-<kind>; capture arrays after `tidy`, cut to
    the live entries. -/
def handleC10 (args : List Sexp) : String :=
  match args with
  | [mode, codes, strings, nsets, capsize, trackcount, text, setrows, lower, word, ecmaword, endz, ecma, fuel, k, attempts] =>
    match mode.sym?, codes.ints?, strings.list?, nsets.nat?, capsize.nat?, trackcount.nat?, text.nats?, word.nats?,
          ecmaword.nats?, endz.bool?, ecma.bool?, fuel.nat?, k.nat?, attempts.list? with
    | some "vm", some codes, some strs, some nsets, some capsize, some tc, some text, some word, some ecmaword,
      some endz, some ecma, some fuel, some k, some atts =>
      let p : Prog := { codes := codes.toArray, strings := (strs.map fun s => (s.nats?).getD []).toArray,
                        nsets := nsets, trackcount := tc, capsize := capsize, caps := [], rtl := false }
      let rows := c10Pairs setrows
      let setTab : Array (List Nat) :=
        (List.range nsets).toArray.map fun i => (rows.filter (fun r => r.1 == i)).map (·.2)
      let low := c10Pairs lower
      let envOf (ts : Int) : Env :=
        { text := text.toArray, textstart := ts,
          setMem := fun i r => (setTab.getD i []).contains r,
          toLower := fun r => ((low.find? (fun e => e.1 == r)).map (·.2)).getD r,
          wordChar := fun r => word.contains r, ecmaWordChar := fun r => ecmaword.contains r,
          endzStrict := endz, ecma := ecma }
      let one (a : Sexp) : Sexp :=
        match a.ints? with
        | some [pos, ts] =>
          match init p pos with
          | .error f => mk ("fault-" ++ f.name) []
          | .ok s0 =>
            let (fin, o, _) := runObs p (envOf ts) (c10Observe k) fuel s0 ({} : C10Obs) 0
            let common (tp : Int) : List Sexp :=
              [ofNat o.n, ofNat o.maxTrack, ofNat o.maxStack, ofInt tp, ofNat o.hash, ofInts o.first.reverse]
            match fin with
            | .fault f => mk ("fault-" ++ f.name) (common 0)
            | .fuel s => mk "fuel" (common s.textpos)
            | .done s =>
              if matched s then
                let b := MatchBuilder.tidy s.cap.m
                mk "match" (common s.textpos ++ [ofNats b.matchcount] ++
                  (List.range b.matchcount.length).map fun c =>
                    ofInts ((MatchBuilder.arr b c).take (2 * MatchBuilder.cnt b c)))
              else mk "nomatch" (common s.textpos)
        | _ => mk "bad-attempt" []
      toString (mk "vm" ([ofBool p.wf, ofBool (potOk p), ofNat (StackTyping.typeReport p),
        mk "stackcap" [ofNat (StackTyping.maxHeight p), ofNat (Capacity.stackAlloc0 p.trackcount), ofNat Capacity.crawlAlloc0]] ++
        atts.map one))
    | _, _, _, _, _, _, _, _, _, _, _, _, _, _ => "(bad-op)"
  | _ => "(bad-op)"

end RegexVerif.Driver
