import RegexVerif.Sexp

namespace RegexVerif.Driver
open RegexVerif Sexp

/-- protocol lines with head `c10` (stub) -/
def handleC10 (_args : List Sexp) : String := "(unimplemented)"

end RegexVerif.Driver
