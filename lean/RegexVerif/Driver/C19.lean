import RegexVerif.Sexp
import RegexVerif.Model.Escape
import RegexVerif.Model.EscapeParse

namespace RegexVerif.Driver
open RegexVerif Sexp

/-- option set of a parse request: `(x ecma re2 u)` as 0/1 -/
def c19Opts (e : Sexp) : Option EscapeParse.ParseOpts :=
  match e.nats? with
  | some [x, ec, r2, u] => some { x := x != 0, ecma := ec != 0, re2 := r2 != 0, u := u != 0 }
  | _ => none

def c19Why : EscapeParse.Why → String
  | .construct => "construct"
  | .nonlit => "nonlit"
  | .error => "error"

/-- `(c19 escape|unescape (runes…) (print (…)) (word (…)))`;
    `(c19 parse (runes…) (word (…)) (opts (x ecma re2 u) …))` answers `(ok r₁ r₂ …)`, one result per option
    set: `(lit (runes…))` or `(none construct|nonlit|error|fuel)` (`EscapeParse.parseWhy`) -/
def handleC19 (args : List Sexp) : String :=
  match args with
  | mode :: runes :: rest =>
    match mode.sym?, runes.nats? with
    | some m, some rs =>
      let pr := ((lookup "print" rest).bind (·.head?) |>.bind (·.nats?)).getD []
      let wd := ((lookup "word" rest).bind (·.head?) |>.bind (·.nats?)).getD []
      let isPrint := fun r => pr.contains r
      let isWord := fun r => wd.contains r
      if m == "escape" then
        toString (mk "ok" [ofNats (Escape.escape isPrint rs)])
      else if m == "unescape" then
        match Escape.unescape isWord rs with
        | some out => toString (mk "ok" [ofNats out])
        | none => "(err)"
      else if m == "parse" then
        match ((lookup "opts" rest).getD []).mapM c19Opts with
        | some os =>
          toString (mk "ok" (os.map fun o =>
            match EscapeParse.parseWhy o isWord rs with
            | .lit t => mk "lit" [ofNats t]
            | .stop w => mk "none" [atom (c19Why w)]
            | .outOfFuel => mk "none" [atom "fuel"]))
        | none => "(bad-op)"
      else "(bad-op)"
    | _, _ => "(bad-op)"
  | _ => "(bad-op)"

end RegexVerif.Driver
