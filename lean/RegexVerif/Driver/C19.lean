import RegexVerif.Sexp
import RegexVerif.Model.Escape

namespace RegexVerif.Driver
open RegexVerif Sexp

/-- `(c19 escape|unescape (runes…) (print (…)) (word (…)))` -/
def handleC19 (args : List Sexp) : String :=
  match args with
  | mode :: runes :: rest =>
    match mode.sym?, runes.nats? with
    | some m, some rs =>
      let pr := ((lookup "print" rest).bind (·.head?) |>.bind (·.nats?)).getD []
      let wd := ((lookup "word" rest).bind (·.head?) |>.bind (·.nats?)).getD []
      let isPrint := fun r => pr.contains r
      let isWord := fun r => wd.contains r
      if m == "escape" then
        toString (mk "ok" [ofNats (Escape.escape isPrint rs)])
      else if m == "unescape" then
        match Escape.unescape isWord rs with
        | some out => toString (mk "ok" [ofNats out])
        | none => "(err)"
      else "(bad-op)"
    | _, _ => "(bad-op)"
  | _ => "(bad-op)"

end RegexVerif.Driver
