import RegexVerif.Sexp

namespace RegexVerif.Driver
open RegexVerif Sexp

/-- protocol lines with head `c08` (stub) -/
def handleC08 (_args : List Sexp) : String := "(unimplemented)"

end RegexVerif.Driver
