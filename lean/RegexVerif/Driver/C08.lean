import RegexVerif.Sexp
import RegexVerif.Model.Utf8
import RegexVerif.Model.MatchBuilder

namespace RegexVerif.Driver
open RegexVerif Sexp

namespace C08

def pair? (e : Sexp) : Option (Int × Nat) :=
  match e with
  | .list [a, b] => match a.int?, b.nat? with
    | some r, some w => some (r, w)
    | _, _ => none
  | _ => none

def natPair? (e : Sexp) : Option (Nat × Nat) :=
  match e with
  | .list [a, b] => match a.nat?, b.nat? with
    | some r, some w => some (r, w)
    | _, _ => none
  | _ => none

def optNat (o : Option Nat) : Sexp := match o with | some n => ofNat n | none => ofInt (-1)

def optPair (o : Option (Nat × Nat)) : Sexp :=
  match o with
  | some (a, b) => .list [ofNat a, ofNat b]
  | none => .list [ofInt (-1), ofInt (-1)]

/-- `(c08 map (segs (r w)…) (runes r…) (spans (i l)…))`: every table of the model, entry by entry -/
def handleMap (rest : List Sexp) : String :=
  let segs? := (lookup "segs" rest).bind (fun l => l.mapM pair?)
  let runes? := (lookup "runes" rest).bind (fun l => l.mapM (·.int?))
  let spans? := (lookup "spans" rest).bind (fun l => l.mapM natPair?)
  match segs?, runes?, spans? with
  | some segs, some rs, some spans =>
    let n := segs.length
    let idx := List.range (n + 1)
    let total := Utf8.byteOffsetSpec segs n
    let sbo := Utf8.stringByteOffsets segs
    let mp := Utf8.newStringByteMapper segs
    let btr := Utf8.bytesToRunesAndOffsets segs
    let rr := Utf8.readRunes segs
    let rbo := Utf8.runeByteOffsets rs
    toString (mk "ok" [
      mk "sbo" (idx.map (fun i => optNat (Utf8.offsetAt sbo i))),
      mk "nsbm" (idx.map (fun i => ofNat (Utf8.mapIndex mp i))),
      mk "btr" (idx.map (fun i => optNat (Utf8.offsetAt btr.2 i))),
      mk "btrrunes" [ofInts btr.1],
      mk "rr" [ofNats rr.2],
      mk "rbo" ((List.range (rs.length + 1)).map (fun i => optNat (Utf8.offsetAt rbo i))),
      mk "rlen" (rs.map (fun r => ofInt (Utf8.runeLen r))),
      mk "rs" ((List.range (total + 1)).map (fun b => ofInt (Utf8.runeStart segs (b : Nat)))),
      mk "spans" (spans.map (fun p => optPair (Utf8.byteRange sbo p.1 p.2))),
      mk "rs2" ((List.range (total + 1)).map (fun b => ofInt (Utf8.runeStart segs (b : Nat)))),
      mk "rspans" (spans.map (fun p => optPair (Utf8.byteRange rbo p.1 p.2)))])
  | _, _, _ => "(bad-args)"

open MatchBuilder in
def op? (e : Sexp) : Option Op :=
  match e with
  | .list [.atom "cap", c, s, en] => match c.nat?, s.int?, en.int? with
    | some c, some s, some en => some (.cap c s en)
    | _, _, _ => none
  | .list [.atom "tr", c, u, s, en] => match c.int?, u.nat?, s.int?, en.int? with
    | some c, some u, some s, some en => some (.transfer c u s en)
    | _, _, _, _ => none
  | .list [.atom "un"] => some .uncap
  | _ => none

def pairS (p : Int × Int) : Sexp := .list [ofInt p.1, ofInt p.2]

open MatchBuilder in
/-- `(c08 build capcount (ops …))`: run the interpreter primitives, then `tidy`; report the arrays
    before and after (live prefix of every slot), `Groups()` and the abstract view -/
def handleBuild (rest : List Sexp) : String :=
  match rest with
  | capS :: more =>
    match capS.nat?, (lookup "ops" more).bind (fun l => l.mapM op?) with
    | some capcount, some ops =>
      let r := run capcount ops
      let pre := r.m
      let post := tidy pre
      let slots := List.range capcount
      let live (b : Builder) : Sexp := .list (slots.map (fun c => ofInts ((arr b c).take (2 * cnt b c))))
      toString (mk "ok" [
        mk "abs" ((abs pre).map (fun st => .list (st.map pairS))),
        mk "post" [ofNats post.matchcount, live post, ofBool post.balancing],
        mk "cap0" [pairS (matchCapture post)],
        mk "groups" ((groups post).map (fun g => .list [pairS g.1, .list (g.2.map pairS)]))])
    | _, _ => "(bad-args)"
  | _ => "(bad-args)"

end C08

/-- protocol lines with head `c08` -/
def handleC08 (args : List Sexp) : String :=
  match args with
  | .atom "map" :: rest => C08.handleMap rest
  | .atom "build" :: rest => C08.handleBuild rest
  | _ => "(bad-op)"

end RegexVerif.Driver
