import RegexVerif.Sexp

namespace RegexVerif.Driver
open RegexVerif Sexp

/-- protocol lines with head `c04` (stub) -/
def handleC04 (_args : List Sexp) : String := "(unimplemented)"

end RegexVerif.Driver
