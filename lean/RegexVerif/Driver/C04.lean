import RegexVerif.Sexp
import RegexVerif.Model.Facts
import RegexVerif.Model.SetFacts
import RegexVerif.Model.LoopFacts
import RegexVerif.Driver.SpecIO

namespace RegexVerif.Driver
open RegexVerif Sexp Spec Facts SetFacts LoopFacts

def anchorName : Anchor → String
  | .bol => "bol" | .eol => "eol" | .boundary => "boundary" | .nonboundary => "nonboundary"
  | .beginning => "beginning" | .start => "start" | .endz => "endz" | .end => "end" | .begz => "begz"

def optAnchor : Option Anchor → Sexp
  | some a => .atom (anchorName a)
  | none => .atom "none"

/-! rendering of symbolic sets: the same syntax the harness uses for the leaves of a pattern -/

def clsSexp : Cls → Sexp
  | .base neg rs ns => .list [.atom "base", ofBool neg,
      .list (rs.map (fun p => .list [ofNat p.1, ofNat p.2])), .list (ns.map (fun p => .list [ofNat p.1, ofBool p.2]))]
  | .diff a b => .list [.atom "diff", clsSexp a, clsSexp b]

def predSexp : Pred → Sexp
  | .one c ci => .list [.atom "one", ofNat c, ofBool ci]
  | .notone c ci => .list [.atom "notone", ofNat c, ofBool ci]
  | .set c ci => .list [.atom "set", clsSexp c, ofBool ci]

def optSet : Option (List Pred) → Sexp
  | none => .atom "none"
  | some s => mk "some" (s.map predSexp)

/-! rendering of the loop facts (Model/LoopFacts.lean) -/

def optLoopSexp : Option (Pred × Nat) → Sexp
  | none => .atom "none"
  | some (P, lo) => .list [predSexp P, ofNat lo]

def symAltSexp (a : SymAlt) : Sexp :=
  mk "alt" [mk "lead" [optLoopSexp a.lead],
    mk "core" [match a.core with
      | .lit w => mk "lit" (w.map ofNat)
      | .set P lo hi => mk "set" [predSexp P, ofNat lo, ofNat hi]],
    mk "trail" [optLoopSexp a.trail]]

def chainSexp : Option SymChain → Sexp
  | none => mk "chain" [.atom "none"]
  | some c => mk "chain" (mk "loop" [predSexp c.loop] :: c.landmarks.map fun alts => mk "lm" (alts.map symAltSexp))

def lalSexp : Option SymLal → Sexp
  | none => mk "lal" [.atom "none"]
  | some l => mk "lal" [mk "loop" [predSexp l.loop], mk "lit" (l.lit.map predSexp)]


/-- the over-approximations of one (sub)pattern, left-to-right: `(first S?) (at (k S?)…) (prefixes (r…)…)
    (cover 0|1)` — `cover` is `checkPrefixes E (prefixes norm …)`, the validator's verdict -/
def setsOf (norm : Nat → Nat) (p : Pat) (ks : List Nat) (maxLen maxCount : Nat) (E : List (List Nat)) : List Sexp :=
  let pre := (prefixes norm maxLen maxCount p).1
  [mk "first" [optSet (firstSet p false)],
   mk "at" (ks.map (fun k => .list [ofNat k, optSet (setAt p k)])),
   mk "prefixes" (pre.map ofNats),
   mk "cover" [ofBool (checkPrefixes E pre)]]

/-- the rune normalisation given by a table `(rune representative)…` (identity elsewhere): the harness
    sends `(r, unicode.ToLower r)` for the ordinal-ignore-case lists, nothing for the case-sensitive ones -/
def normOf (tbl : List (Nat × Nat)) (r : Nat) : Nat :=
  match tbl.find? (fun p => p.1 == r) with
  | some p => p.2
  | none => r

/-- `(c04 facts <rtl 0|1> <pat>)` →
    `(ok (minlen N) (maxlen N|-1) (lead A|none) (trail A|none) (prefix (b…) 0|1))`

    * `minlen`/`maxlen`: `ComputeMinLength` / `computeMaxLength` of the tree;
    * `lead`: the published `LeadingAnchor` (`findLeadingOrTrailingAnchor(root, true)`, `Bol` filtered
      out for right-to-left); `trail`: `findLeadingOrTrailingAnchor(root, false)`;
    * `prefix`: the BYTES of `findPrefix(root)` and the return value of `tryFindPrefix` — the model of
      the left-to-right analysis, meaningful for `rtl = 0` only.

    `(c04 sets <rtl 0|1> <pat> (k…) <maxLen> <maxCount> ((r…)…) ((r n)…))` → the proved over-approximations of
    `Model/SetFacts.lean` for the harness to compare published sets with (leg V):
    right-to-left `(ok (first S?))`; left-to-right
    `(ok (first S?) (at (k S?)…) (prefixes (r…)…) (cover 0|1) (look none))` or, when `leadLook` finds a
    leading positive lookahead, `… (look (first S?) (at …) (prefixes …) (cover 0|1))` with the same
    four entries for the lookahead's body.  `S? = none | (some pred…)` (a union of leaf tests), the last
    two arguments are the published string list `E` for the `cover` verdicts and the normalisation table
    of the prefix strings.

    `(c04 loopfacts <k> <pat> <k2>)` → `(ok (chain none | (loop <pred>) (lm (alt (lead none|(<pred> min)) (core (lit r…) |
    (set <pred> lo hi)) (trail none|(<pred> min)))…)…) (lal none | (loop <pred>) (lit <pred>…)) (lalprefix none | (loop <pred>) (str r…)) (look none | <the same three entries for the body of `leadLook pat`, whose top concatenation has `k2` children>))`: what
    `LoopFacts.chainOf k` / `lalOf k` prove about every left-to-right match of the pattern whose top
    concatenation has `k` children (leg L validates the published `LandmarkChain` / `LiteralAfterLoop` against it) -/
def handleC04 (args : List Sexp) : String :=
  match args with
  | [.atom "facts", rtl, p] =>
    match rtl.bool?, pat? p with
    | some rtl, some p =>
      let mx : Sexp := match maxLen p with
        | some k => ofNat k
        | none => .atom "-1"
      let pre := leadingPrefix utf8enc p
      toString (Sexp.list [.atom "ok",
        mk "minlen" [ofNat (minLen p)],
        mk "maxlen" [mx],
        mk "lead" [optAnchor (publishedLeadingAnchor rtl p)],
        mk "trail" [optAnchor (trailingAnchor rtl p)],
        mk "prefix" [ofNats pre.1, ofBool pre.2]])
    | _, _ => "(bad-op)"
  | [.atom "sets", rtl, p, ks, maxLen, maxCount, .list es, .list tbl] =>
    match rtl.bool?, pat? p, ks.nats?, maxLen.nat?, maxCount.nat?, es.mapM (·.nats?), tbl.mapM pairNat? with
    | some rtl, some p, some ks, some maxLen, some maxCount, some E, some tbl =>
      if rtl then toString (Sexp.list [.atom "ok", mk "first" [optSet (firstSet p true)]])
      else
        let norm := normOf tbl
        let look : Sexp := match (leadLook p).1 with
          | some b => mk "look" (setsOf norm b ks maxLen maxCount E)
          | none => mk "look" [.atom "none"]
        toString (Sexp.list ([.atom "ok"] ++ setsOf norm p ks maxLen maxCount E ++ [look]))
    | _, _, _, _, _, _, _ => "(bad-op)"
  | [.atom "loopfacts", k, p, k2] =>
    match k.nat?, pat? p, k2.nat? with
    | some k, some p, some k2 =>
      let three (k : Nat) (q : Pat) : List Sexp :=
        let pre : Sexp := match lalPrefixOf q with
          | none => mk "lalprefix" [.atom "none"]
          | some (P, w) => mk "lalprefix" [mk "loop" [predSexp P], mk "str" (w.map ofNat)]
        [chainSexp (chainOf k q), lalSexp (lalOf k q), pre]
      let look : Sexp := match (leadLook p).1 with
        | some b => mk "look" (three k2 b)
        | none => mk "look" [.atom "none"]
      toString (Sexp.list (.atom "ok" :: three k p ++ [look]))
    | _, _, _ => "(bad-op)"
  | _ => "(bad-op)"

end RegexVerif.Driver
