import RegexVerif.Sexp
import RegexVerif.Model.Facts
import RegexVerif.Driver.SpecIO

namespace RegexVerif.Driver
open RegexVerif Sexp Spec Facts

def anchorName : Anchor → String
  | .bol => "bol" | .eol => "eol" | .boundary => "boundary" | .nonboundary => "nonboundary"
  | .beginning => "beginning" | .start => "start" | .endz => "endz" | .end => "end" | .begz => "begz"

def optAnchor : Option Anchor → Sexp
  | some a => .atom (anchorName a)
  | none => .atom "none"

/-- `(c04 facts <rtl 0|1> <pat>)` →
    `(ok (minlen N) (maxlen N|-1) (lead A|none) (trail A|none) (prefix (b…) 0|1))`

    * `minlen`/`maxlen`: `ComputeMinLength` / `computeMaxLength` of the tree;
    * `lead`: the published `LeadingAnchor` (`findLeadingOrTrailingAnchor(root, true)`, `Bol` filtered
      out for right-to-left); `trail`: `findLeadingOrTrailingAnchor(root, false)`;
    * `prefix`: the BYTES of `findPrefix(root)` and the return value of `tryFindPrefix` — the model of
      the left-to-right analysis, meaningful for `rtl = 0` only. -/
def handleC04 (args : List Sexp) : String :=
  match args with
  | [.atom "facts", rtl, p] =>
    match rtl.bool?, pat? p with
    | some rtl, some p =>
      let mx : Sexp := match maxLen p with
        | some k => ofNat k
        | none => .atom "-1"
      let pre := leadingPrefix utf8enc p
      toString (Sexp.list [.atom "ok",
        mk "minlen" [ofNat (minLen p)],
        mk "maxlen" [mx],
        mk "lead" [optAnchor (publishedLeadingAnchor rtl p)],
        mk "trail" [optAnchor (trailingAnchor rtl p)],
        mk "prefix" [ofNats pre.1, ofBool pre.2]])
    | _, _ => "(bad-op)"
  | _ => "(bad-op)"

end RegexVerif.Driver
