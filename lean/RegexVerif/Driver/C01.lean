import RegexVerif.Sexp

namespace RegexVerif.Driver
open RegexVerif Sexp

/-- protocol lines with head `c01` (stub) -/
def handleC01 (_args : List Sexp) : String := "(unimplemented)"

end RegexVerif.Driver
