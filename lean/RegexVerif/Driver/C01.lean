import RegexVerif.Sexp
import RegexVerif.Model.Backtrack
import RegexVerif.Driver.SpecIO
import RegexVerif.Driver.Writer
import RegexVerif.Driver.Compile
import RegexVerif.Driver.Pipeline

namespace RegexVerif.Driver
open RegexVerif Sexp Spec

/-- `(c01 find rtl start ngroups <pat> <env>)` → the specification's find result, computed by the
    executable matcher (`findRun = find`: Props.C01.findRun_eq_find) -/
def handleC01 (args : List Sexp) : String :=
  match args with
  | .atom "writer" :: rest => handleWriter rest
  | .atom "compile" :: rest => handleCompile rest
  | .atom "pipeline" :: rest => handlePipeline rest
  | [.atom "find", rtl, start, ng, p, e] =>
    match rtl.bool?, start.nat?, ng.nat?, pat? p, env? e with
    | some rtl, some start, some ng, some p, some e => renderResult ng (Spec.findRun e p rtl start)
    | _, _, _, _, _ => "(bad-op)"
  | _ => "(bad-op)"

end RegexVerif.Driver
