import RegexVerif.Sexp
import RegexVerif.Model.Spec
import RegexVerif.Driver.SpecIO

namespace RegexVerif.Driver
open RegexVerif Sexp Spec

/-- `(c01 find rtl start ngroups <pat> <env>)` → the specification's find result -/
def handleC01 (args : List Sexp) : String :=
  match args with
  | [.atom "find", rtl, start, ng, p, e] =>
    match rtl.bool?, start.nat?, ng.nat?, pat? p, env? e with
    | some rtl, some start, some ng, some p, some e => renderResult ng (Spec.find e p rtl start)
    | _, _, _, _, _ => "(bad-op)"
  | _ => "(bad-op)"

end RegexVerif.Driver
