import RegexVerif.Model.Class

/-!
Model of the QUERY functions of `syntax.CharSet` (syntax/charclass.go of /repo): the derived questions
the tree rewrites and the prefix analyses ask about a class instead of "is rune r a member":

  `Equals` / `equals(ignoreNegate)`, `MayOverlap` + `knownDistinctSets` + `mayOverlapByEnumeration`,
  `IsSingleton` / `IsSingletonInverse` / `SingletonChar` (in Model/Class.lean), `IsMergeable`, `IsNegated`,
  `HasSubtraction`, `IsEmpty`, `IsAnything`, `GetSetChars(maxChars)`, `GetIfNRanges(n)`,
  `GetIfOnlyUnicodeCategories`, `IsUnicodeCategoryOfSmallCharCount`, `containsAsciiIgnoreCaseCharacter`,
  `Copy` (in Model/Class.lean), `Hash`/`mapHashFill` and `NewCharSetRuntime`,
  and the two constructors of the constant classes (`getCharSetFromOldString`,
  `getCharSetFromCategoryString`) that `knownDistinctSets` and the small-category test compare with.

Representation as in Model/Class.lean (`Flat`/`Class`, runes = `Nat`).  Category NAMES stay symbolic
numbers; the three names the code itself spells out (`SpaceCategoryText`, `WordCategoryText`, `"Nd"`) are
the fields of `Consts`, together with the rune tables of the source (`ecmaSpace` …, regenerated into
`Generated/ClassQuery.lean`).  Unicode knowledge is an oracle: `cat id ch` (category membership) and
`isLetter ch` (`unicode.IsLetter`, only asked below U+007F); the serialisation additionally needs the
spelling of a category name (`nameOf id` = its bytes, `idOf` the inverse).

Quirks kept: `charInSlow`/`Equals` never normalise; `GetSetChars` counts work, not results (a class with
a subtraction may be refused although few characters remain); `GetIfOnlyUnicodeCategories` returns
`neg != negate` also for SEVERAL negated entries (where the class is a union of complements, not the
complement of a union); `mapHashFill` writes runes as UTF-8 (`WriteRune`: a surrogate code point becomes
U+FFFD) and the length of a category name as an `int8` whose sign carries `Negate`;
`getCharSetFromOldString` sizes its range slice from the length BEFORE a leading 0 is dropped.
-/
namespace RegexVerif.Class

/-! ## The constant classes -/

/-- the names and tables the query functions spell out -/
structure Consts where
  /-- `SpaceCategoryText` (" ") -/
  space : Nat
  /-- `WordCategoryText` ("W") -/
  word : Nat
  /-- `"Nd"` -/
  nd : Nat
  ecmaSpace : List Nat
  ecmaWord : List Nat
  ecmaDigit : List Nat
  whitespaceChars : List Nat
  deriving Repr

/-- the loop of `getCharSetFromOldString` over the (possibly shortened / conceptually 0-prefixed) text:
alternately a lower bound and an exclusive upper bound; an unfinished last range runs to `MaxRune` -/
def oldPairs : List Nat → List (Nat × Nat)
  | a :: b :: rest => (a, b - 1) :: oldPairs rest
  | [a] => [(a, maxRune)]
  | [] => []

/-- `getCharSetFromOldString(setText, negate)`.  `fillFirst` (a negated text not starting at 0) puts
`First: 0` into the first slot and continues with the upper bound: the same as reading the text with a 0 in
front.  The slice is sized from `l`, which is NOT decreased when a leading 0 is dropped: an odd-length text
starting with 0 leaves one zero range `{0,0}` at the end.  `negate` of the result stays false. -/
def fromOldString (setText : List Nat) (negate : Bool) : Flat :=
  if setText.isEmpty then {}
  else
    let l := setText.length
    let tl : List Nat × Nat :=
      if negate then
        (match setText with
          | 0 :: t => (t, l)
          | _ => (0 :: setText, l + 1))
      else (setText, l)
    let n := if tl.2 % 2 = 0 then tl.2 / 2 else tl.2 / 2 + 1
    let filled := oldPairs tl.1
    let rs := filled ++ List.replicate (n - filled.length) (0, 0)
    let any : Bool := match rs with
      | [r] => decide (r.1 = 0) && decide (r.2 ≥ maxRune)
      | _ => false
    { ranges := rs, anything := any && !negate }

/-- `getCharSetFromCategoryString(negateSet, negateCat, cats…)` -/
def fromCategoryString (negateSet negateCat : Bool) (cats : List Nat) : Flat :=
  { neg := negateSet, cats := cats.map (fun c => (c, negateCat)) }

namespace Consts
def spaceClass (k : Consts) : Class := .leaf (fromCategoryString false false [k.space])
def notSpaceClass (k : Consts) : Class := .leaf (fromCategoryString true false [k.space])
def wordClass (k : Consts) : Class := .leaf (fromCategoryString false false [k.word])
def notWordClass (k : Consts) : Class := .leaf (fromCategoryString true false [k.word])
def digitClass (k : Consts) : Class := .leaf (fromCategoryString false false [k.nd])
def notDigitClass (k : Consts) : Class := .leaf (fromCategoryString false true [k.nd])
def ecmaSpaceClass (k : Consts) : Class := .leaf (fromOldString k.ecmaSpace false)
def ecmaWordClass (k : Consts) : Class := .leaf (fromOldString k.ecmaWord false)
def ecmaDigitClass (k : Consts) : Class := .leaf (fromOldString k.ecmaDigit false)
end Consts

/-! ## Flags -/

/-- `IsNegated` -/
def Class.isNegated (c : Class) : Bool := c.flat.neg
/-- `HasSubtraction` -/
def Class.hasSubtraction (c : Class) : Bool := c.hasSub
/-- `IsMergeable` -/
def Class.isMergeable (c : Class) : Bool := !c.isNegated && !c.hasSubtraction
/-- `IsEmpty`: no ranges, no categories, no subtractor (`negate` is not consulted) -/
def Class.isEmpty (c : Class) : Bool := c.flat.ranges.isEmpty && c.flat.cats.isEmpty && !c.hasSub
/-- `IsAnything`: the flag -/
def Class.isAnything (c : Class) : Bool := c.flat.anything

/-! ## `Equals` -/

/-- the field comparisons of `equals` before the recursion into `sub` -/
def Flat.eqFields (ignoreNegate : Bool) (a b : Flat) : Bool :=
  (ignoreNegate || a.neg == b.neg) && a.anything == b.anything && a.ranges == b.ranges && a.cats == b.cats

/-- `equals(c2, ignoreNegate)` for two non-nil sets; the two `nil` tests at its head decide the recursive
call `c.sub.equals(c2.sub, false)`: both nil → true, one nil → false -/
def Class.equalsGo : Class → Class → Bool → Bool
  | .leaf a, .leaf b, ig => Flat.eqFields ig a b
  | .leaf a, .minus b _, ig => Flat.eqFields ig a b && false
  | .minus a _, .leaf b, ig => Flat.eqFields ig a b && false
  | .minus a s, .minus b t, ig => Flat.eqFields ig a b && Class.equalsGo s t false

/-- `Equals` -/
def Class.equals (a b : Class) : Bool := Class.equalsGo a b false

/-! ## `MayOverlap` -/

/-- `knownDistinctSets(set1, set2)` -/
def knownDistinctSets (k : Consts) (set1 set2 : Class) : Bool :=
  (set1.equals k.spaceClass || set1.equals k.ecmaSpaceClass) &&
    (set2.equals k.digitClass || set2.equals k.wordClass ||
      set2.equals k.ecmaDigitClass || set2.equals k.ecmaWordClass)

/-- `for c := first; c <= last; c++ { if p(c) { return true } }` with `n` iterations left -/
def anyFrom (p : Nat → Bool) : Nat → Nat → Bool
  | 0, _ => false
  | n + 1, ch => if p ch then true else anyFrom p n (ch + 1)

/-- `mayOverlapByEnumeration(set1, set2)`: every rune of every range of `set2` is looked up in `set1`
with `CharIn` -/
def mayOverlapByEnumeration (cat : Nat → Nat → Bool) (set1 set2 : Class) : Bool :=
  set2.flat.ranges.any (fun r => anyFrom (charIn cat set1) (r.2 + 1 - r.1) r.1)

/-- `MayOverlap` -/
def mayOverlap (cat : Nat → Nat → Bool) (k : Consts) (set1 set2 : Class) : Bool :=
  if set1.equals set2 then true
  else if set1.isAnything || set2.isAnything then true
  else
    let set1Negated := set1.isNegated
    let set2Negated := set2.isNegated
    if set1Negated != set2Negated then !(Class.equalsGo set1 set2 true)
    else if set1Negated then true
    else if knownDistinctSets k set1 set2 || knownDistinctSets k set2 set1 then false
    else if !set2.hasSubtraction && set2.flat.cats.isEmpty then mayOverlapByEnumeration cat set1 set2
    else if !set1.hasSubtraction && set1.flat.cats.isEmpty then mayOverlapByEnumeration cat set2 set1
    else true

/-! ## `GetSetChars`, `GetIfNRanges`, `GetIfOnlyUnicodeCategories` -/

/-- the inner loop of `GetSetChars` (`for ch := r.First; ch <= r.Last; ch++`, `n` iterations left):
`curWork++`, give up (`none` = `return nil`) beyond `maxChars`, skip what `keep` refuses.
State: (curWork, chars). -/
def setCharsRange (keep : Nat → Bool) (maxChars : Nat) : Nat → Nat → Nat × List Nat → Option (Nat × List Nat)
  | 0, _, st => some st
  | n + 1, ch, (work, acc) =>
    let work := work + 1
    if work > maxChars then none
    else setCharsRange keep maxChars n (ch + 1) (work, if keep ch then acc ++ [ch] else acc)

/-- the outer loop of `GetSetChars` over the ranges -/
def setCharsLoop (keep : Nat → Bool) (maxChars : Nat) : List (Nat × Nat) → Nat × List Nat → Option (Nat × List Nat)
  | [], st => some st
  | r :: rs, st =>
    match setCharsRange keep maxChars (r.2 + 1 - r.1) r.1 st with
    | none => none
    | some st' => setCharsLoop keep maxChars rs st'

/-- `GetSetChars(maxChars)`; `none` = `nil`, `some []` = the empty non-nil slice -/
def getSetChars (cat : Nat → Nat → Bool) (c : Class) (maxChars : Nat) : Option (List Nat) :=
  if !c.flat.cats.isEmpty || c.flat.ranges.length > maxChars then none
  else if c.isNegated && c.hasSubtraction then none
  else
    let keep : Nat → Bool := fun ch => !(c.hasSubtraction && !(charIn cat c ch))
    (setCharsLoop keep maxChars c.flat.ranges (0, [])).map (·.2)

/-- `GetIfNRanges(n)`; `none` = `nil` -/
def getIfNRanges (c : Class) (n : Nat) : Option (List (Nat × Nat)) :=
  if !c.flat.cats.isEmpty then none
  else if c.hasSub then none
  else if c.flat.ranges.length = n then some (c.flat.ranges.take n)
  else none

/-- `GetIfOnlyUnicodeCategories`; `none` = `(nil, false)` -/
def getIfOnlyUnicodeCategories (k : Consts) (c : Class) : Option (List (Nat × Bool) × Bool) :=
  if c.hasSub then none
  else if !c.flat.ranges.isEmpty then none
  else
    match c.flat.cats with
    | [] => none
    | c0 :: _ =>
      let neg := c0.2
      if c.flat.cats.any (fun ct => neg != ct.2 || ct.1 == k.space || ct.1 == k.word) then none
      else some (c.flat.cats, neg != c.flat.neg)

/-! ## `IsUnicodeCategoryOfSmallCharCount`, `containsAsciiIgnoreCaseCharacter` -/

/-- `IsUnicodeCategoryOfSmallCharCount`: `none` = `(false, nil, false, "")`; otherwise (chars, negated,
description: 0 = "", 1 = "whitespace").  `SingletonChar` would panic on an empty range list; `IsSingleton`
guards it, the `getD` is never reached with `[]`. -/
def isUnicodeCategoryOfSmallCharCount (k : Consts) (c : Class) : Option (List Nat × Bool × Nat) :=
  if c.isSingleton then some ([(c.singletonChar).getD 0], false, 0)
  else if c.isSingletonInverse then some ([(c.singletonChar).getD 0], true, 0)
  else if c.equals k.spaceClass then some (k.whitespaceChars, false, 1)
  else if c.equals k.notSpaceClass then some (k.whitespaceChars, true, 1)
  else none

/-- `unicode.MaxASCII` -/
def maxASCII : Nat := 0x7F

/-- `containsAsciiIgnoreCaseCharacter`: the Boolean and the slice `GetSetChars(3)` returned (`none` = nil;
for a negated class `(false, nil)`) -/
def containsAsciiIgnoreCaseCharacter (cat : Nat → Nat → Bool) (isLetter : Nat → Bool) (c : Class) :
    Bool × Option (List Nat) :=
  if c.isNegated then (false, none)
  else
    let twoChars := getSetChars cat c 3
    let ok : Bool := match twoChars with
      | some [a, b] =>
        decide (a < maxASCII) && decide (b < maxASCII) && (a ||| 0x20) == (b ||| 0x20) && isLetter a && isLetter b
      | _ => false
    (ok, twoChars)

/-! ## `Hash` / `NewCharSetRuntime` -/

/-- `utf8.AppendRune` as `bytes.Buffer.WriteRune` uses it: surrogates and values above U+10FFFF are
written as U+FFFD -/
def encodeRune (r : Nat) : List Nat :=
  if r < 0x80 then [r]
  else if r < 0x800 then [0xC0 + r / 64, 0x80 + r % 64]
  else if (0xD800 ≤ r ∧ r ≤ 0xDFFF) ∨ r > maxRune then [0xEF, 0xBF, 0xBD]
  else if r < 0x10000 then [0xE0 + r / 4096, 0x80 + r / 64 % 64, 0x80 + r % 64]
  else [0xF0 + r / 262144, 0x80 + r / 4096 % 64, 0x80 + r / 64 % 64, 0x80 + r % 64]

def isCont (b : Nat) : Bool := decide (0x80 ≤ b) && decide (b ≤ 0xBF)

/-- `utf8.DecodeRune` as `bytes.Buffer.ReadRune` uses it: the rune and the rest of the buffer; malformed
input (a stray continuation byte, an over-long form, a surrogate, a value above U+10FFFF, a cut-off
sequence) yields U+FFFD and consumes ONE byte; the empty buffer yields (0, []) (`ReadRune` returns
`0, 0, io.EOF`; the error is discarded) -/
def decodeRune : List Nat → Nat × List Nat
  | [] => (0, [])
  | b0 :: rest =>
    if b0 < 0x80 then (b0, rest)
    else if 0xC2 ≤ b0 ∧ b0 ≤ 0xDF then
      match rest with
      | b1 :: r1 => if isCont b1 then ((b0 - 0xC0) * 64 + (b1 - 0x80), r1) else (0xFFFD, rest)
      | _ => (0xFFFD, rest)
    else if 0xE0 ≤ b0 ∧ b0 ≤ 0xEF then
      match rest with
      | b1 :: b2 :: r2 =>
        let lo := if b0 = 0xE0 then 0xA0 else 0x80
        let hi := if b0 = 0xED then 0x9F else 0xBF
        if lo ≤ b1 ∧ b1 ≤ hi ∧ isCont b2 then ((b0 - 0xE0) * 4096 + (b1 - 0x80) * 64 + (b2 - 0x80), r2)
        else (0xFFFD, rest)
      | _ => (0xFFFD, rest)
    else if 0xF0 ≤ b0 ∧ b0 ≤ 0xF4 then
      match rest with
      | b1 :: b2 :: b3 :: r3 =>
        let lo := if b0 = 0xF0 then 0x90 else 0x80
        let hi := if b0 = 0xF4 then 0x8F else 0xBF
        if lo ≤ b1 ∧ b1 ≤ hi ∧ isCont b2 ∧ isCont b3 then
          ((b0 - 0xF0) * 262144 + (b1 - 0x80) * 4096 + (b2 - 0x80) * 64 + (b3 - 0x80), r3)
        else (0xFFFD, rest)
      | _ => (0xFFFD, rest)
    else (0xFFFD, rest)

/-- `binary.Write(buf, binary.LittleEndian, int32(n))` for `0 ≤ n < 2^31` -/
def int32LE (n : Nat) : List Nat := [n % 256, n / 256 % 256, n / 65536 % 256, n / 16777216 % 256]

/-- `binary.Read(b, binary.LittleEndian, &int32)`: value and rest; fewer than four bytes leave 0
(the error is discarded, the buffer is drained by `io.ReadFull`) -/
def readInt32LE : List Nat → Nat × List Nat
  | b0 :: b1 :: b2 :: b3 :: rest => (b0 + b1 * 256 + b2 * 65536 + b3 * 16777216, rest)
  | _ => (0, [])

/-- one category of `mapHashFill`: `int8(±len(Cat))` as a byte, then the name -/
def hashCat (nameOf : Nat → List Nat) (c : Nat × Bool) : List Nat :=
  let n := (nameOf c.1).length
  (if c.2 then (256 - n % 256) % 256 else n % 256) :: nameOf c.1

/-- `mapHashFill` on one `CharSet` (without its subtractor) -/
def Flat.hashFill (nameOf : Nat → List Nat) (f : Flat) : List Nat :=
  [(if f.neg then 1 else 0) + (if f.anything then 2 else 0)] ++
    int32LE f.ranges.length ++ int32LE f.cats.length ++
    f.ranges.flatMap (fun r => encodeRune r.1 ++ encodeRune r.2) ++
    f.cats.flatMap (hashCat nameOf)

/-- `Hash()` = `mapHashFill` into a fresh buffer: own fields, then the subtractor's -/
def Class.hash (nameOf : Nat → List Nat) : Class → List Nat
  | .leaf f => f.hashFill nameOf
  | .minus f s => f.hashFill nameOf ++ Class.hash nameOf s

/-- the range loop of `NewCharSetRuntime` -/
def readRanges : Nat → List Nat → List (Nat × Nat) × List Nat
  | 0, buf => ([], buf)
  | n + 1, buf =>
    let a := decodeRune buf
    let b := decodeRune a.2
    let rest := readRanges n b.2
    ((a.1, b.1) :: rest.1, rest.2)

/-- the category loop of `NewCharSetRuntime`: an `int8` length (negative = negated), then `Next(len)` -/
def readCats (idOf : List Nat → Nat) : Nat → List Nat → List (Nat × Bool) × List Nat
  | 0, buf => ([], buf)
  | n + 1, buf =>
    match buf with
    | [] =>
      -- binary.Read fails, lenCat stays 0, Next(0) is empty: an un-negated category with the empty name
      let rest := readCats idOf n []
      ((idOf [], false) :: rest.1, rest.2)
    | lb :: buf1 =>
      let negd := decide (lb ≥ 128)
      let len := if lb ≥ 128 then 256 - lb else lb
      let rest := readCats idOf n (buf1.drop len)
      ((idOf (buf1.take len), negd) :: rest.1, rest.2)

/-- `NewCharSetRuntime(buf)`; `fuel` bounds the depth of the `sub` chain (`buf.length` suffices: every
level consumes at least nine bytes or ends the recursion) -/
def newCharSetRuntime (idOf : List Nat → Nat) : Nat → List Nat → Class
  | 0, _ => .leaf {}
  | fuel + 1, buf =>
    let val := buf.headD 0
    let b1 := buf.drop 1
    let lr := readInt32LE b1
    let lc := readInt32LE lr.2
    let rs := readRanges lr.1 lc.2
    let cs := readCats idOf lc.1 rs.2
    let f : Flat := { neg := val % 2 == 1, anything := val / 2 % 2 == 1, ranges := rs.1, cats := cs.1 }
    if cs.2.length > 0 then .minus f (newCharSetRuntime idOf fuel cs.2) else .leaf f

end RegexVerif.Class
