/-
C05 — the DECISION PROCEDURES of the tree rewrites of /repo/syntax/tree.go that are not the
auto-atomic / ending-backtracking decisions (those are `Model/AutoAtomic.lean`):

* `reduceAlternation`: `reduceSingleLetterAndNestedAlternations` (`mergeLetters`: nested alternations
  flattened, runs of One/Set branches merged into one Set, Nothing dropped), `extractCommonPrefixText`
  (`factorText`), `extractCommonPrefixOneNotoneSet` (`factorSet`), `removeRedundantEmptiesAndNothings`;
* `reduceConcatenation`: `reduceConcatenationWithAdjacentLoops` (`coalesce`),
  `reduceConcatenationWithAdjacentStrings` (`joinStrings`: nested concatenations flattened, One/Multi
  joined, Empty dropped);
* `reduceAtomic`: nested Atomic, `makeLoopAtomic`, and the alternation block (Empty first branch,
  trimming after an Empty branch, reordering branches by their first character — `atomicAlt`);
* `reduceSet` (singleton set → One, inverse singleton → Notone);
* the placement of the `UpdateBumpalong` marker in `finalOptimize` (`placeBump`).

They are written on `RNode`, an n-ary mirror of Go's `RegexNode` AFTER `reduce` (node types One /
Notone / Set, their loops in the three kinds, Multi, n-ary Alternate and Concatenate with the option
word where the Go code compares it), and each is one *step* on a node whose children are reduced
already, exactly as `addChild → reduce` works; `reduceNode` is the dispatch of `reduce()`,
`reduceAll` applies it bottom-up.  The denotation `toPat` maps an `RNode` to the specification's
`Spec.Pat` (what `gen.FromGoTree` does for the engine's tree).

Direction: the Go tests `n.Options & RightToLeft` are modelled by the structural direction `rtl`
(parameter): the exporter of the harness refuses trees whose direction bits contradict their
position, as `gen.FromGoTree` does.  `IgnoreCase` has been removed from every node but Ref by
`reduce()` before any of these functions sees it, so the tests `Options & (RightToLeft|IgnoreCase)`
of the two merge loops always succeed; the full-word comparisons (`startingNode.Options !=
startingNodeOptions`, `required.Options != other.Options`, `currentNode.Options == nextNode.Options`)
are modelled on the exported option word `o`.

Switches: `on` = the gated rewrites are enabled (`!syntax.VerifDisableRewrites`); `ll` = the cases
that COLLAPSE DUPLICATE SUCCESSES are enabled: the general loop·loop case of `coalesce` (`a*a*` ⇒ `a*`),
merging One/Set branches whose classes overlap (`a|a` ⇒ `[a]`, `[ab]|b`), dropping a second Empty branch.
They keep the set of successes and the order of first occurrences but not the list (`a|a` has the
success twice), so `Spec.m` differs as a list although no context can tell.  The soundness theorem of
`Props/C05.lean` (equality of `Spec.m`) is for `ll = false`; the correspondence leg runs `ll = true`
and requires both variants to agree before it certifies a pattern (bucket `dup-collapsing-case`).
-/
import RegexVerif.Model.Spec
import RegexVerif.Model.AutoAtomic
import RegexVerif.Model.Class
import RegexVerif.Lemmas.Rewrites

namespace RegexVerif.RewriteDecisions
open RegexVerif.Spec

/-- the test of a One / Notone / Set family node (case-sensitive: see the header) -/
inductive CP where
  | one (c : Nat)
  | notone (c : Nat)
  | set (s : Cls)
  deriving DecidableEq, Repr, Inhabited

def CP.pred : CP → Pred
  | .one c => .one c false
  | .notone c => .notone c false
  | .set s => .set s false

/-- the three kinds of single-character loop: `Oneloop`, `Onelazy`, `Oneloopatomic` (and Notone…, Set…) -/
inductive LK where
  | greedy | lzy | atomic
  deriving DecidableEq, Repr, Inhabited

/-- n-ary mirror of a reduced `RegexNode`.  `o` = the node's `Options` word where tree.go compares
    or propagates it. -/
inductive RNode where
  | chr (o : Nat) (p : CP)
  | cloop (o : Nat) (k : LK) (p : CP) (lo : Nat) (hi : Option Nat)
  | multi (o : Nat) (cs : List Nat)
  | empty
  | nothing
  | bump
  | anchor (a : Anchor)
  | ref (g : Nat) (ci : Bool)
  | alt (o : Nat) (cs : List RNode)
  | cat (o : Nat) (cs : List RNode)
  | loop (lzy : Bool) (lo : Nat) (hi : Option Nat) (b : RNode)
  | cap (g : Nat) (b : RNode)
  | look (behind neg : Bool) (b : RNode)
  | atomic (b : RNode)
  | refCond (g : Nat) (y n : RNode)
  | exprCond (c y n : RNode)
  deriving Repr, Inhabited

def lit (c : Nat) : Pat := .chr (.one c false)

/-- a Multi node: its runes in text order (in either direction) -/
def strPat (cs : List Nat) : Pat := seqOf (cs.map lit)

def cloopPat (k : LK) (p : CP) (lo : Nat) (hi : Option Nat) : Pat :=
  match k with
  | .greedy => .quant false lo hi (.chr p.pred)
  | .lzy => .quant true lo hi (.chr p.pred)
  | .atomic => .atomic (.quant false lo hi (.chr p.pred))

/-- the children of a Concatenate in pattern order (the parser stores a right-to-left
    concatenation reversed) -/
def dir {α : Type} (rtl : Bool) (l : List α) : List α := if rtl then l.reverse else l

mutual
/-- **denotation**: the specification pattern of a node evaluated in direction `rtl` -/
def toPat (rtl : Bool) : RNode → Pat
  | .chr _ p => .chr p.pred
  | .cloop _ k p lo hi => cloopPat k p lo hi
  | .multi _ cs => strPat cs
  | .empty => .empty
  | .nothing => .nothing
  | .bump => .empty
  | .anchor a => .anchor a
  | .ref g ci => .ref g ci
  | .alt _ cs => altOf (toPats rtl cs)
  | .cat _ cs => seqOf (dir rtl (toPats rtl cs))
  | .loop lzy lo hi b => .quant lzy lo hi (toPat rtl b)
  | .cap g b => .cap g (toPat rtl b)
  | .look bh ng b => .look bh ng (toPat bh b)
  | .atomic b => .atomic (toPat rtl b)
  | .refCond g y n => .refCond g (toPat rtl y) (toPat rtl n)
  | .exprCond c y n => .exprCond (toPat rtl c) (toPat rtl y) (toPat rtl n)
def toPats (rtl : Bool) : List RNode → List Pat
  | [] => []
  | x :: xs => toPat rtl x :: toPats rtl xs
end

/-! ## small predicates on nodes -/

def isEmpty : RNode → Bool
  | .empty => true
  | _ => false

def isNothing : RNode → Bool
  | .nothing => true
  | _ => false

/-- `replaceNodeIfUnnecessary` for an Alternate -/
def mkAlt (o : Nat) : List RNode → RNode
  | [] => .nothing
  | [c] => c
  | cs => .alt o cs

/-- `replaceNodeIfUnnecessary` for a Concatenate -/
def mkCat (o : Nat) : List RNode → RNode
  | [] => .empty
  | [c] => c
  | cs => .cat o cs

/-- a One or Multi node from its text (`processOneOrMulti`, the `prefix` node of
    `extractCommonPrefixText`): Empty / One / Multi by length -/
def strNode (o : Nat) : List Nat → RNode
  | [] => .empty
  | [c] => .chr o (.one c)
  | cs => .multi o cs

/-! ## `reduceSet` -/

/-- `IsSingleton` / `IsSingletonInverse` + `SingletonChar` -/
def reduceCP : CP → CP
  | .set (.base false [(a, b)] []) => if a = b then .one a else .set (.base false [(a, b)] [])
  | .set (.base true [(a, b)] []) => if a = b then .notone a else .set (.base true [(a, b)] [])
  | p => p

/-! ## `reduceSingleLetterAndNestedAlternations` -/

mutual
/-- nested alternations are spliced in place (and visited in turn): the deep flattening -/
def flatAlt : RNode → List RNode
  | .alt _ cs => flatAlts cs
  | n => [n]
def flatAlts : List RNode → List RNode
  | [] => []
  | x :: xs => flatAlt x ++ flatAlts xs
end

open RegexVerif.Class in
/-- `addCategories` on (id, negate) lists: `none` = an entry with the opposite negation exists
    (`makeAnything`) -/
def addCats : List (Nat × Bool) → List (Nat × Bool) → Option (List (Nat × Bool))
  | cs, [] => some cs
  | cs, c :: rest =>
    match findCat c cs with
    | none => none
    | some true => addCats cs rest
    | some false => addCats (cs ++ [c]) rest

/-- what `mergeCls` answers when the third normal form of `canonicalize` would apply (ranges that omit
    exactly one rune, and categories: the engine asks the categories about that rune — Unicode knowledge the
    model does not have).  No engine set looks like this; leg Rs counts such cases as unmodelled. -/
def norm3Sentinel : Cls := .base true [] []

open RegexVerif.Class in
/-- the set that `prev.addSet(nd)` / `prev.addChar(ch)` leaves in `prev` for two mergeable
    (positive, subtraction-free) classes: ranges appended, categories added, `canonicalize` (sort +
    merge, then the "everything but one gap" / "everything" normal forms; the third normal form:
    `norm3Sentinel`).  `none`: not both mergeable. -/
def mergeCls : Cls → Cls → Option Cls
  | .base false rs ns, .base false rs' ns' =>
    if rs.isEmpty && rs'.isEmpty then
      -- `canonicalize` returns at once on an empty range list
      match addCats ns ns' with
      | none => some (.base false [(0, maxRune)] [])
      | some ns2 => some (.base false [] ns2)
    else
    match addCats ns ns' with
    | none => some (.base false [(0, maxRune)] [])
    | some ns2 =>
      let f : Flat := { ranges := mergeRanges (rs ++ rs'), cats := ns2 }
      let f1 := norm2 false (norm1 false f)
      if !f1.neg && !f1.cats.isEmpty &&
          (match f1.ranges with
           | [r0, r1] => decide (r0.1 = 0 ∧ r0.2 + 2 = r1.1 ∧ r1.2 = maxRune)
           | _ => false) then some norm3Sentinel
      else some (.base f1.neg f1.ranges f1.cats)
  | _, _ => none

/-- `IsMergeable`: not negated, no subtraction -/
def mergeable : Cls → Bool
  | .base false _ _ => true
  | _ => false

/-- the options word of the node a merge leaves behind: `prev.T = NtSet` keeps `prev.Ch`, and
    `extractCommonPrefixOneNotoneSet` compares `Ch` of Set nodes too — a Set that came from a One is
    not "the same node" as a parsed Set with the same class.  The exporter folds a stale `Ch` of a Set
    node into the options word (`o + Ch·2¹⁶`), the only place where it matters. -/
def mergedOpts (po : Nat) : CP → Nat
  | .one c => po + c * 65536
  | _ => po

/-- the class a One or Set branch contributes -/
def letterCls : CP → Option Cls
  | .one c => some (.base false [(c, c)] [])
  | .set s => some s
  | .notone _ => none

/-- two positive classes without categories that share no rune (decided on the ranges) -/
def clsDisjoint : Cls → Cls → Bool
  | .base false rs [], .base false rs' [] => rs.all (fun r => rs'.all (fun r' => decide (r.2 < r'.1) || decide (r'.2 < r.1)))
  | _, _ => false

/-- the merge loop over the flattened branches.  `out` is what has been emitted (in order), the
    flags are `wasLastSet` and `lastNodeCannotMerge` -/
def mergeGo (ll : Bool) : List RNode → Bool → Bool → List RNode → List RNode
  | out, _, _, [] => out
  | out, wasLast, cannot, nd :: rest =>
    match nd with
    | .nothing => mergeGo ll out wasLast cannot rest
    | .chr o (.one c) =>
      if !wasLast || cannot then mergeGo ll (out ++ [nd]) true false rest
      else
        match out.getLast?, out.dropLast with
        | some (.chr po pp), front =>
          match (letterCls pp).bind (fun s => if ll || clsDisjoint s (.base false [(c, c)] []) then mergeCls s (.base false [(c, c)] []) else none) with
          | some s => mergeGo ll (front ++ [.chr (mergedOpts po pp) (.set s)]) true (!mergeable s) rest
          | none => mergeGo ll (out ++ [.chr o (.one c)]) true false rest
        | _, _ => mergeGo ll (out ++ [nd]) true false rest
    | .chr o (.set s) =>
      if !wasLast || cannot || !mergeable s then mergeGo ll (out ++ [nd]) true (!mergeable s) rest
      else
        match out.getLast?, out.dropLast with
        | some (.chr po pp), front =>
          match (letterCls pp).bind (fun s0 => if ll || clsDisjoint s0 s then mergeCls s0 s else none) with
          | some s2 => mergeGo ll (front ++ [.chr (mergedOpts po pp) (.set s2)]) true (!mergeable s2) rest
          | none => mergeGo ll (out ++ [.chr o (.set s)]) true (!mergeable s) rest
        | _, _ => mergeGo ll (out ++ [nd]) true (!mergeable s) rest
    | _ => mergeGo ll (out ++ [nd]) false false rest

def mergeLetters (ll : Bool) (cs : List RNode) : List RNode := mergeGo ll [] false false (flatAlts cs)

/-! ## `reduceConcatenation` -/

mutual
def flatCat : RNode → List RNode
  | .cat _ cs => flatCats cs
  | n => [n]
def flatCats : List RNode → List RNode
  | [] => []
  | x :: xs => flatCat x ++ flatCats xs
end

/-- the text of a One or Multi node -/
def strOf : RNode → Option (Nat × List Nat)
  | .chr o (.one c) => some (o, [c])
  | .multi o cs => some (o, cs)
  | _ => none

/-- `reduceConcatenationWithAdjacentStrings` after the flattening: One/Multi runs are joined into
    the first node of the run (right-to-left: the later child's text goes in front), Empty is
    dropped (without ending a run) -/
def joinGo (rtl : Bool) : List RNode → Bool → List RNode → List RNode
  | out, _, [] => out
  | out, wasStr, nd :: rest =>
    match nd with
    | .empty => joinGo rtl out wasStr rest
    | _ =>
      match strOf nd with
      | none => joinGo rtl (out ++ [nd]) false rest
      | some (_, s) =>
        if !wasStr then joinGo rtl (out ++ [nd]) true rest
        else
          match out.getLast?.bind strOf, out.dropLast with
          | some (po, ps), front =>
            joinGo rtl (front ++ [.multi po (if rtl then s ++ ps else ps ++ s)]) true rest
          | none, _ => joinGo rtl (out ++ [nd]) true rest

def joinStrings (rtl : Bool) (cs : List RNode) : List RNode := joinGo rtl [] false (flatCats cs)

def isOneCP : CP → Bool
  | .one _ => true
  | _ => false

def maxInt32 : Nat := 2147483647

/-- `canCombineCounts` (`none` = `math.MaxInt32`, the infinite maximum) -/
def canCombine (lo : Nat) (hi : Option Nat) (lo' : Nat) (hi' : Option Nat) : Bool :=
  decide (lo < maxInt32) && decide (lo' < maxInt32) && decide (lo + lo' ≤ maxInt32 - 1) &&
    (match hi, hi' with
     | some h, some h' => decide (h + h' ≤ maxInt32 - 1)
     | _, _ => true)

def addHi : Option Nat → Option Nat → Option Nat
  | some a, some b => some (a + b)
  | _, _ => none

/-- the `Options` word proper (without the stale `Ch` the exporter folds into it, see `mergedOpts`):
    the adjacent-loop rules compare `Options` and the set, not `Ch` -/
def optsWord (o : Nat) : Nat := o % 65536

/-- what `reduceConcatenationWithAdjacentLoops` does with `current` and `next`:
    `none` — nothing; `some (cur', none)` — `next` is absorbed; `some (cur', some next')` — part of
    a Multi is absorbed and the trimmed `next'` becomes the current node -/
def combineFull (rtl : Bool) : RNode → RNode → Option (RNode × Option RNode)
  | .cloop o k p lo hi, .cloop o' k' p' lo' hi' =>
    if optsWord o = optsWord o' ∧ k = k' ∧ p = p' then
      if k = .atomic ∧ 0 < lo' then none
      else if !canCombine lo hi lo' hi' then none
      else some (.cloop o k p (lo + lo') (addHi hi hi'), none)
    else none
  | .cloop o k p lo hi, .chr o' p' =>
    if optsWord o = optsWord o' ∧ p = p' ∧ k ≠ .atomic then
      if canCombine lo hi 1 (some 1) then some (.cloop o k p (lo + 1) (addHi hi (some 1)), none) else none
    else none
  | .cloop o k (.one c) lo hi, .multi o' s =>
    if optsWord o = optsWord o' ∧ k ≠ .atomic ∧ s.head? = some c ∧ rtl = false then
      let n := (s.takeWhile (· == c)).length
      if canCombine lo hi n (some n) then
        some (.cloop o k (.one c) (lo + n) (addHi hi (some n)),
          match s.drop n with
          | [] => none
          | [d] => some (.chr o' (.one d))
          | ds => some (.multi o' ds))
      else none
    else none
  | .chr o p, .cloop o' k p' lo' hi' =>
    if optsWord o = optsWord o' ∧ p = p' then
      if canCombine 1 (some 1) lo' hi' then some (.cloop o k p (lo' + 1) (addHi hi' (some 1)), none) else none
    else none
  | .chr o p, .chr o' p' =>
    if optsWord o = optsWord o' ∧ p = p' ∧ isOneCP p = false then
      some (.cloop o .greedy p 2 (some 2), none)
    else none
  | _, _ => none

/-- `ll = false` (the variant the soundness theorem is about): only "an individual item with a
    loop" (`aa*` ⇒ `a+`), left-to-right -/
def combine (ll rtl : Bool) (cur nx : RNode) : Option (RNode × Option RNode) :=
  if ll then combineFull rtl cur nx
  else
    match cur, nx with
    | .chr _ _, .cloop _ _ _ _ _ => if rtl then none else combineFull rtl cur nx
    | _, _ => none

/-- the scan of `reduceConcatenationWithAdjacentLoops`: `cur` is `n.Children[current]` -/
def coalesceGo (ll rtl : Bool) : RNode → List RNode → List RNode
  | cur, [] => [cur]
  | cur, nx :: rest =>
    match combine ll rtl cur nx with
    | some (cur', none) => coalesceGo ll rtl cur' rest
    | some (cur', some nx') => cur' :: coalesceGo ll rtl nx' rest
    | none => cur :: coalesceGo ll rtl nx rest

def coalesce (ll rtl : Bool) : List RNode → List RNode
  | [] => []
  | c :: cs => coalesceGo ll rtl c cs

/-- `reduceConcatenation` -/
def reduceCat (ll rtl : Bool) (o : Nat) (cs : List RNode) : RNode :=
  match cs with
  | [] => .empty
  | [c] => c
  | _ =>
    if cs.any isNothing then .nothing
    else mkCat o (joinStrings rtl (coalesce ll rtl cs))

/-! ## `extractCommonPrefixText` -/

/-- `findBranchOneOrMultiStart`: the options and text of the One/Multi a branch starts with -/
def startOf : RNode → Option (Nat × List Nat)
  | .cat _ (c :: _) => strOf c
  | .cat _ [] => none
  | n => strOf n

def commonLen : List Nat → List Nat → Nat
  | a :: as, b :: bs => if a = b then commonLen as bs + 1 else 0
  | _, _ => 0

/-- the inner loop: how many of the following branches share a non-empty prefix with `span`
    (same options), and what is left of `span` -/
def shared (so : Nat) : List Nat → List RNode → Nat × List Nat
  | span, [] => (0, span)
  | span, b :: bs =>
    match startOf b with
    | none => (0, span)
    | some (o', s) =>
      if o' ≠ so then (0, span)
      else
        let c := commonLen span s
        if c = 0 then (0, span)
        else
          let r := shared so (span.take c) bs
          (r.1 + 1, r.2)

/-- `processOneOrMulti` on the branch (on its first child when it is a Concatenate) -/
def stripPrefix (k : Nat) : RNode → RNode
  | .cat o (c :: cs) =>
    match strOf c with
    | some (so, s) => .cat o (strNode so (s.drop k) :: cs)
    | none => .cat o (c :: cs)
  | n =>
    match strOf n with
    | some (so, s) => strNode so (s.drop k)
    | none => n

/-- One `extractCommonPrefixText` on the branch list.  `red pa n` is `reduce()` of a node whose
    parent is (`pa`) or is not an Atomic node.  `fuel` bounds the walk (list length suffices). -/
def factorTextGo (red : Bool → RNode → RNode) (pa : Bool) : Nat → List RNode → List RNode
  | 0, cs => cs
  | _ + 1, [] => []
  | _ + 1, [x] => [x]
  | fuel + 1, x :: y :: rest =>
    match startOf x with
    | none => x :: y :: rest
    | some (so, span) =>
      let r := shared so span (y :: rest)
      if r.1 = 0 then x :: factorTextGo red pa fuel (y :: rest)
      else
        let k := r.2.length
        let group := x :: (y :: rest).take r.1
        -- `branch.reduce()`, then `newAlternate.addChild(branch)` reduces it once more
        let branches := group.map (fun b => red false (red false (stripPrefix k b)))
        let inner :=
          if pa then red false (.atomic (red true (.alt so branches)))
          else red false (.alt so branches)
        red false (.cat so [strNode so r.2, inner]) :: factorTextGo red pa fuel ((y :: rest).drop r.1)

def factorText (red : Bool → RNode → RNode) (pa : Bool) (o : Nat) (cs : List RNode) : RNode :=
  match factorTextGo red pa cs.length cs with
  | [c] => c
  | cs' => .alt o cs'

/-! ## `extractCommonPrefixOneNotoneSet` -/

/-- the node a branch starts with when the branch is a Concatenate of at least two children -/
def firstOf : RNode → Option RNode
  | .cat _ (c :: _ :: _) => some c
  | _ => none

/-- One/Notone/Set (individual, or a loop with `M == N`) -/
def fixedPrefix : RNode → Bool
  | .chr _ _ => true
  | .cloop _ _ _ lo hi => hi = some lo
  | _ => false

/-- the comparison of `required` with `other` (T, Options, M, N, Ch, Set).

    `fk` ("fixed loops up to their kind"): `finalOptimize` runs `findAndMakeLoopsAtomic` BEFORE the ending walk
    that reduces the alternations in tail position again, so that second reduction compares node types some of
    which the auto-atomic pass has just changed (`a{2}?x|a{2}y`: two different node types when the tree is
    built, both `Oneloopatomic` afterwards if `x`, `y` cannot start with `a`).  Which loops became atomic is
    decided by `canBeMadeAtomic` (validated by `AutoAtomic.cert`, not computed by this model); for a loop with
    `M == N` the kind has no meaning (`samePrefix_m`), so the model of that second reduction is run in both
    readings: kinds compared (`fk = false`), or ignored for fixed loops (`fk = true`). -/
def samePrefix (fk : Bool) : RNode → RNode → Bool
  | .chr o p, .chr o' p' => o = o' && p = p'
  | .cloop o k p lo hi, .cloop o' k' p' lo' hi' =>
    o = o' && (decide (k = k') || (fk && decide (hi = some lo))) && p = p' && lo = lo' && hi = hi'
  | _, _ => false

def dropFirst : RNode → RNode
  | .cat o (_ :: cs) => .cat o cs
  | n => n

def countSame (fk : Bool) (req : RNode) : List RNode → Nat
  | [] => 0
  | b :: bs =>
    match firstOf b with
    | some c => if samePrefix fk req c then countSame fk req bs + 1 else 0
    | none => 0

def factorSetGo (red : Bool → RNode → RNode) (fk pa : Bool) (o : Nat) : Nat → List RNode → List RNode
  | 0, cs => cs
  | _ + 1, [] => []
  | _ + 1, [x] => [x]
  | fuel + 1, x :: y :: rest =>
    match firstOf x with
    | none => x :: factorSetGo red fk pa o fuel (y :: rest)
    | some req =>
      if !fixedPrefix req then x :: factorSetGo red fk pa o fuel (y :: rest)
      else
        let k := countSame fk req (y :: rest)
        if k = 0 then x :: factorSetGo red fk pa o fuel (y :: rest)
        else
          let group := x :: (y :: rest).take k
          let branches := group.map (fun b => red false (dropFirst b))
          let inner :=
            if pa then red false (.atomic (red true (.alt o branches)))
            else red false (.alt o branches)
          red false (.cat o [req, inner]) :: factorSetGo red fk pa o fuel ((y :: rest).drop k)

def factorSet (red : Bool → RNode → RNode) (fk pa : Bool) (o : Nat) (cs : List RNode) : RNode :=
  if cs.all (fun c => (firstOf c).isSome) then mkAlt o (factorSetGo red fk pa o cs.length cs)
  else .alt o cs

/-! ## `removeRedundantEmptiesAndNothings` -/

def removeEmptiesGo (ll : Bool) : Bool → List RNode → List RNode
  | _, [] => []
  | seen, c :: cs =>
    match c with
    | .nothing => removeEmptiesGo ll seen cs
    | .empty => if seen && ll then removeEmptiesGo ll seen cs else c :: removeEmptiesGo ll true cs
    | _ => c :: removeEmptiesGo ll seen cs

def removeEmpties (ll : Bool) (o : Nat) (cs : List RNode) : RNode := mkAlt o (removeEmptiesGo ll false cs)

/-! ## `reduceAlternation` -/

/-- `reduceAlternation` after `reduceSingleLetterAndNestedAlternations`: the two prefix extractions
    (gated, left-to-right), then `removeRedundantEmptiesAndNothings` -/
def reduceAltFrom (red : Bool → RNode → RNode) (ll fk on pa rtl : Bool) : RNode → RNode
  | .alt o1 cs1 =>
    match (if on && !rtl then factorText red pa o1 cs1 else .alt o1 cs1) with
    | .alt o2 cs2 =>
      match (if on && !rtl then factorSet red fk pa o2 cs2 else .alt o2 cs2) with
      | .alt o3 cs3 => removeEmpties ll o3 cs3
      | n3 => n3
    | n2 => n2
  | n1 => n1

def reduceAlt (red : Bool → RNode → RNode) (ll fk on pa rtl : Bool) (o : Nat) (cs : List RNode) : RNode :=
  match cs with
  | [] => .nothing
  | [c] => c
  | _ => reduceAltFrom red ll fk on pa rtl (mkAlt o (mergeLetters ll cs))

/-! ## `reduceAtomic` -/

/-- `makeLoopAtomic` -/
def makeLoopAtomic : RNode → RNode
  | .cloop o .greedy p lo hi => .cloop o .atomic p lo hi
  | .cloop o .lzy p lo hi =>
    if lo = 0 then .empty
    else
      match p with
      | .one c => if 2 ≤ lo ∧ lo ≤ 64 then .multi o (List.replicate lo c) else .cloop o .atomic p lo (some lo)
      | _ => .cloop o .atomic p lo (some lo)
  | n => n

/-- the first character of a branch that starts with a One or Multi
    (`findBranchOneOrMultiStart().FirstCharOfOneOrMulti()`) -/
def firstChar (b : RNode) : Option Nat := (startOf b).bind (fun s => s.2.head?)

/-- "trim off any branches after an Empty" (`for i := 1; i < len(branches)-1`) -/
def trimAfterEmpty : List RNode → List RNode
  | [] => []
  | b :: bs =>
    let rec go : List RNode → List RNode
      | [] => []
      | [x] => [x]
      | x :: y :: rest => if isEmpty x then [x] else x :: go (y :: rest)
    b :: go bs

/-- the reordering of one run of branches that all start with a One/Multi: stable grouping by first
    character, in order of first appearance.  The flag says whether anything moved. -/
def groupByFirst : Nat → List RNode → List RNode × Bool
  | 0, l => (l, false)
  | _ + 1, [] => ([], false)
  | fuel + 1, x :: xs =>
    let c := firstChar x
    let same := xs.filter (fun b => firstChar b == c)
    let others := xs.filter (fun b => firstChar b != c)
    let r := groupByFirst fuel others
    (x :: same ++ r.1, r.2 || (xs.dropWhile (fun b => firstChar b == c)).any (fun b => firstChar b == c))

/-- the maximal runs of branches with a first character; runs of at least three are reordered -/
def reorderGo : Nat → List RNode → List RNode × Bool
  | 0, l => (l, false)
  | _ + 1, [] => ([], false)
  | fuel + 1, x :: xs =>
    if (firstChar x).isNone then
      let r := reorderGo fuel xs
      (x :: r.1, r.2)
    else
      let run := x :: xs.takeWhile (fun b => (firstChar b).isSome)
      let rest := xs.dropWhile (fun b => (firstChar b).isSome)
      let g := if 3 ≤ run.length then groupByFirst run.length run else (run, false)
      -- the branch that ends the run is not a starting position either
      match rest with
      | [] => (g.1, g.2)
      | y :: ys =>
        let r := reorderGo fuel ys
        (g.1 ++ y :: r.1, g.2 || r.2)

def reorder (bs : List RNode) : List RNode × Bool := reorderGo bs.length bs

/-- `reduceAtomic`.  The ending-backtracking elimination on the child is not part of this model
    (`AutoAtomic.cert` validates it). -/
def reduceAtomic (red : Bool → RNode → RNode) (ll on rtl : Bool) : RNode → RNode
  | .atomic (.atomic b) => reduceAtomic red ll on rtl (.atomic b)
  | .atomic .empty => .empty
  | .atomic .nothing => .nothing
  | .atomic (.cloop o k p lo hi) =>
    -- (the proved variant leaves a right-to-left lazy loop alone.  A loop with `N < M` never leaves the
    -- parser; on such a node the lazy case of `makeLoopAtomic` would not be sound and the model leaves
    -- it alone, as `AutoAtomic.endAtomic` does.)
    if (!ll && rtl && k = .lzy) || (k = .lzy && !AutoAtomic.hiAtLeast hi lo) then .atomic (.cloop o k p lo hi)
    else makeLoopAtomic (.cloop o k p lo hi)
  | .atomic (.alt o bs) =>
    if !on || rtl then .atomic (.alt o bs)
    else
      match bs with
      | [] => .atomic (.alt o bs)
      | b0 :: _ =>
        if isEmpty b0 then .empty
        else
          let r := reorder (trimAfterEmpty bs)
          if r.2 then .atomic (red true (.alt o r.1)) else .atomic (.alt o r.1)
  | n => n

/-! ## `reduce()` and the bottom-up pass -/

/-- `reduce()` on a node whose children are reduced; `pa` = its parent is an Atomic node.
    `reduceRep`, `reduceLookaround` and the conditionals are the identity here (a reduced node is a
    fixed point of theirs; their ending-backtracking part belongs to `AutoAtomic.cert`). -/
def reduceNode (ll fk on rtl : Bool) : Nat → Bool → RNode → RNode
  | 0, _, n => n
  | fuel + 1, pa, n =>
    match n with
    | .alt o cs => reduceAlt (reduceNode ll fk on rtl fuel) ll fk on pa rtl o cs
    | .cat o cs => reduceCat ll rtl o cs
    | .atomic b => reduceAtomic (reduceNode ll fk on rtl fuel) ll on rtl (.atomic b)
    | .chr o p => .chr o (reduceCP p)
    | .cloop o k p lo hi => .cloop o k (reduceCP p) lo hi
    | n => n

mutual
/-- structural equality of trees (used to see whether a child changed) -/
def RNode.same : RNode → RNode → Bool
  | .chr o p, .chr o' p' => o == o' && decide (p = p')
  | .cloop o k p lo hi, .cloop o' k' p' lo' hi' =>
    o == o' && decide (k = k') && decide (p = p') && lo == lo' && hi == hi'
  | .multi o cs, .multi o' cs' => o == o' && cs == cs'
  | .empty, .empty => true
  | .nothing, .nothing => true
  | .bump, .bump => true
  | .anchor a, .anchor a' => decide (a = a')
  | .ref g ci, .ref g' ci' => g == g' && ci == ci'
  | .alt o cs, .alt o' cs' => o == o' && sameList cs cs'
  | .cat o cs, .cat o' cs' => o == o' && sameList cs cs'
  | .loop z lo hi b, .loop z' lo' hi' b' => z == z' && lo == lo' && hi == hi' && RNode.same b b'
  | .cap g b, .cap g' b' => g == g' && RNode.same b b'
  | .look bh ng b, .look bh' ng' b' => bh == bh' && ng == ng' && RNode.same b b'
  | .atomic b, .atomic b' => RNode.same b b'
  | .refCond g y n, .refCond g' y' n' => g == g' && RNode.same y y' && RNode.same n n'
  | .exprCond c y n, .exprCond c' y' n' => RNode.same c c' && RNode.same y y' && RNode.same n n'
  | _, _ => false
def sameList : List RNode → List RNode → Bool
  | [], [] => true
  | x :: xs, y :: ys => RNode.same x y && sameList xs ys
  | _, _ => false
end

def changedAny (cs cs' : List RNode) : Bool := !sameList cs cs'

mutual
def size : RNode → Nat
  | .alt _ cs => sizes cs + 1
  | .cat _ cs => sizes cs + 1
  | .multi _ cs => cs.length + 1
  | .loop _ _ _ b => size b + 1
  | .cap _ b => size b + 1
  | .look _ _ b => size b + 1
  | .atomic b => size b + 1
  | .refCond _ y n => size y + size n + 1
  | .exprCond c y n => size c + size y + size n + 1
  | _ => 1
def sizes : List RNode → Nat
  | [] => 0
  | x :: xs => size x + sizes xs
end

/-! ## the part of `eliminateEndingBacktracking` that re-reduces alternations

The walk makes the constructs that run last atomic.  Most of what it does is validated by
`AutoAtomic.cert` and is NOT repeated here (loops made atomic, lazy loops cut to their minimum, the
descent `FindLastExpressionInLoopForAutoAtomic`).  What matters for the rewrite decisions: the last
child of a Capture / Concatenate that is an alternation, conditional or loop is wrapped in a new
Atomic node through `atomic.addChild(child)` + `ReplaceChild`, i.e. the child is REDUCED AGAIN with an
Atomic parent and then `reduceAtomic` runs on the wrapper — prefix factoring with atomic inner
alternations, trimming after Empty, reordering. -/

/-- `existingChild.T == NtAlternate || NtBackRefCond || NtExprCond || NtLoop || NtLazyloop` -/
def wrappable : RNode → Bool
  | .alt _ _ => true
  | .refCond _ _ _ => true
  | .exprCond _ _ _ => true
  | .loop _ _ _ _ => true
  | _ => false

def lastMap (f : RNode → RNode) : List RNode → List RNode
  | [] => []
  | [x] => [f x]
  | x :: y :: rest => x :: lastMap f (y :: rest)

/-- `node.eliminateEndingBacktracking()`.  `rtl` = the node is right-to-left (the walk returns at
    once); `pa` = the node's parent is an Atomic node; `wrapOK` = the node is the last child of a
    Capture / Concatenate whose own parent is not Atomic (so an alternation, conditional or loop here
    gets an Atomic wrapper); `red` = `reduce()`.  The fuel bounds the depth of the walk. -/
def endElim (red : Bool → RNode → RNode) : Nat → Bool → Bool → Bool → RNode → RNode
  | 0, _, _, _, n => n
  | f + 1, rtl, pa, wrapOK, n =>
    if rtl then n
    else
      let go := endElim red f rtl
      match n with
      | .alt o bs =>
        if wrapOK then
          -- `atomic.addChild(alt)`; `ReplaceChild(last, atomic)`; then the walk goes on below
          go false false (red false (.atomic (red true (.alt o bs))))
        else .alt o (bs.map (go false false))
      | .atomic b => .atomic (go true false b)
      | .look bh ng b => .look bh ng (endElim red f bh false false b)
      | .cap g b => .cap g (go false (!pa) b)
      | .cat o cs => .cat o (lastMap (go false (!pa)) cs)
      | .refCond g y n =>
        let r := RNode.refCond g (go false false y) (go false false n)
        if wrapOK then .atomic r else r
      | .exprCond c y n =>
        let r := RNode.exprCond c (go false false y) (go false false n)
        if wrapOK then .atomic r else r
      | .loop lzy lo hi b =>
        let r := if (if lzy then lo = 1 ∧ AutoAtomic.hiAtLeast hi 1 = true else hi = some 1) then RNode.loop lzy lo hi (go false false b) else .loop lzy lo hi b
        if wrapOK then .atomic r else r
      | n => n

mutual
/-- the whole tree, bottom-up, as `addChild → reduce` builds it: children first (an Alternate /
    Atomic is reduced again with the rewrites, a Concatenate only when a child changed — the
    un-rewritten tree is already a fixed point of the un-gated part); `reduceAtomic`,
    `dg`: an alternation directly under an Atomic node of the un-rewritten tree was its direct child
    when it was first reduced (`(?>a|b)`) or sat in a group of its own (`(?>(?:a|b))`, parent Group:
    the new inner alternations are then not made atomic) — the tree does not tell, both are sound;
    `reduceLookaround` and `reduceExpressionConditional` then run the ending walk on the child -/
def reduceAll (ll on dg : Bool) (fuel : Nat) (rtl pa : Bool) : RNode → RNode
  | .alt o cs =>
    -- when no child changed the un-gated first pass has been done already (on the children as they were
    -- before Nothing / a second Empty went away: repeating it on its own output could merge more)
    let cs' := reduceAlls ll on dg fuel rtl cs
    if changedAny cs cs' then reduceNode ll false on rtl fuel pa (.alt o cs')
    else reduceAltFrom (reduceNode ll false on rtl fuel) ll false on pa rtl (.alt o cs)
  | .cat o cs =>
    let cs' := reduceAlls ll on dg fuel rtl cs
    if changedAny cs cs' then reduceNode ll false on rtl fuel pa (.cat o cs') else .cat o cs
  | .atomic b =>
    -- `reduceAtomic`, then (when an Atomic node remains) `child.eliminateEndingBacktracking()`
    match reduceNode ll false on rtl fuel pa (.atomic (reduceAll ll on dg fuel rtl dg b)) with
    | .atomic x => if on then .atomic (endElim (reduceNode ll false on rtl fuel) fuel rtl true false x) else .atomic x
    | r => r
  | .loop lzy lo hi b => .loop lzy lo hi (reduceAll ll on dg fuel rtl false b)
  | .cap g b => .cap g (reduceAll ll on dg fuel rtl false b)
  | .look bh ng b =>
    -- `reduceLookaround`: `n.eliminateEndingBacktracking()` (the walk enters the child; a lookbehind's
    -- child is right-to-left and stops it)
    let b' := reduceAll ll on dg fuel bh false b
    .look bh ng (if on then endElim (reduceNode ll false on bh fuel) fuel bh false false b' else b')
  | .refCond g y n => .refCond g (reduceAll ll on dg fuel rtl false y) (reduceAll ll on dg fuel rtl false n)
  | .exprCond c y n =>
    let c' := reduceAll ll on dg fuel rtl false c
    .exprCond (if on then endElim (reduceNode ll false on rtl fuel) fuel rtl false false c' else c')
      (reduceAll ll on dg fuel rtl false y) (reduceAll ll on dg fuel rtl false n)
  | n => n
def reduceAlls (ll on dg : Bool) (fuel : Nat) (rtl : Bool) : List RNode → List RNode
  | [] => []
  | x :: xs => reduceAll ll on dg fuel rtl false x :: reduceAlls ll on dg fuel rtl xs
end

/-- the whole pattern: `reduce` as the tree is built, then (left-to-right patterns only)
    `finalOptimize`'s `rootNode.eliminateEndingBacktracking()` from the implicit root capture — which runs
    after `findAndMakeLoopsAtomic`, hence `fk` (see `samePrefix`) -/
def rewriteTop (ll fk dg : Bool) (fuel : Nat) (rtl : Bool) (n : RNode) : RNode :=
  let r := reduceAll ll true dg fuel rtl false n
  endElim (reduceNode ll fk true rtl fuel) fuel rtl false true r

/-! ## the bump-along marker (`finalOptimize`) -/

/-- the loop kinds that get the marker: an unbounded greedy or atomic single-character loop, a lazy one
    only outside every Atomic group (`!atomicByAncestry && !insideAtomic`; `atomicByAncestry` is false
    as soon as a Concatenate has been passed, which the insertion requires anyway) -/
def bumpLoop (ia ab : Bool) : RNode → Bool
  | .cloop _ k _ _ none => k != .lzy || (!ab && !ia)
  | _ => false

/-- the walk of `finalOptimize` from the child of the implicit root capture: through Atomic nodes
    (`ia` = one has been passed) and first children of Concatenates (`ab` = none has been passed);
    the marker goes in at index 1 of the Concatenate whose first child is the loop -/
def placeBump (ia ab : Bool) : RNode → RNode
  | .atomic b => .atomic (placeBump true ab b)
  | .cat o (c :: cs) =>
    if bumpLoop ia false c then .cat o (c :: .bump :: cs)
    else .cat o (placeBump ia false c :: cs)
  | n => n

/-- the loop the marker is placed after (kind, test, minimum) -/
def bumpSite (ia ab : Bool) : RNode → Option (LK × CP × Nat)
  | .atomic b => bumpSite true ab b
  | .cat _ (c :: _) =>
    if bumpLoop ia false c then
      match c with
      | .cloop _ k p lo _ => some (k, p, lo)
      | _ => none
    else bumpSite ia false c
  | _ => none

end RegexVerif.RewriteDecisions
