/-
Model of the scan loop and of the iteration built on it:

* `runner.go`  `Runner.scan` (lines 116-228): search origin `textstart`, the bump after an empty
  previous match, the minimum-length cut-off, candidate finder, one execution of the program,
  bump-along on failure, stop position;
* `regexp.go`  `run`, `FindRunesMatch`/`FindStringMatch` (first match), `FindNextMatch`
  (`run(m.textpos, m.RuneLength)`), `FindAllRunesIndex`/`FindAllStringIndex` → `findAllRunesIndex`
  with its `prevEnd` rule, `n` counter and nil-ness;
* `compat/regexp.go`  `forEachStringMatch` and the nil-ness of the `FindAll*` methods built on it;
* Go's `regexp` package, `(*Regexp).allMatches` (src/regexp/regexp.go), over an abstract
  `findFrom : pos → Option (start, end)`.

Everything is over an ABSTRACT matcher.  For a fixed input of `n` runes and a fixed `\G` origin
(`textstart`):

* `attempt : Nat → Option (Nat × Nat)` — one execution of the compiled program started at a scan
  position; `some (index, len)` is the overall match (`Capture 0`).  `AttemptShape`: left-to-right the
  match begins at the attempt position and ends inside the input, right-to-left it *ends* at the
  attempt position.
* `finder : Nat → Bool × Nat` — the candidate finder (`findFirstChar`): from `Runtextpos = pos` it
  reports whether a candidate exists and where it leaves `Runtextpos`.
* `after : Nat → Nat` — where a *failed* execution started at `q` leaves `Runtextpos` (`q` itself, or
  further along when the program contains the bump-along update opcode).

All three depend on the `\G` origin, so the iteration takes them as families indexed by
`textstart` (`Engine`).  Positions are rune indices `0 … n`.  `previousMatchLength` and the
find-all limit are Go `int`s that use `-1`, so they are `Int` here.
-/
namespace RegexVerif.Scan

/-- `stoppos` of `Runner.scan` -/
def stopPos (rtl : Bool) (n : Nat) : Nat := if rtl then 0 else n

/-- `r.Runtextpos += bump` -/
def bump (rtl : Bool) (p : Nat) : Nat := if rtl then p - 1 else p + 1

/-- the end of a match `(index, len)` in scan direction; `Runtextpos` after a successful execution,
    hence `Match.textpos` (`tidy`) -/
def scanEnd (rtl : Bool) (m : Nat × Nat) : Nat := if rtl then m.1 else m.1 + m.2

/-- the start of a match in scan direction: the position the successful attempt started at -/
def scanStart (rtl : Bool) (m : Nat × Nat) : Nat := if rtl then m.1 + m.2 else m.1

/-- the minimum-length cut-off at the head of the scan loop (runner.go:168-178) -/
def tooShort (rtl : Bool) (n minLen pos : Nat) : Bool :=
  decide (0 < minLen) && (if rtl then decide (pos < minLen) else decide (n - pos < minLen))

/-- The `for` loop of `Runner.scan`; `fuel` bounds the number of iterations (`n + 1` always
    suffices, see `Lemmas.Scan`). Result: the overall match of the first successful execution. -/
def scanLoop (finder : Nat → Bool × Nat) (after : Nat → Nat) (attempt : Nat → Option (Nat × Nat))
    (rtl : Bool) (n minLen : Nat) : Nat → Nat → Option (Nat × Nat)
  | 0, _ => none
  | fuel + 1, pos =>
    if tooShort rtl n minLen pos then none
    else if (finder pos).1 then
      match attempt (finder pos).2 with
      | some m => some m
      | none =>
        -- failure: `if r.Runtextpos == stoppos { return nil }; r.Runtextpos += bump`
        if after (finder pos).2 = stopPos rtl n then none
        else scanLoop finder after attempt rtl n minLen fuel (bump rtl (after (finder pos).2))
    else if (finder pos).2 = stopPos rtl n then none
    else scanLoop finder after attempt rtl n minLen fuel (bump rtl (finder pos).2)

/-- A returned match: overall span and the position the next search resumes at (`Match.textpos`). -/
structure Hit where
  index : Nat
  len : Nat
  textpos : Nat
deriving DecidableEq, Repr

def Hit.ofSpan (rtl : Bool) (m : Nat × Nat) : Hit := ⟨m.1, m.2, scanEnd rtl m⟩

def Hit.span (h : Hit) : Nat × Nat := (h.index, h.len)

/-- a returned match lies inside the input and resumes at its end in scan direction -/
def Hit.Valid (rtl : Bool) (n : Nat) (h : Hit) : Prop :=
  h.index + h.len ≤ n ∧ h.textpos = scanEnd rtl (h.index, h.len)

/-- `Runner.scan(rt, _, textstart = start, previousMatchLength = prevLen, …)` for the matcher bound to
    that `textstart`. -/
def scan (finder : Nat → Bool × Nat) (after : Nat → Nat) (attempt : Nat → Option (Nat × Nat))
    (start : Nat) (prevLen : Int) (rtl : Bool) (n minLen : Nat) : Option Hit :=
  (if prevLen = 0 then
      -- an empty previous match must not be returned again: move the scan position, keep `\G`
      if start = stopPos rtl n then none
      else scanLoop finder after attempt rtl n minLen (n + 1) (bump rtl start)
    else scanLoop finder after attempt rtl n minLen (n + 1) start).map (Hit.ofSpan rtl)

/-! ### the baseline: attempt at every position in scan order (`VerifNaiveScan`) -/

/-- the scan positions from `pos` to the stop position, in scan order -/
def scanOrder (rtl : Bool) (n pos : Nat) : List Nat :=
  if rtl then (List.range (pos + 1)).reverse else List.range' pos (n + 1 - pos)

/-- first successful attempt at or after `pos` in scan order -/
def naiveFrom (attempt : Nat → Option (Nat × Nat)) (rtl : Bool) (n pos : Nat) : Option (Nat × Nat) :=
  (scanOrder rtl n pos).findSome? attempt

/-- `VerifNaiveScan(re, rt, start, textstart, prevLen)`: no finder, no cut-off, no bump-along -/
def naive (attempt : Nat → Option (Nat × Nat)) (start : Nat) (prevLen : Int) (rtl : Bool) (n : Nat) :
    Option (Nat × Nat) :=
  if prevLen = 0 then
    if start = stopPos rtl n then none else naiveFrom attempt rtl n (bump rtl start)
  else naiveFrom attempt rtl n start

/-! ### what is assumed of the abstract matcher -/

/-- Shape of a single execution's result. Left-to-right the overall match begins at the attempt
    position and ends inside the input; right-to-left it ends at the attempt position. -/
def AttemptShape (rtl : Bool) (n : Nat) (attempt : Nat → Option (Nat × Nat)) : Prop :=
  ∀ p i l, p ≤ n → attempt p = some (i, l) → if rtl then i + l = p else i = p ∧ i + l ≤ n

/-- The candidate finder is only an accelerator: from `pos` it moves ahead in scan direction, stays
    inside the input, a reported candidate `q` skips only positions at which the program fails, and
    "no candidate, position left at `q`" means the program fails at every position from `pos` up to
    and including `q` — the scan loop then stops if `q` is the end of the scan and otherwise goes on
    behind `q` (the anchored prefix test `BmPrefix.IsMatch` fails without moving the position; the
    searching finders leave the position at the end of the scan). -/
def FinderSound (rtl : Bool) (n : Nat) (finder : Nat → Bool × Nat) (attempt : Nat → Option (Nat × Nat)) : Prop :=
  ∀ pos, pos ≤ n →
    if rtl then
      (finder pos).2 ≤ pos ∧
      ((finder pos).1 = true → ∀ p, (finder pos).2 < p → p ≤ pos → attempt p = none) ∧
      ((finder pos).1 = false → ∀ p, (finder pos).2 ≤ p → p ≤ pos → attempt p = none)
    else
      pos ≤ (finder pos).2 ∧ (finder pos).2 ≤ n ∧
      ((finder pos).1 = true → ∀ p, pos ≤ p → p < (finder pos).2 → attempt p = none) ∧
      ((finder pos).1 = false → ∀ p, pos ≤ p → p ≤ (finder pos).2 → attempt p = none)

/-- Where a failed execution leaves the scan position (bump-along update): ahead of its start,
    inside the input, having skipped only positions at which the program fails. -/
def AfterSound (rtl : Bool) (n : Nat) (after : Nat → Nat) (attempt : Nat → Option (Nat × Nat)) : Prop :=
  ∀ q, q ≤ n → attempt q = none →
    if rtl then after q ≤ q ∧ ∀ p, after q ≤ p → p < q → attempt p = none
    else q ≤ after q ∧ after q ≤ n ∧ ∀ p, q < p → p ≤ after q → attempt p = none

/-- `MinRequiredLength` is a lower bound on the input that remains, in scan direction, from the
    position of every successful attempt.  (It is published and consumed as "the input must have at
    least this many runes from here on"; with a leading positive lookahead it can exceed the length
    of the match itself, so it is not stated as a bound on the match length.) -/
def MinLenSound (rtl : Bool) (n L : Nat) (attempt : Nat → Option (Nat × Nat)) : Prop :=
  ∀ p i l, p ≤ n → attempt p = some (i, l) → if rtl then L ≤ p else L ≤ n - p

/-! ### iteration: first match, FindNextMatch, find-all -/

/-- the matcher as a family over the `\G` origin, plus `FindOptimizations.MinRequiredLength` -/
structure Engine where
  finder : Nat → Nat → Bool × Nat
  after : Nat → Nat → Nat
  attempt : Nat → Nat → Option (Nat × Nat)
  minLen : Nat

/-- every member of the family is well-shaped and its accelerators are sound -/
structure Engine.Sound (E : Engine) (rtl : Bool) (n : Nat) : Prop where
  shape : ∀ ts, ts ≤ n → AttemptShape rtl n (E.attempt ts)
  finder : ∀ ts, ts ≤ n → FinderSound rtl n (E.finder ts) (E.attempt ts)
  after : ∀ ts, ts ≤ n → AfterSound rtl n (E.after ts) (E.attempt ts)
  minLen : ∀ ts, ts ≤ n → MinLenSound rtl n E.minLen (E.attempt ts)

/-- `runner.scan(input, _, start, prevLen, …)`: `\G` is bound to `start` -/
def scanAt (E : Engine) (rtl : Bool) (n : Nat) (start : Nat) (prevLen : Int) : Option Hit :=
  scan (E.finder start) (E.after start) (E.attempt start) start prevLen rtl n E.minLen

/-- `run` with `textstart < 0`: the beginning in scan direction -/
def firstStart (rtl : Bool) (n : Nat) : Nat := if rtl then n else 0

/-- `FindRunesMatch` / `FindStringMatch`: `run(false, -1, -1, …)` -/
def firstMatch (E : Engine) (rtl : Bool) (n : Nat) : Option Hit :=
  scanAt E rtl n (firstStart rtl n) (-1)

/-- `FindNextMatch(m)`: `run(false, m.textpos, m.RuneLength, …)` -/
def nextMatch (E : Engine) (rtl : Bool) (n : Nat) (m : Hit) : Option Hit :=
  scanAt E rtl n m.textpos (m.len : Int)

/-- the sequence `m, FindNextMatch(m), …` until `nil` (at most `fuel` matches) -/
def iterFrom (E : Engine) (rtl : Bool) (n : Nat) : Nat → Option Hit → List Hit
  | 0, _ => []
  | _ + 1, none => []
  | fuel + 1, some m => m :: iterFrom E rtl n fuel (nextMatch E rtl n m)

/-- all matches found by iterating `FindNextMatch` from the first match. `n + 2` steps are enough for
    the iteration to reach `nil` (`Props.C07.iterate_fuel_irrelevant`). -/
def iterate (E : Engine) (rtl : Bool) (n : Nat) : List Hit :=
  iterFrom E rtl n (n + 2) (firstMatch E rtl n)

/-- `prevEnd` after a kept match: "where the match ended in scan direction" -/
def keptEnd (rtl : Bool) (m : Hit) : Int := if rtl then (m.index : Int) else ((m.index + m.len : Nat) : Int)

/-- the loop of `findAllRunesIndex` (regexp.go:350-383); state `startAt, previousMatchLength,
    prevEnd, n`; `fuel` bounds the number of scans. Result: the `(start, end)` pairs appended. -/
def findAllLoop (E : Engine) (rtl : Bool) (n : Nat) : Nat → Nat → Int → Int → Int → List (Nat × Nat)
  | 0, _, _, _, _ => []
  | fuel + 1, startAt, prevLen, prevEnd, k =>
    if k = 0 then []
    else
      match scanAt E rtl n startAt prevLen with
      | none => []
      | some m =>
        if m.len ≠ 0 ∨ (m.index : Int) ≠ prevEnd then
          (m.index, m.index + m.len) ::
            findAllLoop E rtl n fuel m.textpos (m.len : Int) (keptEnd rtl m) (if k > 0 then k - 1 else k)
        else findAllLoop E rtl n fuel m.textpos (m.len : Int) prevEnd k

/-- `FindAllRunesIndex(r, k)` (and `FindAllStringIndex` up to the byte mapping): `none` is `nil` -/
def findAll (E : Engine) (rtl : Bool) (n : Nat) (k : Int) : Option (List (Nat × Nat)) :=
  if k = 0 then none
  else
    let out := findAllLoop E rtl n (n + 2) (firstStart rtl n) (-1) (-1) k
    if out.isEmpty then none else some out

/-- the loop of `forEachStringMatch` (compat/regexp.go:287-305); state `m, prevEnd, n`.
    Result: the matches handed to `f`. -/
def compatLoop (E : Engine) (rtl : Bool) (n : Nat) : Nat → Option Hit → Int → Int → List Hit
  | 0, _, _, _ => []
  | _ + 1, none, _, _ => []
  | fuel + 1, some m, prevEnd, k =>
    if k = 0 then []
    else if m.len ≠ 0 ∨ (m.index : Int) ≠ prevEnd then
      if k > 0 then
        if k - 1 = 0 then [m]     -- `n--; if n == 0 { break }`
        else m :: compatLoop E rtl n fuel (nextMatch E rtl n m) (keptEnd rtl m) (k - 1)
      else m :: compatLoop E rtl n fuel (nextMatch E rtl n m) (keptEnd rtl m) k
    else compatLoop E rtl n fuel (nextMatch E rtl n m) prevEnd k

/-- the matches `forEachStringMatch(s, k, f)` delivers -/
def compatForEach (E : Engine) (rtl : Bool) (n : Nat) (k : Int) : List Hit :=
  compatLoop E rtl n (n + 2) (firstMatch E rtl n) (-1) k

/-- `compat.FindAllStringSubmatchIndex` & co. restricted to the overall span:
    `if n == 0 { return nil }; var out; forEachStringMatch(… append …); return out` -/
def compatAll (E : Engine) (rtl : Bool) (n : Nat) (k : Int) : Option (List (Nat × Nat)) :=
  if k = 0 then none
  else
    let out := (compatForEach E rtl n k).map fun m => (m.index, m.index + m.len)
    if out.isEmpty then none else some out

/-! ### specification of the find-all results in terms of the FindNextMatch sequence -/

/-- `b` starts strictly after `a` in scan order and does not overlap it -/
def Hit.Before (rtl : Bool) (a b : Hit) : Prop :=
  if rtl then b.index + b.len ≤ a.index ∧ b.index + b.len < a.index + a.len
  else a.index + a.len ≤ b.index ∧ a.index < b.index

/-- where the match before ended in scan direction; `-1` when there is none -/
def prevEndOf (rtl : Bool) : Option Hit → Int
  | none => -1
  | some p => keptEnd rtl p

/-- the sequence minus every empty match that lies exactly where the match before it (in the
    sequence) ended in scan direction -/
def keepNonAdjacent (rtl : Bool) : Option Hit → List Hit → List Hit
  | _, [] => []
  | prev, m :: rest =>
    if m.len = 0 ∧ (m.index : Int) = prevEndOf rtl prev then keepNonAdjacent rtl (some m) rest
    else m :: keepNonAdjacent rtl (some m) rest

/-- truncation to `k` results; a negative `k` means all -/
def takeK {α : Type} (k : Int) (l : List α) : List α := if k < 0 then l else l.take k.toNat

/-- what the find-all calls must return for the FindNextMatch sequence `ms`: the non-adjacent
    matches, truncated to `k`, as `(start, end)` pairs; `none` (nil) when nothing is left -/
def findAllSpec (rtl : Bool) (k : Int) (ms : List Hit) : Option (List (Nat × Nat)) :=
  let kept := takeK k (keepNonAdjacent rtl none ms)
  if kept.isEmpty then none else some (kept.map fun m => (m.index, m.index + m.len))

/-! ### Go's regexp package: `allMatches` -/

/-- the loop of `(*Regexp).allMatches`; positions are rune indices, so the width of the rune at `pos`
    is 1 inside the input and 0 at its end. State `pos, i, prevMatchEnd`; `cap` is the limit `n`
    (already replaced by `len+1` when negative). Result: the delivered `(start, end)` pairs. -/
def stdLoop (findFrom : Nat → Option (Nat × Nat)) (n cap : Nat) : Nat → Nat → Nat → Int → List (Nat × Nat)
  | 0, _, _, _ => []
  | fuel + 1, pos, i, prevMatchEnd =>
    if i < cap ∧ pos ≤ n then
      match findFrom pos with
      | none => []
      | some (s, e) =>
        if e = pos then
          -- an empty match at pos: not allowed right after a previous match; step over one rune
          let pos' := if pos < n then pos + 1 else n + 1
          if (s : Int) = prevMatchEnd then stdLoop findFrom n cap fuel pos' i (e : Int)
          else (s, e) :: stdLoop findFrom n cap fuel pos' (i + 1) (e : Int)
        else (s, e) :: stdLoop findFrom n cap fuel e (i + 1) (e : Int)
    else []

/-- `regexp.FindAllStringIndex(s, k)` & co.: `if n < 0 { n = len(s) + 1 }; var result; allMatches(…
    append …)`. (`len(s)+1` counts bytes in Go; any limit ≥ the number of positions acts alike.) -/
def stdAll (findFrom : Nat → Option (Nat × Nat)) (n : Nat) (k : Int) : Option (List (Nat × Nat)) :=
  let out := stdLoop findFrom n (if k < 0 then n + 1 else k.toNat) (n + 2) 0 0 (-1)
  if out.isEmpty then none else some out

/-- "leftmost match at or after `pos`" for a `\G`-free left-to-right matcher, as `(start, end)` -/
def findFromOf (attempt : Nat → Option (Nat × Nat)) (n : Nat) (pos : Nat) : Option (Nat × Nat) :=
  (naiveFrom attempt false n pos).map fun m => (m.1, m.1 + m.2)

/-! ### submatch index conversion of the adapter (`matchIndexes`, `matchRuneIndexes`) -/

/-- `matchIndexes`: per group the byte pair of its last capture, `-1, -1` when the group has no
    capture. `off` maps a rune index to its byte offset (`ByteRange` / the reader's offsets). -/
def matchIndexes (off : Nat → Nat) : List (Option (Nat × Nat)) → List Int
  | [] => []
  | none :: gs => (-1) :: (-1) :: matchIndexes off gs
  | some (i, l) :: gs => (off i : Int) :: (off (i + l) : Int) :: matchIndexes off gs

end RegexVerif.Scan
