/-
Model for C13 (backtracking stack limit).  Two independent parts:

(b) `alloc0` / `grow` / `ensure`: the allocation arithmetic of `initMatch`, `growTrack` and
    `ensureStorage` in runner.go (state of /repo after commit 23c41f0), with the limit
    `L = MaxBacktrackingStackSize` (an `Int`; negative = unlimited).  Only the *length* of
    `runtrack` and the number of used slots are modelled: `Runtrackpos = len - used`.

(a) the abstract capacity system: states `(pc, used, cap)`; moves `go k p t` (a `case` of the
    interpreter switch pops `k` slots, pushes `p` slots and continues at `t` by `advance` or `goTo`)
    and `pop q t` (`backtrack()` pops the saved code position and resumes at `t`).  A storage check
    (`ensureStorage`) sits on every `go` with `t ≤ pc` and every `pop` with `t < pc`, exactly as in
    `goTo` / `backtrack`.  The system is parameterised by a weight list `ws` (max slots a position may
    push) and by the check `ens : cap → used → Option cap'` (`none` = ErrBacktrackingStackLimit).

    This is *not* an interpreter: which move comes next is an input (a move list).  That each concrete
    opcode case is one of these moves with `p ≤ weight` is tied to runner.go by the regenerated
    fingerprint table (`Generated/Opcodes.lean`) and the theorems over it in Props/C13.lean.
-/
import RegexVerif.Generated.Opcodes

namespace RegexVerif.Capacity
open RegexVerif.Generated

/-! ## (b) allocation arithmetic -/

/-- `if limit := …MaxBacktrackingStackSize; limit >= 0 && n > limit { n = limit }` -/
def clampLimit (L : Int) (n : Nat) : Nat :=
  if 0 ≤ L ∧ L < (n : Int) then L.toNat else n

/-- `initMatch`: `tracksize := runtrackcount*8; if tracksize < 64 {tracksize = 64}; clamp` -/
def alloc0 (L : Int) (tc : Nat) : Nat :=
  let tracksize := tc * 8
  let tracksize := if tracksize < 64 then 64 else tracksize
  clampLimit L tracksize

/-- `growTrack`: the new `len(runtrack)`, or `none` when it returns false (nothing changes). -/
def grow (L : Int) (oldLen : Nat) : Option Nat :=
  let newLen := oldLen * 2
  let newLen := if newLen = 0 then 1 else newLen
  let newLen := clampLimit L newLen
  if newLen ≤ oldLen then none else some newLen

/-- the loop of `ensureStorage`: `for r.Runtrackpos < r.runtrackcount*4 { if !r.growTrack() { return Err } }`
    with `Runtrackpos = len - used` (so the test reads `len < used + tc*4`, also right if `used > len`).
    Result: final `len(runtrack)` (growth that happened before a failure stays, as in Go) and
    whether nil (true) or ErrBacktrackingStackLimit (false) is returned.
    `fuel` bounds the number of growths; `ensure` passes enough (Lemmas: `ensureFuel_spec`). -/
def ensureFuel : Nat → Int → Nat → Nat → Nat → Nat × Bool
  | 0, _, tc, len, used => if len < used + tc * 4 then (len, false) else (len, true)
  | fuel + 1, L, tc, len, used =>
    if len < used + tc * 4 then
      match grow L len with
      | none => (len, false)
      | some len' => ensureFuel fuel L tc len' used
    else (len, true)

def ensure (L : Int) (tc len used : Nat) : Nat × Bool :=
  ensureFuel (used + tc * 4) L tc len used

/-- `ensureStorage` as it was before commit 23c41f0: one growth attempt, success if it grew at all. -/
def ensureOld (L : Int) (tc len used : Nat) : Nat × Bool :=
  if len < used + tc * 4 then
    match grow L len with
    | none => (len, false)
    | some len' => (len', true)
  else (len, true)

/-- the check as the abstract system sees it: new capacity or failure -/
def ensOf (L : Int) (tc : Nat) (len used : Nat) : Option Nat :=
  let r := ensure L tc len used
  if r.2 then some r.1 else none

/-- a whole call seen from the allocator: initial allocation, then one storage check per demand
    (`used` at that check).  Returns the final length and the index of the failing check, if any. -/
def simulate (L : Int) (tc : Nat) : Nat → Nat → List Nat → Nat × Option Nat
  | len, _, [] => (len, none)
  | len, i, u :: us =>
    let r := ensure L tc len u
    if r.2 then simulate L tc r.1 (i + 1) us else (r.1, some i)

/-! ## (c) the other two stacks: `runstack` (grouping stack) and `runcrawl` (crawl stack)

Neither is limited.  Both grow by `doubleIntSlice` only: the grouping stack ONCE per `ensureStorage` call (an `if`, not
a loop) when fewer than `4·runtrackcount` slots are free — and in `ensureStack(plus)` for the exported `StackPush…` of
the code-gen API —, the crawl stack at every `crawl(i)` that finds it full.  As for `runtrack` only lengths are
modelled: `Runstackpos = len − used`, `runcrawlpos = len − used`.  The constants are tied to runner.go by
`Props.C13.stack_storage_constants` (regenerated `stackAllocFactor` … `crawlChecksEveryPush`). -/

/-- `initMatch`: `stacksize := r.runtrackcount * 8; if stacksize < 32 { stacksize = 32 }` (the limit does not apply) -/
def stackAlloc0 (tc : Nat) : Nat :=
  let stacksize := tc * 8
  if stacksize < 32 then 32 else stacksize

/-- `initMatch`: `r.runcrawl = make([]int, 32)` -/
def crawlAlloc0 : Nat := 32

/-- `doubleIntSlice`: `newS := make([]int, oldLen*2); copy(newS[oldLen:], *s); *pos += oldLen` — the new length; the
    used part `len − pos` is unchanged, the free part grows by `oldLen` -/
def doubleLen (oldLen : Nat) : Nat := oldLen * 2

/-- `ensureStorage`, first statement: `if r.Runstackpos < r.runtrackcount*4 { doubleIntSlice(&r.runstack, …) }` with
    `Runstackpos = len − used`: the new `len(runstack)` -/
def stackEnsure (tc len used : Nat) : Nat :=
  if len - used < tc * 4 then doubleLen len else len

/-- `ensureStack(plus)`: `if r.Runstackpos-plus < r.runtrackcount*4 { doubleIntSlice(…) }` (an `int` subtraction:
    `len − used − plus` may be negative) -/
def stackEnsurePlus (tc len used plus : Nat) : Nat :=
  if (len : Int) - used - plus < tc * 4 then doubleLen len else len

/-- `crawl(i)`: `if r.runcrawlpos == 0 { doubleIntSlice(&r.runcrawl, &r.runcrawlpos) }; r.runcrawlpos--;
    r.runcrawl[r.runcrawlpos] = i` on (length, used slots).  `none` = the store would be at index −1 (no free slot
    even after the doubling — only when the slice is empty). -/
def crawlPush (len used : Nat) : Option (Nat × Nat) :=
  let len' := if len - used = 0 then doubleLen len else len
  if len' - used = 0 then none else some (len', used + 1)

/-- `n` consecutive `crawl` calls -/
def crawlPushN : Nat → Nat → Nat → Option (Nat × Nat)
  | 0, len, used => some (len, used)
  | n + 1, len, used =>
    match crawlPush len used with
    | none => none
    | some (len', used') => crawlPushN n len' used'

/-! ## (a) the abstract capacity system -/

/-- logical state: code position and number of used backtracking slots -/
structure LSt where
  pc : Nat
  used : Nat
  deriving DecidableEq, Repr

structure St where
  l : LSt
  cap : Nat
  deriving DecidableEq, Repr

inductive Move where
  /-- a case body: pop `k` slots, push `p` slots, continue at `t` (`advance` or `goTo`) -/
  | go (k p t : Nat)
  /-- `backtrack()`: pop `q` slots and resume at `t` -/
  | pop (q t : Nat)
  deriving DecidableEq, Repr

/-- weight of a position: the most slots a visit of it may push (0 outside the program) -/
def weightAt (ws : List Nat) (pc : Nat) : Nat := (ws[pc]?).getD 0

/-- potential: what the positions from `pc` on may still push -/
def phi (ws : List Nat) (pc : Nat) : Nat := (ws.drop pc).sum

def legal (ws : List Nat) (l : LSt) : Move → Prop
  | .go k p _ => k ≤ l.used ∧ p ≤ weightAt ws l.pc
  | .pop q _ => q ≤ l.used

instance (ws l m) : Decidable (legal ws l m) := by
  cases m <;> unfold legal <;> infer_instance

/-- logical successor (independent of the capacity) -/
def lstep (l : LSt) : Move → LSt
  | .go k p t => ⟨t, l.used - k + p⟩
  | .pop q t => ⟨t, l.used - q⟩

/-- does the move pass through `ensureStorage`?  (`goTo`: `newpos <= codepos`; `backtrack`: `newpos < codepos`) -/
def checks (l : LSt) : Move → Bool
  | .go _ _ t => decide (t ≤ l.pc)
  | .pop _ t => decide (t < l.pc)

/-- most slots in use while the move executes (pushes come before the check) -/
def peak (l : LSt) (m : Move) : Nat := (lstep l m).used

def step (ens : Nat → Nat → Option Nat) (s : St) (m : Move) : Option St :=
  let l' := lstep s.l m
  if checks s.l m then (ens s.cap l'.used).map (fun c => ⟨l', c⟩) else some ⟨l', s.cap⟩

def run (ens : Nat → Nat → Option Nat) (s : St) : List Move → Option St
  | [] => some s
  | m :: ms => match step ens s m with
    | none => none
    | some s' => run ens s' ms

def lrun (l : LSt) : List Move → LSt
  | [] => l
  | m :: ms => lrun (lstep l m) ms

def LegalRun (ws : List Nat) (l : LSt) : List Move → Prop
  | [] => True
  | m :: ms => legal ws l m ∧ LegalRun ws (lstep l m) ms

instance decLegalRun (ws : List Nat) : (l : LSt) → (ms : List Move) → Decidable (LegalRun ws l ms)
  | _, [] => isTrue trivial
  | l, m :: ms =>
    have := decLegalRun ws (lstep l m) ms
    by unfold LegalRun; infer_instance

/-- what a storage check guarantees when it succeeds -/
def EnsSpec (need : Nat) (ens : Nat → Nat → Option Nat) : Prop :=
  ∀ cap used c, ens cap used = some c → cap ≤ c ∧ used + need ≤ c

/-- the invariant: free space covers everything the positions from `pc` on may still push -/
def TrackInv (ws : List Nat) (s : St) : Prop := s.l.used + phi ws s.l.pc ≤ s.cap

/-- `executeDefault` begins with `goTo(0)`, a storage check with nothing used -/
def start (ens : Nat → Nat → Option Nat) (cap0 : Nat) : Option St :=
  (ens cap0 0).map (fun c => ⟨⟨0, 0⟩, c⟩)

/-! ## programs: weights from the regenerated fingerprint table -/

/-- most slots any path of any case (forward, Back, Back2) of opcode `op` pushes -/
def grossOf (op : Nat) : Nat :=
  (Opcodes.cases.filter (fun c => c.op == op)).foldl (fun a c => max a c.maxPush) 0

/-- largest net effect on the stack of a visit of opcode `op`: pushed − popped, counting for the
    Back/Back2 cases the slot `backtrack()` popped to get there -/
def netOf (op : Nat) : Nat :=
  (Opcodes.cases.filter (fun c => c.op == op)).foldl
    (fun a c => max a (c.maxNet - (if c.flag = 0 then 0 else (Opcodes.backtrackPops : Int))).toNat) 0

def weightTable : List Nat := (List.range Opcodes.numOpcodes).map grossOf
def netTable : List Nat := (List.range Opcodes.numOpcodes).map netOf

/-- weight of an opcode (0 for numbers that are not opcodes) -/
def weight (op : Nat) : Nat := (weightTable[op]?).getD 0

def backtracks (op : Nat) : Bool := (Opcodes.opcodeBacktracks[op]?).getD false

/-- `TrackCount` as the writer computes it: instructions whose opcode `opcodeBacktracks` -/
def trackCount : List Nat → Nat
  | [] => 0
  | op :: rest => (if backtracks op then 1 else 0) + trackCount rest

/-- number of instructions with opcode `x` -/
def count (x : Nat) : List Nat → Nat
  | [] => 0
  | op :: rest => (if op = x then 1 else 0) + count x rest

/-- weights of a program given as the list of its instructions' opcodes -/
def weights (prog : List Nat) : List Nat := prog.map weight

/-- split a code array into its instructions' opcodes (`op & Mask`, step `opcodeSize`);
    `none` when an opcode has no size or the array ends inside an instruction -/
def decode : Nat → List Int → Option (List Nat)
  | _, [] => some []
  | 0, _ :: _ => none
  | fuel + 1, c :: rest =>
    let op := c.toNat % (Opcodes.flagMask + 1)
    match Opcodes.opcodeSize[op]? with
    | none => none
    | some 0 => none
    | some (sz + 1) =>
      if rest.length < sz then none
      else (decode fuel (rest.drop sz)).map (op :: ·)

end RegexVerif.Capacity
