/-
Model of the state a pooled interpreter (`Runner`, runner.go) and its recycled result object
(`Match`, match.go) carry from one call to the next, and of the code that resets it:

* `(*Regexp).getRunner` / `putRunner`, the `runner.code = re.quickCode` selection of the bool-only
  entry points (`selectQuick`);
* the initialisation part of `(*Runner).scan` together with `initMatch`, `(*Match).reset`,
  `newMatch` and `startTimeoutWatch` (`scanInit`);
* `ensureStorage` / `growTrack` (the only place the *capacity* of the recycled backtracking stack
  is consulted), `goTo(0)` at the start of `executeDefault` (the only read of the stale `codepos`);
* the Match builder (`addMatch`, `balanceMatch`, `removeMatch`, `isMatched`, `matchIndex`,
  `matchLength`, the compaction loop of `tidy` / `compactBalancedMatches`) over arrays whose contents
  above `2*matchcount` are left over from earlier calls.

The interpreter itself is not modelled here (see the C01/C13 models); `Props/C12` treats it as an
arbitrary function of the observable part of the state (`observe`).
-/
namespace RegexVerif.RunnerReuse

/-! ### the Match builder -/

/-- one capture slot: `matchcount[c]` and `matches[c]` (`[]` = nil slice) -/
structure Slot where
  count : Nat
  arr : List Int
  deriving Repr, DecidableEq

/-- the part of the array the builder considers in use: `matches[c][0 : 2*matchcount[c]]` -/
def Slot.live (s : Slot) : List Int := s.arr.take (2 * s.count)

/-- `2*matchcount[c] ≤ len(matches[c])`, and the array is nil or has at least two cells (arrays are
    only ever made with 2 or `capcount*8 ≥ 8` cells) -/
def Slot.lenOK (s : Slot) : Prop := 2 * s.count ≤ s.arr.length ∧ s.arr.length ≠ 1

/-- Go index expression `a[i]` with an `int` index: `none` = index out of range (panic) -/
def rd (a : List Int) (i : Int) : Option Int := if 0 ≤ i then a[i.toNat]? else none

/-- `addMatch(c, start, l)` on slot `c` -/
def Slot.addMatch (s : Slot) (start l : Int) : Slot :=
  let arr0 := if s.arr = [] then [0, 0] else s.arr                      -- `make([]int, 2)` for a nil array
  let arr1 := if s.count * 2 + 2 > arr0.length
              then arr0.take (s.count * 2) ++ List.replicate (s.count * 8 - s.count * 2) 0   -- `make([]int, capcount*8)` + copy
              else arr0
  { count := s.count + 1, arr := (arr1.set (s.count * 2) start).set (s.count * 2 + 1) l }

/-- `removeMatch(c)`: `matchcount[c]--`; `none` if the count would become negative -/
def Slot.removeMatch (s : Slot) : Option Slot :=
  if s.count = 0 then none else some { s with count := s.count - 1 }

/-- `isMatched(cap)` for an existing slot; `read` is how array cells are read (see `rd`, `rdLive`) -/
def Slot.isMatchedWith (read : Slot → Int → Option Int) (s : Slot) : Option Bool :=
  if s.count = 0 then some false
  else (read s ((s.count : Int) * 2 - 1)).map (fun v => v != -2)

/-- `matchIndex(cap)` -/
def Slot.matchIndexWith (read : Slot → Int → Option Int) (s : Slot) : Option Int :=
  match read s ((s.count : Int) * 2 - 2) with
  | none => none
  | some i => if i ≥ 0 then some i else read s (-3 - i)

/-- `matchLength(cap)` -/
def Slot.matchLengthWith (read : Slot → Int → Option Int) (s : Slot) : Option Int :=
  match read s ((s.count : Int) * 2 - 1) with
  | none => none
  | some i => if i ≥ 0 then some i else read s (-3 - i)

/-- the two cells `balanceMatch(c)` appends, computed from reads `read` of the slot's array and its
    count: `target` starts at the last capture, follows a reference (negative cell) if there is one,
    steps back one capture; then either copies the reference found there or makes a new one. -/
def balancePair (read : Int → Option Int) (count : Nat) : Option (Int × Int) :=
  let target0 : Int := (count : Int) * 2 - 2
  match read target0 with
  | none => none
  | some v0 =>
    let target1 := if v0 < 0 then -3 - v0 else target0
    let target := target1 - 2
    if target ≥ 0 then
      match read target with
      | none => none
      | some v =>
        if v < 0 then
          match read (target + 1) with
          | none => none
          | some v' => some (v, v')
        else some (-3 - target, -4 - target)
    else some (-3 - target, -4 - target)

/-- `balanceMatch(c)` on slot `c` (the `balancing = true` part is in `Builder.balanceMatch`) -/
def Slot.balanceMatchWith (read : Slot → Int → Option Int) (s : Slot) : Option Slot :=
  (balancePair (read s) s.count).map (fun p => s.addMatch p.1 p.2)

/-- reading the Go array as it is (stale cells included) -/
def rdAny (s : Slot) (i : Int) : Option Int := rd s.arr i

/-- reading only cells below `2*matchcount` -/
def rdLive (s : Slot) (i : Int) : Option Int := rd s.live i

/-- `s ≈ t`: equal counts and equal cells below `2*count` (what lies above may differ) -/
def Slot.Equiv (s t : Slot) : Prop := s.count = t.count ∧ s.live = t.live

/-- every negative cell (a balancing reference) at position `p` refers to a position below `p` -/
def LiveWF (l : List Int) : Prop := ∀ (p : Nat) (v : Int), l[p]? = some v → v < 0 → -3 - v < (p : Int)

/-- slot invariant: lengths fit and references in the live part point below themselves -/
def Slot.WF (s : Slot) : Prop := s.lenOK ∧ LiveWF s.live

/-- the compaction loop of `tidy` / `compactBalancedMatches` for one slot, second `for`:
    `i` runs to the end of `a` (= the first `limit` cells), `j` is the write position.
    `none` = a write at a negative index. -/
def compactLoop : (fuel : Nat) → (a : List Int) → (i : Nat) → (j : Int) → Option (List Int × Int)
  | 0, a, _, j => some (a, j)
  | fuel + 1, a, i, j =>
    match a[i]? with
    | none => some (a, j)
    | some v =>
      if v < 0 then compactLoop fuel a (i + 1) (j - 1)
      else if j < 0 then none
      else compactLoop fuel (if (i : Int) ≠ j then a.set j.toNat v else a) (i + 1) (j + 1)

/-- first `for` of the compaction: index of the first negative cell (or the length) -/
def firstNeg : List Int → Nat
  | [] => 0
  | v :: vs => if v < 0 then 0 else firstNeg vs + 1

/-- compaction of one slot: works on the first `limit = 2*matchcount` cells only (the Go loops are
    bounded by `limit`), writes them back in place, sets `matchcount = j/2` -/
def Slot.compact (s : Slot) : Option Slot :=
  let a := s.live
  let i0 := firstNeg a
  match compactLoop (a.length - i0) a i0 i0 with
  | none => none
  | some (a', j) => if j < 0 then none else some { count := j.toNat / 2, arr := a' ++ s.arr.drop (2 * s.count) }

/-- the interval `transferCapture` records for a balancing group `(?<cap-uncap>…)`: `[start, end)` is
    the group's own text (already ordered), `[start2, end2)` the capture being cancelled; the result is
    `(start, length)` as passed to `addMatch`. -/
def transferInterval (start end_ start2 end2 : Int) : Int × Int :=
  if start ≥ end2 then (end2, start - end2)
  else if end_ ≤ start2 then (end_, start2 - end_)
  else
    let e := if end_ > end2 then end2 else end_
    let s := if start2 > start then start2 else start
    (s, e - s)

/-- `Match` as the runner sees it while matching -/
structure Builder where
  slots : List Slot
  balancing : Bool
  textstart : Int
  text : Option Nat          -- identity of the `*matchText` (`none` = nil)
  deriving Repr, DecidableEq

/-- `newMatch(regex, capcount, text, startpos)`: slot 0 gets a 2-cell array, the others nil -/
def Builder.new (capsize : Nat) (text : Option Nat) (textstart : Int) : Builder :=
  { slots := (List.range capsize).map (fun c => { count := 0, arr := if c = 0 then [0, 0] else [] }),
    balancing := false, textstart := textstart, text := text }

/-- `(*Match).reset(text, textstart)`: counts to 0 (arrays keep their cells), `balancing = false` -/
def Builder.reset (b : Builder) (text : Option Nat) (textstart : Int) : Builder :=
  { slots := b.slots.map (fun s => { s with count := 0 }), balancing := false, textstart := textstart, text := text }

def modifySlot (slots : List Slot) (c : Nat) (f : Slot → Option Slot) : Option (List Slot) :=
  match slots[c]? with
  | none => none
  | some s => (f s).map (fun s' => slots.set c s')

def Builder.addMatch (b : Builder) (c : Nat) (start l : Int) : Option Builder :=
  (modifySlot b.slots c (fun s => some (s.addMatch start l))).map (fun ss => { b with slots := ss })

def Builder.removeMatch (b : Builder) (c : Nat) : Option Builder :=
  (modifySlot b.slots c Slot.removeMatch).map (fun ss => { b with slots := ss })

def Builder.balanceMatch (b : Builder) (c : Nat) : Option Builder :=
  (modifySlot b.slots c (Slot.balanceMatchWith rdAny)).map (fun ss => { b with slots := ss, balancing := true })

/-- `isMatched(cap)`: `cap < len(matchcount) && …` -/
def Builder.isMatched (b : Builder) (c : Nat) : Option Bool :=
  match b.slots[c]? with
  | none => some false
  | some s => s.isMatchedWith rdAny

/-- the compaction of `tidy` (when `balancing` is set) over all slots -/
def Builder.compact (b : Builder) : Option Builder :=
  if b.balancing then (b.slots.mapM Slot.compact).map (fun ss => { b with slots := ss, balancing := false })
  else some b

/-- what a finished match exposes: per slot the count and the cells below `2*count` -/
def Builder.view (b : Builder) : List (Nat × List Int) := b.slots.map (fun s => (s.count, s.live))

/-! ### the runner -/

inductive CodeSel where
  | main | quick
  deriving Repr, DecidableEq

/-- per-Regexp constants the runner consults -/
structure Re where
  capsize : Nat
  trackCount : Nat        -- `code.TrackCount` (the bool-only program is a shallow copy: same value)
  stackLimit : Int        -- `optimizations.MaxBacktrackingStackSize` (negative: unlimited)
  debug : Bool
  hasQuick : Bool         -- `re.quickCode != nil`
  deriving Repr

structure Runner where
  code : CodeSel
  debug : Bool
  runtextstart : Int
  runtext : Option Nat          -- identity of the input slice (`none` = nil)
  runtextpos : Int
  runtextend : Int
  runtrack : List Int
  runtrackpos : Nat
  runstack : List Int
  runstackpos : Nat
  runcrawl : List Int
  runcrawlpos : Nat
  allocated : Bool              -- `runcrawl != nil`
  runtrackcount : Nat
  runmatch : Option Builder
  ignoreTimeout : Bool
  timeout : Int
  deadline : Int
  operator : Int                -- scratch of the interpreter loop:
  codepos : Nat
  rightToLeft : Bool
  caseInsensitive : Bool
  deriving Repr

/-- `runnerPool.New`: `&Runner{re: re, code: re.code}` -/
def Runner.fresh : Runner :=
  { code := .main, debug := false, runtextstart := 0, runtext := none, runtextpos := 0, runtextend := 0,
    runtrack := [], runtrackpos := 0, runstack := [], runstackpos := 0, runcrawl := [], runcrawlpos := 0,
    allocated := false, runtrackcount := 0, runmatch := none, ignoreTimeout := false, timeout := 0, deadline := 0,
    operator := 0, codepos := 0, rightToLeft := false, caseInsensitive := false }

/-- `if re.quickCode != nil { runner.code = re.quickCode }` (matchStringAt, findAll…, run with quick) -/
def selectQuick (re : Re) (r : Runner) : Runner := if re.hasQuick then { r with code := .quick } else r

/-- `(*Regexp).putRunner` before `runnerPool.Put` -/
def put (r : Runner) : Runner :=
  { r with runtext := none, code := .main, runmatch := r.runmatch.map (fun m => { m with text := none }) }

/-- arguments of `scan` -/
structure ScanArgs where
  rt : Nat                 -- identity of the input slice
  rtLen : Int
  textInfo : Option Nat
  textstart : Int
  timeout : Int
  noTimeout : Bool         -- `time.Duration(math.MaxInt64) == timeout`
  newDeadline : Int        -- what `makeDeadline(timeout)` returns now (the clock is not part of this model)
  deriving Repr

/-- `initMatch` -/
def initMatch (re : Re) (textInfo : Option Nat) (r : Runner) : Runner :=
  let m := match r.runmatch with
    | none => Builder.new re.capsize textInfo r.runtextstart
    | some m => m.reset textInfo r.runtextstart
  let r := { r with runmatch := some m }
  if r.allocated then
    { r with runtrackpos := r.runtrack.length, runstackpos := r.runstack.length, runcrawlpos := r.runcrawl.length }
  else
    let tc := re.trackCount                                -- initTrackCount
    let tracksize0 := if tc * 8 < 64 then 64 else tc * 8
    let tracksize := if re.stackLimit ≥ 0 ∧ (tracksize0 : Int) > re.stackLimit then re.stackLimit.toNat else tracksize0
    let stacksize := if tc * 8 < 32 then 32 else tc * 8
    { r with runtrackcount := tc,
             runtrack := List.replicate tracksize 0, runtrackpos := tracksize,
             runstack := List.replicate stacksize 0, runstackpos := stacksize,
             runcrawl := List.replicate 32 0, runcrawlpos := 32, allocated := true }

/-- everything `scan` does before its search loop: the field assignments, `initMatch`, and
    `startTimeoutWatch` -/
def scanInit (re : Re) (a : ScanArgs) (r : Runner) : Runner :=
  let r := { r with timeout := a.timeout, ignoreTimeout := a.noTimeout, debug := re.debug,
                    runtextstart := a.textstart, runtext := some a.rt, runtextend := a.rtLen,
                    runtextpos := a.textstart }
  let r := initMatch re a.textInfo r
  if r.ignoreTimeout then r else { r with deadline := a.newDeadline }

/-- `growTrack`: `none` = it could not grow -/
def growTrack (limit : Int) (len pos : Nat) : Option (Nat × Nat) :=
  let newLen0 := if len * 2 = 0 then 1 else len * 2
  let newLen := if limit ≥ 0 ∧ (newLen0 : Int) > limit then limit.toNat else newLen0
  if newLen ≤ len then none else some (newLen, pos + (newLen - len))

/-- the track half of `ensureStorage`: `for r.Runtrackpos < r.runtrackcount*4 { if !r.growTrack() { return Err } }`
    on (length, position) of the backtracking stack; `none` = `ErrBacktrackingStackLimit`. -/
def ensureTrack (limit : Int) (tc : Nat) : (fuel : Nat) → (len pos : Nat) → Option (Nat × Nat)
  | 0, len, pos => if pos < tc * 4 then none else some (len, pos)
  | fuel + 1, len, pos =>
    if pos < tc * 4 then
      match growTrack limit len pos with
      | none => none
      | some (len', pos') => ensureTrack limit tc fuel len' pos'
    else some (len, pos)

/-- `goTo(0)` at the start of `executeDefault`: `if newpos <= r.codepos { ensureStorage }`, then the
    scratch fields are set from `code.Codes[0]`.  Returns whether storage was ensured. -/
def goToZero (op0 : Int) (rtl ci : Bool) (r : Runner) : Bool × Runner :=
  ((0 : Nat) ≤ r.codepos, { r with operator := op0, rightToLeft := rtl, caseInsensitive := ci, codepos := 0 })

/-- the part of the runner a scan can depend on: positions are replaced by the *used* parts of the
    three stacks (capacities and dead cells dropped), the result object by its live view, the
    deadline only when timeouts are on; the interpreter scratch (`operator`, `codepos`, …) is left out. -/
structure Obs where
  code : CodeSel
  debug : Bool
  runtextstart : Int
  runtext : Option Nat
  runtextpos : Int
  runtextend : Int
  trackUsed : List Int
  stackUsed : List Int
  crawlUsed : List Int
  runtrackcount : Nat
  matchView : Option (List (Nat × List Int) × Bool × Int × Option Nat)
  ignoreTimeout : Bool
  timeout : Int
  deadline : Option Int
  deriving Repr, DecidableEq

def observe (r : Runner) : Obs :=
  { code := r.code, debug := r.debug, runtextstart := r.runtextstart, runtext := r.runtext,
    runtextpos := r.runtextpos, runtextend := r.runtextend,
    trackUsed := r.runtrack.drop r.runtrackpos, stackUsed := r.runstack.drop r.runstackpos,
    crawlUsed := r.runcrawl.drop r.runcrawlpos, runtrackcount := r.runtrackcount,
    matchView := r.runmatch.map (fun m => (m.view, m.balancing, m.textstart, m.text)),
    ignoreTimeout := r.ignoreTimeout, timeout := r.timeout,
    deadline := if r.ignoreTimeout then none else some r.deadline }

/-- facts about a runner that belongs to `re` which no code path changes once they hold: the track
    count is the Regexp's (`runtrackcount` is assigned only by `initTrackCount`, from `code.TrackCount`,
    when the stacks are first allocated) and the result object has one slot per capture slot. -/
def RunInv (re : Re) (r : Runner) : Prop :=
  (r.allocated = true → r.runtrackcount = re.trackCount) ∧
  (∀ m, r.runmatch = some m → m.slots.length = re.capsize)

/-- what holds for a runner sitting in the pool: `putRunner` has selected the main program again and
    dropped the references to the input -/
def PoolInv (re : Re) (r : Runner) : Prop :=
  r.code = .main ∧ r.runtext = none ∧ (∀ m, r.runmatch = some m → m.text = none) ∧ RunInv re r

end RegexVerif.RunnerReuse
