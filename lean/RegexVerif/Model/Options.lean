/-
Model of the option threading of `syntax/parser.go`: `p.options`, the options stack
(`pushOptions` at every `(`, `popOptions` at its `)`, `popKeepOptions` after an inline `(?imnsx-imnsx)`),
`scanOptions`, and what the parser stamps on the nodes it creates.

A pattern is a small tree: leaves (atoms with their quantifier, blanks, comments — the harness owns
their text), `|`, inline option items `(?on-off)`, plain groups and scoped groups `(?on-off: … )`.
`resolve` lists, in pattern order, every leaf with the options in force where it is read, and every
group with whether it captures (an unnamed group captures unless `n` is in force at its `(`).
`run` is the same computation as the parser does it: a left-to-right pass over the flat token
stream with an explicit stack.
-/
namespace RegexVerif.Options

/-- the five inline-settable options of property C18 -/
inductive Flag where
  | i | m | n | s | x
  deriving DecidableEq, Repr

structure Opts where
  i : Bool := false
  m : Bool := false
  n : Bool := false
  s : Bool := false
  x : Bool := false
  deriving DecidableEq, Repr

def Opts.none : Opts := {}

def Opts.get (o : Opts) : Flag → Bool
  | .i => o.i | .m => o.m | .n => o.n | .s => o.s | .x => o.x

/-- `p.options |= option` / `p.options &= ^option` -/
def Opts.set (o : Opts) (f : Flag) (b : Bool) : Opts :=
  match f with
  | .i => { o with i := b } | .m => { o with m := b } | .n => { o with n := b }
  | .s => { o with s := b } | .x => { o with x := b }

/-- `scanOptions`: the letters of `(?im-sx+n…` in source order, each with the polarity in force -/
def applySeq (o : Opts) : List (Flag × Bool) → Opts
  | [] => o
  | (f, b) :: rest => applySeq (o.set f b) rest

inductive GroupKind where
  | unnamed | noncap | named
  deriving DecidableEq, Repr

inductive Pat where
  | leaf (id : Nat)
  | bar (id : Nat)
  | opt (seq : List (Flag × Bool))
  | group (id : Nat) (kind : GroupKind) (body : List Pat)
  | scoped (id : Nat) (seq : List (Flag × Bool)) (body : List Pat)
  deriving Repr

inductive Tok where
  /-- a leaf and the options it is parsed under -/
  | leaf (id : Nat) (o : Opts)
  | bar (id : Nat)
  /-- a group opens: does it capture? (`o`: options in force inside, right after the `(…`) -/
  | gopen (id : Nat) (capturing : Bool) (o : Opts)
  | gclose (id : Nat)
  deriving DecidableEq, Repr

def captures (o : Opts) : GroupKind → Bool
  | .unnamed => !o.n
  | .noncap => false
  | .named => true

mutual
/-- items of one group body, left to right, under the options `o` in force at its start -/
def resolve (o : Opts) : List Pat → List Tok
  | [] => []
  | p :: ps => (resolveOne o p).1 ++ resolve (resolveOne o p).2 ps
/-- one item: its tokens and the options in force after it -/
def resolveOne (o : Opts) : Pat → List Tok × Opts
  | .leaf id => ([.leaf id o], o)
  | .bar id => ([.bar id], o)
  | .opt seq => ([], applySeq o seq)
  | .group id k body => (.gopen id (captures o k) o :: resolve o body ++ [.gclose id], o)
  | .scoped id seq body =>
    (.gopen id false (applySeq o seq) :: resolve (applySeq o seq) body ++ [.gclose id], o)
end

/-- the leaves only -/
def leaves : List Tok → List (Nat × Opts)
  | [] => []
  | .leaf id o :: ts => (id, o) :: leaves ts
  | _ :: ts => leaves ts

/-! ### the same pass as the parser makes it: flat source tokens, explicit stack -/

inductive Src where
  | leaf (id : Nat)
  | bar (id : Nat)
  /-- `(?on-off)` -/
  | opt (seq : List (Flag × Bool))
  /-- `(`, `(?:`, `(?<name>` -/
  | gopen (id : Nat) (kind : GroupKind)
  /-- `(?on-off:` -/
  | sopen (id : Nat) (seq : List (Flag × Bool))
  | gclose (id : Nat)
  deriving Repr

mutual
def flatten : List Pat → List Src
  | [] => []
  | p :: ps => flattenOne p ++ flatten ps
def flattenOne : Pat → List Src
  | .leaf id => [.leaf id]
  | .bar id => [.bar id]
  | .opt seq => [.opt seq]
  | .group id k body => .gopen id k :: flatten body ++ [.gclose id]
  | .scoped id seq body => .sopen id seq :: flatten body ++ [.gclose id]
end

/-- `scanRegex` as far as options go: `o` is `p.options`, `stack` is `p.optionsStack` -/
def run (o : Opts) (stack : List Opts) : List Src → List Tok
  | [] => []
  | .leaf id :: rest => .leaf id o :: run o stack rest
  | .bar id :: rest => .bar id :: run o stack rest
  | .opt seq :: rest =>
    -- pushOptions; scanGroupOpen → scanOptions, returns nil; popKeepOptions
    run (applySeq o seq) stack rest
  | .gopen id k :: rest =>
    -- pushOptions; the group node is created under the current options
    .gopen id (captures o k) o :: run o (o :: stack) rest
  | .sopen id seq :: rest =>
    -- pushOptions; scanOptions; ':' → NtGroup under the new options
    .gopen id false (applySeq o seq) :: run (applySeq o seq) (o :: stack) rest
  | .gclose id :: rest =>
    -- popOptions
    match stack with
    | o' :: stack' => .gclose id :: run o' stack' rest
    | [] => .gclose id :: run o [] rest       -- unbalanced `)`: the parser reports an error

/-- options ↔ the bit mask the harness uses (i=1, m=2, n=4, s=8, x=16) -/
def Opts.ofMask (k : Nat) : Opts :=
  { i := k % 2 = 1, m := k / 2 % 2 = 1, n := k / 4 % 2 = 1, s := k / 8 % 2 = 1, x := k / 16 % 2 = 1 }

def Opts.toMask (o : Opts) : Nat :=
  (if o.i then 1 else 0) + (if o.m then 2 else 0) + (if o.n then 4 else 0) + (if o.s then 8 else 0) +
    (if o.x then 16 else 0)

/-- `(?imnsx` spelling of an option set: its flags switched on, in the order i m n s x -/
def onSeq (o : Opts) : List (Flag × Bool) :=
  (if o.i then [(Flag.i, true)] else []) ++ (if o.m then [(Flag.m, true)] else []) ++
  (if o.n then [(Flag.n, true)] else []) ++ (if o.s then [(Flag.s, true)] else []) ++
  (if o.x then [(Flag.x, true)] else [])

/-- `(?-imnsx` spelling: the flags of `o` switched off -/
def offSeq (o : Opts) : List (Flag × Bool) := (onSeq o).map fun p => (p.1, false)

end RegexVerif.Options
