/-
The public entry points of regexp.go / replace.go / split.go / compat/regexp.go as small compositions of
the scan model (`Model/Scan.lean`: `scanAt`, `firstMatch`, `nextMatch`, `iterate`, `findAll`).

One compiled pattern has up to two programs (`Programs`): the full one (`re.code`) and the bool-only
one (`re.quickCode`, `Model/Quick.lean`).  Each is an abstract `Scan.Engine`: for every `\G` origin a
single-position attempt (reporting the overall span `(index, length)`), the candidate finder, the
bump-along update and `MinRequiredLength`.  Which entry point runs which program, from which start
position, is what this file records.  Not modelled here: the byte/rune index conversion of the string
variants (C08), capture groups other than group 0 (C08/C13; part A of C02 for the bool-only program),
errors and time-outs.

Positions are rune indices `0 … n` of one fixed input of `n` runes.
-/
import RegexVerif.Model.Scan

namespace RegexVerif.Api
open RegexVerif.Scan

/-- the two programs of one compiled pattern; `quick = full` when `re.quickCode == nil` -/
structure Programs where
  full : Engine
  quick : Engine

/- The raw-string prefix filter (`stringprefixfilter.go`), seen from the rune side, is a function
   `filter : Nat → Option Nat`: called with the search start, it answers `none` ("no match possible",
   `ok = false`) or a candidate position at which the search is (re)started.  Abstracted: the
   byte-level search itself and the byte→rune mapping of the candidate by `decodeStringWithStart` /
   `getRunesAndStart`.  A regexp without a filter (`re.stringPrefixFilter == nil`) is the filter `some`. -/

/-- A candidate that is not a rune boundary of the input maps to rune start `-1`, which every string
    entry point replaces by `0` (`if runeStart < 0 { runeStart = 0 }`); `findStringPrefixCandidate`
    also falls back to the start for a candidate outside the input. -/
def clampStart (n c : Nat) : Nat := if c ≤ n then c else 0

/-- where a string entry point starts its first scan: right-to-left never consults the filter
    (`!re.RightToLeft()`); left-to-right the filter is asked at byte 0 and the scan starts at its
    candidate, which also becomes the `\G` origin.  `none`: the entry point answers "no match"
    without running a program. -/
def stringStart (filter : Nat → Option Nat) (rtl : Bool) (n : Nat) : Option Nat :=
  if rtl then some n else (filter 0).map (clampStart n)

/-! ### single match -/

/-- `FindRunesMatch(r)`: `run(quick = false, -1, -1, r, …)`, full program -/
def findRunesMatch (P : Programs) (rtl : Bool) (n : Nat) : Option Hit := firstMatch P.full rtl n

/-- `MatchRunes(r)`: `run(quick = true, -1, -1, r, nil)` selects `re.quickCode`; answer `m != nil` -/
def matchRunes (P : Programs) (rtl : Bool) (n : Nat) : Bool := (firstMatch P.quick rtl n).isSome

/-- `FindStringMatch(s)`: `findStringMatchStart(s, -1)` (filter), then
    `run(false, runeStart, -1, …)` on the full program -/
def findStringMatch (P : Programs) (filter : Nat → Option Nat) (rtl : Bool) (n : Nat) : Option Hit :=
  match stringStart filter rtl n with
  | none => none
  | some c => scanAt P.full rtl n c (-1)

/-- `MatchString(s)`: filter, then `matchStringAt(s, candidate)` =
    `runner.scan(input, nil, runeStart, -1, quick = true, …)` with `runner.code = re.quickCode` -/
def matchString (P : Programs) (filter : Nat → Option Nat) (rtl : Bool) (n : Nat) : Bool :=
  match stringStart filter rtl n with
  | none => false
  | some c => (scanAt P.quick rtl n c (-1)).isSome

/-! ### all matches -/

/-- `FindAllRunesIndex(r, k)`: `findAllRunesIndex` on the bool-only program -/
def findAllRunes (P : Programs) (rtl : Bool) (n : Nat) (k : Int) : Option (List (Nat × Nat)) :=
  findAll P.quick rtl n k

/-- `FindAllStringIndex(s, k)` up to the byte mapping: `findStringMatchStart` (filter), then
    `findAllRunesIndex` on the bool-only program from the candidate -/
def findAllString (P : Programs) (filter : Nat → Option Nat) (rtl : Bool) (n : Nat) (k : Int) : Option (List (Nat × Nat)) :=
  if k = 0 then none
  else
    match stringStart filter rtl n with
    | none => none
    | some c =>
      let out := findAllLoop P.quick rtl n (n + 2) c (-1) (-1) k
      if out.isEmpty then none else some out

/-- the enumeration `m := FindStringMatch(s); for m != nil { …; m = FindNextMatch(m) }` of `Split`,
    of the adapter's `forEachStringMatch` and of `ReplaceFunc` (before their own counting) -/
def enumString (P : Programs) (filter : Nat → Option Nat) (rtl : Bool) (n : Nat) : List Hit :=
  iterFrom P.full rtl n (n + 2) (findStringMatch P filter rtl n)

/-- the loop shared by the three drivers of replace.go (`replace` with an evaluator,
    `replaceRunnerLTR`, `replaceRunnerRTL`): `for m != nil { emit m; count--; if count == 0 { break };
    m = next(m) }` where `next` is `FindNextMatch` resp. `runner.scan(text, textInfo, m.textpos,
    m.RuneLength, true, …)` — the full program, because `textInfo != nil` -/
def replaceLoop (E : Engine) (rtl : Bool) (n : Nat) : Nat → Option Hit → Int → List Hit
  | 0, _, _ => []
  | _ + 1, none, _ => []
  | fuel + 1, some m, count =>
    m :: (if count - 1 = 0 then [] else replaceLoop E rtl n fuel (nextMatch E rtl n m) (count - 1))

/-- the matches `Replace(input, repl, -1, count)` / `ReplaceFunc(input, f, -1, count)` substitute
    (`count = -1`: all; `count = 0` returns the input unchanged before any search) -/
def replaceEnum (P : Programs) (rtl : Bool) (n : Nat) (count : Int) : List Hit :=
  if count = 0 then [] else replaceLoop P.full rtl n (n + 2) (firstMatch P.full rtl n) count

/-! ### hypotheses -/

/-- the attempts of the program do not depend on the `\G` origin (the pattern has no `\G`;
    `Code.UsesStartAnchor`) -/
def OriginFree (E : Engine) (n : Nat) : Prop :=
  ∀ ts ts' p, ts ≤ n → ts' ≤ n → p ≤ n → E.attempt ts p = E.attempt ts' p

/-- The filter is only an accelerator for a left-to-right search from position 0: "no" means no
    attempt succeeds anywhere, a candidate `c` means no attempt succeeds before `c`.  `attempt` is the
    attempt family member for origin 0. -/
def FilterSound (attempt : Nat → Option (Nat × Nat)) (n : Nat) (filter : Nat → Option Nat) : Prop :=
  (filter 0 = none → ∀ p, p ≤ n → attempt p = none) ∧
  (∀ c, filter 0 = some c → ∀ p, p < c → p ≤ n → attempt p = none)

/-- both programs have sound accelerators and report the same overall span at every position — what
    `Spec.attempt_strip` (part A) establishes for the specification of the two programs -/
structure Programs.Agree (P : Programs) (rtl : Bool) (n : Nat) : Prop where
  full : P.full.Sound rtl n
  quick : P.quick.Sound rtl n
  same : ∀ ts p, ts ≤ n → p ≤ n → P.quick.attempt ts p = P.full.attempt ts p

end RegexVerif.Api
