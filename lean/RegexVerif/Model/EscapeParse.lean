/-
Model of the pattern parser (`syntax/parser.go`) restricted to the *literal fragment*: what
`scanRegex` does with a pattern as long as every unit it meets is a single literal rune.

`parseLit o isWord pat` consumes `pat` left to right the way `scanRegex` does under the option set `o`
and returns the sequence of literal runes the pattern denotes — the spelling of the One/Multi nodes the
parser concatenates — or `none` as soon as it meets anything that is not "a literal rune".
`parseWhy` is the same function with the reason kept:

* `Why.construct` — a construct outside the fragment: an unescaped `(` `)` `[` `|`, or a quantifier
  (`*` `+` `?`, or `{n}`/`{n,}`/`{n,m}` as recognised by `isTrueQuantifier`).  The real parser may still
  build a literal here (`(?:a)`, `[a]`, `a{1}`, `(?#…)`); the model does not say.
* `Why.nonlit` — a unit that is not a literal rune: `.` `^` `$`, an anchor escape (`\b \B \A \G \Z \z`),
  a class escape (`\w \W \s \S \d \D \p \P`), a back-reference (`\1`, `\k<…>`, `\<…>`, `\'…'`).  The real
  parser builds a non-literal node or reports an error.
* `Why.error` — a malformed escape: the real parser reports an error.

What is mirrored, function by function (all of `syntax/parser.go`):

* `scanRegex`: per rune instead of per run.  The parser batches ordinary runes into one `Multi`
  (`addToConcatenate`) and splits the last one off when a quantifier follows; for the *spelling* only the
  sequence matters, and a quantifier ends the fragment anyway.  `{` that `isTrueQuantifier` rejects is an
  ordinary rune.  After every unit the parser calls `scanBlank` and `isTrueQuantifier`; the model does the
  same at the head of its loop.
* `scanBlank` under IgnorePatternWhitespace: whitespace (`isSpace`: category `X` of `_category`) and
  `#…` up to the line feed.  (`(?#…)` comments start with an unescaped `(`: outside the fragment.)
* `scanBackslash`, `scanBasicBackslash` for a pattern without capture groups (`caps = {0}`, no names):
  anchors, classes, `\p`/`\P` (identity escape under ECMAScript without Unicode), `\k` (identity escape
  under ECMAScript without Unicode), the angled/quoted references `\<…>` `\'…'` with their fall-through
  to a literal `<` / `'`, `\1`…`\9…` with their fall-through to octal / identity escapes, `scanDecimal`
  with its overflow error.
* `scanCharEscape` with its ECMAScript and RE2 branches: octal (`scanOctal`, ECMAScript stops before
  exceeding 0377), `\x{…}` (not an escape under ECMAScript: literal `x`), `\xHH`, `\u{…}` (only under
  ECMAScript+Unicode), `\uHHHH`, the letter escapes, `\cX` (`scanControl`), the identity escape of a
  non-word rune (of every rune under ECMAScript/RE2), and the ECMAScript rule that a failed
  `\x`/`\u`/`\c` reads as the letter itself.

Not modelled: IgnoreCase (letters become sets: no longer a literal), RightToLeft (the parser reverses the
concatenation internally; the spelling is the same — leg E checks it), Multiline/Singleline/
ExplicitCapture (they only change `^ $ . (`, all outside the fragment).

The word-character test (`syntax.IsWordChar`) is an oracle parameter.  The category sets
(`isSpaceCh`, `isSpecialCh`, `isQuantCh`) are written out here; `Props.C19.category_sets_match_table`
re-checks them against the `_category` table regenerated from parser.go on every run.
-/
import RegexVerif.Model.Escape

namespace RegexVerif.EscapeParse
open RegexVerif.Escape

/-- the parser options that change how a literal is read -/
structure ParseOpts where
  /-- IgnorePatternWhitespace -/
  x : Bool := false
  /-- ECMAScript -/
  ecma : Bool := false
  /-- RE2 -/
  re2 : Bool := false
  /-- Unicode (only meaningful together with ECMAScript) -/
  u : Bool := false
  deriving DecidableEq, Repr

inductive Why where
  | construct | nonlit | error
  deriving DecidableEq, Repr

/-- which case of `scanBackslash`/`scanBasicBackslash` applies: the escape is not a literal rune
    (`stop`), or it is handed to `scanCharEscape` ("Not backreference: must be char code") -/
inductive BsKind where
  | stop (w : Why)
  | charEsc
  deriving DecidableEq, Repr

/-- the model's verdict on a whole pattern -/
inductive Res where
  | lit (t : List Nat)
  | stop (w : Why)
  | outOfFuel
  deriving DecidableEq, Repr

/-- result of one turn of the `scanRegex` loop -/
inductive Step where
  | done
  | emit (c : Nat) (rest : List Nat)
  | stop (w : Why)
  deriving DecidableEq, Repr

/-- `isSpace`: `ch <= ' ' && _category[ch] == X` -/
def isSpaceCh (c : Nat) : Bool := [9, 10, 11, 12, 13, 32].contains c

/-- `isSpecial`: `ch <= '|' && _category[ch] >= S` — `$ ( ) * + . ? [ \ ^ { |` -/
def isSpecialCh (c : Nat) : Bool := [36, 40, 41, 42, 43, 46, 63, 91, 92, 94, 123, 124].contains c

/-- `isQuantifier`: `ch <= '{' && _category[ch] >= Q` — `* + ? {` -/
def isQuantCh (c : Nat) : Bool := [42, 43, 63, 123].contains c

def isDigitCh (c : Nat) : Bool := decide (48 ≤ c ∧ c ≤ 57)

/-- `scanBlank` under IgnorePatternWhitespace, without the `(?#…)` form: skip whitespace and `#…`
    comments (a comment ends before the line feed, which is whitespace itself).
    `inComment = true` while inside a `#` comment. -/
def skipBlankX : Bool → List Nat → List Nat
  | _, [] => []
  | false, c :: r => if isSpaceCh c then skipBlankX false r else if c = 35 then skipBlankX true r else c :: r
  | true, c :: r => if c = 10 then skipBlankX false r else skipBlankX true r

def skipBlank (o : ParseOpts) (p : List Nat) : List Nat := if o.x then skipBlankX false p else p

def dropDigits : List Nat → List Nat
  | [] => []
  | c :: r => if isDigitCh c then dropDigits r else c :: r

/-- `isTrueQuantifier` at a `{`; the argument is the text after the brace:
    `{` digits+ `}` or `{` digits+ `,` digits* `}` -/
def isTrueBrace (r : List Nat) : Bool :=
  match r with
  | [] => false
  | d :: _ =>
    if isDigitCh d then
      match dropDigits r with
      | 125 :: _ => true
      | 44 :: r2 => (match dropDigits r2 with | 125 :: _ => true | _ => false)
      | _ => false
    else false

/-- `isTrueQuantifier` with the current rune `c` and the text after it -/
def isTrueQuant (c : Nat) (r : List Nat) : Bool :=
  if c = 123 then isTrueBrace r else isQuantCh c

/-- `scanDecimal`: the value and the rest; `none` = ErrCaptureGroupOutOfRange (value above MaxInt32) -/
def scanDecimal : Nat → List Nat → Option (Nat × List Nat)
  | acc, [] => some (acc, [])
  | acc, c :: r =>
    if isDigitCh c then
      let d := c - 48
      if acc > 214748364 ∨ (acc = 214748364 ∧ d > 7) then none
      else scanDecimal (acc * 10 + d) r
    else some (acc, c :: r)

/-- `scanOctal` with the ECMAScript rule (`e = true`: stop before a digit once the value is ≥ 0x20) -/
def scanOctalO (e : Bool) : Nat → Nat → List Nat → Nat × List Nat
  | 0, acc, rest => (acc % 256, rest)
  | c + 1, acc, ch :: rest =>
    if 48 ≤ ch ∧ ch ≤ 55 then
      if e && decide (32 ≤ acc) then (acc % 256, ch :: rest)
      else scanOctalO e c (acc * 8 + (ch - 48)) rest
    else (acc % 256, ch :: rest)
  | _ + 1, acc, [] => (acc % 256, [])

/-- the ECMAScript rule at the end of `scanCharEscape`: a failed `\x`/`\u`/`\c` is the letter itself,
    reading resumes right after the letter -/
def ecmaFallback (o : ParseOpts) (ch : Nat) (rest : List Nat) (res : Option (Nat × List Nat)) :
    Option (Nat × List Nat) :=
  match res with
  | some v => some v
  | none => if o.ecma then some (ch, rest) else none

/-- `scanCharEscape` under the options `o`; the argument is the text after the backslash.
    `none` = the parser reports an error. -/
def scanCharEscapeO (o : ParseOpts) (isWord : Nat → Bool) : List Nat → Option (Nat × List Nat)
  | [] => none
  | ch :: rest =>
    if 48 ≤ ch ∧ ch ≤ 55 then some (scanOctalO o.ecma 3 0 (ch :: rest))
    else if ch = 120 then          -- x
      if rest.head? = some 123 then
        (if o.ecma then some (ch, rest) else scanHexBrace 0 false rest.tail)
      else ecmaFallback o ch rest (scanHex 2 0 rest)
    else if ch = 117 then          -- u
      if rest.head? = some 123 ∧ o.ecma ∧ o.u then scanHexBrace 0 false rest.tail
      else ecmaFallback o ch rest (scanHex 4 0 rest)
    else if ch = 97 then some (7, rest)
    else if ch = 98 then some (8, rest)
    else if ch = 101 then some (27, rest)
    else if ch = 102 then some (12, rest)
    else if ch = 110 then some (10, rest)
    else if ch = 114 then some (13, rest)
    else if ch = 116 then some (9, rest)
    else if ch = 118 then some (11, rest)
    else if ch = 99 then ecmaFallback o ch rest (scanControl rest)
    else if !o.ecma && !o.re2 && isWord ch then none
    else some (ch, rest)

/-- the reference forms `\<…>` `\'…'` `\k<…>` `\k'…'` of `scanBasicBackslash` once `angled` is set: `r` is
    the (non-empty) text after the opening `<` / `'`, `k` whether the form began with `k`.
    With digits the parser falls through to `scanCharEscape` when the closing character is missing —
    even for `\k<1x` (there is no `if k` in that branch); with a name it reports ErrMalformedNameRef for
    `\k`.  Under ECMAScript (only reachable as `\k<` with the Unicode option) names are read by
    `scanECMACapname`, every outcome of which is a reference or an error. -/
def angledRef (o : ParseOpts) (isWord : Nat → Bool) (close : Nat) (k : Bool) (r : List Nat) : BsKind :=
  match r with
  | [] => .stop .error
  | d :: _ =>
    if isDigitCh d then
      match scanDecimal 0 r with
      | none => .stop .error                                   -- ErrCaptureGroupOutOfRange
      | some (_, r2) =>
        if r2.head? = some close then .stop .nonlit            -- `\<0>` is a reference, others undefined
        else .charEsc
    else if o.ecma then .stop .nonlit
    else if (r.takeWhile isWord) ≠ [] ∧ (r.dropWhile isWord).head? = some close then .stop .nonlit
    else if k then .stop .error                                -- ErrMalformedNameRef
    else .charEsc

/-- the case analysis of `scanBasicBackslash` for a pattern without capture groups (`caps = {0}`,
    `capnames` empty); `body` is the text after the backslash -/
def basicBackslashKind (o : ParseOpts) (isWord : Nat → Bool) (body : List Nat) : BsKind :=
  match body with
  | [] => .stop .error
  | ch :: r =>
    if ch = 107 ∧ (!o.ecma || o.u) then                        -- \k
      match r with
      | [] => .stop .error                                     -- ErrMalformedNameRef
      | c2 :: r' =>
        if c2 = 60 ∨ (!o.ecma ∧ c2 = 39) then
          (if r' = [] then .stop .error else angledRef o isWord (if c2 = 39 then 39 else 62) true r')
        else .stop .error
    else if !o.ecma ∧ (ch = 60 ∨ ch = 39) ∧ r ≠ [] then        -- \<  \'  with something after it
      angledRef o isWord (if ch = 39 then 39 else 62) false r
    else if 49 ≤ ch ∧ ch ≤ 57 then
      match scanDecimal 0 body with
      | none => .stop .error
      | some (n, _) =>
        if n ≤ 9 ∧ !o.ecma then .stop .nonlit                   -- ErrUndefinedBackRef (or a reference)
        else .charEsc
    else .charEsc

/-- the case analysis of `scanBackslash`; `body` is the text after the backslash -/
def backslashKind (o : ParseOpts) (isWord : Nat → Bool) (body : List Nat) : BsKind :=
  match body with
  | [] => .stop .error                                           -- ErrIllegalEndEscape
  | ch :: _ =>
    if [98, 66, 65, 71, 90, 122].contains ch then .stop .nonlit            -- b B A G Z z
    else if [119, 87, 115, 83, 100, 68].contains ch then .stop .nonlit     -- w W s S d D
    else if (ch = 112 ∨ ch = 80) ∧ !(o.ecma && !o.u) then .stop .nonlit     -- p P
    else basicBackslashKind o isWord body

/-- `scanBackslash` (→ `scanBasicBackslash` → `scanCharEscape`); `body` is the text after the backslash -/
def scanBackslash (o : ParseOpts) (isWord : Nat → Bool) (body : List Nat) : Step :=
  match backslashKind o isWord body with
  | .stop w => .stop w
  | .charEsc =>
    match scanCharEscapeO o isWord body with
    | none => .stop .error
    | some (c, rest) => .emit c rest

/-- what `scanRegex` does with a rune `c` other than a backslash at the head of its loop (`rest` = the
    text after it): `none` = an ordinary rune -/
def headKind (c : Nat) (rest : List Nat) : Option Why :=
  if isTrueQuant c rest then some .construct
  else if c = 123 then none                                    -- `{` that is not a quantifier
  else if [40, 41, 91, 124].contains c then some .construct    -- ( ) [ |
  else if [36, 46, 94].contains c then some .nonlit            -- $ . ^
  else none

/-- one turn of the `scanRegex` loop on the remaining pattern -/
def step (o : ParseOpts) (isWord : Nat → Bool) (p : List Nat) : Step :=
  match skipBlank o p with
  | [] => .done
  | c :: rest =>
    if c = 92 then scanBackslash o isWord rest
    else match headKind c rest with
      | some w => .stop w
      | none => .emit c rest

/-- the loop; every turn that goes on consumes at least one rune, so `fuel = length + 1` suffices
    (`Lemmas.EscapeParse.parseFuel_ne_outOfFuel`) -/
def parseFuel (o : ParseOpts) (isWord : Nat → Bool) : Nat → List Nat → List Nat → Res
  | 0, _, _ => .outOfFuel
  | fuel + 1, p, acc =>
    match step o isWord p with
    | .done => .lit acc.reverse
    | .stop w => .stop w
    | .emit c rest => parseFuel o isWord fuel rest (c :: acc)

def parseWhy (o : ParseOpts) (isWord : Nat → Bool) (pat : List Nat) : Res :=
  parseFuel o isWord (pat.length + 1) pat []

/-- the literal the pattern denotes under the options `o`, if the parser reads it as a pure literal -/
def parseLit (o : ParseOpts) (isWord : Nat → Bool) (pat : List Nat) : Option (List Nat) :=
  match parseWhy o isWord pat with
  | .lit t => some t
  | _ => none

end RegexVerif.EscapeParse
