/-
Executable models of the candidate finders of `runner.go` — what `findFirstChar` does to
`Runtextpos` before the program is executed.

The scan loop calls `findFirstCharDefault(r)` (runner.go:1386).  Its dispatch is NOT by
`FindOptimizations.FindMode` alone:

  1. `Code.Anchors` has one of Beginning / Start / EndZ / End  → the legacy anchor jumps, followed by
     `BmPrefix.IsMatch` at the pinned position when a Boyer-Moore prefix exists           (`finderAnchors`)
  2. else `Code.BmPrefix != nil`                                 → `BmPrefix.Scan`          (`finderBmScan`)
  3. else `shouldUseFindFirstCharOptimized` (a subset of the find modes)
                                                                 → `findFirstCharOptimized` (`finderOptimized`)
  4. else `Code.FcPrefix != nil`                                 → first-character set scan  (`finderFc`)
  5. else                                                        → every position is a candidate (`finderNoSearch`)

so the `LeadingAnchor_*`, `LeadingString_LeftToRight/RightToLeft`, `LeadingSet_RightToLeft`,
`LeadingChar_RightToLeft` and `TrailingAnchor_FixedLength_LeftToRight_EndZ` modes are realised by
paths 1, 2 and 4 (the anchor bits, the Boyer-Moore prefix and the first-character set describe the same
facts), and only the modes listed in `shouldUse` reach their own helper.  `finderDefault` mirrors the
whole dispatch; one function per helper mirrors the helper.

Conventions.  The input is `text : List Nat` (code points), `n = text.length`; positions are rune
indices `0 … n`.  Every finder maps `pos` (= `Runtextpos` on entry) to `(found, Runtextpos on exit)`,
including where the position is left on failure.  Unicode knowledge is a parameter: set membership is
a predicate `Nat → Bool` (`CharSet.CharIn`), `lower : Nat → Nat` is `unicode.ToLower`.  The search
primitives (`helpers.IndexOf`, `IndexOfAny…`, `IndexFunc`, `BmPrefix.Scan`) are modelled by what they
return — the first (right-to-left: last) index satisfying a test — not by their skip tables; leg Fm
compares each modelled finder with the real one at every position of every generated input.

Go `int` arithmetic that can go negative is rewritten over `Nat` without truncation:
`start <= latestPossibleStart` ⇔ `start + minLen ≤ n`; `pos < Runtextend-1` ⇔ `pos + 1 < n`.
-/
import RegexVerif.Model.Scan
import RegexVerif.Model.BoyerMoore

namespace RegexVerif.Finders

/-! ### search primitives -/

/-- the first of the `k` candidates `q, q+1, …` satisfying `P` — `helpers.IndexOf*` / `IndexFunc`
    ("offset of the first element with …, or -1"), in absolute positions -/
def findUp (P : Nat → Bool) : Nat → Nat → Option Nat
  | 0, _ => none
  | k + 1, q => if P q then some q else findUp P k (q + 1)

/-- the first of the candidates `q, q-1, …, 0` satisfying `P` (right-to-left searches) -/
def findDown (P : Nat → Bool) : Nat → Option Nat
  | 0 => if P 0 then some 0 else none
  | q + 1 => if P (q + 1) then some (q + 1) else findDown P q

/-- `S.CharIn(text[i])`, false outside the input -/
def memAt (S : Nat → Bool) (text : List Nat) (i : Nat) : Bool :=
  match text[i]? with
  | some c => S c
  | none => false

/-- `pat` is a prefix of `ts` under the character test `eq textChar patChar` -/
def prefixOf (eq : Nat → Nat → Bool) : List Nat → List Nat → Bool
  | [], _ => true
  | _ :: _, [] => false
  | c :: ps, t :: ts => eq t c && prefixOf eq ps ts

/-- `helpers.StartsWith(text[q:], pat)` and friends: `pat` occurs in `text` at `q` (and fits) -/
def occursAt (eq : Nat → Nat → Bool) (pat text : List Nat) (q : Nat) : Bool :=
  prefixOf eq pat (text.drop q)

/-! ### the character comparisons of the string searches -/

/-- `helpers.foldASCII` -/
def foldASCII (c : Nat) : Nat := if 65 ≤ c ∧ c ≤ 90 then c + 32 else c

/-- `helpers.IndexOf`, `StartsWith`, `BmPrefix` case-sensitive -/
def eqExact (t c : Nat) : Bool := t == c

/-- `helpers.IndexOfIgnoreCaseAscii`: both sides ASCII-folded -/
def eqAsciiFold (t c : Nat) : Bool := foldASCII t == foldASCII c

/-- `helpers.IndexOfIgnoreCase`, `StartsWithIgnoreCase`: equal, or equal after `unicode.ToLower` of
    the text character (the needle is expected in lower case) -/
def eqLower (lower : Nat → Nat) (t c : Nat) : Bool := t == c || lower t == c

/-- `BmPrefix` with `caseInsensitive`: the text character is lowered, then compared -/
def eqBmLower (lower : Nat → Nat) (t c : Nat) : Bool := lower t == c

/-- `isASCIIRunes` / `isASCIIString` -/
def isAscii (pat : List Nat) : Bool := pat.all (fun c => decide (c ≤ 127))

/-- the comparison `findLeadingStringLeftToRight` / `indexOfLiteralAfterLoop` select -/
def stringEq (lower : Nat → Nat) (ignoreCase : Bool) (pat : List Nat) : Nat → Nat → Bool :=
  if ignoreCase then (if isAscii pat then eqAsciiFold else eqLower lower) else eqExact

/-- `hasRequiredLengthAt(r, start)`: `start >= 0 && start <= latestPossibleStart(r)`, where
    `latestPossibleStart = Runtextend - MinRequiredLength` (`Runtextend` when the minimum is 0) -/
def hasLen (minLen n start : Nat) : Bool := decide (start + minLen ≤ n)

/-- `(found, q)` from an optional candidate; every failing exit of the left-to-right helpers is
    `r.Runtextpos = r.Runtextend; return false` -/
def ltrResult (n : Nat) : Option Nat → Bool × Nat
  | some q => (true, q)
  | none => (false, n)

/-- right-to-left failing exit: `r.Runtextpos = 0; return false` -/
def rtlResult : Option Nat → Bool × Nat
  | some q => (true, q)
  | none => (false, 0)

/-! ### the loop shape shared by the skipping searches

```
for searchStart := s0; guard(searchStart); {
    i := indexOf…(text[searchStart:])      // none → Runtextpos = end, return false
    …decide on i: candidate found / give up (break) / searchStart = i + 1
}
Runtextpos = end; return false
``` -/

inductive Step where
  | found (q : Nat)
  | giveUp
  | next
deriving Repr, DecidableEq

/-- `fuel` bounds the iterations; the search start grows strictly, `n + 1` always suffices -/
def searchLoop (guard : Nat → Bool) (idx : Nat → Option Nat) (step : Nat → Step) : Nat → Nat → Option Nat
  | 0, _ => none
  | fuel + 1, s =>
    if guard s then
      match idx s with
      | none => none
      | some i =>
        match step i with
        | .found q => some q
        | .giveUp => none
        | .next => searchLoop guard idx step fuel (i + 1)
    else none

/-! ### path 5 and the end of path 4: nothing to search for -/

/-- `NoSearch` without anchors, Boyer-Moore prefix or first-character set: `return true` -/
def finderNoSearch (pos : Nat) : Bool × Nat := (true, pos)

/-! ### path 1: `Code.Anchors` (+ `BmPrefix.IsMatch`) -/

/-- the four bits of `Code.Anchors` the finder looks at -/
structure Anchors where
  beginning : Bool := false
  start : Bool := false
  endZ : Bool := false
  «end» : Bool := false
deriving Repr, DecidableEq

def Anchors.any (a : Anchors) : Bool := a.beginning || a.start || a.endZ || a.«end»

/-- `Code.BmPrefix`: the pattern (lower-cased at compile time when `ci`) and its case flag -/
structure Bm where
  pat : List Nat
  ci : Bool

def Bm.eq (lower : Nat → Nat) (b : Bm) : Nat → Nat → Bool := if b.ci then eqBmLower lower else eqExact

/-- `BmPrefix.IsMatch(text, index, 0, len(text))` -/
def bmIsMatch (lower : Nat → Nat) (b : Bm) (rtl : Bool) (text : List Nat) (index : Nat) : Bool :=
  if rtl then decide (b.pat.length ≤ index) && occursAt (b.eq lower) b.pat text (index - b.pat.length)
  else occursAt (b.eq lower) b.pat text index

/-- the anchor block of `findFirstCharDefault` (runner.go:1387-1416) -/
def finderAnchors (lower : Nat → Nat) (a : Anchors) (bm : Option Bm) (rtl : Bool) (text : List Nat)
    (textstart pos : Nat) : Bool × Nat :=
  let n := text.length
  if !rtl then
    if (a.beginning && decide (0 < pos)) || (a.start && decide (textstart < pos)) then (false, n)
    else
      let pos' := if a.endZ && decide (pos + 1 < n) then n - 1
                  else if a.«end» && decide (pos < n) then n else pos
      match bm with
      | some b => (bmIsMatch lower b false text pos', pos')
      | none => (true, pos')
  else
    if (a.«end» && decide (pos < n)) ||
       (a.endZ && (decide (pos + 1 < n) || (decide (pos + 1 = n) && text[pos]? != some 10))) ||
       (a.start && decide (pos < textstart)) then (false, 0)
    else
      let pos' := if a.beginning && decide (0 < pos) then 0 else pos
      match bm with
      | some b => (bmIsMatch lower b true text pos', pos')
      | none => (true, pos')

/-! ### path 2: `BmPrefix.Scan` -/

/-- what `BmPrefix.Scan(text, pos, 0, len(text))` is meant to compute, with the `-1` handling: left-to-right
    the first occurrence starting at or after `pos`; right-to-left the last occurrence ENDING at or before
    `pos`, reported by its end — in both directions the first position in scan order at which `IsMatch`
    would hold.  (`Props.C03.finder_bmScan_eq_spec`: the real scan below computes exactly this.) -/
def finderBmScanSpec (lower : Nat → Nat) (b : Bm) (rtl : Bool) (text : List Nat) (pos : Nat) : Bool × Nat :=
  let n := text.length
  if rtl then rtlResult (findDown (bmIsMatch lower b true text) pos)
  else ltrResult n (findUp (bmIsMatch lower b false text) (n + 1 - pos) pos)

/-- `r.Runtextpos = r.code.BmPrefix.Scan(r.Runtext, r.Runtextpos, 0, r.Runtextend)` and the `-1` handling
    (runner.go:1420-1430), with the Boyer-Moore machine of Model/BoyerMoore.lean: tables built as
    `newBmPrefix` builds them from the (already lower-cased) pattern, `Scan` with its skip loop.  A pattern
    for which `newBmPrefix` returns nil has no `Code.BmPrefix`; the model answers "no candidate" without
    moving. -/
def finderBmScan (lower : Nat → Nat) (b : Bm) (rtl : Bool) (text : List Nat) (pos : Nat) : Bool × Nat :=
  match BoyerMoore.build b.pat b.ci rtl with
  | none => (false, pos)
  | some t =>
    if rtl then rtlResult (BoyerMoore.scan lower t text pos 0 text.length)
    else ltrResult text.length (BoyerMoore.scan lower t text pos 0 text.length)

/-! ### path 4: `Code.FcPrefix` -/

/-- the first-character loop at the end of `findFirstCharDefault`; `mem` is `ch == SingletonChar()`
    for a singleton set, `set.CharIn(ch)` otherwise (the character is NOT lower-cased:
    `forwardcharnext` returns it raw) -/
def finderFc (mem : Nat → Bool) (rtl : Bool) (text : List Nat) (pos : Nat) : Bool × Nat :=
  let n := text.length
  if rtl then rtlResult (findDown (fun q => decide (1 ≤ q) && memAt mem text (q - 1)) pos)
  else ltrResult n (findUp (memAt mem text) (n - pos) pos)

/-! ### path 3: the helpers behind `findFirstCharOptimized` (all left-to-right) -/

/-- `findTrailingFixedLengthEnd(r, MinRequiredLength)`: the only candidate is `end - length` -/
def finderTrailingEnd (n fixedLength pos : Nat) : Bool × Nat :=
  if fixedLength ≤ n ∧ pos ≤ n - fixedLength then (true, n - fixedLength) else (false, n)

/-- `findLeadingStringLeftToRight(r, prefix, ignoreCase)` -/
def finderLeadingString (lower : Nat → Nat) (pat : List Nat) (ignoreCase : Bool) (text : List Nat)
    (minLen pos : Nat) : Bool × Nat :=
  let n := text.length
  if pat.isEmpty then (true, pos)
  else
    match findUp (occursAt (stringEq lower ignoreCase pat) pat text) (n + 1 - pos) pos with
    | none => (false, n)
    | some start => if hasLen minLen n start then (true, start) else (false, n)

/-- the test of the fast path of `findLeadingStringsLeftToRight` at a position whose character is one
    of the first runes: `len(prefix) > 0 && prefix[0] == first && StartsWith(text[start:], prefix)` -/
def anyPrefixWithFirst (prefixes : List (List Nat)) (text : List Nat) (start : Nat) : Bool :=
  prefixes.any fun p =>
    match p with
    | [] => false
    | c :: _ => text[start]? == some c && occursAt eqExact p text start

/-- `leadingPrefixFirstRunes(prefixes)` (optimizations.go): the distinct first runes, in order -/
def leadingPrefixFirstRunes (prefixes : List (List Nat)) : List Nat :=
  prefixes.foldl (fun first p =>
    match p with
    | c :: _ => if first.contains c then first else first ++ [c]
    | [] => first) []

/-- `findLeadingStringsLeftToRight(r, prefixes, firstRunes, ignoreCase)` -/
def finderLeadingStrings (lower : Nat → Nat) (prefixes : List (List Nat)) (firstRunes : List Nat)
    (ignoreCase : Bool) (text : List Nat) (minLen pos : Nat) : Bool × Nat :=
  let n := text.length
  if prefixes.isEmpty then (false, pos)
  else if ignoreCase || firstRunes.isEmpty then
    -- `for start := pos; start <= latestPossibleStart; start++ { for each prefix … }`
    ltrResult n (findUp (fun s => prefixes.any fun p => occursAt (if ignoreCase then eqLower lower else eqExact) p text s)
      (n + 1 - minLen - pos) pos)
  else
    -- `latest := min(latestPossibleStart, end-1)`; skip between characters that can start a prefix
    let m := max minLen 1
    ltrResult n (searchLoop (fun s => decide (s + m ≤ n))
      (fun s => findUp (memAt (fun c => firstRunes.contains c) text) (n + 1 - m - s) s)
      (fun i => if anyPrefixWithFirst prefixes text i then .found i else .next)
      (n + 1) pos)

/-- the decision of the fixed-distance char/string loops on a literal found at `i` -/
def fixedStep (d n minLen pos i : Nat) : Step :=
  let start := i - d
  if decide (pos ≤ start) && hasLen minLen n start then .found start
  else if decide (n < start + minLen) then .giveUp      -- `start > latestPossibleStart(r)`
  else .next

/-- `findFixedDistanceCharLeftToRight(r, ch, distance)` -/
def finderFixedChar (c d : Nat) (text : List Nat) (minLen pos : Nat) : Bool × Nat :=
  let n := text.length
  ltrResult n (searchLoop (fun s => decide (s < n))
    (fun s => findUp (fun i => text[i]? == some c) (n - s) s)
    (fixedStep d n minLen pos) (n + 1) (pos + d))

/-- `findFixedDistanceStringLeftToRight(r, literal, distance)` -/
def finderFixedString (lit : List Nat) (d : Nat) (text : List Nat) (minLen pos : Nat) : Bool × Nat :=
  let n := text.length
  if lit.isEmpty then (true, pos)
  else
    ltrResult n (searchLoop (fun s => decide (s + lit.length ≤ n))
      (fun s => findUp (occursAt eqExact lit text) (n + 1 - s) s)
      (fixedStep d n minLen pos) (n + 1) (pos + d))

/-- `syntax.FixedDistanceSet`: `Chars` (with `Negated`), else `Range` (with `Negated`), else `Set` -/
structure FDSet where
  chars : List Nat := []
  negated : Bool := false
  range : Option (Nat × Nat) := none
  set : Option (Nat → Bool) := none
  distance : Nat := 0

/-- `charInFixedDistanceSet(set, ch)`; `indexOfSet` searches for the first character passing the same
    test (its four branches call `IndexOfAny`, `IndexOfAnyExcept`, `IndexOfAny[Except]InRange`,
    `IndexFunc(charInFixedDistanceSet)`) -/
def FDSet.mem (s : FDSet) (ch : Nat) : Bool :=
  if !s.chars.isEmpty then (if s.negated then !s.chars.contains ch else s.chars.contains ch)
  else match s.range with
    | some (lo, hi) => if s.negated then !(decide (lo ≤ ch) && decide (ch ≤ hi)) else decide (lo ≤ ch) && decide (ch ≤ hi)
    | none => match s.set with
      | some m => m ch
      | none => false

/-- `fixedDistanceSetsMatchAt(r, sets, start)` -/
def fixedSetsMatchAt (sets : List FDSet) (text : List Nat) (start : Nat) : Bool :=
  sets.all fun s => memAt s.mem text (start + s.distance)

/-- `findFixedDistanceSetsLeftToRight(r, sets)` (also the `LeadingSet_LeftToRight` mode) -/
def finderFixedSets (sets : List FDSet) (text : List Nat) (minLen pos : Nat) : Bool × Nat :=
  let n := text.length
  match sets with
  | [] => (false, pos)
  | primary :: _ =>
    if primary.set.isNone then (false, pos)
    else
      ltrResult n (searchLoop (fun s => decide (s < n))
        (fun s => findUp (memAt primary.mem text) (n - s) s)
        (fun i =>
          let start := i - primary.distance
          if decide (n < start + minLen) then .giveUp
          else if decide (pos ≤ start) && hasLen minLen n start && fixedSetsMatchAt sets text start then .found start
          else .next)
        (n + 1) (pos + primary.distance))

/-- `syntax.LiteralAfterLoop` -/
structure LitAfterLoop where
  str : List Nat := []
  strIgnoreCase : Bool := false
  char : Nat := 0
  chars : List Nat := []
  /-- `LoopNode.Set.CharIn`; `none` = `LoopNode == nil || LoopNode.Set == nil` -/
  loopSet : Option (Nat → Bool) := none

/-- the test `indexOfLiteralAfterLoop` searches the first position of: the string (if non-empty),
    else one of `Chars` (if non-empty), else `Char` -/
def LitAfterLoop.litAt (lower : Nat → Nat) (l : LitAfterLoop) (text : List Nat) (k : Nat) : Bool :=
  if !l.str.isEmpty then occursAt (stringEq lower l.strIgnoreCase l.str) l.str text k
  else if !l.chars.isEmpty then memAt (fun c => l.chars.contains c) text k
  else text[k]? == some l.char

/-- `for start > lo && set.CharIn(text[start-1]) { start-- }` -/
def walkBack (S : Nat → Bool) (text : List Nat) (lo : Nat) : Nat → Nat
  | 0 => 0
  | s + 1 => if decide (lo < s + 1) && memAt S text s then walkBack S text lo s else s + 1

/-- `findLiteralAfterLoopLeftToRight(r, literal)` -/
def finderLiteralAfterLoop (lower : Nat → Nat) (l : LitAfterLoop) (text : List Nat) (minLen pos : Nat) : Bool × Nat :=
  let n := text.length
  match l.loopSet with
  | none => (false, pos)
  | some S =>
    ltrResult n (searchLoop (fun s => decide (s < n))
      (fun s => findUp (l.litAt lower text) (n - s) s)
      (fun i =>
        let start := walkBack S text pos i
        if hasLen minLen n start then .found start else .next)
      (n + 1) pos)

/-! ### the required-landmark chain -/

/-- `syntax.RequiredLandmarkAlternative` -/
structure LmAlt where
  literal : List Nat := []
  set : Option (Nat → Bool) := none
  leadWs : Option (Nat → Bool) := none
  trailWs : Option (Nat → Bool) := none
  minRepeat : Nat := 0
  maxRepeat : Int := 0
  reqBefore : Bool := false
  reqAfter : Bool := false

/-- `requiredLandmarkMatch` -/
structure LmMatch where
  start : Nat
  coreStart : Nat
  «end» : Nat
deriving Repr, DecidableEq

/-- `for end < endAt && end-start < maxRepeat && set.CharIn(input[end]) { end++ }` -/
def runOf (S : Nat → Bool) (text : List Nat) (start maxRepeat : Nat) : Nat → Nat → Nat
  | 0, e => e
  | fuel + 1, e =>
    if decide (e < text.length) && decide (e - start < maxRepeat) && memAt S text e then runOf S text start maxRepeat fuel (e + 1)
    else e

def optMemAt (S : Option (Nat → Bool)) (text : List Nat) (i : Nat) : Bool :=
  match S with
  | some m => memAt m text i
  | none => false

/-- `for end-start > alt.MinRepeat && (end >= endAt || !TrailingWhitespaceSet.CharIn(input[end])) { end-- }`
    (/repo 5d7d1a2): a set core that overlaps the whitespace required after it may give repetitions back -/
def giveBack (W : Option (Nat → Bool)) (text : List Nat) (start minRepeat : Nat) : Nat → Nat
  | 0 => 0
  | e + 1 =>
    if decide (minRepeat < e + 1 - start) && (decide (text.length ≤ e + 1) || !optMemAt W text (e + 1)) then
      giveBack W text start minRepeat e
    else e + 1

/-- the core of `requiredLandmarkAlternativeMatch`: where the literal ends; or the greedy run of the set (at
    most `MaxRepeat`, at least `MinRepeat` characters), shortened to the last admissible end that is
    followed by the required trailing whitespace, if there is one -/
def lmCore (text : List Nat) (start : Nat) (alt : LmAlt) : Option Nat :=
  let n := text.length
  if !alt.literal.isEmpty then
    if decide (n < start + alt.literal.length) || !occursAt eqExact alt.literal text start then none
    else some (start + alt.literal.length)
  else match alt.set with
    | some S =>
      if 0 < alt.minRepeat then
        let maxRepeat := if alt.maxRepeat ≤ 0 then alt.minRepeat else alt.maxRepeat.toNat
        let e := runOf S text start maxRepeat (n + 1) start
        if e - start < alt.minRepeat then none
        else if alt.reqAfter && alt.trailWs.isSome then some (giveBack alt.trailWs text start alt.minRepeat e)
        else some e
      else none
    | none => none

/-- `requiredLandmarkAlternativeMatch(input, start, len(input), alt)` -/
def lmAltMatch (text : List Nat) (start : Nat) (alt : LmAlt) : Option LmMatch :=
  let n := text.length
  if alt.reqBefore && (decide (start = 0) || !optMemAt alt.leadWs text (start - 1)) then none
  else
    match lmCore text start alt with
    | none => none
    | some e =>
      if alt.reqAfter && (decide (n ≤ e) || !optMemAt alt.trailWs text e) then none
      else some ⟨walkBack (fun c => match alt.leadWs with | some m => m c | none => false) text 0 start, start, e⟩

/-- the shortest width an alternative's core can have: `len(Literal)`, or `MinRepeat` for a set -/
def LmAlt.minWidth (a : LmAlt) : Nat := if a.literal.isEmpty then a.minRepeat else a.literal.length

/-- `findNextRequiredLandmarkRunes(input, startAt, len(input), landmark)`: the first position at which
    some alternative matches (alternatives in order), and the earliest end `minEnd` -/
def lmFindNext (text : List Nat) (alts : List LmAlt) : Nat → Nat → Option (LmMatch × Nat)
  | 0, _ => none
  | fuel + 1, i =>
    if i < text.length then
      match alts.findSome? (lmAltMatch text i) with
      | some mt =>
        some (mt, alts.foldl (fun minEnd other => if mt.coreStart + other.minWidth < minEnd then mt.coreStart + other.minWidth else minEnd) mt.«end»)
      | none => lmFindNext text alts fuel (i + 1)
    else none

/-- the inner `for i := 1; i < len(chain.Landmarks); i++` : every later landmark must be found, each
    from the minimal end of the one before -/
def lmRest (text : List Nat) : List (List LmAlt) → Nat → Bool
  | [], _ => true
  | alts :: rest, nextStart =>
    match lmFindNext text alts (text.length + 1) nextStart with
    | none => false
    | some (_, minEnd) => lmRest text rest minEnd

/-- `syntax.RequiredLandmarkChain` -/
structure LmChain where
  loopSet : Option (Nat → Bool) := none
  landmarks : List (List LmAlt) := []

/-- `landmarkLeadingWhitespace(landmark, ch)`: `ch` is in the leading-whitespace set of some alternative -/
def lmLeadingWs (alts : List LmAlt) (ch : Nat) : Bool :=
  alts.any fun a => match a.leadWs with
    | some m => m ch
    | none => false

/-- the outer loop of `findRequiredLandmarkChainLeftToRight` -/
def lmLoop (S : Nat → Bool) (first : List LmAlt) (rest : List (List LmAlt)) (text : List Nat) (minLen pos : Nat) :
    Nat → Nat → Option Nat
  | 0, _ => none
  | fuel + 1, s =>
    if s + minLen ≤ text.length then
      match lmFindNext text first (text.length + 1) s with
      | none => none
      | some (mt, firstMinEnd) =>
        if lmRest text rest firstMinEnd then
          -- the match may use another alternative of the first landmark than the one found: walk back
          -- over anything that can be leading whitespace of any alternative, then over the leading loop
          let c1 := walkBack (lmLeadingWs first) text pos mt.coreStart
          let candidate := walkBack S text pos c1
          if hasLen minLen text.length candidate then some candidate
          else lmLoop S first rest text minLen pos fuel (mt.coreStart + 1)
        else none
    else none

/-- `findRequiredLandmarkChainLeftToRight(r, chain)` -/
def finderLandmarkChain (ch : LmChain) (text : List Nat) (minLen pos : Nat) : Bool × Nat :=
  match ch.loopSet, ch.landmarks with
  | some S, first :: rest => ltrResult text.length (lmLoop S first rest text minLen pos (text.length + 1) pos)
  | _, _ => (false, pos)

/-! ### the dispatch -/

/-- `syntax.FindNextStartingPositionMode` -/
inductive Mode where
  | noSearch
  | leadingAnchorLtrBeginning | leadingAnchorLtrStart | leadingAnchorLtrEndZ | leadingAnchorLtrEnd
  | leadingAnchorRtlBeginning | leadingAnchorRtlStart | leadingAnchorRtlEndZ | leadingAnchorRtlEnd
  | trailingAnchorFixedLengthLtrEnd | trailingAnchorFixedLengthLtrEndZ
  | leadingStringLtr | leadingStringRtl | leadingStringOrdinalIgnoreCaseLtr
  | leadingStringsLtr | leadingStringsOrdinalIgnoreCaseLtr
  | leadingSetLtr | leadingSetRtl | leadingCharRtl
  | fixedDistanceCharLtr | fixedDistanceStringLtr | fixedDistanceSetsLtr
  | literalAfterLoopLtr | requiredLandmarkChainLtr
deriving Repr, DecidableEq

/-- what the finder reads of `syntax.FindOptimizations` -/
structure FindOpts where
  mode : Mode := .noSearch
  minLen : Nat := 0
  leadingPrefix : List Nat := []
  prefixes : List (List Nat) := []
  firstRunes : List Nat := []
  fixedChar : Nat := 0
  fixedString : List Nat := []
  fixedDistance : Nat := 0
  sets : List FDSet := []
  literalAfterLoop : Option LitAfterLoop := none
  chain : Option LmChain := none

/-- `shouldUseFindFirstCharOptimized(r)` -/
def shouldUse (o : FindOpts) : Bool :=
  match o.mode with
  | .trailingAnchorFixedLengthLtrEnd | .leadingStringOrdinalIgnoreCaseLtr | .leadingStringsLtr
  | .leadingStringsOrdinalIgnoreCaseLtr | .fixedDistanceCharLtr | .fixedDistanceStringLtr
  | .fixedDistanceSetsLtr | .literalAfterLoopLtr | .requiredLandmarkChainLtr => true
  | .leadingSetLtr =>
    match o.sets with
    | s :: _ => (decide (0 < s.chars.length) && decide (s.chars.length ≤ 5)) || s.range.isSome
    | [] => false
  | _ => false

/-- `findFirstCharOptimized(r)`: `none` = not handled -/
def finderOptimized (lower : Nat → Nat) (o : FindOpts) (text : List Nat) (pos : Nat) : Option (Bool × Nat) :=
  match o.mode with
  | .trailingAnchorFixedLengthLtrEnd => some (finderTrailingEnd text.length o.minLen pos)
  | .leadingStringLtr => some (finderLeadingString lower o.leadingPrefix false text o.minLen pos)
  | .leadingStringOrdinalIgnoreCaseLtr => some (finderLeadingString lower o.leadingPrefix true text o.minLen pos)
  | .leadingStringsLtr => some (finderLeadingStrings lower o.prefixes o.firstRunes false text o.minLen pos)
  | .leadingStringsOrdinalIgnoreCaseLtr => some (finderLeadingStrings lower o.prefixes o.firstRunes true text o.minLen pos)
  | .leadingSetLtr | .fixedDistanceSetsLtr => some (finderFixedSets o.sets text o.minLen pos)
  | .fixedDistanceCharLtr => some (finderFixedChar o.fixedChar o.fixedDistance text o.minLen pos)
  | .fixedDistanceStringLtr => some (finderFixedString o.fixedString o.fixedDistance text o.minLen pos)
  | .literalAfterLoopLtr =>
    some (match o.literalAfterLoop with
      | some l => finderLiteralAfterLoop lower l text o.minLen pos
      | none => (false, pos))
  | .requiredLandmarkChainLtr =>
    some (match o.chain with
      | some ch => finderLandmarkChain ch text o.minLen pos
      | none => (false, pos))
  | _ => none

/-- everything `findFirstCharDefault` reads of the compiled program -/
structure Facts where
  rtl : Bool := false
  anchors : Anchors := {}
  bm : Option Bm := none
  opts : FindOpts := {}
  /-- `Code.FcPrefix`: the membership test the loop applies (see `finderFc`) -/
  fc : Option (Nat → Bool) := none
  lower : Nat → Nat := id

/-- which of the five paths `findFirstCharDefault` takes (for the evidence histogram) -/
inductive Path where
  | anchors | bmScan | optimized | fc | none
deriving Repr, DecidableEq

def pathOf (f : Facts) : Path :=
  if f.anchors.any then .anchors
  else if f.bm.isSome then .bmScan
  else if shouldUse f.opts && (finderOptimized f.lower f.opts [] 0).isSome then .optimized
  else if f.fc.isSome then .fc
  else .none

/-- `findFirstCharDefault(r)` (runner.go:1386-1466) -/
def finderDefault (f : Facts) (text : List Nat) (textstart pos : Nat) : Bool × Nat :=
  if f.anchors.any then finderAnchors f.lower f.anchors f.bm f.rtl text textstart pos
  else
    match f.bm with
    | some b => finderBmScan f.lower b f.rtl text pos
    | none =>
      match (if shouldUse f.opts then finderOptimized f.lower f.opts text pos else none) with
      | some r => r
      | none =>
        match f.fc with
        | none => finderNoSearch pos
        | some mem => finderFc mem f.rtl text pos

end RegexVerif.Finders
