/-
The tree REDUCER of dlclark/regexp2 as ONE executable function: from the tree the parser builds
(`Parser.RawTree`, hook `syntax.VerifParseRaw`) to the tree the writer reads (`Writer.GoNode`), i.e.

  "`addChild` reduces every child as it is added (`RegexNode.reduce`), the root is not reduced, then
   `finalOptimize`"                                   (`syntax.VerifReduce`, = what `syntax.Parse` does)

and the composition `compilePattern = emit ∘ reduceTree ∘ parse`.

`Node` mirrors `RegexNode` with ALL its fields (numeric node type, full option word, Ch, Str, Set, M, N,
children): the Go code reads and copies full option words (`n.Options != subsequent.Options`), keeps a stale
`Ch` on a Set node that a merge made out of a One, and compares it later.

What is REUSED from `Model/RewriteDecisions.lean` (on its n-ary tree `RNode`, through the explicit total
conversions `toR` / `fromR`): `reduceAlt` (nested alternations, letter merging, both prefix extractions,
redundant empties), `reduceCat` (Nothing, adjacent loops, adjacent strings, flattening), `reduceAtomic`
(nested Atomic, `makeLoopAtomic`, the alternation block), `reduceCP` (`reduceSet`), `makeLoopAtomic`,
`placeBump`.  Their callback `red` (= `reduce()` of a node built by the rewrite) is THIS file's `reduce`.

What is added here: the `IgnoreCase` stripping at the top of `reduce()`, `reduceGroup`, `reduceRep` (nested
repeater multiplication with the overflow clamps and the "too lumpy" guards, Empty child, `min == MaxInt32`,
single-character child → One/Notone/Set loop), `reduceLookaround`, both conditional reductions,
`eliminateEndingBacktracking` in full (`elim`), `FindLastExpressionInLoopForAutoAtomic`, `canBeMadeAtomic`
line by line (`cbma`; the parent walk is a list of frames), `findAndMakeLoopsAtomic` / `processNode`
(`faml`, `processNode`), `finalOptimize`.

`toR` keeps every field `RNode` has no room for: a node of a type the reused functions never inspect
(anchors, Ref, Loop, Capture, lookarounds, Atomic as a child, conditionals, the marker) travels as
`alt tag [cat tag [payload]]` — two singleton wrappers, one of which survives `flatAlts` / `flatCats`;
`altOf [p] = p = seqOf [p]`, so the wrapper is invisible to `RewriteDecisions.toPat`.  The tag
(≥ 2⁴⁰, option words are < 2¹⁶) packs node type, option word, M, N and arity.

Unicode knowledge is an oracle (`Orc`): `CharSet.CharIn`, `CharSet.MayOverlap`, `IsWordChar`,
`IsECMAWordChar`, keyed by the structural code of a set (`encodeSet`), supplied per case by the harness.
-/
import RegexVerif.Model.Parser
import RegexVerif.Model.RewriteDecisions
import RegexVerif.Model.Writer

namespace RegexVerif.Reduce
open RegexVerif
open RegexVerif.Spec (Cls)
open RegexVerif.RewriteDecisions (RNode CP LK)

/-! ## The tree -/

/-- `RegexNode`: `T` (the Go number), `Options` (the Go mask), `Ch`, `Str`, `Set`, `M`, `N`, `Children` -/
inductive Node where
  | mk (t o ch : Nat) (str : List Nat) (set : Option Class.Class) (m n : Int) (kids : List Node)
  deriving Repr, Inhabited

namespace Node
def t : Node → Nat | mk t .. => t
def o : Node → Nat | mk _ o .. => o
def ch : Node → Nat | mk _ _ ch .. => ch
def str : Node → List Nat | mk _ _ _ str .. => str
def set : Node → Option Class.Class | mk _ _ _ _ set .. => set
def m : Node → Int | mk _ _ _ _ _ m .. => m
def n : Node → Int | mk _ _ _ _ _ _ n _ => n
def kids : Node → List Node | mk _ _ _ _ _ _ _ kids => kids
def withKids : Node → List Node → Node
  | mk t o ch str set m n _, ks => mk t o ch str set m n ks
def withT : Node → Nat → Node
  | mk _ o ch str set m n ks, t => mk t o ch str set m n ks
def withO : Node → Nat → Node
  | mk t _ ch str set m n ks, o => mk t o ch str set m n ks
def withMN : Node → Int → Int → Node
  | mk t o ch str set _ _ ks, m, n => mk t o ch str set m n ks
/-- `Options & RightToLeft` -/
def rtl (x : Node) : Bool := x.o / 64 % 2 == 1
end Node

/-- a node without payload -/
def bareNode (t o : Nat) : Node := .mk t o 0 [] none 0 0 []

def maxInt32 : Int := 2147483647

-- node type numbers (`syntax.Nt…`)
def ntOneloop := 3
def ntNotoneloop := 4
def ntSetloop := 5
def ntOnelazy := 6
def ntNotonelazy := 7
def ntSetlazy := 8
def ntOne := 9
def ntNotone := 10
def ntSet := 11
def ntMulti := 12
def ntRef := 13
def ntEol := 15
def ntBoundary := 16
def ntNonboundary := 17
def ntEndZ := 20
def ntEnd := 21
def ntNothing := 22
def ntEmpty := 23
def ntAlternate := 24
def ntConcatenate := 25
def ntLoop := 26
def ntLazyloop := 27
def ntCapture := 28
def ntGroup := 29
def ntPosLook := 30
def ntNegLook := 31
def ntAtomic := 32
def ntBackRefCond := 33
def ntExprCond := 34
def ntECMABoundary := 41
def ntNonECMABoundary := 42
def ntOneloopatomic := 43
def ntNotoneloopatomic := 44
def ntSetloopatomic := 45
def ntUpdateBumpalong := 46

def isOneFamily (t : Nat) : Bool := t == 9 || t == 3 || t == 6 || t == 43
def isNotoneFamily (t : Nat) : Bool := t == 10 || t == 4 || t == 7 || t == 44
def isSetFamily (t : Nat) : Bool := t == 11 || t == 5 || t == 8 || t == 45
def isOneloopFamily (t : Nat) : Bool := t == 3 || t == 6 || t == 43
def isNotoneloopFamily (t : Nat) : Bool := t == 4 || t == 7 || t == 44
def isSetloopFamily (t : Nat) : Bool := t == 5 || t == 8 || t == 45
/-- the nine single-character loop types -/
def isCharLoop (t : Nat) : Bool := (3 ≤ t && t ≤ 8) || (43 ≤ t && t ≤ 45)

mutual
/-- the raw tree in this file's vocabulary -/
def ofRaw : Parser.RNode → Node
  | .mk t o ch str set m n kids => .mk t.toNat o.toMask ch str set m n (ofRaws kids)
def ofRaws : List Parser.RNode → List Node
  | [] => []
  | x :: xs => ofRaw x :: ofRaws xs
end

/-! ## Sets: `Class.Class` (the parser's) ↔ `Spec.Cls` (the rewrite model's), and the structural code -/

/-- `Spec.Cls` has no field for `anything`.  `makeAnything` leaves the positive class `[0, MaxRune]` without
    categories, and a subtraction-free positive class of that shape is `anything` (`canonicalize`); the flag
    is also set on classes with a subtraction or a negation (`[\w\W-[B]]`): there it travels as a pseudo
    category at the end of the names (such classes are never merged, only compared and copied). -/
def anyMark : Nat × Bool := (4294967295, false)

def plainAnything (neg : Bool) (rs : List (Nat × Nat)) (ns : List (Nat × Bool)) : Bool :=
  !neg && ns.isEmpty && rs == [(0, Class.maxRune)]

def baseOf (f : Class.Flat) (hasSub : Bool) : Cls :=
  .base f.neg f.ranges (if f.anything && (hasSub || !plainAnything f.neg f.ranges f.cats) then f.cats ++ [anyMark] else f.cats)

def clsOf : Class.Class → Cls
  | .leaf f => baseOf f false
  | .minus f s => .diff (baseOf f true) (clsOf s)

def flatOf (neg : Bool) (rs : List (Nat × Nat)) (ns : List (Nat × Bool)) (hasSub : Bool) : Class.Flat :=
  if ns.getLast? == some anyMark then { ranges := rs, cats := ns.dropLast, neg := neg, anything := true }
  else { ranges := rs, cats := ns, neg := neg, anything := !hasSub && plainAnything neg rs ns }

def clsFlat : Cls → Class.Flat
  | .base neg rs ns => flatOf neg rs ns true
  | .diff a _ => clsFlat a

def classOf : Cls → Class.Class
  | .base neg rs ns => .leaf (flatOf neg rs ns false)
  | .diff a b => .minus (clsFlat a) (classOf b)

/-- the structural code of a set: what `mapHashFill` writes, with category ids for names
    (`[negate + 2·anything, #ranges, #categories, first, last, …, id, negated, …]`, then the subtracted set) -/
def encodeFlat (f : Class.Flat) : List Nat :=
  [(if f.neg then 1 else 0) + (if f.anything then 2 else 0), f.ranges.length, f.cats.length] ++
    f.ranges.flatMap (fun r => [r.1, r.2]) ++ f.cats.flatMap (fun c => [c.1, if c.2 then 1 else 0])

def encodeSet : Class.Class → List Nat
  | .leaf f => encodeFlat f
  | .minus f s => encodeFlat f ++ encodeSet s

def setCode (x : Node) : List Nat :=
  match x.set with
  | some c => encodeSet c
  | none => []

/-! ## The oracle -/

structure Orc where
  /-- `set.CharIn(ch)`, the set by its code -/
  charIn : List Nat → Nat → Bool
  /-- `set1.MayOverlap(set2)` -/
  overlap : List Nat → List Nat → Bool
  /-- `syntax.IsWordChar` -/
  isWord : Nat → Bool
  /-- `syntax.IsECMAWordChar` -/
  isEcmaWord : Nat → Bool

/-! ## `Node` ↔ `RNode` -/

def tagBase : Nat := 1099511627776  -- 2^40
def isTag (o : Nat) : Bool := decide (tagBase ≤ o)

def packTag (arity t o : Nat) (m n : Int) : Nat :=
  tagBase + (arity + 4 * (t + 64 * (o % 65536 + 65536 * ((m + 1).toNat % 8589934592 + 8589934592 * (n + 1).toNat))))

structure Tag where
  arity : Nat
  t : Nat
  o : Nat
  m : Int
  n : Int

def unpackTag (tag : Nat) : Tag :=
  let x := tag - tagBase
  let x1 := x / 4
  let x2 := x1 / 64
  let x3 := x2 / 65536
  { arity := x % 4, t := x1 % 64, o := x2 % 65536,
    m := ((x3 % 8589934592 : Nat) : Int) - 1, n := ((x3 / 8589934592 : Nat) : Int) - 1 }

def hiOf (n : Int) : Option Nat := if n ≥ maxInt32 then none else some n.toNat
def nOf : Option Nat → Int
  | none => maxInt32
  | some h => (h : Int)

/-- the test of a One / Notone / Set family node -/
def cpOf (x : Node) : CP :=
  if isOneFamily x.t then .one x.ch
  else if isNotoneFamily x.t then .notone x.ch
  else match x.set with
    | some c => .set (clsOf c)
    | none => .set (.base false [] [])

def kindOf (t : Nat) : LK :=
  if t ≤ 5 then .greedy else if t ≤ 8 then .lzy else .atomic

/-- the option word with the stale `Ch` of a Set-family node folded in (`RewriteDecisions.mergedOpts`) -/
def optsR (x : Node) : Nat := if isSetFamily x.t then x.o + x.ch * 65536 else x.o

/-- the anchor of a node type (the two ECMAScript boundaries have no constructor of their own; the tag keeps
    the exact type) -/
def anchorOf (t : Nat) : Spec.Anchor :=
  if t == 14 then .bol else if t == 15 then .eol else if t == 16 then .boundary else if t == 17 then .nonboundary
  else if t == 18 then .beginning else if t == 19 then .start else if t == 20 then .endz else if t == 21 then .«end»
  else if t == 41 then .boundary else .nonboundary

/-- the payload of a wrapped node: its natural `RNode` (an `RNode` constructor none of the reused functions
    looks into), so that `RewriteDecisions.toPat` of the wrapper is the node's own denotation -/
def payload (t o : Nat) (m n : Int) : List RNode → RNode
  | [] => if t == 13 then .ref m.toNat (o % 2 == 1) else if t == 46 then .bump else .anchor (anchorOf t)
  | [a] =>
    if t == 26 then .loop false m.toNat (hiOf n) a
    else if t == 27 then .loop true m.toNat (hiOf n) a
    else if t == 30 then .look (o / 64 % 2 == 1) false a
    else if t == 31 then .look (o / 64 % 2 == 1) true a
    else if t == 32 then .atomic a
    else if t == 33 then .refCond m.toNat a .empty
    else .cap m.toNat a
  | [a, b] => if t == 34 then .exprCond a b .empty else .refCond m.toNat a b
  | a :: b :: c :: _ => .exprCond a b c

mutual
/-- `Node → RNode` (total; loses nothing the reducer reads: see the header) -/
def toR : Node → RNode
  | .mk t o ch str set m n kids =>
    let x : Node := .mk t o ch str set m n []
    if t == 9 || t == 10 || t == 11 then .chr (optsR x) (cpOf x)
    else if isCharLoop t then .cloop (optsR x) (kindOf t) (cpOf x) m.toNat (hiOf n)
    else if t == 12 then .multi o str
    else if t == 23 then .empty
    else if t == 22 then .nothing
    else if t == 24 then .alt o (toRs kids)
    else if t == 25 then .cat o (toRs kids)
    else
      let tag := packTag (min kids.length 3) t o m n
      .alt tag [.cat tag [payload t o m n (toRs kids)]]
def toRs : List Node → List RNode
  | [] => []
  | x :: xs => toR x :: toRs xs
end

/-- the child counts `emitFragment` accepts for a node type (`Writer.GoNode.ok`) -/
def shapeOk (t k : Nat) : Bool :=
  if t == 24 || t == 25 then 1 ≤ k
  else if 26 ≤ t && t ≤ 32 then k == 1
  else if t == 33 then k == 1 || k == 2
  else if t == 34 then k == 2 || k == 3
  else k == 0 && ((3 ≤ t && t ≤ 23) || t == 41 || t == 42 || (43 ≤ t && t ≤ 46))

/-- a node of a shape the writer rejects becomes Empty (never happens on the trees the reducer builds: the
    reused functions return alternations / concatenations with at least two children and leave wrapped
    nodes alone; it makes `fromR` land in the writer's domain for EVERY `RNode`) -/
def fixShape (x : Node) : Node := if shapeOk x.t x.kids.length then x else bareNode 23 x.o

def cloopType (k : LK) (p : CP) : Nat :=
  (match p with | .one _ => 0 | .notone _ => 1 | .set _ => 2) +
  (match k with | .greedy => 3 | .lzy => 6 | .atomic => 43)

def cpNode (t o : Nat) (p : CP) (m n : Int) : Node :=
  match p with
  | .one c => .mk t (o % 65536) c [] none m n []
  | .notone c => .mk t (o % 65536) c [] none m n []
  | .set s => .mk t (o % 65536) (o / 65536) [] (some (classOf s)) m n []

/-- a wrapped node from its tag and the `Node` of its payload -/
def unwrap (tag : Nat) (payload : Node) : Node :=
  let g := unpackTag tag
  fixShape (.mk g.t g.o 0 [] none g.m g.n (payload.kids.take g.arity))

mutual
/-- `RNode → Node` (total; `fromR (toR x) = x` on the nodes the reducer meets) -/
def fromR : RNode → Node
  | .chr o p => cpNode (match p with | .one _ => 9 | .notone _ => 10 | .set _ => 11) o p 0 0
  | .cloop o k p lo hi => cpNode (cloopType k p) o p lo (nOf hi)
  | .multi o cs => .mk 12 (o % 65536) 0 cs none 0 0 []
  | .empty => bareNode 23 0
  | .nothing => bareNode 22 0
  | .bump => bareNode 46 0
  | .anchor _ => bareNode 23 0
  | .ref g _ => .mk 13 0 0 [] none g 0 []
  | .alt o cs =>
    if isTag o then
      match fromRs cs with
      | [x] => x
      | ks => fixShape (.mk 24 0 0 [] none 0 0 ks)
    else fixShape (.mk 24 o 0 [] none 0 0 (fromRs cs))
  | .cat o cs =>
    if isTag o then
      match fromRs cs with
      | [x] => unwrap o x
      | ks => fixShape (.mk 25 0 0 [] none 0 0 ks)
    else fixShape (.mk 25 o 0 [] none 0 0 (fromRs cs))
  | .loop lzy lo hi b => .mk (if lzy then 27 else 26) 0 0 [] none lo (nOf hi) [fromR b]
  | .cap g b => .mk 28 0 0 [] none g (-1) [fromR b]
  | .look bh ng b => .mk (if ng then 31 else 30) (if bh then 64 else 0) 0 [] none 0 0 [fromR b]
  | .atomic b => .mk 32 0 0 [] none 0 0 [fromR b]
  | .refCond g y n => .mk 33 0 0 [] none g 0 [fromR y, fromR n]
  | .exprCond c y n => .mk 34 0 0 [] none 0 0 [fromR c, fromR y, fromR n]
def fromRs : List RNode → List Node
  | [] => []
  | x :: xs => fromR x :: fromRs xs
end

/-! ## `makeLoopAtomic`, `reduceSet` (reused) -/

/-- `makeLoopAtomic` on a single-character loop (any other node is left alone) -/
def makeLoopAtomic (x : Node) : Node :=
  if isCharLoop x.t then
    match fromR (RewriteDecisions.makeLoopAtomic (toR x)) with
    | .mk t _ ch str set m n ks => .mk t x.o ch str set m n ks
  else x

/-- `reduceSet` -/
def reduceSet (x : Node) : Node :=
  match x.set with
  | none => x.withT ntNothing
  | some c =>
    match RewriteDecisions.reduceCP (.set (clsOf c)) with
    | .one a => .mk (x.t - 2) x.o a x.str none x.m x.n x.kids
    | .notone a => .mk (x.t - 1) x.o a x.str none x.m x.n x.kids
    | .set _ => x

/-! ## `canBeMadeAtomic` -/

/-- the constant classes `canBeMadeAtomic` compares a Setloop's set with in front of a word boundary
    (category ids as in `Model/Parser.lean`: 1 = "W", 2 = "Nd") -/
def wordClassCode : List Nat := [0, 0, 1, 1, 0]
def digitClassCode : List Nat := [0, 0, 1, 2, 0]
def notWordClassCode : List Nat := [1, 0, 1, 1, 0]
def notDigitClassCode : List Nat := [0, 0, 1, 2, 1]
def ecmaWordClassCode : List Nat := [0, 4, 0, 48, 57, 65, 90, 95, 95, 97, 122]
def ecmaDigitClassCode : List Nat := [0, 1, 0, 48, 57]
def notEcmaWordClassCode : List Nat := [0, 5, 0, 0, 47, 58, 64, 91, 94, 96, 96, 123, 1114111]

inductive Verdict where
  | yes | next | no
  deriving DecidableEq, Repr

/-- the three `if … else if …` blocks of `canBeMadeAtomic` after the options test and the alternation case:
    `yes` = `return true`, `next` = `goto end`, `no` = `return false` -/
def verdict (orc : Orc) (n s : Node) (allowLazy : Bool) : Verdict :=
  let st := s.t
  let s0 := s.str.head?
  if n.t == ntOneloop || (n.t == ntOnelazy && allowLazy) then
    if (st == ntOne && n.ch != s.ch) ||
       (st == ntNotone && n.ch == s.ch) ||
       (st == ntSet && !orc.charIn (setCode s) n.ch) ||
       (isOneFamily st && s.m > 0 && n.ch != s.ch) ||
       (isNotoneFamily st && s.m > 0 && n.ch == s.ch) ||
       (isSetFamily st && s.m > 0 && !orc.charIn (setCode s) n.ch) ||
       (st == ntMulti && some n.ch != s0) ||
       (st == ntEnd) ||
       (st == ntEndZ && n.ch != 10) ||
       (st == ntEol && n.ch != 10) then .yes
    else if (isOneloopFamily st && s.m == 0 && n.ch != s.ch) ||
       (isNotoneloopFamily st && s.m == 0 && n.ch == s.ch) ||
       (isSetloopFamily st && s.m == 0 && !orc.charIn (setCode s) n.ch) ||
       (st == ntBoundary && n.m > 0 && orc.isWord n.ch) ||
       (st == ntNonboundary && n.m > 0 && !orc.isWord n.ch) ||
       (st == ntECMABoundary && n.m > 0 && orc.isEcmaWord n.ch) ||
       (st == ntNonECMABoundary && n.m > 0 && !orc.isEcmaWord n.ch) then .next
    else .no
  else if n.t == ntNotoneloop || (n.t == ntNotonelazy && allowLazy) then
    if (st == ntOne && n.ch == s.ch) ||
       (isOneFamily st && s.m > 0 && n.ch == s.ch) ||
       (st == ntMulti && some n.ch == s0) ||
       (st == ntEnd) then .yes
    else if isOneloopFamily st && s.m == 0 && n.ch == s.ch then .next
    else .no
  else if n.t == ntSetloop || (n.t == ntSetlazy && allowLazy) then
    let ns := setCode n
    if (st == ntOne && !orc.charIn ns s.ch) ||
       (st == ntSet && !orc.overlap ns (setCode s)) ||
       (isOneloopFamily st && s.m > 0 && !orc.charIn ns s.ch) ||
       (isSetloopFamily st && s.m > 0 && !orc.overlap ns (setCode s)) ||
       (st == ntMulti && !(match s0 with | some c => orc.charIn ns c | none => true)) ||
       (st == ntEnd) ||
       (st == ntEndZ && !orc.charIn ns 10) ||
       (st == ntEol && !orc.charIn ns 10) then .yes
    else if (isOneloopFamily st && s.m == 0 && !orc.charIn ns s.ch) ||
       (isSetloopFamily st && s.m == 0 && !orc.overlap (setCode s) ns) ||
       (st == ntBoundary && n.m > 0 && (ns == wordClassCode || ns == digitClassCode)) ||
       (st == ntNonboundary && n.m > 0 && (ns == notWordClassCode || ns == notDigitClassCode)) ||
       (st == ntECMABoundary && n.m > 0 && (ns == ecmaWordClassCode || ns == ecmaDigitClassCode)) ||
       (st == ntNonECMABoundary && n.m > 0 && (ns == notEcmaWordClassCode || ns == notDigitClassCode)) then .next
    else .no
  else .no

/-- one step of the `Parent` chain of `subsequent`: the parent's type and the later siblings -/
abbrev Frame := Nat × List Node

/-- "skip the successor down to the closest node that's guaranteed to follow it" -/
def descend : Nat → Node → List Frame → Node × List Frame
  | 0, s, ctx => (s, ctx)
  | f + 1, s, ctx =>
    match s.kids with
    | [] => (s, ctx)
    | k :: rest =>
      if s.t == ntConcatenate || s.t == ntCapture || s.t == ntAtomic ||
         (s.t == ntPosLook && !s.rtl) || ((s.t == ntLoop || s.t == ntLazyloop) && s.m > 0) then
        descend f k ((s.t, rest) :: ctx)
      else (s, ctx)

/-- the walk up at label `end`: `none` = `return false`, `some none` = the root was reached (`return true`),
    `some (some (s, ctx))` = the next node in sequence -/
def walkUp : List Frame → Option (Option (Node × List Frame))
  | [] => some none
  | (t, rights) :: rest =>
    if t == ntAtomic || t == ntAlternate || t == ntCapture then walkUp rest
    else if t == ntConcatenate then
      match rights with
      | [] => walkUp rest
      | r :: rs => some (some (r, (ntConcatenate, rs) :: rest))
    else none

/-- `n.canBeMadeAtomic(subsequent, iterateNullableSubsequent, allowLazy)`; `ctx` = the `Parent` chain of
    `subsequent` (only read when `iterate`) -/
def cbma (orc : Orc) : Nat → Node → Node → List Frame → Bool → Bool → Bool
  | 0, _, _, _, _, _ => false
  | f + 1, n, sub0, ctx0, iterate, allowLazy =>
    let d := descend (f + 1) sub0 ctx0
    let sub := d.1
    let ctx := d.2
    if n.o != sub.o then false
    else if sub.t == ntAlternate || (sub.t == ntExprCond && sub.kids.length == 3) then
      sub.kids.all (fun k => cbma orc f n k ((sub.t, []) :: ctx) iterate false)
    else
      match verdict orc n sub allowLazy with
      | .yes => true
      | .no => false
      | .next =>
        if !iterate then false
        else
          match walkUp ctx with
          | none => false
          | some none => true
          | some (some (s, c)) => cbma orc f n s c iterate allowLazy

/-! ## `FindLastExpressionInLoopForAutoAtomic` -/

def lastOf : List Node → Option Node
  | [] => none
  | [x] => some x
  | _ :: y :: rest => lastOf (y :: rest)

def mapLast (g : Node → Node) : List Node → List Node
  | [] => []
  | [x] => [g x]
  | x :: y :: rest => x :: mapLast g (y :: rest)

/-- apply `g` to the node `FindLastExpressionInLoopForAutoAtomic` returns (the last child of the
    Concatenate under the captures of the loop body), if there is one; `none` = the Go function returns nil -/
def onLoopLast (orc : Orc) (cf : Nat) (g : Node → Node) : Nat → Node → Option Node
  | 0, _ => none
  | f + 1, body =>
    if body.t == ntCapture then
      match body.kids with
      | [k] => (onLoopLast orc cf g f k).map (fun k' => body.withKids [k'])
      | _ => none
    else if body.t == ntConcatenate then
      match body.kids, lastOf body.kids with
      | first :: _, some l =>
        if cbma orc cf l first [] false false then some (body.withKids (mapLast g body.kids)) else none
      | _, _ => none
    else none

/-! ## `reduceRep` -/

/-- `maxLessThanTwiceMin` -/
def maxLessThanTwiceMin (mx mn : Int) : Bool :=
  if mn ≤ maxInt32 / 2 then mx < mn * 2 else mx != maxInt32

/-- the multiplication of the child's bounds by the outer `min`, `max` -/
def mulBounds (u : Node) (mn mx : Int) : Node :=
  let m' := if u.m > 0 then (if (maxInt32 - 1) / u.m < mn then maxInt32 else u.m * mn) else u.m
  let n' := if u.n > 0 then (if (maxInt32 - 1) / u.n < mx then maxInt32 else u.n * mx) else u.n
  u.withMN m' n'

/-- the `for len(u.Children) > 0` loop: the node the repeater has been blurred into -/
def repWalk (t : Nat) (mn mx : Int) : Nat → Node → Node
  | 0, u => u
  | f + 1, u =>
    match u.kids with
    | [] => u
    | child :: _ =>
      let valid :=
        child.t == t ||
        (if t == ntLoop then
           child.t == ntOneloop || child.t == ntOneloopatomic || child.t == ntNotoneloop ||
           child.t == ntNotoneloopatomic || child.t == ntSetloop || child.t == ntSetloopatomic
         else child.t == ntOnelazy || child.t == ntNotonelazy || child.t == ntSetlazy)
      if !valid then u
      else if (u.m == 0 && child.m > 1) || maxLessThanTwiceMin child.n child.m then u
      else repWalk t mn mx f (mulBounds child mn mx)

/-- `reduceRep` -/
def reduceRep (fuel : Nat) (x : Node) : Node :=
  match x.kids with
  | [c] => if c.t == ntEmpty then c else go x
  | _ => go x
where
  go (x : Node) : Node :=
    let u := repWalk x.t x.m x.n fuel x
    if x.m == maxInt32 then bareNode ntNothing x.o
    else
      match u.kids with
      | [child] =>
        if child.t == ntOne || child.t == ntNotone || child.t == ntSet then
          -- `child.makeRep(NtOnelazy | NtOneloop, u.M, u.N)`
          (child.withT (if u.t == ntLazyloop then child.t - 3 else child.t - 6)).withMN u.m u.n
        else u
      | _ => u

/-- `reduceGroup` -/
def reduceGroup : Nat → Node → Node
  | 0, u => u
  | f + 1, u =>
    if u.t == ntGroup then
      match u.kids with
      | k :: _ => reduceGroup f k
      | [] => u
    else u

/-! ## `reduce()` and `eliminateEndingBacktracking` -/

/-- "Remove IgnoreCase option from everything except a Backreference" -/
def stripCi (x : Node) : Node :=
  if x.t == ntRef then x else if x.o % 2 == 1 then x.withO (x.o - 1) else x

/-- the innermost of directly nested Atomic nodes (`for child.T == NtAtomic`) -/
def innerAtomic : Nat → Node → Node
  | 0, a => a
  | f + 1, a =>
    match a.kids with
    | [c] => if c.t == ntAtomic then innerAtomic f c else a
    | _ => a

def isWrappable (t : Nat) : Bool :=
  t == ntAlternate || t == ntBackRefCond || t == ntExprCond || t == ntLoop || t == ntLazyloop

def mapTail (g : Node → Node) : List Node → List Node
  | [] => []
  | x :: xs => x :: xs.map g

mutual
/-- `n.reduce()` for a node whose children are reduced; `pa` = `n.Parent.T == NtAtomic`;
    `on` = `!syntax.VerifDisableRewrites` -/
def reduce (orc : Orc) (on : Bool) : Nat → Bool → Node → Node
  | 0, _, x => x
  | fuel + 1, pa, x0 =>
    let x := stripCi x0
    let red : Bool → RNode → RNode := fun pa' r => toR (reduce orc on fuel pa' (fromR r))
    if x.t == ntAlternate then
      fromR (RewriteDecisions.reduceAlt red true false on pa x.rtl x.o (toRs x.kids))
    else if x.t == ntConcatenate then
      fromR (RewriteDecisions.reduceCat true x.rtl x.o (toRs x.kids))
    else if x.t == ntAtomic then
      let atomic := innerAtomic (fuel + 1) x
      match atomic.kids with
      | [child] =>
        match RewriteDecisions.reduceAtomic red true on x.rtl (.atomic (toR child)) with
        | .atomic c' =>
          let c := fromR c'
          -- (the alternation block returns before the ending walk when the rewrites are off)
          if child.t == ntAlternate && !on then atomic.withKids [c]
          else atomic.withKids [elim orc on fuel true c]
        | r => fromR r
      | _ => x
    else if x.t == ntGroup then reduceGroup (fuel + 1) x
    else if x.t == ntLoop || x.t == ntLazyloop then reduceRep (fuel + 1) x
    else if x.t == ntPosLook || x.t == ntNegLook then
      let x1 := elim orc on fuel pa x
      match x1.kids with
      | [c] =>
        if c.t == ntEmpty then
          .mk (if x1.t == ntPosLook then ntEmpty else ntNothing) x1.o x1.ch x1.str x1.set x1.m x1.n []
        else x1
      | _ => x1
    else if x.t == ntSet || x.t == ntSetloop || x.t == ntSetlazy || x.t == ntSetloopatomic then reduceSet x
    else if x.t == ntExprCond then
      let ks := if x.kids.length == 2 then x.kids ++ [bareNode ntEmpty x.o] else x.kids
      match ks with
      | cond :: rest =>
        let cond1 :=
          if cond.t == ntPosLook && !cond.rtl then
            match cond.kids with
            | [c] => reduce orc on fuel false c
            | _ => cond
          else cond
        x.withKids (elim orc on fuel false cond1 :: rest)
      | [] => x
    else if x.t == ntBackRefCond then
      if x.kids.length == 1 then x.withKids (x.kids ++ [bareNode ntEmpty x.o]) else x
    else x

/-- `node.eliminateEndingBacktracking()`; `pa` = `node.Parent` is an Atomic node.  The walk of the Go loop
    is the recursion; where the Go code wraps the last child in a new Atomic node (`addChild` +
    `ReplaceChild`: two reductions) and goes on from the OLD child, the model goes on from the reduced
    wrapper (the second visit of the same nodes changes nothing). -/
def elim (orc : Orc) (on : Bool) : Nat → Bool → Node → Node
  | 0, _, x => x
  | fuel + 1, pa, x =>
    if !on || x.rtl then x
    else if 3 ≤ x.t && x.t ≤ 8 then makeLoopAtomic x
    else if x.t == ntAtomic || x.t == ntPosLook || x.t == ntNegLook then
      match x.kids with
      | [c] => x.withKids [elim orc on fuel (x.t == ntAtomic) c]
      | _ => x
    else if x.t == ntCapture || x.t == ntConcatenate then
      x.withKids (mapLast (fun existing =>
        if isWrappable existing.t && !pa then
          let inner := reduce orc on fuel true existing
          let wrapped := reduce orc on fuel false (.mk ntAtomic existing.o 0 [] none 0 0 [inner])
          elim orc on fuel false wrapped
        else elim orc on fuel false existing) x.kids)
    else if x.t == ntAlternate || x.t == ntBackRefCond then
      x.withKids (x.kids.map (fun k => elim orc on fuel false k))
    else if x.t == ntExprCond then
      x.withKids (mapTail (fun k => elim orc on fuel false k) x.kids)
    else if x.t == ntLoop || x.t == ntLazyloop then
      let x1 := if x.t == ntLazyloop then x.withMN x.m x.m else x
      match x1.kids with
      | [body] =>
        if x1.n == 1 then x1.withKids [elim orc on fuel false body]
        else
          match onLoopLast orc (fuel + 1) (fun l => elim orc on fuel false l) (fuel + 1) body with
          | some body' => x1.withKids [body']
          | none => x1
      | _ => x1
    else x
end

/-! ## `finalOptimize` -/

/-- `node.processNode(subsequent)`; `ctx` = the `Parent` chain of `subsequent` -/
def processNode (orc : Orc) (cf : Nat) (sub : Node) (ctx : List Frame) : Nat → Node → Node
  | 0, x => x
  | f + 1, x =>
    if x.t == ntCapture || x.t == ntConcatenate then x.withKids (mapLast (fun k => processNode orc cf sub ctx f k) x.kids)
    else
      let viaLoop : Option Node :=
        if x.t == ntLoop then
          match x.kids with
          | [body] => (onLoopLast orc cf (fun l => processNode orc cf sub ctx f l) cf body).map (fun b => x.withKids [b])
          | _ => none
        else none
      match viaLoop with
      | some r => r
      | none =>
        if x.t == ntOneloop || x.t == ntNotoneloop || x.t == ntSetloop then
          if cbma orc cf x sub ctx true false then makeLoopAtomic x else x
        else if x.t == ntOnelazy || x.t == ntNotonelazy || x.t == ntSetlazy then
          if cbma orc cf x sub ctx false true then makeLoopAtomic (x.withT (x.t - 3)) else x
        else if x.t == ntAlternate || x.t == ntBackRefCond then
          x.withKids (x.kids.map (fun k => processNode orc cf sub ctx f k))
        else if x.t == ntExprCond then
          x.withKids (mapTail (fun k => processNode orc cf sub ctx f k) x.kids)
        else x

/-- the pairs loop of `findAndMakeLoopsAtomic` over the children of a Concatenate -/
def processPairs (orc : Orc) (cf : Nat) (ctx : List Frame) : List Node → List Node
  | [] => []
  | [x] => [x]
  | x :: y :: rest =>
    processNode orc cf y ((ntConcatenate, rest) :: ctx) cf x :: processPairs orc cf ctx (y :: rest)

mutual
/-- `n.findAndMakeLoopsAtomic()`; `ctx` = the `Parent` chain of `n`.  (What `canBeMadeAtomic` reads of a
    node — family, `M`, `Ch`, `Set`, `Str` — is not changed by making a loop atomic, so the later siblings
    are taken as they were.) -/
def faml (orc : Orc) (cf : Nat) : Nat → List Frame → Node → Node
  | 0, _, x => x
  | f + 1, ctx, x =>
    if x.rtl then x
    else
      let ks := famlKids orc cf f ctx x.t x.kids
      if x.t == ntConcatenate then x.withKids (processPairs orc cf ctx ks) else x.withKids ks
def famlKids (orc : Orc) (cf : Nat) : Nat → List Frame → Nat → List Node → List Node
  | 0, _, _, ks => ks
  | _ + 1, _, _, [] => []
  | f + 1, ctx, t, k :: rest => faml orc cf f ((t, rest) :: ctx) k :: famlKids orc cf f ctx t rest
end

/-- `Node → RNode` along the path the marker walk follows (Atomic nodes, first children of Concatenates) -/
def toRSpine : Nat → Node → RNode
  | 0, x => toR x
  | f + 1, x =>
    if x.t == ntAtomic then
      match x.kids with
      | [c] => .atomic (toRSpine f c)
      | _ => toR x
    else if x.t == ntConcatenate then
      match x.kids with
      | c :: cs => .cat x.o (toRSpine f c :: toRs cs)
      | [] => toR x
    else toR x

/-- the `UpdateBumpalong` placement of `finalOptimize` (reused: `RewriteDecisions.placeBump`) -/
def placeBump (fuel : Nat) (x : Node) : Node :=
  fromR (RewriteDecisions.placeBump false true (toRSpine fuel x))

/-- `root.finalOptimize()` -/
def finalOptimize (orc : Orc) (on : Bool) (fuel : Nat) (root : Node) : Node :=
  if root.rtl || !on then root
  else
    let r1 := faml orc fuel fuel [] root
    let r2 := elim orc on fuel false r1
    match r2.kids with
    | c :: rest => r2.withKids (placeBump fuel c :: rest)
    | [] => r2

/-! ## The bottom-up pass -/

mutual
def nodeSize : Node → Nat
  | .mk _ _ _ str _ _ _ kids => 1 + str.length + nodeSizes kids
def nodeSizes : List Node → Nat
  | [] => 0
  | x :: xs => nodeSize x + nodeSizes xs
end

mutual
/-- `walk` of `syntax.VerifReduce`: the children first, each reduced when it is added to its parent -/
def reduceKids (orc : Orc) (on : Bool) (fuel : Nat) : Node → Node
  | .mk t o ch str set m n kids =>
    .mk t o ch str set m n (reduceList orc on fuel (t == ntAtomic) kids)
def reduceList (orc : Orc) (on : Bool) (fuel : Nat) (pa : Bool) : List Node → List Node
  | [] => []
  | k :: ks => reduce orc on fuel pa (reduceKids orc on fuel k) :: reduceList orc on fuel pa ks
end

def fuelFor (x : Node) : Nat := 6 * nodeSize x + 64

/-- the reduced tree as a `Node`: every child reduced as it is added, the root not reduced, `finalOptimize` -/
def reduceRoot (orc : Orc) (on : Bool) (root : Node) : Node :=
  let fuel := fuelFor root
  finalOptimize orc on fuel (reduceKids orc on fuel root)

/-! ## Well-formedness of a `Node` tree (what `emitFragment` accepts) -/

mutual
/-- known node types with the child counts the writer expects, everywhere in the tree -/
def okN : Node → Bool
  | .mk t _ _ _ _ _ _ kids => shapeOk t kids.length && okNs kids
def okNs : List Node → Bool
  | [] => true
  | x :: xs => okN x && okNs xs
end

mutual
/-- the shape of a RAW tree: as `okN`, but a Concatenate / Alternate may be childless (`(?:)`, `()`: the
    parser's empty Concatenate, which `reduceConcatenation` turns into Empty) -/
def okRaw : Node → Bool
  | .mk t _ _ _ _ _ _ kids => (shapeOk t kids.length || ((t == 24 || t == 25) && kids.length == 0)) && okRaws kids
def okRaws : List Node → Bool
  | [] => true
  | x :: xs => okRaw x && okRaws xs
end

/-- a raw tree the reducer accepts: `okRaw` everywhere, and the root itself has its children -/
def okRawTree (root : Node) : Bool := okRaw root && shapeOk root.t root.kids.length

/-! ## To the writer's tree -/

/-- what the writer reads of a node whose children have been converted (as leg Wr serialises `RegexNode`);
    a set travels as its structural code -/
def goOf (t o ch : Nat) (str : List Nat) (set : Option Class.Class) (m n : Int) (gs : List Writer.GoNode) :
    Writer.GoNode :=
  let rtl := o / 64 % 2 == 1
  let ci := o % 2 == 1
  let code := match set with | some c => encodeSet c | none => []
  if t == 25 then .concat gs
  else if t == 24 then .alt gs
  else
    match gs with
    | [] =>
      if t == 23 then .empty
      else if t == 22 || (14 ≤ t && t ≤ 21) || t == 41 || t == 42 || t == 46 then .bare t
      else if t == 9 || t == 10 then .char t rtl ci ch
      else if t == 11 then .set rtl ci code
      else if t == 12 then .multi rtl ci str
      else if t == 13 then .ref rtl ci m
      else if t == 3 || t == 4 || t == 6 || t == 7 || t == 43 || t == 44 then .charloop t rtl ci ch m n
      else if t == 5 || t == 8 || t == 45 then .setloop t rtl ci code m n
      else .other t
    | [k] =>
      if t == 26 then .loop false m n k
      else if t == 27 then .loop true m n k
      else if t == 28 then .capture m n k
      else if t == 29 then .group k
      else if t == 30 then .poslook k
      else if t == 31 then .neglook k
      else if t == 32 then .atomic k
      else if t == 33 then .backrefcond1 m k
      else .other t
    | [k, k2] =>
      if t == 33 then .backrefcond2 m k k2
      else if t == 34 then .exprcond2 k k2
      else .other t
    | [k, k2, k3] => if t == 34 then .exprcond3 k k2 k3 else .other t
    | _ => .other t

mutual
def toGo : Node → Writer.GoNode
  | .mk t o ch str set m n kids => goOf t o ch str set m n (toGos kids)
def toGos : List Node → List Writer.GoNode
  | [] => []
  | x :: xs => toGo x :: toGos xs
end

/-- **the reducer**: the parser's raw tree ↦ the tree the writer sees -/
def reduceTree (orc : Orc) (on : Bool) (t : Parser.RawTree) : Writer.GoNode :=
  toGo (reduceRoot orc on (ofRaw t.root))

/-- what `codeFromTree` reads of the `RegexTree` besides the root.  (`Caps` values before `Write` are
    pattern positions that `Write` overwrites for every key of `Capnumlist`; `Capnumlist` lists every key.) -/
def treeInfo (rtl : Bool) (t : Parser.RawTree) : Writer.TreeInfo :=
  { captop := ((t.tables.captop : Nat) : Int),
    capnumlist := t.tables.capnumlist.map (fun l => l.map (fun (k : Nat) => (k : Int))),
    caps := (Groups.isort t.tables.caps).map (fun (k : Nat) => ((k : Int), (0 : Int))),
    rtl := rtl }

/-! ## The compiler -/

inductive CompileErr where
  /-- the parser's `ErrorCode` -/
  | parse (c : Parser.ErrCode)
  /-- a Go panic of the parser made explicit (unreachable: leg Pr, `Props.C10`) -/
  | fault (f : Parser.Fault)
  /-- parser fuel (unreachable) -/
  | fuel
  /-- `emitFragment` reports "unexpected opcode" (unreachable for reduced trees: `reduceTree_wf`) -/
  | write
  deriving Repr

/-- the stages of the compiler, kept for the stage-by-stage comparison of leg Pl -/
structure Compiled where
  raw : Parser.RawTree
  tree : Writer.GoNode
  info : Writer.TreeInfo
  written : Writer.Written

/-- `regexp2.Compile` up to the program: `syntax.Parse` (= `reduceTree ∘ parse`) then `syntax.Write` -/
def compileStages (orc : Orc) (on : Bool) (E : Parser.Env) : Except CompileErr Compiled :=
  match Parser.parse E with
  | .ok t =>
    let tree := reduceTree orc on t
    let info := treeInfo E.opts.r t
    match Writer.write info tree with
    | some w => .ok { raw := t, tree := tree, info := info, written := w }
    | none => .error .write
  | .error c => .error (.parse c)
  | .fault f => .error (.fault f)
  | .fuel => .error .fuel

/-- **the compiler**: pattern text ↦ program (`emit ∘ reduceTree ∘ parse`) -/
def compilePattern (orc : Orc) (E : Parser.Env) : Except CompileErr Code.Prog :=
  (compileStages orc true E).map (fun c => c.written.prog)

/-- the bool-only program (`emitQuick ∘ reduceTree ∘ parse`; `none` = `QuickCodes == nil`) -/
def compilePatternQuick (orc : Orc) (E : Parser.Env) : Except CompileErr (Option Code.Prog) :=
  (compileStages orc true E).map (fun c => Writer.emitQuick c.info c.tree)

end RegexVerif.Reduce
