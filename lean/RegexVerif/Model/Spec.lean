/-
M1 — the specification semantics: leftmost, priority-ordered backtracking search over a pattern
AST, as the *ordered list of successes* of every sub-pattern (DESIGN.md Appendix A).

`Spec.m env p rtl st` is the list of all ways `p` can match starting in state `st`, highest
priority first.  A find call returns the head of that list at the first position in scan order
where it is non-empty.  Both directions are one definition: `rtl = true` consumes leftwards and
evaluates concatenations last-to-first; lookahead resets the direction to left-to-right, lookbehind
sets it to right-to-left.

Unicode knowledge is not re-implemented: named classes (`\w`, `\d`, `\s`, …), the word-character
test of `\b` and simple case partners come in as oracle rows supplied by the harness from Go's
standard `unicode` package.
-/
namespace RegexVerif.Spec

/-- oracle tables and the input -/
structure Env where
  text : List Nat
  textstart : Nat
  /-- rows `(classId, rune)` of named-class membership -/
  named : List (Nat × Nat)
  /-- runes that are word characters for `\b` -/
  word : List Nat
  /-- simple case partners `(r, partner)` (both directions listed) -/
  fold : List (Nat × Nat)
  deriving Inhabited

def Env.n (e : Env) : Nat := e.text.length

def Env.partner (e : Env) (r : Nat) : Option Nat := (e.fold.find? (fun p => p.1 == r)).map (·.2)

/-- equality up to simple case folding -/
def Env.eqCi (e : Env) (a b : Nat) : Bool := a == b || e.partner a == some b

def Env.isWord (e : Env) (r : Nat) : Bool := e.word.contains r

/-- A character class: ranges and named classes (each possibly negated), a negation flag, and
    subtraction as a binary constructor (no nested container types). -/
inductive Cls where
  | base (neg : Bool) (ranges : List (Nat × Nat)) (names : List (Nat × Bool))
  | diff (a b : Cls)
  deriving Inhabited, Repr

def inRanges (rs : List (Nat × Nat)) (r : Nat) : Bool := rs.any (fun p => p.1 ≤ r && r ≤ p.2)

def inNames (e : Env) (ns : List (Nat × Bool)) (r : Nat) : Bool :=
  ns.any (fun p => e.named.contains (p.1, r) != p.2)

/-- set algebra membership; under `ci` a rune is in the positive part when it or its case partner is -/
def Cls.mem (e : Env) (ci : Bool) : Cls → Nat → Bool
  | .base neg rs ns, r =>
    let pos := inRanges rs r || inNames e ns r ||
      (ci && match e.partner r with
             | some q => inRanges rs q || inNames e ns q
             | none => false)
    pos != neg
  | .diff a b, r => a.mem e ci r && !(b.mem e ci r)

/-- single-character predicates -/
inductive Pred where
  | one (c : Nat) (ci : Bool)
  | notone (c : Nat) (ci : Bool)
  | set (c : Cls) (ci : Bool)
  deriving Inhabited, Repr

def Pred.test (e : Env) : Pred → Nat → Bool
  | .one c ci, r => if ci then e.eqCi c r else c == r
  | .notone c ci, r => !(if ci then e.eqCi c r else c == r)
  | .set c ci, r => c.mem e ci r

/-- `begz` ("at the beginning, or after an initial '\n'") is the mirror image of `endz`; it is
    specification-only (no Go pattern produces it) and exists so that the mirror theorem of C15
    (`Lemmas/SpecMirror.lean`) covers `\Z`. -/
inductive Anchor where
  | bol | eol | boundary | nonboundary | beginning | start | endz | «end» | begz
  deriving Inhabited, Repr, DecidableEq

/-- The pattern AST (binary sequence and alternation; the n-ary forms are their right nesting). -/
inductive Pat where
  | empty
  | nothing
  | chr (p : Pred)
  | anchor (a : Anchor)
  | seq (a b : Pat)
  | alt (a b : Pat)
  | quant (lzy : Bool) (lo : Nat) (hi : Option Nat) (body : Pat)
  | cap (g : Nat) (body : Pat)
  | look (behind neg : Bool) (body : Pat)
  | atomic (body : Pat)
  | ref (g : Nat) (ci : Bool)
  | refCond (g : Nat) (yes no : Pat)
  | exprCond (c yes no : Pat)
  deriving Inhabited, Repr

/-- matcher state: position and the chronological log of captures `(group, start, length)` -/
structure St where
  pos : Nat
  caps : List (Nat × Nat × Nat)
  deriving Inhabited, Repr, DecidableEq

def lastCap (caps : List (Nat × Nat × Nat)) (g : Nat) : Option (Nat × Nat) :=
  (caps.reverse.find? (fun c => c.1 == g)).map (·.2)

def hasCap (caps : List (Nat × Nat × Nat)) (g : Nat) : Bool := caps.any (fun c => c.1 == g)

/-- the rune consumed when stepping from `pos` in direction `rtl`, with the new position -/
def stepChar (e : Env) (rtl : Bool) (pos : Nat) : Option (Nat × Nat) :=
  if rtl then
    if pos = 0 then none else (e.text[pos - 1]?).map (fun r => (r, pos - 1))
  else (e.text[pos]?).map (fun r => (r, pos + 1))

def anchorHolds (e : Env) (a : Anchor) (p : Nat) : Bool :=
  let n := e.n
  let before : Option Nat := if p = 0 then none else e.text[p - 1]?
  let after : Option Nat := e.text[p]?
  match a with
  | .bol => p == 0 || before == some 10
  | .eol => p == n || after == some 10
  | .beginning => p == 0
  | .start => p == e.textstart
  | .end => p == n
  | .endz => p == n || (p + 1 == n && after == some 10)
  | .begz => p == 0 || (p == 1 && before == some 10)
  | .boundary => (before.map e.isWord).getD false != (after.map e.isWord).getD false
  | .nonboundary => (before.map e.isWord).getD false == (after.map e.isWord).getD false

/-- the `len` runes at `s` equal the `len` runes at `t` (through simple case folding when `ci`);
    false when either slice leaves the text -/
def sliceEq (e : Env) (ci : Bool) (s t len : Nat) : Bool :=
  let a := (e.text.drop s).take len
  let b := (e.text.drop t).take len
  a.length == len && b.length == len && (List.zipWith (fun x y => if ci then e.eqCi x y else x == y) a b).all id

/-- compare `len` runes of the text starting at `s` with the runes at `pos` in direction `rtl` -/
def refMatch (e : Env) (ci rtl : Bool) (s len pos : Nat) : Option Nat :=
  if rtl then
    if pos < len then none
    else if sliceEq e ci s (pos - len) len then some (pos - len) else none
  else if sliceEq e ci s pos len then some (pos + len) else none

def canGo (hi : Option Nat) (cnt : Nat) : Bool :=
  match hi with
  | none => true
  | some h => cnt < h

/-- iteration of a quantified body `f` (its list-of-successes function): `cnt` iterations done.
    An iteration that does not move the position ends the loop (the interpreter's empty-iteration
    rule); in the property's fragment bodies always consume, so this branch is never taken there. -/
def iter (f : St → List St) (lzy : Bool) (lo : Nat) (hi : Option Nat) : Nat → Nat → St → List St
  | 0, cnt, st => if lo ≤ cnt then [st] else []
  | fuel + 1, cnt, st =>
    let stop := if lo ≤ cnt then [st] else []
    let more :=
      if canGo hi cnt then
        (f st).flatMap (fun st' =>
          if st'.pos == st.pos && lo ≤ cnt + 1 then [st'] else iter f lzy lo hi fuel (cnt + 1) st')
      else []
    if lzy then stop ++ more else more ++ stop

/-- **the specification**: all successes of `p` from `st`, highest priority first -/
def m (e : Env) : Pat → Bool → St → List St
  | .empty, _, st => [st]
  | .nothing, _, _ => []
  | .chr p, rtl, st =>
    match stepChar e rtl st.pos with
    | some (r, pos') => if p.test e r then [{ st with pos := pos' }] else []
    | none => []
  | .anchor a, _, st => if anchorHolds e a st.pos then [st] else []
  | .seq a b, rtl, st =>
    if rtl then (m e b rtl st).flatMap (m e a rtl) else (m e a rtl st).flatMap (m e b rtl)
  | .alt a b, rtl, st => m e a rtl st ++ m e b rtl st
  | .quant lzy lo hi body, rtl, st => iter (m e body rtl) lzy lo hi (e.n + lo + 1) 0 st
  | .cap g body, rtl, st =>
    (m e body rtl st).map (fun st' =>
      { st' with caps := st'.caps ++ [(g, min st.pos st'.pos, max st.pos st'.pos - min st.pos st'.pos)] })
  | .look behind neg body, _, st =>
    match m e body behind st with
    | [] => if neg then [st] else []
    | st' :: _ => if neg then [] else [{ pos := st.pos, caps := st'.caps }]
  | .atomic body, rtl, st => (m e body rtl st).take 1
  | .ref g ci, rtl, st =>
    match lastCap st.caps g with
    | none => []
    | some (s, len) =>
      match refMatch e ci rtl s len st.pos with
      | some pos' => [{ st with pos := pos' }]
      | none => []
  | .refCond g yes no, rtl, st => if hasCap st.caps g then m e yes rtl st else m e no rtl st
  | .exprCond c yes no, rtl, st =>
    match m e c rtl st with
    | st' :: _ => m e yes rtl { pos := st.pos, caps := st'.caps }
    | [] => m e no rtl st

/-- one attempt at position `i`: the highest-priority success of the whole pattern (group 0 wraps it) -/
def attempt (e : Env) (p : Pat) (rtl : Bool) (i : Nat) : Option St :=
  (m e (.cap 0 p) rtl { pos := i, caps := [] }).head?

/-- attempt positions in scan order from `start` -/
def scanOrder (rtl : Bool) (start n : Nat) : List Nat :=
  if rtl then (List.range (start + 1)).reverse else (List.range (n + 1)).drop start

/-- **find**: the attempt at the first position in scan order at which one succeeds -/
def find (e : Env) (p : Pat) (rtl : Bool) (start : Nat) : Option St :=
  (scanOrder rtl start e.n).findSome? (attempt e p rtl)

end RegexVerif.Spec
