/-
The instance of the interleaving semantics (`Model/Interleave.lean`, `Sem`) whose runner, buffer and
cache are the C12 models:

* runner      = `RunnerReuse.Runner` (plus the `err` return value of `scan`, a call-local variable);
                `freshR` = `Runner.fresh`, `putR` = `RunnerReuse.put`,
                `startR` = program selection (`selectQuick`) + `scanInit`, `obs` = `observe`;
* buffer      = `Pool.Buf`; `freshB` = what `Pool.get` returns on empty pools, `fits` = the buffer sits in
                the class `poolIndex` selects and is large enough, `decodeB` = `Pool.decode` into the slice
                `(*bufp)[:needed]`, `visB` = `Buf.visible`, `putB` = the length reset of `Pool.put`;
* cache       = `LRU.Cache` (already fixed by `Interleave.Shared`).

`RunnerReuse` does not contain an interpreter (C12 treats it as an arbitrary function of `observe`).
Here `stepR` is an interpreter *over the operations that model does define*, executed on the concrete
runner with its stale array cells, dead stack cells, left-over scratch fields and grown capacities:
the Match builder (`addMatch`, `removeMatch`, `balanceMatch`, the reads `isMatched` / `matchIndex` /
`matchLength`, all through `rdAny`, i.e. whatever the Go array holds), `goTo(0)` with `ensureStorage`
on the real backtracking stack, and the text position.  Which operation is executed next is decided by
the call's control function `ctl` from the text and the observable state, and -- for the `read`
primitive -- from the three values read out of the concrete arrays.  `finishR` is the compaction of
`tidy` followed by the view a finished match exposes.
-/
import RegexVerif.Model.Interleave
import RegexVerif.Model.RunnerReuse
import RegexVerif.Model.Pool

namespace RegexVerif.RunnerSem
open RegexVerif RegexVerif.Interleave RegexVerif.RunnerReuse

/-- non-branching interpreter actions -/
inductive Act where
  | nop
  | setpos (p : Int)                          -- `r.runtextpos = p`
  | capture (c : Nat) (start len : Nat)       -- `Capture` / `transferCapture`: `addMatch(c, start, len)`, both ≥ 0
  | uncapture (c : Nat)                       -- `removeMatch(c)`
  | balance (c : Nat)                         -- `balanceMatch(c)` (reads cells of `matches[c]`)
  | enter (op0 : Int) (rtl ci : Bool)         -- `goTo(0)` of `executeDefault`: `ensureStorage`, scratch fields
  deriving Repr

/-- one interpreter step: an action, or the three reads of capture slot `c` followed by an action that
    may depend on what was read (`isMatched`, `matchIndex`, `matchLength`; `none` = index out of range) -/
inductive Prim where
  | act (a : Act)
  | read (c : Nat) (k : Option Bool → Option Int → Option Int → Act)

/-- arguments of one call -/
structure CallArgs where
  quick : Bool                 -- a bool-only entry point: selects `re.quickCode`
  rt : Nat                     -- identity of the input slice
  textInfo : Option Nat
  textstart : Int
  timeout : Int
  noTimeout : Bool
  newDeadline : Int            -- what `makeDeadline` returns for this call (the clock is outside this model)
  runes : List Int             -- the decoded input
  needed : Nat                 -- `len(s)`: the buffer size asked for
  hn : runes.length ≤ needed   -- a string has at most as many runes as bytes
  maxPool : Int                -- `MaxPooledInputBufferSize`
  ctl : List Int → Obs → Prim  -- the program: next primitive from the text and the observable state

/-- the runner together with `scan`'s error return -/
structure RunSt where
  r : Runner
  err : Bool
  deriving Repr

def scanArgs (a : CallArgs) (t : List Int) : ScanArgs :=
  { rt := a.rt, rtLen := t.length, textInfo := a.textInfo, textstart := a.textstart, timeout := a.timeout,
    noTimeout := a.noTimeout, newDeadline := a.newDeadline }

/-- a builder operation on the runner's result object; `none` = nil dereference or the operation failed -/
def withMatch (r : Runner) (f : Builder → Option Builder) : Option Runner :=
  match r.runmatch with
  | none => none
  | some m => (f m).map (fun m' => { r with runmatch := some m' })

/-- `ensureStorage` (track half) on the real stack: `growTrack` allocates `newLen` cells and copies the
    old array to the end -/
def ensure (re : Re) (r : Runner) : Option Runner :=
  match ensureTrack re.stackLimit r.runtrackcount (r.runtrackcount * 4) r.runtrack.length r.runtrackpos with
  | none => none
  | some (len', pos') =>
    some { r with runtrack := List.replicate (len' - r.runtrack.length) 0 ++ r.runtrack, runtrackpos := pos' }

def execAct (re : Re) : Act → Runner → Option Runner
  | .nop, r => some r
  | .setpos p, r => some { r with runtextpos := p }
  | .capture c s l, r => withMatch r (fun m => m.addMatch c s l)
  | .uncapture c, r => withMatch r (fun m => m.removeMatch c)
  | .balance c, r => withMatch r (fun m => m.balanceMatch c)
  | .enter op0 rtl ci, r =>
    let g := goToZero op0 rtl ci r
    if g.1 then ensure re g.2 else some g.2

/-- the three reads of slot `c`, on the array as it is -/
def readSlot (r : Runner) (c : Nat) : Option Bool × Option Int × Option Int :=
  match r.runmatch.bind (fun m => m.slots[c]?) with
  | none => (some false, none, none)          -- `isMatched`: `cap < len(matchcount) && …`
  | some s => (s.isMatchedWith rdAny, s.matchIndexWith rdAny, s.matchLengthWith rdAny)

def resolve (p : Prim) (rd : Nat → Option Bool × Option Int × Option Int) : Act :=
  match p with
  | .act a => a
  | .read c k => let v := rd c; k v.1 v.2.1 v.2.2

/-- one more piece of `scan` -/
def stepSt (re : Re) (a : CallArgs) (t : List Int) (s : RunSt) : RunSt :=
  if s.err then s
  else
    match execAct re (resolve (a.ctl t (observe s.r)) (readSlot s.r)) s.r with
    | some r' => { r := r', err := false }
    | none => { s with err := true }

/-- what the caller gets: the error flag, the groups after `tidy`'s compaction (`none` = it indexed
    out of range, or there is no result object), the final text position, the parsed replacement -/
structure Res (ν : Type) where
  err : Bool
  groups : Option (List (Nat × List Int))
  textpos : Int
  repl : Option ν
  deriving DecidableEq, Repr

def finishSt {ν : Type} (d : Option ν) (s : RunSt) : Res ν :=
  { err := s.err, groups := (s.r.runmatch.bind Builder.compact).map Builder.view, textpos := s.r.runtextpos, repl := d }

/-- `decodeString` into `(*bufp)[:needed]` -/
def decodeBuf (a : CallArgs) (b : Pool.Buf) : Pool.Buf :=
  match Pool.decode { b with len := a.needed } a.runes with
  | some b' => b'
  | none => b

/-- the buffer sits in the `sync.Pool` of the class `poolIndex` selects for this call, and `get` keeps it -/
def fitsBuf (sizes : List Nat) (a : CallArgs) (b : Pool.Buf) : Bool :=
  match Pool.poolIndex sizes a.needed a.maxPool with
  | none => false
  | some idx => decide (b.cap = sizes.getD idx 0) && decide (b.cap ≥ a.needed)

/-- **the C12 models as an instance of the interleaving semantics** (one shared Regexp `re`, the pool
    classes `sizes`, the replacement parser `parse`) -/
def runnerSem {κ ν : Type} (re : Re) (sizes : List Nat) (parse : κ → Option ν) :
    Sem RunSt Pool.Buf (Obs × Bool) CallArgs (Res ν) κ ν where
  freshR := { r := Runner.fresh, err := false }
  startR := fun a t s =>
    { r := scanInit re (scanArgs a t) (if a.quick then selectQuick re s.r else s.r), err := false }
  stepR := stepSt re
  finishR := fun _ d s => finishSt d s
  putR := fun s => { s with r := put s.r }
  obs := fun s => (observe s.r, s.err)
  freshB := fun a => (Pool.get (Pool.Pools.new sizes) a.needed a.maxPool none).buf
  fits := fitsBuf sizes
  decodeB := decodeBuf
  visB := Pool.Buf.visible
  putB := fun b => { b with len := 0 }
  parse := parse

end RegexVerif.RunnerSem
