/-
C01 stage 3 — the pieces of the compiler-correctness statement "the interpreter model (Model/VM.lean)
running the writer model's program (Model/Writer.lean) computes the specification (Model/Spec.lean)".

 * `toPat`: the Lean port of `gen.FromGoTree` (harness/internal/gen/gotree.go): a reduced Go tree, as
   the writer reads it (`Writer.GoNode`), to the specification's pattern AST.  Leg Cc compares its
   result with the S-expression `FromGoTree` builds, for every explored tree.
 * `readSet`: the reading of a set payload (`CharSet.Hash()` bytes followed by the raw range endpoints,
   as leg Wr sends a set) as a specification class.  The theorems are stated for an arbitrary reader
   `rd`; `readSet` is the one the leg uses.
 * `tier` / `InFrag`: the decidable fragments of trees the theorems `compile_correct_T<k>` cover.
 * `Reach`, `CapRep`, `Entry`, `FailAt`, `Framed`, `Delivers`: the vocabulary of the simulation proof
   (Lemmas/Compile*.lean).
-/
import RegexVerif.Model.Spec
import RegexVerif.Model.Writer
import RegexVerif.Model.VM

namespace RegexVerif.Compile
open RegexVerif.Writer RegexVerif.Spec RegexVerif.Generated.Opcodes RegexVerif.Code

/-! ## reading a set payload -/

/-- one level of a `CharSet` (the set itself, its subtracted set, …) as `mapHashFill` writes it -/
structure Level where
  neg : Bool
  nr : Nat
  cats : List (List Nat × Bool)
  deriving Repr, Inhabited

def le32 (a b c d : Nat) : Nat := a + 256 * b + 65536 * c + 16777216 * d

/-- bytes of the UTF-8 sequence that starts with byte `b` -/
def runeWidth (b : Nat) : Nat := if b < 128 then 1 else if b < 224 then 2 else if b < 240 then 3 else 4

def skipRunes : Nat → List Nat → Option (List Nat)
  | 0, l => some l
  | _ + 1, [] => none
  | k + 1, b :: rest =>
    if runeWidth b - 1 ≤ rest.length then skipRunes k (rest.drop (runeWidth b - 1)) else none

/-- `int8(±len(cat))` followed by the name -/
def readCats : Nat → List Nat → Option (List (List Nat × Bool) × List Nat)
  | 0, l => some ([], l)
  | _ + 1, [] => none
  | k + 1, L :: rest =>
    let neg := decide (L ≥ 128)
    let len := if neg then 256 - L else L
    if len ≤ rest.length then
      (readCats k (rest.drop len)).map (fun r => ((rest.take len, neg) :: r.1, r.2))
    else none

/-- the separator leg Wr puts in front of every raw range section (not a byte, not a rune) -/
def marker : Nat := 2097152

/-- the hash part: flag byte, two little-endian int32 counts, the ranges (skipped: the raw sections carry
    them), the categories, then the subtracted set if the hash goes on -/
def readLevels : Nat → List Nat → Option (List Level × List Nat)
  | 0, _ => none
  | fuel + 1, b0 :: a :: b :: c :: d :: e :: f :: g :: h :: rest =>
    match skipRunes (2 * le32 a b c d) rest with
    | none => none
    | some r1 =>
      match readCats (le32 e f g h) r1 with
      | none => none
      | some (cats, r2) =>
        let lv : Level := ⟨b0 % 2 == 1, le32 a b c d, cats⟩
        match r2 with
        | [] => some ([lv], [])
        | x :: _ =>
          if x == marker then some ([lv], r2)
          else (readLevels fuel r2).map (fun r => (lv :: r.1, r.2))
  | _ + 1, _ => none

def pairUp : List Nat → List (Nat × Nat)
  | a :: b :: rest => (a, b) :: pairUp rest
  | _ => []

def readRaw : List Level → List Nat → Option (List (Level × List (Nat × Nat)))
  | [], [] => some []
  | [], _ :: _ => none
  | _ :: _, [] => none
  | lv :: lvs, x :: rest =>
    if x == marker && decide (2 * lv.nr ≤ rest.length) then
      (readRaw lvs (rest.drop (2 * lv.nr))).map (fun r => (lv, pairUp (rest.take (2 * lv.nr))) :: r)
    else none

/-- the levels of a payload with their ranges -/
def readPayload (s : List Nat) : Option (List (Level × List (Nat × Nat))) :=
  match readLevels (s.length + 1) s with
  | none => none
  | some (lvs, rest) => readRaw lvs rest

/-- named-class id of a category name: `100 +` its index in the table of names of the tree
    (`GoTree.nameID`: ids are handed out in order of first use) -/
def catId (names : List (List Nat)) (nm : List Nat) : Option Nat :=
  let i := names.idxOf nm
  if i < names.length then some (100 + i) else none

def catIds (names : List (List Nat)) : List (List Nat × Bool) → Option (List (Nat × Bool))
  | [] => some []
  | (nm, neg) :: rest =>
    match catId names nm, catIds names rest with
    | some i, some r => some ((i, neg) :: r)
    | _, _ => none

/-- `GoTree.cls` -/
def clsOf (names : List (List Nat)) : List (Level × List (Nat × Nat)) → Option Cls
  | [] => none
  | (lv, rs) :: more =>
    match catIds names lv.cats with
    | none => none
    | some ns =>
      match more with
      | [] => some (.base lv.neg rs ns)
      | _ :: _ => (clsOf names more).map (fun sub => .diff (.base lv.neg rs ns) sub)

/-- the specification's reading of a set payload, given the table of category names of the tree -/
def readSet (names : List (List Nat)) (s : List Nat) : Option Cls :=
  (readPayload s).bind (clsOf names)

/-- the category names a payload mentions, in the order `GoTree.cls` meets them -/
def payloadCats (s : List Nat) : List (List Nat) :=
  match readPayload s with
  | none => []
  | some lvs => lvs.flatMap (fun l => l.1.cats.map (·.1))

mutual
/-- the set payloads of a tree in the order `GoTree.node` visits them -/
def setsOf : GoNode → List (List Nat)
  | .set _ _ s => [s]
  | .setloop _ _ _ s _ _ => [s]
  | .concat cs => setsOfList cs
  | .alt cs => setsOfList cs
  | .loop _ _ _ c => setsOf c
  | .capture _ _ c => setsOf c
  | .group c => setsOf c
  | .poslook c => setsOf c
  | .neglook c => setsOf c
  | .atomic c => setsOf c
  | .backrefcond1 _ y => setsOf y
  | .backrefcond2 _ y n => setsOf y ++ setsOf n
  | .exprcond2 c y => setsOf c ++ setsOf y
  | .exprcond3 c y n => setsOf c ++ setsOf y ++ setsOf n
  | _ => []
def setsOfList : List GoNode → List (List Nat)
  | [] => []
  | c :: cs => setsOf c ++ setsOfList cs
end

def dedup : List (List Nat) → List (List Nat) → List (List Nat)
  | acc, [] => acc
  | acc, x :: xs => if acc.contains x then dedup acc xs else dedup (acc ++ [x]) xs

/-- the table of category names of a tree (`GoTree.names`, by id − 100) -/
def namesOf (t : GoNode) : List (List Nat) := dedup [] ((setsOf t).flatMap payloadCats)

/-! ## `FromGoTree` -/

/-- what the translation reads besides the tree: the `RE2|ECMAScript` option bit (`\Z` is `\z` there) and the
    reading of set payloads -/
structure TP where
  strict : Bool
  rd : List Nat → Option Cls

/-- right nesting of a list of patterns (`nest` of gotree.go) -/
def nest (f : Pat → Pat → Pat) (unit : Pat) : List Pat → Pat
  | [] => unit
  | [x] => x
  | x :: y :: rest => f x (nest f unit (y :: rest))

def nestSeq : List Pat → Pat := nest .seq .empty
def nestAlt : List Pat → Pat := nest .alt .nothing

def bareToPat (X : TP) (t : Nat) : Option Pat :=
  if t == opNothing then some .nothing
  else if t == opBol then some (.anchor .bol)
  else if t == opEol then some (.anchor .eol)
  else if t == opBoundary then some (.anchor .boundary)
  else if t == opNonboundary then some (.anchor .nonboundary)
  else if t == opBeginning then some (.anchor .beginning)
  else if t == opStart then some (.anchor .start)
  else if t == opEndZ then some (.anchor (if X.strict then .end else .endz))
  else if t == opEnd then some (.anchor .end)
  else if t == opUpdateBumpalong then some .empty
  else none

def hiOf (n : Int) : Option Nat := if n == maxInt32 then none else some n.toNat

def isLazyT (t : Nat) : Bool := t == opOnelazy || t == opNotonelazy || t == opSetlazy
def isAtomicT (t : Nat) : Bool := t == opOneloopatomic || t == opNotoneloopatomic || t == opSetloopatomic
def isNotoneFamily (t : Nat) : Bool := t == opNotoneloop || t == opNotonelazy || t == opNotoneloopatomic

/-- the loop node of a single-character loop: `quant`, wrapped in `atomic` for the atomic node types -/
def loopPat (t : Nat) (m n : Int) (body : Pat) : Pat :=
  let q := Pat.quant (isLazyT t) m.toNat (hiOf n) body
  if isAtomicT t then .atomic q else q

mutual
/-- direction bit of the first leaf with a direction below a node, not looking into nested lookarounds
    (a lookaround node's own bit is not part of `GoNode`: the writer does not read it; its body's leaves carry
    the same bit) -/
def lookDir : GoNode → Option Bool
  | .char _ rtl _ _ => some rtl
  | .set rtl _ _ => some rtl
  | .multi rtl _ _ => some rtl
  | .ref rtl _ _ => some rtl
  | .charloop _ rtl _ _ _ _ => some rtl
  | .setloop _ rtl _ _ _ _ => some rtl
  | .concat cs => lookDirList cs
  | .alt cs => lookDirList cs
  | .loop _ _ _ c => lookDir c
  | .capture _ _ c => lookDir c
  | .group c => lookDir c
  | .atomic c => lookDir c
  | .backrefcond1 _ y => lookDir y
  | .backrefcond2 _ y n => (lookDir y).orElse (fun _ => lookDir n)
  | .exprcond2 c y => (lookDir c).orElse (fun _ => lookDir y)
  | .exprcond3 c y n => ((lookDir c).orElse (fun _ => lookDir y)).orElse (fun _ => lookDir n)
  | _ => none
def lookDirList : List GoNode → Option Bool
  | [] => none
  | c :: cs => (lookDir c).orElse (fun _ => lookDirList cs)
end

mutual
/-- `GoTree.node`: the tree below a position of direction `d` as a specification pattern; `none` where
    `FromGoTree` reports "unsupported" (and for lookarounds whose direction the body does not show) -/
def toPat (X : TP) (d : Bool) : GoNode → Option Pat
  | .empty => some .empty
  | .bare t => bareToPat X t
  | .char t rtl _ ch =>
    if rtl == d && decide (0 ≤ ch) then
      (if t == opOne then some (.chr (.one ch.toNat false))
       else if t == opNotone then some (.chr (.notone ch.toNat false)) else none)
    else none
  | .set rtl ci s => if rtl == d && !ci then (X.rd s).map (fun c => .chr (.set c false)) else none
  | .multi rtl ci s => if rtl == d && !ci then some (nestSeq (s.map (fun r => .chr (.one r false)))) else none
  | .ref rtl ci m => if rtl == d && decide (0 ≤ m) then some (.ref m.toNat ci) else none
  | .charloop t rtl _ ch m n =>
    if rtl == d && decide (0 ≤ ch) && charloopTypes.contains t then
      some (loopPat t m n (.chr (if isNotoneFamily t then .notone ch.toNat false else .one ch.toNat false)))
    else none
  | .setloop t rtl ci s m n =>
    if rtl == d && !ci && setloopTypes.contains t then (X.rd s).map (fun c => loopPat t m n (.chr (.set c false)))
    else none
  | .concat cs => (toPatList X d cs).map (fun ps => nestSeq (if d then ps.reverse else ps))
  | .alt cs => (toPatList X d cs).map nestAlt
  | .loop lzy m n c => (toPat X d c).map (fun b => .quant lzy m.toNat (hiOf n) b)
  | .capture m n c => if n == -1 && decide (0 ≤ m) then (toPat X d c).map (.cap m.toNat) else none
  | .group c => toPat X d c
  | .poslook c =>
    match lookDir c with
    | none => none
    | some b => (toPat X b c).map (.look b false)
  | .neglook c =>
    match lookDir c with
    | none => none
    | some b => (toPat X b c).map (.look b true)
  | .atomic c => (toPat X d c).map .atomic
  | .backrefcond1 m y => if 0 ≤ m then (toPat X d y).map (fun y => .refCond m.toNat y .empty) else none
  | .backrefcond2 m y n =>
    if 0 ≤ m then
      match toPat X d y, toPat X d n with
      | some y, some n => some (.refCond m.toNat y n)
      | _, _ => none
    else none
  | .exprcond2 c y =>
    match toPat X d c, toPat X d y with
    | some c, some y => some (.exprCond c y .empty)
    | _, _ => none
  | .exprcond3 c y n =>
    match toPat X d c, toPat X d y, toPat X d n with
    | some c, some y, some n => some (.exprCond c y n)
    | _, _, _ => none
  | .other _ => none
def toPatList (X : TP) (d : Bool) : List GoNode → Option (List Pat)
  | [] => some []
  | c :: cs =>
    match toPat X d c, toPatList X d cs with
    | some p, some ps => some (p :: ps)
    | _, _ => none
end

/-- `FromGoTree`: the tree below the implicit root capture -/
def toPatRoot (X : TP) (d : Bool) : GoNode → Option Pat
  | .capture 0 (-1) body => toPat X d body
  | _ => none

/-! ## the fragments -/

mutual
/-- the smallest tier whose theorem speaks about this tree (given that `toPat` succeeds):
    1 = empty, nothing, anchors, One/Notone/Set, Multi, Concatenate, Alternate, Capture, Group;
    2 = + single-character loops; 3 = + Atomic, lookahead; 4 = + Loop/Lazyloop (general loops, any body);
    5 = + `UpdateBumpalong`; 6 = + Ref (case-sensitive), BackRefCond, ExprCond; 7 = + lookbehind (and, in `InFrag`, the tree
    option RightToLeft) — every node type above read right to left, except the single-character loops; 8 = + right-to-left
    single-character loops; 9 = + ECMAScript boundaries; 10 = balancing groups, case-insensitive Ref, unknown nodes -/
def tier : GoNode → Nat
  | .empty => 1
  | .bare t =>
    if t == opUpdateBumpalong then 5 else if t == opECMABoundary || t == opNonECMABoundary then 9 else 1
  | .char _ _ _ _ => 1
  | .set _ _ _ => 1
  | .multi _ _ _ => 1
  | .ref _ ci _ => if ci then 10 else 6
  | .charloop _ rtl _ _ _ _ => if rtl then 8 else 2
  | .setloop _ rtl _ _ _ _ => if rtl then 8 else 2
  | .concat cs => tierList cs
  | .alt cs => tierList cs
  | .loop _ _ _ c => max 4 (tier c)
  | .capture _ n c => if n == -1 then tier c else 10
  | .group c => tier c
  | .poslook c => if lookDir c == some false then max 3 (tier c) else max 7 (tier c)
  | .neglook c => if lookDir c == some false then max 3 (tier c) else max 7 (tier c)
  | .atomic c => max 3 (tier c)
  | .backrefcond1 _ y => max 6 (tier y)
  | .backrefcond2 _ y n => max 6 (max (tier y) (tier n))
  | .exprcond2 c y => max 6 (max (tier c) (tier y))
  | .exprcond3 c y n => max 6 (max (tier c) (max (tier y) (tier n)))
  | .other _ => 10
def tierList : List GoNode → Nat
  | [] => 1
  | c :: cs => max (tier c) (tierList cs)
end

/-- **the fragment of tier `k`**: the root is the implicit capture of group 0, the translation succeeds in the
    direction of the tree option RightToLeft (every leaf's direction bit is the direction of its position: the option's
    outside lookarounds, right-to-left inside a lookbehind, left-to-right inside a lookahead), only node types of tiers
    `≤ k` occur, the option RightToLeft only from tier 7 on, group 0 has slot 0, and — for a tree of tier 6 or more, where
    groups are read back (`Ref`, `Testref`) — the writer numbers the capture slots by the group numbers themselves (no
    `caps` map: the group numbers are dense) -/
def InFrag (k : Nat) (X : TP) (ti : TreeInfo) (t : GoNode) : Bool :=
  (toPatRoot X ti.rtl t).isSome && decide (tier t ≤ k) && (!ti.rtl || decide (7 ≤ k)) && mapCapnum (mainCfg ti) 0 == 0 &&
    (decide (tier t < 6) || (writerCaps ti).2.isNone)

/-! ## the simulation vocabulary -/

/-- `n` iterations of the interpreter loop lead from `s` to `s'` (no fault, no stop in between) -/
inductive Reach (p : Prog) (env : VM.Env) : VM.VMState → VM.VMState → Prop
  | refl (s : VM.VMState) : Reach p env s s
  | step {s s' s'' : VM.VMState} {chk : Bool} :
      VM.step p env s = .next s' chk → Reach p env s' s'' → Reach p env s s''

/-- the entries of slot `c` that a capture log denotes: `(index, length)` pairs in chronological order,
    flattened as `Match.matches[c]` stores them (`sl`: group number ↦ slot) -/
def slotLog (sl : Nat → Nat) (C : List (Nat × Nat × Nat)) (c : Nat) : List Int :=
  (C.filter (fun x => sl x.1 == c)).flatMap (fun x => [(x.2.1 : Int), (x.2.2 : Int)])

/-- the capture arrays and crawl stack `R` denote the chronological capture log `C`: per slot the live
    prefix of the array is the log of that slot, the count is its number of entries, the crawl stack lists the
    slots in reverse chronological order (what lies behind the live prefix is stale and arbitrary) -/
structure CapRep (sl : Nat → Nat) (N : Nat) (R : MatchBuilder.Runner) (C : List (Nat × Nat × Nat)) : Prop where
  mlen : R.m.matchcount.length = N
  alen : R.m.arrays.length = N
  crawl : R.crawl = (C.map (fun x => sl x.1)).reverse
  inr : ∀ x ∈ C, sl x.1 < N
  cnt : ∀ c, c < N → MatchBuilder.cnt R.m c = (C.filter (fun x => sl x.1 == c)).length
  live : ∀ c, c < N → (MatchBuilder.arr R.m c).take (2 * MatchBuilder.cnt R.m c) = slotLog sl C c
  room : ∀ c, c < N → 2 * MatchBuilder.cnt R.m c ≤ (MatchBuilder.arr R.m c).length ∧
    (MatchBuilder.arr R.m c = [] ∨ 2 ≤ (MatchBuilder.arr R.m c).length)

/-- everything fixed during one attempt -/
structure Setup where
  p : Prog
  env : VM.Env
  se : Spec.Env
  /-- group number ↦ capture slot -/
  sl : Nat → Nat

/-- the interpreter stands at the top of its loop in front of the instruction at `a`, in forward mode, with
    text position `i`, backtracking stack `T`, grouping stack `S` and captures denoting `C` -/
structure Entry (X : Setup) (a : Nat) (i : Nat) (T S : List Int) (C : List (Nat × Nat × Nat))
    (s : VM.VMState) : Prop where
  pc : s.codepos = a
  op : VM.fetch X.p a = .ok s.oper
  tp : s.textpos = (i : Int)
  tr : s.track = T
  st : s.stack = S
  cap : CapRep X.sl X.p.capsize s.cap C

/-- the iteration that starts in `s` fails: its case leaves through `backtrack()` with backtracking stack `T`,
    grouping stack `S` and captures denoting `C` -/
def FailAt (X : Setup) (T S : List Int) (C : List (Nat × Nat × Nat)) (s : VM.VMState) : Prop :=
  ∃ s1, VM.body X.p X.env s = .ok (s1, .back) ∧ s1.track = T ∧ s1.stack = S ∧ CapRep X.sl X.p.capsize s1.cap C

/-- a piece of backtracking stack that consists of whole frames -/
inductive Framed (p : Prog) : List Int → Prop
  | nil : Framed p []
  | cons (c : Int) (d rest : List Int) : VM.frameSize p c = some (d.length + 1) → Framed p rest →
      Framed p (c :: (d ++ rest))

/-- execution from `s` reaches a state satisfying `Q` -/
def Leads (X : Setup) (s : VM.VMState) (Q : VM.VMState → Prop) : Prop := ∃ s', Reach X.p X.env s s' ∧ Q s'

/-- **the code fragment that ends at `b` delivers the successes `rs`, in order, on demand.**  `T` is the backtracking
    stack the fragment was entered above, WITHOUT its bottom slot: the bottom slot (the text position saved by the
    `Lazybranch` at code position 0) is rewritten by `UpdateBumpalong` and never read by any other instruction of the
    fragment, so every state is described up to that slot (`T ++ [v]` for some `v`).  Entered in `s` above `T ++ [v]`
    with grouping stack `S`: for the first success `r` the interpreter reaches `b` at `r.pos` with the captures of `r`,
    grouping stack `S'`, and whole frames `F` on top of `T`; whenever a later failure backtracks into those frames
    (whatever the bottom slot holds by then), the remaining successes are delivered the same way; after the last one the
    fragment fails into `T` with the grouping stack `S` and the captures `C0` it was entered with. -/
def Delivers (X : Setup) (b : Nat) (T S S' : List Int) (C0 : List (Nat × Nat × Nat)) :
    List St → VM.VMState → Prop
  | [], s => Leads X s (fun s' => ∃ v, FailAt X (T ++ [v]) S C0 s')
  | r :: rs, s => ∃ F, Framed X.p F ∧ Leads X s (fun s' => ∃ v, Entry X b r.pos (F ++ T ++ [v]) S' r.caps s') ∧
      ∀ s'' v, FailAt X (F ++ T ++ [v]) S' r.caps s'' → Delivers X b T S S' C0 rs s''

/-- the oracles of the interpreter and of the specification describe the same input: same text and `\G`
    origin, the same word characters, the same `RE2|ECMAScript` bit as the translation, and the k-th set of the
    program contains exactly the runes of the specification's reading of its payload -/
structure EnvRel (T : TP) (sets : List (List Nat)) (env : VM.Env) (se : Spec.Env) : Prop where
  text : env.text = se.text.toArray
  start : env.textstart = (se.textstart : Int)
  word : ∀ r, env.wordChar r = se.isWord r
  strict : env.endzStrict = T.strict
  sets : ∀ k s c, sets[k]? = some s → T.rd s = some c → ∀ r, env.setMem k r = c.mem se false r

end RegexVerif.Compile
