/-
Model of `syntax/escape.go` (`Escape`, `escape`, `Unescape`) and of the part of
`syntax/parser.go` that `Unescape` drives (`scanCharEscape`, `scanOctal`, `scanHex`,
`scanHexUntilBrace`, `scanControl`, `hexDigit`) with the zero-valued parser options
`Unescape` uses.

Runes are `Nat` code points; strings are `List Nat`.  Unicode knowledge is never
re-implemented: `isPrint` (`unicode.IsPrint`) and `isWord` (`syntax.IsWordChar`) are
oracle parameters, the harness supplies their rows from Go's standard tables.
`metaChars` is regenerated from the `meta` constant of the Go source on every run.
-/
import RegexVerif.Generated.Escape

namespace RegexVerif.Escape



def bslash : Nat := 92

/-- lower-case hex digit character for a value < 16 (`strconv.FormatInt(_, 16)`) -/
def hexChar (d : Nat) : Nat := if d < 10 then 48 + d else 87 + d

/-- two lower-case hex digits of a value < 0x100: `strconv.FormatInt(r,16)` left-padded with '0' to
    width 2 (escape.go pads by hand) -/
def hex2 (r : Nat) : List Nat := [hexChar (r / 16), hexChar (r % 16)]

/-- four lower-case hex digits of a value < 0x10000 (left-padded to width 4) -/
def hex4 (r : Nat) : List Nat :=
  [hexChar (r / 4096), hexChar (r / 256 % 16), hexChar (r / 16 % 16), hexChar (r % 16)]

/-- `escape(b, r, false)`: the runes appended for one input rune -/
def escapeRune (isPrint : Nat → Bool) (r : Nat) : List Nat :=
  if isPrint r then
    if Generated.metaChars.contains r then [bslash, r] else [r]
  else if r = 7 then [bslash, 97]        -- \a
  else if r = 12 then [bslash, 102]      -- \f
  else if r = 10 then [bslash, 110]      -- \n
  else if r = 13 then [bslash, 114]      -- \r
  else if r = 9 then [bslash, 116]       -- \t
  else if r = 11 then [bslash, 118]      -- \v
  else if r < 0x100 then [bslash, 120] ++ hex2 r     -- \xHH
  else if r < 0x10000 then [bslash, 117] ++ hex4 r   -- \uHHHH
  else [r]                                                        -- astral, not printable: raw

def escape (isPrint : Nat → Bool) (s : List Nat) : List Nat := s.flatMap (escapeRune isPrint)

/-- `hexDigit` -/
def hexDigit (ch : Nat) : Option Nat :=
  if 48 ≤ ch ∧ ch ≤ 57 then some (ch - 48)
  else if 97 ≤ ch ∧ ch ≤ 102 then some (ch - 97 + 10)
  else if 65 ≤ ch ∧ ch ≤ 70 then some (ch - 65 + 10)
  else none

/-- `scanHex(c)`: exactly `c` hex digits; `none` = ErrTooFewHex -/
def scanHex : Nat → Nat → List Nat → Option (Nat × List Nat)
  | 0, acc, rest => some (acc, rest)
  | c + 1, acc, ch :: rest =>
    match hexDigit ch with
    | some d => scanHex c (acc * 16 + d) rest
    | none => none
  | _ + 1, _, [] => none

/-- `scanHexUntilBrace` (after the `{`) -/
def scanHexBrace : Nat → Bool → List Nat → Option (Nat × List Nat)
  | _, _, [] => none
  | acc, has, ch :: rest =>
    if ch = 125 then (if has then some (acc, rest) else none)
    else match hexDigit ch with
      | none => none
      | some d =>
        let i := acc * 16 + d
        if i > 0x10FFFF then none else scanHexBrace i true rest

/-- `scanOctal`: up to three octal digits, value masked to 8 bits -/
def scanOctal : Nat → Nat → List Nat → Nat × List Nat
  | 0, acc, rest => (acc % 256, rest)
  | c + 1, acc, ch :: rest =>
    if 48 ≤ ch ∧ ch ≤ 55 then scanOctal c (acc * 8 + (ch - 48)) rest else (acc % 256, ch :: rest)
  | _ + 1, acc, [] => (acc % 256, [])

/-- `scanControl` -/
def scanControl : List Nat → Option (Nat × List Nat)
  | [] => none
  | ch :: rest =>
    let ch := if 97 ≤ ch ∧ ch ≤ 122 then ch - 32 else ch
    if 64 ≤ ch ∧ ch - 64 < 32 then some (ch - 64, rest) else none

/-- `scanCharEscape` with zero options; argument is the text after the backslash (non-empty) -/
def scanCharEscape (isWord : Nat → Bool) : List Nat → Option (Nat × List Nat)
  | [] => none
  | ch :: rest =>
    if 48 ≤ ch ∧ ch ≤ 55 then some (scanOctal 3 0 (ch :: rest))
    else if ch = 120 then          -- x
      match rest with
      | 123 :: rest' => scanHexBrace 0 false rest'
      | _ => scanHex 2 0 rest
    else if ch = 117 then scanHex 4 0 rest        -- u
    else if ch = 97 then some (7, rest)
    else if ch = 98 then some (8, rest)
    else if ch = 101 then some (27, rest)
    else if ch = 102 then some (12, rest)
    else if ch = 110 then some (10, rest)
    else if ch = 114 then some (13, rest)
    else if ch = 116 then some (9, rest)
    else if ch = 118 then some (11, rest)
    else if ch = 99 then scanControl rest
    else if isWord ch then none
    else some (ch, rest)

/-- `Unescape`, as a two-state scan with explicit fuel (`fuel ≥ length + 1` always suffices):
    `lit = true` while copying ordinary runes, `lit = false` right after a backslash. -/
def unescapeFuel (isWord : Nat → Bool) : Nat → Bool → List Nat → List Nat → Option (List Nat)
  | 0, _, _, _ => none
  | fuel + 1, true, s, acc =>
    match s with
    | [] => some acc.reverse
    | c :: rest => if c = bslash then unescapeFuel isWord fuel false rest acc
                   else unescapeFuel isWord fuel true rest (c :: acc)
  | fuel + 1, false, s, acc =>
    match scanCharEscape isWord s with     -- `s = []` is ErrIllegalEndEscape (`scanCharEscape [] = none`)
    | none => none
    | some (r, rest) => unescapeFuel isWord fuel true rest (r :: acc)

def unescape (isWord : Nat → Bool) (s : List Nat) : Option (List Nat) :=
  unescapeFuel isWord (2 * s.length + 2) true s []

end RegexVerif.Escape
