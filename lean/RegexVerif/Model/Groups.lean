/-
Model of the capture-group bookkeeping of dlclark/regexp2:

* `syntax/parser.go`: the pre-scan `countCaptures` with `noteCaptureSlot`, `noteCaptureName`,
  `assignNameSlots`, `assignOrderedNameSlots` (MaintainCaptureOrder / ECMAScript), and the part of
  the main parse (`scanGroupOpen`, `consumeAutocap`, `consumeCaptureSlot`) that decides into which
  number every group captures;
* `syntax/writer.go`: the dense remap of sparse numbers (`codeFromTree`, `mapCapnum`);
* `regexp.go`: `GetGroupNames`, `GetGroupNumbers`, `GroupNameFromNumber`, `GroupNumberFromName`;
* `match.go`: `GroupByNumber`, `GroupByName`, the names `Groups()` hands out;
* the resolution of `\N`, `\k<name>` (parser) and `$N`, `${name}` (`scanDollar`, `replacerdata.go`).

Input: the group-opening events of a pattern in the order of their opening parentheses.  Go maps
are association lists in insertion order; `Code.Caps` (number ↦ dense slot) is the list `l` standing
for `l[i] ↦ i`.  Numbers are unbounded `Nat` (the `math.MaxInt32` special case of `noteCaptureSlot`
is outside the model).  The model describes the code as it is after the fixes 2bf8733, 9af4686,
4181360, 14b4ba0, 4579bd8 of /repo (design.d/C17.md, "findings, fixed").
-/
namespace RegexVerif.Groups

inductive Event where
  /-- `( … )` -/
  | unnamed
  /-- `(?<name> … )`, `(?'name' … )`, `(?P<name> … )` -/
  | named (name : String)
  /-- `(?<k> … )` with `k` written without a leading zero -/
  | numbered (k : Nat)
  /-- `(?<0k> … )`: the same number written with leading zeros (a separate event kind because the
      code used to treat it differently; since 14b4ba0 the pre-scan reserves it like `numbered k`) -/
  | numbered0 (k : Nat)
  /-- `(?: … )` and every other non-capturing construct -/
  | noncap
  deriving DecidableEq, Repr

structure Cfg where
  /-- `OptionMaintainCaptureOrder()` -/
  mco : Bool := false
  /-- `ECMAScript` -/
  ecma : Bool := false
  /-- `ExplicitCapture` as a compile option -/
  explicitCapture : Bool := false
  deriving DecidableEq, Repr

/-- `parser.maintainCaptureOrder` (set in `Parse`) -/
def Cfg.ord (c : Cfg) : Bool := c.mco || c.ecma

/-- `strconv.Itoa` -/
def itoa (n : Nat) : String := toString n

/-! ### association lists standing for Go maps -/

/-- `m[k] = v` -/
def setKey (k : String) (v : Nat) : List (String × Nat) → List (String × Nat)
  | [] => [(k, v)]
  | (k', v') :: rest => if k' = k then (k, v) :: rest else (k', v') :: setKey k v rest

/-- position of the first occurrence -/
def idxOf? (x : Nat) : List Nat → Option Nat
  | [] => none
  | y :: ys => if y = x then some 0 else (idxOf? x ys).map (· + 1)

/-- `sort.Ints` -/
def insertSorted (x : Nat) : List Nat → List Nat
  | [] => [x]
  | y :: ys => if x ≤ y then x :: y :: ys else y :: insertSorted x ys

def isort : List Nat → List Nat
  | [] => []
  | x :: xs => insertSorted x (isort xs)

/-! ### the pre-scan -/

/-- the parser fields the capture bookkeeping uses -/
structure PState where
  /-- keys of `p.caps` in insertion order (`p.capcount` is its length) -/
  caps : List Nat := []
  captop : Nat := 0
  autocap : Nat := 0
  /-- `p.capnames` (`none` = nil map) -/
  capnames : Option (List (String × Nat)) := none
  capnamelist : List String := []
  deriving Repr

/-- `noteCaptureSlot` -/
def noteSlot (i : Nat) (s : PState) : PState :=
  if i ∈ s.caps then s
  else { s with caps := s.caps ++ [i], captop := if s.captop ≤ i then i + 1 else s.captop }

/-- `noteCaptureName`; `none` = `ErrDuplicateGroupName` -/
def noteName (cfg : Cfg) (name : String) (s : PState) : Option PState :=
  let names := s.capnames.getD []
  if (names.lookup name).isSome then
    if cfg.ecma then none else some { s with capnames := some names }
  else if cfg.ord then
    let slot := s.autocap
    some (noteSlot slot { s with autocap := slot + 1, capnames := some (names ++ [(name, slot)]),
                                 capnamelist := s.capnamelist ++ [name] })
  else
    -- the value stored here is a pattern position, overwritten by `assignNameSlots`
    some { s with capnames := some (names ++ [(name, 0)]), capnamelist := s.capnamelist ++ [name] }

/-- one `(` of `countCaptures` -/
def scanEvent (cfg : Cfg) (s : PState) : Event → Option PState
  | .noncap => some s
  | .unnamed =>
    if cfg.explicitCapture then some s
    else some (noteSlot s.autocap { s with autocap := s.autocap + 1 })
  | .numbered k =>
    if cfg.ecma then some s          -- a digit does not start an ECMAScript group name: nothing noted
    else if cfg.ord then noteName cfg (itoa k) s
    else some (noteSlot k s)
  | .numbered0 k =>                  -- `(ch != '0' || !useOptionE)`: scanDecimal drops the zeros
    if cfg.ecma then some s
    else if cfg.ord then noteName cfg (itoa k) s
    else some (noteSlot k s)
  | .named name => noteName cfg name s

def scanEvents (cfg : Cfg) : List Event → PState → Option PState
  | [], s => some s
  | e :: es, s => (scanEvent cfg s e).bind (scanEvents cfg es)

/-- state after `noteCaptureSlot(0, 0); autocap = 1` -/
def initState : PState := { caps := [0], captop := 1, autocap := 1 }

/-- `for p.isCaptureSlot(p.autocap) { p.autocap++ }`, with fuel (every slot is below `captop`, so
    `captop - a` steps suffice: `nextFree_spec`) -/
def nextFree (caps : List Nat) : Nat → Nat → Nat
  | 0, a => a
  | f + 1, a => if a ∈ caps then nextFree caps f (a + 1) else a

/-- first loop of `assignNameSlots`: names get the free numbers from `autocap` on -/
def assignLoop : List String → PState → PState
  | [], s => s
  | name :: rest, s =>
    let a := nextFree s.caps (s.captop - s.autocap) s.autocap
    let s1 := noteSlot a { s with autocap := a, capnames := some (setKey name a (s.capnames.getD [])) }
    assignLoop rest { s1 with autocap := a + 1 }

/-- `capnumlist`: the sorted list of used numbers, built only when there is a gap -/
def capnumlistOf (s : PState) : Option (List Nat) :=
  if s.caps.length < s.captop then some (isort s.caps) else none

/-- the merge loop of `assignNameSlots`: walks the used numbers `js` and the old name list in
    parallel; `next` is `capnames[old[k]]` as read when `k` advanced (`none` = -1).
    Returns the new `capnamelist` and the updated `capnames`. -/
def mergeNames : List Nat → List String → Option Nat → List (String × Nat) →
    List String × List (String × Nat)
  | [], _, _, cn => ([], cn)
  | j :: js, old, next, cn =>
    match (if next = some j then old else []) with
    | nm :: old' =>
      let r := mergeNames js old' (old'.head?.bind (fun n => cn.lookup n)) cn
      (nm :: r.1, r.2)
    | [] =>
      -- (`next = some j` with the old list used up cannot happen: `next` is -1 then)
      let r := mergeNames js old next (setKey (itoa j) j cn)
      (itoa j :: r.1, r.2)

/-- tables the parser hands over (`RegexTree`) -/
structure Tables where
  caps : List Nat
  capnumlist : Option (List Nat)
  captop : Nat
  capnames : Option (List (String × Nat))
  caplist : Option (List String)
  deriving Repr

/-- `assignNameSlots` after its first loop: `capnumlist` and the merge of numbers and names -/
def finishNames (s : PState) : Tables :=
  let cnl := capnumlistOf s
  if s.capnames.isSome || cnl.isSome then
    let js := cnl.getD (List.range s.caps.length)
    let cn := s.capnames.getD []
    let old := if s.capnames.isSome then s.capnamelist else []
    let r := mergeNames js old (old.head?.bind (fun n => cn.lookup n)) cn
    { caps := s.caps, capnumlist := cnl, captop := s.captop, capnames := some r.2, caplist := some r.1 }
  else
    { caps := s.caps, capnumlist := cnl, captop := s.captop, capnames := none, caplist := none }

/-- `assignNameSlots` without MaintainCaptureOrder -/
def assignNameSlots (s0 : PState) : Tables :=
  finishNames (if s0.capnames.isSome then assignLoop s0.capnamelist s0 else s0)

/-- `capnamelist[index] = name` for every name, `index` = position of its slot -/
def placeNames (cnl : Option (List Nat)) (cn : List (String × Nat)) : List String → List String → List String
  | [], cl => cl
  | name :: rest, cl =>
    let slot := (cn.lookup name).getD 0
    let index := match cnl with
      | some l => (idxOf? slot l).getD slot
      | none => slot
    placeNames cnl cn rest (cl.set index name)

/-- second loop of `assignOrderedNameSlots` (not run under ECMAScript): unnamed slots get their
    decimal number as name; a name enters `capnames` only if it is not there yet -/
def fillNames : List Nat → List String → List (String × Nat) → List String × List (String × Nat)
  | slot :: slots, nm :: cl, cn =>
    let nm' := if nm = "" then itoa slot else nm
    let cn' := if (cn.lookup nm').isSome then cn else cn ++ [(nm', slot)]
    let r := fillNames slots cl cn'
    (nm' :: r.1, r.2)
  | _, _, cn => ([], cn)

/-- `assignOrderedNameSlots` -/
def assignOrderedNameSlots (cfg : Cfg) (s : PState) : Tables :=
  if !cfg.ecma && s.capnames.isNone && s.caps.length = s.captop then
    { caps := s.caps, capnumlist := none, captop := s.captop, capnames := none, caplist := none }
  else
    let cnl := capnumlistOf s
    let cn := s.capnames.getD []
    let cl := placeNames cnl cn s.capnamelist (List.replicate s.caps.length "")
    let slots := cnl.getD (List.range s.caps.length)
    if cfg.ecma then
      { caps := s.caps, capnumlist := cnl, captop := s.captop, capnames := some cn, caplist := some cl }
    else
      let r := fillNames slots cl cn
      { caps := s.caps, capnumlist := cnl, captop := s.captop, capnames := some r.2, caplist := some r.1 }

/-- `countCaptures`: `none` = the pre-scan reports an error -/
def countCaptures (cfg : Cfg) (evs : List Event) : Option Tables :=
  (scanEvents cfg evs initState).map fun s =>
    if cfg.ord then assignOrderedNameSlots cfg s else assignNameSlots s

/-! ### the main parse: the number every group captures into -/

/-- the digit branch of `scanGroupOpen`: the capture number of `(?<k>…)`.  `none` = parse error
    (`ErrInvalidECMAGroupName`, `ErrCapNumNotZero`, `ErrUnrecognizedGrouping`).  In pattern-order
    mode the pre-scan booked the group under the name `Itoa(k)`: it captures into that slot. -/
def explicitNumber (cfg : Cfg) (t : Tables) (k : Nat) : Option Nat :=
  if cfg.ecma || k = 0 then none
  else if cfg.ord then t.capnames.bind (fun cn => cn.lookup (itoa k))
  else if k ∈ t.caps then some k else none

/-- `scanGroupOpen` for the events in order; `a` is `autocap`.  `none` = parse error
    (`ErrUnrecognizedGrouping`, `ErrCapNumNotZero`, `ErrInvalidECMAGroupName`). -/
def groupNumbers (cfg : Cfg) (t : Tables) : List Event → Nat → Option (List (Option Nat))
  | [], _ => some []
  | .noncap :: es, a => (groupNumbers cfg t es a).map (none :: ·)
  | .unnamed :: es, a =>
    if cfg.explicitCapture then (groupNumbers cfg t es a).map (none :: ·)
    else (groupNumbers cfg t es (a + 1)).map (some a :: ·)
  | .named name :: es, a =>
    match t.capnames.bind (fun cn => cn.lookup name) with
    | some k => (groupNumbers cfg t es (if cfg.ord && k = a then a + 1 else a)).map (some k :: ·)
    | none => none
  | .numbered k :: es, a =>
    match explicitNumber cfg t k with
    | some c => (groupNumbers cfg t es (if cfg.ord && c = a then a + 1 else a)).map (some c :: ·)
    | none => none
  | .numbered0 k :: es, a =>
    match explicitNumber cfg t k with
    | some c => (groupNumbers cfg t es (if cfg.ord && c = a then a + 1 else a)).map (some c :: ·)
    | none => none

/-! ### writer and the compiled regexp -/

/-- everything `Regexp`, `Match` and the replacement parser consult -/
structure Maps where
  ecma : Bool
  /-- keys of the parser's `caps` (what `isCaptureSlot` answers during the main parse) -/
  caps : List Nat
  capnumlist : Option (List Nat)
  captop : Nat
  /-- `re.capnames` -/
  capnames : Option (List (String × Nat))
  /-- `re.capslist` -/
  caplist : Option (List String)
  /-- `re.caps` = `Code.Caps`: `some l` stands for the map `l[i] ↦ i`, `none` for nil -/
  codeCaps : Option (List Nat)
  /-- `re.capsize` = `Code.Capsize` -/
  capsize : Nat
  /-- per event: the group number it captures into (`none`: not capturing) -/
  evNums : List (Option Nat)
  deriving Repr

/-- `codeFromTree`: dense remap when some numbers are unused -/
def writerCaps (t : Tables) : Option (List Nat) × Nat :=
  match t.capnumlist with
  | none => (none, t.captop)
  | some l => if t.captop = l.length then (none, t.captop) else (some l, l.length)

/-- `Parse` + `Write` as far as groups are concerned -/
def assign (evs : List Event) (cfg : Cfg) : Option Maps :=
  (countCaptures cfg evs).bind fun t =>
    (groupNumbers cfg t evs 1).map fun ns =>
      let (cc, cs) := writerCaps t
      { ecma := cfg.ecma, caps := t.caps, capnumlist := t.capnumlist, captop := t.captop,
        capnames := t.capnames, caplist := t.caplist, codeCaps := cc, capsize := cs, evNums := ns }

/-- `writer.mapCapnum` (for a number that is in the map) -/
def slotOf (m : Maps) (n : Nat) : Option Nat :=
  match m.codeCaps with
  | none => some n
  | some l => idxOf? n l

/-- `GetGroupNames` -/
def getGroupNames (m : Maps) : List String :=
  match m.caplist with
  | none => (List.range m.capsize).map itoa
  | some cl => cl

/-- `GetGroupNumbers` (`result[v] = k` over the map `l[i] ↦ i`) -/
def getGroupNumbers (m : Maps) : List Nat :=
  match m.codeCaps with
  | none => List.range m.capsize
  | some l => l

/-- `GroupNameFromNumber` -/
def groupNameFromNumber (m : Maps) (i : Nat) : String :=
  match m.caplist with
  | none => if i < m.capsize then itoa i else ""
  | some cl =>
    match m.codeCaps with
    | some l =>
      match idxOf? i l with
      | none => ""
      | some s => cl.getD s ""
    | none => cl.getD i ""

/-- `GroupNumberFromName` (`none` = -1) -/
def groupNumberFromName (m : Maps) (name : String) : Option Nat :=
  match m.capnames with
  | some cn => cn.lookup name
  | none =>
    -- the decimal string of a group number: not empty, no leading zero, digits only, in range
    -- (the early `result >= capsize` exit of the loop answers as the final range check does)
    match name.toList with
    | [] => none
    | c :: rest =>
      if c = '0' && !rest.isEmpty then none
      else if (c :: rest).all Char.isDigit then
        let r := Nat.ofDigitChars 10 (c :: rest) 0
        if r < m.capsize then some r else none
      else none

/-- `Match.GroupByNumber`: the dense slot it returns (`none` = nil) -/
def groupByNumberSlot (m : Maps) (num : Nat) : Option Nat :=
  match m.codeCaps with
  | some l => idxOf? num l                -- a number missing from the sparse map: nil
  | none => if num < m.capsize then some num else none

/-- `Match.GroupByName` -/
def groupByNameSlot (m : Maps) (name : String) : Option Nat :=
  (groupNumberFromName m name).bind (groupByNumberSlot m)

/-- `Regexp.groupNameFromSlot` -/
def groupNameFromSlot (m : Maps) (s : Nat) : String :=
  match m.caplist with
  | none => if s < m.capsize then itoa s else ""
  | some cl => cl.getD s ""

/-- `Group.Name` of `Match.Groups()[s]` (`newMatch` for group 0, `populateOtherGroups` for the rest) -/
def groupsName (m : Maps) (s : Nat) : String :=
  if s = 0 then (if m.ecma then "" else "0") else groupNameFromSlot m s

/-- `\N` / `\k<N>`: `isCaptureSlot` on the parser's table, then `mapCapnum` -/
def backrefSlot (m : Maps) (n : Nat) : Option Nat :=
  if n ∈ m.caps then slotOf m n else none

/-- `\k<name>`, `(?P=name)` -/
def backrefNameSlot (m : Maps) (name : String) : Option Nat :=
  (m.capnames.bind (fun cn => cn.lookup name)).bind (slotOf m)

/-- `$N` / `${N}`: `scanDollar` with `caps = re.caps`, `capsize = re.capsize`, then
    `slot = caps[slot]` in `NewReplacerData` -/
def replSlot (m : Maps) (n : Nat) : Option Nat :=
  match m.codeCaps with
  | some l => idxOf? n l
  | none => if n < m.capsize then some n else none

/-- `${name}` -/
def replNameSlot (m : Maps) (name : String) : Option Nat :=
  (m.capnames.bind (fun cn => cn.lookup name)).bind fun k =>
    match m.codeCaps with
    | some l => idxOf? k l
    | none => some k

/-- the dense slot the `i`-th group of the pattern writes its captures to -/
def evSlot (m : Maps) (i : Nat) : Option Nat :=
  (m.evNums[i]?).join.bind (slotOf m)

end RegexVerif.Groups
